import Lemmas.TUmask
import Lemmas.TPrep
/-!
  Lemmas/TFail.lean — the situation in which `prepare` fails (`FileAnc`: a proper ancestor of the
  named key is a regular file): every direct call on the base fails there too, with ENOTDIR, and
  changes nothing.
-/
namespace BFS
open MFS

section
variable {bk kk : Key}

theorem osRoot_base : osRoot bk kk .base = bk := rfl

/-- walking into a regular file with real components left: ENOTDIR -/
theorem walk_into_file (m : MFS) (f : Bool) (hops : Nat) (tl : List Name) (ds rest : List Name) (fuel : Nat)
    (hds : PKey ds) (hne : ds ≠ [])
    (hanc : ∀ p, p <+: ds → p ≠ ds → ∃ mt, m.get p = some (.dir mt))
    (hfile : ∃ c mt, m.get ds = some (.file c mt)) (hrest : PKey rest) (hrne : rest ≠ [])
    (hf : ds.length < fuel) :
    walk m f fuel hops [] (ds ++ rest ++ tl) = .err .notDir := by
  have hsplit := dropLast_append_getLast' hne
  have hlast : Plain (ds.getLast hne) := hds.getLast hne
  have hlen : ds.length = ds.dropLast.length + 1 := by
    conv => lhs; rw [← hsplit]
    simp
  have hstep : walk m f fuel hops [] (ds ++ rest ++ tl) =
      walk m f (fuel - ds.dropLast.length) hops ds.dropLast ([ds.getLast hne] ++ (rest ++ tl)) := by
    conv => lhs; rw [← hsplit, List.append_assoc, List.append_assoc]
    rw [walk_dirs m f hops _ ds.dropLast [] fuel hds.dropLast ?_ (by omega)]
    · simp
    · intro p hp hpne
      simp only [List.nil_append]
      apply hanc p (List.IsPrefix.trans hp (dropLast_prefix ds))
      intro e
      rw [e] at hp
      have := hp.length_le
      omega
  rw [hstep]
  obtain ⟨f', hf'⟩ : ∃ f', fuel - ds.dropLast.length = f' + 1 := ⟨fuel - ds.dropLast.length - 1, by omega⟩
  obtain ⟨c, mt, hc⟩ := hfile
  rw [hf', List.singleton_append, walk_step m f f' hops _ hlast, hsplit, hc]
  have htr : trivialRest (rest ++ tl) = false := by
    cases rest with
    | nil => exact absurd rfl hrne
    | cons x xs => exact trivialRest_plain_cons (hrest x (by simp)) _
  simp only [htr]
  rfl

/-- the file in the way, at the OS level -/
theorem fileAnc_os {m : MFS} {k : Key} (h : FileAnc (osView bk kk .base m) k) :
    ∃ a rest, k = a ++ rest ∧ rest ≠ [] ∧ ∃ c mt, m.get (bk ++ a) = some (.file c mt) := by
  obtain ⟨a, ⟨rest, hr⟩, hne, hf⟩ := h
  refine ⟨a, rest, hr.symm, ?_, osView_isFileAt hf⟩
  intro e
  apply hne
  rw [← hr, e, List.append_nil]

theorem namei_fileAnc {m : MFS} (hr : Roots bk kk) (hg : OSGood bk kk m) {k : Key} (hk : PKey k)
    (h : FileAnc (osView bk kk .base m) k) {t : Path} (ht : TextOf t (bk ++ k)) (f : Bool) :
    namei m t f = .err .notDir := by
  obtain ⟨a, rest, hkr, hrne, c, mt, hc⟩ := fileAnc_os h
  subst hkr
  obtain ⟨tl, fuel, _, hf, hw⟩ := namei_walk' (hr.pb.append hk) ht
  rw [hw m f, ← List.append_assoc]
  apply walk_into_file m f 0 tl (bk ++ a) rest fuel (hr.pb.append hk.left) (by simp [hr.nb])
    (fun p hp hne => hg.ancestor hc hp hne) ⟨c, mt, hc⟩ hk.right hrne
  simp only [List.length_append] at hf ⊢
  omega

theorem mkdirAll_fileAnc (hr : Roots bk kk) (perm : Nat) :
    ∀ (fuel : Nat) (k : Key) (t : Path) (m : MFS), OSGood bk kk m → PKey k → FileAnc (osView bk kk .base m) k →
      TextOf t (bk ++ k) → k.length < fuel → m.mkdirAll perm fuel t = (m, .error .notDir) := by
  intro fuel
  induction fuel with
  | zero => intro k t m _ _ _ _ hf; exact absurd hf (Nat.not_lt_zero _)
  | succ fuel ih =>
    intro k t m hg hk hfa ht hf
    have hst : m.stat t = .error .notDir := by
      unfold MFS.stat
      rw [namei_fileAnc hr hg hk hfa ht true]
    obtain ⟨a, ha, hane, hfile⟩ := hfa
    have hne : k ≠ [] := by
      intro e; subst e
      exact hane (List.prefix_nil.mp ha)
    have hKne : bk ++ k ≠ [] := by simp [hne]
    have hpt := text_parent (hr.pb.append hk) hKne ht
    have hpl := parentText_length (bk ++ k)
    have htp : TextOf (parentText (bk ++ k)) (bk ++ k.dropLast) := by
      rw [← append_dropLast hne]; exact parentText_text
    have hlen : k.dropLast.length < fuel := by
      have h1 : k.dropLast.length = k.length - 1 := List.length_dropLast
      have h2 : 0 < k.length := List.length_pos_iff.mpr hne
      omega
    rw [mkdirAll_succ_err m perm fuel t hst, hpt]
    simp only [hpl, if_true]
    have hrec : m.mkdirAll perm fuel (parentText (bk ++ k)) = (m, .error .notDir) := by
      have hap : a <+: k.dropLast := prefix_proper_dropLast ha hane
      by_cases he : a = k.dropLast
      · -- the parent is the file itself
        obtain ⟨f', rfl⟩ : ∃ f', fuel = f' + 1 := ⟨fuel - 1, by omega⟩
        obtain ⟨c, mt, hc⟩ := osView_isFileAt hfile
        rw [he] at hc
        have hst2 : m.stat (parentText (bk ++ k)) = .ok (infoOf (base (parentText (bk ++ k))) (.file c mt)) := by
          rcases stat_text .base hr hg hk.dropLast htp with ⟨n, hn, hs⟩ | ⟨hn, _⟩
          · rw [hc] at hn
            cases hn
            exact hs
          · rw [hc] at hn
            cases hn
        rw [mkdirAll_succ_ok m perm f' _ hst2]
        rfl
      · exact ih k.dropLast _ m hg hk.dropLast ⟨a, hap, he, hfile⟩ htp hlen
    rw [hrec]

/-- every single-path mutating call on the base, and `RemoveAll`, fails with ENOTDIR and changes
nothing when a proper ancestor of the key is a regular file -/
theorem base_call_fileAnc {m : MFS} (hr : Roots bk kk) (hg : OSGood bk kk m) {k : Key} (hk : PKey k)
    (h : FileAnc (osView bk kk .base m) k) :
    (baseFS bk kk).call m (.create (kp k)) = (m, .error .notDir) ∧
    (∀ p, (baseFS bk kk).call m (.mkdir (kp k) p) = (m, .error .notDir)) ∧
    (∀ p, (baseFS bk kk).call m (.mkdirAll (kp k) p) = (m, .error .notDir)) ∧
    (∀ f p, (baseFS bk kk).call m (.openFile (kp k) f p) = (m, .error .notDir)) ∧
    (baseFS bk kk).call m (.remove (kp k)) = (m, .error .notDir) ∧
    (baseFS bk kk).call m (.removeAll (kp k)) = (m, .error .notDir) ∧
    (∀ md, (baseFS bk kk).call m (.chmod (kp k) md) = (m, .error .notDir)) ∧
    (∀ u g, (baseFS bk kk).call m (.chown (kp k) u g) = (m, .error .notDir)) ∧
    (∀ u g, (baseFS bk kk).call m (.lchown (kp k) u g) = (m, .error .notDir)) ∧
    (∀ a t, (baseFS bk kk).call m (.chtimes (kp k) a t) = (m, .error .notDir)) := by
  have hn : ∀ f, namei m (kp (bk ++ k)) f = .err .notDir := fun f => namei_fileAnc hr hg hk h (TextOf.kp _) f
  have hne : k ≠ [] := by
    obtain ⟨a, ha, hane, _⟩ := h
    intro e; subst e
    exact hane (List.prefix_nil.mp ha)
  have hKne : bk ++ k ≠ [] := by simp [hne]
  have hopen : ∀ f p, m.openFile (kp (bk ++ k)) f p = (m, .error .notDir) := by
    intro f p
    unfold MFS.openFile
    simp only [hn]
  have hmeta : ∀ follow f, metaOp m (kp (bk ++ k)) follow f = (m, .error .notDir) := by
    intro follow f
    unfold metaOp
    rw [hn]
  refine ⟨?_, ?_, ?_, ?_, ?_, ?_, ?_, ?_, ?_, ?_⟩
  · show ((osCfg bk kk).side .base).call m _ = _
    rw [side_create .base hr hk]
    simp only [osRoot_base, hopen]
    rfl
  · intro p
    rw [side_call_unit hr .base m (tr_mkdir hr.pb hk p) (x := m.mkdir (kp (bk ++ k)) p) rfl]
    unfold MFS.mkdir
    rw [hn]; rfl
  · intro p
    show ((osCfg bk kk).side .base).call m _ = _
    rw [side_mkdirAll .base hr hk p]
    have hlen : k.length < (kp (bk ++ k)).length + 2 := by
      have := kp_length (hr.pb.append hk)
      simp only [List.length_append] at this
      omega
    simp only [osRoot_base, mkdirAll_fileAnc hr p _ k _ m hg hk h (TextOf.kp _) hlen]
    rfl
  · intro f p
    show ((osCfg bk kk).side .base).call m _ = _
    rw [side_openFile .base hr hk f p]
    simp only [osRoot_base, hopen]
    rfl
  · rw [side_call_unit hr .base m (tr_remove hr.pb hk) (x := m.remove (kp (bk ++ k))) rfl]
    unfold MFS.remove
    rw [hn]; rfl
  · rw [side_call_unit hr .base m (tr_removeAll hr.pb hk) (x := m.removeAll (kp (bk ++ k))) rfl]
    unfold MFS.removeAll
    simp only [kp_ne_nil, if_false, endsWithDot_kp (hr.pb.append hk) hKne, Bool.false_eq_true, hn]
    rfl
  · intro md
    rw [side_call_unit hr .base m (tr_chmod hr.pb hk md) (x := m.chmod (kp (bk ++ k)) md) rfl, mfs_chmod_eq, hmeta]; rfl
  · intro u g
    rw [side_call_unit hr .base m (tr_chown hr.pb hk u g) (x := m.chown (kp (bk ++ k)) u g) rfl, mfs_chown_eq, hmeta]; rfl
  · intro u g
    rw [side_call_unit hr .base m (tr_lchown hr.pb hk u g) (x := m.lchown (kp (bk ++ k)) u g) rfl, mfs_lchown_eq, hmeta]; rfl
  · intro a t
    rw [side_call_unit hr .base m (tr_chtimes hr.pb hk a t) (x := m.chtimes (kp (bk ++ k)) t) rfl, mfs_chtimes_eq, hmeta]; rfl

/-- `Rename` with a regular file above either name fails (ENOTDIR, or the ENOENT/ENOTDIR of the old name)
and changes nothing -/
theorem base_rename_fileAnc {m : MFS} (hr : Roots bk kk) (hg : OSGood bk kk m) {ko kn : Key} (hko : PKey ko)
    (hkn : PKey kn) (h : FileAnc (osView bk kk .base m) ko ∨ FileAnc (osView bk kk .base m) kn) :
    ∃ e, (baseFS bk kk).call m (.rename (kp ko) (kp kn)) = (m, .error e) ∧ e.isNotFound = true := by
  rw [side_call_unit hr .base m (tr_rename hr.pb hko hkn) (x := m.rename (kp (bk ++ ko)) (kp (bk ++ kn))) rfl]
  unfold MFS.rename
  simp only
  rcases h with h | h
  · rw [namei_fileAnc hr hg hko h (TextOf.kp _) false]
    cases namei m (kp (bk ++ kn)) false with
    | err e => exact ⟨_, rfl, rfl⟩
    | missing a b => exact ⟨_, rfl, rfl⟩
    | found k' n =>
      cases n <;> exact ⟨_, rfl, rfl⟩
  · rw [namei_fileAnc hr hg hkn h (TextOf.kp _) false]
    rcases namei_cases hg (hr.pb.append hko) (hg.noLinkUpto .base ko) (TextOf.kp _) false with
      ⟨n, _, _, hres⟩ | ⟨_, _, _, _, hres⟩ | ⟨e, _, _, _, hres, he⟩
    · rw [hres]; exact ⟨_, rfl, rfl⟩
    · rw [hres]; exact ⟨_, rfl, rfl⟩
    · rw [hres]; exact ⟨_, rfl, he⟩

end

end BFS
