import Lemmas.LFPhase12
/-!
  Lemmas/LFPhase34.lean — `Rollback` over an `LSim` under an arbitrary fault plan, phases 3 and 4:
  restoration of regular files (`restoreFile`: `Open` on the backup, `Stat` on the handle, `Lstat` on
  the base, the make-room `Remove` of a symlink or directory in the way, `copyFile`, the deferred
  `Close` whose error the code drops) and of symlinks (`restoreSymlink`: `Lstat` on the backup,
  `Lstat` on the base, `Remove` of whatever sits there, `copySymlink` = `Readlink` on the backup,
  `Symlink` and `Lchown` on the base), each with "the loop's flag is `false`" as hypothesis.
-/
namespace BFS
namespace L
open BackupFS

variable {cfg : Cfg} {S : LSim cfg} {v0 : View}

/-! ### phase 3 under faults -/

theorem phase3F {w w2 : World} (hinv : Inv S v0 w)
    (hmid : MidF S v0 w (fun k => PKey k ∧ (TN w k ∨ TSDir w k)) w2)
    (l : List Path) (hl : ∀ p, p ∈ l ↔ ∃ k, PKey k ∧ p = kp k ∧ TSFile w k) (hnd : l.Nodup) :
    Sat (forEachCollect (restoreFileAct cfg w.infos) (sortStrings l)) w2 (fun w' r => r = .ok false →
      MidF S v0 w (fun k => PKey k ∧ (TN w k ∨ TSDir w k ∨ TSFile w k)) w') := by
  let D : List Path → Key → Prop := fun rest k => PKey k ∧ (TN w k ∨ TSDir w k ∨ (TSFile w k ∧ kp k ∉ rest))
  let J : List Path → World → Prop := fun rest w' =>
    rest.Nodup ∧ (∀ p ∈ rest, p ∈ l) ∧ MidF S v0 w (D rest) w'
  have hperm := sortBy_perm strLt l
  have hstep : ∀ x rest w', J (x :: rest) w' →
      Sat (restoreFileAct cfg w.infos x) w' (fun w'' r => r = .ok () → J rest w'') := by
    intro x rest w' ⟨hnd', hmem, hm⟩
    obtain ⟨k, hk, rfl, i, hts, hkind⟩ := (hl x).mp (hmem x (by simp))
    have hxr : kp k ∉ rest := (List.nodup_cons.mp hnd').1
    obtain ⟨c, mtb, htarget, hbak⟩ := hinv.file_target hk hts hkind
    obtain ⟨n, hn, hfor, hperm4⟩ := hinv.ts_node hk hts
    have hreg : i.isRegular = true := by simp [Info.isRegular, hkind]
    have hkne : k ≠ [] := by
      intro e; subst e
      obtain ⟨mt, hroot⟩ := hinv.v0_root
      rw [htarget] at hroot; cases hroot
    have hnodir : ¬ v0.isDirAt k := by
      rintro ⟨mt, h⟩; rw [htarget] at h; cases h
    -- nothing is left below the key
    have hbelow : ∀ j, k <+: j → j ≠ k → S.view .base w'.fs j = none := by
      intro j hj hjk
      have horig := hinv.v0_below hnodir j hj hjk
      by_cases hD : D (kp k :: rest) j
      · rw [hm.done j hD]; exact horig
      · rw [hm.rest j hD]
        apply Classical.byContradiction
        intro hne
        have hpj : PKey j := S.pkey hinv.good hne
        exact hD ⟨hpj, Or.inl (hinv.present_new hpj hne horig)⟩
    -- the parent directory has been restored
    have hparent : (S.view .base w'.fs).isDirAt k.dropLast := by
      rcases hinv.parent_tsdir hk hts hkne with ha | ha
      · rw [ha]; exact S.root_dir hm.good
      · have hpa : PKey k.dropLast := hk.dropLast
        obtain ⟨_, ia, htsa, hka⟩ := ha
        unfold View.isDirAt
        rw [hm.done _ ⟨hpa, Or.inr (Or.inl ⟨‹_›, ia, htsa, hka⟩)⟩, hinv.dir_target hpa htsa hka]
        exact ⟨_, rfl⟩
    have hak : k.dropLast ≠ k := by
      intro e; have := dropLast_length_lt hkne; rw [e] at this; omega
    have hpar : ∀ w3, S.Chg .base (· = k) w' w3 → (S.view .base w3.fs).parentDir k := by
      intro w3 hc
      refine ⟨hkne, ?_⟩
      unfold View.isDirAt
      rw [hc.frame _ hak]
      exact hparent
    have hacc : NoLinkAnc (S.view .base w'.fs) k := S.noLinkAnc_parentDir hm.good ⟨hkne, hparent⟩
    have hvk' : S.view .backup w'.fs k = some (.file c mtb) := by rw [hm.backup]; exact hbak
    unfold restoreFileAct
    simp only [infoFor_ts hts]
    unfold restoreFile
    apply Sat.bind
    apply (sat_open_ro (S := S) (s := .backup) hm.good hk (S.accF_present hm.good hvk' rfl)).mono
    intro wa ra ⟨hsa, hwh, _⟩
    cases ra with
    | error e => intro h; cases h
    | ok f =>
    obtain ⟨hside, hH, hflag⟩ := hwh f rfl
    simp only
    have hga : S.G wa.fs := hsa.fs ▸ hm.good
    apply Sat.bind
    apply Sat.attempt
    -- the body of restoreFile
    have hbody : Sat (do
        let fi ← hStat cfg f
        let baseFi ← lexists cfg .base (kp k)
        let replaced := match baseFi with
          | some b => !b.isRegular
          | none => false
        if !fi.isRegular then primUnit cfg .base (.removeAll (kp k))
        else BFS.whenM replaced (primUnit cfg .base (.remove (kp k)))
        copyFile cfg .base (kp k) i f : M Unit) wa
        (fun w3 r => r = .ok () → S.Chg .base (· = k) w' w3 ∧ S.view .base w3.fs k = some (restoredFile c i)) := by
      apply Sat.bind
      apply (sat_hStat (S := S) (wh := f) (k := k) hga (by rw [hside]; exact hH)
        (by rw [hside, hsa.fs]; exact hvk')).mono
      intro wb rb ⟨hsb, _, hfi⟩
      cases rb with
      | error e => intro h; cases h
      | ok fi =>
      have hfireg : fi.isRegular = true := by
        have := (hfi fi rfl).1
        simp [Info.isRegular, this, Node.kind]
      simp only
      have hsab := hsa.trans hsb
      have hgb : S.G wb.fs := hsab.fs ▸ hm.good
      apply Sat.bind
      apply (sat_lexistsF (S := S) (s := .base) hgb hk (by rw [hsab.fs]; exact hacc)).mono
      intro wc rc ⟨hsc, hsome, hnone⟩
      have hsac := hsab.trans hsc
      have hgc : S.G wc.fs := hsac.fs ▸ hm.good
      cases rc with
      | error e => intro h; cases h
      | ok cur =>
      simp only [hfireg, Bool.not_true, Bool.false_eq_true, if_false]
      -- Remove of whatever is in the way (a symlink, or a directory that is empty by now)
      have hrm : S.view .base w'.fs k ≠ none →
          Sat (primUnit cfg .base (.remove (kp k))) wc (fun w3 r => r = .ok () →
            S.Chg .base (· = k) w' w3 ∧ CanWrite (S.view .base w3.fs) k) := by
        intro hv
        apply (sat_remove_at (S := S) hgc hk hkne (by rw [hsac.fs]; exact hacc)
          (by rw [hsac.fs]; exact hv) (by rw [hsac.fs]; exact hbelow)).mono
        intro w3 r3 ⟨hc3, hp3, _⟩ hr
        have hc := LSim.Chg.same_left hsac hc3
        exact ⟨hc, Or.inr ⟨hp3 hr, hpar w3 hc⟩⟩
      have hroom : Sat (BFS.whenM (match (generalizing := false) cur with
          | some b => !b.isRegular
          | none => false) (primUnit cfg .base (.remove (kp k)))) wc (fun w3 r => r = .ok () →
            S.Chg .base (· = k) w' w3 ∧ CanWrite (S.view .base w3.fs) k) := by
        cases cur with
        | none =>
          have hv : S.view .base w'.fs k = none := by rw [← hsab.fs]; exact hnone rfl
          apply Sat.whenM
          · intro h; cases h
          · intro _ _
            have hc := LSim.Chg.of_same (S := S) (s := .base) (K := (· = k)) hm.good hsac
            exact ⟨hc, Or.inr ⟨by rw [hsac.fs]; exact hv, hpar wc hc⟩⟩
        | some bi =>
          obtain ⟨nd, hv0, hbi⟩ := hsome bi rfl
          have hv : S.view .base w'.fs k = some nd := by rw [← hsab.fs]; exact hv0
          cases nd with
          | file c' mt' =>
            have : bi.isRegular = true := by simp [Info.isRegular, hbi.1, Node.kind]
            apply Sat.whenM
            · intro h; simp [this] at h
            · intro _ _
              exact ⟨LSim.Chg.of_same hm.good hsac, Or.inl ⟨c', mt', by rw [hsac.fs]; exact hv⟩⟩
          | link t mt' =>
            apply Sat.whenM
            · intro _
              exact hrm (by rw [hv]; simp)
            · intro h
              have : bi.isRegular = false := by simp [Info.isRegular, hbi.1, Node.kind]
              simp [this] at h
          | dir mt' =>
            apply Sat.whenM
            · intro _
              exact hrm (by rw [hv]; simp)
            · intro h
              have : bi.isRegular = false := by simp [Info.isRegular, hbi.1, Node.kind]
              simp [this] at h
      apply Sat.bind
      apply hroom.mono
      intro w3 r3 h3
      cases r3 with
      | error e => intro h; cases h
      | ok u3 =>
      obtain ⟨hc3, hcw3⟩ := h3 rfl
      simp only
      have hvk3 : S.view Side.base.other w3.fs k = some (.file c mtb) := by
        rw [hc3.other]; exact hvk'
      have hacc3 : AccF (S.view .base w3.fs) k := by
        refine ⟨S.noLinkAnc_parentDir hc3.good (hpar w3 hc3), ?_⟩
        rcases hcw3 with hf | ⟨hn, _⟩
        · exact isLinkAt_not_file hf
        · exact isLinkAt_not_none hn
      apply (sat_copyFile (S := S) (s := .base) (ks := k) (data := c) (mt0 := mtb) hc3.good hk hacc3
        hside hH (by rw [hflag]; decide) hvk3 hreg hperm4).mono
      intro w4 r4 ⟨hc4, hp4, _⟩ hr
      exact ⟨hc3.trans hc4, hp4 hr⟩
    apply hbody.mono
    intro w3 r3 h3
    simp only
    apply Sat.bind
    apply Sat.attempt
    -- the deferred Close of the backup handle: its error is dropped, and it does not touch the disk
    apply (sat_hClose (wh := f) (w := w3)).mono
    intro w4 r4 ⟨hs4, _⟩
    simp only
    cases r3 with
    | error e => intro h; cases h
    | ok u3 =>
    obtain ⟨hc3, hv3⟩ := h3 rfl
    apply Sat.pure
    intro _
    refine ⟨(List.nodup_cons.mp hnd').2, fun p hp' => hmem p (List.mem_cons_of_mem _ hp'), ?_⟩
    apply hm.step (hc3.same_right hs4).toChgL (by rw [hs4.fs, hv3, htarget])
    intro j
    constructor
    · rintro ⟨hj, htn | hd | ⟨hf, hjr⟩⟩
      · exact Or.inl ⟨hj, Or.inl htn⟩
      · exact Or.inl ⟨hj, Or.inr (Or.inl hd)⟩
      · by_cases hjk : j = k
        · exact Or.inr hjk
        · left
          refine ⟨hj, Or.inr (Or.inr ⟨hf, ?_⟩)⟩
          intro hin
          rcases List.mem_cons.mp hin with heq | hin
          · exact hjk (kp_inj hj hk heq)
          · exact hjr hin
    · rintro (⟨hj, htn | hd | ⟨hf, hjr⟩⟩ | rfl)
      · exact ⟨hj, Or.inl htn⟩
      · exact ⟨hj, Or.inr (Or.inl hd)⟩
      · exact ⟨hj, Or.inr (Or.inr ⟨hf, fun hin => hjr (List.mem_cons_of_mem _ hin)⟩)⟩
      · exact ⟨hk, Or.inr (Or.inr ⟨⟨i, hts, hkind⟩, hxr⟩)⟩
  have hinit : J (sortStrings l) w2 := by
    refine ⟨hperm.nodup_iff.mpr hnd, fun p hp => hperm.mem_iff.mp hp, ?_⟩
    apply hmid.congr
    intro k
    constructor
    · rintro ⟨hk, htn | hd⟩
      · exact ⟨hk, Or.inl htn⟩
      · exact ⟨hk, Or.inr (Or.inl hd)⟩
    · rintro ⟨hk, htn | hd | ⟨hf, hnin⟩⟩
      · exact ⟨hk, Or.inl htn⟩
      · exact ⟨hk, Or.inr hd⟩
      · exact absurd (hperm.mem_iff.mpr ((hl (kp k)).mpr ⟨k, hk, rfl, hf⟩)) hnin
  apply (sat_forEachF hstep (sortStrings l) w2 hinit).mono
  intro w' r hfin hr
  obtain ⟨_, _, hm⟩ := hfin hr
  refine hm.congr ?_
  intro k
  simp [D]

/-! ### phase 4 under faults: the symlinks -/

theorem phase4F {w w3 : World} (hinv : Inv S v0 w)
    (hmid : MidF S v0 w (fun k => PKey k ∧ (TN w k ∨ TSDir w k ∨ TSFile w k)) w3)
    (l : List Path) (hl : ∀ p, p ∈ l ↔ ∃ k, PKey k ∧ p = kp k ∧ TSLink w k) (hnd : l.Nodup) :
    Sat (forEachCollect (restoreLinkAct cfg w.infos) (sortStrings l)) w3 (fun w' r => r = .ok false →
      MidF S v0 w (fun k => PKey k ∧ (TN w k ∨ TSDir w k ∨ TSFile w k ∨ TSLink w k)) w') := by
  let D : List Path → Key → Prop := fun rest k =>
    PKey k ∧ (TN w k ∨ TSDir w k ∨ TSFile w k ∨ (TSLink w k ∧ kp k ∉ rest))
  let J : List Path → World → Prop := fun rest w' =>
    rest.Nodup ∧ (∀ p ∈ rest, p ∈ l) ∧ MidF S v0 w (D rest) w'
  have hperm := sortBy_perm strLt l
  have hstep : ∀ x rest w', J (x :: rest) w' →
      Sat (restoreLinkAct cfg w.infos x) w' (fun w'' r => r = .ok () → J rest w'') := by
    intro x rest w' ⟨hnd', hmem, hm⟩
    obtain ⟨k, hk, rfl, i, hts, hkind⟩ := (hl x).mp (hmem x (by simp))
    have hxr : kp k ∉ rest := (List.nodup_cons.mp hnd').1
    obtain ⟨t, mtb, htarget, hbak, hlok⟩ := hinv.link_target hk hts hkind
    have hkne : k ≠ [] := by
      intro e; subst e
      obtain ⟨mt, hroot⟩ := hinv.v0_root
      rw [htarget] at hroot; cases hroot
    have hnodir : ¬ v0.isDirAt k := by
      rintro ⟨mt, h⟩; rw [htarget] at h; cases h
    -- nothing is left below the key
    have hbelow : ∀ j, k <+: j → j ≠ k → S.view .base w'.fs j = none := by
      intro j hj hjk
      have horig := hinv.v0_below hnodir j hj hjk
      by_cases hD : D (kp k :: rest) j
      · rw [hm.done j hD]; exact horig
      · rw [hm.rest j hD]
        apply Classical.byContradiction
        intro hne
        have hpj : PKey j := S.pkey hinv.good hne
        exact hD ⟨hpj, Or.inl (hinv.present_new hpj hne horig)⟩
    -- the parent directory has been restored
    have hparent : (S.view .base w'.fs).isDirAt k.dropLast := by
      rcases hinv.parent_tsdir hk hts hkne with ha | ha
      · rw [ha]; exact S.root_dir hm.good
      · have hpa : PKey k.dropLast := hk.dropLast
        obtain ⟨_, ia, htsa, hka⟩ := ha
        unfold View.isDirAt
        rw [hm.done _ ⟨hpa, Or.inr (Or.inl ⟨‹_›, ia, htsa, hka⟩)⟩, hinv.dir_target hpa htsa hka]
        exact ⟨_, rfl⟩
    have hak : k.dropLast ≠ k := by
      intro e; have := dropLast_length_lt hkne; rw [e] at this; omega
    have hpar : ∀ w3, S.Chg .base (· = k) w' w3 → (S.view .base w3.fs).parentDir k := by
      intro w3 hc
      refine ⟨hkne, ?_⟩
      unfold View.isDirAt
      rw [hc.frame _ hak]
      exact hparent
    have hacc : NoLinkAnc (S.view .base w'.fs) k := S.noLinkAnc_parentDir hm.good ⟨hkne, hparent⟩
    have hvk' : S.view .backup w'.fs k = some (.link t mtb) := by rw [hm.backup]; exact hbak
    unfold restoreLinkAct
    simp only [infoFor_ts hts]
    unfold restoreSymlink
    -- the existence check on the backup (a refused call is an error of the act)
    apply Sat.bind
    apply (sat_lexistsF (S := S) (s := .backup) hm.good hk
      (S.noLinkAnc_present hm.good (by rw [hvk']; simp))).mono
    intro wa ra ⟨hsa, _, _⟩
    cases ra with
    | error e => intro h; cases h
    | ok bo =>
    cases bo with
    | none =>
      simp only
      apply Sat.throw
      intro h; cases h
    | some bi =>
    simp only
    have hga : S.G wa.fs := hsa.fs ▸ hm.good
    -- what is at the key in the base
    apply Sat.bind
    apply (sat_lexistsF (S := S) (s := .base) hga hk (by rw [hsa.fs]; exact hacc)).mono
    intro wb rb ⟨hsb, hsome, hnone⟩
    have hsab := hsa.trans hsb
    have hgb : S.G wb.fs := hsab.fs ▸ hm.good
    cases rb with
    | error e => intro h; cases h
    | ok cur =>
    simp only
    have hroom : Sat (BFS.whenM cur.isSome (primUnit cfg .base (.remove (kp k)))) wb (fun w3 r => r = .ok () →
          S.Chg .base (· = k) w' w3 ∧ S.view .base w3.fs k = none) := by
      cases cur with
      | none =>
        have hv : S.view .base w'.fs k = none := by rw [← hsa.fs]; exact hnone rfl
        apply Sat.whenM
        · intro h; cases h
        · intro _ _
          exact ⟨LSim.Chg.of_same hm.good hsab, by rw [hsab.fs]; exact hv⟩
      | some ci =>
        obtain ⟨nd, hv0, _⟩ := hsome ci rfl
        have hv : S.view .base w'.fs k = some nd := by rw [← hsa.fs]; exact hv0
        apply Sat.whenM
        · intro _
          apply (sat_remove_at (S := S) hgb hk hkne (by rw [hsab.fs]; exact hacc)
            (by rw [hsab.fs, hv]; simp) (by rw [hsab.fs]; exact hbelow)).mono
          intro w3 r3 ⟨hc3, hp3, _⟩ hr
          exact ⟨LSim.Chg.same_left hsab hc3, hp3 hr⟩
        · intro h; cases h
    apply Sat.bind
    apply hroom.mono
    intro w3 r3 h3
    cases r3 with
    | error e => intro h; cases h
    | ok u3 =>
    obtain ⟨hc3, hnone3⟩ := h3 rfl
    simp only
    have hvk3 : S.view Side.base.other w3.fs k = some (.link t mtb) := by
      rw [hc3.other]; exact hvk'
    have hpar3 := hpar w3 hc3
    -- re-create the link
    apply (sat_copySymlink (S := S) (s := .base) (i := i) (t := t) (mt0 := mtb) hc3.good hk
      (S.noLinkAnc_parentDir hc3.good hpar3) hvk3).mono
    intro w4 r4 ⟨hc4, hp4, _⟩ hr
    obtain ⟨mt', hv4, hu4, hg4⟩ := hp4 hr
    obtain ⟨hfr4, hmd4⟩ := S.link_erased hc4.good hv4
    refine ⟨(List.nodup_cons.mp hnd').2, fun p hp' => hmem p (List.mem_cons_of_mem _ hp'), ?_⟩
    apply hm.step (hc3.toChgL.trans hc4) (by
      rw [hv4, htarget]
      cases mt'
      simp only at hu4 hg4 hfr4 hmd4
      simp [restoredLink, hu4, hg4, hfr4, hmd4])
    intro j
    constructor
    · rintro ⟨hj, htn | hd | hf | ⟨hlk, hjr⟩⟩
      · exact Or.inl ⟨hj, Or.inl htn⟩
      · exact Or.inl ⟨hj, Or.inr (Or.inl hd)⟩
      · exact Or.inl ⟨hj, Or.inr (Or.inr (Or.inl hf))⟩
      · by_cases hjk : j = k
        · exact Or.inr hjk
        · left
          refine ⟨hj, Or.inr (Or.inr (Or.inr ⟨hlk, ?_⟩))⟩
          intro hin
          rcases List.mem_cons.mp hin with heq | hin
          · exact hjk (kp_inj hj hk heq)
          · exact hjr hin
    · rintro (⟨hj, htn | hd | hf | ⟨hlk, hjr⟩⟩ | rfl)
      · exact ⟨hj, Or.inl htn⟩
      · exact ⟨hj, Or.inr (Or.inl hd)⟩
      · exact ⟨hj, Or.inr (Or.inr (Or.inl hf))⟩
      · exact ⟨hj, Or.inr (Or.inr (Or.inr ⟨hlk, fun hin => hjr (List.mem_cons_of_mem _ hin)⟩))⟩
      · exact ⟨hk, Or.inr (Or.inr (Or.inr ⟨⟨i, hts, hkind⟩, hxr⟩))⟩
  have hinit : J (sortStrings l) w3 := by
    refine ⟨hperm.nodup_iff.mpr hnd, fun p hp => hperm.mem_iff.mp hp, ?_⟩
    apply hmid.congr
    intro k
    constructor
    · rintro ⟨hk, htn | hd | hf⟩
      · exact ⟨hk, Or.inl htn⟩
      · exact ⟨hk, Or.inr (Or.inl hd)⟩
      · exact ⟨hk, Or.inr (Or.inr (Or.inl hf))⟩
    · rintro ⟨hk, htn | hd | hf | ⟨hlk, hnin⟩⟩
      · exact ⟨hk, Or.inl htn⟩
      · exact ⟨hk, Or.inr (Or.inl hd)⟩
      · exact ⟨hk, Or.inr (Or.inr hf)⟩
      · exact absurd (hperm.mem_iff.mpr ((hl (kp k)).mpr ⟨k, hk, rfl, hlk⟩)) hnin
  apply (sat_forEachF hstep (sortStrings l) w3 hinit).mono
  intro w' r hfin hr
  obtain ⟨_, _, hm⟩ := hfin hr
  refine hm.congr ?_
  intro k
  simp [D]

end L
end BFS
