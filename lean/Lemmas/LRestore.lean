import Lemmas.LInv
import Lemmas.Restore
/-!
  Lemmas/LRestore.lean — `Rollback` over an `LSim` (trees with symlinks as leaves): on healthy
  filesystems (empty fault plan), started in a state satisfying the transaction invariant
  `BFS.L.Inv`, it puts every key of the base view except the root back to what it was when the
  transaction began — including keys that originally held a symlink — and it creates no symlink in
  the backup view and changes no backup symlink's target.

  The development parallels Lemmas/Restore.lean (the link-free proof); S-independent lemmas are
  reused from there.
-/
namespace BFS
namespace L
open BackupFS

variable {cfg : Cfg} {S : LSim cfg} {v0 : View}

/-! ### lexists without faults -/

theorem sat_lexists {s : Side} {k : Key} {w : World} (hg : S.G w.fs) (hk : PKey k) (hnf : w.faults = [])
    (hacc : NoLinkAnc (S.view s w.fs) k) :
    Sat (lexists cfg s (kp k)) w (fun w' r => SameFS w w' ∧
      (∀ n, S.view s w.fs k = some n → ∃ i, r = .ok (some i) ∧ InfoForL i n) ∧
      (S.view s w.fs k = none → r = .ok none)) := by
  unfold lexists
  apply Sat.bind
  apply Sat.attempt
  apply (sat_lstat hg hk hacc).mono
  intro w1 r ⟨hs, hr⟩
  simp only
  rcases hr with ⟨n, i, hv, rfl, hfor⟩ | ⟨hv, e, rfl, hnfd⟩ | ⟨_, hf⟩
  · apply Sat.pure
    refine ⟨hs, ?_, ?_⟩
    · intro n' hn'; rw [hv] at hn'; cases hn'; exact ⟨i, rfl, hfor⟩
    · intro h; rw [hv] at h; cases h
  · simp only [hnfd, if_true]
    apply Sat.pure
    refine ⟨hs, ?_, fun _ => rfl⟩
    intro n' hn'; rw [hv] at hn'; cases hn'
  · exact absurd hnf hf

/-! ### the first loop of Rollback -/

structure Classified (S : LSim cfg) (w : World) (l : List (Path × Option Info)) (pl pl' : RollbackPlan) : Prop where
  failed : pl'.failed = pl.failed
  removeBase : ∀ p, p ∈ pl'.removeBase ↔ p ∈ pl.removeBase ∨
    ∃ k, PKey k ∧ p = kp k ∧ (p, none) ∈ l ∧ S.view .base w.fs k ≠ none
  dirs : ∀ p, p ∈ pl'.dirs ↔ p ∈ pl.dirs ∨ ∃ i, (p, some i) ∈ l ∧ p ≠ rootP ∧ i.kind = .dir
  files : ∀ p, p ∈ pl'.files ↔ p ∈ pl.files ∨ ∃ i, (p, some i) ∈ l ∧ p ≠ rootP ∧ i.kind = .file
  links : ∀ p, p ∈ pl'.links ↔ p ∈ pl.links ∨ ∃ i, (p, some i) ∈ l ∧ p ≠ rootP ∧ i.kind = .link

theorem Classified.nil (w : World) (pl : RollbackPlan) : Classified S w [] pl pl :=
  ⟨rfl, fun p => by simp, fun p => by simp, fun p => by simp, fun p => by simp⟩

theorem sat_classify :
    ∀ (l : List (Path × Option Info)) (pl : RollbackPlan) (w : World), S.G w.fs → w.faults = [] →
      (∀ p oi, (p, oi) ∈ l → ∃ k, PKey k ∧ p = kp k) →
      (∀ p oi, (p, oi) ∈ l → ∀ k, PKey k → p = kp k → NoLinkAnc (S.view .base w.fs) k) →
      Sat (classify cfg l pl) w (fun w' r => SameFS w w' ∧ ∃ pl', r = .ok pl' ∧ Classified S w l pl pl')
  | [], pl, w, _, _, _, _ => by
    unfold classify
    exact Sat.pure ⟨SameFS.refl w, pl, rfl, Classified.nil w pl⟩
  | (p, none) :: rest, pl, w, hg, hnf, hkeys, hacc => by
    unfold classify
    obtain ⟨k, hk, rfl⟩ := hkeys p none (by simp)
    have hkeys' : ∀ p oi, (p, oi) ∈ rest → ∃ k, PKey k ∧ p = kp k :=
      fun p oi h => hkeys p oi (List.mem_cons_of_mem _ h)
    have hacc' : ∀ p oi, (p, oi) ∈ rest → ∀ k, PKey k → p = kp k → NoLinkAnc (S.view .base w.fs) k :=
      fun p oi h => hacc p oi (List.mem_cons_of_mem _ h)
    apply Sat.bind
    apply Sat.attempt
    apply (sat_lexists (S := S) hg hk hnf (hacc _ none (by simp) k hk rfl)).mono
    intro w1 r1 ⟨hs1, hsome, hnone⟩
    have hg1 : S.G w1.fs := hs1.fs ▸ hg
    have hnf1 : w1.faults = [] := by rw [hs1.faults]; exact hnf
    have hacc1 : ∀ p oi, (p, oi) ∈ rest → ∀ k, PKey k → p = kp k → NoLinkAnc (S.view .base w1.fs) k := by
      rw [hs1.fs]; exact hacc'
    simp only
    cases hv : S.view .base w.fs k with
    | none =>
      rw [hnone hv]
      simp only
      apply (sat_classify rest pl w1 hg1 hnf1 hkeys' hacc1).mono
      intro w2 r2 ⟨hs2, pl', hr2, hc⟩
      refine ⟨hs1.trans hs2, pl', hr2, ?_⟩
      have hfs : w1.fs = w.fs := hs1.fs
      refine ⟨hc.failed, ?_, ?_, ?_, ?_⟩
      · intro q
        rw [hc.removeBase q, hfs]
        constructor
        · rintro (h | ⟨j, hj, rfl, hm, hp⟩)
          · exact Or.inl h
          · exact Or.inr ⟨j, hj, rfl, List.mem_cons_of_mem _ hm, hp⟩
        · rintro (h | ⟨j, hj, rfl, hm, hp⟩)
          · exact Or.inl h
          · rcases List.mem_cons.mp hm with heq | hm
            · have : j = k := kp_inj hj hk (Prod.mk.inj heq).1
              subst this; exact absurd hv hp
            · exact Or.inr ⟨j, hj, rfl, hm, hp⟩
      · intro q; rw [hc.dirs q]; simp
      · intro q; rw [hc.files q]; simp
      · intro q; rw [hc.links q]; simp
    | some n =>
      obtain ⟨i, hr1, _⟩ := hsome n hv
      rw [hr1]
      simp only
      apply (sat_classify rest _ w1 hg1 hnf1 hkeys' hacc1).mono
      intro w2 r2 ⟨hs2, pl', hr2, hc⟩
      refine ⟨hs1.trans hs2, pl', hr2, ?_⟩
      have hfs : w1.fs = w.fs := hs1.fs
      refine ⟨hc.failed, ?_, ?_, ?_, ?_⟩
      · intro q
        rw [hc.removeBase q, hfs]
        simp only [List.mem_append, List.mem_singleton]
        constructor
        · rintro ((h | h) | ⟨j, hj, rfl, hm, hp⟩)
          · exact Or.inl h
          · subst h; exact Or.inr ⟨k, hk, rfl, by simp, by rw [hv]; simp⟩
          · exact Or.inr ⟨j, hj, rfl, List.mem_cons_of_mem _ hm, hp⟩
        · rintro (h | ⟨j, hj, rfl, hm, hp⟩)
          · exact Or.inl (Or.inl h)
          · rcases List.mem_cons.mp hm with heq | hm
            · have : j = k := kp_inj hj hk (Prod.mk.inj heq).1
              subst this; exact Or.inl (Or.inr rfl)
            · exact Or.inr ⟨j, hj, rfl, hm, hp⟩
      · intro q; rw [hc.dirs q]; simp
      · intro q; rw [hc.files q]; simp
      · intro q; rw [hc.links q]; simp
  | (p, some i) :: rest, pl, w, hg, hnf, hkeys, hacc => by
    unfold classify
    have hkeys' : ∀ p oi, (p, oi) ∈ rest → ∃ k, PKey k ∧ p = kp k :=
      fun p oi h => hkeys p oi (List.mem_cons_of_mem _ h)
    have hacc' : ∀ p oi, (p, oi) ∈ rest → ∀ k, PKey k → p = kp k → NoLinkAnc (S.view .base w.fs) k :=
      fun p oi h => hacc p oi (List.mem_cons_of_mem _ h)
    have hmem : ∀ (q : Path) (j : Info), (q, some j) ∈ (p, some i) :: rest ↔ (q = p ∧ j = i) ∨ (q, some j) ∈ rest := by
      intro q j; simp
    by_cases hroot : p = rootP
    · subst hroot
      simp only [if_true]
      apply Sat.bind
      apply (sat_ensureRoot (S := S) hg i).mono
      intro w1 r1 ⟨hs1, f, hr1, hf⟩
      have hg1 : S.G w1.fs := hs1.fs ▸ hg
      have hnf1 : w1.faults = [] := by rw [hs1.faults]; exact hnf
      have hacc1 : ∀ p oi, (p, oi) ∈ rest → ∀ k, PKey k → p = kp k → NoLinkAnc (S.view .base w1.fs) k := by
        rw [hs1.fs]; exact hacc'
      obtain rfl := hf hnf
      subst hr1
      simp only [Bool.false_eq_true, if_false]
      apply (sat_classify rest pl w1 hg1 hnf1 hkeys' hacc1).mono
      intro w2 r2 ⟨hs2, pl', hr2, hc⟩
      have hc : Classified S w rest pl pl' := by
        refine ⟨hc.failed, ?_, hc.dirs, hc.files, hc.links⟩
        intro q; rw [hc.removeBase q, hs1.fs]
      refine ⟨hs1.trans hs2, pl', hr2, hc.failed, ?_, ?_, ?_, ?_⟩
      · intro q; rw [hc.removeBase q]; simp
      · intro q; rw [hc.dirs q]
        constructor
        · rintro (h | ⟨j, hm, hq, hkd⟩)
          · exact Or.inl h
          · exact Or.inr ⟨j, List.mem_cons_of_mem _ hm, hq, hkd⟩
        · rintro (h | ⟨j, hm, hq, hkd⟩)
          · exact Or.inl h
          · rcases (hmem q j).mp hm with ⟨hqp, _⟩ | hm
            · exact absurd hqp hq
            · exact Or.inr ⟨j, hm, hq, hkd⟩
      · intro q; rw [hc.files q]
        constructor
        · rintro (h | ⟨j, hm, hq, hkd⟩)
          · exact Or.inl h
          · exact Or.inr ⟨j, List.mem_cons_of_mem _ hm, hq, hkd⟩
        · rintro (h | ⟨j, hm, hq, hkd⟩)
          · exact Or.inl h
          · rcases (hmem q j).mp hm with ⟨hqp, _⟩ | hm
            · exact absurd hqp hq
            · exact Or.inr ⟨j, hm, hq, hkd⟩
      · intro q; rw [hc.links q]
        constructor
        · rintro (h | ⟨j, hm, hq, hkd⟩)
          · exact Or.inl h
          · exact Or.inr ⟨j, List.mem_cons_of_mem _ hm, hq, hkd⟩
        · rintro (h | ⟨j, hm, hq, hkd⟩)
          · exact Or.inl h
          · rcases (hmem q j).mp hm with ⟨hqp, _⟩ | hm
            · exact absurd hqp hq
            · exact Or.inr ⟨j, hm, hq, hkd⟩
    · simp only [hroot, if_false]
      cases hkind : i.kind with
      | dir =>
        simp only
        apply (sat_classify rest _ w hg hnf hkeys' hacc').mono
        intro w2 r2 ⟨hs2, pl', hr2, hc⟩
        refine ⟨hs2, pl', hr2, hc.failed, ?_, ?_, ?_, ?_⟩
        · intro q; rw [hc.removeBase q]; simp
        · intro q; rw [hc.dirs q]
          simp only [List.mem_append, List.mem_singleton]
          constructor
          · rintro ((h | h) | ⟨j, hm, hq, hkd⟩)
            · exact Or.inl h
            · subst h; exact Or.inr ⟨i, by simp, hroot, hkind⟩
            · exact Or.inr ⟨j, List.mem_cons_of_mem _ hm, hq, hkd⟩
          · rintro (h | ⟨j, hm, hq, hkd⟩)
            · exact Or.inl (Or.inl h)
            · rcases (hmem q j).mp hm with ⟨rfl, _⟩ | hm
              · exact Or.inl (Or.inr rfl)
              · exact Or.inr ⟨j, hm, hq, hkd⟩
        · intro q; rw [hc.files q]
          constructor
          · rintro (h | ⟨j, hm, hq, hkd⟩)
            · exact Or.inl h
            · exact Or.inr ⟨j, List.mem_cons_of_mem _ hm, hq, hkd⟩
          · rintro (h | ⟨j, hm, hq, hkd⟩)
            · exact Or.inl h
            · rcases (hmem q j).mp hm with ⟨rfl, rfl⟩ | hm
              · rw [hkind] at hkd; cases hkd
              · exact Or.inr ⟨j, hm, hq, hkd⟩
        · intro q; rw [hc.links q]
          constructor
          · rintro (h | ⟨j, hm, hq, hkd⟩)
            · exact Or.inl h
            · exact Or.inr ⟨j, List.mem_cons_of_mem _ hm, hq, hkd⟩
          · rintro (h | ⟨j, hm, hq, hkd⟩)
            · exact Or.inl h
            · rcases (hmem q j).mp hm with ⟨rfl, rfl⟩ | hm
              · rw [hkind] at hkd; cases hkd
              · exact Or.inr ⟨j, hm, hq, hkd⟩
      | file =>
        simp only
        apply (sat_classify rest _ w hg hnf hkeys' hacc').mono
        intro w2 r2 ⟨hs2, pl', hr2, hc⟩
        refine ⟨hs2, pl', hr2, hc.failed, ?_, ?_, ?_, ?_⟩
        · intro q; rw [hc.removeBase q]; simp
        · intro q; rw [hc.dirs q]
          constructor
          · rintro (h | ⟨j, hm, hq, hkd⟩)
            · exact Or.inl h
            · exact Or.inr ⟨j, List.mem_cons_of_mem _ hm, hq, hkd⟩
          · rintro (h | ⟨j, hm, hq, hkd⟩)
            · exact Or.inl h
            · rcases (hmem q j).mp hm with ⟨rfl, rfl⟩ | hm
              · rw [hkind] at hkd; cases hkd
              · exact Or.inr ⟨j, hm, hq, hkd⟩
        · intro q; rw [hc.files q]
          simp only [List.mem_append, List.mem_singleton]
          constructor
          · rintro ((h | h) | ⟨j, hm, hq, hkd⟩)
            · exact Or.inl h
            · subst h; exact Or.inr ⟨i, by simp, hroot, hkind⟩
            · exact Or.inr ⟨j, List.mem_cons_of_mem _ hm, hq, hkd⟩
          · rintro (h | ⟨j, hm, hq, hkd⟩)
            · exact Or.inl (Or.inl h)
            · rcases (hmem q j).mp hm with ⟨rfl, _⟩ | hm
              · exact Or.inl (Or.inr rfl)
              · exact Or.inr ⟨j, hm, hq, hkd⟩
        · intro q; rw [hc.links q]
          constructor
          · rintro (h | ⟨j, hm, hq, hkd⟩)
            · exact Or.inl h
            · exact Or.inr ⟨j, List.mem_cons_of_mem _ hm, hq, hkd⟩
          · rintro (h | ⟨j, hm, hq, hkd⟩)
            · exact Or.inl h
            · rcases (hmem q j).mp hm with ⟨rfl, rfl⟩ | hm
              · rw [hkind] at hkd; cases hkd
              · exact Or.inr ⟨j, hm, hq, hkd⟩
      | link =>
        simp only
        apply (sat_classify rest _ w hg hnf hkeys' hacc').mono
        intro w2 r2 ⟨hs2, pl', hr2, hc⟩
        refine ⟨hs2, pl', hr2, hc.failed, ?_, ?_, ?_, ?_⟩
        · intro q; rw [hc.removeBase q]; simp
        · intro q; rw [hc.dirs q]
          constructor
          · rintro (h | ⟨j, hm, hq, hkd⟩)
            · exact Or.inl h
            · exact Or.inr ⟨j, List.mem_cons_of_mem _ hm, hq, hkd⟩
          · rintro (h | ⟨j, hm, hq, hkd⟩)
            · exact Or.inl h
            · rcases (hmem q j).mp hm with ⟨rfl, rfl⟩ | hm
              · rw [hkind] at hkd; cases hkd
              · exact Or.inr ⟨j, hm, hq, hkd⟩
        · intro q; rw [hc.files q]
          constructor
          · rintro (h | ⟨j, hm, hq, hkd⟩)
            · exact Or.inl h
            · exact Or.inr ⟨j, List.mem_cons_of_mem _ hm, hq, hkd⟩
          · rintro (h | ⟨j, hm, hq, hkd⟩)
            · exact Or.inl h
            · rcases (hmem q j).mp hm with ⟨rfl, rfl⟩ | hm
              · rw [hkind] at hkd; cases hkd
              · exact Or.inr ⟨j, hm, hq, hkd⟩
        · intro q; rw [hc.links q]
          simp only [List.mem_append, List.mem_singleton]
          constructor
          · rintro ((h | h) | ⟨j, hm, hq, hkd⟩)
            · exact Or.inl h
            · subst h; exact Or.inr ⟨i, by simp, hroot, hkind⟩
            · exact Or.inr ⟨j, List.mem_cons_of_mem _ hm, hq, hkd⟩
          · rintro (h | ⟨j, hm, hq, hkd⟩)
            · exact Or.inl (Or.inl h)
            · rcases (hmem q j).mp hm with ⟨rfl, _⟩ | hm
              · exact Or.inl (Or.inr rfl)
              · exact Or.inr ⟨j, hm, hq, hkd⟩

/-! the plan lists are duplicate-free -/

structure PlanND (pl : RollbackPlan) (L : List Path) : Prop where
  rb : pl.removeBase.Nodup
  ds : pl.dirs.Nodup
  fs : pl.files.Nodup
  ls : pl.links.Nodup
  rbL : ∀ p ∈ pl.removeBase, p ∉ L
  dsL : ∀ p ∈ pl.dirs, p ∉ L
  fsL : ∀ p ∈ pl.files, p ∉ L
  lsL : ∀ p ∈ pl.links, p ∉ L

theorem PlanND.tail {pl : RollbackPlan} {p : Path} {L : List Path} (h : PlanND pl (p :: L)) : PlanND pl L :=
  ⟨h.rb, h.ds, h.fs, h.ls, fun q hq hl => h.rbL q hq (List.mem_cons_of_mem _ hl),
    fun q hq hl => h.dsL q hq (List.mem_cons_of_mem _ hl), fun q hq hl => h.fsL q hq (List.mem_cons_of_mem _ hl),
    fun q hq hl => h.lsL q hq (List.mem_cons_of_mem _ hl)⟩

theorem sat_classify_nd : ∀ (l : List (Path × Option Info)) (pl : RollbackPlan) (w : World),
    (l.map Prod.fst).Nodup → PlanND pl (l.map Prod.fst) →
    Sat (classify cfg l pl) w (fun _ r => ∀ pl', r = .ok pl' → PlanND pl' [])
  | [], pl, w, _, hnd => by
    unfold classify
    apply Sat.pure
    intro pl' h; cases h; exact hnd
  | (p, none) :: rest, pl, w, hl, hnd => by
    unfold classify
    simp only [List.map_cons, List.nodup_cons] at hl
    have hnd' := hnd.tail
    apply Sat.bind
    apply Sat.attempt
    unfold Sat
    simp only
    cases (lexists cfg .base p w).2 with
    | error e =>
      exact sat_classify_nd rest _ _ hl.2 ⟨hnd'.rb, hnd'.ds, hnd'.fs, hnd'.ls, hnd'.rbL, hnd'.dsL, hnd'.fsL, hnd'.lsL⟩
    | ok o =>
      cases o with
      | none => exact sat_classify_nd rest _ _ hl.2 hnd'
      | some i =>
        apply sat_classify_nd rest _ _ hl.2
        refine ⟨nodup_snoc hnd.rb (fun h => hnd.rbL p h (by simp)), hnd'.ds, hnd'.fs, hnd'.ls, ?_, hnd'.dsL, hnd'.fsL, hnd'.lsL⟩
        intro q hq
        rcases List.mem_append.mp hq with hq | hq
        · exact hnd'.rbL q hq
        · simp only [List.mem_singleton] at hq; subst hq; exact hl.1
  | (p, some i) :: rest, pl, w, hl, hnd => by
    unfold classify
    simp only [List.map_cons, List.nodup_cons] at hl
    have hnd' := hnd.tail
    split
    · apply Sat.bind_total (ensureRoot_total cfg p i)
      intro f w1
      cases f
      · exact sat_classify_nd rest _ _ hl.2 hnd'
      · exact sat_classify_nd rest _ _ hl.2 (by cases hnd'; constructor <;> assumption)
    · cases i.kind with
      | dir =>
        apply sat_classify_nd rest _ _ hl.2
        refine ⟨hnd'.rb, nodup_snoc hnd.ds (fun h => hnd.dsL p h (by simp)), hnd'.fs, hnd'.ls, hnd'.rbL, ?_, hnd'.fsL, hnd'.lsL⟩
        intro q hq
        rcases List.mem_append.mp hq with hq | hq
        · exact hnd'.dsL q hq
        · simp only [List.mem_singleton] at hq; subst hq; exact hl.1
      | file =>
        apply sat_classify_nd rest _ _ hl.2
        refine ⟨hnd'.rb, hnd'.ds, nodup_snoc hnd.fs (fun h => hnd.fsL p h (by simp)), hnd'.ls, hnd'.rbL, hnd'.dsL, ?_, hnd'.lsL⟩
        intro q hq
        rcases List.mem_append.mp hq with hq | hq
        · exact hnd'.fsL q hq
        · simp only [List.mem_singleton] at hq; subst hq; exact hl.1
      | link =>
        apply sat_classify_nd rest _ _ hl.2
        refine ⟨hnd'.rb, hnd'.ds, hnd'.fs, nodup_snoc hnd.ls (fun h => hnd.lsL p h (by simp)), hnd'.rbL, hnd'.dsL, hnd'.fsL, ?_⟩
        intro q hq
        rcases List.mem_append.mp hq with hq | hq
        · exact hnd'.lsL q hq
        · simp only [List.mem_singleton] at hq; subst hq; exact hl.1

/-! ### facts about the original view -/

theorem Inv.v0_root {w : World} (h : Inv S v0 w) : v0.isDirAt [] := h.orig.root

theorem Inv.v0_parent {w : World} (h : Inv S v0 w) {k : Key} (hk : v0 k ≠ none) (hne : k ≠ []) :
    v0.isDirAt k.dropLast := h.orig.parent hk hne

theorem Inv.v0_mode {w : World} (h : Inv S v0 w) {k : Key} {n : Node} (hk : v0 k = some n) : n.meta.mode < 4096 :=
  h.orig.mode hk

theorem Inv.v0_erased {w : World} (h : Inv S v0 w) {k : Key} {mt : Meta} (hk : v0 k = some (.dir mt)) :
    mt.mtime = .fresh := h.orig.erased hk

theorem Inv.v0_pkey {w : World} (h : Inv S v0 w) {k : Key} (hk : v0 k ≠ none) : PKey k := h.orig.pkey hk

/-- nothing existed below a key that did not exist or was not a directory -/
theorem Inv.v0_below {w : World} (h : Inv S v0 w) {k : Key} (hk : ¬ v0.isDirAt k) :
    ∀ j, k <+: j → j ≠ k → v0 j = none := h.orig.below_none hk

/-! ### progress of Rollback on the base -/

/-- `D` is the set of keys already put back: they show what they showed originally; every other
key is as it was when Rollback began; the backup view, tracked map and (empty) fault plan are
untouched -/
structure Mid (S : LSim cfg) (v0 : View) (w : World) (D : Key → Prop) (w' : World) : Prop where
  good : S.G w'.fs
  infos : w'.infos = w.infos
  faults : w'.faults = []
  backup : S.view .backup w'.fs = S.view .backup w.fs
  done : ∀ k, D k → S.view .base w'.fs k = v0 k
  rest : ∀ k, ¬ D k → S.view .base w'.fs k = S.view .base w.fs k

theorem Mid.congr {w w' : World} {D D' : Key → Prop} (h : Mid S v0 w D w') (hd : ∀ k, D k ↔ D' k) :
    Mid S v0 w D' w' :=
  ⟨h.good, h.infos, h.faults, h.backup, fun k hk => h.done k ((hd k).mpr hk),
    fun k hk => h.rest k (fun hk' => hk ((hd k).mp hk'))⟩

theorem Mid.same {w w' w'' : World} {D : Key → Prop} (h : Mid S v0 w D w') (hs : SameFS w' w'') :
    Mid S v0 w D w'' :=
  ⟨hs.fs ▸ h.good, hs.infos.trans h.infos, hs.faults.trans h.faults, by rw [hs.fs]; exact h.backup,
    fun k hk => by rw [hs.fs]; exact h.done k hk, fun k hk => by rw [hs.fs]; exact h.rest k hk⟩

/-- a base-side step confined to one key that it puts back -/
theorem Mid.step {w w' w'' : World} {D D' : Key → Prop} {k : Key} (h : Mid S v0 w D w')
    (hc : S.ChgL .base (· = k) w' w'') (hk : S.view .base w''.fs k = v0 k)
    (hD' : ∀ j, D' j ↔ D j ∨ j = k) : Mid S v0 w D' w'' := by
  refine ⟨hc.good, hc.infos.trans h.infos, hc.faults.trans h.faults, hc.other.trans h.backup, ?_, ?_⟩
  · intro j hj
    by_cases hjk : j = k
    · subst hjk; exact hk
    · rw [hc.frame j hjk]
      rcases (hD' j).mp hj with hd | hd
      · exact h.done j hd
      · exact absurd hd hjk
  · intro j hj
    have hjk : j ≠ k := fun e => hj ((hD' j).mpr (Or.inr e))
    rw [hc.frame j hjk]
    exact h.rest j (fun hd => hj ((hD' j).mpr (Or.inl hd)))

/-- a key that shows something now although it did not exist originally is tracked as absent -/
theorem Inv.present_new {w : World} (h : Inv S v0 w) {c : Key} (hc : PKey c)
    (hnow : S.view .base w.fs c ≠ none) (horig : v0 c = none) : TN w c := by
  rcases tracked_cases w c with hu | ht | ⟨i, hts⟩
  · rw [h.frame c hc hu] at hnow; exact absurd horig hnow
  · exact ht
  · obtain ⟨n, hn, _⟩ := h.saved c i hc hts
    rw [horig] at hn; cases hn

theorem tracked_of_TN {w : World} {k : Key} (h : TN w k) : Tracked w k := by
  unfold Tracked; unfold TN at h; rw [h]; simp

theorem tracked_of_TS {w : World} {k : Key} {i : Info} (h : TS w k i) : Tracked w k := by
  unfold Tracked; unfold TS at h; rw [h]; simp

/-! ### phase 1: remove what the transaction created, deepest first -/

theorem phase1 {w w1 : World} (hinv : Inv S v0 w) (hnf : w.faults = []) (hs : SameFS w w1)
    (l : List Path) (hl : ∀ p, p ∈ l ↔ ∃ k, PKey k ∧ p = kp k ∧ TN w k ∧ S.view .base w.fs k ≠ none)
    (hnd : l.Nodup) :
    Sat (forEachCollect (removeBaseAct cfg) (sortMost l)) w1 (fun w' r => r = .ok false ∧
      Mid S v0 w (fun k => PKey k ∧ TN w k) w') := by
  let R : Path → Path → Prop := fun p q => ∀ a b, PKey a → PKey b → p = kp a → q = kp b → b.length ≤ a.length
  let D : List Path → Key → Prop := fun rest k => PKey k ∧ TN w k ∧ kp k ∉ rest
  let J : List Path → World → Prop := fun rest w' =>
    rest.Pairwise R ∧ rest.Nodup ∧ (∀ p ∈ rest, p ∈ l) ∧ Mid S v0 w (D rest) w'
  have hperm := sortBy_perm (fun a b => lessFPS b a) l
  have hstep : ∀ x rest w', J (x :: rest) w' →
      Sat (removeBaseAct cfg x) w' (fun w'' r => r = .ok () ∧ J rest w'') := by
    intro x rest w' ⟨hpw, hnd', hmem, hmid⟩
    obtain ⟨k, hk, rfl, htn, hpres⟩ := (hl x).mp (hmem x (by simp))
    have hxr : kp k ∉ rest := (List.nodup_cons.mp hnd').1
    have hnotD : ¬ D (kp k :: rest) k := fun hd => hd.2.2 (by simp)
    have hvk : S.view .base w'.fs k = S.view .base w.fs k := hmid.rest k hnotD
    have habs : v0 k = none := hinv.absent k hk htn
    have hkne : k ≠ [] := by
      intro e; subst e
      obtain ⟨mt, hroot⟩ := hinv.v0_root
      rw [habs] at hroot; cases hroot
    -- no ancestor is a symlink
    have hacc : NoLinkAnc (S.view .base w'.fs) k := by
      intro a ha hne hl'
      by_cases hda : D (kp k :: rest) a
      · obtain ⟨t, mt, ht⟩ := hl'
        rw [hmid.done a hda, hinv.absent a hda.1 hda.2.1] at ht
        cases ht
      · obtain ⟨t, mt, ht⟩ := hl'
        rw [hmid.rest a hda] at ht
        exact hinv.blink k hk (tracked_of_TN htn) a ha hne ⟨t, mt, ht⟩
    -- no child is left
    have hnochild : ¬ (S.view .base w'.fs).hasChild k := by
      rintro ⟨name, hc⟩
      have hcp : PKey (k ++ [name]) := S.pkey hmid.good hc
      have hcorig : v0 (k ++ [name]) = none :=
        hinv.v0_below (k := k) (by rintro ⟨mt, h⟩; rw [habs] at h; cases h) _ ⟨[name], rfl⟩ (by simp)
      by_cases hdc : D (kp k :: rest) (k ++ [name])
      · rw [hmid.done _ hdc] at hc; exact hc hcorig
      · rw [hmid.rest _ hdc] at hc
        have htnc : TN w (k ++ [name]) := hinv.present_new hcp hc hcorig
        have hin : kp (k ++ [name]) ∈ kp k :: rest := by
          apply Classical.byContradiction
          intro hnin; exact hdc ⟨hcp, htnc, hnin⟩
        rcases List.mem_cons.mp hin with heq | hin
        · have := kp_inj hcp hk heq
          have := congrArg List.length this
          simp at this
        · have := (List.pairwise_cons.mp hpw).1 _ hin k (k ++ [name]) hk hcp rfl rfl
          simp only [List.length_append, List.length_singleton] at this
          omega
    have hnode : (S.view .base w'.fs).isFileAt k ∨ isLinkAt (S.view .base w'.fs) k ∨
        ((S.view .base w'.fs).isDirAt k ∧ ¬ (S.view .base w'.fs).hasChild k) := by
      cases hn : S.view .base w'.fs k with
      | none => rw [hvk] at hn; exact absurd hn hpres
      | some n =>
        cases n with
        | file c mt => exact Or.inl ⟨c, mt, hn⟩
        | dir mt => exact Or.inr (Or.inr ⟨⟨mt, hn⟩, hnochild⟩)
        | link t mt => exact Or.inr (Or.inl ⟨t, mt, hn⟩)
    unfold removeBaseAct
    apply (sat_primUnit_exact (S := S) (s := .base) (c := .remove (kp k)) (K := (· = k))
      (P := fun m' => S.view .base m' k = none) hmid.good
      (fun m' r h => by
        obtain ⟨g, o, f, lm⟩ := S.remove_frame hmid.good hk hkne hacc h
        exact ⟨g, o, fun j hj => f j hj, lm⟩)
      (S.remove_ok hmid.good hk hkne hnode)).mono
    intro w'' r ⟨hc, hp, hof⟩
    obtain ⟨u, hr⟩ := OnlyFault.nofault hof hmid.faults
    subst hr
    refine ⟨rfl, (List.pairwise_cons.mp hpw).2, (List.nodup_cons.mp hnd').2,
      fun p hp' => hmem p (List.mem_cons_of_mem _ hp'), ?_⟩
    apply hmid.step hc.toChgL (by rw [hp rfl, habs])
    intro j
    constructor
    · rintro ⟨hj, htj, hjr⟩
      by_cases hjk : j = k
      · exact Or.inr hjk
      · left
        refine ⟨hj, htj, ?_⟩
        intro hin
        rcases List.mem_cons.mp hin with heq | hin
        · exact hjk (kp_inj hj hk heq)
        · exact hjr hin
    · rintro (⟨hj, htj, hjr⟩ | rfl)
      · exact ⟨hj, htj, fun hin => hjr (List.mem_cons_of_mem _ hin)⟩
      · exact ⟨hk, htn, hxr⟩
  have hinit : J (sortMost l) w1 := by
    refine ⟨sortMost_kp_pairwise l, hperm.nodup_iff.mpr hnd, fun p hp => hperm.mem_iff.mp hp, ?_⟩
    refine ⟨hs.fs ▸ hinv.good, hs.infos, by rw [hs.faults]; exact hnf, by rw [hs.fs], ?_, fun k _ => by rw [hs.fs]⟩
    rintro k ⟨hk, htn, hnin⟩
    rw [hs.fs, hinv.absent k hk htn]
    apply Classical.byContradiction
    intro hne
    exact hnin (hperm.mem_iff.mpr ((hl (kp k)).mpr ⟨k, hk, rfl, htn, hne⟩))
  apply (sat_forEach hstep (sortMost l) w1 hinit).mono
  intro w' r ⟨hr, _, _, _, hmid⟩
  refine ⟨hr, hmid.congr ?_⟩
  intro k
  simp [D]

/-! ### phase 2: restore directories, shallowest first -/

/-- tracked with a symlink's info -/
def TSLink (w : World) (k : Key) : Prop := ∃ i, TS w k i ∧ i.kind = .link

theorem Inv.ts_node {w : World} (h : Inv S v0 w) {k : Key} {i : Info} (hk : PKey k) (hts : TS w k i) :
    ∃ n, v0 k = some n ∧ InfoForL i n ∧ i.perm < 4096 := by
  obtain ⟨n, hn, hfor, _⟩ := h.saved k i hk hts
  exact ⟨n, hn, hfor, by rw [hfor.2.1]; exact h.v0_mode hn⟩

/-- the parent of a key tracked with an info is the root or a tracked directory -/
theorem Inv.parent_tsdir {w : World} (h : Inv S v0 w) {k : Key} {i : Info} (hk : PKey k) (hts : TS w k i)
    (hne : k ≠ []) : k.dropLast = [] ∨ TSDir w k.dropLast := by
  by_cases ha : k.dropLast = []
  · exact Or.inl ha
  · right
    obtain ⟨n, hn, _⟩ := h.ts_node hk hts
    obtain ⟨mt, hmt⟩ := h.v0_parent (k := k) (by rw [hn]; simp) hne
    have hpa : PKey k.dropLast := hk.dropLast
    have htr := h.anc k i hk hts k.dropLast (List.dropLast_prefix k)
    rcases tracked_cases w k.dropLast with hu | htn | ⟨ia, htsa⟩
    · exact absurd hu htr
    · have := h.absent _ hpa htn; rw [this] at hmt; cases hmt
    · obtain ⟨na, hna, hfora, _⟩ := h.ts_node hpa htsa
      rw [hmt] at hna; cases hna
      exact ⟨ha, ia, htsa, hfora.1⟩

theorem Inv.dir_target {w : World} (h : Inv S v0 w) {k : Key} {i : Info} (hk : PKey k) (hts : TS w k i)
    (hkind : i.kind = .dir) : v0 k = some (restoredDir i) := by
  obtain ⟨n, hn, hfor, _⟩ := h.ts_node hk hts
  cases n with
  | dir mt =>
    rw [hn]
    have hfr := h.v0_erased hn
    obtain ⟨_, hp, hu, hg, _⟩ := hfor
    cases mt
    simp only [Node.meta] at hp hu hg hfr
    simp [restoredDir, hp, hu, hg, hfr]
  | file c mt => have := hfor.1; rw [hkind] at this; cases this
  | link t mt => have := hfor.1; rw [hkind] at this; cases this

theorem Inv.file_target {w : World} (h : Inv S v0 w) {k : Key} {i : Info} (hk : PKey k) (hts : TS w k i)
    (hkind : i.kind = .file) : ∃ c mt', v0 k = some (restoredFile c i) ∧ S.view .backup w.fs k = some (.file c mt') := by
  obtain ⟨n, hn, hfor, hcopy, _⟩ := h.saved k i hk hts
  cases n with
  | file c mt =>
    obtain ⟨mt', hb⟩ := hcopy c mt rfl
    refine ⟨c, mt', ?_, hb⟩
    rw [hn]
    obtain ⟨_, hp, hu, hg, ht⟩ := hfor
    have ht := ht rfl
    cases mt
    simp only [Node.meta] at hp hu hg ht
    simp [restoredFile, hp, hu, hg, ht]
  | dir mt => have := hfor.1; rw [hkind] at this; cases this
  | link t mt => have := hfor.1; rw [hkind] at this; cases this

/-- what a restored symlink looks like in the view: mode and timestamp erased -/
def restoredLink (t : Path) (i : Info) : Node := .link t ⟨0o777, i.uid, i.gid, .fresh⟩

theorem Inv.link_target {w : World} (h : Inv S v0 w) {k : Key} {i : Info} (hk : PKey k) (hts : TS w k i)
    (hkind : i.kind = .link) : ∃ t mt', v0 k = some (restoredLink t i) ∧
      S.view .backup w.fs k = some (.link t mt') ∧ S.LinkOK .base k t := by
  obtain ⟨n, hn, hfor, _, hlcopy⟩ := h.saved k i hk hts
  cases n with
  | link t mt =>
    obtain ⟨⟨mt', hb⟩, hok⟩ := hlcopy t mt rfl
    refine ⟨t, mt', ?_, hb, hok⟩
    rw [hn]
    obtain ⟨hfr, hmd⟩ := h.orig.lerased hn
    obtain ⟨_, _, hu, hg, _⟩ := hfor
    cases mt
    simp only [Node.meta] at hu hg hfr hmd
    simp [restoredLink, hu, hg, hfr, hmd]
  | dir mt => have := hfor.1; rw [hkind] at this; cases this
  | file c mt => have := hfor.1; rw [hkind] at this; cases this

theorem phase2 {w w1 : World} (hinv : Inv S v0 w)
    (hmid : Mid S v0 w (fun k => PKey k ∧ TN w k) w1)
    (l : List Path) (hl : ∀ p, p ∈ l ↔ ∃ k, PKey k ∧ p = kp k ∧ TSDir w k) (hnd : l.Nodup) :
    Sat (forEachCollect (restoreDirAct cfg w.infos) (sortLeast l)) w1 (fun w' r => r = .ok false ∧
      Mid S v0 w (fun k => PKey k ∧ (TN w k ∨ TSDir w k)) w') := by
  let R : Path → Path → Prop := fun p q => ∀ a b, PKey a → PKey b → p = kp a → q = kp b → a.length ≤ b.length
  let D : List Path → Key → Prop := fun rest k => PKey k ∧ (TN w k ∨ (TSDir w k ∧ kp k ∉ rest))
  let J : List Path → World → Prop := fun rest w' =>
    rest.Pairwise R ∧ rest.Nodup ∧ (∀ p ∈ rest, p ∈ l) ∧ Mid S v0 w (D rest) w'
  have hperm := sortBy_perm lessFPS l
  have hstep : ∀ x rest w', J (x :: rest) w' →
      Sat (restoreDirAct cfg w.infos x) w' (fun w'' r => r = .ok () ∧ J rest w'') := by
    intro x rest w' ⟨hpw, hnd', hmem, hm⟩
    obtain ⟨k, hk, rfl, hkne, i, hts, hkind⟩ := (hl x).mp (hmem x (by simp))
    have hxr : kp k ∉ rest := (List.nodup_cons.mp hnd').1
    have hnotD : ¬ D (kp k :: rest) k := by
      rintro ⟨_, htn | ⟨_, hnin⟩⟩
      · exact TN_not_TS hts htn
      · exact hnin (by simp)
    obtain ⟨n, hn, hfor, hperm4⟩ := hinv.ts_node hk hts
    have htarget := hinv.dir_target hk hts hkind
    have hisdir : i.isDir = true := by simp [Info.isDir, hkind]
    have hak : k.dropLast ≠ k := by
      intro e; have := dropLast_length_lt hkne; rw [e] at this; omega
    -- the parent is already a directory
    have hpar' : (S.view .base w'.fs).isDirAt k.dropLast := by
      rcases hinv.parent_tsdir hk hts hkne with ha | ha
      · rw [ha]; exact S.root_dir hm.good
      · have hpa : PKey k.dropLast := hk.dropLast
        have hDa : D (kp k :: rest) k.dropLast := by
          refine ⟨hpa, Or.inr ⟨ha, ?_⟩⟩
          intro hin
          rcases List.mem_cons.mp hin with heq | hin
          · exact hak (kp_inj hpa hk heq)
          · have := (List.pairwise_cons.mp hpw).1 _ hin k k.dropLast hk hpa rfl rfl
            have := dropLast_length_lt hkne
            omega
        obtain ⟨_, ia, htsa, hka⟩ := ha
        unfold View.isDirAt
        rw [hm.done _ hDa, hinv.dir_target hpa htsa hka]
        exact ⟨_, rfl⟩
    have hparent : ∀ w2, S.ChgL .base (· = k) w' w2 → (S.view .base w2.fs).parentDir k := by
      intro w2 hc
      refine ⟨hkne, ?_⟩
      unfold View.isDirAt
      rw [hc.frame _ hak]
      exact hpar'
    have hacc : NoLinkAnc (S.view .base w'.fs) k := S.noLinkAnc_parentDir hm.good ⟨hkne, hpar'⟩
    unfold restoreDirAct
    apply Sat.bind
    apply (sat_lexists (S := S) (s := .base) hm.good hk hm.faults hacc).mono
    intro wa ra ⟨hsa, hsome, hnone⟩
    have hga : S.G wa.fs := hsa.fs ▸ hm.good
    have hfa : wa.faults = [] := by rw [hsa.faults]; exact hm.faults
    have hacca : NoLinkAnc (S.view .base wa.fs) k := by rw [hsa.fs]; exact hacc
    -- removing a file or symlink in the way
    have hrm : (S.view .base w'.fs).isFileAt k ∨ isLinkAt (S.view .base w'.fs) k →
        Sat (primUnit cfg .base (.remove (kp k))) wa (fun w2 r => r = .ok () ∧
          S.Chg .base (· = k) w' w2 ∧ (S.view .base w2.fs k = none ∨ (S.view .base w2.fs).isDirAt k)) := by
      intro hfl
      have hfl' : (S.view .base wa.fs).isFileAt k ∨ isLinkAt (S.view .base wa.fs) k ∨
          ((S.view .base wa.fs).isDirAt k ∧ ¬ (S.view .base wa.fs).hasChild k) := by
        rw [hsa.fs]
        rcases hfl with h | h
        · exact Or.inl h
        · exact Or.inr (Or.inl h)
      apply (sat_primUnit_exact (S := S) (s := .base) (c := .remove (kp k)) (K := (· = k))
        (P := fun m' => S.view .base m' k = none) hga
        (fun m' r h => by
          obtain ⟨g, o, f, lm⟩ := S.remove_frame hga hk hkne hacca h
          exact ⟨g, o, fun j hj => f j hj, lm⟩)
        (S.remove_ok hga hk hkne hfl')).mono
      intro w2 r2 ⟨hc2, hp2, hof2⟩
      obtain ⟨u, hr⟩ := OnlyFault.nofault hof2 hfa
      subst hr
      exact ⟨rfl, LSim.Chg.same_left hsa hc2, Or.inl (hp2 rfl)⟩
    -- make room
    have hroom : ∃ cur, ra = .ok cur ∧ Sat (BFS.whenM (match cur with
        | some fi => !fi.isDir
        | none => false) (primUnit cfg .base (.remove (kp k)))) wa (fun w2 r => r = .ok () ∧
          S.Chg .base (· = k) w' w2 ∧ (S.view .base w2.fs k = none ∨ (S.view .base w2.fs).isDirAt k)) := by
      cases hv : S.view .base w'.fs k with
      | none =>
        refine ⟨none, hnone hv, ?_⟩
        apply Sat.whenM
        · intro h; cases h
        · intro _
          exact ⟨rfl, LSim.Chg.of_same hm.good hsa, Or.inl (by rw [hsa.fs]; exact hv)⟩
      | some nd =>
        obtain ⟨fi, hra, hfi⟩ := hsome nd hv
        refine ⟨some fi, hra, ?_⟩
        cases nd with
        | dir mt =>
          have : fi.isDir = true := by simp [Info.isDir, hfi.1, Node.kind]
          apply Sat.whenM
          · intro h; simp [this] at h
          · intro _
            exact ⟨rfl, LSim.Chg.of_same hm.good hsa, Or.inr ⟨mt, by rw [hsa.fs]; exact hv⟩⟩
        | link t mt =>
          apply Sat.whenM
          · intro _
            exact hrm (Or.inr ⟨t, mt, hv⟩)
          · intro h
            have : fi.isDir = false := by simp [Info.isDir, hfi.1, Node.kind]
            simp [this] at h
        | file c mt =>
          apply Sat.whenM
          · intro _
            exact hrm (Or.inl ⟨c, mt, hv⟩)
          · intro h
            have : fi.isDir = false := by simp [Info.isDir, hfi.1, Node.kind]
            simp [this] at h
    obtain ⟨cur, hra, hroomsat⟩ := hroom
    subst hra
    simp only
    apply Sat.bind
    apply hroomsat.mono
    intro w2 r2 ⟨hr2, hc2, hcur2⟩
    subst hr2
    simp only [infoFor_ts hts]
    have hf2 : w2.faults = [] := by rw [hc2.faults]; exact hm.faults
    apply (sat_copyDir_strong (S := S) (s := .base) (i := i) hc2.good hk hkne hisdir hperm4
      (hparent w2 hc2.toChgL) hcur2).mono
    intro w3 r3 ⟨hc3, hof3, hp3⟩
    obtain ⟨u, hr⟩ := OnlyFault.nofault hof3 hf2
    subst hr
    refine ⟨rfl, (List.pairwise_cons.mp hpw).2, (List.nodup_cons.mp hnd').2,
      fun p hp' => hmem p (List.mem_cons_of_mem _ hp'), ?_⟩
    apply hm.step (hc2.trans hc3).toChgL (by rw [hp3 rfl, htarget])
    intro j
    constructor
    · rintro ⟨hj, htn | ⟨hd, hjr⟩⟩
      · exact Or.inl ⟨hj, Or.inl htn⟩
      · by_cases hjk : j = k
        · exact Or.inr hjk
        · left
          refine ⟨hj, Or.inr ⟨hd, ?_⟩⟩
          intro hin
          rcases List.mem_cons.mp hin with heq | hin
          · exact hjk (kp_inj hj hk heq)
          · exact hjr hin
    · rintro (⟨hj, htn | ⟨hd, hjr⟩⟩ | rfl)
      · exact ⟨hj, Or.inl htn⟩
      · exact ⟨hj, Or.inr ⟨hd, fun hin => hjr (List.mem_cons_of_mem _ hin)⟩⟩
      · exact ⟨hk, Or.inr ⟨⟨hkne, i, hts, hkind⟩, hxr⟩⟩
  have hinit : J (sortLeast l) w1 := by
    refine ⟨sortLeast_kp_pairwise l, hperm.nodup_iff.mpr hnd, fun p hp => hperm.mem_iff.mp hp, ?_⟩
    apply hmid.congr
    intro k
    constructor
    · rintro ⟨hk, htn⟩; exact ⟨hk, Or.inl htn⟩
    · rintro ⟨hk, htn | ⟨hd, hnin⟩⟩
      · exact ⟨hk, htn⟩
      · exact absurd (hperm.mem_iff.mpr ((hl (kp k)).mpr ⟨k, hk, rfl, hd⟩)) hnin
  apply (sat_forEach hstep (sortLeast l) w1 hinit).mono
  intro w' r ⟨hr, _, _, _, hm⟩
  refine ⟨hr, hm.congr ?_⟩
  intro k
  simp [D]

/-! ### phase 3: restore regular files -/

theorem sat_hStat {wh : WHandle} {k : Key} {n : Node} {w : World} (hg : S.G w.fs)
    (hH : S.H wh.side wh.h k) (hv : S.view wh.side w.fs k = some n) :
    Sat (hStat cfg wh) w (fun w' r => SameFS w w' ∧ OnlyFault w r ∧ ∀ fi, r = .ok fi → InfoForL fi n) := by
  unfold hStat
  apply Sat.bind
  apply Sat.primH
  · intro hf w1 h1
    exact ⟨h1, by intro e h; cases h; exact ⟨rfl, hf⟩, by intro fi h; cases h⟩
  · intro w1 h1
    apply Sat.bind
    apply Sat.getW
    simp only
    obtain ⟨i, hi, hfor⟩ := S.hstat_some (h1.fs ▸ hg) hH (by rw [h1.fs]; exact hv)
    rw [hi]
    apply Sat.pure
    exact ⟨h1, OnlyFault.ok, by intro fi h; cases h; exact hfor⟩

/-- `Remove` of a present key below which nothing lives (a regular file, a symlink, or a directory
that is empty — what the transaction created below it went in phase 1): succeeds, confined to the key -/
theorem sat_remove_at {k : Key} {w : World} (hg : S.G w.fs) (hk : PKey k) (hkne : k ≠ [])
    (hacc : NoLinkAnc (S.view .base w.fs) k) (hv : S.view .base w.fs k ≠ none)
    (hbelow : ∀ j, k <+: j → j ≠ k → S.view .base w.fs j = none) :
    Sat (primUnit cfg .base (.remove (kp k))) w (fun w' r => S.Chg .base (· = k) w w' ∧
      (r = .ok () → S.view .base w'.fs k = none) ∧ OnlyFault w r) := by
  have hnode : (S.view .base w.fs).isFileAt k ∨ isLinkAt (S.view .base w.fs) k ∨
      ((S.view .base w.fs).isDirAt k ∧ ¬ (S.view .base w.fs).hasChild k) := by
    cases hn : S.view .base w.fs k with
    | none => exact absurd hn hv
    | some n =>
      cases n with
      | file c mt => exact Or.inl ⟨c, mt, hn⟩
      | link t mt => exact Or.inr (Or.inl ⟨t, mt, hn⟩)
      | dir mt =>
        refine Or.inr (Or.inr ⟨⟨mt, hn⟩, ?_⟩)
        rintro ⟨name, hch⟩
        exact hch (hbelow (k ++ [name]) ⟨[name], rfl⟩ (by simp))
  apply (sat_primUnit_exact (S := S) (s := .base) (c := .remove (kp k)) (K := (· = k))
    (P := fun m' => S.view .base m' k = none) hg
    (fun m' r h => by
      obtain ⟨g, o, f', lm⟩ := S.remove_frame hg hk hkne hacc h
      exact ⟨g, o, fun j hj => f' j hj, lm⟩)
    (S.remove_ok hg hk hkne hnode)).mono
  intro w' r ⟨hc, hp, hof⟩
  exact ⟨hc, hp, hof⟩

theorem phase3 {w w2 : World} (hinv : Inv S v0 w)
    (hmid : Mid S v0 w (fun k => PKey k ∧ (TN w k ∨ TSDir w k)) w2)
    (l : List Path) (hl : ∀ p, p ∈ l ↔ ∃ k, PKey k ∧ p = kp k ∧ TSFile w k) (hnd : l.Nodup) :
    Sat (forEachCollect (restoreFileAct cfg w.infos) (sortStrings l)) w2 (fun w' r => r = .ok false ∧
      Mid S v0 w (fun k => PKey k ∧ (TN w k ∨ TSDir w k ∨ TSFile w k)) w') := by
  let D : List Path → Key → Prop := fun rest k => PKey k ∧ (TN w k ∨ TSDir w k ∨ (TSFile w k ∧ kp k ∉ rest))
  let J : List Path → World → Prop := fun rest w' =>
    rest.Nodup ∧ (∀ p ∈ rest, p ∈ l) ∧ Mid S v0 w (D rest) w'
  have hperm := sortBy_perm strLt l
  have hstep : ∀ x rest w', J (x :: rest) w' →
      Sat (restoreFileAct cfg w.infos x) w' (fun w'' r => r = .ok () ∧ J rest w'') := by
    intro x rest w' ⟨hnd', hmem, hm⟩
    obtain ⟨k, hk, rfl, i, hts, hkind⟩ := (hl x).mp (hmem x (by simp))
    have hxr : kp k ∉ rest := (List.nodup_cons.mp hnd').1
    obtain ⟨c, mtb, htarget, hbak⟩ := hinv.file_target hk hts hkind
    obtain ⟨n, hn, hfor, hperm4⟩ := hinv.ts_node hk hts
    have hreg : i.isRegular = true := by simp [Info.isRegular, hkind]
    have hkne : k ≠ [] := by
      intro e; subst e
      obtain ⟨mt, hroot⟩ := hinv.v0_root
      rw [htarget] at hroot; cases hroot
    have hnodir : ¬ v0.isDirAt k := by
      rintro ⟨mt, h⟩; rw [htarget] at h; cases h
    -- nothing is left below the key
    have hbelow : ∀ j, k <+: j → j ≠ k → S.view .base w'.fs j = none := by
      intro j hj hjk
      have horig := hinv.v0_below hnodir j hj hjk
      by_cases hD : D (kp k :: rest) j
      · rw [hm.done j hD]; exact horig
      · rw [hm.rest j hD]
        apply Classical.byContradiction
        intro hne
        have hpj : PKey j := S.pkey hinv.good hne
        exact hD ⟨hpj, Or.inl (hinv.present_new hpj hne horig)⟩
    -- the parent directory has been restored
    have hparent : (S.view .base w'.fs).isDirAt k.dropLast := by
      rcases hinv.parent_tsdir hk hts hkne with ha | ha
      · rw [ha]; exact S.root_dir hm.good
      · have hpa : PKey k.dropLast := hk.dropLast
        obtain ⟨_, ia, htsa, hka⟩ := ha
        unfold View.isDirAt
        rw [hm.done _ ⟨hpa, Or.inr (Or.inl ⟨‹_›, ia, htsa, hka⟩)⟩, hinv.dir_target hpa htsa hka]
        exact ⟨_, rfl⟩
    have hak : k.dropLast ≠ k := by
      intro e; have := dropLast_length_lt hkne; rw [e] at this; omega
    have hpar : ∀ w3, S.Chg .base (· = k) w' w3 → (S.view .base w3.fs).parentDir k := by
      intro w3 hc
      refine ⟨hkne, ?_⟩
      unfold View.isDirAt
      rw [hc.frame _ hak]
      exact hparent
    have hacc : NoLinkAnc (S.view .base w'.fs) k := S.noLinkAnc_parentDir hm.good ⟨hkne, hparent⟩
    have hvk' : S.view .backup w'.fs k = some (.file c mtb) := by rw [hm.backup]; exact hbak
    unfold restoreFileAct
    simp only [infoFor_ts hts]
    unfold restoreFile
    apply Sat.bind
    apply (sat_open_ro (S := S) (s := .backup) hm.good hk (S.accF_present hm.good hvk' rfl)).mono
    intro wa ra ⟨hsa, hwh, hofa⟩
    obtain ⟨f, hra⟩ := OnlyFault.nofault (hofa (Or.inl ⟨c, mtb, hvk'⟩)) hm.faults
    subst hra
    obtain ⟨hside, hH, hflag⟩ := hwh f rfl
    simp only
    have hga : S.G wa.fs := hsa.fs ▸ hm.good
    have hfa : wa.faults = [] := by rw [hsa.faults]; exact hm.faults
    apply Sat.bind
    apply Sat.attempt
    -- the body of restoreFile
    have hbody : Sat (do
        let fi ← hStat cfg f
        let baseFi ← lexists cfg .base (kp k)
        let replaced := match baseFi with
          | some b => !b.isRegular
          | none => false
        if !fi.isRegular then primUnit cfg .base (.removeAll (kp k))
        else BFS.whenM replaced (primUnit cfg .base (.remove (kp k)))
        copyFile cfg .base (kp k) i f : M Unit) wa
        (fun w3 r => r = .ok () ∧ S.Chg .base (· = k) w' w3 ∧ S.view .base w3.fs k = some (restoredFile c i)) := by
      apply Sat.bind
      apply (sat_hStat (S := S) (wh := f) (k := k) hga (by rw [hside]; exact hH)
        (by rw [hside, hsa.fs]; exact hvk')).mono
      intro wb rb ⟨hsb, hofb, hfi⟩
      obtain ⟨fi, hrb⟩ := OnlyFault.nofault hofb hfa
      subst hrb
      have hfireg : fi.isRegular = true := by
        have := (hfi fi rfl).1
        simp [Info.isRegular, this, Node.kind]
      simp only
      have hsab := hsa.trans hsb
      have hgb : S.G wb.fs := hsab.fs ▸ hm.good
      have hfb : wb.faults = [] := by rw [hsab.faults]; exact hm.faults
      apply Sat.bind
      apply (sat_lexists (S := S) (s := .base) hgb hk hfb (by rw [hsab.fs]; exact hacc)).mono
      intro wc rc ⟨hsc, hsome, hnone⟩
      have hsac := hsab.trans hsc
      have hgc : S.G wc.fs := hsac.fs ▸ hm.good
      have hfc : wc.faults = [] := by rw [hsac.faults]; exact hm.faults
      -- Remove of whatever is in the way (a symlink, or a directory that is empty by now)
      have hrm : S.view .base w'.fs k ≠ none →
          Sat (primUnit cfg .base (.remove (kp k))) wc (fun w3 r => r = .ok () ∧
            S.Chg .base (· = k) w' w3 ∧ CanWrite (S.view .base w3.fs) k) := by
        intro hv
        apply (sat_remove_at (S := S) hgc hk hkne (by rw [hsac.fs]; exact hacc)
          (by rw [hsac.fs]; exact hv) (by rw [hsac.fs]; exact hbelow)).mono
        intro w3 r3 ⟨hc3, hp3, hof3⟩
        obtain ⟨u, hr⟩ := OnlyFault.nofault hof3 hfc
        subst hr
        have hc := LSim.Chg.same_left hsac hc3
        exact ⟨rfl, hc, Or.inr ⟨hp3 rfl, hpar w3 hc⟩⟩
      have hroom : ∃ cur, rc = .ok cur ∧ Sat (BFS.whenM (match cur with
          | some b => !b.isRegular
          | none => false) (primUnit cfg .base (.remove (kp k)))) wc (fun w3 r => r = .ok () ∧
            S.Chg .base (· = k) w' w3 ∧ CanWrite (S.view .base w3.fs) k) := by
        cases hv : S.view .base w'.fs k with
        | none =>
          refine ⟨none, hnone (by rw [hsab.fs]; exact hv), ?_⟩
          apply Sat.whenM
          · intro h; cases h
          · intro _
            have hc := LSim.Chg.of_same (S := S) (s := .base) (K := (· = k)) hm.good hsac
            exact ⟨rfl, hc, Or.inr ⟨by rw [hsac.fs]; exact hv, hpar wc hc⟩⟩
        | some nd =>
          obtain ⟨bi, hrc, hbi⟩ := hsome nd (by rw [hsab.fs]; exact hv)
          refine ⟨some bi, hrc, ?_⟩
          cases nd with
          | file c' mt' =>
            have : bi.isRegular = true := by simp [Info.isRegular, hbi.1, Node.kind]
            apply Sat.whenM
            · intro h; simp [this] at h
            · intro _
              exact ⟨rfl, LSim.Chg.of_same hm.good hsac, Or.inl ⟨c', mt', by rw [hsac.fs]; exact hv⟩⟩
          | link t mt' =>
            apply Sat.whenM
            · intro _
              exact hrm (by rw [hv]; simp)
            · intro h
              have : bi.isRegular = false := by simp [Info.isRegular, hbi.1, Node.kind]
              simp [this] at h
          | dir mt' =>
            apply Sat.whenM
            · intro _
              exact hrm (by rw [hv]; simp)
            · intro h
              have : bi.isRegular = false := by simp [Info.isRegular, hbi.1, Node.kind]
              simp [this] at h
      obtain ⟨cur, hrc, hroomsat⟩ := hroom
      subst hrc
      simp only [hfireg, Bool.not_true, Bool.false_eq_true, if_false]
      apply Sat.bind
      apply hroomsat.mono
      intro w3 r3 ⟨hr3, hc3, hcw3⟩
      subst hr3
      simp only
      have hf3 : w3.faults = [] := by rw [hc3.faults]; exact hm.faults
      have hvk3 : S.view Side.base.other w3.fs k = some (.file c mtb) := by
        rw [hc3.other]; exact hvk'
      have hacc3 : AccF (S.view .base w3.fs) k := by
        refine ⟨S.noLinkAnc_parentDir hc3.good (hpar w3 hc3), ?_⟩
        rcases hcw3 with hf | ⟨hn, _⟩
        · exact isLinkAt_not_file hf
        · exact isLinkAt_not_none hn
      apply (sat_copyFile (S := S) (s := .base) (ks := k) (data := c) (mt0 := mtb) hc3.good hk hacc3
        hside hH (by rw [hflag]; decide) hvk3 hreg hperm4).mono
      intro w4 r4 ⟨hc4, hp4, hof4⟩
      obtain ⟨u, hr⟩ := OnlyFault.nofault (hof4 hcw3) hf3
      subst hr
      exact ⟨rfl, hc3.trans hc4, hp4 rfl⟩
    apply hbody.mono
    intro w3 r3 ⟨hr3, hc3, hv3⟩
    subst hr3
    simp only
    apply Sat.bind
    apply Sat.attempt
    apply (sat_hClose (wh := f) (w := w3)).mono
    intro w4 r4 ⟨hs4, _⟩
    simp only
    apply Sat.pure
    refine ⟨rfl, (List.nodup_cons.mp hnd').2, fun p hp' => hmem p (List.mem_cons_of_mem _ hp'), ?_⟩
    apply hm.step (hc3.same_right hs4).toChgL (by rw [hs4.fs, hv3, htarget])
    intro j
    constructor
    · rintro ⟨hj, htn | hd | ⟨hf, hjr⟩⟩
      · exact Or.inl ⟨hj, Or.inl htn⟩
      · exact Or.inl ⟨hj, Or.inr (Or.inl hd)⟩
      · by_cases hjk : j = k
        · exact Or.inr hjk
        · left
          refine ⟨hj, Or.inr (Or.inr ⟨hf, ?_⟩)⟩
          intro hin
          rcases List.mem_cons.mp hin with heq | hin
          · exact hjk (kp_inj hj hk heq)
          · exact hjr hin
    · rintro (⟨hj, htn | hd | ⟨hf, hjr⟩⟩ | rfl)
      · exact ⟨hj, Or.inl htn⟩
      · exact ⟨hj, Or.inr (Or.inl hd)⟩
      · exact ⟨hj, Or.inr (Or.inr ⟨hf, fun hin => hjr (List.mem_cons_of_mem _ hin)⟩)⟩
      · exact ⟨hk, Or.inr (Or.inr ⟨⟨i, hts, hkind⟩, hxr⟩)⟩
  have hinit : J (sortStrings l) w2 := by
    refine ⟨hperm.nodup_iff.mpr hnd, fun p hp => hperm.mem_iff.mp hp, ?_⟩
    apply hmid.congr
    intro k
    constructor
    · rintro ⟨hk, htn | hd⟩
      · exact ⟨hk, Or.inl htn⟩
      · exact ⟨hk, Or.inr (Or.inl hd)⟩
    · rintro ⟨hk, htn | hd | ⟨hf, hnin⟩⟩
      · exact ⟨hk, Or.inl htn⟩
      · exact ⟨hk, Or.inr hd⟩
      · exact absurd (hperm.mem_iff.mpr ((hl (kp k)).mpr ⟨k, hk, rfl, hf⟩)) hnin
  apply (sat_forEach hstep (sortStrings l) w2 hinit).mono
  intro w' r ⟨hr, _, _, hm⟩
  refine ⟨hr, hm.congr ?_⟩
  intro k
  simp [D]

/-! ### phase 4: restore symlinks -/

theorem phase4 {w w3 : World} (hinv : Inv S v0 w)
    (hmid : Mid S v0 w (fun k => PKey k ∧ (TN w k ∨ TSDir w k ∨ TSFile w k)) w3)
    (l : List Path) (hl : ∀ p, p ∈ l ↔ ∃ k, PKey k ∧ p = kp k ∧ TSLink w k) (hnd : l.Nodup) :
    Sat (forEachCollect (restoreLinkAct cfg w.infos) (sortStrings l)) w3 (fun w' r => r = .ok false ∧
      Mid S v0 w (fun k => PKey k ∧ (TN w k ∨ TSDir w k ∨ TSFile w k ∨ TSLink w k)) w') := by
  let D : List Path → Key → Prop := fun rest k =>
    PKey k ∧ (TN w k ∨ TSDir w k ∨ TSFile w k ∨ (TSLink w k ∧ kp k ∉ rest))
  let J : List Path → World → Prop := fun rest w' =>
    rest.Nodup ∧ (∀ p ∈ rest, p ∈ l) ∧ Mid S v0 w (D rest) w'
  have hperm := sortBy_perm strLt l
  have hstep : ∀ x rest w', J (x :: rest) w' →
      Sat (restoreLinkAct cfg w.infos x) w' (fun w'' r => r = .ok () ∧ J rest w'') := by
    intro x rest w' ⟨hnd', hmem, hm⟩
    obtain ⟨k, hk, rfl, i, hts, hkind⟩ := (hl x).mp (hmem x (by simp))
    have hxr : kp k ∉ rest := (List.nodup_cons.mp hnd').1
    obtain ⟨t, mtb, htarget, hbak, hlok⟩ := hinv.link_target hk hts hkind
    have hsym : i.isSymlink = true := by simp [Info.isSymlink, hkind]
    have hkne : k ≠ [] := by
      intro e; subst e
      obtain ⟨mt, hroot⟩ := hinv.v0_root
      rw [htarget] at hroot; cases hroot
    have hnodir : ¬ v0.isDirAt k := by
      rintro ⟨mt, h⟩; rw [htarget] at h; cases h
    -- nothing is left below the key
    have hbelow : ∀ j, k <+: j → j ≠ k → S.view .base w'.fs j = none := by
      intro j hj hjk
      have horig := hinv.v0_below hnodir j hj hjk
      by_cases hD : D (kp k :: rest) j
      · rw [hm.done j hD]; exact horig
      · rw [hm.rest j hD]
        apply Classical.byContradiction
        intro hne
        have hpj : PKey j := S.pkey hinv.good hne
        exact hD ⟨hpj, Or.inl (hinv.present_new hpj hne horig)⟩
    -- the parent directory has been restored
    have hparent : (S.view .base w'.fs).isDirAt k.dropLast := by
      rcases hinv.parent_tsdir hk hts hkne with ha | ha
      · rw [ha]; exact S.root_dir hm.good
      · have hpa : PKey k.dropLast := hk.dropLast
        obtain ⟨_, ia, htsa, hka⟩ := ha
        unfold View.isDirAt
        rw [hm.done _ ⟨hpa, Or.inr (Or.inl ⟨‹_›, ia, htsa, hka⟩)⟩, hinv.dir_target hpa htsa hka]
        exact ⟨_, rfl⟩
    have hak : k.dropLast ≠ k := by
      intro e; have := dropLast_length_lt hkne; rw [e] at this; omega
    have hpar : ∀ w3, S.Chg .base (· = k) w' w3 → (S.view .base w3.fs).parentDir k := by
      intro w3 hc
      refine ⟨hkne, ?_⟩
      unfold View.isDirAt
      rw [hc.frame _ hak]
      exact hparent
    have hacc : NoLinkAnc (S.view .base w'.fs) k := S.noLinkAnc_parentDir hm.good ⟨hkne, hparent⟩
    have hvk' : S.view .backup w'.fs k = some (.link t mtb) := by rw [hm.backup]; exact hbak
    unfold restoreLinkAct
    simp only [infoFor_ts hts]
    unfold restoreSymlink
    -- the backup holds the link
    apply Sat.bind
    apply (sat_lexists (S := S) (s := .backup) hm.good hk hm.faults
      (S.noLinkAnc_present hm.good (by rw [hvk']; simp))).mono
    intro wa ra ⟨hsa, hsomea, _⟩
    obtain ⟨bi, hra, _⟩ := hsomea _ hvk'
    subst hra
    simp only
    have hga : S.G wa.fs := hsa.fs ▸ hm.good
    have hfa : wa.faults = [] := by rw [hsa.faults]; exact hm.faults
    -- what is at the key in the base
    apply Sat.bind
    apply (sat_lexists (S := S) (s := .base) hga hk hfa (by rw [hsa.fs]; exact hacc)).mono
    intro wb rb ⟨hsb, hsome, hnone⟩
    have hsab := hsa.trans hsb
    have hgb : S.G wb.fs := hsab.fs ▸ hm.good
    have hfb : wb.faults = [] := by rw [hsab.faults]; exact hm.faults
    have hroom : ∃ cur : Option Info, rb = .ok cur ∧
        Sat (BFS.whenM cur.isSome (primUnit cfg .base (.remove (kp k)))) wb (fun w3 r => r = .ok () ∧
          S.Chg .base (· = k) w' w3 ∧ S.view .base w3.fs k = none) := by
      cases hv : S.view .base w'.fs k with
      | none =>
        refine ⟨none, hnone (by rw [hsa.fs]; exact hv), ?_⟩
        apply Sat.whenM
        · intro h; cases h
        · intro _
          exact ⟨rfl, LSim.Chg.of_same hm.good hsab, by rw [hsab.fs]; exact hv⟩
      | some nd =>
        obtain ⟨ci, hrb, _⟩ := hsome nd (by rw [hsa.fs]; exact hv)
        refine ⟨some ci, hrb, ?_⟩
        apply Sat.whenM
        · intro _
          apply (sat_remove_at (S := S) hgb hk hkne (by rw [hsab.fs]; exact hacc)
            (by rw [hsab.fs, hv]; simp) (by rw [hsab.fs]; exact hbelow)).mono
          intro w3 r3 ⟨hc3, hp3, hof3⟩
          obtain ⟨u, hr⟩ := OnlyFault.nofault hof3 hfb
          subst hr
          exact ⟨rfl, LSim.Chg.same_left hsab hc3, hp3 rfl⟩
        · intro h; cases h
    obtain ⟨cur, hrb, hroomsat⟩ := hroom
    subst hrb
    simp only
    apply Sat.bind
    apply hroomsat.mono
    intro w3 r3 ⟨hr3, hc3, hnone3⟩
    subst hr3
    simp only
    have hf3 : w3.faults = [] := by rw [hc3.faults]; exact hm.faults
    have hvk3 : S.view Side.base.other w3.fs k = some (.link t mtb) := by
      rw [hc3.other]; exact hvk'
    have hpar3 := hpar w3 hc3
    -- re-create the link
    apply (sat_copySymlink (S := S) (s := .base) (i := i) (t := t) (mt0 := mtb) hc3.good hk
      (S.noLinkAnc_parentDir hc3.good hpar3) hvk3).mono
    intro w4 r4 ⟨hc4, hp4, hof4⟩
    obtain ⟨u, hr⟩ := OnlyFault.nofault (hof4 hnone3 hpar3 hlok hsym) hf3
    subst hr
    obtain ⟨mt', hv4, hu4, hg4⟩ := hp4 rfl
    obtain ⟨hfr4, hmd4⟩ := S.link_erased hc4.good hv4
    refine ⟨rfl, (List.nodup_cons.mp hnd').2, fun p hp' => hmem p (List.mem_cons_of_mem _ hp'), ?_⟩
    apply hm.step (hc3.toChgL.trans hc4) (by
      rw [hv4, htarget]
      cases mt'
      simp only at hu4 hg4 hfr4 hmd4
      simp [restoredLink, hu4, hg4, hfr4, hmd4])
    intro j
    constructor
    · rintro ⟨hj, htn | hd | hf | ⟨hlk, hjr⟩⟩
      · exact Or.inl ⟨hj, Or.inl htn⟩
      · exact Or.inl ⟨hj, Or.inr (Or.inl hd)⟩
      · exact Or.inl ⟨hj, Or.inr (Or.inr (Or.inl hf))⟩
      · by_cases hjk : j = k
        · exact Or.inr hjk
        · left
          refine ⟨hj, Or.inr (Or.inr (Or.inr ⟨hlk, ?_⟩))⟩
          intro hin
          rcases List.mem_cons.mp hin with heq | hin
          · exact hjk (kp_inj hj hk heq)
          · exact hjr hin
    · rintro (⟨hj, htn | hd | hf | ⟨hlk, hjr⟩⟩ | rfl)
      · exact ⟨hj, Or.inl htn⟩
      · exact ⟨hj, Or.inr (Or.inl hd)⟩
      · exact ⟨hj, Or.inr (Or.inr (Or.inl hf))⟩
      · exact ⟨hj, Or.inr (Or.inr (Or.inr ⟨hlk, fun hin => hjr (List.mem_cons_of_mem _ hin)⟩))⟩
      · exact ⟨hk, Or.inr (Or.inr (Or.inr ⟨⟨i, hts, hkind⟩, hxr⟩))⟩
  have hinit : J (sortStrings l) w3 := by
    refine ⟨hperm.nodup_iff.mpr hnd, fun p hp => hperm.mem_iff.mp hp, ?_⟩
    apply hmid.congr
    intro k
    constructor
    · rintro ⟨hk, htn | hd | hf⟩
      · exact ⟨hk, Or.inl htn⟩
      · exact ⟨hk, Or.inr (Or.inl hd)⟩
      · exact ⟨hk, Or.inr (Or.inr (Or.inl hf))⟩
    · rintro ⟨hk, htn | hd | hf | ⟨hlk, hnin⟩⟩
      · exact ⟨hk, Or.inl htn⟩
      · exact ⟨hk, Or.inr (Or.inl hd)⟩
      · exact ⟨hk, Or.inr (Or.inr hf)⟩
      · exact absurd (hperm.mem_iff.mpr ((hl (kp k)).mpr ⟨k, hk, rfl, hlk⟩)) hnin
  apply (sat_forEach hstep (sortStrings l) w3 hinit).mono
  intro w' r ⟨hr, _, _, hm⟩
  refine ⟨hr, hm.congr ?_⟩
  intro k
  simp [D]

/-! ### phases 5–7: removing the backup copies does not touch the base -/

/-- no backup symlink sits above a key tracked with an info -/
theorem Inv.backup_noLinkAnc_ts {w : World} (h : Inv S v0 w) {k : Key} {i : Info} (hk : PKey k) (hts : TS w k i) :
    NoLinkAnc (S.view .backup w.fs) k := by
  intro a ha hne hl
  have hpa : PKey a := hk.of_prefix ha
  rcases h.bklinks a hl with ⟨ia, htsa, hkind⟩ | ⟨hun, _⟩
  · obtain ⟨na, hna, hfora, _⟩ := h.saved a ia hpa htsa
    obtain ⟨n, hn, _⟩ := h.saved k i hk hts
    obtain ⟨mt, hd⟩ := h.orig.ancestors (k := k) (by rw [hn]; simp) ha hne
    rw [hd] at hna; cases hna
    have := hfora.1
    rw [hkind] at this; cases this
  · exact h.anc k i hk hts a ha hun

/-- what the clean-up of the backup keeps: disk well-formed, tracked map, empty fault plan, base
view; and the backup view gains no symlink and no symlink changes its target -/
structure Fin (S : LSim cfg) (w : World) (vb : View) (w' : World) : Prop where
  good : S.G w'.fs
  infos : w'.infos = w.infos
  faults : w'.faults = []
  base : S.view .base w'.fs = vb
  bklinks : LinkMono (S.view .backup w.fs) (S.view .backup w'.fs)

/-- keys tracked with an info when Rollback began still have no backup symlink above them -/
theorem Fin.acc {w0 w : World} {vb : View} (h : Fin S w0 vb w) (hinv : Inv S v0 w0) {k : Key} {i : Info}
    (hk : PKey k) (hts : TS w0 k i) : NoLinkAnc (S.view .backup w.fs) k :=
  h.bklinks.noLinkAnc (hinv.backup_noLinkAnc_ts hk hts)

theorem sat_cleanupAct {w0 w : World} {vb : View} {k : Key} (h : Fin S w0 vb w) (hk : PKey k) (hne : k ≠ [])
    (hacc0 : NoLinkAnc (S.view .backup w0.fs) k) :
    Sat (cleanupAct cfg (kp k)) w (fun w' _ => Fin S w0 vb w') := by
  have hacc : NoLinkAnc (S.view .backup w.fs) k := h.bklinks.noLinkAnc hacc0
  unfold cleanupAct
  apply Sat.bind
  apply (sat_lexists (S := S) (s := .backup) h.good hk h.faults hacc).mono
  intro w1 r1 ⟨hs1, _, _⟩
  have h1 : Fin S w0 vb w1 := ⟨hs1.fs ▸ h.good, hs1.infos.trans h.infos, hs1.faults.trans h.faults,
    by rw [hs1.fs]; exact h.base, by rw [hs1.fs]; exact h.bklinks⟩
  cases r1 with
  | error e => exact h1
  | ok o =>
    cases o with
    | none => exact Sat.pure h1
    | some i =>
      simp only
      apply (sat_primUnit_chg (S := S) (s := .backup) (K := (· = k)) h1.good (fun m' r hc => by
        obtain ⟨g, o, f, lm⟩ := S.remove_frame h1.good hk hne (by rw [hs1.fs]; exact hacc) hc
        exact ⟨g, o, fun j hj => f j hj, lm⟩)).mono
      intro w2 _ hc
      exact ⟨hc.good, hc.infos.trans h1.infos, hc.faults.trans h1.faults, hc.other.trans h1.base,
        h1.bklinks.trans hc.links⟩

theorem sat_removeBackupPaths {w0 w : World} {vb : View} {ps : List Path} (h : Fin S w0 vb w)
    (hps : ∀ p ∈ ps, ∃ k, PKey k ∧ k ≠ [] ∧ p = kp k ∧ NoLinkAnc (S.view .backup w0.fs) k) :
    Sat (removeBackupPaths cfg ps) w (fun w' _ => Fin S w0 vb w') := by
  unfold removeBackupPaths
  apply sat_forEach_any (P := Fin S w0 vb) _ w h
  intro x hx w' h'
  obtain ⟨k, hk, hne, rfl, hacc⟩ := hps x ((sortBy_perm _ ps).mem_iff.mp hx)
  exact sat_cleanupAct h' hk hne hacc

/-! ### Rollback restores the base -/

theorem Inv.mem_iff {w : World} (h : Inv S v0 w) {p : Path} {x : Option Info} :
    (p, x) ∈ w.infos ↔ w.infos.lookup p = some x :=
  ⟨lookup_of_mem h.nodup, mem_of_lookup⟩

theorem ts_kind {w : World} {k : Key} {i : Info} (hts : TS w k i) (hne : k ≠ []) :
    TSDir w k ∨ TSFile w k ∨ TSLink w k := by
  cases hkind : i.kind with
  | dir => exact Or.inl ⟨hne, i, hts, hkind⟩
  | file => exact Or.inr (Or.inl ⟨i, hts, hkind⟩)
  | link => exact Or.inr (Or.inr ⟨i, hts, hkind⟩)

theorem Inv.tsfile_ne_root {w : World} (h : Inv S v0 w) {k : Key} (hk : PKey k) (hf : TSFile w k) : k ≠ [] := by
  obtain ⟨i, hts, hkind⟩ := hf
  obtain ⟨c, mtb, htarget, _⟩ := h.file_target hk hts hkind
  intro e; subst e
  obtain ⟨mt, hroot⟩ := h.v0_root
  rw [htarget] at hroot; cases hroot

theorem Inv.tslink_ne_root {w : World} (h : Inv S v0 w) {k : Key} (hk : PKey k) (hf : TSLink w k) : k ≠ [] := by
  obtain ⟨i, hts, hkind⟩ := hf
  obtain ⟨t, mtb, htarget, _⟩ := h.link_target hk hts hkind
  intro e; subst e
  obtain ⟨mt, hroot⟩ := h.v0_root
  rw [htarget] at hroot; cases hroot

/-- T01 (Rollback) with symlinks: from a state satisfying the transaction invariant, on healthy
filesystems, Rollback puts every key of the base view except the root back to its original node
(symlinks included), and the backup view gains no symlink and none of its symlinks changes target -/
theorem sat_rollback {w : World} (hinv : Inv S v0 w) (hnf : w.faults = []) :
    Sat (rollback cfg) w (fun w' _ => S.G w'.fs ∧ w'.faults = [] ∧
      (∀ k, k ≠ [] → S.view .base w'.fs k = v0 k) ∧
      LinkMono (S.view .backup w.fs) (S.view .backup w'.fs)) := by
  unfold rollback
  apply Sat.bind
  apply Sat.getW
  simp only
  apply Sat.bind
  -- the first loop
  have hc1 := (sat_classify (cfg := cfg) (S := S) w.infos {} w hinv.good hnf hinv.keys (by
    intro p oi hm k hk hp
    subst hp
    apply hinv.blink k hk
    unfold Tracked
    rw [hinv.mem_iff.mp hm]; simp)).elim
  have hc2 := (sat_classify_nd (cfg := cfg) w.infos {} w hinv.nodup
    ⟨List.nodup_nil, List.nodup_nil, List.nodup_nil, List.nodup_nil, (by intro p h; cases h),
      (by intro p h; cases h), (by intro p h; cases h), (by intro p h; cases h)⟩).elim
  cases hrun : classify cfg w.infos {} w with
  | mk w1 r1 =>
    rw [hrun] at hc1 hc2
    obtain ⟨hs1, pl, hr1, hcl⟩ := hc1
    subst hr1
    have hpnd := hc2 pl rfl
    apply Sat.of_eq hrun
    simp only
    -- the plan, in terms of keys
    have hrb : ∀ p, p ∈ pl.removeBase ↔ ∃ k, PKey k ∧ p = kp k ∧ TN w k ∧ S.view .base w.fs k ≠ none := by
      intro p
      rw [hcl.removeBase p]
      constructor
      · rintro (h | ⟨k, hk, rfl, hm, hp⟩)
        · cases h
        · exact ⟨k, hk, rfl, hinv.mem_iff.mp hm, hp⟩
      · rintro ⟨k, hk, rfl, htn, hp⟩
        exact Or.inr ⟨k, hk, rfl, hinv.mem_iff.mpr htn, hp⟩
    have hds : ∀ p, p ∈ pl.dirs ↔ ∃ k, PKey k ∧ p = kp k ∧ TSDir w k := by
      intro p
      rw [hcl.dirs p]
      constructor
      · rintro (h | ⟨i, hm, hroot, hkind⟩)
        · cases h
        · obtain ⟨k, hk, rfl⟩ := hinv.keys p (some i) hm
          exact ⟨k, hk, rfl, fun e => hroot ((kp_eq_root_iff hk).mpr e), i, hinv.mem_iff.mp hm, hkind⟩
      · rintro ⟨k, hk, rfl, hne, i, hts, hkind⟩
        exact Or.inr ⟨i, hinv.mem_iff.mpr hts, fun e => hne ((kp_eq_root_iff hk).mp e), hkind⟩
    have hfs : ∀ p, p ∈ pl.files ↔ ∃ k, PKey k ∧ p = kp k ∧ TSFile w k := by
      intro p
      rw [hcl.files p]
      constructor
      · rintro (h | ⟨i, hm, hroot, hkind⟩)
        · cases h
        · obtain ⟨k, hk, rfl⟩ := hinv.keys p (some i) hm
          exact ⟨k, hk, rfl, i, hinv.mem_iff.mp hm, hkind⟩
      · rintro ⟨k, hk, rfl, i, hts, hkind⟩
        exact Or.inr ⟨i, hinv.mem_iff.mpr hts,
          fun e => hinv.tsfile_ne_root hk ⟨i, hts, hkind⟩ ((kp_eq_root_iff hk).mp e), hkind⟩
    have hls : ∀ p, p ∈ pl.links ↔ ∃ k, PKey k ∧ p = kp k ∧ TSLink w k := by
      intro p
      rw [hcl.links p]
      constructor
      · rintro (h | ⟨i, hm, hroot, hkind⟩)
        · cases h
        · obtain ⟨k, hk, rfl⟩ := hinv.keys p (some i) hm
          exact ⟨k, hk, rfl, i, hinv.mem_iff.mp hm, hkind⟩
      · rintro ⟨k, hk, rfl, i, hts, hkind⟩
        exact Or.inr ⟨i, hinv.mem_iff.mpr hts,
          fun e => hinv.tslink_ne_root hk ⟨i, hts, hkind⟩ ((kp_eq_root_iff hk).mp e), hkind⟩
    -- phase 1
    apply Sat.bind
    apply (phase1 (cfg := cfg) hinv hnf hs1 pl.removeBase hrb hpnd.rb).mono
    intro w2 r2 ⟨hr2, hm2⟩
    subst hr2
    simp only
    -- phase 2
    apply Sat.bind
    apply (phase2 (cfg := cfg) hinv hm2 pl.dirs hds hpnd.ds).mono
    intro w3 r3 ⟨hr3, hm3⟩
    subst hr3
    simp only
    -- phase 3
    apply Sat.bind
    apply (phase3 (cfg := cfg) hinv hm3 pl.files hfs hpnd.fs).mono
    intro w4 r4 ⟨hr4, hm4⟩
    subst hr4
    simp only
    -- phase 4
    apply Sat.bind
    apply (phase4 (cfg := cfg) hinv hm4 pl.links hls hpnd.ls).mono
    intro w5 r5 ⟨hr5, hm5⟩
    subst hr5
    simp only
    have hfin : Fin S w (S.view .base w5.fs) w5 :=
      ⟨hm5.good, hm5.infos, hm5.faults, rfl, LinkMono.of_eq hm5.backup⟩
    have hend : ∀ w' : World, S.view .base w'.fs = S.view .base w5.fs → ∀ k, k ≠ [] → S.view .base w'.fs k = v0 k := by
      intro w' hf k hkne
      rw [hf]
      by_cases hD : PKey k ∧ (TN w k ∨ TSDir w k ∨ TSFile w k ∨ TSLink w k)
      · exact hm5.done k hD
      · rw [hm5.rest k hD]
        by_cases hk : PKey k
        · rcases tracked_cases w k with hu | htn | ⟨i, hts⟩
          · exact hinv.frame k hk hu
          · exact absurd ⟨hk, Or.inl htn⟩ hD
          · exact absurd ⟨hk, Or.inr (ts_kind hts hkne)⟩ hD
        · have h1 : S.view .base w.fs k = none := by
            apply Classical.byContradiction
            intro h; exact hk (S.pkey hinv.good h)
          have h2 : v0 k = none := by
            apply Classical.byContradiction
            intro h; exact hk (hinv.v0_pkey h)
          rw [h1, h2]
    have hpost : ∀ w' : World, Fin S w (S.view .base w5.fs) w' →
        S.G w'.fs ∧ w'.faults = [] ∧ (∀ k, k ≠ [] → S.view .base w'.fs k = v0 k) ∧
          LinkMono (S.view .backup w.fs) (S.view .backup w'.fs) :=
      fun w' hf => ⟨hf.good, hf.faults, hend w' hf.base, hf.bklinks⟩
    -- phase 5
    apply Sat.bind
    apply (sat_removeBackupPaths (S := S) (ps := pl.links) hfin (by
      intro p hp
      obtain ⟨k, hk, rfl, hf⟩ := (hls p).mp hp
      obtain ⟨i, hts, _⟩ := id hf
      exact ⟨k, hk, hinv.tslink_ne_root hk hf, rfl, hinv.backup_noLinkAnc_ts hk hts⟩)).mono
    intro w6 r6 hf6
    cases r6 with
    | error e => exact hpost w6 hf6
    | ok e5 =>
      simp only
      -- phase 6
      apply Sat.bind
      apply (sat_removeBackupPaths (S := S) (ps := pl.files) hf6 (by
        intro p hp
        obtain ⟨k, hk, rfl, hf⟩ := (hfs p).mp hp
        obtain ⟨i, hts, _⟩ := id hf
        exact ⟨k, hk, hinv.tsfile_ne_root hk hf, rfl, hinv.backup_noLinkAnc_ts hk hts⟩)).mono
      intro w7 r7 hf7
      cases r7 with
      | error e => exact hpost w7 hf7
      | ok e6 =>
        simp only
        -- phase 7
        apply Sat.bind
        apply (sat_removeBackupPaths (S := S) (ps := pl.dirs) hf7 (by
          intro p hp
          obtain ⟨k, hk, rfl, hd⟩ := (hds p).mp hp
          obtain ⟨_, i, hts, _⟩ := id hd
          exact ⟨k, hk, hd.1, rfl, hinv.backup_noLinkAnc_ts hk hts⟩)).mono
        intro w8 r8 hf8
        cases r8 with
        | error e => exact hpost w8 hf8
        | ok e7 =>
          simp only
          apply Sat.bind
          apply Sat.modifyW
          simp only
          apply Sat.pure
          exact ⟨hf8.good, hf8.faults, hend { w8 with infos := [] } hf8.base, hf8.bklinks⟩

end L
end BFS
