import Lemmas.UOpsB3
/-!
  Lemmas/UOpsB4.lean — tier 2 (C03 through flat symlinks): `StepB` for Create / OpenFile with the writes
  through the handle.
-/
namespace BFS
namespace U
open BackupFS MFS F16

/-! ### the fault plan and the tracked map are not touched by the handle primitives -/

theorem primH_keeps_faults (wh : WHandle) (m : String) (ex : List Path) (b : Bool) :
    Keeps (fun w => w.faults) (primH wh m ex b) := by
  intro w
  unfold primH account
  simp only
  split <;> rfl

theorem hWrite_keeps_faults (cfg : Cfg) (wh : WHandle) (off : Nat) (d : String) :
    Keeps (fun w => w.faults) (hWrite cfg wh off d) := by
  unfold hWrite
  apply Keeps.bind (primH_keeps_faults _ _ _ _)
  intro _ w
  simp only

theorem writeClose_keeps {β} (f : World → β) (cfg : Cfg) (wh : WHandle) (data : String)
    (hH : ∀ m ex b, Keeps f (primH wh m ex b)) (hW : ∀ off d, Keeps f (hWrite cfg wh off d)) :
    Keeps f (writeClose cfg wh data) := by
  unfold writeClose
  apply Keeps.bind (Keeps.attempt (Keeps.whenM (hW _ _)))
  intro r
  cases r with
  | error e =>
    simp only
    apply Keeps.bind (Keeps.attempt (hH _ _ _))
    intro _
    exact Keeps.pure _ _
  | ok u =>
    simp only
    apply Keeps.bind (Keeps.attempt (hH _ _ _))
    intro r2
    cases r2 <;> exact Keeps.pure _ _

theorem writeClose_keeps_infos (cfg : Cfg) (wh : WHandle) (data : String) :
    Keeps (fun w => w.infos) (writeClose cfg wh data) :=
  writeClose_keeps _ cfg wh data (fun m ex b => primH_keeps_infos wh m ex b) (fun off d => hWrite_keeps cfg wh off d)

theorem writeClose_keeps_faults (cfg : Cfg) (wh : WHandle) (data : String) :
    Keeps (fun w => w.faults) (writeClose cfg wh data) :=
  writeClose_keeps _ cfg wh data (fun m ex b => primH_keeps_faults wh m ex b)
    (fun off d => hWrite_keeps_faults cfg wh off d)

section
variable {bk kk : Key}
variable (hr : Roots bk kk) {v0 : View} {r0 : Option Node} {w : World} {name : Path} {k : Key}
include hr

/-- Create / OpenFile-for-writing -/
theorem open_stepB {c : Path → Call} {data : String}
    (hinv : L.Inv (osSimLR hr) v0 w) (hb : BInvL (osSimLR hr) r0 w) (hflat : Flat bk w.fs) (hk : PKey k)
    (hname : clean name = kp k) (hlok : LinkOKBoth bk kk w (L.G.rk bk w k))
    (hdfail : FileAnc (L.osViewL bk kk .base w.fs) (L.G.rk bk w k) →
      (directOpen (baseFS bk kk) w.fs (c name) data).1 = w.fs ∧
      ∃ e', (directOpen (baseFS bk kk) w.fs (c name) data).2 = .error e' ∧ FailCls e')
    (hframe : ∀ m m' res, L.OSGoodL bk kk m → L.osViewL bk kk .base m = L.osViewL bk kk .base w.fs →
      (baseFS bk kk).call m (c (kp (L.G.rk bk w k))) = (m', res) →
      L.OSGoodL bk kk m' ∧ L.osViewL bk kk .backup m' = L.osViewL bk kk .backup m ∧
      ∀ hd, res = .ok (.handle hd) → hd.key = bk ++ L.G.rk bk w k) :
    BInvL (osSimLR hr) r0
        ((do
          let h ← (prepare (osCfg bk kk) name >>= fun r => primOpen (osCfg bk kk) .base (c r))
          let o ← writeClose (osCfg bk kk) h data
          pure (OpOut.written h o) : M OpOut) w).1 ∧
      (∀ e, (prepare (osCfg bk kk) name w).2 = .error e → e = .typeMismatch ∧
        (directOpen (baseFS bk kk) w.fs (c name) data).1 = w.fs ∧
        ∃ e', (directOpen (baseFS bk kk) w.fs (c name) data).2 = .error e' ∧ FailCls e') := by
  have hfacts := prepare_flatB hr hinv hb hflat hk hname hlok
  constructor
  · simp only [M.bind_apply]
    revert hfacts
    cases prepare (osCfg bk kk) name w with
    | mk w1 pr =>
      intro hfacts
      cases pr with
      | error e => exact hfacts.b
      | ok p =>
        have hp := hfacts.res p rfl
        subst hp
        simp only
        -- the open
        have hopen := (sat_primOpen_nf (cfg := osCfg bk kk) (c := c (kp (L.G.rk bk w k))) hfacts.b.nofault).elim
        have hoi : (primOpen (osCfg bk kk) .base (c (kp (L.G.rk bk w k))) w1).1.infos = w1.infos :=
          primOpen_keeps (osCfg bk kk) .base _ w1
        revert hopen hoi
        cases primOpen (osCfg bk kk) .base (c (kp (L.G.rk bk w k))) w1 with
        | mk w2 r2 =>
          intro ⟨hfs2, hnf2, hmatch⟩ hoi
          have hcall : (baseFS bk kk).call w1.fs (c (kp (L.G.rk bk w k))) =
              (((baseFS bk kk).call w1.fs (c (kp (L.G.rk bk w k)))).1,
               ((baseFS bk kk).call w1.fs (c (kp (L.G.rk bk w k)))).2) := rfl
          obtain ⟨hg2, hv2, hkey⟩ := hframe _ _ _ hfacts.inv.good hfacts.base hcall
          have hfs2' : w2.fs = ((baseFS bk kk).call w1.fs (c (kp (L.G.rk bk w k)))).1 := hfs2
          have hb2 : BInvL (osSimLR hr) r0 w2 := by
            apply hfacts.b.of_eq _ hoi (hnf2.trans hfacts.b.nofault.symm)
            show L.osViewL bk kk .backup w2.fs = L.osViewL bk kk .backup w1.fs
            rw [hfs2']; exact hv2
          cases r2 with
          | error e => exact hb2
          | ok wh =>
            simp only
            -- the handle
            have hmatch' : (match ((baseFS bk kk).call w1.fs (c (kp (L.G.rk bk w k)))).2 with
                | .ok (.handle h) => ∃ wh', (Except.ok wh : Except Err WHandle) = .ok wh' ∧ wh'.h = h ∧ wh'.side = .base
                | .ok _ => (Except.ok wh : Except Err WHandle) = .error .other
                | .error e => (Except.ok wh : Except Err WHandle) = .error e) := hmatch
            have hwh : wh.side = .base ∧ wh.h.key = bk ++ L.G.rk bk w k := by
              cases hres : ((baseFS bk kk).call w1.fs (c (kp (L.G.rk bk w k)))).2 with
              | error e => rw [hres] at hmatch'; cases hmatch'
              | ok ret =>
                rw [hres] at hmatch'
                cases ret with
                | handle h =>
                  obtain ⟨wh', e1, e2, e3⟩ := hmatch'
                  cases e1
                  exact ⟨e3, by rw [e2]; exact hkey h hres⟩
                | unit => cases hmatch'
                | info i => cases hmatch'
                | str s => cases hmatch'
            have hwc := (sat_writeClose_nf (cfg := osCfg bk kk) (wh := wh) (data := data) hnf2).elim
            have hwi : (writeClose (osCfg bk kk) wh data w2).1.infos = w2.infos := writeClose_keeps_infos _ _ _ w2
            have hwf : (writeClose (osCfg bk kk) wh data w2).1.faults = w2.faults := writeClose_keeps_faults _ _ _ w2
            revert hwc hwi hwf
            cases writeClose (osCfg bk kk) wh data w2 with
            | mk w3 r3 =>
              intro ⟨hfs3, _⟩ hwi hwf
              have hb3 : BInvL (osSimLR hr) r0 w3 := by
                apply hb2.of_eq _ hwi hwf
                show L.osViewL bk kk .backup w3.fs = L.osViewL bk kk .backup w2.fs
                rw [hfs3, hwh.1]
                unfold directWrite
                split
                · rfl
                · have hw : ((osCfg bk kk).side .base).hwrite w2.fs wh.h 0 data =
                      ((((osCfg bk kk).side .base).hwrite w2.fs wh.h 0 data).1,
                       (((osCfg bk kk).side .base).hwrite w2.fs wh.h 0 data).2) := rfl
                  have hfr := (L.os_hwrite_frame (s := .base) hr (by rw [hfs2']; exact hg2) hwh.2 hw).2.1
                  cases hx : ((osCfg bk kk).side .base).hwrite w2.fs wh.h 0 data with
                  | mk a1 r1 =>
                    rw [hx] at hfr
                    cases r1 <;> exact hfr
              cases r3 with
              | error e => exact hb3
              | ok o => exact hb3
  · intro e he
    obtain ⟨h1, hfa⟩ := hfacts.fail e he
    obtain ⟨a, b⟩ := hdfail hfa
    exact ⟨h1, a, b⟩

/-- the direct open below a regular file -/
theorem open_dfail {c : Path → Call} {flag perm : Nat} {data : String}
    (hg : L.OSGoodL bk kk w.fs) (hflat : Flat bk w.fs) (hk : PKey k) (hlen : k.length ≤ 40)
    (hspell : ∀ m, (baseFS bk kk).call m (c name) = (baseFS bk kk).call m (c (kp k)))
    (hside : ∀ m j, PKey j → (baseFS bk kk).call m (c (kp j)) =
      ((m.openFile (kp (bk ++ j)) flag perm).1,
       (m.openFile (kp (bk ++ j)) flag perm).2.map
        (fun hd => Ret.handle { hd with name := PrefixFS.reportedName (kp bk) (kp (bk ++ j)) hd.name })))
    (hfa : FileAnc (L.osViewL bk kk .base w.fs) (L.G.rk bk w k)) :
    (directOpen (baseFS bk kk) w.fs (c name) data).1 = w.fs ∧
      ∃ e', (directOpen (baseFS bk kk) w.fs (c name) data).2 = .error e' ∧ FailCls e' := by
  obtain ⟨e0, hn, hnf0⟩ := namei_fileAnc hr hg hflat hk hlen hfa (!(hasFlag flag O_CREATE && hasFlag flag O_EXCL))
  have ho : w.fs.openFile (kp (bk ++ k)) flag perm = (w.fs, .error e0) := by
    unfold MFS.openFile
    simp only
    rw [hn]
  unfold directOpen
  rw [hspell, hside w.fs k hk, ho]
  exact ⟨rfl, e0, rfl, Or.inl hnf0⟩

theorem creat_stepB (hinv : L.Inv (osSimLR hr) v0 w) (hb : BInvL (osSimLR hr) r0 w) (hflat : Flat bk w.fs) (hk : PKey k)
    (hname : clean name = kp k) (hlen : k.length ≤ 40)
    (hfin : ∀ t mt, w.fs.get (bk ++ L.G.rk bk w k) ≠ some (.link t mt)) (data : String) :
    StepB hr r0 w (.creat name data) := by
  have hrk := L.G.rk_pkey hr hinv.good hflat hk
  have h := open_stepB hr (c := fun r => .create r) (data := data) hinv hb hflat hk hname (linkOKBoth_of_notLink hfin)
    (open_dfail hr (c := fun r => .create r) (flag := wflags) (perm := 0o666) hinv.good hflat hk hlen
      (fun m => (base_call_spelling m hk hname).1) (fun m j hj => side_create (m := m) .base hr hj))
    (fun m m' res hg hv h => by
      obtain ⟨a, b, _, _, e⟩ := L.os_create_frame (s := .base) hr hg hrk
        (accF_of_view (rk_noLinkAnc_of_view hr hinv.good hflat k hv) hv hfin) h
      exact ⟨a, b, fun hd hh => (e hd hh).1⟩)
  refine ⟨h.1, ?_⟩
  intro e he
  have e1 : (Op.backupPhase (osCfg bk kk) (.creat name data) w).2 =
      (prepare (osCfg bk kk) name w).2.map (fun _ => ()) := prepPhase_snd _ _ _
  rw [e1] at he
  apply h.2 e
  cases hp : (prepare (osCfg bk kk) name w).2 with
  | ok p => rw [hp] at he; cases he
  | error e' => rw [hp] at he; cases he; rfl

theorem write_stepB (hinv : L.Inv (osSimLR hr) v0 w) (hb : BInvL (osSimLR hr) r0 w) (hflat : Flat bk w.fs) (hk : PKey k)
    (hname : clean name = kp k) (hlen : k.length ≤ 40) (flag perm : Nat) (hro : flag ≠ O_RDONLY)
    (hlok : LinkOKBoth bk kk w (L.G.rk bk w k))
    (hfin : ∀ t mt, w.fs.get (bk ++ L.G.rk bk w k) ≠ some (.link t mt)) (data : String) :
    StepB hr r0 w (.write name flag perm data) := by
  have hrk := L.G.rk_pkey hr hinv.good hflat hk
  have hx : Op.exec (osCfg bk kk) (.write name flag perm data) = (do
      let h ← (prepare (osCfg bk kk) name >>= fun r => primOpen (osCfg bk kk) .base (.openFile r flag perm))
      let o ← writeClose (osCfg bk kk) h data
      pure (OpOut.written h o) : M OpOut) := by
    show (do let h ← BackupFS.openFile (osCfg bk kk) name flag perm; let o ← writeClose (osCfg bk kk) h data
             pure (OpOut.written h o) : M OpOut) = _
    unfold BackupFS.openFile
    simp only [hro, if_false]
  have hph : (Op.backupPhase (osCfg bk kk) (.write name flag perm data) w).2 =
      (prepare (osCfg bk kk) name w).2.map (fun _ => ()) := by
    unfold Op.backupPhase
    simp only [hro, if_false]
    exact prepPhase_snd _ _ _
  have h := open_stepB hr (c := fun r => .openFile r flag perm) (data := data) hinv hb hflat hk hname hlok
    (open_dfail hr (c := fun r => .openFile r flag perm) (flag := flag) (perm := perm) hinv.good hflat hk hlen
      (fun m => (base_call_spelling m hk hname).2.2.2.1 flag perm)
      (fun m j hj => side_openFile (m := m) .base hr hj flag perm))
    (fun m m' res hg hv h => by
      obtain ⟨a, b, _, _, e⟩ := L.os_openFile_frame (s := .base) hr hg hrk
        (accF_of_view (rk_noLinkAnc_of_view hr hinv.good hflat k hv) hv hfin) h
      exact ⟨a, b, e⟩)
  refine ⟨by rw [hx]; exact h.1, ?_⟩
  intro e he
  rw [hph] at he
  apply h.2 e
  cases hp : (prepare (osCfg bk kk) name w).2 with
  | ok p => rw [hp] at he; cases he
  | error e' => rw [hp] at he; cases he; rfl

end

end U
end BFS
