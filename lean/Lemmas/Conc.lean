import Model.Conc
/-! Every valid schedule is equivalent to the serial execution in lock-acquisition order. -/
namespace Conc

variable {σ : Type}

theorem serial_append (ths : Nat → Thread σ) (pre : List Nat) (t : Nat) (s : σ) :
    serial ths (pre ++ [t]) s =
      (match ths t with
        | .locked steps => runSteps steps (serial ths pre s)
        | .free => serial ths pre s) := by
  induction pre generalizing s with
  | nil => simp only [List.nil_append, serial]; cases ths t <;> rfl
  | cons u us ih =>
    simp only [List.cons_append, serial]
    cases ths u <;> exact ih _

theorem runSteps_take_succ (steps : List (σ → σ)) (k : Nat) (h : k < steps.length) (s : σ) :
    runSteps (steps.take (k + 1)) s = (steps[k]) (runSteps (steps.take k) s) := by
  unfold runSteps
  rw [List.take_succ_eq_append_getElem h, List.foldl_append]
  rfl

/-- the invariant of the interleaving semantics -/
structure Inv (ths : Nat → Thread σ) (s0 : σ) (c : Config σ) : Prop where
  idle : ∀ t steps, ths t = .locked steps → c.owner ≠ some t →
    (c.pc t = 0 ∧ t ∉ c.order) ∨ (c.pc t = steps.length + 2 ∧ t ∈ c.order)
  hold : match c.owner with
    | none => c.st = serial ths c.order s0
    | some t => ∃ pre steps, ths t = .locked steps ∧ c.order = pre ++ [t] ∧ 1 ≤ c.pc t ∧
        c.pc t ≤ steps.length + 1 ∧ c.st = runSteps (steps.take (c.pc t - 1)) (serial ths pre s0)

theorem inv_init (ths : Nat → Thread σ) (s0 : σ) : Inv ths s0 (init s0) := by
  refine ⟨?_, ?_⟩
  · intro t steps _ _; left; exact ⟨rfl, by simp [init]⟩
  · simp [init, serial]

theorem inv_step (ths : Nat → Thread σ) (s0 : σ) (c c' : Config σ) (t : Nat)
    (hi : Inv ths s0 c) (hs : step ths c t = some c') : Inv ths s0 c' := by
  unfold step at hs
  cases htt : ths t with
  | free =>
    rw [htt] at hs
    simp only at hs
    split at hs
    · cases hs
      refine ⟨?_, ?_⟩
      · intro u steps hu hne
        have hut : u ≠ t := by intro e; rw [e, htt] at hu; cases hu
        simp only [hut, if_false]
        exact hi.idle u steps hu hne
      · have := hi.hold
        cases ho : c.owner with
        | none => rw [ho] at this; simpa [ho] using this
        | some u =>
          rw [ho] at this
          simp only [ho]
          obtain ⟨pre, steps, h1, h2, h3, h4, h5⟩ := this
          have hut : u ≠ t := by intro e; rw [e, htt] at h1; cases h1
          exact ⟨pre, steps, h1, h2, by simpa [hut] using h3, by simpa [hut] using h4, by simpa [hut] using h5⟩
    · cases hs
  | locked steps =>
    rw [htt] at hs
    simp only at hs
    by_cases hk0 : c.pc t = 0
    · -- acquire
      simp only [hk0, if_true] at hs
      cases ho : c.owner with
      | some u => rw [ho] at hs; cases hs
      | none =>
        rw [ho] at hs
        cases hs
        have hold := hi.hold
        rw [ho] at hold
        simp only at hold
        refine ⟨?_, ?_⟩
        · intro u stepsu hu hne
          have hut : u ≠ t := by intro e; apply hne; rw [e]
          simp only [hut, if_false]
          rcases hi.idle u stepsu hu (by rw [ho]; simp) with h | h
          · left; exact ⟨h.1, by simp [h.2, hut]⟩
          · right; exact ⟨h.1, by simp [h.2]⟩
        · simp only
          refine ⟨c.order, steps, htt, rfl, by simp, by simp, ?_⟩
          simp [runSteps, hold]
    · simp only [hk0, if_false] at hs
      by_cases hlt : c.pc t - 1 < steps.length
      · -- a step inside the critical section
        simp only [hlt, dite_true] at hs
        by_cases hown : c.owner = some t
        · simp only [hown, if_true] at hs
          cases hs
          have hold := hi.hold
          rw [hown] at hold
          simp only at hold
          obtain ⟨pre, steps', h1, h2, h3, h4, h5⟩ := hold
          rw [htt] at h1
          cases h1
          refine ⟨?_, ?_⟩
          · intro u stepsu hu hne
            have hut : u ≠ t := by intro e; apply hne; rw [e]
            simp only [hut, if_false]
            exact hi.idle u stepsu hu (by rw [hown]; intro e; cases e; exact hut rfl)
          · simp only [hown]
            refine ⟨pre, steps, htt, h2, by simp, by simp; omega, ?_⟩
            simp only [if_true]
            have hk : c.pc t - 1 + 1 = c.pc t := by omega
            have := runSteps_take_succ steps (c.pc t - 1) hlt (serial ths pre s0)
            rw [hk] at this
            simp only [Nat.add_sub_cancel]
            rw [this, ← h5]
        · simp only [hown, if_false] at hs
          cases hs
      · simp only [hlt, dite_false] at hs
        by_cases hrel : c.pc t = steps.length + 1
        · simp only [hrel, if_true] at hs
          by_cases hown : c.owner = some t
          · simp only [hown, if_true] at hs
            cases hs
            have hold := hi.hold
            rw [hown] at hold
            simp only at hold
            obtain ⟨pre, steps', h1, h2, h3, h4, h5⟩ := hold
            rw [htt] at h1
            cases h1
            refine ⟨?_, ?_⟩
            · intro u stepsu hu _
              by_cases hut : u = t
              · rw [hut] at hu ⊢
                rw [htt] at hu
                have hst : steps = stepsu := by cases hu; rfl
                right
                simp only [if_true]
                refine ⟨?_, by rw [h2]; simp⟩
                rw [← hst]
              · simp only [hut, if_false]
                exact hi.idle u stepsu hu (by rw [hown]; intro e; cases e; exact hut rfl)
            · simp only
              rw [h2, serial_append, htt]
              simp only
              rw [h5, hrel]
              simp
          · simp only [hown, if_false] at hs
            cases hs
        · simp only [hrel, if_false] at hs
          cases hs

theorem inv_exec (ths : Nat → Thread σ) (s0 : σ) : ∀ (sched : List Nat) (c c' : Config σ),
    Inv ths s0 c → exec ths sched c = some c' → Inv ths s0 c'
  | [], c, c', hi, h => by simp only [exec, Option.some.injEq] at h; subst h; exact hi
  | t :: ts, c, c', hi, h => by
    simp only [exec] at h
    cases hst : step ths c t with
    | none => rw [hst] at h; cases h
    | some c1 =>
      rw [hst] at h
      exact inv_exec ths s0 ts c1 c' (inv_step ths s0 c c1 t hi hst) h

end Conc
