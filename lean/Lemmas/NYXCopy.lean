import Lemmas.NYXInv
import Lemmas.X2Copy
/-!
  Lemmas/NYXCopy.lean (copy of Lemmas/X2Copy.lean over `N.Sim`; the result-blind Sat calculus and `isFileO`/`isDirO` are shared) — what `copyFile` / `copyDir` leave at the TARGET key when they fail half-way
  under a fault plan (Lemmas/Copy.lean states what they leave on success, and that they touch no
  other key): when the target was writable (`CanWrite`: a regular file, or absent below a directory)
  a `copyFile` leaves a regular file there or leaves the key as it was; when the target was absent or a
  directory below a directory, `copyDir` leaves a directory or leaves the key as it was.  So the
  orphan a failed copy leaves in the backup has the type of the original.
-/
namespace BFS.N
open BackupFS

variable {cfg : Cfg} {S : Sim cfg}

namespace X2

/-- well-formed disk on which key `k` of side `s` satisfies `T` -/
def GT (S : Sim cfg) (s : Side) (k : Key) (T : Option Node → Prop) (w : World) : Prop :=
  S.G w.fs ∧ T (S.view s w.fs k)

theorem GT.same {s : Side} {k : Key} {T : Option Node → Prop} {w w' : World}
    (h : GT S s k T w) (hs : SameFS w w') : GT S s k T w' := by
  unfold GT; rw [hs.fs]; exact h

open BFS.X2 (isFileO isDirO)

/-- a mutating primitive whose law keeps `T` at key `k`: `T` holds afterwards, whatever the fault
plan does -/
theorem sat_primUnit_gt {s : Side} {c : Call} {k : Key} {T : Option Node → Prop} {w : World}
    (h : GT S s k T w)
    (hlaw : ∀ m' r, (cfg.side s).call w.fs c = (m', r) → S.G m' ∧ T (S.view s m' k)) :
    Sat (primUnit cfg s c) w (fun w' _ => GT S s k T w') := by
  unfold primUnit
  apply Sat.bind
  apply Sat.primCall
  · intro _ w1 h1
    exact h.same h1
  · intro w1 h1
    have hl := hlaw _ _ rfl
    cases hr : ((cfg.side s).call w.fs c).2 with
    | ok a => exact Sat.pure hl
    | error e => exact hl

theorem of_ok_law {s : Side} {c : Call} {m : MFS} {P : MFS → Prop}
    (hok : ∃ m0, (cfg.side s).call m c = (m0, .ok .unit) ∧ P m0) :
    ∀ m' r, (cfg.side s).call m c = (m', r) → P m' := by
  obtain ⟨m0, hc, hp⟩ := hok
  intro m' r h
  rw [hc] at h
  cases h
  exact hp

theorem sat_lstat_gt {s : Side} {k : Key} {T : Option Node → Prop} {w : World} (hk : PKey k)
    (h : GT S s k T w) : Sat (primInfo cfg s (.lstat (kp k))) w (fun w' _ => GT S s k T w') :=
  (sat_lstat h.1 hk).mono (fun _ _ ⟨hs, _⟩ => h.same hs)

/-! ### regular files -/

theorem chown_keeps_file {s : Side} {k : Key} {u g : Int} {m : MFS} (hg : S.G m) (hk : PKey k)
    (hf : isFileO (S.view s m k)) :
    ∀ m' r, (cfg.side s).call m (.chown (kp k) u g) = (m', r) → S.G m' ∧ isFileO (S.view s m' k) := by
  obtain ⟨c, mt, hv⟩ := hf
  apply of_ok_law (P := fun m' => S.G m' ∧ isFileO (S.view s m' k))
  obtain ⟨m0, hc, hv0⟩ := S.chown_some (u := u) (g := g) hg hk hv
  exact ⟨m0, hc, (S.chown_frame hg hk hc).1, c, _, by rw [hv0]; rfl⟩

theorem chmod_keeps_file {s : Side} {k : Key} {md : Nat} {m : MFS} (hg : S.G m) (hk : PKey k)
    (hf : isFileO (S.view s m k)) :
    ∀ m' r, (cfg.side s).call m (.chmod (kp k) md) = (m', r) → S.G m' ∧ isFileO (S.view s m' k) := by
  obtain ⟨c, mt, hv⟩ := hf
  apply of_ok_law (P := fun m' => S.G m' ∧ isFileO (S.view s m' k))
  obtain ⟨m0, hc, hv0⟩ := S.chmod_some (mode := md) hg hk hv
  exact ⟨m0, hc, (S.chmod_frame hg hk hc).1, c, _, by rw [hv0]; rfl⟩

theorem chtimes_keeps_file {s : Side} {k : Key} {a t : Time} {m : MFS} (hg : S.G m) (hk : PKey k)
    (hf : isFileO (S.view s m k)) :
    ∀ m' r, (cfg.side s).call m (.chtimes (kp k) a t) = (m', r) → S.G m' ∧ isFileO (S.view s m' k) := by
  obtain ⟨c, mt, hv⟩ := hf
  apply of_ok_law (P := fun m' => S.G m' ∧ isFileO (S.view s m' k))
  obtain ⟨m0, hc, hv0⟩ := S.chtimes_file (a := a) (t := t) hg hk hv
  exact ⟨m0, hc, (S.chtimes_frame hg hk hc).1, c, _, hv0⟩

theorem sat_chownTo_gt {s : Side} {k : Key} {i : Info} {T : Option Node → Prop} {w : World} (hk : PKey k)
    (h : GT S s k T w)
    (hlaw : ∀ m, S.G m → T (S.view s m k) → ∀ m' r,
      (cfg.side s).call m (.chown (kp k) i.uid i.gid) = (m', r) → S.G m' ∧ T (S.view s m' k)) :
    Sat (chownTo cfg s i (kp k)) w (fun w' _ => GT S s k T w') := by
  unfold chownTo
  apply Sat.x2seq (sat_lstat_gt hk h) (fun _ h => h)
  intro old w1 h1
  exact Sat.x2whenM h1 (sat_primUnit_gt h1 (hlaw w1.fs h1.1 h1.2))

theorem sat_hWrite_gt {dst : WHandle} {k : Key} {off : Nat} {d : String} {w : World}
    (hH : S.H dst.side dst.h k) (hacc : MFS.accessMode dst.h.flag ≠ 0) (h : GT S dst.side k isFileO w) :
    Sat (hWrite cfg dst off d) w (fun w' _ => GT S dst.side k isFileO w') := by
  unfold hWrite
  apply Sat.bind
  apply Sat.primH
  · intro _ w1 h1
    exact h.same h1
  · intro w1 h1
    have h1' := h.same h1
    obtain ⟨hg1, c, mt, hv1⟩ := h1'
    obtain ⟨m', t, heq, hv'⟩ := S.hwrite_file (off := off) (d := d) hg1 hH hacc hv1
    obtain ⟨g, _, _⟩ := S.hwrite_frame hg1 hH heq
    unfold Sat
    simp only [heq]
    exact ⟨g, _, _, hv'⟩

theorem sat_copyChunks_gt {dst src : WHandle} {k : Key} (hH : S.H dst.side dst.h k)
    (hacc : MFS.accessMode dst.h.flag ≠ 0) :
    ∀ (cs : List String) (off : Nat) (w : World), GT S dst.side k isFileO w →
      Sat (copyChunks cfg dst src off cs) w (fun w' _ => GT S dst.side k isFileO w')
  | [], off, w, h => by
    unfold copyChunks
    exact (sat_hRead (src := src) (w := w)).mono (fun _ _ ⟨hs, _⟩ => h.same hs)
  | c :: cs, off, w, h => by
    unfold copyChunks
    apply Sat.x2seq ((sat_hRead (src := src) (w := w)).mono (fun _ _ ⟨hs, _⟩ => h.same hs)) (fun _ h => h)
    intro _ w1 h1
    apply Sat.x2seq (sat_hWrite_gt (off := off) (d := c) hH hacc h1) (fun _ h => h)
    intro _ w2 h2
    exact sat_copyChunks_gt hH hacc cs _ w2 h2

/-- `writeFile` on a writable target: a regular file afterwards, or nothing happened; success means
a regular file -/
theorem sat_writeFile_stab {s : Side} {k : Key} {perm : Nat} {src : WHandle} {w : World}
    (hg : S.G w.fs) (hk : PKey k) (hcw : CanWrite S s (S.view s w.fs) k) :
    Sat (writeFile cfg s (kp k) perm src) w (fun w' r => S.G w'.fs ∧
      (r = .ok () → isFileO (S.view s w'.fs k)) ∧
      (isFileO (S.view s w'.fs k) ∨ S.view s w'.fs k = S.view s w.fs k)) := by
  unfold writeFile
  apply Sat.bind
  unfold primOpen
  apply Sat.bind
  apply Sat.primCall
  · intro _ w1 h1
    refine ⟨h1.fs ▸ hg, ?_, Or.inr (by rw [h1.fs])⟩
    intro h; cases h
  · intro w1 h1
    have hfl : (O_RDWR ||| O_CREATE ||| O_TRUNC) = wflags := rfl
    rw [hfl]
    -- the open succeeds and leaves an (empty) regular file
    have hopen : ∃ m' h, (cfg.side s).call w.fs (.openFile (kp k) wflags (perm &&& 0o777)) = (m', .ok (.handle h)) ∧
        isFileO (S.view s m' k) := by
      rcases hcw with ⟨c, mt, hf⟩ | ⟨hn, hp, hvis⟩
      · obtain ⟨m', h, heq, hv⟩ := S.openW_file (perm := perm &&& 0o777) hg hk hf
        exact ⟨m', h, heq, _, _, hv⟩
      · obtain ⟨m', h, mt, heq, hv⟩ := S.openW_none (perm := perm &&& 0o777) hg hk hvis hn hp
        exact ⟨m', h, heq, _, _, hv⟩
    obtain ⟨m', h, heq, hfile⟩ := hopen
    obtain ⟨g, _, _, hh⟩ := S.openFile_frame hg hk heq
    have hH : S.H s h k := hh h rfl
    have hflag : h.flag = wflags := S.openFile_flag heq
    rw [heq]
    simp only
    apply Sat.pure
    simp only
    let dst : WHandle := { h := h, arg := (Call.openFile (kp k) wflags (perm &&& 0o777)).primaryPath, side := s }
    have hgt : GT S s k isFileO { w1 with fs := m' } := ⟨g, hfile⟩
    have hacc : MFS.accessMode dst.h.flag ≠ 0 := by
      show MFS.accessMode h.flag ≠ 0
      rw [hflag]; decide
    -- from here on the key holds a regular file, whatever happens
    have hrest : ∀ (x : M Unit) (w2 : World), GT S s k isFileO w2 →
        Sat x w2 (fun w' _ => GT S s k isFileO w') →
        Sat x w2 (fun w' r => S.G w'.fs ∧ (r = .ok () → isFileO (S.view s w'.fs k)) ∧
          (isFileO (S.view s w'.fs k) ∨ S.view s w'.fs k = S.view s w.fs k)) := by
      intro x w2 _ hx
      exact hx.mono (fun w' _ h' => ⟨h'.1, fun _ => h'.2, Or.inl h'.2⟩)
    apply hrest _ _ hgt
    -- peek
    apply Sat.x2seq (P := GT S s k isFileO) _ (fun _ h => h)
    · intro data w2 h2
      apply Sat.x2seq (P := GT S s k isFileO) _ (fun _ h => h)
      · intro r2 w3 h3
        apply Sat.x2seq (P := GT S s k isFileO) _ (fun _ h => h)
        · intro c3 w4 h4
          cases r2 with
          | error e => exact Sat.throw h4
          | ok u2 =>
            cases c3 with
            | error e => exact Sat.throw h4
            | ok u3 => exact Sat.pure h4
        · apply Sat.x2attempt
          exact (sat_hClose (wh := dst) (w := w3)).mono (fun _ _ ⟨hs, _⟩ => h3.same hs)
      · apply Sat.x2attempt
        exact sat_copyChunks_gt (dst := dst) (src := src) hH hacc _ 0 w2 h2
    · unfold peek
      apply Sat.x2seq (P := GT S s k isFileO) (Sat.getW hgt) (fun _ h => h)
      intro w' w2 h2
      split
      · exact Sat.pure h2
      · exact Sat.throw h2

/-- `copyFile` on a writable target leaves a regular file, or leaves the key as it was -/
theorem sat_copyFile_stab {s : Side} {k : Key} {i : Info} {src : WHandle} {w : World}
    (hg : S.G w.fs) (hk : PKey k) (hcw : CanWrite S s (S.view s w.fs) k) :
    Sat (copyFile cfg s (kp k) i src) w (fun w' _ => S.G w'.fs ∧
      (isFileO (S.view s w'.fs k) ∨ S.view s w'.fs k = S.view s w.fs k)) := by
  unfold copyFile
  apply Sat.wrapped
  have key : Sat (if (!i.isRegular) = true then M.throw .typeMismatch else do
        writeFile cfg s (kp k) i.perm src
        ignorePerm (chownTo cfg s i (kp k))
        let cur ← primInfo cfg s (.lstat (kp k))
        BFS.whenM (cur.perm ≠ i.perm) (primUnit cfg s (.chmod (kp k) i.perm))
        BFS.whenM (!timeEq cur.mtime i.mtime) (ignorePerm (primUnit cfg s (.chtimes (kp k) i.mtime i.mtime)))) w
      (fun w' _ => S.G w'.fs ∧ (isFileO (S.view s w'.fs k) ∨ S.view s w'.fs k = S.view s w.fs k)) := by
    apply Sat.ite
    · intro _; exact Sat.throw ⟨hg, Or.inr rfl⟩
    · intro _
      apply Sat.bind
      apply (sat_writeFile_stab (S := S) (perm := i.perm) (src := src) hg hk hcw).mono
      intro w1 r1 ⟨hg1, hok1, hor1⟩
      cases r1 with
      | error e => exact ⟨hg1, hor1⟩
      | ok u1 =>
        simp only
        have h1 : GT S s k isFileO w1 := ⟨hg1, hok1 rfl⟩
        have hfin : ∀ w', GT S s k isFileO w' →
            S.G w'.fs ∧ (isFileO (S.view s w'.fs k) ∨ S.view s w'.fs k = S.view s w.fs k) :=
          fun w' h' => ⟨h'.1, Or.inl h'.2⟩
        apply Sat.x2seq (P := GT S s k isFileO) _ hfin
        · intro _ w2 h2
          apply Sat.x2seq (P := GT S s k isFileO) (sat_lstat_gt hk h2) hfin
          intro cur w3 h3
          apply Sat.x2seq (P := GT S s k isFileO) _ hfin
          · intro _ w4 h4
            apply (Sat.x2whenM (P := GT S s k isFileO) h4 _).mono (fun w' _ h' => hfin w' h')
            apply Sat.x2ignorePerm
            exact sat_primUnit_gt h4 (chtimes_keeps_file h4.1 hk h4.2)
          · exact Sat.x2whenM h3 (sat_primUnit_gt h3 (chmod_keeps_file h3.1 hk h3.2))
        · apply Sat.x2ignorePerm
          exact sat_chownTo_gt hk h1 (fun m hgm hfm => chown_keeps_file hgm hk hfm)
  apply key.mono
  intro w1 r h
  cases r <;> exact h

/-! ### directories -/

theorem chown_keeps_dir {s : Side} {k : Key} {u g : Int} {m : MFS} (hg : S.G m) (hk : PKey k)
    (hf : isDirO (S.view s m k)) :
    ∀ m' r, (cfg.side s).call m (.chown (kp k) u g) = (m', r) → S.G m' ∧ isDirO (S.view s m' k) := by
  obtain ⟨mt, hv⟩ := hf
  apply of_ok_law (P := fun m' => S.G m' ∧ isDirO (S.view s m' k))
  obtain ⟨m0, hc, hv0⟩ := S.chown_some (u := u) (g := g) hg hk hv
  exact ⟨m0, hc, (S.chown_frame hg hk hc).1, _, by rw [hv0]; rfl⟩

theorem chmod_keeps_dir {s : Side} {k : Key} {md : Nat} {m : MFS} (hg : S.G m) (hk : PKey k)
    (hf : isDirO (S.view s m k)) :
    ∀ m' r, (cfg.side s).call m (.chmod (kp k) md) = (m', r) → S.G m' ∧ isDirO (S.view s m' k) := by
  obtain ⟨mt, hv⟩ := hf
  apply of_ok_law (P := fun m' => S.G m' ∧ isDirO (S.view s m' k))
  obtain ⟨m0, hc, hv0⟩ := S.chmod_some (mode := md) hg hk hv
  exact ⟨m0, hc, (S.chmod_frame hg hk hc).1, _, by rw [hv0]; rfl⟩

theorem chtimes_keeps_dir {s : Side} {k : Key} {a t : Time} {m : MFS} (hg : S.G m) (hk : PKey k)
    (hf : isDirO (S.view s m k)) :
    ∀ m' r, (cfg.side s).call m (.chtimes (kp k) a t) = (m', r) → S.G m' ∧ isDirO (S.view s m' k) := by
  obtain ⟨mt, hv⟩ := hf
  apply of_ok_law (P := fun m' => S.G m' ∧ isDirO (S.view s m' k))
  obtain ⟨m0, hc, hv0⟩ := S.chtimes_dir (a := a) (t := t) hg hk ⟨mt, hv⟩
  exact ⟨m0, hc, (S.chtimes_frame hg hk hc).1, mt, by rw [hv0]; exact hv⟩

/-- `copyDir` on a target that is absent or a directory, below a directory: a directory afterwards,
or nothing happened -/
theorem sat_copyDir_stab {s : Side} {d : Key} {i : Info} {w : World} (hg : S.G w.fs) (hd : PKey d)
    (hvis : ¬ S.Hid s d) (hpar : (S.view s w.fs).parentDir d)
    (hcur : S.view s w.fs d = none ∨ (S.view s w.fs).isDirAt d) :
    Sat (copyDir cfg s (kp d) i) w (fun w' _ => S.G w'.fs ∧
      (isDirO (S.view s w'.fs d) ∨ S.view s w'.fs d = S.view s w.fs d)) := by
  unfold copyDir
  apply Sat.wrapped
  have key : Sat (if (!i.isDir) = true then M.throw .typeMismatch else if kp d = rootP then pure () else do
        primUnit cfg s (.mkdirAll (kp d) (i.perm &&& 0o777))
        let cur ← primInfo cfg s (.lstat (kp d))
        BFS.whenM (cur.perm ≠ i.perm) (primUnit cfg s (.chmod (kp d) i.perm))
        BFS.whenM (!timeEq cur.mtime i.mtime) (ignorePerm (primUnit cfg s (.chtimes (kp d) i.mtime i.mtime)))
        ignorePerm (chownTo cfg s i (kp d))) w
      (fun w' _ => S.G w'.fs ∧ (isDirO (S.view s w'.fs d) ∨ S.view s w'.fs d = S.view s w.fs d)) := by
    apply Sat.ite
    · intro _; exact Sat.throw ⟨hg, Or.inr rfl⟩
    · intro _
      apply Sat.ite
      · intro _; exact Sat.pure ⟨hg, Or.inr rfl⟩
      · intro _
        apply Sat.bind
        -- MkdirAll: refused, or it succeeds and leaves a directory
        unfold primUnit
        apply Sat.bind
        apply Sat.primCall
        · intro _ w1 h1
          exact ⟨h1.fs ▸ hg, Or.inr (by rw [h1.fs])⟩
        · intro w1 h1
          obtain ⟨m', hc, _, _⟩ := S.mkdirAll_ok (perm := i.perm &&& 0o777) hg hd hvis (Or.inr hpar) hcur
          obtain ⟨g, _, _, _, hdirAt⟩ := S.mkdirAll_frame hg hd hc
          rw [hc]
          apply Sat.pure
          simp only
          have hgt : GT S s d isDirO { w1 with fs := m' } := ⟨g, hdirAt rfl⟩
          have hfin : ∀ w', GT S s d isDirO w' →
              S.G w'.fs ∧ (isDirO (S.view s w'.fs d) ∨ S.view s w'.fs d = S.view s w.fs d) :=
            fun w' h' => ⟨h'.1, Or.inl h'.2⟩
          apply Sat.x2seq (P := GT S s d isDirO) (sat_lstat_gt hd hgt) hfin
          intro cur w3 h3
          apply Sat.x2seq (P := GT S s d isDirO) _ hfin
          · intro _ w4 h4
            apply Sat.x2seq (P := GT S s d isDirO) _ hfin
            · intro _ w5 h5
              apply (Sat.x2ignorePerm (P := GT S s d isDirO) _).mono (fun w' _ h' => hfin w' h')
              exact sat_chownTo_gt hd h5 (fun m hgm hfm => chown_keeps_dir hgm hd hfm)
            · apply Sat.x2whenM h4
              apply Sat.x2ignorePerm
              exact sat_primUnit_gt h4 (chtimes_keeps_dir h4.1 hd h4.2)
          · exact Sat.x2whenM h3 (sat_primUnit_gt h3 (chmod_keeps_dir h3.1 hd h3.2))
  apply key.mono
  intro w1 r h
  cases r <;> exact h

end X2
end BFS.N
