import Lemmas.UOps4
/-!
  Lemmas/UOps5.lean — transparency through flat symlinks (C03): Rename.  Both names are resolved
  independently (`realPath` twice), both resolved keys are backed up, then `base.Rename(ro, rn)`.
  `os.Rename` compares the two TEXTS (Go's pre-check for an existing directory target): the hypothesis
  `ro = rn → ko = kn` excludes two different names of one entry (see Props/C03U.lean for the witness).
-/
namespace BFS
namespace U
open BackupFS MFS F16

/-- the backup phase of `Rename`, returning the two resolved names -/
def renPrep (cfg : Cfg) (o n : Path) : M (Path × Path) := do
  let ro ← realPath cfg o
  let rn ← realPath cfg n
  tryBackup cfg rn
  tryBackup cfg ro
  pure (ro, rn)

theorem rename_eq (cfg : Cfg) (o n : Path) :
    BackupFS.rename cfg o n = renPrep cfg o n >>= fun p => primUnit cfg .base (.rename p.1 p.2) := by
  funext w
  unfold BackupFS.rename renPrep
  simp only [M.bind_apply]
  cases realPath cfg o w with
  | mk w1 r1 =>
    cases r1 with
    | error e => rfl
    | ok ro =>
      simp only
      cases realPath cfg n w1 with
      | mk w2 r2 =>
        cases r2 with
        | error e => rfl
        | ok rn =>
          simp only
          cases tryBackup cfg rn w2 with
          | mk w3 r3 =>
            cases r3 with
            | error e => rfl
            | ok u3 =>
              simp only
              cases tryBackup cfg ro w3 with
              | mk w4 r4 =>
                cases r4 with
                | error e => rfl
                | ok u4 => rfl

theorem renPhase_snd (cfg : Cfg) (o n : Path) (w : World) :
    (Op.backupPhase cfg (.rename o n) w).2 = (renPrep cfg o n w).2.map (fun _ => ()) := by
  unfold Op.backupPhase renPrep
  simp only [M.bind_apply]
  cases realPath cfg o w with
  | mk w1 r1 =>
    cases r1 with
    | error e => rfl
    | ok ro =>
      simp only
      cases realPath cfg n w1 with
      | mk w2 r2 =>
        cases r2 with
        | error e => rfl
        | ok rn =>
          simp only
          cases tryBackup cfg rn w2 with
          | mk w3 r3 =>
            cases r3 with
            | error e => rfl
            | ok u3 =>
              simp only
              cases tryBackup cfg ro w3 with
              | mk w4 r4 =>
                cases r4 with
                | error e => rfl
                | ok u4 => rfl

theorem renPrep_ku {cfg : Cfg} (hu : FsKeepsUmask cfg) (o n : Path) : KU (renPrep cfg o n) := by
  unfold renPrep
  apply Keeps.bind (realPath_ku hu o); intro ro
  apply Keeps.bind (realPath_ku hu n); intro rn
  apply Keeps.bind (tryBackup_ku hu rn); intro _
  apply Keeps.bind (tryBackup_ku hu ro); intro _
  exact Keeps.pure _ _

section
variable {bk kk : Key}
variable (hr : Roots bk kk) {v0 : View} {w : World}
include hr

theorem renPrep_flat {o n : Path} {ko kn : Key} (hinv : L.Inv (osSimLR hr) v0 w) (hnf : w.faults = [])
    (hflat : Flat bk w.fs) (hko : PKey ko) (hkn : PKey kn) (ho : clean o = kp ko) (hn : clean n = kp kn)
    (hloko : ∀ t mt, L.osViewL bk kk .base w.fs (L.G.rk bk w ko) = some (.link t mt) →
      L.osLinkOK bk kk .base (L.G.rk bk w ko) t)
    (hlokn : ∀ t mt, L.osViewL bk kk .base w.fs (L.G.rk bk w kn) = some (.link t mt) →
      L.osLinkOK bk kk .base (L.G.rk bk w kn) t) :
    Sat (renPrep (osCfg bk kk) o n) w (fun w' r => L.Adv (osSimLR hr) v0 w w' ∧
      ∀ p, r = .ok p → p = (kp (L.G.rk bk w ko), kp (L.G.rk bk w kn))) := by
  have hg : L.OSGoodL bk kk w.fs := hinv.good
  have hreso := L.G.resTo_flat hr hnf hg hflat hko ho
  have hresn := L.G.resTo_flat hr hnf hg hflat hkn hn
  have hrko := L.G.rk_pkey hr hg hflat hko
  have hrkn := L.G.rk_pkey hr hg hflat hkn
  have hacco := L.G.rk_noLinkAnc (kk := kk) hg hflat ko
  have haccn := L.G.rk_noLinkAnc (kk := kk) hg hflat kn
  unfold renPrep
  apply Sat.bind
  apply (hreso w rfl rfl).mono
  intro w1 r1 ⟨hs1, hres1⟩
  have hadv1 := L.Adv.of_same hinv hs1
  cases r1 with
  | error e => exact ⟨hadv1, by intro p h; cases h⟩
  | ok ro =>
    have := hres1 ro rfl; subst this
    simp only
    apply Sat.bind
    apply (hresn w1 hs1.fs hs1.faults).mono
    intro w2 r2 ⟨hs2, hres2⟩
    have hadv2 := hadv1.trans (L.Adv.of_same hadv1.inv hs2)
    cases r2 with
    | error e => exact ⟨hadv2, by intro p h; cases h⟩
    | ok rn =>
      have := hres2 rn rfl; subst this
      simp only
      apply Sat.bind
      apply (L.sat_tryBackup (S := osSimLR hr) hadv2.inv hrkn (by rw [hadv2.base]; exact haccn)
        (by rw [hadv2.base]; exact hlokn)).mono
      intro w3 r3 ⟨hadv3', _, _⟩
      have hadv3 := hadv2.trans hadv3'
      cases r3 with
      | error e => exact ⟨hadv3, by intro p h; cases h⟩
      | ok u3 =>
        simp only
        apply Sat.bind
        apply (L.sat_tryBackup (S := osSimLR hr) hadv3.inv hrko (by rw [hadv3.base]; exact hacco)
          (by rw [hadv3.base]; exact hloko)).mono
        intro w4 r4 ⟨hadv4', _, _⟩
        have hadv4 := hadv3.trans hadv4'
        cases r4 with
        | error e => exact ⟨hadv4, by intro p h; cases h⟩
        | ok u4 =>
          apply Sat.pure
          exact ⟨hadv4, by intro p h; cases h; rfl⟩

theorem side_rename (m : MFS) (jo jn : Key) (hjo : PKey jo) (hjn : PKey jn) :
    (baseFS bk kk).call m (.rename (kp jo) (kp jn)) =
      ((m.rename (kp (bk ++ jo)) (kp (bk ++ jn))).1,
       (m.rename (kp (bk ++ jo)) (kp (bk ++ jn))).2.map (fun _ => Ret.unit)) :=
  side_call_unit hr .base m (tr_rename hr.pb hjo hjn) (x := m.rename (kp (bk ++ jo)) (kp (bk ++ jn))) rfl

theorem rename_transpU {o n : Path} {ko kn : Key} (hinv : L.Inv (osSimLR hr) v0 w) (hnf : w.faults = [])
    (hflat : Flat bk w.fs) (hko : PKey ko) (hkn : PKey kn) (ho : clean o = kp ko) (hn : clean n = kp kn)
    (hleno : ko.length ≤ 40) (hlenn : kn.length ≤ 40)
    (hloko : ∀ t mt, L.osViewL bk kk .base w.fs (L.G.rk bk w ko) = some (.link t mt) →
      L.osLinkOK bk kk .base (L.G.rk bk w ko) t)
    (hlokn : ∀ t mt, L.osViewL bk kk .base w.fs (L.G.rk bk w kn) = some (.link t mt) →
      L.osLinkOK bk kk .base (L.G.rk bk w kn) t)
    (hsame : L.G.rk bk w ko = L.G.rk bk w kn → ko = kn) :
    Sat (Op.exec (osCfg bk kk) (.rename o n)) w
      (fun w' res => TranspU bk w ((Op.backupPhase (osCfg bk kk) (.rename o n) w).2) w' res
        (Op.direct (baseFS bk kk) w.fs (.rename o n))) := by
  have hg : L.OSGoodL bk kk w.fs := hinv.good
  have hrko := L.G.rk_pkey hr hg hflat hko
  have hrkn := L.G.rk_pkey hr hg hflat hkn
  have hd1 := directUnit_fst (baseFS bk kk) w.fs (.rename o n)
  have hd2 := directUnit_snd (baseFS bk kk) w.fs (.rename o n)
  rw [base_rename_spelling w.fs hko hkn ho hn, side_rename hr w.fs ko kn hko hkn] at hd1 hd2
  simp only at hd1 hd2
  have hsat := (renPrep_flat hr hinv hnf hflat hko hkn ho hn hloko hlokn).elim
  have hum : (renPrep (osCfg bk kk) o n w).1.fs.umask = w.fs.umask := renPrep_ku (osCfg_keeps_umask bk kk) o n w
  rw [renPhase_snd]
  have hx : Op.exec (osCfg bk kk) (.rename o n) =
      (renPrep (osCfg bk kk) o n >>= fun p => (do primUnit (osCfg bk kk) .base (.rename p.1 p.2); pure OpOut.unit : M OpOut)) := by
    show (do BackupFS.rename (osCfg bk kk) o n; pure OpOut.unit : M OpOut) = _
    rw [rename_eq]
    funext w0
    simp only [M.bind_apply]
    cases renPrep (osCfg bk kk) o n w0 with
    | mk w1 r => cases r <;> rfl
  rw [hx]
  apply Sat.bind
  unfold Sat
  revert hsat hum
  cases renPrep (osCfg bk kk) o n w with
  | mk w1 pr =>
    intro ⟨hadv, hp⟩ hum
    have hb : UEq bk w.fs w1.fs := ueq_of_adv hr hadv hum
    cases pr with
    | error e => exact ⟨rfl, hb.symm⟩
    | ok p =>
      have hpe := hp p rfl
      subst hpe
      show Sat (do primUnit (osCfg bk kk) .base (.rename (kp (L.G.rk bk w ko)) (kp (L.G.rk bk w kn))); pure OpOut.unit : M OpOut) w1
        (fun w' res => TranspU bk w (.ok ()) w' res (directUnit (baseFS bk kk) w.fs (.rename o n)))
      apply (sat_unit_nf (cfg := osCfg bk kk) (c := .rename (kp (L.G.rk bk w ko)) (kp (L.G.rk bk w kn)))
        (hadv.faults.trans hnf)).mono
      intro w2 r2 ⟨hfs, hr2⟩
      have hfs' : w2.fs = ((baseFS bk kk).call w1.fs (.rename (kp (L.G.rk bk w ko)) (kp (L.G.rk bk w kn)))).1 := hfs
      have hr2' : r2 = ((baseFS bk kk).call w1.fs (.rename (kp (L.G.rk bk w ko)) (kp (L.G.rk bk w kn)))).2.map
          (fun _ => OpOut.unit) := hr2
      rw [side_rename hr w1.fs _ _ hrko hrkn] at hfs' hr2'
      simp only at hfs' hr2'
      have hg1 : L.OSGoodL bk kk w1.fs := hadv.inv.good
      have hno := nrel_rk hr hg hflat hko hleno hg1 hb false (fun h => by cases h)
      have hnn := nrel_rk hr hg hflat hkn hlenn hg1 hb false (fun h => by cases h)
      have htxt : kp (bk ++ ko) = kp (bk ++ kn) ↔ kp (bk ++ L.G.rk bk w ko) = kp (bk ++ L.G.rk bk w kn) := by
        constructor
        · intro e
          have := List.append_cancel_left (kp_inj (hr.pb.append hko) (hr.pb.append hkn) e)
          rw [this]
        · intro e
          have := List.append_cancel_left (kp_inj (hr.pb.append hrko) (hr.pb.append hrkn) e)
          rw [hsame this]
      obtain ⟨hres, hueq⟩ := rename_rel hb hno hnn htxt
      refine ⟨?_, ?_⟩
      · rw [hd2, hr2', hres]
        cases (w1.fs.rename (kp (bk ++ L.G.rk bk w ko)) (kp (bk ++ L.G.rk bk w kn))).2 with
        | ok u => trivial
        | error e => rfl
      · rw [hd1, hfs']
        exact hueq.symm

end

end U
end BFS
