import Lemmas.TNRA3
import Lemmas.TStepAll
/-!
  Lemmas/TNStepAll.lean — transparency of one operation in the nested layering, `RemoveAll` included
  (`Lemmas/TStepAll.lean` for `nestedCfg`).
-/
namespace BFS.N
open BackupFS MFS

section
variable {bk hk dd : Key}

/-- the depth bound of the model's `Walk` (64 levels), for a `RemoveAll` -/
def WalkDepthOK (bk hk : Key) (m : MFS) : Op → Prop
  | .removeAll p => ∀ k, PKey k → clean p = kp k → DepthOK bk hk m k
  | _ => True

/-- the one exception to transparency: `RemoveAll` of a name below a regular file -/
def ENOTDIRException (bk hk dd : Key) (w : World) (op : Op) (w' : World) (r : Except Err OpOut)
    (d : MFS × Except Err DOut) : Prop :=
  ∃ p k, op = .removeAll p ∧ PKey k ∧ clean p = kp k ∧ RemoveAllENOTDIR bk hk dd w k w' r d

theorem ne_nil_of_abs {p : Path} (h : isAbs p = true) : p ≠ [] := by
  intro e
  subst e
  exact absurd h (by decide)

theorem op_transp_allN (h : NRoots bk hk dd) {v0 : View} {r0 : Option Node} {w : World} {op : Op}
    (hinv : InvB (nSim bk hk dd h) v0 r0 w) (hc : op.AbsNames) (haw : AwayFromLoc hk op)
    (hdepth : WalkDepthOK bk hk w.fs op) :
    NTransp bk hk dd (FileAbove (nview bk hk .base w.fs) op) (Op.exec (nestedCfg bk hk) op w).1
        (Op.exec (nestedCfg bk hk) op w).2 (Op.direct (nbase bk hk) w.fs op) ∨
      ENOTDIRException bk hk dd w op (Op.exec (nestedCfg bk hk) op w).1 (Op.exec (nestedCfg bk hk) op w).2
        (Op.direct (nbase bk hk) w.fs op) := by
  by_cases hra : op.isRemoveAll
  · cases op with
    | removeAll p =>
      obtain ⟨k, hk', hname⟩ := clean_abs hc.1
      have hne : k ≠ [] := by
        intro e; subst e; exact hc.2 hname
      rcases (removeAll_transpN h hinv hk' hne (haw k hk' hname) (ne_nil_of_abs hc.1) hname
        (hdepth k hk' hname)).elim with h1 | h1
      · exact Or.inl h1
      · exact Or.inr ⟨p, k, rfl, hk', hname, h1⟩
    | _ => exact absurd hra id
  · exact Or.inl (op_transpN h hinv hc haw hra)

end

end BFS.N
