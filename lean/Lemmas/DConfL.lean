import Lemmas.DLink
import Lemmas.DConf
/-!
  Lemmas/DConfL.lean — confinement of one OS call to `pk` on disks WITH symlinks below `pk`, all of
  them tame (`Tame pk m`), `pk` and its ancestors live directories (`PrefDirs pk m`).
-/
namespace BFS
namespace D
open MFS

section
variable {pk : Key}

/-- `m'` is `m` with some absent keys now directories and some directories stamped -/
def DirExt (m m' : MFS) : Prop :=
  ∀ j, m'.get j = m.get j ∨ (m.get j = none ∧ ∃ mt, m'.get j = some (.dir mt)) ∨ Stamp (m.get j) (m'.get j)

theorem DirExt.prefDirs {m m' : MFS} (h : DirExt m m') (hd : PrefDirs pk m) : PrefDirs pk m' := by
  intro p hp
  obtain ⟨mt, hm⟩ := hd p hp
  rcases h p with e | ⟨e, _⟩ | e
  · exact ⟨mt, e ▸ hm⟩
  · rw [hm] at e; cases e
  · exact e.dir.mpr ⟨mt, hm⟩

theorem DirExt.tame {m m' : MFS} (h : DirExt m m') (ht : Tame pk m) : Tame pk m' := by
  intro k t mt hk hl
  rcases h k with e | ⟨_, mt', e⟩ | e
  · exact ht k t mt hk (e ▸ hl)
  · rw [hl] at e; cases e
  · rcases e with e | ⟨mt', _, e⟩
    · exact ht k t mt hk (e ▸ hl)
    · rw [hl] at e; cases e

theorem mkdir_dirExt {m : MFS} {K : Key} {t : Path} (perm : Nat) (h : NC m K (namei m t false)) :
    DirExt m (m.mkdir t perm).1 := by
  unfold MFS.mkdir
  rcases h with ⟨n, hn, hr⟩ | ⟨hne, mt, hn, hp, hr⟩ | ⟨e, hr⟩
  · rw [hr]; exact fun _ => Or.inl rfl
  · rw [hr]
    simp only [dropLast_append_getLast' hne]
    intro j
    by_cases hjK : j = K
    · subst hjK
      right; left
      refine ⟨hn, ⟨(perm &&& 0o1777) &&& (0o7777 ^^^ m.umask) |||
          (if (inheritGid m j.dropLast).2 then S_ISGID else 0), 0, (inheritGid m j.dropLast).1, .fresh⟩, ?_⟩
      show ((m.set j _).touchDir j.dropLast).get j = _
      rw [touchDir_get_ne _ (Ne.symm (dropLast_ne_self hne)), set_get_self]
    · by_cases hjP : j = K.dropLast
      · subst hjP
        right; right
        have := touchDir_stamp (m.set K (some (.dir ⟨(perm &&& 0o1777) &&& (0o7777 ^^^ m.umask) |||
          (if (inheritGid m K.dropLast).2 then S_ISGID else 0), 0, (inheritGid m K.dropLast).1, .fresh⟩))) K.dropLast
        rwa [set_get_ne m _ hjK] at this
      · left
        rw [touchDir_get_ne _ hjP, set_get_ne m _ hjK]
  · rw [hr]; exact fun _ => Or.inl rfl

/-- a change `At` a key at or below `pk` that does not make `pk` itself appear or disappear leaves
everything outside `pk` alone -/
theorem outside_of_at {m m' : MFS} {K : Key} (hK : pk <+: K) (h : At m m' K)
    (hkeep : K = pk → (m'.get K).isSome = (m.get K).isSome) :
    ∀ j, ¬ pk <+: j → m'.get j = m.get j := by
  intro j hj
  by_cases he : K = pk
  · exact h.same (hkeep he) j (fun e => hj (e ▸ he ▸ List.prefix_rfl))
  · exact h.other j (fun e => hj (e ▸ hK)) (not_below_of_dropLast hK he hj)

theorem prefDirs_live {m : MFS} (hd : PrefDirs pk m) : ∃ mt, m.get pk = some (.dir mt) := hd pk List.prefix_rfl

/-- `MkdirAll` through tame links: every directory it makes is at or below `pk` -/
theorem mkdirAll_inside (hpk : PKey pk) (perm : Nat) :
    ∀ (fuel : Nat) (x : Key) (t : Path) (m m' : MFS) (r : Except Err Unit),
      PrefDirs pk m → Tame pk m → PKey x → TextOf t (pk ++ x) →
      m.mkdirAll perm fuel t = (m', r) →
      PrefDirs pk m' ∧ Tame pk m' ∧ ∀ j, ¬ pk <+: j → m'.get j = m.get j := by
  intro fuel
  induction fuel with
  | zero =>
    intro x t m m' r hd ht _ _ h
    simp only [MFS.mkdirAll] at h
    obtain ⟨rfl, _⟩ := Prod.mk.inj h
    exact ⟨hd, ht, fun _ _ => rfl⟩
  | succ fuel ih =>
    intro x t m m' r hd ht hx htx h
    cases hst : m.stat t with
    | ok i =>
      rw [mkdirAll_succ_ok m perm fuel t hst] at h
      split at h <;> (obtain ⟨rfl, _⟩ := Prod.mk.inj h; exact ⟨hd, ht, fun _ _ => rfl⟩)
    | error e0 =>
      have hne : x ≠ [] := by
        intro e
        subst e
        rw [List.append_nil] at htx
        obtain ⟨mt, hm⟩ := prefDirs_live hd
        have := namei_found m true hpk htx hm rfl (fun p hp _ => hd p hp)
        unfold MFS.stat at hst
        rw [this] at hst
        cases hst
      have hKne : pk ++ x ≠ [] := by simp [hne]
      have hpt := text_parent (hpk.append hx) hKne htx
      have hpl := parentText_length (pk ++ x)
      have htp : TextOf (parentText (pk ++ x)) (pk ++ x.dropLast) := by
        rw [← append_dropLast hne]; exact parentText_text
      rw [mkdirAll_succ_err m perm fuel t hst, hpt] at h
      simp only [hpl, if_true] at h
      cases hrec : m.mkdirAll perm fuel (parentText (pk ++ x)) with
      | mk m1 r1 =>
        obtain ⟨i1, i2, i3⟩ := ih x.dropLast _ m m1 r1 hd ht hx.dropLast htp hrec
        rw [hrec] at h
        cases r1 with
        | error e =>
          simp only at h
          obtain ⟨rfl, _⟩ := Prod.mk.inj h
          exact ⟨i1, i2, i3⟩
        | ok u =>
          simp only at h
          have hm' : m' = (m1.mkdir t perm).1 := by
            rw [← mkdirAllTail_state, h]
          obtain ⟨K, hK, hN⟩ := namei_inside hpk i1 i2 hx htx false
          have hext := mkdir_dirExt perm hN
          have hat := at_mkdir perm hN
          rw [hm']
          refine ⟨hext.prefDirs i1, hext.tame i2, ?_⟩
          intro j hj
          rw [outside_of_at hK hat ?_ j hj, i3 j hj]
          intro he
          obtain ⟨mt, hlive⟩ := prefDirs_live i1
          have hl : (m1.get K).isSome := by rw [he, hlive]; rfl
          rw [keep_mkdir perm hN hl, hl]

/-- every OS call with names at or below `pk` is confined to `pk`, symlinks below `pk` included as
long as they are tame -/
theorem osCall_confinedL {m : MFS} (hpk : PKey pk) (hd : PrefDirs pk m) (ht : Tame pk m) {c c' : Call}
    (hk : KeyCall pk c c') : Confined pk m (osCall m c').1 := by
  have R : ∀ {x : Key}, PKey x → ∀ f, ∃ K, pk <+: K ∧ NC m K (namei m (kp (pk ++ x)) f) :=
    fun hx f => namei_inside hpk hd ht hx (TextOf.kp _) f
  have hdir := prefDirs_live hd
  have hlive : (m.get pk).isSome := by
    obtain ⟨mt, h⟩ := hdir
    rw [h]; rfl
  cases hk with
  | create n x hx _ =>
    obtain ⟨K, hK, hN⟩ := R hx _
    exact confined_of_at hK hlive (at_openFile _ _ hN)
  | mkdir n p x hx _ =>
    obtain ⟨K, hK, hN⟩ := R hx _
    exact confined_of_at hK hlive (at_mkdir _ hN)
  | mkdirAll n p x hx _ =>
    exact Confined.of_all (mkdirAll_inside hpk p _ x _ m _ _ hd ht hx (TextOf.kp _) rfl).2.2
  | open_ n x hx _ =>
    obtain ⟨K, hK, hN⟩ := R hx _
    exact confined_of_at hK hlive (at_openFile _ _ hN)
  | openFile n f p x hx _ =>
    obtain ⟨K, hK, hN⟩ := R hx _
    exact confined_of_at hK hlive (at_openFile _ _ hN)
  | remove n x hx _ =>
    obtain ⟨K, hK, hN⟩ := R hx _
    exact confined_of_at hK hlive (at_remove hN)
  | removeAll n x hx _ =>
    obtain ⟨K, hK, hN⟩ := R hx _
    exact confined_of_belowK hK hlive (belowK_removeAll hN)
  | rename o n x y hx hy _ _ =>
    obtain ⟨Ko, hKo, hNo⟩ := R hx false
    obtain ⟨Kn, hKn, hNn⟩ := R hy false
    rcases rename_frame hNo hNn with h | h
    · show Confined pk m (m.rename _ _).1
      rw [h]; exact Confined.refl _ _
    · exact confined_of_moved hKo hKn hdir h
  | stat n x hx _ => exact Confined.refl _ _
  | chmod n md x hx _ =>
    obtain ⟨K, hK, hN⟩ := R hx _
    exact confined_of_at hK hlive (at_chmod _ hN)
  | chown n u g x hx _ =>
    obtain ⟨K, hK, hN⟩ := R hx _
    exact confined_of_at hK hlive (at_chown _ _ hN)
  | chtimes n a t x hx _ =>
    obtain ⟨K, hK, hN⟩ := R hx _
    exact confined_of_at hK hlive (at_chtimes _ hN)
  | lstat n x hx _ => exact Confined.refl _ _
  | symlink o n o' x hx _ =>
    obtain ⟨K, hK, hN⟩ := R hx _
    exact confined_of_at hK hlive (at_symlink _ hN)
  | readlink n x hx _ => exact Confined.refl _ _
  | lchown n u g x hx _ =>
    obtain ⟨K, hK, hN⟩ := R hx _
    exact confined_of_at hK hlive (at_lchown _ _ hN)

end
end D
end BFS
