import Lemmas.PXCall
/-!
  Lemmas/HOAgree.lean — two disks that hold the same node at every key of a set `V` (and have the same
  umask): `Agr V m1 m2`.  When the keys a syscall consults and changes lie in `V`, it returns the same
  result on both disks and the disks agree on `V` afterwards.  This is `Lemmas/PXMut.lean` with an
  arbitrary agreement set in place of `{K | pk <+: K}`; the emptiness test of `Remove` is passed in
  as a hypothesis (it is the one place where a syscall looks at keys outside `V`).

  Kernel name resolution on two disks that agree at every prefix of the key a text spells, none of
  them a symlink: exactly the same outcome (`namei_agree_lf`).
-/
namespace BFS
namespace HO
open MFS D PX

/-- the two disks hold the same node at every key in `V`, and have the same umask -/
structure Agr (V : Key → Prop) (m1 m2 : MFS) : Prop where
  get : ∀ K, V K → m1.get K = m2.get K
  umask : m1.umask = m2.umask

theorem Agr.refl (V : Key → Prop) (m : MFS) : Agr V m m := ⟨fun _ _ => rfl, rfl⟩

theorem Agr.symm {V : Key → Prop} {m1 m2 : MFS} (h : Agr V m1 m2) : Agr V m2 m1 :=
  ⟨fun K hK => (h.get K hK).symm, h.umask.symm⟩

section
variable {V : Key → Prop} {m1 m2 : MFS}

theorem Agr.set (h : Agr V m1 m2) (K : Key) (v : Option Node) : Agr V (m1.set K v) (m2.set K v) := by
  refine ⟨?_, h.umask⟩
  intro K' hK'
  rw [set_get, set_get]
  split
  · rfl
  · exact h.get K' hK'

theorem Agr.touchDir (h : Agr V m1 m2) (P : Key) : Agr V (m1.touchDir P) (m2.touchDir P) := by
  refine ⟨?_, by rw [touchDir_umask', touchDir_umask']; exact h.umask⟩
  intro K hK
  rw [touchDir_get, touchDir_get]
  split
  · rename_i e
    subst e
    rw [h.get K hK]
  · exact h.get K hK

/-- the subtree that moves lies in `V` -/
theorem Agr.moveSubtree (h : Agr V m1 m2) {Ko : Key} (ho : ∀ x, V (Ko ++ x)) (Kn : Key) :
    Agr V (m1.moveSubtree Ko Kn) (m2.moveSubtree Ko Kn) := by
  refine ⟨?_, h.umask⟩
  intro K' hK'
  rw [moveSubtree_get, moveSubtree_get]
  split
  · exact h.get _ (ho _)
  · split
    · rfl
    · exact h.get K' hK'

theorem inheritGid_agr (h : Agr V m1 m2) {P : Key} (hP : V P) : inheritGid m1 P = inheritGid m2 P := by
  unfold inheritGid
  rw [h.get P hP]

/-- same result, agreeing disks -/
def SameV {α : Type} (V : Key → Prop) (x y : MFS × Except Err α) : Prop := x.2 = y.2 ∧ Agr V x.1 y.1

theorem sameV_ret {α : Type} (ha : Agr V m1 m2) (r : Except Err α) : SameV V (m1, r) (m2, r) := ⟨rfl, ha⟩

theorem sameV_ite {α : Type} {c : Prop} [Decidable c] {a1 b1 a2 b2 : MFS × Except Err α}
    (h1 : c → SameV V a1 a2) (h2 : ¬ c → SameV V b1 b2) :
    SameV V (if c then a1 else b1) (if c then a2 else b2) := by
  by_cases hc : c
  · simp only [hc, if_true]; exact h1 hc
  · simp only [hc, if_false]; exact h2 hc

/-! ### per syscall -/

theorem mkdir_sameV (ha : Agr V m1 m2) {K : Key} {t : Path} (perm : Nat) (hpar : V K.dropLast)
    (hr : namei m1 t false = namei m2 t false)
    (hN : NC m1 K (namei m1 t false)) : SameV V (m1.mkdir t perm) (m2.mkdir t perm) := by
  unfold SameV MFS.mkdir
  rw [← hr]
  rcases hN with ⟨n, hn, hres⟩ | ⟨hne, mt, hn, hp, hres⟩ | ⟨e, hres⟩
  · rw [hres]; exact ⟨rfl, ha⟩
  · rw [hres]
    simp only
    rw [← inheritGid_agr ha hpar, ← ha.umask]
    exact ⟨trivial, (ha.set _ _).touchDir _⟩
  · rw [hres]; exact ⟨rfl, ha⟩

theorem symlink_sameV (ha : Agr V m1 m2) {K : Key} {t : Path} (o : Path) (hpar : V K.dropLast)
    (hr : namei m1 t false = namei m2 t false)
    (hN : NC m1 K (namei m1 t false)) : SameV V (m1.symlink o t) (m2.symlink o t) := by
  unfold MFS.symlink
  apply sameV_ite
  · intro _; exact sameV_ret ha _
  intro _
  rw [← hr]
  rcases hN with ⟨n, hn, hres⟩ | ⟨hne, mt, hn, hp, hres⟩ | ⟨e, hres⟩
  · rw [hres]; exact sameV_ret ha _
  · rw [hres]
    simp only
    rw [← inheritGid_agr ha hpar]
    exact ⟨rfl, (ha.set _ _).touchDir _⟩
  · rw [hres]; exact sameV_ret ha _

theorem openFile_sameV (ha : Agr V m1 m2) {K : Key} {t : Path} (flag perm : Nat) (hpar : V K.dropLast)
    (hr : namei m1 t (!(hasFlag flag O_CREATE && hasFlag flag O_EXCL))
      = namei m2 t (!(hasFlag flag O_CREATE && hasFlag flag O_EXCL)))
    (hN : NC m1 K (namei m1 t (!(hasFlag flag O_CREATE && hasFlag flag O_EXCL)))) :
    SameV V (m1.openFile t flag perm) (m2.openFile t flag perm) := by
  unfold MFS.openFile
  simp only
  rw [← hr]
  rcases hN with ⟨n, hn, hres⟩ | ⟨hne, mt, hn, hp, hres⟩ | ⟨e, hres⟩
  · rw [hres]
    simp only
    apply sameV_ite
    · intro _; exact sameV_ret ha _
    intro _
    cases n with
    | dir mt =>
      simp only
      apply sameV_ite <;> (intro _; exact sameV_ret ha _)
    | link tg mt => exact sameV_ret ha _
    | file c mt =>
      simp only
      apply sameV_ite
      · intro _; exact ⟨rfl, ha.set _ _⟩
      · intro _; exact sameV_ret ha _
  · rw [hres]
    simp only
    apply sameV_ite
    · intro _; exact sameV_ret ha _
    intro _
    rw [← inheritGid_agr ha hpar, ← ha.umask]
    exact ⟨rfl, (ha.set _ _).touchDir _⟩
  · rw [hres]; exact sameV_ret ha _

/-- `Remove`: the emptiness test of the directory found is the same on both disks -/
theorem remove_sameV (ha : Agr V m1 m2) {K : Key} {t : Path}
    (hr : namei m1 t false = namei m2 t false)
    (hN : NC m1 K (namei m1 t false))
    (hch : (∃ mt, m1.get K = some (.dir mt)) → m1.hasChildren K = m2.hasChildren K) :
    SameV V (m1.remove t) (m2.remove t) := by
  unfold MFS.remove
  rw [← hr]
  rcases hN with ⟨n, hn, hres⟩ | ⟨hne, mt, hn, hp, hres⟩ | ⟨e, hres⟩
  · rw [hres]
    simp only
    apply sameV_ite
    · intro _; exact sameV_ret ha _
    intro _
    cases n with
    | dir mt =>
      simp only
      rw [← hch ⟨mt, hn⟩]
      apply sameV_ite
      · intro _; exact sameV_ret ha _
      · intro _; exact ⟨rfl, (ha.set _ _).touchDir _⟩
    | link tg mt => exact ⟨rfl, (ha.set _ _).touchDir _⟩
    | file c mt => exact ⟨rfl, (ha.set _ _).touchDir _⟩
  · rw [hres]; exact sameV_ret ha _
  · rw [hres]; exact sameV_ret ha _

theorem metaOp_sameV (ha : Agr V m1 m2) {K : Key} {t : Path} {follow : Bool} (f : Node → Node)
    (hr : namei m1 t follow = namei m2 t follow)
    (hN : NC m1 K (namei m1 t follow)) : SameV V (metaOp m1 t follow f) (metaOp m2 t follow f) := by
  unfold metaOp
  rw [← hr]
  rcases hN with ⟨n, hn, hres⟩ | ⟨hne, mt, hn, hp, hres⟩ | ⟨e, hres⟩
  · rw [hres]; exact ⟨rfl, ha.set _ _⟩
  · rw [hres]; exact sameV_ret ha _
  · rw [hres]; exact sameV_ret ha _

/-- `Rename`: everything at or below the old key lies in `V` -/
theorem rename_sameV (ha : Agr V m1 m2) {Ko Kn : Key} {to tn : Path} (hKo : ∀ x, V (Ko ++ x))
    (hro : namei m1 to false = namei m2 to false) (hrn : namei m1 tn false = namei m2 tn false)
    (ho : NC m1 Ko (namei m1 to false)) (hn : NC m1 Kn (namei m1 tn false)) :
    SameV V (m1.rename to tn) (m2.rename to tn) := by
  unfold MFS.rename
  simp only
  rw [← hro, ← hrn]
  have mv : ∀ kn : Key, SameV V
      (((m1.moveSubtree Ko kn).touchDir (parentKey Ko)).touchDir (parentKey kn), (Except.ok () : Except Err Unit))
      (((m2.moveSubtree Ko kn).touchDir (parentKey Ko)).touchDir (parentKey kn), Except.ok ()) :=
    fun kn => ⟨rfl, ((ha.moveSubtree hKo kn).touchDir _).touchDir _⟩
  rcases hn with ⟨nn, hnn, hresn⟩ | ⟨hnne, mtn, hnn, hpn, hresn⟩ | ⟨en, hresn⟩
  · rcases ho with ⟨no, hno, hreso⟩ | ⟨hone, mto, hno, hpo, hreso⟩ | ⟨eo, hreso⟩
    · rw [hresn, hreso]
      cases nn with
      | dir mt =>
        simp only
        by_cases hc : Ko = Kn ∧ to ≠ tn
        · simp only [hc, and_self, if_true, ne_eq, not_false_eq_true]
          exact sameV_ret ha _
        · simp only [hc, if_false]
          exact sameV_ret ha _
      | file c mt =>
        simp only
        repeat (first | exact sameV_ret ha _ | exact mv _ | (apply sameV_ite <;> intro _))
      | link tg mt =>
        simp only
        repeat (first | exact sameV_ret ha _ | exact mv _ | (apply sameV_ite <;> intro _))
    · rw [hresn, hreso]
      cases nn <;> exact sameV_ret ha _
    · rw [hresn, hreso]
      cases nn <;> exact sameV_ret ha _
  · rcases ho with ⟨no, hno, hreso⟩ | ⟨hone, mto, hno, hpo, hreso⟩ | ⟨eo, hreso⟩
    · rw [hresn, hreso]
      simp only
      apply sameV_ite
      · intro _; exact sameV_ret ha _
      · intro _; exact mv _
    · rw [hresn, hreso]; exact sameV_ret ha _
    · rw [hresn, hreso]; exact sameV_ret ha _
  · rw [hresn]
    rcases ho with ⟨no, hno, hreso⟩ | ⟨hone, mto, hno, hpo, hreso⟩ | ⟨eo, hreso⟩ <;>
      (rw [hreso]; exact sameV_ret ha _)

theorem sameV_liftU {x y : MFS × Except Err Unit} (h : SameV V x y) :
    (liftU x).2 = (liftU y).2 ∧ Agr V (liftU x).1 (liftU y).1 := by
  unfold liftU
  exact ⟨by rw [h.1], h.2⟩

end

/-! ### name resolution without symlinks on the way -/

/-- the walk towards `cur ++ strip comps`: the two disks hold the same node, not a symlink, at every
prefix of that key -/
theorem walk_agree_lf (m1 m2 : MFS) (f : Bool) :
    ∀ (fuel hops : Nat) (cur : Key) (comps : List Name), dotdot ∉ comps →
      (∀ p, p <+: cur ++ strip comps → m1.get p = m2.get p) →
      (∀ p, p <+: cur ++ strip comps → ∀ t mt, m1.get p ≠ some (.link t mt)) →
      walk m1 f fuel hops cur comps = walk m2 f fuel hops cur comps := by
  intro fuel
  induction fuel with
  | zero =>
    intro hops cur comps _ _ _
    rw [walk, walk]
  | succ fuel ih =>
    intro hops cur comps hnd hag hnl
    cases comps with
    | nil =>
      rw [walk_nil, walk_nil, hag cur (List.prefix_append _ _)]
    | cons c rest =>
      have hndr : dotdot ∉ rest := fun h => hnd (List.mem_cons_of_mem _ h)
      by_cases hc1 : (c = [] || c = dot) = true
      · rw [walk_skip m1 f fuel hops cur rest hc1, walk_skip m2 f fuel hops cur rest hc1]
        rw [strip_cons_triv hc1] at hag hnl
        exact ih hops cur rest hndr hag hnl
      · have hc1' : (c = [] || c = dot) = false := by simpa using hc1
        have hc2 : c ≠ dotdot := fun e => hnd (e ▸ List.mem_cons_self)
        rw [walk_cons_plain m1 f fuel hops cur rest hc1' hc2, walk_cons_plain m2 f fuel hops cur rest hc1' hc2]
        rw [strip_cons_keep hc1'] at hag hnl
        have hk : cur ++ [c] <+: cur ++ c :: strip rest := by
          refine ⟨strip rest, ?_⟩
          simp
        have he : cur ++ [c] ++ strip rest = cur ++ c :: strip rest := by simp
        rw [← hag _ hk]
        cases hg : m1.get (cur ++ [c]) with
        | none => rfl
        | some n =>
          cases n with
          | dir mt =>
            simp only
            exact ih hops (cur ++ [c]) rest hndr (by rw [he]; exact hag) (by rw [he]; exact hnl)
          | file ct mt => rfl
          | link t mt => exact absurd hg (hnl _ hk t mt)

/-- resolution of a text naming the key `K`: same outcome on two disks that hold the same node, not a
symlink, at every prefix of `K` -/
theorem namei_agree_lf {m1 m2 : MFS} {K : Key} (hK : PKey K) {t : Path} (htx : TextOf t K)
    (hag : ∀ p, p <+: K → m1.get p = m2.get p)
    (hnl : ∀ p, p <+: K → ∀ t mt, m1.get p ≠ some (.link t mt)) (f : Bool) :
    namei m1 t f = namei m2 t f := by
  obtain ⟨tl, hs, htl, _⟩ := splitSep_text hK htx
  have htriv : ∀ c ∈ tl, c = [] ∨ c = dot := by
    intro c hc
    unfold trivialRest at htl
    simpa using List.all_eq_true.mp htl c hc
  have hst : strip ([] :: (K ++ tl)) = K := by
    rw [strip_cons_triv (by decide), strip_append, strip_pkey hK, strip_trivial htl, List.append_nil]
  unfold namei
  simp only [htx.ne_nil, if_false, hs]
  apply walk_agree_lf
  · intro h
    rcases List.mem_cons.mp h with h | h
    · cases h
    · rcases List.mem_append.mp h with h | h
      · exact (hK _ h).2.2.2 rfl
      · rcases htriv _ h with e | e <;> cases e
  · rw [hst, List.nil_append]; exact hag
  · rw [hst, List.nil_append]; exact hnl

end HO
end BFS
