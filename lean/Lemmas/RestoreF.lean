import Lemmas.Restore
/-!
  Lemmas/RestoreF.lean — `Rollback` under an ARBITRARY fault plan: whenever it reports success
  (`.ok false`), every key of the base view except the root is back to what it was when the
  transaction began.  The argument is the one of Lemmas/Restore.lean, with each step's
  "returns ok" conclusion (which there came from the empty fault plan) replaced by the hypothesis
  "returned ok" (which here comes from the `false` flag of the `multiErr` loops).
-/
namespace BFS
open BackupFS

variable {cfg : Cfg} {S : Sim cfg} {v0 : View}

/-! ### generic rules -/

/-- a specification under a hypothesis on the (already known) context -/
theorem Sat.cond {α} {x : M α} {w : World} {Q : World → Except Err α → Prop} (P : Prop)
    (h : P → Sat x w Q) : Sat x w (fun w' r => P → Q w' r) := fun hp => h hp

theorem sat_total {α} {x : M α} (h : Total x) (w : World) : Sat x w (fun _ r => ∃ a, r = .ok a) := h w

/-- the `multiErr` loops under faults: the flag is `false` only if every act returned ok, and then
the loop invariant has been carried through -/
theorem sat_forEachF {α} {f : α → M Unit} {J : List α → World → Prop}
    (hstep : ∀ x rest w, J (x :: rest) w → Sat (f x) w (fun w' r => r = .ok () → J rest w')) :
    ∀ (l : List α) (w : World), J l w →
      Sat (forEachCollect f l) w (fun w' r => r = .ok false → J [] w')
  | [], w, h => by
    unfold forEachCollect
    exact Sat.pure (fun _ => h)
  | x :: xs, w, h => by
    unfold forEachCollect
    apply Sat.bind
    apply Sat.attempt
    apply (hstep x xs w h).mono
    intro w1 r1 h1
    simp only
    cases r1 with
    | error e =>
      apply Sat.bind
      apply (sat_total (forEachCollect_total f xs) w1).mono
      intro w2 r2 ⟨b, hb⟩
      subst hb
      simp only
      apply Sat.pure
      intro h; cases h
    | ok u =>
      have hj1 := h1 rfl
      apply Sat.bind
      apply (sat_forEachF hstep xs w1 hj1).mono
      intro w2 r2 h2
      cases r2 with
      | error e => intro h; cases h
      | ok b =>
        simp only
        apply Sat.pure
        intro hb
        apply h2
        cases hb
        rfl

/-! ### lexists under any fault plan -/

theorem sat_lexistsF {s : Side} {k : Key} {w : World} (hg : S.G w.fs) (hk : PKey k) :
    Sat (lexists cfg s (kp k)) w (fun w' r => SameFS w w' ∧
      (∀ i, r = .ok (some i) → ∃ n, S.view s w.fs k = some n ∧ InfoFor i n) ∧
      (r = .ok none → S.view s w.fs k = none)) := by
  unfold lexists
  apply Sat.bind
  apply Sat.attempt
  apply (sat_lstat hg hk).mono
  intro w1 r ⟨hs, hr⟩
  simp only
  rcases hr with ⟨n, i, hv, rfl, hfor⟩ | ⟨hv, e, rfl, hnfd⟩ | ⟨rfl, hf⟩
  · apply Sat.pure
    refine ⟨hs, ?_, ?_⟩
    · intro i' h; cases h; exact ⟨n, hv, hfor⟩
    · intro h; cases h
  · simp only [hnfd, if_true]
    apply Sat.pure
    refine ⟨hs, ?_, fun _ => hv⟩
    intro i' h; cases h
  · simp only [Err.isNotFound, Bool.false_eq_true, if_false]
    apply Sat.throw
    refine ⟨hs, ?_, ?_⟩
    · intro i' h; cases h
    · intro h; cases h

/-! ### the first loop of Rollback under faults -/

/-- under any fault plan: if the resulting plan is not marked `failed`, every existence check was
answered, and the plan is the one of `Classified` -/
theorem sat_classifyF :
    ∀ (l : List (Path × Option Info)) (pl : RollbackPlan) (w : World), S.G w.fs →
      (∀ p oi, (p, oi) ∈ l → ∃ k, PKey k ∧ p = kp k) →
      Sat (classify cfg l pl) w (fun w' r => SameFS w w' ∧ ∃ pl', r = .ok pl' ∧
        (pl'.failed = false → Classified S w l pl pl'))
  | [], pl, w, _, _ => by
    unfold classify
    exact Sat.pure ⟨SameFS.refl w, pl, rfl, fun _ => Classified.nil w pl⟩
  | (p, none) :: rest, pl, w, hg, hkeys => by
    unfold classify
    obtain ⟨k, hk, rfl⟩ := hkeys p none (by simp)
    have hkeys' : ∀ p oi, (p, oi) ∈ rest → ∃ k, PKey k ∧ p = kp k :=
      fun p oi h => hkeys p oi (List.mem_cons_of_mem _ h)
    apply Sat.bind
    apply Sat.attempt
    apply (sat_lexistsF (S := S) hg hk).mono
    intro w1 r1 ⟨hs1, hsome, hnone⟩
    have hg1 : S.G w1.fs := hs1.fs ▸ hg
    simp only
    cases r1 with
    | error e =>
      simp only
      apply (sat_classifyF rest _ w1 hg1 hkeys').mono
      intro w2 r2 ⟨hs2, pl', hr2, hc⟩
      refine ⟨hs1.trans hs2, pl', hr2, fun hfl => ?_⟩
      have := (hc hfl).failed
      rw [hfl] at this
      cases this
    | ok o =>
    cases o with
    | none =>
      have hv := hnone rfl
      simp only
      apply (sat_classifyF rest pl w1 hg1 hkeys').mono
      intro w2 r2 ⟨hs2, pl', hr2, hc⟩
      refine ⟨hs1.trans hs2, pl', hr2, fun hfl => ?_⟩
      have hc := hc hfl
      have hfs : w1.fs = w.fs := hs1.fs
      refine ⟨hc.failed, ?_, ?_, ?_, ?_⟩
      · intro q
        rw [hc.removeBase q, hfs]
        constructor
        · rintro (h | ⟨j, hj, rfl, hm, hp⟩)
          · exact Or.inl h
          · exact Or.inr ⟨j, hj, rfl, List.mem_cons_of_mem _ hm, hp⟩
        · rintro (h | ⟨j, hj, rfl, hm, hp⟩)
          · exact Or.inl h
          · rcases List.mem_cons.mp hm with heq | hm
            · have : j = k := kp_inj hj hk (Prod.mk.inj heq).1
              subst this; exact absurd hv hp
            · exact Or.inr ⟨j, hj, rfl, hm, hp⟩
      · intro q; rw [hc.dirs q]; simp
      · intro q; rw [hc.files q]; simp
      · intro q; rw [hc.links q]; simp
    | some i =>
      obtain ⟨n, hv, _⟩ := hsome i rfl
      simp only
      apply (sat_classifyF rest _ w1 hg1 hkeys').mono
      intro w2 r2 ⟨hs2, pl', hr2, hc⟩
      refine ⟨hs1.trans hs2, pl', hr2, fun hfl => ?_⟩
      have hc := hc hfl
      have hfs : w1.fs = w.fs := hs1.fs
      refine ⟨hc.failed, ?_, ?_, ?_, ?_⟩
      · intro q
        rw [hc.removeBase q, hfs]
        simp only [List.mem_append, List.mem_singleton]
        constructor
        · rintro ((h | h) | ⟨j, hj, rfl, hm, hp⟩)
          · exact Or.inl h
          · subst h; exact Or.inr ⟨k, hk, rfl, by simp, by rw [hv]; simp⟩
          · exact Or.inr ⟨j, hj, rfl, List.mem_cons_of_mem _ hm, hp⟩
        · rintro (h | ⟨j, hj, rfl, hm, hp⟩)
          · exact Or.inl (Or.inl h)
          · rcases List.mem_cons.mp hm with heq | hm
            · have : j = k := kp_inj hj hk (Prod.mk.inj heq).1
              subst this; exact Or.inl (Or.inr rfl)
            · exact Or.inr ⟨j, hj, rfl, hm, hp⟩
      · intro q; rw [hc.dirs q]; simp
      · intro q; rw [hc.files q]; simp
      · intro q; rw [hc.links q]; simp
  | (p, some i) :: rest, pl, w, hg, hkeys => by
    unfold classify
    have hkeys' : ∀ p oi, (p, oi) ∈ rest → ∃ k, PKey k ∧ p = kp k :=
      fun p oi h => hkeys p oi (List.mem_cons_of_mem _ h)
    have hmem : ∀ (q : Path) (j : Info), (q, some j) ∈ (p, some i) :: rest ↔ (q = p ∧ j = i) ∨ (q, some j) ∈ rest := by
      intro q j; simp
    by_cases hroot : p = rootP
    · subst hroot
      simp only [if_true]
      apply Sat.bind
      apply (sat_ensureRoot (S := S) hg i).mono
      intro w1 r1 ⟨hs1, f, hr1, _⟩
      have hg1 : S.G w1.fs := hs1.fs ▸ hg
      subst hr1
      simp only
      cases f
      case true =>
        simp only [if_true]
        apply (sat_classifyF rest _ w1 hg1 hkeys').mono
        intro w2 r2 ⟨hs2, pl', hr2, hc⟩
        refine ⟨hs1.trans hs2, pl', hr2, fun hfl => ?_⟩
        have := (hc hfl).failed
        rw [hfl] at this
        cases this
      simp only [Bool.false_eq_true, if_false]
      apply (sat_classifyF rest pl w1 hg1 hkeys').mono
      intro w2 r2 ⟨hs2, pl', hr2, hc⟩
      refine ⟨hs1.trans hs2, pl', hr2, fun hfl => ?_⟩
      have hc := hc hfl
      have hc : Classified S w rest pl pl' := by
        refine ⟨hc.failed, ?_, hc.dirs, hc.files, hc.links⟩
        intro q; rw [hc.removeBase q, hs1.fs]
      refine ⟨hc.failed, ?_, ?_, ?_, ?_⟩
      · intro q; rw [hc.removeBase q]; simp
      · intro q; rw [hc.dirs q]
        constructor
        · rintro (h | ⟨j, hm, hq, hkd⟩)
          · exact Or.inl h
          · exact Or.inr ⟨j, List.mem_cons_of_mem _ hm, hq, hkd⟩
        · rintro (h | ⟨j, hm, hq, hkd⟩)
          · exact Or.inl h
          · rcases (hmem q j).mp hm with ⟨hqp, _⟩ | hm
            · exact absurd hqp hq
            · exact Or.inr ⟨j, hm, hq, hkd⟩
      · intro q; rw [hc.files q]
        constructor
        · rintro (h | ⟨j, hm, hq, hkd⟩)
          · exact Or.inl h
          · exact Or.inr ⟨j, List.mem_cons_of_mem _ hm, hq, hkd⟩
        · rintro (h | ⟨j, hm, hq, hkd⟩)
          · exact Or.inl h
          · rcases (hmem q j).mp hm with ⟨hqp, _⟩ | hm
            · exact absurd hqp hq
            · exact Or.inr ⟨j, hm, hq, hkd⟩
      · intro q; rw [hc.links q]
        constructor
        · rintro (h | ⟨j, hm, hq, hkd⟩)
          · exact Or.inl h
          · exact Or.inr ⟨j, List.mem_cons_of_mem _ hm, hq, hkd⟩
        · rintro (h | ⟨j, hm, hq, hkd⟩)
          · exact Or.inl h
          · rcases (hmem q j).mp hm with ⟨hqp, _⟩ | hm
            · exact absurd hqp hq
            · exact Or.inr ⟨j, hm, hq, hkd⟩
    · simp only [hroot, if_false]
      cases hkind : i.kind with
      | dir =>
        simp only
        apply (sat_classifyF rest _ w hg hkeys').mono
        intro w2 r2 ⟨hs2, pl', hr2, hc⟩
        refine ⟨hs2, pl', hr2, fun hfl => ?_⟩
        have hc := hc hfl
        refine ⟨hc.failed, ?_, ?_, ?_, ?_⟩
        · intro q; rw [hc.removeBase q]; simp
        · intro q; rw [hc.dirs q]
          simp only [List.mem_append, List.mem_singleton]
          constructor
          · rintro ((h | h) | ⟨j, hm, hq, hkd⟩)
            · exact Or.inl h
            · subst h; exact Or.inr ⟨i, by simp, hroot, hkind⟩
            · exact Or.inr ⟨j, List.mem_cons_of_mem _ hm, hq, hkd⟩
          · rintro (h | ⟨j, hm, hq, hkd⟩)
            · exact Or.inl (Or.inl h)
            · rcases (hmem q j).mp hm with ⟨rfl, _⟩ | hm
              · exact Or.inl (Or.inr rfl)
              · exact Or.inr ⟨j, hm, hq, hkd⟩
        · intro q; rw [hc.files q]
          constructor
          · rintro (h | ⟨j, hm, hq, hkd⟩)
            · exact Or.inl h
            · exact Or.inr ⟨j, List.mem_cons_of_mem _ hm, hq, hkd⟩
          · rintro (h | ⟨j, hm, hq, hkd⟩)
            · exact Or.inl h
            · rcases (hmem q j).mp hm with ⟨rfl, rfl⟩ | hm
              · rw [hkind] at hkd; cases hkd
              · exact Or.inr ⟨j, hm, hq, hkd⟩
        · intro q; rw [hc.links q]
          constructor
          · rintro (h | ⟨j, hm, hq, hkd⟩)
            · exact Or.inl h
            · exact Or.inr ⟨j, List.mem_cons_of_mem _ hm, hq, hkd⟩
          · rintro (h | ⟨j, hm, hq, hkd⟩)
            · exact Or.inl h
            · rcases (hmem q j).mp hm with ⟨rfl, rfl⟩ | hm
              · rw [hkind] at hkd; cases hkd
              · exact Or.inr ⟨j, hm, hq, hkd⟩
      | file =>
        simp only
        apply (sat_classifyF rest _ w hg hkeys').mono
        intro w2 r2 ⟨hs2, pl', hr2, hc⟩
        refine ⟨hs2, pl', hr2, fun hfl => ?_⟩
        have hc := hc hfl
        refine ⟨hc.failed, ?_, ?_, ?_, ?_⟩
        · intro q; rw [hc.removeBase q]; simp
        · intro q; rw [hc.dirs q]
          constructor
          · rintro (h | ⟨j, hm, hq, hkd⟩)
            · exact Or.inl h
            · exact Or.inr ⟨j, List.mem_cons_of_mem _ hm, hq, hkd⟩
          · rintro (h | ⟨j, hm, hq, hkd⟩)
            · exact Or.inl h
            · rcases (hmem q j).mp hm with ⟨rfl, rfl⟩ | hm
              · rw [hkind] at hkd; cases hkd
              · exact Or.inr ⟨j, hm, hq, hkd⟩
        · intro q; rw [hc.files q]
          simp only [List.mem_append, List.mem_singleton]
          constructor
          · rintro ((h | h) | ⟨j, hm, hq, hkd⟩)
            · exact Or.inl h
            · subst h; exact Or.inr ⟨i, by simp, hroot, hkind⟩
            · exact Or.inr ⟨j, List.mem_cons_of_mem _ hm, hq, hkd⟩
          · rintro (h | ⟨j, hm, hq, hkd⟩)
            · exact Or.inl (Or.inl h)
            · rcases (hmem q j).mp hm with ⟨rfl, _⟩ | hm
              · exact Or.inl (Or.inr rfl)
              · exact Or.inr ⟨j, hm, hq, hkd⟩
        · intro q; rw [hc.links q]
          constructor
          · rintro (h | ⟨j, hm, hq, hkd⟩)
            · exact Or.inl h
            · exact Or.inr ⟨j, List.mem_cons_of_mem _ hm, hq, hkd⟩
          · rintro (h | ⟨j, hm, hq, hkd⟩)
            · exact Or.inl h
            · rcases (hmem q j).mp hm with ⟨rfl, rfl⟩ | hm
              · rw [hkind] at hkd; cases hkd
              · exact Or.inr ⟨j, hm, hq, hkd⟩
      | link =>
        simp only
        apply (sat_classifyF rest _ w hg hkeys').mono
        intro w2 r2 ⟨hs2, pl', hr2, hc⟩
        refine ⟨hs2, pl', hr2, fun hfl => ?_⟩
        have hc := hc hfl
        refine ⟨hc.failed, ?_, ?_, ?_, ?_⟩
        · intro q; rw [hc.removeBase q]; simp
        · intro q; rw [hc.dirs q]
          constructor
          · rintro (h | ⟨j, hm, hq, hkd⟩)
            · exact Or.inl h
            · exact Or.inr ⟨j, List.mem_cons_of_mem _ hm, hq, hkd⟩
          · rintro (h | ⟨j, hm, hq, hkd⟩)
            · exact Or.inl h
            · rcases (hmem q j).mp hm with ⟨rfl, rfl⟩ | hm
              · rw [hkind] at hkd; cases hkd
              · exact Or.inr ⟨j, hm, hq, hkd⟩
        · intro q; rw [hc.files q]
          constructor
          · rintro (h | ⟨j, hm, hq, hkd⟩)
            · exact Or.inl h
            · exact Or.inr ⟨j, List.mem_cons_of_mem _ hm, hq, hkd⟩
          · rintro (h | ⟨j, hm, hq, hkd⟩)
            · exact Or.inl h
            · rcases (hmem q j).mp hm with ⟨rfl, rfl⟩ | hm
              · rw [hkind] at hkd; cases hkd
              · exact Or.inr ⟨j, hm, hq, hkd⟩
        · intro q; rw [hc.links q]
          simp only [List.mem_append, List.mem_singleton]
          constructor
          · rintro ((h | h) | ⟨j, hm, hq, hkd⟩)
            · exact Or.inl h
            · subst h; exact Or.inr ⟨i, by simp, hroot, hkind⟩
            · exact Or.inr ⟨j, List.mem_cons_of_mem _ hm, hq, hkd⟩
          · rintro (h | ⟨j, hm, hq, hkd⟩)
            · exact Or.inl (Or.inl h)
            · rcases (hmem q j).mp hm with ⟨rfl, _⟩ | hm
              · exact Or.inl (Or.inr rfl)
              · exact Or.inr ⟨j, hm, hq, hkd⟩


/-! ### progress of Rollback on the base, under a fixed arbitrary fault plan -/

/-- as `Mid`, the fault plan being whatever it was when Rollback began -/
structure MidF (S : Sim cfg) (v0 : View) (w : World) (D : Key → Prop) (w' : World) : Prop where
  good : S.G w'.fs
  infos : w'.infos = w.infos
  faults : w'.faults = w.faults
  backup : S.view .backup w'.fs = S.view .backup w.fs
  done : ∀ k, D k → S.view .base w'.fs k = v0 k
  rest : ∀ k, ¬ D k → S.view .base w'.fs k = S.view .base w.fs k

theorem MidF.congr {w w' : World} {D D' : Key → Prop} (h : MidF S v0 w D w') (hd : ∀ k, D k ↔ D' k) :
    MidF S v0 w D' w' :=
  ⟨h.good, h.infos, h.faults, h.backup, fun k hk => h.done k ((hd k).mpr hk),
    fun k hk => h.rest k (fun hk' => hk ((hd k).mp hk'))⟩

/-- a base-side step confined to one key that it puts back -/
theorem MidF.step {w w' w'' : World} {D D' : Key → Prop} {k : Key} (h : MidF S v0 w D w')
    (hc : S.Chg .base (· = k) w' w'') (hk : S.view .base w''.fs k = v0 k)
    (hD' : ∀ j, D' j ↔ D j ∨ j = k) : MidF S v0 w D' w'' := by
  refine ⟨hc.good, hc.infos.trans h.infos, hc.faults.trans h.faults, hc.other.trans h.backup, ?_, ?_⟩
  · intro j hj
    by_cases hjk : j = k
    · subst hjk; exact hk
    · rw [hc.frame j hjk]
      rcases (hD' j).mp hj with hd | hd
      · exact h.done j hd
      · exact absurd hd hjk
  · intro j hj
    have hjk : j ≠ k := fun e => hj ((hD' j).mpr (Or.inr e))
    rw [hc.frame j hjk]
    exact h.rest j (fun hd => hj ((hD' j).mpr (Or.inl hd)))

/-! ### phase 1 under faults -/

theorem phase1F {w w1 : World} (hinv : Inv S v0 w) (hs : SameFS w w1)
    (l : List Path) (hl : ∀ p, p ∈ l ↔ ∃ k, PKey k ∧ p = kp k ∧ TN w k ∧ S.view .base w.fs k ≠ none)
    (hnd : l.Nodup) :
    Sat (forEachCollect (removeBaseAct cfg) (sortMost l)) w1 (fun w' r => r = .ok false →
      MidF S v0 w (fun k => PKey k ∧ TN w k) w') := by
  let R : Path → Path → Prop := fun p q => ∀ a b, PKey a → PKey b → p = kp a → q = kp b → b.length ≤ a.length
  let D : List Path → Key → Prop := fun rest k => PKey k ∧ TN w k ∧ kp k ∉ rest
  let J : List Path → World → Prop := fun rest w' =>
    rest.Pairwise R ∧ rest.Nodup ∧ (∀ p ∈ rest, p ∈ l) ∧ MidF S v0 w (D rest) w'
  have hperm := sortBy_perm (fun a b => lessFPS b a) l
  have hstep : ∀ x rest w', J (x :: rest) w' →
      Sat (removeBaseAct cfg x) w' (fun w'' r => r = .ok () → J rest w'') := by
    intro x rest w' ⟨hpw, hnd', hmem, hmid⟩
    obtain ⟨k, hk, rfl, htn, hpres⟩ := (hl x).mp (hmem x (by simp))
    have hxr : kp k ∉ rest := (List.nodup_cons.mp hnd').1
    have hnotD : ¬ D (kp k :: rest) k := fun hd => hd.2.2 (by simp)
    have hvk : S.view .base w'.fs k = S.view .base w.fs k := hmid.rest k hnotD
    have habs : v0 k = none := hinv.absent k hk htn
    have hkne : k ≠ [] := by
      intro e; subst e
      obtain ⟨mt, hroot⟩ := hinv.v0_root
      rw [habs] at hroot; cases hroot
    -- no child is left
    have hnochild : ¬ (S.view .base w'.fs).hasChild k := by
      rintro ⟨name, hc⟩
      have hcp : PKey (k ++ [name]) := S.pkey hmid.good hc
      have hcorig : v0 (k ++ [name]) = none :=
        hinv.v0_below (k := k) (by rintro ⟨mt, h⟩; rw [habs] at h; cases h) _ ⟨[name], rfl⟩ (by simp)
      by_cases hdc : D (kp k :: rest) (k ++ [name])
      · rw [hmid.done _ hdc] at hc; exact hc hcorig
      · rw [hmid.rest _ hdc] at hc
        have htnc : TN w (k ++ [name]) := hinv.present_new hcp hc hcorig
        have hin : kp (k ++ [name]) ∈ kp k :: rest := by
          apply Classical.byContradiction
          intro hnin; exact hdc ⟨hcp, htnc, hnin⟩
        rcases List.mem_cons.mp hin with heq | hin
        · have := kp_inj hcp hk heq
          have := congrArg List.length this
          simp at this
        · have := (List.pairwise_cons.mp hpw).1 _ hin k (k ++ [name]) hk hcp rfl rfl
          simp only [List.length_append, List.length_singleton] at this
          omega
    have hnode : (S.view .base w'.fs).isFileAt k ∨ ((S.view .base w'.fs).isDirAt k ∧ ¬ (S.view .base w'.fs).hasChild k) := by
      cases hn : S.view .base w'.fs k with
      | none => rw [hvk] at hn; exact absurd hn hpres
      | some n =>
        cases n with
        | file c mt => exact Or.inl ⟨c, mt, hn⟩
        | dir mt => exact Or.inr ⟨⟨mt, hn⟩, hnochild⟩
        | link t mt => exact absurd hn (S.no_link hmid.good)
    unfold removeBaseAct
    apply (sat_primUnit_exact (S := S) (s := .base) (c := .remove (kp k)) (K := (· = k))
      (P := fun m' => S.view .base m' k = none) hmid.good
      (fun m' r h => by
        obtain ⟨g, o, f⟩ := S.remove_frame hmid.good hk hkne h
        exact ⟨g, o, fun j hj => f j hj⟩)
      (S.remove_ok hmid.good hk hkne hnode)).mono
    intro w'' r ⟨hc, hp, _⟩ hr
    refine ⟨(List.pairwise_cons.mp hpw).2, (List.nodup_cons.mp hnd').2,
      fun p hp' => hmem p (List.mem_cons_of_mem _ hp'), ?_⟩
    apply hmid.step hc (by rw [hp hr, habs])
    intro j
    constructor
    · rintro ⟨hj, htj, hjr⟩
      by_cases hjk : j = k
      · exact Or.inr hjk
      · left
        refine ⟨hj, htj, ?_⟩
        intro hin
        rcases List.mem_cons.mp hin with heq | hin
        · exact hjk (kp_inj hj hk heq)
        · exact hjr hin
    · rintro (⟨hj, htj, hjr⟩ | rfl)
      · exact ⟨hj, htj, fun hin => hjr (List.mem_cons_of_mem _ hin)⟩
      · exact ⟨hk, htn, hxr⟩
  have hinit : J (sortMost l) w1 := by
    refine ⟨sortMost_kp_pairwise l, hperm.nodup_iff.mpr hnd, fun p hp => hperm.mem_iff.mp hp, ?_⟩
    refine ⟨hs.fs ▸ hinv.good, hs.infos, hs.faults, by rw [hs.fs], ?_, fun k _ => by rw [hs.fs]⟩
    rintro k ⟨hk, htn, hnin⟩
    rw [hs.fs, hinv.absent k hk htn]
    apply Classical.byContradiction
    intro hne
    exact hnin (hperm.mem_iff.mpr ((hl (kp k)).mpr ⟨k, hk, rfl, htn, hne⟩))
  apply (sat_forEachF hstep (sortMost l) w1 hinit).mono
  intro w' r hfin hr
  obtain ⟨_, _, _, hmid⟩ := hfin hr
  refine hmid.congr ?_
  intro k
  simp [D]

/-! ### phase 2 under faults -/

theorem phase2F {w w1 : World} (hinv : Inv S v0 w)
    (hmid : MidF S v0 w (fun k => PKey k ∧ TN w k) w1)
    (l : List Path) (hl : ∀ p, p ∈ l ↔ ∃ k, PKey k ∧ p = kp k ∧ TSDir w k) (hnd : l.Nodup) :
    Sat (forEachCollect (restoreDirAct cfg w.infos) (sortLeast l)) w1 (fun w' r => r = .ok false →
      MidF S v0 w (fun k => PKey k ∧ (TN w k ∨ TSDir w k)) w') := by
  let R : Path → Path → Prop := fun p q => ∀ a b, PKey a → PKey b → p = kp a → q = kp b → a.length ≤ b.length
  let D : List Path → Key → Prop := fun rest k => PKey k ∧ (TN w k ∨ (TSDir w k ∧ kp k ∉ rest))
  let J : List Path → World → Prop := fun rest w' =>
    rest.Pairwise R ∧ rest.Nodup ∧ (∀ p ∈ rest, p ∈ l) ∧ MidF S v0 w (D rest) w'
  have hperm := sortBy_perm lessFPS l
  have hstep : ∀ x rest w', J (x :: rest) w' →
      Sat (restoreDirAct cfg w.infos x) w' (fun w'' r => r = .ok () → J rest w'') := by
    intro x rest w' ⟨hpw, hnd', hmem, hm⟩
    obtain ⟨k, hk, rfl, hkne, i, hts, hkind⟩ := (hl x).mp (hmem x (by simp))
    have hxr : kp k ∉ rest := (List.nodup_cons.mp hnd').1
    have hnotD : ¬ D (kp k :: rest) k := by
      rintro ⟨_, htn | ⟨_, hnin⟩⟩
      · exact TN_not_TS hts htn
      · exact hnin (by simp)
    obtain ⟨n, hn, hfor, hperm4⟩ := hinv.ts_node hk hts
    have htarget := hinv.dir_target hk hts hkind
    have hisdir : i.isDir = true := by simp [Info.isDir, hkind]
    -- the parent is already a directory
    have hparent : ∀ w2, S.Chg .base (· = k) w' w2 → (S.view .base w2.fs).parentDir k := by
      intro w2 hc
      refine ⟨hkne, ?_⟩
      have hak : k.dropLast ≠ k := by
        intro e; have := dropLast_length_lt hkne; rw [e] at this; omega
      unfold View.isDirAt
      rw [show S.view .base w2.fs k.dropLast = S.view .base w'.fs k.dropLast from hc.frame _ hak]
      rcases hinv.parent_tsdir hk hts hkne with ha | ha
      · rw [ha]; exact S.root_dir hm.good
      · have hpa : PKey k.dropLast := hk.dropLast
        have hDa : D (kp k :: rest) k.dropLast := by
          refine ⟨hpa, Or.inr ⟨ha, ?_⟩⟩
          intro hin
          rcases List.mem_cons.mp hin with heq | hin
          · exact hak (kp_inj hpa hk heq)
          · have := (List.pairwise_cons.mp hpw).1 _ hin k k.dropLast hk hpa rfl rfl
            have := dropLast_length_lt hkne
            omega
        obtain ⟨_, ia, htsa, hka⟩ := ha
        rw [hm.done _ hDa, hinv.dir_target hpa htsa hka]
        exact ⟨_, rfl⟩
    unfold restoreDirAct
    apply Sat.bind
    apply (sat_lexistsF (S := S) (s := .base) hm.good hk).mono
    intro wa ra ⟨hsa, hsome, hnone⟩
    have hga : S.G wa.fs := hsa.fs ▸ hm.good
    cases ra with
    | error e => intro h; cases h
    | ok cur =>
    simp only
    -- make room
    have hroom : Sat (BFS.whenM (match (generalizing := false) cur with
        | some fi => !fi.isDir
        | none => false) (primUnit cfg .base (.remove (kp k)))) wa (fun w2 r => r = .ok () →
          S.Chg .base (· = k) w' w2 ∧ (S.view .base w2.fs k = none ∨ (S.view .base w2.fs).isDirAt k)) := by
      cases cur with
      | none =>
        have hv := hnone rfl
        apply Sat.whenM
        · intro h; cases h
        · intro _ _
          exact ⟨Sim.Chg.of_same hm.good hsa, Or.inl (by rw [hsa.fs]; exact hv)⟩
      | some fi =>
        obtain ⟨nd, hv, hfi⟩ := hsome fi rfl
        cases nd with
        | dir mt =>
          have : fi.isDir = true := by simp [Info.isDir, hfi.1, Node.kind]
          apply Sat.whenM
          · intro h; simp [this] at h
          · intro _ _
            exact ⟨Sim.Chg.of_same hm.good hsa, Or.inr ⟨mt, by rw [hsa.fs]; exact hv⟩⟩
        | link t mt => exact absurd hv (S.no_link hm.good)
        | file c mt =>
          apply Sat.whenM
          · intro _
            apply (sat_primUnit_exact (S := S) (s := .base) (c := .remove (kp k)) (K := (· = k))
              (P := fun m' => S.view .base m' k = none) hga
              (fun m' r h => by
                obtain ⟨g, o, f⟩ := S.remove_frame hga hk hkne h
                exact ⟨g, o, fun j hj => f j hj⟩)
              (S.remove_ok hga hk hkne (Or.inl ⟨c, mt, by rw [hsa.fs]; exact hv⟩))).mono
            intro w2 r2 ⟨hc2, hp2, _⟩ hr
            exact ⟨Sim.Chg.same_left hsa hc2, Or.inl (hp2 hr)⟩
          · intro h
            have : fi.isDir = false := by simp [Info.isDir, hfi.1, Node.kind]
            simp [this] at h
    apply Sat.bind
    apply hroom.mono
    intro w2 r2 h2
    cases r2 with
    | error e => intro h; cases h
    | ok u2 =>
    obtain ⟨hc2, hcur2⟩ := h2 rfl
    simp only [infoFor_ts hts]
    apply (sat_copyDir_strong (S := S) (s := .base) (i := i) hc2.good hk hkne hisdir hperm4
      (hparent w2 hc2) hcur2).mono
    intro w3 r3 ⟨hc3, _, hp3⟩ hr
    refine ⟨(List.pairwise_cons.mp hpw).2, (List.nodup_cons.mp hnd').2,
      fun p hp' => hmem p (List.mem_cons_of_mem _ hp'), ?_⟩
    apply hm.step (hc2.trans hc3) (by rw [hp3 hr, htarget])
    intro j
    constructor
    · rintro ⟨hj, htn | ⟨hd, hjr⟩⟩
      · exact Or.inl ⟨hj, Or.inl htn⟩
      · by_cases hjk : j = k
        · exact Or.inr hjk
        · left
          refine ⟨hj, Or.inr ⟨hd, ?_⟩⟩
          intro hin
          rcases List.mem_cons.mp hin with heq | hin
          · exact hjk (kp_inj hj hk heq)
          · exact hjr hin
    · rintro (⟨hj, htn | ⟨hd, hjr⟩⟩ | rfl)
      · exact ⟨hj, Or.inl htn⟩
      · exact ⟨hj, Or.inr ⟨hd, fun hin => hjr (List.mem_cons_of_mem _ hin)⟩⟩
      · exact ⟨hk, Or.inr ⟨⟨hkne, i, hts, hkind⟩, hxr⟩⟩
  have hinit : J (sortLeast l) w1 := by
    refine ⟨sortLeast_kp_pairwise l, hperm.nodup_iff.mpr hnd, fun p hp => hperm.mem_iff.mp hp, ?_⟩
    apply hmid.congr
    intro k
    constructor
    · rintro ⟨hk, htn⟩; exact ⟨hk, Or.inl htn⟩
    · rintro ⟨hk, htn | ⟨hd, hnin⟩⟩
      · exact ⟨hk, htn⟩
      · exact absurd (hperm.mem_iff.mpr ((hl (kp k)).mpr ⟨k, hk, rfl, hd⟩)) hnin
  apply (sat_forEachF hstep (sortLeast l) w1 hinit).mono
  intro w' r hfin hr
  obtain ⟨_, _, _, hm⟩ := hfin hr
  refine hm.congr ?_
  intro k
  simp [D]

/-! ### phase 3 under faults -/

theorem phase3F {w w2 : World} (hinv : Inv S v0 w)
    (hmid : MidF S v0 w (fun k => PKey k ∧ (TN w k ∨ TSDir w k)) w2)
    (l : List Path) (hl : ∀ p, p ∈ l ↔ ∃ k, PKey k ∧ p = kp k ∧ TSFile w k) (hnd : l.Nodup) :
    Sat (forEachCollect (restoreFileAct cfg w.infos) (sortStrings l)) w2 (fun w' r => r = .ok false →
      MidF S v0 w (fun k => PKey k ∧ (TN w k ∨ TSDir w k ∨ TSFile w k)) w') := by
  let D : List Path → Key → Prop := fun rest k => PKey k ∧ (TN w k ∨ TSDir w k ∨ (TSFile w k ∧ kp k ∉ rest))
  let J : List Path → World → Prop := fun rest w' =>
    rest.Nodup ∧ (∀ p ∈ rest, p ∈ l) ∧ MidF S v0 w (D rest) w'
  have hperm := sortBy_perm strLt l
  have hstep : ∀ x rest w', J (x :: rest) w' →
      Sat (restoreFileAct cfg w.infos x) w' (fun w'' r => r = .ok () → J rest w'') := by
    intro x rest w' ⟨hnd', hmem, hm⟩
    obtain ⟨k, hk, rfl, i, hts, hkind⟩ := (hl x).mp (hmem x (by simp))
    have hxr : kp k ∉ rest := (List.nodup_cons.mp hnd').1
    obtain ⟨c, mtb, htarget, hbak⟩ := hinv.file_target hk hts hkind
    obtain ⟨n, hn, hfor, hperm4⟩ := hinv.ts_node hk hts
    have hreg : i.isRegular = true := by simp [Info.isRegular, hkind]
    have hkne : k ≠ [] := by
      intro e; subst e
      obtain ⟨mt, hroot⟩ := hinv.v0_root
      rw [htarget] at hroot; cases hroot
    have hvk' : S.view .backup w'.fs k = some (.file c mtb) := by rw [hm.backup]; exact hbak
    unfold restoreFileAct
    simp only [infoFor_ts hts]
    unfold restoreFile
    apply Sat.bind
    apply (sat_open_ro (S := S) (s := .backup) hm.good hk).mono
    intro wa ra ⟨hsa, hwh, _⟩
    cases ra with
    | error e => intro h; cases h
    | ok f =>
    obtain ⟨hside, hH, hflag⟩ := hwh f rfl
    simp only
    have hga : S.G wa.fs := hsa.fs ▸ hm.good
    apply Sat.bind
    apply Sat.attempt
    -- the body of restoreFile
    have hbody : Sat (do
        let fi ← hStat cfg f
        let baseFi ← lexists cfg .base (kp k)
        let replaced := match baseFi with
          | some b => !b.isRegular
          | none => false
        if !fi.isRegular then primUnit cfg .base (.removeAll (kp k))
        else BFS.whenM replaced (primUnit cfg .base (.remove (kp k)))
        copyFile cfg .base (kp k) i f : M Unit) wa
        (fun w3 r => r = .ok () → S.Chg .base (· = k) w' w3 ∧ S.view .base w3.fs k = some (restoredFile c i)) := by
      apply Sat.bind
      apply (sat_hStat (S := S) (wh := f) (k := k) hga (by rw [hside]; exact hH)
        (by rw [hside, hsa.fs]; exact hvk')).mono
      intro wb rb ⟨hsb, _, hfi⟩
      cases rb with
      | error e => intro h; cases h
      | ok fi =>
      have hfireg : fi.isRegular = true := by
        have := (hfi fi rfl).1
        simp [Info.isRegular, this, Node.kind]
      simp only
      have hsab := hsa.trans hsb
      have hgb : S.G wb.fs := hsab.fs ▸ hm.good
      apply Sat.bind
      apply (sat_lexistsF (S := S) (s := .base) hgb hk).mono
      intro wc rc ⟨hsc, hsome, hnone⟩
      have hsac := hsab.trans hsc
      have hgc : S.G wc.fs := hsac.fs ▸ hm.good
      cases rc with
      | error e => intro h; cases h
      | ok cur =>
      simp only [hfireg, Bool.not_true, Bool.false_eq_true, if_false]
      -- whatever is in the way goes with a plain `Remove`: a call confined to the key itself
      have hroom : Sat (BFS.whenM (match (generalizing := false) cur with
          | some b => !b.isRegular
          | none => false) (primUnit cfg .base (.remove (kp k)))) wc (fun w3 r => r = .ok () →
            S.Chg .base (· = k) w' w3) := by
        apply Sat.whenM
        · intro _
          apply (sat_primUnit_chg (S := S) (s := .base) (c := .remove (kp k)) (K := (· = k)) hgc
            (fun m' r h => by
              obtain ⟨g, o, f'⟩ := S.remove_frame hgc hk hkne h
              exact ⟨g, o, fun j hj => f' j hj⟩)).mono
          intro w3 r3 hc3 _
          exact Sim.Chg.same_left hsac hc3
        · intro _ _
          exact Sim.Chg.of_same (S := S) (s := .base) (K := (· = k)) hm.good hsac
      apply Sat.bind
      apply hroom.mono
      intro w3 r3 h3
      cases r3 with
      | error e => intro h; cases h
      | ok u3 =>
      have hc3 := h3 rfl
      simp only
      have hvk3 : S.view Side.base.other w3.fs k = some (.file c mtb) := by
        rw [hc3.other]; exact hvk'
      apply (sat_copyFile (S := S) (s := .base) (ks := k) (data := c) (mt0 := mtb) hc3.good hk
        hside hH (by rw [hflag]; decide) hvk3 hreg hperm4).mono
      intro w4 r4 ⟨hc4, hp4, _⟩ hr
      exact ⟨hc3.trans hc4, hp4 hr⟩
    apply hbody.mono
    intro w3 r3 h3
    simp only
    apply Sat.bind
    apply Sat.attempt
    apply (sat_hClose (wh := f) (w := w3)).mono
    intro w4 r4 ⟨hs4, _⟩
    simp only
    cases r3 with
    | error e => intro h; cases h
    | ok u3 =>
    obtain ⟨hc3, hv3⟩ := h3 rfl
    apply Sat.pure
    intro _
    refine ⟨(List.nodup_cons.mp hnd').2, fun p hp' => hmem p (List.mem_cons_of_mem _ hp'), ?_⟩
    apply hm.step (hc3.same_right hs4) (by rw [hs4.fs, hv3, htarget])
    intro j
    constructor
    · rintro ⟨hj, htn | hd | ⟨hf, hjr⟩⟩
      · exact Or.inl ⟨hj, Or.inl htn⟩
      · exact Or.inl ⟨hj, Or.inr (Or.inl hd)⟩
      · by_cases hjk : j = k
        · exact Or.inr hjk
        · left
          refine ⟨hj, Or.inr (Or.inr ⟨hf, ?_⟩)⟩
          intro hin
          rcases List.mem_cons.mp hin with heq | hin
          · exact hjk (kp_inj hj hk heq)
          · exact hjr hin
    · rintro (⟨hj, htn | hd | ⟨hf, hjr⟩⟩ | rfl)
      · exact ⟨hj, Or.inl htn⟩
      · exact ⟨hj, Or.inr (Or.inl hd)⟩
      · exact ⟨hj, Or.inr (Or.inr ⟨hf, fun hin => hjr (List.mem_cons_of_mem _ hin)⟩)⟩
      · exact ⟨hk, Or.inr (Or.inr ⟨⟨i, hts, hkind⟩, hxr⟩)⟩
  have hinit : J (sortStrings l) w2 := by
    refine ⟨hperm.nodup_iff.mpr hnd, fun p hp => hperm.mem_iff.mp hp, ?_⟩
    apply hmid.congr
    intro k
    constructor
    · rintro ⟨hk, htn | hd⟩
      · exact ⟨hk, Or.inl htn⟩
      · exact ⟨hk, Or.inr (Or.inl hd)⟩
    · rintro ⟨hk, htn | hd | ⟨hf, hnin⟩⟩
      · exact ⟨hk, Or.inl htn⟩
      · exact ⟨hk, Or.inr hd⟩
      · exact absurd (hperm.mem_iff.mpr ((hl (kp k)).mpr ⟨k, hk, rfl, hf⟩)) hnin
  apply (sat_forEachF hstep (sortStrings l) w2 hinit).mono
  intro w' r hfin hr
  obtain ⟨_, _, hm⟩ := hfin hr
  refine hm.congr ?_
  intro k
  simp [D]

/-! ### phases 5–7 under faults: the clean-up of the backup does not touch the base -/

/-- what the clean-up of the backup keeps, whatever fails: disk well-formed, base view -/
structure FinF (S : Sim cfg) (vb : View) (w' : World) : Prop where
  good : S.G w'.fs
  base : S.view .base w'.fs = vb

theorem sat_cleanupActF {w : World} {vb : View} {k : Key} (h : FinF S vb w) (hk : PKey k) (hne : k ≠ []) :
    Sat (cleanupAct cfg (kp k)) w (fun w' _ => FinF S vb w') := by
  unfold cleanupAct
  apply Sat.bind
  apply (sat_lexistsF (S := S) (s := .backup) h.good hk).mono
  intro w1 r1 ⟨hs1, _, _⟩
  have h1 : FinF S vb w1 := ⟨hs1.fs ▸ h.good, by rw [hs1.fs]; exact h.base⟩
  cases r1 with
  | error e => exact h1
  | ok o =>
    cases o with
    | none => exact Sat.pure h1
    | some i =>
      simp only
      apply (sat_primUnit_chg (S := S) (s := .backup) (K := (· = k)) h1.good (fun m' r hc => by
        obtain ⟨g, o, f⟩ := S.remove_frame h1.good hk hne hc
        exact ⟨g, o, fun j hj => f j hj⟩)).mono
      intro w2 _ hc
      exact ⟨hc.good, hc.other.trans h1.base⟩

theorem sat_removeBackupPathsF {w : World} {vb : View} {ps : List Path} (h : FinF S vb w)
    (hps : ∀ p ∈ ps, ∃ k, PKey k ∧ k ≠ [] ∧ p = kp k) :
    Sat (removeBackupPaths cfg ps) w (fun w' _ => FinF S vb w') := by
  unfold removeBackupPaths
  apply sat_forEach_any (P := FinF S vb) _ w h
  intro x hx w' h'
  obtain ⟨k, hk, hne, rfl⟩ := hps x ((sortBy_perm _ ps).mem_iff.mp hx)
  exact sat_cleanupActF h' hk hne

/-! ### Rollback under any fault plan: success means restored -/

/-- C09 (Rollback): from a state satisfying the transaction invariant, under ANY fault plan, if
Rollback reports no error then every key of the base view except the root is back to its
original node -/
theorem sat_rollbackF {w : World} (hinv : Inv S v0 w) :
    Sat (rollback cfg) w (fun w' r => r = .ok false →
      S.G w'.fs ∧ ∀ k, k ≠ [] → S.view .base w'.fs k = v0 k) := by
  unfold rollback
  apply Sat.bind
  apply Sat.getW
  simp only
  apply Sat.bind
  -- the first loop
  have hc1 := (sat_classifyF (cfg := cfg) (S := S) w.infos {} w hinv.good hinv.keys).elim
  have hc2 := (sat_classify_nd (cfg := cfg) w.infos {} w hinv.nodup
    ⟨List.nodup_nil, List.nodup_nil, List.nodup_nil, (by intro p h; cases h), (by intro p h; cases h), (by intro p h; cases h)⟩).elim
  cases hrun : classify cfg w.infos {} w with
  | mk w1 r1 =>
    rw [hrun] at hc1 hc2
    obtain ⟨hs1, pl, hr1, hcl⟩ := hc1
    subst hr1
    have hpnd := hc2 pl rfl
    apply Sat.of_eq hrun
    simp only
    -- the plan, in terms of keys (when no existence check failed)
    have hrb : pl.failed = false →
        ∀ p, p ∈ pl.removeBase ↔ ∃ k, PKey k ∧ p = kp k ∧ TN w k ∧ S.view .base w.fs k ≠ none := by
      intro hfl p
      rw [(hcl hfl).removeBase p]
      constructor
      · rintro (h | ⟨k, hk, rfl, hm, hp⟩)
        · cases h
        · exact ⟨k, hk, rfl, hinv.mem_iff.mp hm, hp⟩
      · rintro ⟨k, hk, rfl, htn, hp⟩
        exact Or.inr ⟨k, hk, rfl, hinv.mem_iff.mpr htn, hp⟩
    have hds : pl.failed = false → ∀ p, p ∈ pl.dirs ↔ ∃ k, PKey k ∧ p = kp k ∧ TSDir w k := by
      intro hfl p
      rw [(hcl hfl).dirs p]
      constructor
      · rintro (h | ⟨i, hm, hroot, hkind⟩)
        · cases h
        · obtain ⟨k, hk, rfl⟩ := hinv.keys p (some i) hm
          exact ⟨k, hk, rfl, fun e => hroot ((kp_eq_root_iff hk).mpr e), i, hinv.mem_iff.mp hm, hkind⟩
      · rintro ⟨k, hk, rfl, hne, i, hts, hkind⟩
        exact Or.inr ⟨i, hinv.mem_iff.mpr hts, fun e => hne ((kp_eq_root_iff hk).mp e), hkind⟩
    have hfs : pl.failed = false → ∀ p, p ∈ pl.files ↔ ∃ k, PKey k ∧ p = kp k ∧ TSFile w k := by
      intro hfl p
      rw [(hcl hfl).files p]
      constructor
      · rintro (h | ⟨i, hm, hroot, hkind⟩)
        · cases h
        · obtain ⟨k, hk, rfl⟩ := hinv.keys p (some i) hm
          exact ⟨k, hk, rfl, i, hinv.mem_iff.mp hm, hkind⟩
      · rintro ⟨k, hk, rfl, i, hts, hkind⟩
        exact Or.inr ⟨i, hinv.mem_iff.mpr hts,
          fun e => hinv.tsfile_ne_root hk ⟨i, hts, hkind⟩ ((kp_eq_root_iff hk).mp e), hkind⟩
    have hls : pl.failed = false → pl.links = [] := by
      intro hfl
      apply List.eq_nil_iff_forall_not_mem.mpr
      intro p hp
      rcases ((hcl hfl).links p).mp hp with h | ⟨i, hm, _, hkind⟩
      · cases h
      · obtain ⟨k, hk, rfl⟩ := hinv.keys p (some i) hm
        rcases hinv.ts_kind hk (hinv.mem_iff.mp hm) with h | h <;> rw [hkind] at h <;> cases h
    -- phase 1
    apply Sat.bind
    apply (Sat.cond (pl.failed = false)
      (fun hfl => phase1F (cfg := cfg) hinv hs1 pl.removeBase (hrb hfl) hpnd.rb)).mono
    intro w2 r2 h2
    cases r2 with
    | error e => intro h; cases h
    | ok e1 =>
    simp only
    -- phase 2
    apply Sat.bind
    apply (Sat.cond (pl.failed = false ∧ e1 = false)
      (fun hp => phase2F (cfg := cfg) hinv (h2 hp.1 (by rw [hp.2])) pl.dirs (hds hp.1) hpnd.ds)).mono
    intro w3 r3 h3
    cases r3 with
    | error e => intro h; cases h
    | ok e2 =>
    simp only
    -- phase 3
    apply Sat.bind
    apply (Sat.cond ((pl.failed = false ∧ e1 = false) ∧ e2 = false)
      (fun hp => phase3F (cfg := cfg) hinv (h3 hp.1 (by rw [hp.2])) pl.files (hfs hp.1.1) hpnd.fs)).mono
    intro w4 r4 h4
    cases r4 with
    | error e => intro h; cases h
    | ok e3 =>
    simp only
    -- what has been reached if everything went well so far
    have hend : ((pl.failed = false ∧ e1 = false) ∧ e2 = false) ∧ e3 = false →
        ∀ w' : World, S.view .base w'.fs = S.view .base w4.fs → ∀ k, k ≠ [] → S.view .base w'.fs k = v0 k := by
      intro hp w' hf k hkne
      have hm4 := h4 hp.1 (by rw [hp.2])
      rw [hf]
      by_cases hD : PKey k ∧ (TN w k ∨ TSDir w k ∨ TSFile w k)
      · exact hm4.done k hD
      · rw [hm4.rest k hD]
        by_cases hk : PKey k
        · rcases tracked_cases w k with hu | htn | ⟨i, hts⟩
          · exact hinv.frame k hk hu
          · exact absurd ⟨hk, Or.inl htn⟩ hD
          · rcases hinv.ts_kind hk hts with hkd | hkd
            · exact absurd ⟨hk, Or.inr (Or.inl ⟨hkne, i, hts, hkd⟩)⟩ hD
            · exact absurd ⟨hk, Or.inr (Or.inr ⟨i, hts, hkd⟩)⟩ hD
        · have h1 : S.view .base w.fs k = none := by
            apply Classical.byContradiction
            intro h; exact hk (S.pkey hinv.good h)
          have h2 : v0 k = none := by
            apply Classical.byContradiction
            intro h; exact hk (hinv.v0_pkey h)
          rw [h1, h2]
    -- abbreviations for the rest: `P` = everything went well so far
    generalize hP : (((pl.failed = false ∧ e1 = false) ∧ e2 = false) ∧ e3 = false) = P at hend
    have hPf : P → pl.failed = false := by intro hp; rw [← hP] at hp; exact hp.1.1.1
    have hgood4 : P → FinF S (S.view .base w4.fs) w4 := by
      intro hp; rw [← hP] at hp
      exact ⟨(h4 hp.1 (by rw [hp.2])).good, rfl⟩
    -- phase 4: there are no symlinks to restore
    apply Sat.bind
    have h4' : Sat (forEachCollect (restoreLinkAct cfg w.infos) (sortStrings pl.links)) w4
        (fun w' r => P → w' = w4) := by
      apply Sat.cond
      intro hp
      rw [hls (hPf hp)]
      simp only [sortStrings, sortBy, forEachCollect]
      exact Sat.pure rfl
    apply h4'.mono
    intro w5 r5 h5
    cases r5 with
    | error e => intro h; cases h
    | ok e4 =>
    simp only
    have hfin5 : P → FinF S (S.view .base w4.fs) w5 := by
      intro hp; rw [h5 hp]; exact hgood4 hp
    -- phase 5
    apply Sat.bind
    apply (Sat.cond P (fun hp => sat_removeBackupPathsF (cfg := cfg) (S := S) (ps := pl.links) (hfin5 hp) (by
      intro p hp'; rw [hls (hPf hp)] at hp'; cases hp'))).mono
    intro w6 r6 hf6
    cases r6 with
    | error e => intro h; cases h
    | ok e5 =>
    simp only
    -- phase 6
    apply Sat.bind
    apply (Sat.cond P (fun hp => sat_removeBackupPathsF (cfg := cfg) (S := S) (ps := pl.files) (hf6 hp) (by
      intro p hp'
      obtain ⟨k, hk, rfl, hf⟩ := (hfs (hPf hp) p).mp hp'
      exact ⟨k, hk, hinv.tsfile_ne_root hk hf, rfl⟩))).mono
    intro w7 r7 hf7
    cases r7 with
    | error e => intro h; cases h
    | ok e6 =>
    simp only
    -- phase 7
    apply Sat.bind
    apply (Sat.cond P (fun hp => sat_removeBackupPathsF (cfg := cfg) (S := S) (ps := pl.dirs) (hf7 hp) (by
      intro p hp'
      obtain ⟨k, hk, rfl, hd⟩ := (hds (hPf hp) p).mp hp'
      exact ⟨k, hk, hd.1, rfl⟩))).mono
    intro w8 r8 hf8
    cases r8 with
    | error e => intro h; cases h
    | ok e7 =>
    simp only
    apply Sat.bind
    apply Sat.modifyW
    simp only
    apply Sat.pure
    intro hres
    have hb : ((if e1 = true then true else pl.failed) || e2 || e3 || e4 || e5 || e6 || e7) = false :=
      Except.ok.inj hres
    simp only [Bool.or_eq_false_iff] at hb
    obtain ⟨⟨⟨⟨⟨⟨hb1, hb2⟩, hb3⟩, _⟩, _⟩, _⟩, _⟩ := hb
    have he1 : e1 = false ∧ pl.failed = false := by
      cases e1 <;> simp_all
    have hp : P := by rw [← hP]; exact ⟨⟨⟨he1.2, he1.1⟩, hb2⟩, hb3⟩
    have hf8' := hf8 hp
    exact ⟨hf8'.good, hend hp { w8 with infos := [] } hf8'.base⟩

/-! ### transactions -/

/-- C09, generic form: after any covered history (run under any fault plan), Rollback run under ANY
fault plan either reports an error or has restored every entry of the base below its root -/
theorem tx_success_means_restored {w : World} (hg : S.G w.fs) (hinfos : w.infos = []) (ops : List Op)
    (hcov : CoveredHist cfg S w ops) (plan : List Fault) :
    (rollback cfg { runOps cfg w ops with faults := plan }).2 = .ok false →
      SameBelowRoot (S.view .base w.fs)
        (S.view .base (rollback cfg { runOps cfg w ops with faults := plan }).1.fs) := by
  intro h
  have hk := history_keeps (cfg := cfg) ops w (Inv.init hg hinfos) hcov
  exact ((sat_rollbackF (cfg := cfg) (hk.inv.with_faults plan)).elim h).2

/-- the same with the fault plan the history itself ran under -/
theorem tx_success_means_restored_same_plan {w : World} (hg : S.G w.fs) (hinfos : w.infos = [])
    (ops : List Op) (hcov : CoveredHist cfg S w ops) :
    (rollback cfg (runOps cfg w ops)).2 = .ok false →
      S.G (runTx cfg w ops).fs ∧ SameBelowRoot (S.view .base w.fs) (S.view .base (runTx cfg w ops).fs) := by
  intro h
  have hk := history_keeps (cfg := cfg) ops w (Inv.init hg hinfos) hcov
  exact (sat_rollbackF (cfg := cfg) hk.inv).elim h

end BFS
