import Lemmas.NLXTrack
/-!
  Lemmas/NLXOps.lean (copy of Lemmas/LXOps.lean over `NL.Sim`) — every covered operation of the symlink-leaves development (`NL.Op.Covered`,
  Lemmas/LOps.lean) keeps the invariant `NL.InvX` (exactness of the recorded backup copies) under EVERY
  fault plan.  The proofs are those of Lemmas/LOps.lean with `prepare`/`tryBackup` replaced by their
  `…X` versions (Lemmas/LXTrack.lean); every other step is a base-side call, which does not concern
  the backup.
-/
set_option linter.unusedSectionVars false
namespace BFS
namespace NL
open BackupFS

variable {cfg : Cfg} {S : Sim cfg} [BackupPlain S] {v0 : View}

/-- the invariant holds again, the fault plan is the same, tracked keys stay tracked -/
structure KeptX (S : Sim cfg) (v0 : View) (w w' : World) : Prop where
  inv : InvX S v0 w'
  faults : w'.faults = w.faults
  tracked : ∀ j, Tracked w j → Tracked w' j
  /-- what was tracked stays tracked with the same entry (first write wins) -/
  mono : ∀ p x, w.infos.lookup p = some x → w'.infos.lookup p = some x

theorem KeptX.refl {w : World} (h : InvX S v0 w) : KeptX S v0 w w := ⟨h, rfl, fun _ h => h, fun _ _ h => h⟩

theorem KeptX.of_adv {w w' : World} (h : AdvX S v0 w w') : KeptX S v0 w w' :=
  ⟨h.inv, h.adv.faults, fun _ hj => hj.monoNLX h, h.adv.mono⟩

theorem KeptX.trans {a b c : World} (h1 : KeptX S v0 a b) (h2 : KeptX S v0 b c) : KeptX S v0 a c :=
  ⟨h2.inv, h2.faults.trans h1.faults, fun j hj => h2.tracked j (h1.tracked j hj),
    fun p x hx => h2.mono p x (h1.mono p x hx)⟩

theorem KeptX.of_same {w w' : World} (h : InvX S v0 w) (hs : SameFS w w') : KeptX S v0 w w' :=
  ⟨⟨h.inv.of_same hs, h.x.of_same hs⟩, hs.faults, fun j hj => by unfold Tracked at *; rw [hs.infos]; exact hj,
    fun p x hx => by rw [hs.infos]; exact hx⟩

theorem KeptX.of_chg {w w' : World} {K : Key → Prop} (h : InvX S v0 w) (hc : S.Chg .base K w w')
    (hK : ∀ j, PKey j → K j → Tracked w j) : KeptX S v0 w w' :=
  ⟨⟨h.inv.base_chg hc hK, h.x.of_base_chg hc⟩, hc.faults, fun j hj => by unfold Tracked at *; rw [hc.infos]; exact hj,
    fun p x hx => by rw [hc.infos]; exact hx⟩

theorem KeptX.of_chgL {w w' : World} {K : Key → Prop} (h : InvX S v0 w) (hc : S.ChgL .base K w w')
    (hK : ∀ j, PKey j → K j → Tracked w j)
    (hbl : ∀ k, PKey k → Tracked w k → NoLinkAnc (S.view .base w'.fs) k) : KeptX S v0 w w' :=
  ⟨⟨h.inv.base_chgL hc hK hbl, h.x.of_base_chgL hc⟩, hc.faults, fun j hj => by unfold Tracked at *; rw [hc.infos]; exact hj,
    fun p x hx => by rw [hc.infos]; exact hx⟩

/-- a mutating call on the base whose law confines it to tracked keys -/
theorem sat_base_callX {c : Call} {K : Key → Prop} {w : World} (hinv : InvX S v0 w)
    (hK : ∀ j, PKey j → K j → Tracked w j)
    (hlaw : ∀ m' r, (cfg.side .base).call w.fs c = (m', r) →
      S.G m' ∧ S.view Side.base.other m' = S.view Side.base.other w.fs ∧
        (∀ j, ¬ K j → S.view .base m' j = S.view .base w.fs j) ∧
        LinkMono (S.view .base w.fs) (S.view .base m')) :
    Sat (primUnit cfg .base c) w (fun w' _ => KeptX S v0 w w' ∧ BaseRel S K w w') := by
  apply (sat_primUnit_chg (S := S) hinv.good hlaw).mono
  intro w' _ hc
  exact ⟨KeptX.of_chg hinv hc hK, BaseRel.of_chg hc⟩

theorem sat_prep_thenX (hmk : MkdirAllUnit cfg) {α} {name : Path} {k : Key} {w : World} {f : Path → M α}
    {Q : World → Except Err α → Prop} (hinv : InvX S v0 w) (hk : PKey k) (hname : clean name = kp k)
    (hreach : Reach S w k)
    (herr : ∀ w' e, AdvX S v0 w w' → Q w' (.error e))
    (hnext : ∀ w', AdvX S v0 w w' → OnlyAdded (· <+: k) w w' → (∀ b, b <+: k → Tracked w' b) → Sat (f (kp k)) w' Q) :
    Sat (prepare cfg name >>= f) w Q := by
  apply Sat.bind
  apply (sat_prepareX hmk hinv hk hname hreach.1 hreach.2).mono
  intro w1 r ⟨hadv, hon, hres⟩
  cases r with
  | error e => exact herr w1 e hadv
  | ok p =>
    obtain ⟨hp, htr⟩ := hres p rfl
    subst hp
    exact hnext w1 hadv hon htr

/-- the single-path mutators: `prepare`, then one base call confined to the resolved key -/
theorem sat_singleX (hmk : MkdirAllUnit cfg) {name : Path} {k : Key} {w : World} {c : Path → Call} (hinv : InvX S v0 w) (hk : PKey k)
    (hname : clean name = kp k) (hreach : Reach S w k)
    (hlaw : ∀ m, S.G m → S.view .base m = S.view .base w.fs → ∀ m' r, (cfg.side .base).call m (c (kp k)) = (m', r) →
      S.G m' ∧ S.view Side.base.other m' = S.view Side.base.other m ∧
        (∀ j, j ≠ k → S.view .base m' j = S.view .base m j) ∧ LinkMono (S.view .base m) (S.view .base m')) :
    Sat (prepare cfg name >>= fun r => primUnit cfg .base (c r)) w
      (fun w' _ => KeptX S v0 w w' ∧ BaseRel S (· = k) w w') := by
  apply sat_prep_thenX hmk hinv hk hname hreach
  · intro w' e hadv; exact ⟨KeptX.of_adv hadv, BaseRel.of_eq hadv.base⟩
  · intro w' hadv _ htr
    apply (sat_base_callX (S := S) (K := (· = k)) hadv.inv
      (fun j _ hj => by subst hj; exact htr j List.prefix_rfl)
      (fun m' r h => by
        obtain ⟨g, o, f, l⟩ := hlaw w'.fs hadv.inv.good hadv.base m' r h
        exact ⟨g, o, fun j hj => f j hj, l⟩)).mono
    intro w'' _ ⟨hk', hb'⟩
    exact ⟨(KeptX.of_adv hadv).trans hk', (BaseRel.of_eq hadv.base).trans hb'⟩

theorem sat_mkdirX (hmk : MkdirAllUnit cfg) {name : Path} {k : Key} {perm : Nat} {w : World} (hinv : InvX S v0 w) (hk : PKey k)
    (hname : clean name = kp k) (hreach : Reach S w k) :
    Sat (BackupFS.mkdir cfg name perm) w (fun w' _ => KeptX S v0 w w' ∧ BaseRel S (· = k) w w') :=
  sat_singleX hmk (c := fun r => .mkdir r perm) hinv hk hname hreach
    (fun _ hg hb _ _ h => S.mkdir_frame hg hk (by rw [hb]; exact hreach.1) h)

theorem sat_removeX (hmk : MkdirAllUnit cfg) {name : Path} {k : Key} {w : World} (hinv : InvX S v0 w) (hk : PKey k) (hne : k ≠ [])
    (hname : clean name = kp k) (hreach : Reach S w k) :
    Sat (BackupFS.remove cfg name) w (fun w' _ => KeptX S v0 w w' ∧ BaseRel S (· = k) w w') :=
  sat_singleX hmk (c := fun r => .remove r) hinv hk hname hreach
    (fun _ hg hb _ _ h => S.remove_frame hg hk hne (by rw [hb]; exact hreach.1) h)

theorem sat_lchownX (hmk : MkdirAllUnit cfg) {name : Path} {k : Key} {u g : Int} {w : World} (hinv : InvX S v0 w) (hk : PKey k)
    (hname : clean name = kp k) (hreach : Reach S w k) :
    Sat (BackupFS.lchown cfg name u g) w (fun w' _ => KeptX S v0 w w' ∧ BaseRel S (· = k) w w') :=
  sat_singleX hmk (c := fun r => .lchown r u g) hinv hk hname hreach
    (fun _ hg hb _ _ h => by
      obtain ⟨g', o, f, l, _⟩ := S.lchown_frame hg hk (by rw [hb]; exact hreach.1) h
      exact ⟨g', o, f, l⟩)

theorem sat_chmodX (hmk : MkdirAllUnit cfg) {name : Path} {k : Key} {mode : Nat} {w : World} (hinv : InvX S v0 w) (hk : PKey k)
    (hname : clean name = kp k) (hreach : ReachF S w k) :
    Sat (BackupFS.chmod cfg name mode) w (fun w' _ => KeptX S v0 w w' ∧ BaseRel S (· = k) w w') :=
  sat_singleX hmk (c := fun r => .chmod r mode) hinv hk hname hreach.reach
    (fun _ hg hb _ _ h => S.chmod_frame hg hk (by rw [hb]; exact hreach) h)

theorem sat_chownX (hmk : MkdirAllUnit cfg) {name : Path} {k : Key} {u g : Int} {w : World} (hinv : InvX S v0 w) (hk : PKey k)
    (hname : clean name = kp k) (hreach : ReachF S w k) :
    Sat (BackupFS.chown cfg name u g) w (fun w' _ => KeptX S v0 w w' ∧ BaseRel S (· = k) w w') :=
  sat_singleX hmk (c := fun r => .chown r u g) hinv hk hname hreach.reach
    (fun _ hg hb _ _ h => S.chown_frame hg hk (by rw [hb]; exact hreach) h)

theorem sat_chtimesX (hmk : MkdirAllUnit cfg) {name : Path} {k : Key} {a t : Time} {w : World} (hinv : InvX S v0 w) (hk : PKey k)
    (hname : clean name = kp k) (hreach : ReachF S w k) :
    Sat (BackupFS.chtimes cfg name a t) w (fun w' _ => KeptX S v0 w w' ∧ BaseRel S (· = k) w w') :=
  sat_singleX hmk (c := fun r => .chtimes r a t) hinv hk hname hreach.reach
    (fun _ hg hb _ _ h => S.chtimes_frame hg hk (by rw [hb]; exact hreach) h)

theorem sat_mkdirAllX (hmk : MkdirAllUnit cfg) {name : Path} {k : Key} {perm : Nat} {w : World} (hinv : InvX S v0 w) (hk : PKey k)
    (hname : clean name = kp k) (hreach : ReachF S w k) :
    Sat (BackupFS.mkdirAll cfg name perm) w (fun w' _ => KeptX S v0 w w') := by
  unfold BackupFS.mkdirAll
  apply sat_prep_thenX hmk hinv hk hname hreach.reach
  · intro w' e hadv; exact KeptX.of_adv hadv
  · intro w' hadv _ htr
    apply (sat_base_callX (S := S) (K := (· <+: k)) hadv.inv
      (fun j _ hj => htr j hj)
      (fun m' r h => by
        obtain ⟨g, o, f, fl, _⟩ := S.mkdirAll_frame hadv.inv.good hk (by rw [hadv.base]; exact hreach) h
        refine ⟨g, o, f, ?_⟩
        intro j t mt' hl
        rcases fl j with e | ⟨_, mt, hdir⟩
        · exact ⟨mt', by rw [← e]; exact hl⟩
        · rw [hdir] at hl; cases hl)).mono
    intro w'' _ ⟨hk', _⟩
    exact (KeptX.of_adv hadv).trans hk'

/-! ### Create / OpenFile and the writes through the handle -/

theorem sat_writeClose_roX {wh : WHandle} {d : String} {w : World} (hinv : InvX S v0 w)
    (hro : MFS.accessMode wh.h.flag = 0) :
    Sat (writeClose cfg wh d) w (fun w' _ => KeptX S v0 w w') := by
  unfold writeClose
  apply Sat.bind
  apply Sat.attempt
  have h1 : Sat (BFS.whenM (!d.isEmpty) (hWrite cfg wh 0 d)) w (fun w' _ => SameFS w w') := by
    apply Sat.whenM
    · intro _; exact sat_hWrite_ro S hro
    · intro _; exact SameFS.refl w
  apply h1.mono
  intro w1 r1 hs1
  simp only
  cases r1 with
  | error e =>
    simp only
    apply Sat.bind
    apply Sat.attempt
    apply (sat_hClose (wh := wh) (w := w1)).mono
    intro w2 _ ⟨hs2, _⟩
    apply Sat.pure
    exact KeptX.of_same hinv (hs1.trans hs2)
  | ok u =>
    simp only
    apply Sat.bind
    apply Sat.attempt
    apply (sat_hClose (wh := wh) (w := w1)).mono
    intro w2 r2 ⟨hs2, _⟩
    simp only
    cases r2 <;> exact Sat.pure (KeptX.of_same hinv (hs1.trans hs2))

theorem sat_writeCloseX {wh : WHandle} {k : Key} {d : String} {w : World} (hinv : InvX S v0 w)
    (hside : wh.side = .base) (hH : S.H .base wh.h k) (htr : Tracked w k) :
    Sat (writeClose cfg wh d) w (fun w' _ => KeptX S v0 w w') := by
  unfold writeClose
  apply Sat.bind
  apply Sat.attempt
  have h1 : Sat (BFS.whenM (!d.isEmpty) (hWrite cfg wh 0 d)) w (fun w' _ => KeptX S v0 w w') := by
    apply Sat.whenM
    · intro _
      apply (sat_hWrite_frame (S := S) (k := k) hinv.good (by rw [hside]; exact hH)).mono
      intro w1 _ hc
      rw [hside] at hc
      exact KeptX.of_chg hinv hc (fun j _ hj => by subst hj; exact htr)
    · intro _; exact KeptX.refl hinv
  apply h1.mono
  intro w1 r1 hk1
  simp only
  cases r1 with
  | error e =>
    simp only
    apply Sat.bind
    apply Sat.attempt
    apply (sat_hClose (wh := wh) (w := w1)).mono
    intro w2 _ ⟨hs2, _⟩
    apply Sat.pure
    exact hk1.trans (KeptX.of_same hk1.inv hs2)
  | ok u =>
    simp only
    apply Sat.bind
    apply Sat.attempt
    apply (sat_hClose (wh := wh) (w := w1)).mono
    intro w2 r2 ⟨hs2, _⟩
    simp only
    cases r2 <;> exact Sat.pure (hk1.trans (KeptX.of_same hk1.inv hs2))

/-- opening on the base with a law that confines the call to key `k` -/
theorem sat_base_openX {c : Call} {k : Key} {w : World} (hinv : InvX S v0 w) (htr : Tracked w k)
    (hlaw : ∀ m' r, (cfg.side .base).call w.fs c = (m', r) →
      S.G m' ∧ S.view Side.base.other m' = S.view Side.base.other w.fs ∧
        (∀ j, j ≠ k → S.view .base m' j = S.view .base w.fs j) ∧
        LinkMono (S.view .base w.fs) (S.view .base m') ∧
        (∀ h, r = .ok (.handle h) → S.H .base h k)) :
    Sat (primOpen cfg .base c) w (fun w' r => KeptX S v0 w w' ∧
      ∀ wh, r = .ok wh → wh.side = .base ∧ S.H .base wh.h k) := by
  unfold primOpen
  apply Sat.bind
  apply Sat.primCall
  · intro _ w1 h1
    exact ⟨KeptX.of_same hinv h1, by intro wh h; cases h⟩
  · intro w1 h1
    cases hc : (cfg.side .base).call w.fs c with
    | mk m' r =>
      obtain ⟨g, o, f, l, hh⟩ := hlaw m' r hc
      have hchg : S.Chg .base (· = k) w { w1 with fs := m' } := ⟨⟨g, o, fun j hj => f j hj, h1.infos, h1.faults⟩, l⟩
      have hkept : KeptX S v0 w { w1 with fs := m' } :=
        KeptX.of_chg hinv hchg (fun j _ hj => by subst hj; exact htr)
      simp only
      cases r with
      | error e => exact ⟨hkept, by intro wh h; cases h⟩
      | ok ret =>
        cases ret with
        | handle h =>
          apply Sat.pure
          refine ⟨hkept, ?_⟩
          intro wh hwh
          cases hwh
          exact ⟨rfl, hh h rfl⟩
        | _ => exact ⟨hkept, by intro wh h; cases h⟩

theorem sat_creatX (hmk : MkdirAllUnit cfg) {name : Path} {k : Key} {d : String} {w : World} (hinv : InvX S v0 w) (hk : PKey k)
    (hname : clean name = kp k) (hreach : ReachF S w k) :
    Sat (Op.exec cfg (.creat name d)) w (fun w' _ => KeptX S v0 w w') := by
  unfold Op.exec BackupFS.create
  apply Sat.bind
  apply sat_prep_thenX hmk hinv hk hname hreach.reach
  · intro w' e hadv; exact KeptX.of_adv hadv
  · intro w1 hadv _ htr
    apply (sat_base_openX (S := S) (k := k) hadv.inv (htr k List.prefix_rfl)
      (fun m' r h => by
        obtain ⟨g, o, f, l, hh⟩ := S.create_frame hadv.inv.good hk (by rw [hadv.base]; exact hreach) h
        exact ⟨g, o, f, l, fun h' hr => (hh h' hr).1⟩)).mono
    intro w2 r2 ⟨hk2, hwh⟩
    have hk02 := (KeptX.of_adv hadv).trans hk2
    cases r2 with
    | error e => exact hk02
    | ok wh =>
      simp only
      obtain ⟨hside, hH⟩ := hwh wh rfl
      have htr2 : Tracked w2 k := hk2.tracked k (htr k List.prefix_rfl)
      apply Sat.bind
      apply (sat_writeCloseX (S := S) (d := d) hk2.inv hside hH htr2).mono
      intro w3 r3 hk3
      cases r3 with
      | error e => exact hk02.trans hk3
      | ok o => exact Sat.pure (hk02.trans hk3)

theorem sat_writeX (hmk : MkdirAllUnit cfg) {name : Path} {flag perm : Nat} {d : String} {w : World} (hinv : InvX S v0 w)
    (hcov : flag = O_RDONLY ∨ ∃ k, PKey k ∧ clean name = kp k ∧ ReachF S w k) :
    Sat (Op.exec cfg (.write name flag perm d)) w (fun w' _ => KeptX S v0 w w') := by
  unfold Op.exec BackupFS.openFile
  apply Sat.bind
  by_cases hro : flag = O_RDONLY
  · -- read-only open: no resolution, no tracking, and the write through the handle is refused
    simp only [hro, if_true]
    unfold primOpen
    apply Sat.bind
    apply (sat_primCall_pure (fun m' r h => S.pure_openRO h)).mono
    intro w1 r ⟨hs1, hr⟩
    have hk1 := KeptX.of_same hinv hs1
    cases hc : (cfg.side .base).call w.fs (.openFile name O_RDONLY 0) with
    | mk m' r' =>
      rw [hc] at hr
      simp only at hr
      rcases hr with hr | ⟨_, hr⟩
      · rw [hr]
        cases r' with
        | error e => exact hk1
        | ok ret =>
          cases ret with
          | handle h =>
            apply Sat.pure
            simp only
            have hfl : h.flag = O_RDONLY := S.openFile_flag hc
            apply Sat.bind
            apply (sat_writeClose_roX (S := S) (d := d) hk1.inv (by rw [hfl]; rfl)).mono
            intro w2 r2 hk2
            cases r2 with
            | error e => exact hk1.trans hk2
            | ok o => exact Sat.pure (hk1.trans hk2)
          | _ => exact hk1
      · rw [hr]; exact hk1
  · simp only [hro, if_false]
    rcases hcov with h | ⟨k, hk, hname, hreach⟩
    · exact absurd h hro
    apply sat_prep_thenX hmk hinv hk hname hreach.reach
    · intro w' e hadv; exact KeptX.of_adv hadv
    · intro w1 hadv _ htr
      apply (sat_base_openX (S := S) (k := k) hadv.inv (htr k List.prefix_rfl)
        (fun m' r h => S.openFile_frame hadv.inv.good hk (by rw [hadv.base]; exact hreach) h)).mono
      intro w2 r2 ⟨hk2, hwh⟩
      have hk02 := (KeptX.of_adv hadv).trans hk2
      cases r2 with
      | error e => exact hk02
      | ok wh =>
        simp only
        obtain ⟨hside, hH⟩ := hwh wh rfl
        have htr2 : Tracked w2 k := hk2.tracked k (htr k List.prefix_rfl)
        apply Sat.bind
        apply (sat_writeCloseX (S := S) (d := d) hk2.inv hside hH htr2).mono
        intro w3 r3 hk3
        cases r3 with
        | error e => exact hk02.trans hk3
        | ok o => exact Sat.pure (hk02.trans hk3)

/-! ### Symlink / Rename -/

theorem sat_symlinkX (hmk : MkdirAllUnit cfg) {o n : Path} {kn : Key} {w : World} (hinv : InvX S v0 w) (hkn : PKey kn)
    (hn : clean n = kp kn) (hreach : Reach S w kn) (hnb : NoneBelow w kn) :
    Sat (BackupFS.symlink cfg o n) w (fun w' _ => KeptX S v0 w w') := by
  unfold BackupFS.symlink
  apply sat_prep_thenX hmk hinv hkn hn hreach
  · intro w' e hadv; exact KeptX.of_adv hadv
  · intro w1 hadv hon htr
    have hacc1 : NoLinkAnc (S.view .base w1.fs) kn := by rw [hadv.base]; exact hreach.1
    apply (sat_primUnit_chgL (S := S) (s := .base) (c := .symlink o (kp kn)) (K := (· = kn)) hadv.inv.good
      (fun m' r h => by
        obtain ⟨g, ot, f⟩ := S.symlink_frame hadv.inv.good hkn hacc1 h
        exact ⟨g, ot, fun j hj => f j hj⟩)).mono
    intro w2 _ hc
    refine (KeptX.of_adv hadv).trans (KeptX.of_chgL hadv.inv hc
      (fun j _ hj => by subst hj; exact htr j List.prefix_rfl) ?_)
    intro k hk htk a ha hne hl
    by_cases hak : a = kn
    · subst hak
      rcases hon k hk htk with h | h
      · exact hne (hnb k hk h ha).symm
      · exact hne (prefix_antisymm ha h)
    · obtain ⟨t, mt, ht⟩ := hl
      rw [hc.frame a hak] at ht
      exact hadv.inv.inv.blink k hk htk a ha hne ⟨t, mt, ht⟩

theorem sat_renameX (hmk : MkdirAllUnit cfg) {o n : Path} {ko kn : Key} {w : World} (hinv : InvX S v0 w) (hko : PKey ko) (hkn : PKey kn)
    (ho : clean o = kp ko) (hn : clean n = kp kn) (hro : Reach S w ko) (hrn : Reach S w kn)
    (hleaf : ¬ ((S.view .base w.fs).isDirAt ko ∧ (S.view .base w.fs).hasChild ko))
    (hnb : isLinkAt (S.view .base w.fs) ko → NoneBelow w kn) :
    Sat (BackupFS.rename cfg o n) w (fun w' _ => KeptX S v0 w w') := by
  unfold BackupFS.rename
  apply Sat.bind
  apply (sat_realPath (S := S) hinv.good hko ho hro.1).mono
  intro w1 r1 ⟨hs1, hres1⟩
  have hadv1 := AdvX.of_same hinv hs1
  cases r1 with
  | error e => exact KeptX.of_adv hadv1
  | ok ro =>
    have := hres1 ro rfl; subst this
    simp only
    apply Sat.bind
    apply (sat_realPath (S := S) hadv1.inv.good hkn hn (by rw [hadv1.base]; exact hrn.1)).mono
    intro w2 r2 ⟨hs2, hres2⟩
    have hadv2 := hadv1.trans (AdvX.of_same hadv1.inv hs2)
    have hon2 : OnlyAdded (fun j => j <+: kn ∨ j <+: ko) w w2 :=
      OnlyAdded.of_infos (hs2.infos.trans hs1.infos)
    cases r2 with
    | error e => exact KeptX.of_adv hadv2
    | ok rn =>
      have := hres2 rn rfl; subst this
      simp only
      have hrn2 := hrn.of_base hadv2.base
      apply Sat.bind
      apply (sat_tryBackupX hmk hadv2.inv hkn hrn2.1 hrn2.2).mono
      intro w3 r3 ⟨hadv3', hon3', htr3⟩
      have hadv3 := hadv2.trans hadv3'
      have hon3 : OnlyAdded (fun j => j <+: kn ∨ j <+: ko) w w3 := hon2.trans (hon3'.mono (fun j hj => Or.inl hj))
      cases r3 with
      | error e => exact KeptX.of_adv hadv3
      | ok u3 =>
        simp only
        have hro3 := hro.of_base hadv3.base
        apply Sat.bind
        apply (sat_tryBackupX hmk hadv3.inv hko hro3.1 hro3.2).mono
        intro w4 r4 ⟨hadv4', hon4', htr4⟩
        have hadv4 := hadv3.trans hadv4'
        have hon4 : OnlyAdded (fun j => j <+: kn ∨ j <+: ko) w w4 := hon3.trans (hon4'.mono (fun j hj => Or.inr hj))
        cases r4 with
        | error e => exact KeptX.of_adv hadv4
        | ok u4 =>
          simp only
          have hleaf4 : ¬ ((S.view .base w4.fs).isDirAt ko ∧ (S.view .base w4.fs).hasChild ko) := by
            rw [hadv4.base]; exact hleaf
          have hacco : NoLinkAnc (S.view .base w4.fs) ko := by rw [hadv4.base]; exact hro.1
          have haccn : NoLinkAnc (S.view .base w4.fs) kn := by rw [hadv4.base]; exact hrn.1
          have hg4 := hadv4.inv.good
          -- the base call
          have hcall : Sat (primUnit cfg .base (.rename (kp ko) (kp kn))) w4 (fun w' _ =>
              S.ChgL .base (fun j => j = ko ∨ j = kn) w4 w' ∧
              (∀ t mt', S.view .base w'.fs ko = some (.link t mt') → ∃ mt, S.view .base w4.fs ko = some (.link t mt)) ∧
              (∀ t mt', S.view .base w'.fs kn = some (.link t mt') →
                (∃ mt, S.view .base w4.fs kn = some (.link t mt)) ∨ (∃ mt, S.view .base w4.fs ko = some (.link t mt))) ∧
              ((S.view .base w4.fs).isDirAt kn → S.view .base w'.fs = S.view .base w4.fs)) := by
            unfold primUnit
            apply Sat.bind
            apply Sat.primCall
            · intro _ w5 h5
              have hfs : S.view .base w5.fs = S.view .base w4.fs := by rw [h5.fs]
              refine ⟨Sim.ChgL.of_same hg4 h5, ?_, ?_, fun _ => hfs⟩
              · intro t mt' h; exact ⟨mt', by rw [← hfs]; exact h⟩
              · intro t mt' h; exact Or.inl ⟨mt', by rw [← hfs]; exact h⟩
            · intro w5 h5
              cases heq : (cfg.side .base).call w4.fs (.rename (kp ko) (kp kn)) with
              | mk m' r =>
                obtain ⟨g, ot, hl, hd⟩ := S.rename_frame hg4 hko hkn hacco haccn heq
                obtain ⟨f, lo, ln⟩ := hl hleaf4
                have hchg : S.ChgL .base (fun j => j = ko ∨ j = kn) w4 { w5 with fs := m' } :=
                  ⟨g, ot, fun j hj => f j (fun e => hj (Or.inl e)) (fun e => hj (Or.inr e)), h5.infos, h5.faults⟩
                simp only
                cases r with
                | ok a => exact Sat.pure ⟨hchg, lo, ln, hd⟩
                | error e => exact ⟨hchg, lo, ln, hd⟩
          apply hcall.mono
          intro w5 _ ⟨hc, lo, ln, hd⟩
          refine (KeptX.of_adv hadv4).trans (KeptX.of_chgL hadv4.inv hc ?_ ?_)
          · intro j _ hj
            rcases hj with rfl | rfl
            · exact htr4 rfl j List.prefix_rfl
            · exact (htr3 rfl j List.prefix_rfl).monoNLX hadv4'
          · intro k hk htk a ha hne hl
            have hbl4 := hadv4.inv.inv.blink k hk htk a ha hne
            obtain ⟨t, mt', ht⟩ := hl
            by_cases hao : a = ko
            · subst hao
              obtain ⟨mt, h4⟩ := lo t mt' ht
              exact hbl4 ⟨t, mt, h4⟩
            · by_cases han : a = kn
              · subst han
                rcases ln t mt' ht with ⟨mt, h4⟩ | ⟨mt, h4⟩
                · exact hbl4 ⟨t, mt, h4⟩
                · -- the source is a symlink
                  have hlk : isLinkAt (S.view .base w.fs) ko := ⟨t, mt, by rw [← hadv4.base]; exact h4⟩
                  rcases hon4 k hk htk with h | h | h
                  · exact hne (hnb hlk k hk h ha).symm
                  · exact hne (prefix_antisymm ha h)
                  · -- `a` is a proper ancestor of the (live) source: a directory, so the call is refused
                    have hane : a ≠ ko := hao
                    have hdir : (S.view .base w4.fs).isDirAt a :=
                      (S.goodView hg4 .base).ancestors (by rw [h4]; simp) (List.IsPrefix.trans ha h) hane
                    rw [hd hdir] at ht
                    obtain ⟨md, hmd⟩ := hdir
                    rw [hmd] at ht; cases ht
              · rw [hc.frame a (fun e => by rcases e with e | e; exact hao e; exact han e)] at ht
                exact hbl4 ⟨t, mt', ht⟩

/-! ### RemoveAll: the walk -/

/-- state of the walk of `BackupFS.RemoveAll` below key `kr`, started from the state `w0` the
operation was issued in: invariant, fault plan; no symlink appeared since `w0`; the collected
directories are non-root key paths below `kr` that are reachable without traversing a symlink -/
structure WalkOKX (S : Sim cfg) (v0 : View) (kr : Key) (w0 : World) (w : World) (dirs : List Path) : Prop where
  kept : KeptX S v0 w0 w
  mono : LinkMono (S.view .base w0.fs) (S.view .base w.fs)
  dirs : ∀ p ∈ dirs, ∃ j, PKey j ∧ j ≠ [] ∧ p = kp j ∧ kr <+: j ∧ NoLinkAnc (S.view .base w.fs) j

theorem WalkOKX.step {kr : Key} {w0 w w' : World} {dirs : List Path} (h : WalkOKX S v0 kr w0 w dirs)
    (hk : KeptX S v0 w w') (hl : LinkMono (S.view .base w.fs) (S.view .base w'.fs)) :
    WalkOKX S v0 kr w0 w' dirs := by
  refine ⟨h.kept.trans hk, h.mono.trans hl, ?_⟩
  intro p hp
  obtain ⟨j, hj, hne, hpj, hkj, hacc⟩ := h.dirs p hp
  exact ⟨j, hj, hne, hpj, hkj, hl.noLinkAnc hacc⟩

theorem WalkOKX.same {kr : Key} {w0 w w' : World} {dirs : List Path} (h : WalkOKX S v0 kr w0 w dirs)
    (hs : SameFS w w') : WalkOKX S v0 kr w0 w' dirs :=
  h.step (KeptX.of_same h.kept.inv hs) (LinkMono.of_eq (by rw [hs.fs]))

theorem WalkOKX.reach {kr : Key} {w0 w : World} {dirs : List Path} (h : WalkOKX S v0 kr w0 w dirs)
    (hlok : LOK S kr w0) {j : Key} (hkj : kr <+: j) (hacc : NoLinkAnc (S.view .base w.fs) j) : Reach S w j := by
  refine ⟨hacc, ?_⟩
  intro t mt hv
  obtain ⟨mt0, h0⟩ := h.mono j t mt hv
  exact hlok j t mt0 hkj h0


/-- the walk function of `RemoveAll` on a non-root key path reachable without traversing a symlink -/
theorem removeAllFn_okX (hmk : MkdirAllUnit cfg) {kr : Key} {w0 w : World} {dirs : List Path} {j : Key} {info : Option Info} {err : Option Err}
    (hlok : LOK S kr w0) (h : WalkOKX S v0 kr w0 w dirs) (hj : PKey j) (hne : j ≠ []) (hkj : kr <+: j)
    (hacc : NoLinkAnc (S.view .base w.fs) j) :
    WalkOKX S v0 kr w0 (removeAllFn cfg w dirs (kp j) info err).1.1 (removeAllFn cfg w dirs (kp j) info err).1.2 ∧
      BaseRel S (· = j) w (removeAllFn cfg w dirs (kp j) info err).1.1 ∧
      (∀ i, info = some i → i.isDir = true → (removeAllFn cfg w dirs (kp j) info err).1.1 = w) := by
  unfold removeAllFn
  cases err with
  | some e => exact ⟨h, BaseRel.refl w, fun _ _ _ => rfl⟩
  | none =>
    cases info with
    | none => exact ⟨h, BaseRel.refl w, fun _ _ _ => rfl⟩
    | some i =>
      simp only
      split
      · refine ⟨⟨h.kept, h.mono, ?_⟩, BaseRel.refl w, fun _ _ _ => rfl⟩
        intro p hp
        rcases List.mem_append.mp hp with hp | hp
        · exact h.dirs p hp
        · simp only [List.mem_singleton] at hp
          exact ⟨j, hj, hne, hp, hkj, hacc⟩
      · rename_i hnd
        have hrem := (sat_removeX hmk (S := S) h.kept.inv hj hne (clean_kp hj) (h.reach hlok hkj hacc)).elim
        cases hr : BackupFS.remove cfg (kp j) w with
        | mk w' r =>
          rw [hr] at hrem
          obtain ⟨hk', hb'⟩ := hrem
          have hnd' : ∀ i', some i = some i' → i'.isDir = true → False := by
            intro i' e hd; cases e; exact hnd hd
          cases r <;> exact ⟨h.step hk' hb'.links, hb', fun i' e hd => absurd hd (fun hd => hnd' i' e hd)⟩


def WalkRecOKX (S : Sim cfg) (v0 : View) (kr : Key) (w0 : World) (fuel : Nat) : Prop :=
  ∀ (w : World) (a : List Path) (j : Key) (info : Info), WalkOKX S v0 kr w0 w a → PKey j → j ≠ [] → kr <+: j →
    NoLinkAnc (S.view .base w.fs) j → (info.isDir = true → (S.view .base w.fs).isDirAt j) →
    WalkOKX S v0 kr w0 (walkRec (worldWalkOps cfg .base) (removeAllFn cfg) fuel w a (kp j) info).1.1
      (walkRec (worldWalkOps cfg .base) (removeAllFn cfg) fuel w a (kp j) info).1.2 ∧
    BaseRel S (j <+: ·) w (walkRec (worldWalkOps cfg .base) (removeAllFn cfg) fuel w a (kp j) info).1.1

def WalkNamesOKX (S : Sim cfg) (v0 : View) (kr : Key) (w0 : World) (fuel : Nat) : Prop :=
  ∀ (names : List Name) (w : World) (a : List Path) (j : Key), (∀ n ∈ names, Plain n) →
    WalkOKX S v0 kr w0 w a → PKey j → j ≠ [] → kr <+: j →
    NoLinkAnc (S.view .base w.fs) j → (S.view .base w.fs).isDirAt j →
    WalkOKX S v0 kr w0 (walkNames (worldWalkOps cfg .base) (removeAllFn cfg) fuel w a (kp j) names).1.1
      (walkNames (worldWalkOps cfg .base) (removeAllFn cfg) fuel w a (kp j) names).1.2 ∧
    BaseRel S (fun x => j <+: x ∧ x ≠ j) w (walkNames (worldWalkOps cfg .base) (removeAllFn cfg) fuel w a (kp j) names).1.1


theorem walkNames_of_recX (hmk : MkdirAllUnit cfg) {kr : Key} {w0 : World} {fuel : Nat} (hlok : LOK S kr w0)
    (hrec : WalkRecOKX (cfg := cfg) S v0 kr w0 fuel) : WalkNamesOKX (cfg := cfg) S v0 kr w0 fuel := by
  intro names
  induction names with
  | nil =>
    intro w a j _ h _ _ _ _ _
    rw [walkNames]
    exact ⟨h, BaseRel.refl w⟩
  | cons n rest ih =>
    intro w a j hpl h hj hne hkj hacc hdir
    have hn : Plain n := hpl n (by simp)
    have hrest : ∀ m ∈ rest, Plain m := fun m hm => hpl m (List.mem_cons_of_mem _ hm)
    have hj' : PKey (j ++ [n]) := hj.snoc hn
    have hne' : j ++ [n] ≠ [] := by simp
    have hkj' : kr <+: j ++ [n] := List.IsPrefix.trans hkj (List.prefix_append j [n])
    have hacc' : NoLinkAnc (S.view .base w.fs) (j ++ [n]) := child_noLinkAnc hacc hdir
    rw [walkNames]
    simp only [join_kp hj hn]
    obtain ⟨hsame, hinfo⟩ := walk_lstat (cfg := cfg) (S := S) h.kept.inv.good hj' hacc'
    cases hl : (worldWalkOps cfg .base).lstat w (kp (j ++ [n])) with
    | mk w1 r1 =>
      rw [hl] at hsame hinfo
      simp only at hsame hinfo
      have h1 : WalkOKX S v0 kr w0 w1 a := h.same hsame
      have hv1 : S.view .base w1.fs = S.view .base w.fs := by rw [hsame.fs]
      have hacc1 : NoLinkAnc (S.view .base w1.fs) (j ++ [n]) := by rw [hv1]; exact hacc'
      have hb01 : BaseRel S (fun x => j ++ [n] <+: x) w w1 := BaseRel.of_eq hv1
      -- after the child: continue with the remaining names
      have hcont : ∀ (s2 : World) (a2 : List Path), WalkOKX S v0 kr w0 s2 a2 → BaseRel S (fun x => j ++ [n] <+: x) w s2 →
          WalkOKX S v0 kr w0 (walkNames (worldWalkOps cfg .base) (removeAllFn cfg) fuel s2 a2 (kp j) rest).1.1
            (walkNames (worldWalkOps cfg .base) (removeAllFn cfg) fuel s2 a2 (kp j) rest).1.2 ∧
          BaseRel S (fun x => j <+: x ∧ x ≠ j) w (walkNames (worldWalkOps cfg .base) (removeAllFn cfg) fuel s2 a2 (kp j) rest).1.1 := by
        intro s2 a2 h2 hb2
        obtain ⟨hacc2, hdir2⟩ := keep_parent hb2 hacc hdir
        obtain ⟨i1, i2⟩ := ih s2 a2 j hrest h2 hj hne hkj hacc2 hdir2
        exact ⟨i1, (hb2.mono (fun x hx => below_child hx)).trans i2⟩
      cases r1 with
      | error e =>
        simp only
        obtain ⟨hfn, hbfn, _⟩ := removeAllFn_okX hmk (cfg := cfg) (info := none) (err := some e) hlok h1 hj' hne' hkj' hacc1
        cases hf : removeAllFn cfg w1 a (kp (j ++ [n])) none (some e) with
        | mk sa oe =>
          rw [hf] at hfn hbfn
          obtain ⟨s2, a2⟩ := sa
          have hb2 : BaseRel S (fun x => j ++ [n] <+: x) w s2 :=
            hb01.trans (hbfn.mono (fun x hx => by subst hx; exact List.prefix_rfl))
          cases oe with
          | some e' => exact ⟨hfn, hb2.mono (fun x hx => below_child hx)⟩
          | none => exact hcont s2 a2 hfn hb2
      | ok fi =>
        simp only
        obtain ⟨hr, hbr⟩ := hrec w1 a (j ++ [n]) fi h1 hj' hne' hkj' hacc1
          (fun hd => by rw [hv1]; exact hinfo fi rfl hd)
        cases hw : walkRec (worldWalkOps cfg .base) (removeAllFn cfg) fuel w1 a (kp (j ++ [n])) fi with
        | mk sa oe =>
          rw [hw] at hr hbr
          obtain ⟨s2, a2⟩ := sa
          have hb2 : BaseRel S (fun x => j ++ [n] <+: x) w s2 := hb01.trans hbr
          cases oe with
          | some e' => exact ⟨hr, hb2.mono (fun x hx => below_child hx)⟩
          | none => exact hcont s2 a2 hr hb2

theorem walk_okX (hmk : MkdirAllUnit cfg) {kr : Key} (w0 : World) (hlok : LOK S kr w0) :
    ∀ fuel, WalkRecOKX (cfg := cfg) S v0 kr w0 fuel ∧ WalkNamesOKX (cfg := cfg) S v0 kr w0 fuel
  | 0 => by
    have hrec : WalkRecOKX (cfg := cfg) S v0 kr w0 0 := by
      intro w a j info h _ _ _ _ _
      rw [walkRec]
      exact ⟨h, BaseRel.refl w⟩
    exact ⟨hrec, walkNames_of_recX hmk hlok hrec⟩
  | fuel + 1 => by
    have ih := (walk_okX hmk w0 hlok fuel).2
    have hrec : WalkRecOKX (cfg := cfg) S v0 kr w0 (fuel + 1) := by
      intro w a j info h hj hne hkj hacc hinfo
      rw [walkRec]
      obtain ⟨hfn, hbfn, hsame⟩ := removeAllFn_okX hmk (cfg := cfg) (info := some info) (err := none) hlok h hj hne hkj hacc
      have hup : ∀ {wa wb : World}, BaseRel S (· = j) wa wb → BaseRel S (j <+: ·) wa wb :=
        fun hb => hb.mono (fun x hx => by subst hx; exact List.prefix_rfl)
      cases hf : removeAllFn cfg w a (kp j) (some info) none with
      | mk sa oe =>
        rw [hf] at hfn hbfn hsame
        obtain ⟨s1, a1⟩ := sa
        cases oe with
        | some e => exact ⟨hfn, hup hbfn⟩
        | none =>
          simp only
          split
          · exact ⟨hfn, hup hbfn⟩
          · rename_i hnd
            have hisd : info.isDir = true := by simpa using hnd
            have hs1 : s1 = w := hsame info rfl hisd
            subst hs1
            have hdir := hinfo hisd
            have haccF : AccF (S.view .base s1.fs) j := ⟨hacc, isLinkAt_not_dir hdir⟩
            have hrd := walk_readDir (cfg := cfg) (S := S) (j := j) (w := s1) hfn.kept.inv.good hj haccF
            cases hr : (worldWalkOps cfg .base).readDirNames s1 (kp j) with
            | mk s2 r2 =>
              rw [hr] at hrd
              have h2 : WalkOKX S v0 kr w0 s2 a1 := hfn.same hrd.1
              have hv2 : S.view .base s2.fs = S.view .base s1.fs := by rw [hrd.1.fs]
              have hb2 : BaseRel S (j <+: ·) s1 s2 := BaseRel.of_eq hv2
              cases r2 with
              | error e =>
                obtain ⟨g1, g2, _⟩ := removeAllFn_okX hmk (cfg := cfg) (info := some info) (err := some e) hlok h2 hj hne hkj
                  (by rw [hv2]; exact hacc)
                exact ⟨g1, hb2.trans (hup g2)⟩
              | ok names =>
                obtain ⟨g1, g2⟩ := ih names s2 a1 j (hrd.2 names rfl) h2 hj hne hkj
                  (by rw [hv2]; exact hacc) (by rw [hv2]; exact hdir)
                exact ⟨g1, hb2.trans (g2.mono (fun x hx => hx.1))⟩
    exact ⟨hrec, walkNames_of_recX hmk hlok hrec⟩

theorem walkTree_okX (hmk : MkdirAllUnit cfg) {kr : Key} {w0 w : World} (hlok : LOK S kr w0) (h : WalkOKX S v0 kr w0 w []) (hk : PKey kr)
    (hne : kr ≠ []) (hacc : NoLinkAnc (S.view .base w.fs) kr) :
    WalkOKX S v0 kr w0 (walkTree (worldWalkOps cfg .base) (removeAllFn cfg) 64 w [] (kp kr)).1.1
      (walkTree (worldWalkOps cfg .base) (removeAllFn cfg) 64 w [] (kp kr)).1.2 := by
  unfold walkTree
  obtain ⟨hsame, hinfo⟩ := walk_lstat (cfg := cfg) (S := S) h.kept.inv.good hk hacc
  cases hl : (worldWalkOps cfg .base).lstat w (kp kr) with
  | mk w3 r3 =>
    rw [hl] at hsame hinfo
    simp only at hsame hinfo
    have h3 : WalkOKX S v0 kr w0 w3 [] := h.same hsame
    have hv3 : S.view .base w3.fs = S.view .base w.fs := by rw [hsame.fs]
    have hacc3 : NoLinkAnc (S.view .base w3.fs) kr := by rw [hv3]; exact hacc
    cases r3 with
    | error e => exact (removeAllFn_okX hmk hlok h3 hk hne List.prefix_rfl hacc3).1
    | ok info =>
      exact ((walk_okX hmk (cfg := cfg) (S := S) (v0 := v0) w0 hlok 64).1 w3 [] kr info h3 hk hne List.prefix_rfl hacc3
        (fun hd => by rw [hv3]; exact hinfo info rfl hd)).1

theorem sat_removeEachX (hmk : MkdirAllUnit cfg) {kr : Key} {w0 : World} (hlok : LOK S kr w0) : ∀ (ds : List Path) (w : World),
    WalkOKX S v0 kr w0 w ds → Sat (removeEach cfg ds) w (fun w' _ => KeptX S v0 w0 w')
  | [], w, h => by
    unfold removeEach
    exact Sat.pure h.kept
  | d :: ds, w, h => by
    unfold removeEach
    obtain ⟨j, hj, hne, rfl, hkj, hacc⟩ := h.dirs d (by simp)
    apply Sat.bind
    apply (sat_removeX hmk (S := S) h.kept.inv hj hne (clean_kp hj) (h.reach hlok hkj hacc)).mono
    intro w1 r1 ⟨hk1, hb1⟩
    have h1 : WalkOKX S v0 kr w0 w1 ds := by
      have := h.step hk1 hb1.links
      exact ⟨this.kept, this.mono, fun p hp => this.dirs p (List.mem_cons_of_mem _ hp)⟩
    cases r1 with
    | error e => exact h1.kept
    | ok u => exact sat_removeEachX hmk hlok ds w1 h1

theorem sat_removeAllX (hmk : MkdirAllUnit cfg) {name : Path} {k : Key} {w : World} (hinv : InvX S v0 w) (hk : PKey k) (hne : k ≠ [])
    (hname : clean name = kp k) (hacc : NoLinkAnc (S.view .base w.fs) k) (hlok : LOK S k w) :
    Sat (BackupFS.removeAll cfg name) w (fun w' _ => KeptX S v0 w w') := by
  unfold BackupFS.removeAll
  apply Sat.bind
  apply (sat_realPath (S := S) hinv.good hk hname hacc).mono
  intro w1 r1 ⟨hs1, hres1⟩
  have hk1 := KeptX.of_same hinv hs1
  cases r1 with
  | error e => exact hk1
  | ok r =>
    have := hres1 r rfl; subst this
    simp only
    have hacc1 : NoLinkAnc (S.view .base w1.fs) k := by rw [hs1.fs]; exact hacc
    apply Sat.bind
    apply Sat.attempt
    apply (sat_lstat hk1.inv.good hk hacc1).mono
    intro w2 r2 ⟨hs2, _⟩
    have hk2 := hk1.trans (KeptX.of_same hk1.inv hs2)
    have hv2 : S.view .base w2.fs = S.view .base w.fs := by rw [hs2.fs, hs1.fs]
    have hacc2 : NoLinkAnc (S.view .base w2.fs) k := by rw [hv2]; exact hacc
    have hwalk : WalkOKX S v0 k w w2 [] := ⟨hk2, LinkMono.of_eq hv2, by intro p hp; cases hp⟩
    simp only
    cases r2 with
    | error e =>
      simp only
      split
      · exact Sat.pure hk2
      · exact Sat.throw hk2
    | ok fi =>
      simp only
      split
      · apply (sat_removeX hmk (S := S) hk2.inv hk hne (clean_kp hk) (hwalk.reach hlok List.prefix_rfl hacc2)).mono
        intro w3 _ ⟨hk3, _⟩
        exact hk2.trans hk3
      · apply Sat.bind
        have hw : Sat (fun w => match walkTree (worldWalkOps cfg .base) (removeAllFn cfg) 64 w [] (kp k) with
            | ((w', dirs), none) => (w', Except.ok dirs)
            | ((w', _), some e) => (w', Except.error e) : M (List Path)) w2
            (fun w' r => KeptX S v0 w w' ∧ ∀ dirs, r = .ok dirs → WalkOKX S v0 k w w' dirs) := by
          have hwt := walkTree_okX hmk (cfg := cfg) hlok hwalk hk hne hacc2
          unfold Sat
          show KeptX S v0 w (match walkTree (worldWalkOps cfg .base) (removeAllFn cfg) 64 w2 [] (kp k) with
              | ((w', dirs), none) => (w', Except.ok dirs)
              | ((w', _), some e) => (w', Except.error e)).1 ∧
            ∀ dirs, (match walkTree (worldWalkOps cfg .base) (removeAllFn cfg) 64 w2 [] (kp k) with
              | ((w', dirs), none) => (w', Except.ok dirs)
              | ((w', _), some e) => (w', Except.error e)).2 = .ok dirs → WalkOKX S v0 k w
                (match walkTree (worldWalkOps cfg .base) (removeAllFn cfg) 64 w2 [] (kp k) with
                  | ((w', dirs), none) => (w', Except.ok dirs)
                  | ((w', _), some e) => (w', Except.error e)).1 dirs
          cases hx : walkTree (worldWalkOps cfg .base) (removeAllFn cfg) 64 w2 [] (kp k) with
          | mk sa oe =>
            rw [hx] at hwt
            obtain ⟨s2, a2⟩ := sa
            cases oe with
            | some e' => exact ⟨hwt.kept, by intro d h; cases h⟩
            | none => exact ⟨hwt.kept, by intro d h; cases h; exact hwt⟩
        apply hw.mono
        intro w3 r3 ⟨hk3, hdirs⟩
        cases r3 with
        | error e => exact hk3
        | ok dirs =>
          simp only
          have h3 := hdirs dirs rfl
          apply sat_removeEachX hmk (S := S) hlok (sortMost dirs) w3
          exact ⟨h3.kept, h3.mono, fun p hp => h3.dirs p ((sortBy_perm _ dirs).mem_iff.mp hp)⟩


theorem sat_pure_infoX {c : Call} {w : World} (hinv : InvX S v0 w)
    (hpure : ∀ m' r, (cfg.side .base).call w.fs c = (m', r) → m' = w.fs) :
    Sat (primInfo cfg .base c) w (fun w' _ => KeptX S v0 w w') := by
  unfold primInfo
  apply Sat.bind
  apply (sat_primCall_pure hpure).mono
  intro w1 r ⟨hs, _⟩
  have := KeptX.of_same hinv hs
  cases r with
  | error e => exact this
  | ok ret => cases ret <;> exact this

theorem sat_pure_strX {c : Call} {w : World} (hinv : InvX S v0 w)
    (hpure : ∀ m' r, (cfg.side .base).call w.fs c = (m', r) → m' = w.fs) :
    Sat (primStr cfg .base c) w (fun w' _ => KeptX S v0 w w') := by
  unfold primStr
  apply Sat.bind
  apply (sat_primCall_pure hpure).mono
  intro w1 r ⟨hs, _⟩
  have := KeptX.of_same hinv hs
  cases r with
  | error e => exact this
  | ok ret => cases ret <;> exact this

theorem sat_unit_outX {x : M Unit} {w : World} (h : Sat x w (fun w' _ => KeptX S v0 w w')) :
    Sat (do x; pure OpOut.unit : M OpOut) w (fun w' _ => KeptX S v0 w w') := by
  apply Sat.bind
  apply h.mono
  intro w1 r hk
  cases r with
  | error e => exact hk
  | ok u => exact Sat.pure hk

theorem sat_unit_outX' {x : M Unit} {w : World} {P : World → Prop}
    (h : Sat x w (fun w' _ => KeptX S v0 w w' ∧ P w')) :
    Sat (do x; pure OpOut.unit : M OpOut) w (fun w' _ => KeptX S v0 w w') :=
  sat_unit_outX (h.mono (fun _ _ hk => hk.1))

/-- T01L (operations): a covered operation, successful or not, under any fault plan, keeps the
transaction invariant -/
theorem op_keepsX (hmk : MkdirAllUnit cfg) {w : World} {op : Op} (hinv : InvX S v0 w) (hc : Op.Covered S w op) :
    KeptX S v0 w (op.step cfg w) := by
  have key : Sat (op.exec cfg) w (fun w' _ => KeptX S v0 w w') := by
    cases op with
    | creat p d =>
      obtain ⟨k, hk, hname⟩ := clean_abs hc.1
      exact sat_creatX hmk hinv hk hname (hc.2 k hk hname)
    | write p f pm d =>
      apply sat_writeX hmk hinv
      rcases hc with h | ⟨habs, h⟩
      · exact Or.inl h
      · obtain ⟨k, hk, hname⟩ := clean_abs habs
        exact Or.inr ⟨k, hk, hname, h k hk hname⟩
    | mkdir p m =>
      obtain ⟨k, hk, hname⟩ := clean_abs hc.1
      exact sat_unit_outX' (sat_mkdirX hmk hinv hk hname (hc.2 k hk hname))
    | mkdirAll p m =>
      obtain ⟨k, hk, hname⟩ := clean_abs hc.1
      exact sat_unit_outX (sat_mkdirAllX hmk hinv hk hname (hc.2 k hk hname))
    | remove p =>
      obtain ⟨k, hk, hname⟩ := clean_abs hc.1
      have hne : k ≠ [] := by
        intro e; subst e; exact hc.2.1 hname
      exact sat_unit_outX' (sat_removeX hmk hinv hk hne hname (hc.2.2 k hk hname))
    | removeAll p =>
      obtain ⟨k, hk, hname⟩ := clean_abs hc.1
      have hne : k ≠ [] := by
        intro e; subst e; exact hc.2.1 hname
      obtain ⟨hacc, hlok⟩ := hc.2.2 k hk hname
      exact sat_unit_outX (sat_removeAllX hmk hinv hk hne hname hacc hlok)
    | rename o n =>
      obtain ⟨ko, hko, ho⟩ := clean_abs hc.1
      obtain ⟨kn, hkn, hn⟩ := clean_abs hc.2.1
      obtain ⟨hro, hrn, hleaf, hnb⟩ := hc.2.2 ko kn hko hkn ho hn
      exact sat_unit_outX (sat_renameX hmk hinv hko hkn ho hn hro hrn hleaf hnb)
    | symlink o n =>
      obtain ⟨kn, hkn, hn⟩ := clean_abs hc.1
      obtain ⟨hrn, hnb⟩ := hc.2 kn hkn hn
      exact sat_unit_outX (sat_symlinkX hmk hinv hkn hn hrn hnb)
    | chmod p m =>
      obtain ⟨k, hk, hname⟩ := clean_abs hc.1
      exact sat_unit_outX' (sat_chmodX hmk hinv hk hname (hc.2 k hk hname))
    | chown p u g =>
      obtain ⟨k, hk, hname⟩ := clean_abs hc.1
      exact sat_unit_outX' (sat_chownX hmk hinv hk hname (hc.2 k hk hname))
    | lchown p u g =>
      obtain ⟨k, hk, hname⟩ := clean_abs hc.1
      exact sat_unit_outX' (sat_lchownX hmk hinv hk hname (hc.2 k hk hname))
    | chtimes p t =>
      obtain ⟨k, hk, hname⟩ := clean_abs hc.1
      exact sat_unit_outX' (sat_chtimesX hmk hinv hk hname (hc.2 k hk hname))
    | stat p =>
      unfold Op.exec BackupFS.stat
      apply Sat.bind
      apply (sat_pure_infoX hinv (fun m' r h => S.pure_stat h)).mono
      intro w1 r hk
      cases r with
      | error e => exact hk
      | ok i => exact Sat.pure hk
    | lstat p =>
      unfold Op.exec BackupFS.lstat
      apply Sat.bind
      apply (sat_pure_infoX hinv (fun m' r h => S.pure_lstat h)).mono
      intro w1 r hk
      cases r with
      | error e => exact hk
      | ok i => exact Sat.pure hk
    | readlink p =>
      unfold Op.exec BackupFS.readlink
      apply Sat.bind
      apply (sat_pure_strX hinv (fun m' r h => S.pure_readlink h)).mono
      intro w1 r hk
      cases r with
      | error e => exact hk
      | ok i => exact Sat.pure hk
    | force p => exact absurd hc id
  exact key

/-- T01L (histories): after any covered history the invariant holds -/
theorem history_keepsX (hmk : MkdirAllUnit cfg) : ∀ (ops : List Op) (w : World), InvX S v0 w → CoveredHist cfg S w ops →
    KeptX S v0 w (runOps cfg w ops)
  | [], w, hinv, _ => KeptX.refl hinv
  | op :: rest, w, hinv, hc => by
    have h1 := op_keepsX hmk (cfg := cfg) hinv hc.1
    have h2 := history_keepsX hmk rest (op.step cfg w) h1.inv hc.2
    exact h1.trans h2

end NL
end BFS
