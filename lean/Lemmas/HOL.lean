import Lemmas.HOTop
import Lemmas.HLLEnd
/-!
  Lemmas/HOL.lean — the two-disk law of one call on disks WITH symlinks (`WFL`), for calls whose own
  route is free of symlinks: no symlink among the proper ancestors of a name, and — when the call's name
  resolution follows a final symlink — none at the name itself (`RouteOK`).  Every method but `MkdirAll`
  and `RemoveAll`.
-/
namespace BFS
namespace HO
open MFS D PX HiddenFS HLL L

/-- does the (single) name resolution of the call follow a final symlink -/
def followFlag : Call → Bool
  | .create _ => true
  | .open_ _ => true
  | .openFile _ f _ => !(hasFlag f O_CREATE && hasFlag f O_EXCL)
  | .stat _ => true
  | .chmod _ _ => true
  | .chown _ _ _ => true
  | .chtimes _ _ _ => true
  | .mkdirAll _ _ => true
  | _ => false

/-- the route to `K` for a resolution with follow flag `f` -/
def RouteOK (m : MFS) (K : Key) (f : Bool) : Prop :=
  NoLinkProper m K ∧ (f = true → ∀ t mt, m.get K ≠ some (.link t mt))

theorem RouteOK.weaken {m : MFS} {K : Key} {f : Bool} (h : RouteOK m K f) : RouteOK m K false :=
  ⟨h.1, fun e => by cases e⟩

theorem strip_nil_trivial {rest : List Name} (h : strip rest = []) : trivialRest rest = true := by
  unfold strip at h
  unfold trivialRest
  rw [List.all_eq_true]
  intro c hc
  have := List.filter_eq_nil_iff.mp h c hc
  cases hb : (c = [] || c = dot) with
  | true => simpa using hb
  | false => simp [hb] at this

/-- the walk towards `cur ++ strip comps`: same node at every prefix; no symlink at the proper prefixes,
none at the key itself when following -/
theorem walk_agree_nf (m1 m2 : MFS) (f : Bool) :
    ∀ (fuel hops : Nat) (cur : Key) (comps : List Name), dotdot ∉ comps →
      (∀ p, p <+: cur ++ strip comps → m1.get p = m2.get p) →
      (∀ p, p <+: cur ++ strip comps → p ≠ cur ++ strip comps → ∀ t mt, m1.get p ≠ some (.link t mt)) →
      (f = true → ∀ t mt, m1.get (cur ++ strip comps) ≠ some (.link t mt)) →
      walk m1 f fuel hops cur comps = walk m2 f fuel hops cur comps := by
  intro fuel
  induction fuel with
  | zero =>
    intro hops cur comps _ _ _ _
    rw [walk, walk]
  | succ fuel ih =>
    intro hops cur comps hnd hag hnl hf
    cases comps with
    | nil =>
      rw [walk_nil, walk_nil, hag cur (List.prefix_append _ _)]
    | cons c rest =>
      have hndr : dotdot ∉ rest := fun h => hnd (List.mem_cons_of_mem _ h)
      by_cases hc1 : (c = [] || c = dot) = true
      · rw [walk_skip m1 f fuel hops cur rest hc1, walk_skip m2 f fuel hops cur rest hc1]
        rw [strip_cons_triv hc1] at hag hnl hf
        exact ih hops cur rest hndr hag hnl hf
      · have hc1' : (c = [] || c = dot) = false := by simpa using hc1
        have hc2 : c ≠ dotdot := fun e => hnd (e ▸ List.mem_cons_self)
        rw [walk_cons_plain m1 f fuel hops cur rest hc1' hc2, walk_cons_plain m2 f fuel hops cur rest hc1' hc2]
        rw [strip_cons_keep hc1'] at hag hnl hf
        have hk : cur ++ [c] <+: cur ++ c :: strip rest := by
          refine ⟨strip rest, ?_⟩
          simp
        have he : cur ++ [c] ++ strip rest = cur ++ c :: strip rest := by simp
        rw [← hag _ hk]
        cases hg : m1.get (cur ++ [c]) with
        | none => rfl
        | some n =>
          cases n with
          | dir mt =>
            simp only
            exact ih hops (cur ++ [c]) rest hndr (by rw [he]; exact hag) (by rw [he]; exact hnl)
              (by rw [he]; exact hf)
          | file ct mt => rfl
          | link t mt =>
            by_cases hs : strip rest = []
            · have hK : cur ++ c :: strip rest = cur ++ [c] := by rw [hs]
              have htr := strip_nil_trivial hs
              cases f with
              | true => exact absurd hg (by rw [← hK]; exact hf rfl t mt)
              | false => simp only [htr, Bool.not_false, Bool.and_self, if_true]
            · exfalso
              apply hnl _ hk ?_ t mt hg
              intro e
              apply hs
              have := congrArg List.length e
              simp only [List.length_append, List.length_cons, List.length_nil] at this
              exact List.length_eq_zero_iff.mp (by omega)

theorem namei_agree_nf {m1 m2 : MFS} {K : Key} (hK : PKey K) {t : Path} (htx : TextOf t K)
    (hag : ∀ p, p <+: K → m1.get p = m2.get p) {f : Bool} (hr : RouteOK m1 K f) :
    namei m1 t f = namei m2 t f := by
  obtain ⟨tl, hs, htl, _⟩ := splitSep_text hK htx
  have htriv : ∀ c ∈ tl, c = [] ∨ c = dot := by
    intro c hc
    unfold trivialRest at htl
    simpa using List.all_eq_true.mp htl c hc
  have hst : strip ([] :: (K ++ tl)) = K := by
    rw [strip_cons_triv (by decide), strip_append, strip_pkey hK, strip_trivial htl, List.append_nil]
  unfold namei
  simp only [htx.ne_nil, if_false, hs]
  apply walk_agree_nf
  · intro h
    rcases List.mem_cons.mp h with h | h
    · cases h
    · rcases List.mem_append.mp h with h | h
      · exact (hK _ h).2.2.2 rfl
      · rcases htriv _ h with e | e <;> cases e
  · rw [hst, List.nil_append]; exact hag
  · rw [hst, List.nil_append]; exact hr.1
  · rw [hst, List.nil_append]; exact hr.2

section
variable {bk : Key} {hks : List Key}

theorem routeOK_transfer {m1 m2 : MFS} (ha : Agr (Vis bk hks) m1 m2) {x : Key} (hv : ¬ HidK hks x) {f : Bool}
    (h : RouteOK m1 (bk ++ x) f) : RouteOK m2 (bk ++ x) f := by
  refine ⟨?_, ?_⟩
  · intro p hp hne t mt hg
    exact h.1 p hp hne t mt ((ha.get p (vis_of_prefix (vis_key hv) hp)).trans hg)
  · intro hf t mt hg
    exact h.2 hf t mt ((ha.get _ (vis_key hv)).trans hg)

/-- one OS call on visible keys reached without crossing a symlink, disks with symlinks elsewhere -/
theorem osCall_sameL {m1 m2 : MFS} (hbk : PKey bk) (hw1 : WFL m1) (ha : Agr (Vis bk hks) m1 m2) {c' : Call}
    (hk : VisCall bk hks c') (hnm : ∀ n p, c' ≠ .mkdirAll n p)
    (hroute : ∀ x, PKey x → kp (bk ++ x) ∈ c'.accessPaths → RouteOK m1 (bk ++ x) (followFlag c'))
    (hrm : RemoveOK bk m1 m2 c') :
    (osCall m1 c').2 = (osCall m2 c').2 ∧ Agr (Vis bk hks) (osCall m1 c').1 (osCall m2 c').1 := by
  have R : ∀ {x : Key}, PKey x → ∀ {f}, RouteOK m1 (bk ++ x) f → NC m1 (bk ++ x) (namei m1 (kp (bk ++ x)) f) :=
    fun hx f hr => nc_any hw1 (hbk.append hx) hr.1 (TextOf.kp _) f hr.2
  have E : ∀ {x : Key}, PKey x → ¬ HidK hks x → ∀ {f}, RouteOK m1 (bk ++ x) f →
      namei m1 (kp (bk ++ x)) f = namei m2 (kp (bk ++ x)) f :=
    fun hx hv f hr => namei_agree_nf (hbk.append hx) (TextOf.kp _)
      (fun p hp => ha.get p (vis_of_prefix (vis_key hv) hp)) hr
  have P : ∀ {x : Key}, ¬ HidK hks x → Vis bk hks (bk ++ x).dropLast :=
    fun hv => vis_of_prefix (vis_key hv) (dropLast_prefix _)
  have O : ∀ {x : Key}, PKey x → ¬ HidK hks x → ∀ fl pm,
      RouteOK m1 (bk ++ x) (!(hasFlag fl O_CREATE && hasFlag fl O_EXCL)) →
      ((m1.openFile (kp (bk ++ x)) fl pm).2.map Ret.handle = (m2.openFile (kp (bk ++ x)) fl pm).2.map Ret.handle) ∧
        Agr (Vis bk hks) (m1.openFile (kp (bk ++ x)) fl pm).1 (m2.openFile (kp (bk ++ x)) fl pm).1 := by
    intro x hx hv fl pm hr
    have := openFile_sameV ha fl pm (P hv) (E hx hv hr) (R hx hr)
    exact ⟨by rw [this.1], this.2⟩
  cases hk with
  | create x hx hv => exact O hx hv _ _ (hroute x hx (by simp [Call.accessPaths]))
  | mkdir p x hx hv =>
    have hr := hroute x hx (by simp [Call.accessPaths])
    exact sameV_liftU (mkdir_sameV ha p (P hv) (E hx hv hr) (R hx hr))
  | mkdirAll p x hx hv => exact absurd rfl (hnm _ _)
  | open_ x hx hv => exact O hx hv _ _ (hroute x hx (by simp [Call.accessPaths]))
  | openFile f p x hx hv => exact O hx hv _ _ (hroute x hx (by simp [Call.accessPaths]))
  | remove x hx hv =>
    have hr := hroute x hx (by simp [Call.accessPaths])
    exact sameV_liftU (remove_sameV ha (E hx hv hr) (R hx hr) (hrm x rfl hx))
  | rename x y hx hy hvx hvy hpx hpy =>
    have hrx := hroute x hx (by simp [Call.accessPaths])
    have hry := hroute y hy (by simp [Call.accessPaths])
    refine sameV_liftU (rename_sameV ha ?_ (E hx hvx hrx) (E hy hvy hry) (R hx hrx) (R hy hry))
    intro t
    rw [List.append_assoc]
    apply vis_key
    intro hj
    exact not_below_visible hvx hpx hj (List.prefix_append _ _)
  | stat x hx hv =>
    have hr : RouteOK m1 (bk ++ x) true := hroute x hx (by simp [Call.accessPaths])
    exact ⟨by show (m1.stat _).map _ = (m2.stat _).map _; rw [stat_agree (E hx hv hr)], ha⟩
  | chmod md x hx hv =>
    have hr : RouteOK m1 (bk ++ x) true := hroute x hx (by simp [Call.accessPaths])
    have := metaOp_sameV ha (fun n => n.setMeta { n.meta with mode := md &&& 0o7777 }) (E hx hv hr) (R hx hr)
    rw [← mfs_chmod_eq, ← mfs_chmod_eq] at this
    exact sameV_liftU this
  | chown u g x hx hv =>
    have hr : RouteOK m1 (bk ++ x) true := hroute x hx (by simp [Call.accessPaths])
    have := metaOp_sameV ha (chownF u g) (E hx hv hr) (R hx hr)
    rw [← mfs_chown_eq, ← mfs_chown_eq] at this
    exact sameV_liftU this
  | chtimes a t x hx hv =>
    have hr : RouteOK m1 (bk ++ x) true := hroute x hx (by simp [Call.accessPaths])
    have := metaOp_sameV ha (fun n => n.setMeta { n.meta with mtime := t }) (E hx hv hr) (R hx hr)
    rw [← mfs_chtimes_eq, ← mfs_chtimes_eq] at this
    exact sameV_liftU this
  | lstat x hx hv =>
    have hr : RouteOK m1 (bk ++ x) false := hroute x hx (by simp [Call.accessPaths])
    exact ⟨by show (m1.lstat _).map _ = (m2.lstat _).map _; rw [lstat_agree (E hx hv hr)], ha⟩
  | symlink o' x hx hv =>
    have hr : RouteOK m1 (bk ++ x) false := hroute x hx (by simp [Call.accessPaths])
    exact sameV_liftU (symlink_sameV ha o' (P hv) (E hx hv hr) (R hx hr))
  | readlink x hx hv =>
    have hr : RouteOK m1 (bk ++ x) false := hroute x hx (by simp [Call.accessPaths])
    exact ⟨by show (m1.readlink _).map _ = (m2.readlink _).map _; rw [readlink_agree (E hx hv hr)], ha⟩
  | lchown u g x hx hv =>
    have hr : RouteOK m1 (bk ++ x) false := hroute x hx (by simp [Call.accessPaths])
    have := metaOp_sameV ha (chownF u g) (E hx hv hr) (R hx hr)
    rw [← mfs_lchown_eq, ← mfs_lchown_eq] at this
    exact sameV_liftU this

/-! ### through `PrefixFS(kp bk)` -/

variable {hs : List Path}

theorem keyCall_followFlag {c c' : Call} (hk : KeyCall bk c c') : followFlag c' = followFlag c := by
  cases hk <;> rfl

theorem followFlag_of_followsMut {c : Call} (h : followsMut c = true) : followFlag c = true := by
  cases c <;> simp only [followsMut, Bool.false_eq_true] at h <;> try rfl
  case openFile n f p =>
    simp only [Bool.and_eq_true, Bool.not_eq_true'] at h
    simp [followFlag, h.1]

theorem PlainDom.of_wfl {m : MFS} (h : WFL m) : PlainDom m :=
  ⟨h.pkey, fun k hk => by
    obtain ⟨n, hn⟩ := Option.isSome_iff_exists.mp hk
    exact h.dom k n hn⟩

/-- one call through `PrefixFS(kp bk)` with visible names reached without crossing a symlink -/
theorem visible_call_sameL (H : HidKeys hs hks) (hne : hks ≠ []) (hbk : PKey bk) {m1 m2 : MFS}
    (hw1 : WFL m1) (hw2 : WFL m2) (ha : Agr (Vis bk hks) m1 m2) (c1 : Call)
    (hvis : ∀ n ∈ c1.accessPaths, isHidden n hs = .ok false)
    (hanc : ∀ o n, c1 = .rename o n → isParentOfHidden o hs = .ok false ∧ isParentOfHidden n hs = .ok false)
    (hnra : ∀ n, c1 ≠ .removeAll n) (hnm : ∀ n p, c1 ≠ .mkdirAll n p)
    (hroute : ∀ n ∈ c1.accessPaths, RouteOK m1 (bk ++ nameKey n) (followFlag c1))
    (hrm : ∀ c2, KeyCall bk c1 c2 → RemoveOK bk m1 m2 c2) :
    ((prefixFS (kp bk) osfs).call m1 c1).2 = ((prefixFS (kp bk) osfs).call m2 c1).2 ∧
    Agr (Vis bk hks) ((prefixFS (kp bk) osfs).call m1 c1).1 ((prefixFS (kp bk) osfs).call m2 c1).1 ∧
    HidSame bk hks m1 ((prefixFS (kp bk) osfs).call m1 c1).1 ∧
    HidSame bk hks m2 ((prefixFS (kp bk) osfs).call m2 c1).1 := by
  have hvk : ∀ n ∈ c1.accessPaths, ¬ HidK hks (nameKey n) := by
    intro n hn
    obtain ⟨hy, hc⟩ := nameKey_abs (visible_abs H hne (hvis n hn))
    obtain ⟨y, hy', hc', hnh⟩ := visible_key H hne (hvis n hn)
    have : y = nameKey n := kp_inj hy' hy (hc'.symm.trans hc)
    exact this ▸ hnh
  have hroute2 : ∀ n ∈ c1.accessPaths, RouteOK m2 (bk ++ nameKey n) (followFlag c1) :=
    fun n hn => routeOK_transfer ha (hvk n hn) (hroute n hn)
  have unt : ∀ {m : MFS}, WFL m → (∀ n ∈ c1.accessPaths, RouteOK m (bk ++ nameKey n) (followFlag c1)) →
      HidSame bk hks m ((prefixFS (kp bk) osfs).call m c1).1 := by
    intro m hw hr
    apply visible_call_untouched_links_w H hne hw hbk c1 hvis hanc hnra
    · intro _ n hn; exact (hr n hn).1
    · intro hf n hn
      left
      have := hr n hn
      rw [followFlag_of_followsMut hf] at this
      exact noLinkUpto_iff.mpr ⟨this.1, this.2 rfl⟩
  refine ⟨?_, ?_, unt hw1 hroute, unt hw2 hroute2⟩
  · rcases prefix_call_cases hbk m1 c1 with ⟨e, he, hc⟩ | ⟨c2, hk, he, hc⟩
    · rcases prefix_call_cases hbk m2 c1 with ⟨e', he', hc'⟩ | ⟨c2', _, he', _⟩
      · rw [hc, hc']
        rw [he] at he'
        cases he'
        rfl
      · rw [he] at he'; cases he'
    · rcases prefix_call_cases hbk m2 c1 with ⟨e', he', _⟩ | ⟨c2', _, he', hc'⟩
      · rw [he] at he'; cases he'
      · rw [he] at he'
        cases he'
        rw [hc, hc']
        have hv := visCall_of_keyCall H hne hbk hk hvis hanc hnra
        have hr2 : ∀ x, PKey x → kp (bk ++ x) ∈ c2.accessPaths → RouteOK m1 (bk ++ x) (followFlag c2) := by
          intro x hx hm
          obtain ⟨n, hn, hp⟩ := (keyCall_paths hk).2 x hm
          rw [prefix_key_nameKey H hne hbk hx hp (hvis n hn), keyCall_followFlag hk]
          exact hroute n hn
        have hnm2 : ∀ n p, c2 ≠ .mkdirAll n p := by
          intro n p e
          subst e
          cases hk
          exact hnm _ _ rfl
        simp only
        rw [(osCall_sameL hbk hw1 ha hv hnm2 hr2 (hrm _ hk)).1]
  · rcases prefix_call_cases hbk m1 c1 with ⟨e, he, hc⟩ | ⟨c2, hk, he, hc⟩
    · rcases prefix_call_cases hbk m2 c1 with ⟨e', he', hc'⟩ | ⟨c2', _, he', _⟩
      · rw [hc, hc']
        exact ha
      · rw [he] at he'; cases he'
    · rcases prefix_call_cases hbk m2 c1 with ⟨e', he', _⟩ | ⟨c2', _, he', hc'⟩
      · rw [he] at he'; cases he'
      · rw [he] at he'
        cases he'
        rw [hc, hc']
        have hv := visCall_of_keyCall H hne hbk hk hvis hanc hnra
        have hr2 : ∀ x, PKey x → kp (bk ++ x) ∈ c2.accessPaths → RouteOK m1 (bk ++ x) (followFlag c2) := by
          intro x hx hm
          obtain ⟨n, hn, hp⟩ := (keyCall_paths hk).2 x hm
          rw [prefix_key_nameKey H hne hbk hx hp (hvis n hn), keyCall_followFlag hk]
          exact hroute n hn
        have hnm2 : ∀ n p, c2 ≠ .mkdirAll n p := by
          intro n p e
          subst e
          cases hk
          exact hnm _ _ rfl
        exact (osCall_sameL hbk hw1 ha hv hnm2 hr2 (hrm _ hk)).2

/-- the emptiness tests of `Remove` from the presence relation (no well-formedness beyond `dom`) -/
theorem removeOK_of_sameHP (hbk : PKey bk) {m1 m2 : MFS} (hs1 : DomSup m1) (hs2 : DomSup m2)
    (ha : Agr (Vis bk hks) m1 m2) (he : SameHP bk hks m1 m2) {c2 : Call} (hk : VisCall bk hks c2) :
    RemoveOK bk m1 m2 c2 := by
  intro x e hx _
  cases hk with
  | remove x' hx' hv =>
    have e' : kp (bk ++ x') = kp (bk ++ x) := by injection e
    have := List.append_cancel_left (kp_inj (hbk.append hx') (hbk.append hx) e')
    subst this
    exact hasChildren_vis hs1 hs2 ha he (vis_key hv)
  | _ => cases e

/-! ### through HiddenFS -/

theorem translate_delegated {c c1 : Call} (h : translate hs c = .ok c1) : c1 = hiddenDelegated c := by
  cases c <;> simp only [translate, bind, Except.bind, pure, Except.pure] at h <;>
    (repeat' split at h) <;> first | (cases h; done) | (cases h; rfl)

theorem delegated_facts (c : Call) :
    (hiddenDelegated c).accessPaths = c.accessPaths ∧ followFlag (hiddenDelegated c) = followFlag c ∧
    ((∀ n p, c ≠ .mkdirAll n p) → ∀ n p, hiddenDelegated c ≠ .mkdirAll n p) := by
  cases c <;> first
    | exact ⟨rfl, rfl, fun h => h⟩
    | exact ⟨rfl, by simp only [hiddenDelegated, followFlag]; decide, fun _ _ _ e => by cases e⟩

theorem openFile_plainDom {m : MFS} (hpd : PlainDom m) {K : Key} {t : Path} (hK : PKey K) (flag perm : Nat)
    (hN : NC m K (namei m t (!(hasFlag flag O_CREATE && hasFlag flag O_EXCL)))) :
    PlainDom (m.openFile t flag perm).1 := by
  refine ⟨?_, ds_openFile hpd.ds t flag perm⟩
  have hset : ∀ (v : Option Node) k n, (m.set K v).get k = some n → PKey k := by
    intro v k n h
    rcases set_get_some h with ⟨rfl, _⟩ | ⟨_, h'⟩
    · exact hK
    · exact hpd.pkey k n h'
  have htouch : ∀ (m' : MFS) (P : Key), (∀ k n, m'.get k = some n → PKey k) →
      ∀ k n, (m'.touchDir P).get k = some n → PKey k := by
    intro m' P hm' k n h
    rcases touchDir_cases m' P with ⟨mt, hk', e⟩ | e
    · rw [e] at h
      rcases set_get_some h with ⟨rfl, _⟩ | ⟨_, h'⟩
      · exact hm' _ _ hk'
      · exact hm' k n h'
    · rw [e] at h; exact hm' k n h
  unfold MFS.openFile
  simp only
  rcases hN with ⟨n, hn, hr⟩ | ⟨hne, mt, hn, hp, hr⟩ | ⟨e, hr⟩
  · rw [hr]
    simp only
    split
    · exact hpd.pkey
    · cases n with
      | dir mt => simp only; split <;> exact hpd.pkey
      | link tg mt => exact hpd.pkey
      | file c mt =>
        simp only
        split
        · exact hset _
        · exact hpd.pkey
  · rw [hr]
    simp only
    split
    · exact hpd.pkey
    · rw [dropLast_append_getLast' hne]
      exact htouch _ _ (hset _)
  · rw [hr]; exact hpd.pkey

variable {hp : List Path}

/-- a handle returned by HiddenFS over `PrefixFS(kp bk)` for a name reached without crossing a symlink:
its key is the visible key the name spells; the disk after the call still has plain names -/
theorem hidden_handle_facts_L (H : HidKeys (HiddenFS.mk hp) hks) (hne : hks ≠ []) (hbk : PKey bk) {m : MFS}
    (hw : WFL m) {c : Call} (hnra : ∀ n, c ≠ .removeAll n)
    (hroute : ∀ n ∈ c.accessPaths, RouteOK m (bk ++ nameKey n) (followFlag c)) {h : Handle}
    (hr : ((hiddenFS hp (prefixFS (kp bk) osfs)).call m c).2 = .ok (.handle h)) :
    (∃ x, PKey x ∧ ¬ HidK hks x ∧ h.key = bk ++ x ∧ h.lname ≠ [] ∧ clean h.lname = kp x) ∧
    PlainDom ((hiddenFS hp (prefixFS (kp bk) osfs)).call m c).1 := by
  rw [hiddenFS_call_gen hp _ m c hnra] at hr ⊢
  cases htr : translate (HiddenFS.mk hp) c with
  | error e => rw [htr] at hr; cases hr
  | ok c1 =>
    rw [htr] at hr
    simp only at hr ⊢
    obtain ⟨hvis, _, _⟩ := translate_ok_visible htr
    have hprim := translate_primary htr
    have hd := translate_delegated htr
    obtain ⟨hpa, hff, _⟩ := delegated_facts c
    rw [← hd] at hpa hff
    cases hpr : ((prefixFS (kp bk) osfs).call m c1).2 with
    | error e => rw [hpr] at hr; cases hr
    | ok ret =>
      rw [hpr] at hr
      cases ret with
      | unit => cases hr
      | info i => cases hr
      | str s => cases hr
      | handle h0 =>
        simp only [Except.map, hiddenPost, Except.ok.injEq, Ret.handle.injEq] at hr
        subst hr
        simp only
        rcases prefix_call_cases hbk m c1 with ⟨e, he, hc⟩ | ⟨c2, hk, he, hc⟩
        · rw [hc] at hpr; cases hpr
        · rw [hc] at hpr ⊢
          obtain ⟨h00, h1, h2⟩ := map_post_ok_handle hpr
          rw [← h2, ← hprim]
          have key : ∀ (n : Path) (x : Key) (fl pm : Nat), PKey x → n ∈ c1.accessPaths →
              PrefixFS.prefixPath (kp bk) n = .ok (kp (bk ++ x)) →
              followFlag c1 = (!(hasFlag fl O_CREATE && hasFlag fl O_EXCL)) →
              (m.openFile (kp (bk ++ x)) fl pm).2.map Ret.handle = .ok (.handle h00) →
              (∃ x, PKey x ∧ ¬ HidK hks x ∧ h00.key = bk ++ x ∧ n ≠ [] ∧ clean n = kp x) ∧
              PlainDom (m.openFile (kp (bk ++ x)) fl pm).1 := by
            intro n x fl pm hx hn hpp hfl hh
            have hxn := prefix_key_nameKey H hne hbk hx hpp (hvis n hn)
            have hro := hroute n (hpa ▸ hn)
            rw [← hxn, ← hff, hfl] at hro
            have hN := nc_any hw (hbk.append hx) hro.1 (TextOf.kp (bk ++ x)) _ hro.2
            obtain ⟨y, hy, hcy, hvy⟩ := visible_key H hne (hvis n hn)
            have hxy := prefixPath_key_eq hbk hx hy hcy hpp
            subst hxy
            refine ⟨⟨x, hx, hvy, ?_, ?_, hcy⟩, openFile_plainDom (.of_wfl hw) (hbk.append hx) fl pm hN⟩
            · cases ho : (m.openFile (kp (bk ++ x)) fl pm).2 with
              | error e => rw [ho] at hh; cases hh
              | ok h' =>
                rw [ho] at hh
                simp only [Except.map, Except.ok.injEq, Ret.handle.injEq] at hh
                rw [← hh]
                exact openFile_handle_key hN ho
            · intro e
              rw [e] at hcy
              have : clean ([] : Path) = ['.'] := by decide
              rw [this] at hcy
              simp [kp] at hcy
          cases hk with
          | create n x hx hpp => exact key n x _ _ hx (by simp [Call.accessPaths]) hpp (by simp only [followFlag]; decide) h1
          | open_ n x hx hpp =>
            exact key n x _ _ hx (by simp [Call.accessPaths]) hpp (by simp only [followFlag]; decide) h1
          | openFile n f p x hx hpp => exact key n x _ _ hx (by simp [Call.accessPaths]) hpp rfl h1
          | stat n x hx _ =>
            exfalso
            simp only [osCall] at h1
            cases hs : m.stat (kp (bk ++ x)) <;> (rw [hs] at h1; cases h1)
          | lstat n x hx _ =>
            exfalso
            simp only [osCall] at h1
            cases hs : m.lstat (kp (bk ++ x)) <;> (rw [hs] at h1; cases h1)
          | readlink n x hx _ =>
            exfalso
            simp only [osCall] at h1
            cases hs : m.readlink (kp (bk ++ x)) <;> (rw [hs] at h1; cases h1)
          | mkdir n p x hx _ => exact absurd h1 (liftU_not_handle _ _)
          | mkdirAll n p x hx _ => exact absurd h1 (liftU_not_handle _ _)
          | remove n x hx _ => exact absurd h1 (liftU_not_handle _ _)
          | removeAll n x hx _ => exact absurd h1 (liftU_not_handle _ _)
          | rename o n x y hx hy _ _ => exact absurd h1 (liftU_not_handle _ _)
          | chmod n md x hx _ => exact absurd h1 (liftU_not_handle _ _)
          | chown n u g x hx _ => exact absurd h1 (liftU_not_handle _ _)
          | chtimes n a t x hx _ => exact absurd h1 (liftU_not_handle _ _)
          | symlink o n o' x hx _ => exact absurd h1 (liftU_not_handle _ _)
          | lchown n u g x hx _ => exact absurd h1 (liftU_not_handle _ _)

/-- one call through HiddenFS — any method but `MkdirAll`/`RemoveAll`, any names — on two disks with
symlinks anywhere that agree on the visible keys, when the route of every name of the call is free of
symlinks on the first disk (`RouteOK`) -/
theorem hidden_call_two_links (hbk : PKey bk) (hpk : ∀ h ∈ hks, PKey h) (hne : hks ≠ []) {m1 m2 : MFS}
    (hw1 : WFL m1) (hw2 : WFL m2) (ha : Agr (Vis bk hks) m1 m2) (he : SameHP bk hks m1 m2) (c : Call)
    (hnra : ∀ n, c ≠ .removeAll n) (hnm : ∀ n p, c ≠ .mkdirAll n p)
    (hroute : ∀ n ∈ c.accessPaths, RouteOK m1 (bk ++ nameKey n) (followFlag c)) :
    ((hfs bk hks).call m1 c).2 = ((hfs bk hks).call m2 c).2 ∧
    throughOf bk hks ((hfs bk hks).call m1 c) = throughOf bk hks ((hfs bk hks).call m2 c) ∧
    Agr (Vis bk hks) ((hfs bk hks).call m1 c).1 ((hfs bk hks).call m2 c).1 ∧
    SameHP bk hks ((hfs bk hks).call m1 c).1 ((hfs bk hks).call m2 c).1 ∧
    HidSame bk hks m1 ((hfs bk hks).call m1 c).1 ∧ HidSame bk hks m2 ((hfs bk hks).call m2 c).1 := by
  have H := hidKeys_mk hpk
  have g1 := hiddenFS_call_gen (hks.map kp) (prefixFS (kp bk) osfs) m1 c hnra
  have g2 := hiddenFS_call_gen (hks.map kp) (prefixFS (kp bk) osfs) m2 c hnra
  cases htr : translate (HiddenFS.mk (hks.map kp)) c with
  | error e =>
    rw [htr] at g1 g2
    simp only at g1 g2
    have g1' : (hfs bk hks).call m1 c = (m1, .error e) := g1
    have g2' : (hfs bk hks).call m2 c = (m2, .error e) := g2
    rw [g1', g2']
    exact ⟨rfl, rfl, ha, he, HidSame.refl _, HidSame.refl _⟩
  | ok c1 =>
    rw [htr] at g1 g2
    simp only at g1 g2
    have g1' : (hfs bk hks).call m1 c = (((prefixFS (kp bk) osfs).call m1 c1).1,
        ((prefixFS (kp bk) osfs).call m1 c1).2.map (hiddenPost c c1)) := g1
    have g2' : (hfs bk hks).call m2 c = (((prefixFS (kp bk) osfs).call m2 c1).1,
        ((prefixFS (kp bk) osfs).call m2 c1).2.map (hiddenPost c c1)) := g2
    obtain ⟨hvis, hanc, hnr⟩ := translate_ok_visible htr
    have hd := translate_delegated htr
    obtain ⟨hpa, hff, hnm1⟩ := delegated_facts c
    rw [← hd] at hpa hff hnm1
    have hroute1 : ∀ n ∈ c1.accessPaths, RouteOK m1 (bk ++ nameKey n) (followFlag c1) := by
      intro n hn
      rw [hff]
      exact hroute n (hpa ▸ hn)
    obtain ⟨e1, e2, e4, e5⟩ := visible_call_sameL H hne hbk hw1 hw2 ha c1 hvis hanc (hnr hnra) (hnm1 hnm) hroute1
      (fun c2 hk => removeOK_of_sameHP hbk (PlainDom.of_wfl hw1).ds (PlainDom.of_wfl hw2).ds ha he
        (visCall_of_keyCall H hne hbk hk hvis hanc (hnr hnra)))
    have hres : ((hfs bk hks).call m1 c).2 = ((hfs bk hks).call m2 c).2 := by
      rw [g1', g2']; simp only; rw [e1]
    have hag : Agr (Vis bk hks) ((hfs bk hks).call m1 c).1 ((hfs bk hks).call m2 c).1 := by
      rw [g1', g2']; exact e2
    have u1 : HidSame bk hks m1 ((hfs bk hks).call m1 c).1 := by rw [g1']; exact e4
    have u2 : HidSame bk hks m2 ((hfs bk hks).call m2 c).1 := by rw [g2']; exact e5
    refine ⟨hres, ?_, hag, he.of_same u1 u2, u1, u2⟩
    -- reads through a returned handle
    unfold throughOf
    rw [← hres]
    cases hr : ((hfs bk hks).call m1 c).2 with
    | error e => rfl
    | ok ret =>
      cases ret with
      | unit => rfl
      | info i => rfl
      | str t => rfl
      | handle h =>
        simp only
        have hvk : ∀ n ∈ c.accessPaths, ¬ HidK hks (nameKey n) := by
          intro n hn
          have hv' := hvis n (hpa ▸ hn)
          obtain ⟨hy, hc⟩ := nameKey_abs (visible_abs H hne hv')
          obtain ⟨y, hy', hc', hnh⟩ := visible_key H hne hv'
          have : y = nameKey n := kp_inj hy' hy (hc'.symm.trans hc)
          exact this ▸ hnh
        have hroute2 : ∀ n ∈ c.accessPaths, RouteOK m2 (bk ++ nameKey n) (followFlag c) :=
          fun n hn => routeOK_transfer ha (hvk n hn) (hroute n hn)
        obtain ⟨⟨x, hx, hvx, hk, hln, hcl⟩, pd1⟩ := hidden_handle_facts_L H hne hbk hw1 hnra hroute hr
        obtain ⟨_, pd2⟩ := hidden_handle_facts_L H hne hbk hw2 hnra hroute2 (hres ▸ hr)
        exact congrArg some (hidden_through_same (hp := hks.map kp) H pd1 pd2 hag hx hvx hk hln hcl)

end
end HO
end BFS
