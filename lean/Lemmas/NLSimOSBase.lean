import Lemmas.NSimOSFwd
import Lemmas.LSimOS
import Lemmas.NLSim
import Lemmas.NLHidRA
/-!
  Lemmas/NLSimOSBase.lean — the nested (README) layering over the OS model, for disks with
  **symlinks as leaves**: definitions (`NLGood`, `nlview`, `NLLinkOK`) and how the two views are
  read off the view of the inner filesystem `PrefixFS (kp bk) osfs`.

  `N.nestedCfg bk hk = NewWithFS (PrefixFS (kp bk) osfs) (kp hk)` (Lemmas/NSimOSBase.lean):
  * base   = `HiddenFS [kp hk]` over the inner filesystem: the tree below `bk` with the subtree at `hk`
    masked; a symlink shows with the target text the inner `PrefixFS` reports (HiddenFS.Readlink adds
    nothing);
  * backup = `PrefixFS (kp hk)` over the inner filesystem: the subtree at `bk ++ hk`; a symlink shows
    with the text of the inner `PrefixFS` passed once more through `PrefixFS (kp hk)`'s
    `readlinkPost` (`relink`).
  The inner filesystem is the base side of `osCfg bk dd` for an auxiliary directory `dd` outside
  `bk`; its laws are those of `L.osSimL bk dd` (Lemmas/LSimOSLaws*.lean).  The shape of the calls
  (`N.Fwd`, `N.Refused`, …) is that of Lemmas/NSimOSFwd.lean.
-/
namespace BFS.NL
open N HiddenFS

section
variable {bk hk dd : Key}

/-! ### views -/

/-- the inner view (below `bk`, targets as the inner `PrefixFS` reports them) -/
abbrev iv (bk dd : Key) (m : MFS) : View := L.osViewL bk dd .base m

theorem iv_eq (m : MFS) (K : Key) : iv bk dd m K = (m.get (bk ++ K)).map (L.eraseV (kp bk)) := rfl

/-- a symlink's text as reported through one more `PrefixFS pre` -/
def relink (pre : Path) : Node → Node
  | .link t mt => .link (PrefixFS.readlinkPost pre t) mt
  | n => n

/-- the node transformation of a side in front of the inner view -/
def rl (hk : Key) : Side → Node → Node
  | .base => id
  | .backup => relink (kp hk)

/-- the text transformation of a side -/
def rlt (hk : Key) : Side → Path → Path
  | .base => id
  | .backup => PrefixFS.readlinkPost (kp hk)

/-- base: the node at `bk ++ k` unless `k` is at or below the hidden location;
backup: the node at `bk ++ hk ++ k` -/
def nlview (bk hk : Key) : Side → MFS → View
  | .base, m => fun k => if hk <+: k then none else (m.get (bk ++ k)).map (L.eraseV (kp bk))
  | .backup, m => fun k => ((m.get (bk ++ (hk ++ k))).map (L.eraseV (kp bk))).map (relink (kp hk))

/-- well-formed disks: as for the disjoint layering with symlinks as leaves (roots `bk`, `dd`), and
the backup location is a directory -/
structure NLGood (bk hk dd : Key) (m : MFS) : Prop where
  os : L.OSGoodL bk dd m
  loc : ∃ mt, m.get (bk ++ hk) = some (.dir mt)

theorem NLGood.os2 {m : MFS} (hg : NLGood bk hk dd m) : L.OSGoodL (bk ++ hk) dd m :=
  ⟨hg.os.root, hg.os.pkey, hg.os.dom, hg.os.mode, hg.os.parent, hg.loc, hg.os.kdir⟩

/-- the admission check of a side for `Symlink(t, kp k)`.
base: the key is visible, `HiddenFS`'s lexical test of the effective target passes, and the inner
`PrefixFS (kp bk)` admits the target;
backup: `PrefixFS (kp hk)` admits the target, and the inner `PrefixFS (kp bk)` admits what it hands on. -/
def NLLinkOK (bk hk dd : Key) : Side → Key → Path → Prop
  | .base, k, t => ¬ hk <+: k ∧
      isHidden (if isAbs t then t else join (dir (kp k)) t) (nhs hk) = .ok false ∧
      L.osLinkOK bk dd .base k t
  | .backup, k, t =>
      (isAbs t = true ∨ (relInside (kp hk) (join (dir (kp (hk ++ k))) t)).isSome = true) ∧
      L.osLinkOK bk dd .base (hk ++ k) (if isAbs t then join (kp hk) (clean t) else t)

theorem nlview_base_vis {m : MFS} {k : Key} (hv : ¬ hk <+: k) :
    nlview bk hk .base m k = iv bk dd m k := by
  simp [nlview, hv, iv_eq]

theorem nlview_base_hid {m : MFS} {k : Key} (hh : hk <+: k) : nlview bk hk .base m k = none := by
  simp [nlview, hh]

theorem nlview_backup {m : MFS} {k : Key} :
    nlview bk hk .backup m k = (iv bk dd m (hk ++ k)).map (relink (kp hk)) := rfl

/-- at a visible key a side shows what the inner filesystem shows at `off ++ k`, link texts passed
through the side's `Readlink` post-processing -/
theorem nlview_eq {m : MFS} {s : Side} {k : Key} (hv : ¬ NHid hk s k) :
    nlview bk hk s m k = (iv bk dd m (off hk s ++ k)).map (rl hk s) := by
  cases s with
  | base =>
    rw [nlview_base_vis (dd := dd) hv]
    show _ = Option.map id _
    simp [off]
  | backup => rfl

theorem n_hid_none {m : MFS} {s : Side} {k : Key} (hh : NHid hk s k) : nlview bk hk s m k = none := by
  cases s with
  | base => exact nlview_base_hid hh
  | backup => exact hh.elim

/-! ### `rl` -/

theorem rl_file {s : Side} {n : Node} {c mt} : rl hk s n = .file c mt ↔ n = .file c mt := by
  cases s <;> cases n <;> simp [rl, relink]

theorem rl_dir {s : Side} {n : Node} {mt} : rl hk s n = .dir mt ↔ n = .dir mt := by
  cases s <;> cases n <;> simp [rl, relink]

theorem rl_link {s : Side} {n : Node} {t mt} (h : rl hk s n = .link t mt) :
    ∃ t0, n = .link t0 mt ∧ t = rlt hk s t0 := by
  cases s with
  | base => exact ⟨t, h, rfl⟩
  | backup =>
    cases n with
    | link t0 m0 =>
      simp only [rl, relink, Node.link.injEq] at h
      exact ⟨t0, by rw [h.2], h.1.symm⟩
    | file c m0 => simp [rl, relink] at h
    | dir m0 => simp [rl, relink] at h

theorem rl_link' (s : Side) (t0 : Path) (mt : Meta) : rl hk s (.link t0 mt) = .link (rlt hk s t0) mt := by
  cases s <;> rfl

theorem rl_nonlink {s : Side} {n : Node} (h : n.isLink = false) : rl hk s n = n := by
  cases s with
  | base => rfl
  | backup => cases n <;> first | rfl | cases h

theorem rl_isLink (s : Side) (n : Node) : (rl hk s n).isLink = n.isLink := by
  cases s <;> cases n <;> rfl

theorem rl_meta (s : Side) (n : Node) : (rl hk s n).meta = n.meta := by
  cases s <;> cases n <;> rfl

theorem rl_kind (s : Side) (n : Node) : (rl hk s n).kind = n.kind := by
  cases s <;> cases n <;> rfl

theorem rl_isFile (s : Side) (n : Node) : (rl hk s n).isFile = n.isFile := by
  cases s <;> cases n <;> rfl

theorem infoForL_rl {s : Side} {i : Info} {n : Node} (h : L.InfoForL i n) : InfoForL i (rl hk s n) := by
  unfold InfoForL
  unfold L.InfoForL at h
  rw [rl_kind, rl_meta, rl_isFile]
  exact h

/-! ### reading the nested views off the inner view -/

variable {s : Side} {m m' : MFS} {k : Key}

theorem nl_some {n : Node} (h : nlview bk hk s m k = some n) :
    ¬ NHid hk s k ∧ ∃ n0, iv bk dd m (off hk s ++ k) = some n0 ∧ rl hk s n0 = n := by
  by_cases hh : NHid hk s k
  · rw [n_hid_none hh] at h; cases h
  · refine ⟨hh, ?_⟩
    rw [nlview_eq (dd := dd) hh] at h
    cases hi : iv bk dd m (off hk s ++ k) with
    | none => rw [hi] at h; cases h
    | some n0 =>
      rw [hi] at h
      simp only [Option.map_some, Option.some.injEq] at h
      exact ⟨n0, rfl, h⟩

theorem nl_none_vis (hv : ¬ NHid hk s k) (h : nlview bk hk s m k = none) :
    iv bk dd m (off hk s ++ k) = none := by
  rw [nlview_eq (dd := dd) hv] at h
  cases hi : iv bk dd m (off hk s ++ k) with
  | none => rfl
  | some n0 => rw [hi] at h; cases h

theorem nl_ne_none (h : nlview bk hk s m k ≠ none) :
    ¬ NHid hk s k ∧ iv bk dd m (off hk s ++ k) ≠ none := by
  by_cases hh : NHid hk s k
  · exact absurd (n_hid_none hh) h
  · refine ⟨hh, ?_⟩
    intro e
    apply h
    rw [nlview_eq (dd := dd) hh, e]
    rfl

theorem nl_of_inner {n0 : Node} (hv : ¬ NHid hk s k) (h : iv bk dd m (off hk s ++ k) = some n0) :
    nlview bk hk s m k = some (rl hk s n0) := by
  rw [nlview_eq (dd := dd) hv, h]
  rfl

theorem nl_of_inner_none (hv : ¬ NHid hk s k) (h : iv bk dd m (off hk s ++ k) = none) :
    nlview bk hk s m k = none := by
  rw [nlview_eq (dd := dd) hv, h]
  rfl

theorem nl_file {c : String} {mt : Meta} (h : nlview bk hk s m k = some (.file c mt)) :
    ¬ NHid hk s k ∧ iv bk dd m (off hk s ++ k) = some (.file c mt) := by
  obtain ⟨hv, n0, h0, e⟩ := nl_some (dd := dd) h
  rw [rl_file] at e
  subst e
  exact ⟨hv, h0⟩

theorem nl_isFileAt (h : (nlview bk hk s m).isFileAt k) :
    ¬ NHid hk s k ∧ (iv bk dd m).isFileAt (off hk s ++ k) := by
  obtain ⟨c, mt, h⟩ := h
  obtain ⟨a, b⟩ := nl_file (dd := dd) h
  exact ⟨a, c, mt, b⟩

theorem nl_dir {mt : Meta} (h : nlview bk hk s m k = some (.dir mt)) :
    ¬ NHid hk s k ∧ iv bk dd m (off hk s ++ k) = some (.dir mt) := by
  obtain ⟨hv, n0, h0, e⟩ := nl_some (dd := dd) h
  rw [rl_dir] at e
  subst e
  exact ⟨hv, h0⟩

theorem nl_isDirAt (h : (nlview bk hk s m).isDirAt k) :
    ¬ NHid hk s k ∧ (iv bk dd m).isDirAt (off hk s ++ k) := by
  obtain ⟨mt, h⟩ := h
  obtain ⟨a, b⟩ := nl_dir (dd := dd) h
  exact ⟨a, mt, b⟩

theorem nl_isDirAt_of (hv : ¬ NHid hk s k) (h : (iv bk dd m).isDirAt (off hk s ++ k)) :
    (nlview bk hk s m).isDirAt k := by
  obtain ⟨mt, h⟩ := h
  exact ⟨mt, by rw [nl_of_inner hv h, rl_nonlink rfl]⟩

theorem nl_link {t : Path} {mt : Meta} (h : nlview bk hk s m k = some (.link t mt)) :
    ¬ NHid hk s k ∧ ∃ t0, iv bk dd m (off hk s ++ k) = some (.link t0 mt) ∧ t = rlt hk s t0 := by
  obtain ⟨hv, n0, h0, e⟩ := nl_some (dd := dd) h
  obtain ⟨t0, rfl, ht⟩ := rl_link e
  exact ⟨hv, t0, h0, ht⟩

theorem nl_isLinkAt (h : isLinkAt (nlview bk hk s m) k) :
    ¬ NHid hk s k ∧ L.isLinkAt (iv bk dd m) (off hk s ++ k) := by
  obtain ⟨t, mt, h⟩ := h
  obtain ⟨hv, t0, h0, _⟩ := nl_link (dd := dd) h
  exact ⟨hv, t0, mt, h0⟩

theorem nl_isLinkAt_of (hv : ¬ NHid hk s k) (h : L.isLinkAt (iv bk dd m) (off hk s ++ k)) :
    isLinkAt (nlview bk hk s m) k := by
  obtain ⟨t0, mt, h⟩ := h
  exact ⟨rlt hk s t0, mt, by rw [nl_of_inner hv h, rl_link']⟩

/-- a node that is not a symlink shows as itself -/
theorem nl_nonlink {n : Node} (h : nlview bk hk s m k = some n) (hl : n.isLink = false) :
    ¬ NHid hk s k ∧ iv bk dd m (off hk s ++ k) = some n := by
  obtain ⟨hv, n0, h0, e⟩ := nl_some (dd := dd) h
  have : n0.isLink = false := by rw [← rl_isLink (hk := hk) s n0, e]; exact hl
  rw [rl_nonlink this] at e
  subst e
  exact ⟨hv, h0⟩

theorem nl_of_inner_nonlink {n : Node} (hv : ¬ NHid hk s k) (h : iv bk dd m (off hk s ++ k) = some n)
    (hl : n.isLink = false) : nlview bk hk s m k = some n := by
  rw [nl_of_inner hv h, rl_nonlink hl]

/-! ### prefixes and visibility -/

theorem nhid_nil (h : NRoots bk hk dd) : ¬ NHid hk s [] := by
  cases s with
  | base => intro e; exact h.nh (List.prefix_nil.mp e)
  | backup => exact id

theorem nhid_of_prefix {a : Key} (hv : ¬ NHid hk s k) (ha : a <+: k) : ¬ NHid hk s a := by
  cases s with
  | base => exact vis_of_prefix hv ha
  | backup => exact id

theorem nhid_dropLast (hv : ¬ NHid hk s k) : ¬ NHid hk s k.dropLast :=
  nhid_of_prefix hv (List.dropLast_prefix k)

theorem off_ne (hne : k ≠ []) : off hk s ++ k ≠ [] := by simp [hne]

theorem off_prefix {j : Key} : off hk s ++ j <+: off hk s ++ k ↔ j <+: k := List.prefix_append_right_inj _

/-- every prefix of the backup location is a directory of the inner view -/
theorem inner_dir_of_prefix_loc (hg : NLGood bk hk dd m) {a : Key} (ha : a <+: hk) : (iv bk dd m).isDirAt a := by
  obtain ⟨mt, hloc⟩ := hg.loc
  by_cases e : a = hk
  · subst e
    exact L.osViewL_isDirAt_of (bk := bk) (kk := dd) (s := .base) hloc
  · have hpre : bk ++ a <+: bk ++ hk := (List.prefix_append_right_inj _).mpr ha
    have hne : bk ++ a ≠ bk ++ hk := fun e' => e (List.append_cancel_left e')
    obtain ⟨mt', hd⟩ := hg.os.ancestor hloc hpre hne
    exact L.osViewL_isDirAt_of (bk := bk) (kk := dd) (s := .base) hd

theorem l_not_link_of_dir {v : View} {a : Key} (hd : v.isDirAt a) : ¬ L.isLinkAt v a := by
  rintro ⟨t, mt, h⟩
  obtain ⟨md, hd⟩ := hd
  rw [hd] at h; cases h

/-- "no proper ancestor is a symlink", from a side's view to the inner view -/
theorem nl_noLinkAnc (hg : NLGood bk hk dd m) (hv : ¬ NHid hk s k)
    (hna : NoLinkAnc (nlview bk hk s m) k) : L.NoLinkAnc (iv bk dd m) (off hk s ++ k) := by
  intro a ha hne hl
  cases s with
  | base =>
    have ha' : a <+: k := ha
    exact hna a ha' hne (nl_isLinkAt_of (s := .base) (nhid_of_prefix (s := .base) hv ha') hl)
  | backup =>
    rcases List.prefix_or_prefix_of_prefix ha (List.prefix_append hk k) with h1 | h1
    · exact l_not_link_of_dir (inner_dir_of_prefix_loc hg h1) hl
    · obtain ⟨a', rfl⟩ := h1
      have ha' : a' <+: k := (List.prefix_append_right_inj _).mp ha
      have hne' : a' ≠ k := fun e => hne (by rw [e]; rfl)
      exact hna a' ha' hne' (nl_isLinkAt_of (s := .backup) id hl)

theorem nl_accF (hg : NLGood bk hk dd m) (hv : ¬ NHid hk s k)
    (hacc : AccF (nlview bk hk s m) k) : L.AccF (iv bk dd m) (off hk s ++ k) :=
  ⟨nl_noLinkAnc hg hv hacc.1, fun hl => hacc.2 (nl_isLinkAt_of hv hl)⟩

/-- no symlink appeared in the inner view: none appeared in either side's view -/
theorem nl_linkMono (hl : L.LinkMono (iv bk dd m) (iv bk dd m')) (s : Side) :
    LinkMono (nlview bk hk s m) (nlview bk hk s m') := by
  intro j t mt' hv
  obtain ⟨hvis, t0, h0, ht⟩ := nl_link (dd := dd) hv
  obtain ⟨mt, h1⟩ := hl _ t0 mt' h0
  exact ⟨mt, by rw [nl_of_inner hvis h1, rl_link', ht]⟩

theorem linkMono_refl (v : View) : LinkMono v v := fun _ _ mt h => ⟨mt, h⟩

/-! ### frames -/

theorem eraseV_eq_dir {pre : Path} {a b : Option Node} (h : a.map (L.eraseV pre) = b.map (L.eraseV pre))
    (hb : ∃ mt, b = some (.dir mt)) : ∃ mt, a = some (.dir mt) := by
  obtain ⟨mt, rfl⟩ := hb
  cases a with
  | none => cases h
  | some n =>
    simp only [Option.map_some, Option.some.injEq] at h
    obtain ⟨m0, rfl, _⟩ := L.eraseV_dir h
    exact ⟨m0, rfl⟩

/-- a frame of the inner filesystem off the keys `KI`, all on side `s`, as a frame of side `s` -/
theorem transfer (hg : NLGood bk hk dd m) (g1 : L.OSGoodL bk dd m') {KI : Key → Prop}
    (hKI : ∀ j, KI j → OnSide hk s j)
    (hloc : s = .backup → ∃ mt, m'.get (bk ++ hk) = some (.dir mt))
    (f : ∀ j, ¬ KI j → iv bk dd m' j = iv bk dd m j) :
    NLGood bk hk dd m' ∧ nlview bk hk s.other m' = nlview bk hk s.other m ∧
      ∀ j, ¬ KI (off hk s ++ j) → nlview bk hk s m' j = nlview bk hk s m j := by
  cases s with
  | base =>
    refine ⟨⟨g1, ?_⟩, ?_, ?_⟩
    · have : ¬ KI hk := fun hK => hKI hk hK List.prefix_rfl
      exact eraseV_eq_dir (f hk this) hg.loc
    · funext x
      show nlview bk hk .backup m' x = nlview bk hk .backup m x
      rw [nlview_backup (dd := dd), nlview_backup (dd := dd), f (hk ++ x) (fun hK => hKI _ hK (List.prefix_append _ _))]
    · intro j hj
      by_cases hh : hk <+: j
      · rw [nlview_base_hid hh, nlview_base_hid hh]
      · rw [nlview_base_vis (dd := dd) hh, nlview_base_vis (dd := dd) hh]
        exact f j hj
  | backup =>
    refine ⟨⟨g1, hloc rfl⟩, ?_, ?_⟩
    · funext x
      show nlview bk hk .base m' x = nlview bk hk .base m x
      by_cases hh : hk <+: x
      · rw [nlview_base_hid hh, nlview_base_hid hh]
      · rw [nlview_base_vis (dd := dd) hh, nlview_base_vis (dd := dd) hh]
        exact f x (fun hK => hh (hKI x hK))
    · intro j hj
      rw [nlview_backup (dd := dd), nlview_backup (dd := dd), f (hk ++ j) hj]

/-- the single-key form -/
theorem transfer1 (hg : NLGood bk hk dd m) (g1 : L.OSGoodL bk dd m') (hv : ¬ NHid hk s k)
    (hloc : s = .backup → ∃ mt, m'.get (bk ++ hk) = some (.dir mt))
    (f : ∀ j, j ≠ off hk s ++ k → iv bk dd m' j = iv bk dd m j) :
    NLGood bk hk dd m' ∧ nlview bk hk s.other m' = nlview bk hk s.other m ∧
      ∀ j, j ≠ k → nlview bk hk s m' j = nlview bk hk s m j := by
  obtain ⟨a, b, c⟩ := transfer (s := s) (KI := (· = off hk s ++ k)) hg g1
    (fun j hj => by subst hj; exact onSide_off hv) hloc f
  exact ⟨a, b, fun j hj => c j (fun e => hj (List.append_cancel_left e))⟩

theorem frame_refl (hg : NLGood bk hk dd m) (K : Key → Prop) :
    NLGood bk hk dd m ∧ nlview bk hk s.other m = nlview bk hk s.other m ∧
      (∀ j, ¬ K j → nlview bk hk s m j = nlview bk hk s m j) ∧
      LinkMono (nlview bk hk s m) (nlview bk hk s m) := ⟨hg, rfl, fun _ _ => rfl, linkMono_refl _⟩

/-! ### calls: results with infos -/

theorem fwd_info_of {c ci : Call} (hf : Fwd bk hk dd s c ci) {i : Info}
    (he : (inner bk dd).call m ci = (m', .ok (.info i))) :
    ∃ nm, ((nestedCfg bk hk).side s).call m c = (m', .ok (.info { i with name := nm })) := by
  obtain ⟨post, hp, hc⟩ := hf
  obtain ⟨nm, hi⟩ := hp.info i
  refine ⟨nm, ?_⟩
  rw [hc, he]
  simp only [Except.map, hi]

theorem infoForL_name {i : Info} {n : Node} (nm : Path) (h : InfoForL i n) : InfoForL { i with name := nm } n := h

end
end BFS.NL
