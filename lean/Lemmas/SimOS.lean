import Lemmas.SimOSLaws7
/-!
  Lemmas/SimOS.lean — the `Sim` contract discharged for the OS model behind two `PrefixFS` layers.

  `osCfg`, `osRoot`, `osView`, `OSGood` are defined in `Lemmas/SimOSBase.lean`; name resolution is in
  `Lemmas/SimOSWalk.lean`, the `PrefixFS` translation in `Lemmas/SimOSPrefix.lean`, preservation of
  `OSGood` in `Lemmas/SimOSGood.lean`, the laws one by one in `Lemmas/SimOSLaws1..7.lean`.  This file
  assembles the instance `osSim` and shows that `OSGood` holds of an ordinary disk (`osGood_example`).
-/
namespace BFS

def osSim (bk kk : Key) (hbk : PKey bk) (hkk : PKey kk) (hne1 : bk ≠ []) (hne2 : kk ≠ [])
    (hd1 : ¬ bk <+: kk) (hd2 : ¬ kk <+: bk) : Sim (osCfg bk kk) where
  G := OSGood bk kk
  view := osView bk kk
  H := fun s h k => h.key = osRoot bk kk s ++ k
  root_dir := fun hg => os_root_dir hg
  parent_dir := fun hg h hne => os_parent_dir hg h hne
  pkey := fun hg h => os_pkey hg h
  no_link := fun hg => os_no_link hg
  mode_lt := fun hg h => os_mode_lt hg h
  erased := fun hg h => os_erased hg h
  pure_lstat := fun h => os_pure_lstat ⟨hbk, hkk, hne1, hne2, hd1, hd2⟩ h
  pure_stat := fun h => os_pure_stat ⟨hbk, hkk, hne1, hne2, hd1, hd2⟩ h
  pure_readlink := fun h => os_pure_readlink ⟨hbk, hkk, hne1, hne2, hd1, hd2⟩ h
  pure_open := fun h => os_pure_open ⟨hbk, hkk, hne1, hne2, hd1, hd2⟩ h
  pure_openRO := fun h => os_pure_openRO ⟨hbk, hkk, hne1, hne2, hd1, hd2⟩ h
  openFile_flag := fun h => os_openFile_flag ⟨hbk, hkk, hne1, hne2, hd1, hd2⟩ h
  lstat_some := fun hg hk hv => os_lstat_some ⟨hbk, hkk, hne1, hne2, hd1, hd2⟩ hg hk hv
  lstat_none := fun hg hk hv => os_lstat_none ⟨hbk, hkk, hne1, hne2, hd1, hd2⟩ hg hk hv
  open_some := fun hg hk hv => os_open_some ⟨hbk, hkk, hne1, hne2, hd1, hd2⟩ hg hk hv
  open_handle := fun hg hk h => os_open_handle ⟨hbk, hkk, hne1, hne2, hd1, hd2⟩ hg hk h
  create_frame := fun hg hk h => os_create_frame ⟨hbk, hkk, hne1, hne2, hd1, hd2⟩ hg hk h
  openFile_frame := fun hg hk h => os_openFile_frame ⟨hbk, hkk, hne1, hne2, hd1, hd2⟩ hg hk h
  openW_file := fun hg hk hv => os_openW_file ⟨hbk, hkk, hne1, hne2, hd1, hd2⟩ hg hk hv
  openW_none := fun hg hk hv hp => os_openW_none ⟨hbk, hkk, hne1, hne2, hd1, hd2⟩ hg hk hv hp
  openW_post := fun hg hk h => os_openW_post ⟨hbk, hkk, hne1, hne2, hd1, hd2⟩ hg hk h
  hwrite_ro := fun ha => os_hwrite_ro ha
  hwrite_frame := fun hg hh he => os_hwrite_frame ⟨hbk, hkk, hne1, hne2, hd1, hd2⟩ hg hh he
  hwrite_file := fun _ hh ha hv => os_hwrite_file hh ha hv
  hread_file := fun _ hh ha hv => os_hread_file hh ha hv
  hstat_some := fun hg hh hv => os_hstat_some hg hh hv
  readdir_plain := fun hg _ he => os_readdir_plain hg he
  mkdir_frame := fun hg hk h => os_mkdir_frame ⟨hbk, hkk, hne1, hne2, hd1, hd2⟩ hg hk h
  mkdirAll_frame := fun hg hk h => os_mkdirAll_frame ⟨hbk, hkk, hne1, hne2, hd1, hd2⟩ hg hk h
  mkdirAll_ok := fun hg hk hp hv => os_mkdirAll_ok ⟨hbk, hkk, hne1, hne2, hd1, hd2⟩ hg hk hp hv
  remove_frame := fun hg hk hne h => os_remove_frame ⟨hbk, hkk, hne1, hne2, hd1, hd2⟩ hg hk hne h
  remove_ok := fun hg hk hne hv => os_remove_ok ⟨hbk, hkk, hne1, hne2, hd1, hd2⟩ hg hk hne hv
  removeAll_frame := fun hg hk hne h => os_removeAll_frame ⟨hbk, hkk, hne1, hne2, hd1, hd2⟩ hg hk hne h
  removeAll_ok := fun hg hk hne hv => os_removeAll_ok ⟨hbk, hkk, hne1, hne2, hd1, hd2⟩ hg hk hne hv
  rename_frame := fun hg hko hkn h => os_rename_frame ⟨hbk, hkk, hne1, hne2, hd1, hd2⟩ hg hko hkn h
  chmod_frame := fun hg hk h => os_chmod_frame ⟨hbk, hkk, hne1, hne2, hd1, hd2⟩ hg hk h
  chmod_some := fun hg hk hv => os_chmod_some ⟨hbk, hkk, hne1, hne2, hd1, hd2⟩ hg hk hv
  chown_frame := fun hg hk h => os_chown_frame ⟨hbk, hkk, hne1, hne2, hd1, hd2⟩ hg hk h
  chown_some := fun hg hk hv => os_chown_some ⟨hbk, hkk, hne1, hne2, hd1, hd2⟩ hg hk hv
  lchown_frame := fun hg hk h => os_lchown_frame ⟨hbk, hkk, hne1, hne2, hd1, hd2⟩ hg hk h
  chtimes_frame := fun hg hk h => os_chtimes_frame ⟨hbk, hkk, hne1, hne2, hd1, hd2⟩ hg hk h
  chtimes_file := fun hg hk hv => os_chtimes_file ⟨hbk, hkk, hne1, hne2, hd1, hd2⟩ hg hk hv
  chtimes_dir := fun hg hk hv => os_chtimes_dir ⟨hbk, hkk, hne1, hne2, hd1, hd2⟩ hg hk hv

/-! ### `OSGood` is satisfiable: an ordinary small disk -/

def exMeta : Meta := { mode := 0o755, uid := 0, gid := 0, mtime := .old 0 }

/-- `/`, `/b` (base root) with a file `/b/f` and a directory `/b/d`, `/k` (backup root) -/
def exDisk : MFS where
  get := fun k =>
    if k = [] then some (.dir exMeta)
    else if k = [['b']] then some (.dir exMeta)
    else if k = [['k']] then some (.dir exMeta)
    else if k = [['b'], ['f']] then some (.file "hello" { exMeta with mode := 0o644 })
    else if k = [['b'], ['d']] then some (.dir exMeta)
    else none
  dom := [[], [['b']], [['k']], [['b'], ['f']], [['b'], ['d']]]
  umask := 0o022

instance decPlain (n : Name) : Decidable (Plain n) := by unfold Plain; exact inferInstance
instance decPKey (k : Key) : Decidable (PKey k) := by unfold PKey; exact inferInstance

theorem exDisk_live {k : Key} {n : Node} (h : exDisk.get k = some n) :
    (k = [] ∧ n = .dir exMeta) ∨ (k = [['b']] ∧ n = .dir exMeta) ∨ (k = [['k']] ∧ n = .dir exMeta) ∨
    (k = [['b'], ['f']] ∧ n = .file "hello" { exMeta with mode := 0o644 }) ∨ (k = [['b'], ['d']] ∧ n = .dir exMeta) := by
  simp only [exDisk] at h
  split at h
  · cases h; exact Or.inl ⟨‹_›, rfl⟩
  split at h
  · cases h; exact Or.inr (Or.inl ⟨‹_›, rfl⟩)
  split at h
  · cases h; exact Or.inr (Or.inr (Or.inl ⟨‹_›, rfl⟩))
  split at h
  · cases h; exact Or.inr (Or.inr (Or.inr (Or.inl ⟨‹_›, rfl⟩)))
  split at h
  · cases h; exact Or.inr (Or.inr (Or.inr (Or.inr ⟨‹_›, rfl⟩)))
  · cases h

theorem osGood_example : OSGood [['b']] [['k']] exDisk := by
  refine ⟨⟨_, rfl⟩, ?_, ?_, ?_, ?_, ⟨_, rfl⟩, ⟨_, rfl⟩, ?_⟩
  · intro k n h
    rcases exDisk_live h with ⟨rfl, _⟩ | ⟨rfl, _⟩ | ⟨rfl, _⟩ | ⟨rfl, _⟩ | ⟨rfl, _⟩ <;> decide
  · intro k n h
    rcases exDisk_live h with ⟨rfl, _⟩ | ⟨rfl, _⟩ | ⟨rfl, _⟩ | ⟨rfl, _⟩ | ⟨rfl, _⟩ <;> decide
  · intro k n h
    rcases exDisk_live h with ⟨_, rfl⟩ | ⟨_, rfl⟩ | ⟨_, rfl⟩ | ⟨_, rfl⟩ | ⟨_, rfl⟩ <;> decide
  · intro k n h hne
    rcases exDisk_live h with ⟨rfl, _⟩ | ⟨rfl, _⟩ | ⟨rfl, _⟩ | ⟨rfl, _⟩ | ⟨rfl, _⟩
    · exact absurd rfl hne
    all_goals exact ⟨_, rfl⟩
  · intro k t mt _ h
    rcases exDisk_live h with ⟨_, e⟩ | ⟨_, e⟩ | ⟨_, e⟩ | ⟨_, e⟩ | ⟨_, e⟩ <;> cases e

/-- the roots of the example satisfy the hypotheses of `osSim` -/
def osSim_example : Sim (osCfg [['b']] [['k']]) :=
  osSim [['b']] [['k']] (by decide) (by decide) (by decide) (by decide) (by decide) (by decide)

example : (osSim_example).G exDisk := osGood_example

end BFS
