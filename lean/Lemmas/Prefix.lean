import Lemmas.Rel
import Model.Layers
/-! Lemmas about `PrefixFS.prefixPath`. -/
namespace BFS
open PrefixFS

theorem prefixPath_ok {pre n p : Path} (h : prefixPath pre n = .ok p) :
    p = join pre (clean n) ∧ Within pre p := by
  unfold prefixPath at h
  simp only at h
  split at h
  · cases h
  · rename_i r hr
    cases h
    exact ⟨rfl, within_of_relInside hr⟩

theorem prefixPath_error {pre n : Path} {e : Err} (h : prefixPath pre n = .error e) : e = .perm := by
  unfold prefixPath at h
  simp only at h
  split at h
  · cases h; rfl
  · cases h

theorem prefixPath_of_within {pre n : Path} (h : Within pre (join pre (clean n))) :
    prefixPath pre n = .ok (join pre (clean n)) := by
  unfold prefixPath
  simp only [relInside_of_within h]

theorem isRooted_render {c : CPath} (h : c.NF) : isRooted c.render = c.rooted := by
  unfold CPath.render
  cases hr : c.rooted with
  | true => simp [isRooted]
  | false =>
    simp only [Bool.false_eq_true, if_false]
    split
    · decide
    · exact isRooted_joinSep h

theorem cleanC_rooted (p : Path) : (cleanC p).rooted = isRooted p := rfl

theorem isRooted_clean (p : Path) : isRooted (clean p) = isRooted p := by
  unfold clean
  rw [isRooted_render (cleanC_NF p), cleanC_rooted]

theorem clean_ne_nil (p : Path) : clean p ≠ [] := by
  unfold clean CPath.render
  split
  · simp
  · split
    · decide
    · rename_i h1 h2
      exact joinSep_ne_nil h2 (cleanC_NF p)

theorem isRooted_append {a : Path} (b : Path) (h : a ≠ []) : isRooted (a ++ b) = isRooted a := by
  cases a with
  | nil => exact absurd rfl h
  | cons c cs => rfl

theorem isRooted_join_left {a : Path} (b : Path) (h : a ≠ []) : isRooted (join a b) = isRooted a := by
  unfold join
  simp only [h, ne_eq, not_false_eq_true, if_true]
  rw [isRooted_clean, isRooted_append _ h]

end BFS
