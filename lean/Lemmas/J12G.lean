import Lemmas.J12Txs
import Lemmas.GTx
/-!
  Lemmas/J12G.lean — the restart theorems on the fragment "names THROUGH symlinks on flat disks"
  (`L.G.Op.Covered`, Lemmas/GTx.lean): the invariant is the same `L.Inv` over `osSimL`, so
  `valid_of_invL` applies verbatim; only the step lemma (`L.G.op_keeps`) differs.
-/
namespace BFS
namespace J12
open BackupFS L

section
variable {bk kk : Key} {hbk : PKey bk} {hkk : PKey kk} {hne1 : bk ≠ []} {hne2 : kk ≠ []}
  {hd1 : ¬ bk <+: kk} {hd2 : ¬ kk <+: bk}

theorem runOpsR_eqG {v0 : View} (hsm : SmallView v0) :
    ∀ (steps : List Step) (w : World), L.Inv (osSimL bk kk hbk hkk hne1 hne2 hd1 hd2) v0 w →
      AllN NameK w.infos →
      G.CoveredHist (osCfg bk kk) bk (osSimL bk kk hbk hkk hne1 hne2 hd1 hd2) w (opsOf steps) →
      runOpsR (osCfg bk kk) w steps = runOps (osCfg bk kk) w (opsOf steps)
  | [], _, _, _, _ => rfl
  | .inl op :: rest, w, hi, hn, hc => by
    show runOpsR (osCfg bk kk) (op.step (osCfg bk kk) w) rest =
      runOps (osCfg bk kk) (op.step (osCfg bk kk) w) (opsOf rest)
    exact runOpsR_eqG hsm rest _ (G.op_keeps hi hc.1).inv (step_allN (lstatN_osK bk kk hbk) w op hn) hc.2
  | .inr () :: rest, w, hi, hn, hc => by
    show runOpsR (osCfg bk kk) (restart w) rest = runOps (osCfg bk kk) w (opsOf rest)
    rw [restart_id (valid_of_invL hi hsm hn)]
    exact runOpsR_eqG hsm rest w hi hn hc

theorem valid_after_historyG {w : World} (hg : OSGoodL bk kk w.fs) (hinfos : w.infos = [])
    (hbl : BackupLinksOK (osSimL bk kk hbk hkk hne1 hne2 hd1 hd2) w.fs) (hsd : SD w.fs) (ops : List Op)
    (hcov : G.CoveredHist (osCfg bk kk) bk (osSimL bk kk hbk hkk hne1 hne2 hd1 hd2) w ops) :
    AllValid (runOps (osCfg bk kk) w ops).infos :=
  valid_of_invL (G.history_keeps (hbk := hbk) (hkk := hkk) (hne1 := hne1) (hne2 := hne2) (hd1 := hd1) (hd2 := hd2)
      ops w (L.Inv.init hg hinfos hbl) hcov).inv
    (smallViewL_of_sd bk kk .base hsd)
    (runOps_allN (lstatN_osK bk kk hbk) ops w (by rw [hinfos]; exact AllN.nil))

theorem restart_anywhereG {w : World} (hg : OSGoodL bk kk w.fs) (hinfos : w.infos = [])
    (hbl : BackupLinksOK (osSimL bk kk hbk hkk hne1 hne2 hd1 hd2) w.fs) (hsd : SD w.fs) (steps : List Step)
    (hcov : G.CoveredHist (osCfg bk kk) bk (osSimL bk kk hbk hkk hne1 hne2 hd1 hd2) w (opsOf steps)) :
    runOpsR (osCfg bk kk) w steps = runOps (osCfg bk kk) w (opsOf steps) :=
  runOpsR_eqG (smallViewL_of_sd bk kk .base hsd) steps w (L.Inv.init hg hinfos hbl)
    (by rw [hinfos]; exact AllN.nil) hcov

theorem txsR_eqG :
    ∀ (txs : List (List Step)) (w : World), OSGoodL bk kk w.fs → w.infos = [] → w.faults = [] →
      BackupLinksOK (osSimL bk kk hbk hkk hne1 hne2 hd1 hd2) w.fs → SD w.fs →
      G.CoveredTxs (osCfg bk kk) bk (osSimL bk kk hbk hkk hne1 hne2 hd1 hd2) w (txs.map opsOf) →
      (∀ tx ∈ txs, ∀ op ∈ opsOf tx, OpSmall op) →
      runTxsR (osCfg bk kk) w txs = (txs.map opsOf).foldl (runTx (osCfg bk kk)) w
  | [], _, _, _, _, _, _, _, _ => rfl
  | tx :: rest, w, hg, hi, hf, hb, hsd, hc, hs => by
    have e : runTxR (osCfg bk kk) w tx = runTx (osCfg bk kk) w (opsOf tx) := by
      unfold runTxR runTx
      rw [restart_anywhereG (hbk := hbk) (hkk := hkk) (hne1 := hne1) (hne2 := hne2) (hd1 := hd1) (hd2 := hd2)
        hg hi hb hsd tx hc.1]
    obtain ⟨g1, i1, f1, b1, _⟩ := G.tx_restores (hbk := hbk) (hkk := hkk) (hne1 := hne1) (hne2 := hne2)
      (hd1 := hd1) (hd2 := hd2) hg hi hf hb (opsOf tx) hc.1
    have sd1 := runTx_SD (smallCfg_os bk kk) hsd hi (opsOf tx) (hs tx (List.mem_cons_self ..))
    show runTxsR (osCfg bk kk) (runTxR (osCfg bk kk) w tx) rest =
      (rest.map opsOf).foldl (runTx (osCfg bk kk)) (runTx (osCfg bk kk) w (opsOf tx))
    rw [e]
    exact txsR_eqG rest _ g1 i1 f1 b1 sd1 hc.2 (fun t ht => hs t (List.mem_cons_of_mem _ ht))

end
end J12
end BFS
