import Lemmas.UName
/-!
  Lemmas/UMk.lean — name resolution facts for `os.MkdirAll` through flat symlinks: if the non-following
  resolution of `cs ++ [c]` ends in "`c` is missing in the live directory `P`", then the FOLLOWING
  resolution of `cs` (with any trailing empty components, e.g. the parent text `…/`) finds `P`
  (`walk_missing_parent`); the walk of the caller's name on a flat disk for any sufficient fuel
  (`walk_flat_fuel`).
-/
namespace BFS
namespace U
open MFS F16

section
variable {bk kk : Key} {m : MFS}

theorem walk_missing_parent (hg : L.OSGoodL bk kk m) : ∀ (fuel hops : Nat) (cur : Key) (cs : List Name) (c : Name)
    (P : Key) (c' : Name), (∃ mt, m.get cur = some (.dir mt)) → Plain c →
    walk m false fuel hops cur (cs ++ [c]) = .missing P c' →
    c' = c ∧ ∃ mt, m.get P = some (.dir mt) ∧
      ∀ (g : Nat) (tl2 : List Name), fuel ≤ g → trivialRest tl2 = true →
        walk m true (g + tl2.length) hops cur (cs ++ tl2) = .found P (.dir mt) := by
  intro fuel
  induction fuel with
  | zero => intro hops cur cs c P c' _ _ h; simp only [walk] at h; cases h
  | succ fuel ih =>
    intro hops cur cs c P c' hcur hc h
    cases cs with
    | nil =>
      simp only [List.nil_append] at h ⊢
      rw [walk_step m false fuel hops cur hc] at h
      obtain ⟨mt, hmt⟩ := hcur
      cases hk : m.get (cur ++ [c]) with
      | none =>
        rw [hk] at h
        simp only [trivialRest, List.all_nil, if_true] at h
        cases h
        refine ⟨rfl, mt, hmt, ?_⟩
        intro g tl2 hg' htl
        rw [walk_trivial m true hops cur tl2 (g + tl2.length) htl (by omega), hmt]
      | some n =>
        rw [hk] at h
        cases n with
        | dir mt' =>
          simp only at h
          rw [walk_trivial m false hops (cur ++ [c]) [] fuel rfl (by
            cases fuel with
            | zero => simp only [walk] at h; cases h
            | succ f => simp), hk] at h
          cases h
        | file ct mt' => simp only [trivialRest, List.all_nil, if_true] at h; cases h
        | link t mt' => simp only [trivialRest, List.all_nil, Bool.not_false, Bool.and_self, if_true] at h; cases h
    | cons x cs' =>
      have hntr : trivialRest (cs' ++ [c]) = false := by
        rw [trivialRest_append]
        have : trivialRest [c] = false := trivialRest_pkey (S := [c]) (fun n hn => by
          simp only [List.mem_singleton] at hn; subst hn; exact hc) (by simp)
        rw [this, Bool.and_false]
      simp only [List.cons_append, walk] at h
      by_cases h1 : (x = [] || x = dot) = true
      · simp only [h1, if_true] at h
        obtain ⟨e, mt, hP, hall⟩ := ih hops cur cs' c P c' hcur hc h
        refine ⟨e, mt, hP, ?_⟩
        intro g tl2 hg' htl
        obtain ⟨g', rfl⟩ : ∃ g', g = g' + 1 := ⟨g - 1, by omega⟩
        have : g' + 1 + tl2.length = (g' + tl2.length) + 1 := by omega
        rw [List.cons_append, this, walk_skip m true _ hops cur _ h1]
        exact hall g' tl2 (by omega) htl
      · simp only [h1, if_false] at h
        by_cases h2 : x = dotdot
        · simp only [h2, if_true] at h
          have hpar : ∃ mt, m.get (parentKey cur) = some (.dir mt) := by
            obtain ⟨mt, hmt⟩ := hcur
            by_cases hne : cur = []
            · subst hne; exact ⟨mt, hmt⟩
            · exact hg.parent cur _ hmt hne
          obtain ⟨e, mt, hP, hall⟩ := ih hops (parentKey cur) cs' c P c' hpar hc h
          refine ⟨e, mt, hP, ?_⟩
          intro g tl2 hg' htl
          obtain ⟨g', rfl⟩ : ∃ g', g = g' + 1 := ⟨g - 1, by omega⟩
          have : g' + 1 + tl2.length = (g' + tl2.length) + 1 := by omega
          rw [h2, List.cons_append, this, walk_dd]
          exact hall g' tl2 (by omega) htl
        · simp only [h2, if_false] at h
          cases hk : m.get (cur ++ [x]) with
          | none =>
            rw [hk] at h
            simp only [hntr, Bool.false_eq_true, if_false] at h
            cases h
          | some n =>
            rw [hk] at h
            cases n with
            | dir mt' =>
              simp only at h
              obtain ⟨e, mt, hP, hall⟩ := ih hops (cur ++ [x]) cs' c P c' ⟨mt', hk⟩ hc h
              refine ⟨e, mt, hP, ?_⟩
              intro g tl2 hg' htl
              obtain ⟨g', rfl⟩ : ∃ g', g = g' + 1 := ⟨g - 1, by omega⟩
              have : g' + 1 + tl2.length = (g' + tl2.length) + 1 := by omega
              rw [List.cons_append, this]
              simp only [walk, h1, h2, if_false, hk]
              exact hall g' tl2 (by omega) htl
            | file ct mt' =>
              simp only [hntr, Bool.false_eq_true, if_false] at h
              cases h
            | link t mt' =>
              simp only [hntr, Bool.false_and, Bool.false_eq_true, if_false] at h
              by_cases h3 : hops ≥ 40
              · simp only [h3, if_true] at h; cases h
              · simp only [h3, if_false] at h
                by_cases h4 : t = []
                · simp only [h4, if_true] at h; cases h
                · simp only [h4, if_false] at h
                  have hstart : ∃ mt, m.get (if isRooted t then [] else cur) = some (.dir mt) := by
                    split
                    · exact hg.root
                    · exact hcur
                  rw [← List.append_assoc] at h
                  obtain ⟨e, mt, hP, hall⟩ := ih (hops + 1) _ (splitSep t ++ cs') c P c' hstart hc h
                  refine ⟨e, mt, hP, ?_⟩
                  intro g tl2 hg' htl
                  obtain ⟨g', rfl⟩ : ∃ g', g = g' + 1 := ⟨g - 1, by omega⟩
                  have : g' + 1 + tl2.length = (g' + tl2.length) + 1 := by omega
                  rw [List.cons_append, this]
                  simp only [walk, h1, h2, if_false, hk, Bool.not_true, Bool.and_false, Bool.false_eq_true, h3, h4]
                  rw [← List.append_assoc]
                  exact hall g' tl2 (by omega) htl

/-- the non-following walk of the caller's components from the root, for any sufficient fuel -/
theorem walk_flat_fuel (hr : Roots bk kk) (hg : L.OSGoodL bk kk m) (hflat : Flat bk m) {k : Key} (hk : PKey k)
    (hne : k ≠ []) (hlen : k.length ≤ 40) {F : Nat} (hF : bk.length + 101 * k.length < F) :
    walk m false F 0 [] (bk ++ k) = namei m (kp (bk ++ resK m bk [] k)) false := by
  have hrk : PKey (resK m bk [] k) := resK_pkey hr.pb hg hflat k [] PKey.nil hk
  have hnl := resK_nolink hg hflat k [] (noLinkUpto_root hg)
  rw [walk_from_root hg false hg.bdir k (by omega)]
  have := walk_resK hg hflat k [] (F - bk.length) 0 hk hne (by simpa using hg.bdir) (by omega) (by omega)
  rw [List.append_nil] at this
  rw [this, namei_kp_nf (hr.pb.append hrk) (by simp [hr.nb]) hnl]

/-- **the parent text, following**: when the resolved key is absent below a live directory, `Stat` of the
caller's parent text (`…/`, through the symlinks, following the last one) finds that directory -/
theorem namei_parent_follow (hr : Roots bk kk) (hg : L.OSGoodL bk kk m) (hflat : Flat bk m) {k : Key} (hk : PKey k)
    (hne : k ≠ []) (hlen : k.length ≤ 40) (hmiss : m.get (bk ++ resK m bk [] k) = none) {mt : Meta}
    (hpar : m.get (bk ++ (resK m bk [] k).dropLast) = some (.dir mt)) :
    namei m (parentText (bk ++ k)) true = .found (bk ++ (resK m bk [] k).dropLast) (.dir mt) := by
  have hrk : PKey (resK m bk [] k) := resK_pkey hr.pb hg hflat k [] PKey.nil hk
  have hrne : resK m bk [] k ≠ [] := by
    intro e
    have := resK_getLast (m := m) (bk := bk) k [] hne
    rw [e] at this
    cases k with
    | nil => exact hne rfl
    | cons a l =>
      have h2 : (a :: l).getLast? ≠ none := by simp
      exact h2 this.symm
  have hK : PKey (bk ++ resK m bk [] k) := hr.pb.append hrk
  have hKne : bk ++ resK m bk [] k ≠ [] := by simp [hr.nb]
  have hnl : L.NoLinkProper m (bk ++ resK m bk [] k) :=
    fun p hp hne' t mt' => resK_nolink hg hflat k [] (noLinkUpto_root hg) p hp hne' t mt'
  have hdl : (bk ++ resK m bk [] k).dropLast = bk ++ (resK m bk [] k).dropLast := append_dropLast hrne
  -- the non-following resolution of the resolved name: missing
  have hmissing : namei m (kp (bk ++ resK m bk [] k)) false =
      .missing (bk ++ (resK m bk [] k).dropLast) ((bk ++ resK m bk [] k).getLast hKne) := by
    rcases L.namei_cases_nf hg hK hnl (TextOf.kp _) with ⟨n1, h1, _⟩ | ⟨_, _, _, _, hr1⟩ | ⟨e, _, _, hp, _, _⟩
    · rw [hmiss] at h1; cases h1
    · rw [hr1, hdl]
    · exact absurd ⟨mt, by rw [hdl]; exact hpar⟩ hp
  -- the caller's components: `bk ++ k = (bk ++ k.dropLast) ++ [last]`
  have hsplit : bk ++ k = (bk ++ k.dropLast) ++ [k.getLast hne] := by
    rw [List.append_assoc, dropLast_append_getLast' hne]
  have hc : Plain (k.getLast hne) := hk.getLast hne
  have hF : bk.length + 101 * k.length < 4096 + (bk ++ k.dropLast).length := by
    simp only [List.length_append, List.length_dropLast]; omega
  have hw := walk_flat_fuel hr hg hflat hk hne hlen hF
  rw [hmissing, hsplit] at hw
  obtain ⟨_, mt', hP, hall⟩ := walk_missing_parent hg _ 0 [] (bk ++ k.dropLast) (k.getLast hne) _ _ hg.root hc hw
  rw [hpar] at hP
  cases hP
  -- the parent text
  have hKd : PKey (bk ++ k.dropLast) := hr.pb.append hk.dropLast
  have htext : TextOf (parentText (bk ++ k)) (bk ++ k.dropLast) := by
    have := parentText_text (K := bk ++ k)
    rwa [append_dropLast hne] at this
  obtain ⟨tl, hs, htl, _⟩ := splitSep_text hKd htext
  unfold namei
  simp only [htext.ne_nil, if_false, hs, List.length_cons, List.length_append]
  have e : 4096 + ((bk.length + k.dropLast.length) + tl.length + 1) =
      ((4096 + (bk ++ k.dropLast).length) + tl.length) + 1 := by
    simp only [List.length_append]; omega
  rw [e, walk_skip m true _ 0 [] _ (by decide)]
  exact hall _ tl (Nat.le_refl _) htl

end

/-! ### `os.MkdirAll`: the caller's text on a flat disk, the resolved text on a disk with the same base view -/

theorem mkdirAllTail_ok {m : MFS} {perm : Nat} {p : Path} (h : (m.mkdir p perm).2 = .ok ()) :
    mkdirAllTail m perm p = m.mkdir p perm := by
  unfold mkdirAllTail
  cases hm : m.mkdir p perm with
  | mk m' r =>
    rw [hm] at h
    simp only at h
    subst h
    rfl

section
variable {bk kk : Key}

/-- `os.MkdirAll(caller's name)` on `m1` and `os.MkdirAll(resolved name)` on `m2`, when the resolved key is
not a symlink and exists or has a live parent directory: the `Stat` fast path, or one `Mkdir` below the
existing parent -/
theorem mkdirAll_rel_flat (hr : Roots bk kk) {m1 m2 : MFS} (hg1 : L.OSGoodL bk kk m1) (hg2 : L.OSGoodL bk kk m2)
    (hb : UEq bk m1 m2) (hflat : Flat bk m1) {k : Key} (hk : PKey k) (hlen : k.length ≤ 40)
    (hfin : ∀ t mt, m1.get (bk ++ resK m1 bk [] k) ≠ some (.link t mt))
    (hpar : m1.get (bk ++ resK m1 bk [] k) ≠ none ∨ ∃ mt, m1.get (bk ++ (resK m1 bk [] k).dropLast) = some (.dir mt))
    (perm f1 f2 : Nat) :
    (m1.mkdirAll perm (f1 + 2) (kp (bk ++ k))).2 = (m2.mkdirAll perm (f2 + 2) (kp (bk ++ resK m1 bk [] k))).2 ∧
      UEq bk (m1.mkdirAll perm (f1 + 2) (kp (bk ++ k))).1 (m2.mkdirAll perm (f2 + 2) (kp (bk ++ resK m1 bk [] k))).1 := by
  have hrk : PKey (resK m1 bk [] k) := resK_pkey hr.pb hg1 hflat k [] PKey.nil hk
  have hK2 : PKey (bk ++ resK m1 bk [] k) := hr.pb.append hrk
  have hnl1 : L.NoLinkProper m1 (bk ++ resK m1 bk [] k) :=
    fun p hp hne t mt => resK_nolink hg1 hflat k [] (noLinkUpto_root hg1) p hp hne t mt
  have hnt := nrel_flat hr hg1 hg2 hb hflat hk hlen true (fun _ => hfin)
  have hnf := nrel_flat hr hg1 hg2 hb hflat hk hlen false (fun h => by cases h)
  have hres := namei_resK hr hg1 hflat hk hlen
  cases hget : m1.get (bk ++ resK m1 bk [] k) with
  | some n1 =>
    -- the `Stat` fast path on both sides
    have hfound : namei m1 (kp (bk ++ resK m1 bk [] k)) false = .found (bk ++ resK m1 bk [] k) n1 :=
      L.namei_found' m1 false hK2 (TextOf.kp _) hget (Or.inr rfl) (fun p hp hne => hg1.ancestor hget hp hne)
    have hnotlink : NotLinkRes (namei m1 (kp (bk ++ k)) false) := by
      rw [← hres, hfound]
      cases n1 with
      | link t mt => exact absurd hget (hfin t mt)
      | file c mt => trivial
      | dir mt => trivial
    have h1 : namei m1 (kp (bk ++ k)) true = .found (bk ++ resK m1 bk [] k) n1 := by
      rw [namei_follow_eq m1 _ hnotlink, ← hres, hfound]
    rcases hnt.split with ⟨K, a, n2, e1, e2, _, _, _, he⟩ | ⟨P, c, _, _, e1, _⟩ | ⟨e, e1, _⟩
    · rw [h1] at e1
      cases e1
      have s1 : m1.stat (kp (bk ++ k)) = .ok (infoOf (base (kp (bk ++ k))) n1) := by
        unfold MFS.stat; rw [h1]
      have s2 : m2.stat (kp (bk ++ resK m1 bk [] k)) = .ok (infoOf (base (kp (bk ++ resK m1 bk [] k))) n2) := by
        unfold MFS.stat; rw [e2]
      rw [mkdirAll_succ_ok m1 perm (f1 + 1) _ s1, mkdirAll_succ_ok m2 perm (f2 + 1) _ s2, infoOf_isDir, infoOf_isDir,
        ev_isDir he]
      split
      · exact ⟨rfl, hb⟩
      · exact ⟨rfl, hb⟩
    · rw [h1] at e1; cases e1
    · rw [h1] at e1; cases e1
  | none =>
    have hkne : k ≠ [] := by
      intro e
      subst e
      obtain ⟨mt, hm⟩ := hg1.bdir
      have : resK m1 bk [] [] = [] := rfl
      rw [this, List.append_nil, hm] at hget
      cases hget
    obtain ⟨mt1, hp1⟩ : ∃ mt, m1.get (bk ++ (resK m1 bk [] k).dropLast) = some (.dir mt) := by
      rcases hpar with h | h
      · exact absurd hget h
      · exact h
    have hrne : resK m1 bk [] k ≠ [] := by
      intro e
      obtain ⟨mt, hm⟩ := hg1.bdir
      rw [e, List.append_nil, hm] at hget
      cases hget
    have hK2ne : bk ++ resK m1 bk [] k ≠ [] := by simp [hr.nb]
    have hK1ne : bk ++ k ≠ [] := by simp [hr.nb]
    have hdl : (bk ++ resK m1 bk [] k).dropLast = bk ++ (resK m1 bk [] k).dropLast := append_dropLast hrne
    have hmissing : namei m1 (kp (bk ++ resK m1 bk [] k)) false =
        .missing (bk ++ (resK m1 bk [] k).dropLast) ((bk ++ resK m1 bk [] k).getLast hK2ne) := by
      rcases L.namei_cases_nf hg1 hK2 hnl1 (TextOf.kp _) with ⟨n1, h1, _⟩ | ⟨_, _, _, _, hr1⟩ | ⟨e, _, _, hp, _, _⟩
      · rw [hget] at h1; cases h1
      · rw [hr1, hdl]
      · exact absurd ⟨mt1, by rw [hdl]; exact hp1⟩ hp
    have hnotlink : NotLinkRes (namei m1 (kp (bk ++ k)) false) := by rw [← hres, hmissing]; trivial
    have h1f : namei m1 (kp (bk ++ k)) false = .missing (bk ++ (resK m1 bk [] k).dropLast)
        ((bk ++ resK m1 bk [] k).getLast hK2ne) := by rw [← hres, hmissing]
    have h1t : namei m1 (kp (bk ++ k)) true = .missing (bk ++ (resK m1 bk [] k).dropLast)
        ((bk ++ resK m1 bk [] k).getLast hK2ne) := by rw [namei_follow_eq m1 _ hnotlink, h1f]
    -- the other disk: the same outcomes
    have h2t : namei m2 (kp (bk ++ resK m1 bk [] k)) true = .missing (bk ++ (resK m1 bk [] k).dropLast)
        ((bk ++ resK m1 bk [] k).getLast hK2ne) := by
      rcases hnt.split with ⟨K, a, n2, e1, _⟩ | ⟨P, c, _, _, e1, e2, _⟩ | ⟨e, e1, _⟩
      · rw [h1t] at e1; cases e1
      · rw [h1t] at e1; cases e1; exact e2
      · rw [h1t] at e1; cases e1
    have h2f : namei m2 (kp (bk ++ resK m1 bk [] k)) false = .missing (bk ++ (resK m1 bk [] k).dropLast)
        ((bk ++ resK m1 bk [] k).getLast hK2ne) := by
      rcases hnf.split with ⟨K, a, n2, e1, _⟩ | ⟨P, c, _, _, e1, e2, _⟩ | ⟨e, e1, _⟩
      · rw [h1f] at e1; cases e1
      · rw [h1f] at e1; cases e1; exact e2
      · rw [h1f] at e1; cases e1
    obtain ⟨mt2, hp2⟩ := (hb.dir_iff (K := bk ++ (resK m1 bk [] k).dropLast) (List.prefix_append _ _)).mp ⟨mt1, hp1⟩
    -- `Stat` fails on both sides
    have s1 : m1.stat (kp (bk ++ k)) = .error .notExist := by unfold MFS.stat; rw [h1t]
    have s2 : m2.stat (kp (bk ++ resK m1 bk [] k)) = .error .notExist := by unfold MFS.stat; rw [h2t]
    -- the parents: found, directories
    have hp1t := namei_parent_follow hr hg1 hflat hk hkne hlen hget hp1
    have sp1 : m1.stat (parentText (bk ++ k)) = .ok (infoOf (base (parentText (bk ++ k))) (.dir mt1)) := by
      unfold MFS.stat; rw [hp1t]
    have htext2 : TextOf (parentText (bk ++ resK m1 bk [] k)) (bk ++ (resK m1 bk [] k).dropLast) := by
      have := parentText_text (K := bk ++ resK m1 bk [] k)
      rwa [hdl] at this
    have hp2t : namei m2 (parentText (bk ++ resK m1 bk [] k)) true =
        .found (bk ++ (resK m1 bk [] k).dropLast) (.dir mt2) :=
      L.namei_found' m2 true (hr.pb.append hrk.dropLast) htext2 hp2 (Or.inl rfl)
        (fun p hp hne => hg2.ancestor hp2 hp hne)
    have sp2 : m2.stat (parentText (bk ++ resK m1 bk [] k)) =
        .ok (infoOf (base (parentText (bk ++ resK m1 bk [] k))) (.dir mt2)) := by
      unfold MFS.stat; rw [hp2t]
    have hpt1 := text_parent (hr.pb.append hk) hK1ne (TextOf.kp (bk ++ k))
    have hpt2 := text_parent hK2 hK2ne (TextOf.kp (bk ++ resK m1 bk [] k))
    have hpl1 := parentText_length (bk ++ k)
    have hpl2 := parentText_length (bk ++ resK m1 bk [] k)
    have r1 : m1.mkdirAll perm (f1 + 1) (parentText (bk ++ k)) = (m1, .ok ()) := by
      rw [mkdirAll_succ_ok m1 perm f1 _ sp1, infoOf_isDir]; rfl
    have r2 : m2.mkdirAll perm (f2 + 1) (parentText (bk ++ resK m1 bk [] k)) = (m2, .ok ()) := by
      rw [mkdirAll_succ_ok m2 perm f2 _ sp2, infoOf_isDir]; rfl
    rw [mkdirAll_succ_err m1 perm (f1 + 1) _ s1, mkdirAll_succ_err m2 perm (f2 + 1) _ s2, hpt1, hpt2]
    simp only [hpl1, hpl2, if_true, r1, r2]
    -- the one `Mkdir`
    have mk1 : (m1.mkdir (kp (bk ++ k)) perm).2 = .ok () := by unfold MFS.mkdir; rw [h1f]
    have mk2 : (m2.mkdir (kp (bk ++ resK m1 bk [] k)) perm).2 = .ok () := by unfold MFS.mkdir; rw [h2f]
    rw [mkdirAllTail_ok mk1, mkdirAllTail_ok mk2]
    exact mkdir_rel hb hnf perm

end

end U
end BFS
