import Lemmas.GOps
import Lemmas.GLoop
import Lemmas.LTx
/-!
  Lemmas/GTx.lean — names through FLAT links: the covered-operation predicate `G.Op.Covered`, "every
  covered operation keeps the transaction invariant `L.Inv`" for the OS model behind two `PrefixFS`
  layers, histories, transactions.  Rollback never resolves a name (it works on tracked keys), so
  the Rollback half is that of Lemmas/LRestore.lean / LTx.lean, verbatim.
-/
namespace BFS
namespace L
namespace G
open BackupFS F16

/-- if the (resolved) key currently is a symlink — and is therefore going to be backed up — the base
filesystem admits re-creating it -/
def LinkOKAt {cfg : Cfg} (S : LSim cfg) (w : World) (r : Key) : Prop :=
  ∀ t mt, S.view .base w.fs r = some (.link t mt) → S.LinkOK .base r t

/-- the (resolved) key currently is not a symlink -/
def NotLinkAt {cfg : Cfg} (S : LSim cfg) (w : World) (r : Key) : Prop := ¬ isLinkAt (S.view .base w.fs) r

/-- The operations the through-flat-links theorem covers, judged in the state they are issued in.
Names are absolute (any spelling) and MAY PASS THROUGH SYMLINKED DIRECTORIES; the disk must be `Flat`
below the base root `bk` at that moment.  With `k` the key of the cleaned name and
`r = rk bk w k = resK w.fs bk [] k` the key `realPath` resolves it to (no proper ancestor of `r` is a
symlink, its final component is that of `k`: Lemmas/F16Res.lean), what `L.Op.Covered` demands of `k`
is demanded of `r`:
* operations that *follow* a final symlink — Create, OpenFile with a flag other than `O_RDONLY`, Chmod,
  Chown, Chtimes, MkdirAll — : `r` is not a symlink (K-through-final-symlink);
* operations that do not follow — Mkdir, Remove, Lchown, Rename (both names, resolved independently),
  Symlink (new name), RemoveAll (every entry at or below `r`) — : if the entry currently is a symlink,
  the base filesystem admits re-creating it (K-escaping-link);
* `Symlink(_, new)`, and `Rename(old, new)` whose resolved source currently is a symlink: no tracked
  key lies strictly below the resolved new name (K-link-over-tracked);
* `Remove`/`RemoveAll` do not name the root; the resolved source of a `Rename` is not a non-empty
  directory (K-rename-nonempty-dir); `ForceBackup` is outside (C17).
Read-only operations (and `OpenFile` with `O_RDONLY`) do not resolve names and need nothing. -/
def Op.Covered {cfg : Cfg} (bk : Key) (S : LSim cfg) (w : World) : Op → Prop
  | .creat p _ | .mkdirAll p _ | .chmod p _ | .chown p _ _ | .chtimes p _ =>
    isAbs p = true ∧ Flat bk w.fs ∧ ∀ k, PKey k → clean p = kp k → NotLinkAt S w (rk bk w k)
  | .write p flag _ _ => flag = O_RDONLY ∨
      (isAbs p = true ∧ Flat bk w.fs ∧ ∀ k, PKey k → clean p = kp k → NotLinkAt S w (rk bk w k))
  | .mkdir p _ | .lchown p _ _ =>
    isAbs p = true ∧ Flat bk w.fs ∧ ∀ k, PKey k → clean p = kp k → LinkOKAt S w (rk bk w k)
  | .remove p => isAbs p = true ∧ clean p ≠ rootP ∧ Flat bk w.fs ∧
      ∀ k, PKey k → clean p = kp k → LinkOKAt S w (rk bk w k)
  | .removeAll p => isAbs p = true ∧ clean p ≠ rootP ∧ Flat bk w.fs ∧
      ∀ k, PKey k → clean p = kp k → LOK S (rk bk w k) w
  | .rename o n => isAbs o = true ∧ isAbs n = true ∧ Flat bk w.fs ∧
      ∀ ko kn, PKey ko → PKey kn → clean o = kp ko → clean n = kp kn →
        LinkOKAt S w (rk bk w ko) ∧ LinkOKAt S w (rk bk w kn) ∧
        ¬ ((S.view .base w.fs).isDirAt (rk bk w ko) ∧ (S.view .base w.fs).hasChild (rk bk w ko)) ∧
        (isLinkAt (S.view .base w.fs) (rk bk w ko) → NoneBelow w (rk bk w kn))
  | .symlink _ n => isAbs n = true ∧ Flat bk w.fs ∧
      ∀ kn, PKey kn → clean n = kp kn → LinkOKAt S w (rk bk w kn) ∧ NoneBelow w (rk bk w kn)
  | .stat _ | .lstat _ | .readlink _ => True
  | .force _ => False

/-- a history all of whose operations are covered in the state they are issued in -/
def CoveredHist (cfg : Cfg) (bk : Key) (S : LSim cfg) : World → List Op → Prop
  | _, [] => True
  | w, op :: rest => Op.Covered bk S w op ∧ CoveredHist cfg bk S (op.step cfg w) rest

/-- histories of several transactions, each covered in the state it starts from -/
def CoveredTxs (cfg : Cfg) (bk : Key) (S : LSim cfg) : World → List (List Op) → Prop
  | _, [] => True
  | w, ops :: rest => CoveredHist cfg bk S w ops ∧ CoveredTxs cfg bk S (runTx cfg w ops) rest

section
variable {bk kk : Key} {hbk : PKey bk} {hkk : PKey kk} {hne1 : bk ≠ []} {hne2 : kk ≠ []}
  {hd1 : ¬ bk <+: kk} {hd2 : ¬ kk <+: bk} {v0 : View}

/-- what the OS instance supplies for a name with cleaned key `k` on a flat disk (any fault plan) -/
theorem resolved {w : World}
    (hinv : Inv (osSimL bk kk hbk hkk hne1 hne2 hd1 hd2) v0 w) (hflat : Flat bk w.fs) {name : Path} {k : Key}
    (hk : PKey k) (hname : clean name = kp k) :
    PKey (rk bk w k) ∧ ResTo (osCfg bk kk) w name (rk bk w k) ∧
      NoLinkAnc ((osSimL bk kk hbk hkk hne1 hne2 hd1 hd2).view .base w.fs) (rk bk w k) := by
  have hr : Roots bk kk := ⟨hbk, hkk, hne1, hne2, hd1, hd2⟩
  have hg : OSGoodL bk kk w.fs := hinv.good
  exact ⟨rk_pkey hr hg hflat hk, resTo_flat_any hr hg hflat hk hname, rk_noLinkAnc hg hflat k⟩

/-- T01G (operations): on the OS model, a covered operation — successful or not, under any fault
plan — keeps the transaction invariant -/
theorem op_keeps {w : World} {op : Op}
    (hinv : Inv (osSimL bk kk hbk hkk hne1 hne2 hd1 hd2) v0 w)
    (hc : Op.Covered bk (osSimL bk kk hbk hkk hne1 hne2 hd1 hd2) w op) :
    Kept (osSimL bk kk hbk hkk hne1 hne2 hd1 hd2) v0 w (op.step (osCfg bk kk) w) := by
  have key : Sat (op.exec (osCfg bk kk)) w
      (fun w' _ => Kept (osSimL bk kk hbk hkk hne1 hne2 hd1 hd2) v0 w w') := by
    cases op with
    | creat p d =>
      obtain ⟨habs, hflat, h⟩ := hc
      obtain ⟨k, hk, hname⟩ := clean_abs habs
      obtain ⟨hr, hres, hacc⟩ := resolved hinv hflat hk hname
      exact sat_creatG hinv hr hres ⟨hacc, h k hk hname⟩
    | write p f pm d =>
      apply sat_writeG hinv
      rcases hc with h | ⟨habs, hflat, h⟩
      · exact Or.inl h
      · obtain ⟨k, hk, hname⟩ := clean_abs habs
        obtain ⟨hr, hres, hacc⟩ := resolved hinv hflat hk hname
        exact Or.inr ⟨_, hr, hres, ⟨hacc, h k hk hname⟩⟩
    | mkdir p m =>
      obtain ⟨habs, hflat, h⟩ := hc
      obtain ⟨k, hk, hname⟩ := clean_abs habs
      obtain ⟨hr, hres, hacc⟩ := resolved hinv hflat hk hname
      exact sat_unit_out' (sat_mkdirG hinv hr hres ⟨hacc, h k hk hname⟩)
    | mkdirAll p m =>
      obtain ⟨habs, hflat, h⟩ := hc
      obtain ⟨k, hk, hname⟩ := clean_abs habs
      obtain ⟨hr, hres, hacc⟩ := resolved hinv hflat hk hname
      exact sat_unit_out (sat_mkdirAllG hinv hr hres ⟨hacc, h k hk hname⟩)
    | remove p =>
      obtain ⟨habs, hnr, hflat, h⟩ := hc
      obtain ⟨k, hk, hname⟩ := clean_abs habs
      have hne : k ≠ [] := by
        intro e; subst e; exact hnr hname
      obtain ⟨hr, hres, hacc⟩ := resolved hinv hflat hk hname
      exact sat_unit_out' (sat_removeG hinv hr (rk_ne hne) hres ⟨hacc, h k hk hname⟩)
    | removeAll p =>
      obtain ⟨habs, hnr, hflat, h⟩ := hc
      obtain ⟨k, hk, hname⟩ := clean_abs habs
      have hne : k ≠ [] := by
        intro e; subst e; exact hnr hname
      obtain ⟨hr, hres, hacc⟩ := resolved hinv hflat hk hname
      exact sat_unit_out (sat_removeAllG hinv hr (rk_ne hne) hres hacc (h k hk hname))
    | rename o n =>
      obtain ⟨habso, habsn, hflat, h⟩ := hc
      obtain ⟨ko, hko, ho⟩ := clean_abs habso
      obtain ⟨kn, hkn, hn⟩ := clean_abs habsn
      obtain ⟨hlo, hln, hleaf, hnb⟩ := h ko kn hko hkn ho hn
      obtain ⟨hro, hreso, hacco⟩ := resolved hinv hflat hko ho
      obtain ⟨hrn, hresn, haccn⟩ := resolved hinv hflat hkn hn
      exact sat_unit_out (sat_renameG hinv hro hrn hreso hresn ⟨hacco, hlo⟩ ⟨haccn, hln⟩ hleaf hnb)
    | symlink o n =>
      obtain ⟨habs, hflat, h⟩ := hc
      obtain ⟨kn, hkn, hn⟩ := clean_abs habs
      obtain ⟨hln, hnb⟩ := h kn hkn hn
      obtain ⟨hrn, hresn, haccn⟩ := resolved hinv hflat hkn hn
      exact sat_unit_out (sat_symlinkG hinv hrn hresn ⟨haccn, hln⟩ hnb)
    | chmod p m =>
      obtain ⟨habs, hflat, h⟩ := hc
      obtain ⟨k, hk, hname⟩ := clean_abs habs
      obtain ⟨hr, hres, hacc⟩ := resolved hinv hflat hk hname
      exact sat_unit_out' (sat_chmodG hinv hr hres ⟨hacc, h k hk hname⟩)
    | chown p u g =>
      obtain ⟨habs, hflat, h⟩ := hc
      obtain ⟨k, hk, hname⟩ := clean_abs habs
      obtain ⟨hr, hres, hacc⟩ := resolved hinv hflat hk hname
      exact sat_unit_out' (sat_chownG hinv hr hres ⟨hacc, h k hk hname⟩)
    | lchown p u g =>
      obtain ⟨habs, hflat, h⟩ := hc
      obtain ⟨k, hk, hname⟩ := clean_abs habs
      obtain ⟨hr, hres, hacc⟩ := resolved hinv hflat hk hname
      exact sat_unit_out' (sat_lchownG hinv hr hres ⟨hacc, h k hk hname⟩)
    | chtimes p t =>
      obtain ⟨habs, hflat, h⟩ := hc
      obtain ⟨k, hk, hname⟩ := clean_abs habs
      obtain ⟨hr, hres, hacc⟩ := resolved hinv hflat hk hname
      exact sat_unit_out' (sat_chtimesG hinv hr hres ⟨hacc, h k hk hname⟩)
    | stat p => exact L.op_keeps (op := .stat p) hinv trivial
    | lstat p => exact L.op_keeps (op := .lstat p) hinv trivial
    | readlink p => exact L.op_keeps (op := .readlink p) hinv trivial
    | force p => exact absurd hc id
  exact key

/-- T01G (histories): after any covered history the invariant holds -/
theorem history_keeps : ∀ (ops : List Op) (w : World),
    Inv (osSimL bk kk hbk hkk hne1 hne2 hd1 hd2) v0 w →
    CoveredHist (osCfg bk kk) bk (osSimL bk kk hbk hkk hne1 hne2 hd1 hd2) w ops →
    Kept (osSimL bk kk hbk hkk hne1 hne2 hd1 hd2) v0 w (runOps (osCfg bk kk) w ops)
  | [], w, hinv, _ => Kept.refl hinv
  | op :: rest, w, hinv, hc => by
    have h1 := op_keeps hinv hc.1
    have h2 := history_keeps rest (op.step (osCfg bk kk) w) h1.inv hc.2
    exact h1.trans h2

/-- T01G, one transaction: on healthy filesystems, after any covered history Rollback restores every
key of the base view except the root, and re-establishes the start conditions -/
theorem tx_restores {w : World} (hg : OSGoodL bk kk w.fs) (hinfos : w.infos = []) (hnf : w.faults = [])
    (hbl : BackupLinksOK (osSimL bk kk hbk hkk hne1 hne2 hd1 hd2) w.fs) (ops : List Op)
    (hcov : CoveredHist (osCfg bk kk) bk (osSimL bk kk hbk hkk hne1 hne2 hd1 hd2) w ops) :
    OSGoodL bk kk (runTx (osCfg bk kk) w ops).fs ∧ (runTx (osCfg bk kk) w ops).infos = [] ∧
      (runTx (osCfg bk kk) w ops).faults = [] ∧
      BackupLinksOK (osSimL bk kk hbk hkk hne1 hne2 hd1 hd2) (runTx (osCfg bk kk) w ops).fs ∧
      SameBelowRoot (osViewL bk kk .base w.fs) (osViewL bk kk .base (runTx (osCfg bk kk) w ops).fs) := by
  have hk := history_keeps (hbk := hbk) (hkk := hkk) (hne1 := hne1) (hne2 := hne2) (hd1 := hd1) (hd2 := hd2)
    ops w (Inv.init hg hinfos hbl) hcov
  have hr := (sat_rollback (cfg := osCfg bk kk) hk.inv (hk.faults.trans hnf)).elim
  exact ⟨hr.1, rollback_resets_infos (osCfg bk kk) _, hr.2.1,
    backupLinksOK_after hk.inv hr.1 hr.2.2.1 hr.2.2.2, hr.2.2.1⟩

/-- T01G for any number of consecutive transactions on the same BackupFS -/
theorem txs_restore : ∀ (txs : List (List Op)) (w : World), OSGoodL bk kk w.fs → w.infos = [] → w.faults = [] →
    BackupLinksOK (osSimL bk kk hbk hkk hne1 hne2 hd1 hd2) w.fs →
    CoveredTxs (osCfg bk kk) bk (osSimL bk kk hbk hkk hne1 hne2 hd1 hd2) w txs →
    SameBelowRoot (osViewL bk kk .base w.fs) (osViewL bk kk .base (txs.foldl (runTx (osCfg bk kk)) w).fs)
  | [], w, _, _, _, _, _ => fun _ _ => rfl
  | ops :: rest, w, hg, hi, hf, hb, hc => by
    obtain ⟨g1, i1, f1, b1, h1⟩ := tx_restores hg hi hf hb ops hc.1
    have h2 := txs_restore rest (runTx (osCfg bk kk) w ops) g1 i1 f1 b1 hc.2
    intro k hk
    rw [List.foldl_cons, h2 k hk, h1 k hk]

/-- whatever the fault plan did to the operations of a covered history, once the filesystems are
healthy again Rollback restores the base -/
theorem tx_restores_after_faults {w : World} (hg : OSGoodL bk kk w.fs) (hinfos : w.infos = [])
    (hbl : BackupLinksOK (osSimL bk kk hbk hkk hne1 hne2 hd1 hd2) w.fs) (ops : List Op)
    (hcov : CoveredHist (osCfg bk kk) bk (osSimL bk kk hbk hkk hne1 hne2 hd1 hd2) w ops) :
    SameBelowRoot (osViewL bk kk .base w.fs)
      (osViewL bk kk .base (rollback (osCfg bk kk) { runOps (osCfg bk kk) w ops with faults := [] }).1.fs) := by
  have hk := history_keeps (hbk := hbk) (hkk := hkk) (hne1 := hne1) (hne2 := hne2) (hd1 := hd1) (hd2 := hd2)
    ops w (Inv.init hg hinfos hbl) hcov
  exact ((sat_rollback (cfg := osCfg bk kk) (hk.inv.with_faults []) rfl).elim).2.2.1

end

end G
end L
end BFS
