import Lemmas.Canon
/-! `relInside` (the containment test built on `filepath.Rel`) is component-wise containment. -/
namespace BFS

theorem stripCommon_spec : ∀ (as bs : List Name),
    ∃ c, as = c ++ (stripCommon as bs).1 ∧ bs = c ++ (stripCommon as bs).2 ∧
      (∀ x xs y ys, (stripCommon as bs).1 = x :: xs → (stripCommon as bs).2 = y :: ys → x ≠ y)
  | [], bs => ⟨[], by simp [stripCommon]⟩
  | a :: as, [] => ⟨[], by simp [stripCommon]⟩
  | a :: as, b :: bs => by
    by_cases hab : a = b
    · subst hab
      obtain ⟨c, h1, h2, h3⟩ := stripCommon_spec as bs
      refine ⟨a :: c, ?_, ?_, ?_⟩
      · simp only [stripCommon, if_true]; rw [List.cons_append, ← h1]
      · simp only [stripCommon, if_true]; rw [List.cons_append, ← h2]
      · simp only [stripCommon, if_true]; exact h3
    · refine ⟨[], ?_, ?_, ?_⟩
      · simp [stripCommon, hab]
      · simp [stripCommon, hab]
      · simp only [stripCommon, hab, if_false]
        intro x xs y ys h1 h2
        simp at h1 h2
        rw [← h1.1, ← h2.1]; exact hab

theorem stripCommon_prefix : ∀ (as rest : List Name), stripCommon as (as ++ rest) = ([], rest)
  | [], rest => by cases rest <;> simp [stripCommon]
  | a :: as, rest => by simp [stripCommon, stripCommon_prefix as rest]

/-- the joined text starts by climbing iff its first component is `..` -/
theorem joinSep_climbs_iff {ts : List Name} (hok : ∀ n ∈ ts, NameOK n) :
    (joinSep ts = dotdot ∨ hasPrefix (joinSep ts) relParent = true) ↔ ts.head? = some dotdot := by
  cases ts with
  | nil => simp [joinSep, hasPrefix, relParent, dotdot]
  | cons x rest =>
    have hx := hok x (by simp)
    cases rest with
    | nil =>
      simp only [joinSep, List.head?_cons, Option.some.injEq]
      constructor
      · rintro (h | h)
        · exact h
        · exfalso
          unfold hasPrefix relParent at h
          have : '/' ∈ x := by
            have := List.isPrefixOf_iff_prefix.mp h
            obtain ⟨t, ht⟩ := this
            rw [← ht]; simp
          exact hx.2 this
      · intro h; exact Or.inl h
    | cons y r =>
      rw [joinSep_cons_cons]
      simp only [List.head?_cons, Option.some.injEq]
      constructor
      · rintro (h | h)
        · exfalso
          have : '/' ∈ dotdot := by rw [← h]; simp
          revert this; decide
        · unfold hasPrefix relParent at h
          have hsep := hx.2
          match x, hsep with
          | [], _ => simp at h
          | [a], _ => simp at h
          | [a, b], _ => simp at h; simp only [dotdot]; rw [← h.1, ← h.2]
          | a :: b :: c :: _, hsep =>
            simp at h
            exfalso; apply hsep; simp only [List.mem_cons]; right; right; left; exact h.2.2
      · intro h
        subst h
        right
        simp [hasPrefix, relParent, dotdot]

theorem isPrefixOf_append_self (as rest : List Name) : as.isPrefixOf (as ++ rest) = true :=
  List.isPrefixOf_iff_prefix.mpr ⟨rest, rfl⟩

/-- Soundness: whatever `relInside` accepts is component-wise inside. -/
theorem within_of_relInside {d p r : Path} (h : relInside d p = some r) : Within d p := by
  unfold relInside rel at h
  unfold Within WithinC
  have hb := cleanC_canon d
  have ht := cleanC_canon p
  generalize cleanC d = b at *
  generalize cleanC p = t at *
  simp only at h
  by_cases hbt : b = t
  · subst hbt
    refine ⟨rfl, ?_, ?_⟩
    · exact List.isPrefixOf_iff_prefix.mpr (List.prefix_refl _)
    · simp
  · simp only [hbt, if_false] at h
    by_cases hr : b.rooted = t.rooted
    · simp only [hr, ne_eq, not_true_eq_false, if_false] at h
      -- the Go quirk: an unrooted "." target keeps one element
      generalize htc : (if (!t.rooted && decide (t.comps = [])) = true then [dot] else t.comps) = tcomps at h
      obtain ⟨c, h1, h2, h3⟩ := stripCommon_spec b.comps tcomps
      generalize hsc : stripCommon b.comps tcomps = sc at *
      rcases sc with ⟨bs, ts⟩
      simp only at h h1 h2 h3
      cases bs with
      | nil =>
        simp only at h
        simp only [List.append_nil] at h1
        -- r = joinSep ts does not climb, so the head of ts is not `..`
        have hquirk : tcomps = t.comps := by
          rw [← htc]
          split
          · rename_i hq
            simp at hq
            exfalso
            -- t = "." unrooted; tcomps = [dot]; b.comps is a prefix of [dot]
            rw [← htc] at h2
            simp [hq] at h2
            have : b.comps = [] ∨ b.comps = [dot] := by
              rw [h1]
              cases c with
              | nil => left; rfl
              | cons x xs =>
                right
                have := congrArg List.length h2
                simp at this
                have hxs : xs = [] := by
                  cases xs with
                  | nil => rfl
                  | cons _ _ => simp at this
                subst hxs
                simp at h2
                simp [h2.1]
            rcases this with e | e
            · apply hbt
              rcases b with ⟨br, bc⟩; rcases t with ⟨tr, tc⟩
              simp at e hr hq ⊢
              exact ⟨hr, e.trans hq.2.symm⟩
            · have := (hb.ok dot (by rw [e]; simp)).2
              exact this rfl
          · rfl
        rw [hquirk] at h2
        refine ⟨hr, ?_, ?_⟩
        · rw [h2, ← h1]; exact isPrefixOf_append_self _ _
        · rw [h2, ← h1]
          simp only [List.drop_left]
          have htsok : ∀ n ∈ ts, NameOK n := fun n hn => (ht.ok n (by rw [h2]; simp [hn])).1
          have hclimb := joinSep_climbs_iff htsok
          split at h
          · cases h
          · rename_i hnc
            simp only [Bool.or_eq_true, decide_eq_true_eq, not_or] at hnc
            have hhead : ts.head? ≠ some dotdot := by
              intro e
              rcases hclimb.mpr e with e1 | e1
              · exact hnc.1 e1
              · exact hnc.2 (by simpa using e1)
            intro hmem
            cases ts with
            | nil => simp at hmem
            | cons x xs =>
              simp at hhead
              rcases List.mem_cons.mp hmem with e | hm
              · exact hhead e.symm
              · have hl := ht.lead
                unfold DDLeading at hl
                rw [h2] at hl
                have := (List.pairwise_append.mp hl).2.1
                exact (List.pairwise_cons.mp this).1 dotdot hm hhead rfl
      | cons b0 brest =>
        exfalso
        simp only at h
        by_cases hb0 : b0 = dotdot
        · simp [hb0] at h
        · simp only [hb0, if_false] at h
          -- the result starts with `..`
          have : ((b0 :: brest).map (fun _ => dotdot) ++ ts).head? = some dotdot := by simp
          have hok : ∀ n ∈ ((b0 :: brest).map (fun _ => dotdot) ++ ts), NameOK n := by
            intro n hn
            rcases List.mem_append.mp hn with hn | hn
            · obtain ⟨_, _, e⟩ := List.mem_map.mp hn
              rw [← e]; exact nameOK_dotdot
            · by_cases hq : (!t.rooted && decide (t.comps = [])) = true
              · simp [hq] at htc
                rw [← htc] at h2
                have : n ∈ [dot] := by rw [h2]; simp [hn]
                simp at this; subst this
                unfold NameOK dot; decide
              · simp only [hq] at htc
                rw [← htc] at h2
                simp only [Bool.false_eq_true, if_false] at h2
                exact (ht.ok n (by rw [h2]; simp [hn])).1
          have hc := (joinSep_climbs_iff hok).mpr this
          split at h
          · cases h
          · rename_i hnc
            simp only [Bool.or_eq_true, decide_eq_true_eq, not_or] at hnc
            rcases hc with e | e
            · exact hnc.1 e
            · exact hnc.2 (by simpa using e)
    · simp [hr] at h

end BFS

namespace BFS

theorem isPrefixOf_decompose {as bs : List Name} (h : as.isPrefixOf bs = true) :
    bs = as ++ bs.drop as.length := by
  obtain ⟨t, ht⟩ := List.isPrefixOf_iff_prefix.mp h
  rw [← ht]; simp

/-- Completeness: everything component-wise inside is accepted, and the relative path returned
is the remainder (or `"."`). -/
theorem relInside_of_within {d p : Path} (h : Within d p) :
    relInside d p = some (if (cleanC p).comps.drop (cleanC d).comps.length = [] then dot
      else joinSep ((cleanC p).comps.drop (cleanC d).comps.length)) := by
  unfold Within WithinC at h
  unfold relInside rel
  have hb := cleanC_canon d
  have ht := cleanC_canon p
  generalize cleanC d = b at *
  generalize cleanC p = t at *
  obtain ⟨hr, hpre, hnodd⟩ := h
  have hdec := isPrefixOf_decompose hpre
  generalize hrest : t.comps.drop b.comps.length = rest at *
  simp only
  by_cases hbt : b = t
  · subst hbt
    have : rest = [] := by rw [← hrest]; simp
    subst this
    simp only [if_true]
    decide
  · simp only [hbt, if_false, hr, ne_eq, not_true_eq_false]
    have hrne : rest ≠ [] := by
      intro e
      apply hbt
      rcases b with ⟨br, bc⟩; rcases t with ⟨tr, tc⟩
      simp at hr hdec ⊢
      rw [e] at hdec; simp at hdec
      exact ⟨hr, hdec.symm⟩
    have hq : (!t.rooted && decide (t.comps = [])) = false := by
      cases hc : decide (t.comps = []) with
      | false => simp
      | true =>
        exfalso
        have : t.comps = [] := of_decide_eq_true hc
        rw [this] at hdec
        have := congrArg List.length hdec
        simp at this
        exact hrne (List.length_eq_zero_iff.mp (by omega))
    simp only [hq, Bool.false_eq_true, if_false]
    conv => lhs; rw [hdec, stripCommon_prefix]
    simp only [hrne, if_false]
    have hok : ∀ n ∈ rest, NameOK n := fun n hn => (ht.ok n (by rw [hdec]; simp [hn])).1
    have hclimb := joinSep_climbs_iff hok
    have hhead : rest.head? ≠ some dotdot := by
      intro e
      cases rest with
      | nil => simp at e
      | cons x xs => simp at e; exact hnodd (by simp [e])
    have h1 : ¬ (joinSep rest = dotdot) := fun e => hhead (hclimb.mp (Or.inl e))
    have h2 : ¬ (hasPrefix (joinSep rest) relParent = true) := fun e => hhead (hclimb.mp (Or.inr e))
    simp [h1, h2]

theorem relInside_isSome_iff {d p : Path} : (relInside d p).isSome = true ↔ Within d p := by
  constructor
  · intro h
    cases hr : relInside d p with
    | none => rw [hr] at h; cases h
    | some r => exact within_of_relInside hr
  · intro h; rw [relInside_of_within h]; rfl

end BFS
