import Lemmas
import Lemmas.F16Str
/-!
  Lemmas/PNStr.lean — string-level facts about rendered cleaned paths (`CPath.render`) needed for the
  names PrefixFS reports: the text of `pre/…` as `pre ++ "/" ++ rest`, `filepath.Base` of a rendered
  path, and when a single name can have a cleaned path as a string prefix.
  Everything here is for arbitrary path strings (rooted or not, any length).
-/
namespace BFS
namespace PN

/-- the text of a cleaned path with components `a ++ b` is the text of `a`, a separator, and `b` -/
theorem render_append {r : Bool} {a b : List Name} (ha : a ≠ []) (hb : b ≠ []) :
    CPath.render ⟨r, a ++ b⟩ = CPath.render ⟨r, a⟩ ++ '/' :: joinSep b := by
  unfold CPath.render
  cases r with
  | true =>
    simp only [if_true]
    rw [F16.joinSep_append a b ha hb]
    rfl
  | false =>
    have hab : a ++ b ≠ [] := by simp [ha]
    simp only [Bool.false_eq_true, if_false, ha, hab]
    exact F16.joinSep_append a b ha hb

/-- the text of a rooted cleaned path is `/` followed by its components -/
theorem render_rooted (b : List Name) : CPath.render ⟨true, b⟩ = '/' :: joinSep b := by
  simp [CPath.render]

theorem render_unrooted {b : List Name} (hb : b ≠ []) : CPath.render ⟨false, b⟩ = joinSep b := by
  simp [CPath.render, hb]

/-- a cleaned path string is the rendering of its component form -/
theorem eq_render_of_clean {x : Path} (h : clean x = x) : x = (cleanC x).render := by
  conv => lhs; rw [← h]
  rfl

/-- two cleaned strings with the same component form are equal -/
theorem eq_of_cleanC_eq {x y : Path} (hx : clean x = x) (hy : clean y = y) (h : cleanC x = cleanC y) :
    x = y := by
  rw [eq_render_of_clean hx, eq_render_of_clean hy, h]

theorem getLast_mem_ne {b : List Name} (hb : b ≠ []) : b.getLast hb ∈ b := List.getLast_mem hb

/-! ### `filepath.Base` -/

theorem name_getLast_ne_sep {n : Name} (hn : NameOK n) : n.getLast hn.1 ≠ '/' := by
  intro e
  apply hn.2
  rw [← e]
  exact List.getLast_mem hn.1

theorem stripTrailingSeps_append_name (x : Path) {n : Name} (hn : NameOK n) :
    stripTrailingSeps (x ++ n) = x ++ n := by
  have : x ++ n = (x ++ n.dropLast) ++ [n.getLast hn.1] := by
    rw [List.append_assoc, List.dropLast_concat_getLast]
  rw [this]
  exact stripTrailingSeps_snoc _ (name_getLast_ne_sep hn)

/-- `Base(x + "/" + n) = n` for an entry name `n` -/
theorem base_append_sep_name (x : Path) {n : Name} (hn : NameOK n) : base (x ++ '/' :: n) = n := by
  have hs : stripTrailingSeps (x ++ '/' :: n) = x ++ '/' :: n := by
    have : x ++ '/' :: n = (x ++ ['/']) ++ n := by simp
    rw [this]
    exact stripTrailingSeps_append_name _ hn
  unfold base
  rw [if_neg (by simp)]
  simp only [hs]
  unfold afterLastSep
  rw [uptoLastSep_append x n hn.2]
  have : x ++ '/' :: n = (x ++ ['/']) ++ n := by simp
  rw [this, List.drop_left, if_neg hn.1]

/-- `Base(n) = n` for an entry name `n` -/
theorem base_name {n : Name} (hn : NameOK n) : base n = n := by
  have hs : stripTrailingSeps n = n := by
    have := stripTrailingSeps_append_name [] hn
    simpa using this
  unfold base
  rw [if_neg hn.1]
  simp only [hs]
  unfold afterLastSep
  rw [uptoLastSep_sepfree n hn.2]
  simp only [List.length_nil, List.drop_zero]
  rw [if_neg hn.1]

theorem joinSep_getLast {b : List Name} (hb : b ≠ []) :
    joinSep b = b.getLast hb ∨ ∃ x, joinSep b = x ++ '/' :: b.getLast hb := by
  by_cases h1 : b.dropLast = []
  · left
    have : b = [b.getLast hb] := by
      conv => lhs; rw [← List.dropLast_concat_getLast hb, h1]
      rfl
    conv => lhs; rw [this]
    rfl
  · right
    refine ⟨joinSep b.dropLast, ?_⟩
    conv => lhs; rw [← List.dropLast_concat_getLast hb]
    exact F16.joinSep_append _ _ h1 (by simp)

/-- `Base` of a cleaned path with at least one component is its last component -/
theorem base_render {r : Bool} {b : List Name} (hb : b ≠ []) (hok : ∀ n ∈ b, NameOK n) :
    base (CPath.render ⟨r, b⟩) = b.getLast hb := by
  have hl := hok _ (List.getLast_mem hb)
  cases r with
  | true =>
    rw [render_rooted]
    rcases joinSep_getLast hb with h | ⟨x, h⟩
    · rw [h]
      exact base_append_sep_name [] hl
    · rw [h]
      have : '/' :: (x ++ '/' :: b.getLast hb) = ('/' :: x) ++ '/' :: b.getLast hb := rfl
      rw [this]
      exact base_append_sep_name _ hl
  | false =>
    rw [render_unrooted hb]
    rcases joinSep_getLast hb with h | ⟨x, h⟩
    · rw [h]; exact base_name hl
    · rw [h]; exact base_append_sep_name _ hl

/-! ### string prefixes -/

/-- a string containing a separator is never a string prefix of an entry name -/
theorem hasPrefix_name_false {n : Name} {pre : Path} (hn : NameOK n) (hp : '/' ∈ pre) :
    hasPrefix n pre = false := by
  cases h : hasPrefix n pre with
  | false => rfl
  | true =>
    exfalso
    unfold hasPrefix at h
    obtain ⟨t, ht⟩ := List.isPrefixOf_iff_prefix.mp h
    apply hn.2
    rw [← ht]
    exact List.mem_append_left _ hp

theorem hasPrefix_append (pre x : Path) : hasPrefix (pre ++ x) pre = true := by
  unfold hasPrefix
  exact List.isPrefixOf_iff_prefix.mpr ⟨x, rfl⟩

theorem trimPrefix_append (pre x : Path) : trimPrefix (pre ++ x) pre = x := by
  unfold trimPrefix
  have : pre.isPrefixOf (pre ++ x) = true := List.isPrefixOf_iff_prefix.mpr ⟨x, rfl⟩
  rw [if_pos this, List.drop_left]

/-- a cleaned path string contains a separator iff it is rooted or has at least two components -/
theorem sep_mem_render {c : CPath} (h : c.rooted = true ∨ 2 ≤ c.comps.length) : '/' ∈ c.render := by
  rcases c with ⟨r, b⟩
  cases r with
  | true => rw [render_rooted]; simp
  | false =>
    rcases h with h | h
    · cases h
    · match b, h with
      | x :: y :: rest, _ =>
        rw [render_unrooted (by simp), joinSep_cons_cons]
        simp

end PN
end BFS
