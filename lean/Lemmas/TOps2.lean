import Lemmas.TOps
/-!
  Lemmas/TOps2.lean — transparency (C03): Create / OpenFile with the writes through the handle,
  and the instances of `single_transp` for Mkdir, MkdirAll, Remove, Chmod, Chown, Lchown, Chtimes.
-/
namespace BFS
open BackupFS MFS

section
variable {bk kk : Key}

/-! ### the write through a handle, on healthy filesystems -/

theorem sat_hWrite_nf {cfg : Cfg} {wh : WHandle} {off : Nat} {data : String} {w : World} (hnf : w.faults = []) :
    Sat (hWrite cfg wh off data) w (fun w' r =>
      w'.fs = ((cfg.side wh.side).hwrite w.fs wh.h off data).1 ∧
      r = ((cfg.side wh.side).hwrite w.fs wh.h off data).2 ∧ w'.faults = []) := by
  unfold hWrite
  apply Sat.bind
  apply (sat_primH_nf hnf).mono
  intro w1 r1 ⟨hs1, hr1⟩
  subst hr1
  simp only
  unfold Sat
  simp only [hs1.fs]
  exact ⟨trivial, trivial, hs1.faults.trans hnf⟩

theorem sat_writeClose_nf {cfg : Cfg} {wh : WHandle} {data : String} {w : World} (hnf : w.faults = []) :
    Sat (writeClose cfg wh data) w (fun w' r =>
      w'.fs = (directWrite (cfg.side wh.side) w.fs wh.h data).1 ∧
      r = .ok (directWrite (cfg.side wh.side) w.fs wh.h data).2) := by
  unfold writeClose directWrite
  apply Sat.bind
  apply Sat.attempt
  cases hemp : data.isEmpty with
  | true =>
    simp only [Bool.not_true]
    apply Sat.whenM
    · intro h; cases h
    · intro _
      simp only
      apply Sat.bind
      apply Sat.attempt
      apply (sat_primH_nf (wh := wh) (method := "close") (extra := []) (mu := false) hnf).mono
      intro w1 r1 ⟨hs1, hr1⟩
      subst hr1
      simp only
      apply Sat.pure
      exact ⟨hs1.fs, rfl⟩
  | false =>
    simp only [Bool.not_false]
    apply Sat.whenM
    · intro _
      apply (sat_hWrite_nf (cfg := cfg) (wh := wh) (off := 0) (data := data) hnf).mono
      intro w1 r1 ⟨hfs1, hr1, hnf1⟩
      cases hw : (cfg.side wh.side).hwrite w.fs wh.h 0 data with
      | mk m' r =>
        rw [hw] at hfs1 hr1
        simp only at hfs1 hr1
        subst hr1
        cases r1 with
        | error e =>
          simp only
          apply Sat.bind
          apply Sat.attempt
          apply (sat_primH_nf (wh := wh) (method := "close") (extra := []) (mu := false) hnf1).mono
          intro w2 r2 ⟨hs2, _⟩
          apply Sat.pure
          simp only [Bool.false_eq_true, if_false]
          exact ⟨hs2.fs.trans hfs1, trivial⟩
        | ok u =>
          simp only
          apply Sat.bind
          apply Sat.attempt
          apply (sat_primH_nf (wh := wh) (method := "close") (extra := []) (mu := false) hnf1).mono
          intro w2 r2 ⟨hs2, hr2⟩
          subst hr2
          simp only
          apply Sat.pure
          simp only [Bool.false_eq_true, if_false]
          exact ⟨hs2.fs.trans hfs1, trivial⟩
    · intro h; cases h

/-- opening on the base, on healthy filesystems -/
theorem sat_primOpen_nf {cfg : Cfg} {c : Call} {w : World} (hnf : w.faults = []) :
    Sat (primOpen cfg .base c) w (fun w' r =>
      w'.fs = ((cfg.side .base).call w.fs c).1 ∧ w'.faults = [] ∧
      (match ((cfg.side .base).call w.fs c).2 with
       | .ok (.handle h) => ∃ wh, r = .ok wh ∧ wh.h = h ∧ wh.side = .base
       | .ok _ => r = .error .other
       | .error e => r = .error e)) := by
  unfold primOpen
  apply Sat.bind
  apply (sat_primCall_nf hnf).mono
  intro w1 r ⟨hfs, hr, _, hf⟩
  rw [← hr]
  cases r with
  | error e => exact ⟨hfs, hf.trans hnf, rfl⟩
  | ok ret =>
    cases ret with
    | handle h =>
      apply Sat.pure
      exact ⟨hfs, hf.trans hnf, _, rfl, rfl, rfl⟩
    | unit => exact ⟨hfs, hf.trans hnf, rfl⟩
    | info i => exact ⟨hfs, hf.trans hnf, rfl⟩
    | str s => exact ⟨hfs, hf.trans hnf, rfl⟩

/-- the tail of `creat`/`write` after the handle is there, against `directOpen` on a related disk -/
theorem open_tail_transp {c1 c2 : Call} {data : String} {w : World} {m : MFS} (hnf : w.faults = [])
    (hres : ((baseFS bk kk).call w.fs c1).2 = ((baseFS bk kk).call m c2).2)
    (htw : Twin bk kk ((baseFS bk kk).call w.fs c1).1 ((baseFS bk kk).call m c2).1)
    (hkey : ∀ h, ((baseFS bk kk).call m c2).2 = .ok (.handle h) → ∃ k, h.key = bk ++ k) :
    Sat (do
        let h ← primOpen (osCfg bk kk) .base c1
        let o ← writeClose (osCfg bk kk) h data
        pure (OpOut.written h o) : M OpOut) w
      (fun w' r => Transp bk kk w' r (directOpen (baseFS bk kk) m c2 data)) := by
  apply Sat.bind
  apply (sat_primOpen_nf (cfg := osCfg bk kk) (c := c1) hnf).mono
  intro w1 r1 ⟨hfs, hnf1, hmatch⟩
  have hfs' : w1.fs = ((baseFS bk kk).call w.fs c1).1 := hfs
  have hmatch' : (match ((baseFS bk kk).call w.fs c1).2 with
       | .ok (.handle h) => ∃ wh, r1 = .ok wh ∧ wh.h = h ∧ wh.side = .base
       | .ok _ => r1 = .error .other
       | .error e => r1 = .error e) := hmatch
  rw [hres] at hmatch'
  rw [← hfs'] at htw
  unfold directOpen
  cases hc : (baseFS bk kk).call m c2 with
  | mk m1 rr =>
    rw [hc] at hmatch' htw hkey
    simp only at hmatch' htw hkey
    cases rr with
    | error e =>
      simp only at hmatch'
      subst hmatch'
      exact ⟨Or.inl rfl, htw⟩
    | ok ret =>
      cases ret with
      | handle h =>
        simp only at hmatch'
        obtain ⟨wh, rfl, hwh, hside⟩ := hmatch'
        obtain ⟨k, hk⟩ := hkey h rfl
        simp only
        apply Sat.bind
        apply (sat_writeClose_nf (cfg := osCfg bk kk) (wh := wh) (data := data) hnf1).mono
        intro w2 r2 ⟨hfs2, hr2⟩
        subst hr2
        simp only
        apply Sat.pure
        rw [hside, hwh] at hfs2 ⊢
        -- the two writes
        have hrel : (directWrite (baseFS bk kk) w1.fs h data).2 = (directWrite (baseFS bk kk) m1 h data).2 ∧
            Twin bk kk (directWrite (baseFS bk kk) w1.fs h data).1 (directWrite (baseFS bk kk) m1 h data).1 := by
          unfold directWrite
          split
          · exact ⟨rfl, htw⟩
          · obtain ⟨a, b⟩ := base_hwrite_rel htw hk 0 data
            cases h1 : (baseFS bk kk).hwrite w1.fs h 0 data with
            | mk a1 r1 =>
              cases h2 : (baseFS bk kk).hwrite m1 h 0 data with
              | mk a2 r2 =>
                rw [h1, h2] at a b
                simp only at a b
                subst a
                cases r1 <;> exact ⟨rfl, b⟩
        refine ⟨?_, ?_⟩
        · show (OpOut.written wh _).data = _
          simp only [OpOut.data, hwh]
          rw [hrel.1]
        · show Twin bk kk w2.fs _
          rw [hfs2]
          exact hrel.2
      | unit =>
        simp only at hmatch'
        subst hmatch'
        exact ⟨Or.inl rfl, htw⟩
      | info i =>
        simp only at hmatch'
        subst hmatch'
        exact ⟨Or.inl rfl, htw⟩
      | str s =>
        simp only at hmatch'
        subst hmatch'
        exact ⟨Or.inl rfl, htw⟩

/-- Create / OpenFile-for-writing: `prepare`, open on the base, write through the handle, close -/
theorem open_transp (hr : Roots bk kk) {v0 : View} {r0 : Option Node} {w : World} {name : Path} {k : Key}
    {c : Path → Call} {data : String} (hinv : InvB (osSimR hr) v0 r0 w) (hk : PKey k) (hname : clean name = kp k)
    (hspell : ∀ m, (baseFS bk kk).call m (c name) = (baseFS bk kk).call m (c (kp k)))
    (hrel : ∀ m1 m2, Twin bk kk m1 m2 → CallRel bk kk m1 m2 (c (kp k)))
    (hfail : ∀ m, OSGood bk kk m → FileAnc (osView bk kk .base m) k →
      (baseFS bk kk).call m (c (kp k)) = (m, .error .notDir))
    (hkey : ∀ m h, OSGood bk kk m → ((baseFS bk kk).call m (c (kp k))).2 = .ok (.handle h) → h.key = bk ++ k) :
    Sat (do
        let h ← (prepare (osCfg bk kk) name >>= fun r => primOpen (osCfg bk kk) .base (c r))
        let o ← writeClose (osCfg bk kk) h data
        pure (OpOut.written h o) : M OpOut) w
      (fun w' r => Transp bk kk w' r (directOpen (baseFS bk kk) w.fs (c name) data)) := by
  have hassoc : (do
        let h ← (prepare (osCfg bk kk) name >>= fun r => primOpen (osCfg bk kk) .base (c r))
        let o ← writeClose (osCfg bk kk) h data
        pure (OpOut.written h o) : M OpOut) =
      (prepare (osCfg bk kk) name >>= fun r => (do
        let h ← primOpen (osCfg bk kk) .base (c r)
        let o ← writeClose (osCfg bk kk) h data
        pure (OpOut.written h o) : M OpOut)) := by
    funext w0
    simp only [M.bind_apply]
    cases prepare (osCfg bk kk) name w0 with
    | mk w1 r => cases r <;> rfl
  rw [hassoc]
  apply Sat.bind
  apply ((sat_prepareT hinv hk hname).and
    (show Sat (prepare (osCfg bk kk) name) w (fun w' _ => w'.fs.umask = w.fs.umask) from
      prepare_ku (osCfg_keeps_umask bk kk) name w)).mono
  intro w1 r ⟨⟨hadv, hok, hfl⟩, hu⟩
  have htw := twin_of_adv hr hinv hadv hu
  cases r with
  | error e =>
    obtain ⟨he, hfa⟩ := hfl e rfl
    have hcall := hfail w.fs hinv.good hfa
    unfold directOpen
    rw [hspell, hcall]
    exact ⟨by rw [he]; exact Or.inr ⟨rfl, rfl⟩, htw⟩
  | ok p =>
    obtain ⟨hp, _⟩ := hok p rfl
    subst hp
    simp only
    obtain ⟨hres, htw2⟩ := hrel w1.fs w.fs htw
    have hd : directOpen (baseFS bk kk) w.fs (c name) data = directOpen (baseFS bk kk) w.fs (c (kp k)) data := by
      unfold directOpen; rw [hspell]
    rw [hd]
    exact open_tail_transp hadv.inv.nofault hres htw2 (fun h hh => ⟨k, hkey w.fs h hinv.good hh⟩)

/-! ### the instances -/

variable (hr : Roots bk kk) {v0 : View} {r0 : Option Node} {w : World} {name : Path} {k : Key}

theorem mkdir_transp (hinv : InvB (osSimR hr) v0 r0 w) (hk : PKey k) (hname : clean name = kp k) (perm : Nat) :
    Sat (Op.exec (osCfg bk kk) (.mkdir name perm)) w
      (fun w' r => Transp bk kk w' r (Op.direct (baseFS bk kk) w.fs (.mkdir name perm))) :=
  single_transp hr (c := fun r => .mkdir r perm) hinv hk hname
    (fun m => (base_call_spelling m hk hname).2.1 perm)
    (fun _ _ h => base_mkdir_rel hr h hk perm)
    (fun _ hg hf => (base_call_fileAnc hr hg hk hf).2.1 perm)

theorem mkdirAll_transp (hinv : InvB (osSimR hr) v0 r0 w) (hk : PKey k) (hname : clean name = kp k) (perm : Nat) :
    Sat (Op.exec (osCfg bk kk) (.mkdirAll name perm)) w
      (fun w' r => Transp bk kk w' r (Op.direct (baseFS bk kk) w.fs (.mkdirAll name perm))) :=
  single_transp hr (c := fun r => .mkdirAll r perm) hinv hk hname
    (fun m => (base_call_spelling m hk hname).2.2.1 perm)
    (fun _ _ h => base_mkdirAll_rel hr h hk perm)
    (fun _ hg hf => (base_call_fileAnc hr hg hk hf).2.2.1 perm)

theorem remove_transp (hinv : InvB (osSimR hr) v0 r0 w) (hk : PKey k) (hne : k ≠ []) (hname : clean name = kp k) :
    Sat (Op.exec (osCfg bk kk) (.remove name)) w
      (fun w' r => Transp bk kk w' r (Op.direct (baseFS bk kk) w.fs (.remove name))) :=
  single_transp hr (c := fun r => .remove r) hinv hk hname
    (fun m => (base_call_spelling m hk hname).2.2.2.2.1)
    (fun _ _ h => base_remove_rel hr h hk hne)
    (fun _ hg hf => (base_call_fileAnc hr hg hk hf).2.2.2.2.1)

theorem chmod_transp (hinv : InvB (osSimR hr) v0 r0 w) (hk : PKey k) (hname : clean name = kp k) (mode : Nat) :
    Sat (Op.exec (osCfg bk kk) (.chmod name mode)) w
      (fun w' r => Transp bk kk w' r (Op.direct (baseFS bk kk) w.fs (.chmod name mode))) :=
  single_transp hr (c := fun r => .chmod r mode) hinv hk hname
    (fun m => (base_call_spelling m hk hname).2.2.2.2.2.2.1 mode)
    (fun _ _ h => base_chmod_rel hr h hk mode)
    (fun _ hg hf => (base_call_fileAnc hr hg hk hf).2.2.2.2.2.2.1 mode)

theorem chown_transp (hinv : InvB (osSimR hr) v0 r0 w) (hk : PKey k) (hname : clean name = kp k) (u g : Int) :
    Sat (Op.exec (osCfg bk kk) (.chown name u g)) w
      (fun w' r => Transp bk kk w' r (Op.direct (baseFS bk kk) w.fs (.chown name u g))) :=
  single_transp hr (c := fun r => .chown r u g) hinv hk hname
    (fun m => (base_call_spelling m hk hname).2.2.2.2.2.2.2.1 u g)
    (fun _ _ h => base_chown_rel hr h hk u g)
    (fun _ hg hf => (base_call_fileAnc hr hg hk hf).2.2.2.2.2.2.2.1 u g)

theorem lchown_transp (hinv : InvB (osSimR hr) v0 r0 w) (hk : PKey k) (hname : clean name = kp k) (u g : Int) :
    Sat (Op.exec (osCfg bk kk) (.lchown name u g)) w
      (fun w' r => Transp bk kk w' r (Op.direct (baseFS bk kk) w.fs (.lchown name u g))) :=
  single_transp hr (c := fun r => .lchown r u g) hinv hk hname
    (fun m => (base_call_spelling m hk hname).2.2.2.2.2.2.2.2.1 u g)
    (fun _ _ h => base_lchown_rel hr h hk u g)
    (fun _ hg hf => (base_call_fileAnc hr hg hk hf).2.2.2.2.2.2.2.2.1 u g)

theorem chtimes_transp (hinv : InvB (osSimR hr) v0 r0 w) (hk : PKey k) (hname : clean name = kp k) (t : Time) :
    Sat (Op.exec (osCfg bk kk) (.chtimes name t)) w
      (fun w' r => Transp bk kk w' r (Op.direct (baseFS bk kk) w.fs (.chtimes name t))) :=
  single_transp hr (c := fun r => .chtimes r t t) hinv hk hname
    (fun m => (base_call_spelling m hk hname).2.2.2.2.2.2.2.2.2.1 t t)
    (fun _ _ h => base_chtimes_rel hr h hk t t)
    (fun _ hg hf => (base_call_fileAnc hr hg hk hf).2.2.2.2.2.2.2.2.2 t t)

theorem creat_transp (hinv : InvB (osSimR hr) v0 r0 w) (hk : PKey k) (hname : clean name = kp k) (data : String) :
    Sat (Op.exec (osCfg bk kk) (.creat name data)) w
      (fun w' r => Transp bk kk w' r (Op.direct (baseFS bk kk) w.fs (.creat name data))) :=
  open_transp hr (c := fun r => .create r) hinv hk hname
    (fun m => (base_call_spelling m hk hname).1)
    (fun _ _ h => base_create_rel hr h hk)
    (fun _ hg hf => (base_call_fileAnc hr hg hk hf).1)
    (fun m h hg hh => ((os_create_frame (s := .base) hr hg hk (Prod.ext rfl rfl)).2.2.2 h hh).1)

end

end BFS
