import Lemmas.LR2Split
import Lemmas.R2Recover
/-!
  Lemmas/LR2Recover.lean — "originals stay recoverable" over an `LSim` (trees with symlinks as leaves):
  the counterpart of Lemmas/R2Recover.lean for the invariant `L.Inv`.

  * `L.Inv.recoverable` — the per-entry disjunction read off the transaction invariant: an original is
    untracked and still in the base, or tracked with an info that describes it and copied in the backup
    (regular file: content; SYMLINK: a symlink with the same reported target text, which the base admits).
  * `L.rollback_crash_dichotomy` — Rollback started from a state satisfying the invariant and run under ANY
    crash-only fault plan: on the disk it leaves behind EITHER every key of the base below the root shows
    its original, OR (`MidRestore`) the backup view is exactly what it was when Rollback began, the base is
    unchanged outside the footprint of the tracked map, and a symlink of the base was one before or sits at
    a key tracked as a symlink (the crash point lies in the restore half — possibly inside `restoreSymlink`).
  * `L.Inv.of_mid` — in the second case the transaction invariant still holds of the disk left behind, with
    the tracked map Rollback began with (the persisted tracking state, reloaded), PROVIDED no tracked key
    lies strictly below a key tracked as a symlink (`NoneBelowTrackedLinks`; forced, see Props/C02RL.lean);
    hence `second_rollback_restores`: a second Rollback on healthy filesystems restores the base.
-/
namespace BFS
namespace L
open BackupFS

variable {cfg : Cfg} {S : LSim cfg} {v0 : View}

/-- the literal per-entry form of the invariant -/
theorem Inv.recoverable {w : World} (h : Inv S v0 w) {k : Key} {node : Node} (hv : v0 k = some node) :
    (w.infos.lookup (kp k) = none ∧ S.view .base w.fs k = some node) ∨
    (∃ i, TS w k i ∧ InfoForL i node ∧
      (∀ c mt, node = .file c mt → ∃ mt', S.view .backup w.fs k = some (.file c mt')) ∧
      (∀ t mt, node = .link t mt → (∃ mt', S.view .backup w.fs k = some (.link t mt')) ∧ S.LinkOK .base k t)) := by
  have hk : PKey k := h.v0_pkey (by rw [hv]; exact Option.some_ne_none _)
  rcases tracked_cases w k with hu | htn | ⟨i, hts⟩
  · exact Or.inl ⟨hu, by rw [h.frame k hk hu]; exact hv⟩
  · have := h.absent k hk htn
    rw [hv] at this; cases this
  · obtain ⟨n, hn, hfor, hcopy, hlcopy⟩ := h.saved k i hk hts
    rw [hv] at hn; cases hn
    exact Or.inr ⟨i, hts, hfor, hcopy, hlcopy⟩

/-- a key tracked with an info is present in the original view -/
theorem Inv.ts_present {w : World} (h : Inv S v0 w) {k : Key} {i : Info} (hk : PKey k) (hts : TS w k i) :
    v0 k ≠ none := by
  obtain ⟨n, hn, _⟩ := h.saved k i hk hts
  rw [hn]; exact Option.some_ne_none _

/-- a key tracked as a symlink was a symlink -/
theorem Inv.linkTracked_v0 {w : World} (h : Inv S v0 w) {a : Key} (hl : LinkTracked w.infos a) :
    isLinkAt v0 a := by
  obtain ⟨i, ⟨hk, _, hm⟩, hkind⟩ := hl
  obtain ⟨n, hn, hfor, _, _⟩ := h.saved a i hk (lookup_of_mem h.nodup hm)
  have hnk := hfor.1
  rw [hkind] at hnk
  cases n with
  | link t mt => exact ⟨t, mt, hn⟩
  | file c mt => cases hnk
  | dir mt => cases hnk

/-- no key tracked with an info lies strictly below a key tracked as a symlink: the originals form a tree -/
theorem Inv.no_ts_below_link {w : World} (h : Inv S v0 w) {a k : Key} {i : Info}
    (hl : LinkTracked w.infos a) (hk : PKey k) (hts : TS w k i) (hpre : a <+: k) : a = k := by
  apply Classical.byContradiction
  intro hne
  obtain ⟨t, mt, hla⟩ := h.linkTracked_v0 hl
  obtain ⟨md, hd⟩ := h.orig.ancestors (h.ts_present hk hts) hpre hne
  rw [hd] at hla; cases hla

theorem Inv.links_apart {w : World} (h : Inv S v0 w) : LinksApart w.infos := by
  intro a k ha hk hpre
  obtain ⟨i, ⟨hpk, _, hm⟩, _⟩ := hk
  exact h.no_ts_below_link ha hpk (lookup_of_mem h.nodup hm) hpre

/-- an untracked key lies outside the base footprint of the tracked map: it is not tracked itself and not
above a tracked directory (ancestors of tracked entries are tracked); nothing below a tracked regular
file is in the footprint, the backup copies being intact -/
theorem Inv.untracked_not_in_foot {w : World} (h : Inv S v0 w) {j : Key}
    (hu : w.infos.lookup (kp j) = none) : ¬ BaseFoot (S.view .backup w.fs) w.infos j := by
  intro hf
  obtain ⟨k, oi, ⟨hk, hne, hm⟩, ht⟩ := hf.named h.footprint_hyps.2.2.2.2
  have hl := lookup_of_mem h.nodup hm
  rcases ht with rfl | ⟨i, rfl, hkind, hpre⟩
  · rw [hu] at hl; cases hl
  · exact h.anc k i hk hl j hpre hu

/-- what a crash inside the restore half of Rollback leaves behind (`w`: the world Rollback began in) -/
structure MidRestore (S : LSim cfg) (w w' : World) : Prop where
  good : S.G w'.fs
  /-- the backup view is exactly what it was -/
  backup : ∀ j, S.view .backup w'.fs j = S.view .backup w.fs j
  /-- the base view is unchanged outside the footprint of the tracked map -/
  base : ∀ j, ¬ BaseFoot (S.view .backup w.fs) w.infos j → S.view .base w'.fs j = S.view .base w.fs j
  /-- a symlink of the base was one before or sits at a key tracked as a symlink -/
  links : ∀ j, isLinkAt (S.view .base w'.fs) j → isLinkAt (S.view .base w.fs) j ∨ LinkTracked w.infos j

/-- **Rollback under a crash plan, trees with symlinks as leaves.** -/
theorem rollback_crash_dichotomy {w : World} (hinv : Inv S v0 w) {fl : List Fault} (hfl : CrashOnly fl) :
    (crashed (restorePart cfg w.infos (withFaults fl w)).1 = false ∧
      S.G (rollback cfg (withFaults fl w)).1.fs ∧
      ∀ k, k ≠ [] → S.view .base (rollback cfg (withFaults fl w)).1.fs k = v0 k) ∨
    (crashed (restorePart cfg w.infos (withFaults fl w)).1 = true ∧
      MidRestore S w (rollback cfg (withFaults fl w)).1) := by
  obtain ⟨hkeys, hroot, hbase, hbackup, _⟩ := hinv.footprint_hyps
  have hapart := hinv.links_apart
  -- the restore half under the crash plan
  obtain ⟨res, hres⟩ := restorePart_total cfg w.infos (withFaults fl w)
  have hfoot := (sat_restorePart_foot (S := S) (w := withFaults fl w) (infos := w.infos) hinv.good hkeys hroot
    hbase hbackup hapart).elim
  obtain ⟨hf1, hplan⟩ := hfoot
  have hbk1 : S.view .backup (restorePart cfg w.infos (withFaults fl w)).1.fs = S.view .backup w.fs :=
    funext (fun j => hf1.backup j (fun h => h))
  have hpk : PlanKeysL (S.view .backup w.fs) res.1 := planOK_keysL (hplan res hres) hkeys hbackup
  have hsplit : rollback cfg (withFaults fl w) = cleanupPart cfg res (restorePart cfg w.infos (withFaults fl w)).1 := by
    rw [rollback_split, M.bind_apply]
    simp only [withFaults_infos]
    cases hrp : restorePart cfg w.infos (withFaults fl w) with
    | mk w1 r =>
      rw [hrp] at hres
      simp only at hres
      subst hres
      rfl
  rw [hsplit]
  cases hcr : crashed (restorePart cfg w.infos (withFaults fl w)).1 with
  | true =>
    -- the crash point lies in the restore half: the clean-up half is frozen
    obtain ⟨hfs, _⟩ := Frozen.cleanupPart (cfg := cfg) res _ hcr
    refine Or.inr ⟨rfl, ?_, ?_, ?_, ?_⟩
    · rw [hfs]; exact hf1.good
    · intro j; rw [hfs]; exact hf1.backup j (fun h => h)
    · intro j hj; rw [hfs]; exact hf1.base j hj
    · intro j hl; rw [hfs] at hl; exact hf1.links j hl
  | false =>
    -- no primitive of the restore half was refused: it ran as on healthy filesystems
    have hsim := (CS.restorePart (cfg := cfg) hfl w.infos).sim (withFaults [] w) rfl hcr
    have hsim' : restorePart cfg w.infos (withFaults fl w) =
        (withFaults fl (restorePart cfg w.infos (withFaults [] w)).1, (restorePart cfg w.infos (withFaults [] w)).2) := hsim
    have hresn : (restorePart cfg w.infos (withFaults [] w)).2 = .ok res := by
      rw [hsim'] at hres; exact hres
    -- the fault-free Rollback restores, and its clean-up half does not touch the base
    have hinvn : Inv S v0 (withFaults [] w) := hinv.with_faults []
    have hrb := (sat_rollback (cfg := cfg) hinvn rfl).elim
    have hfootn := (sat_restorePart_foot (S := S) (w := withFaults [] w) (infos := w.infos) hinv.good hkeys hroot
      hbase hbackup hapart).elim
    have hbkn : S.view .backup (restorePart cfg w.infos (withFaults [] w)).1.fs = S.view .backup w.fs :=
      funext (fun j => hfootn.1.backup j (fun h => h))
    have hsplitn : rollback cfg (withFaults [] w) = cleanupPart cfg res (restorePart cfg w.infos (withFaults [] w)).1 := by
      rw [rollback_split, M.bind_apply]
      simp only [withFaults_infos]
      cases hrp : restorePart cfg w.infos (withFaults [] w) with
      | mk w1 r =>
        rw [hrp] at hresn
        simp only at hresn
        subst hresn
        rfl
    rw [hsplitn] at hrb
    have hc1 := (sat_cleanupPart_foot (S := S) (r := res) hfootn.1.good (by rw [hbkn]; exact hpk)).elim
    have hc2 := (sat_cleanupPart_foot (S := S) (r := res) hf1.good (by rw [hbk1]; exact hpk)).elim
    refine Or.inl ⟨rfl, hc2.good, ?_⟩
    intro k hk
    rw [hc2.base k (fun h => h), ← hrb.2.2.1 k hk, hc1.base k (fun h => h), hsim']
    rfl

/-- no tracked key lies strictly below a key tracked as a symlink.  (Keys tracked WITH an info never do:
`Inv.no_ts_below_link`; the condition is about keys tracked as ABSENT — a path created in the place of a
symlink that the transaction had removed and replaced by a directory.) -/
def NoneBelowTrackedLinks (w : World) : Prop :=
  ∀ a k, LinkTracked w.infos a → PKey k → Tracked w k → a <+: k → a = k

/-- a decidable check of `NoneBelowTrackedLinks` on the tracked map itself (path strings): no tracked path
has, as a proper component-wise prefix, a path tracked as a symlink -/
def noneBelowTrackedLinksB (infos : List (Path × Option Info)) : Bool :=
  infos.all (fun e => match e.2 with
    | some i => i.kind != .link ||
        infos.all (fun e' => !(comps e.1).isPrefixOf (comps e'.1) || comps e.1 == comps e'.1)
    | none => true)

theorem noneBelowTrackedLinks_of_check {w : World} (h : noneBelowTrackedLinksB w.infos = true) :
    NoneBelowTrackedLinks w := by
  intro a k ⟨i, ⟨ha, _, hm⟩, hkind⟩ hk ht hpre
  have ht' : w.infos.lookup (kp k) ≠ none := ht
  cases hl : w.infos.lookup (kp k) with
  | none => exact absurd hl ht'
  | some x =>
    have hm' := mem_of_lookup hl
    unfold noneBelowTrackedLinksB at h
    have h1 := List.all_eq_true.mp h _ hm
    simp only [hkind, bne_self_eq_false, Bool.false_or] at h1
    have h2 := List.all_eq_true.mp h1 _ hm'
    simp only [comps_kp ha, comps_kp hk, Bool.or_eq_true, Bool.not_eq_true', beq_iff_eq] at h2
    rcases h2 with h2 | h2
    · have : a.isPrefixOf k = true := List.isPrefixOf_iff_prefix.mpr hpre
      rw [this] at h2; cases h2
    · exact h2

/-- **the invariant survives a crash in the restore half** (with the tracked map Rollback began with and
any fault plan), when no tracked key lies strictly below a key tracked as a symlink -/
theorem Inv.of_mid {w w' : World} (h : Inv S v0 w) (hm : MidRestore S w w') (hnb : NoneBelowTrackedLinks w)
    (fl : List Fault) : Inv S v0 { w' with infos := w.infos, faults := fl } := by
  have hbk : S.view .backup w'.fs = S.view .backup w.fs := funext hm.backup
  refine ⟨hm.good, h.orig, h.keys, h.nodup, ?_, h.absent, ?_, h.anc, ?_, ?_⟩
  · intro k hk hu
    show S.view .base w'.fs k = v0 k
    rw [hm.base k (h.untracked_not_in_foot hu)]
    exact h.frame k hk hu
  · intro k i hk hts
    show ∃ n, v0 k = some n ∧ InfoForL i n ∧
      (∀ c mt, n = .file c mt → ∃ mt', S.view .backup w'.fs k = some (.file c mt')) ∧
      (∀ t mt, n = .link t mt → (∃ mt', S.view .backup w'.fs k = some (.link t mt')) ∧ S.LinkOK .base k t)
    rw [hbk]
    exact h.saved k i hk hts
  · intro k hk ht a ha hne hl
    have ht' : Tracked w k := ht
    rcases hm.links a hl with h0 | hlt
    · exact h.blink k hk ht' a ha hne h0
    · exact hne (hnb a k hlt hk ht' ha)
  · intro k hl
    have hl' : isLinkAt (S.view .backup w.fs) k := by
      have : isLinkAt (S.view .backup w'.fs) k := hl
      rw [hbk] at this; exact this
    rcases h.bklinks k hl' with hleft | ⟨hu, hb⟩
    · exact Or.inl hleft
    · refine Or.inr ⟨hu, ?_⟩
      show isLinkAt (S.view .base w'.fs) k
      obtain ⟨t, mt, ht⟩ := hb
      exact ⟨t, mt, by rw [hm.base k (h.untracked_not_in_foot hu)]; exact ht⟩

/-- **a second Rollback after a crash in the restore half restores the base**: the process died inside the
restore half of Rollback (classification, removals, directories, files, or inside `restoreSymlink` —
e.g. between the `Remove` of the entry in the way and `Symlink`); it reloads the tracked map Rollback
began with and calls Rollback again, on healthy filesystems -/
theorem second_rollback_restores {w w' : World} (h : Inv S v0 w) (hm : MidRestore S w w')
    (hnb : NoneBelowTrackedLinks w) :
    S.G (rollback cfg { w' with infos := w.infos, faults := [] }).1.fs ∧
    ∀ k, k ≠ [] → S.view .base (rollback cfg { w' with infos := w.infos, faults := [] }).1.fs k = v0 k := by
  have hr := (sat_rollback (cfg := cfg) (h.of_mid hm hnb []) rfl).elim
  exact ⟨hr.1, hr.2.2.1⟩

end L
end BFS
