import Lemmas.TOps3
/-!
  Lemmas/TOps4.lean — transparency (C03): Rename.
-/
namespace BFS
open BackupFS MFS

section
variable {bk kk : Key}

theorem sat_primUnit_nf {cfg : Cfg} {c : Call} {w : World} (hnf : w.faults = []) :
    Sat (primUnit cfg .base c) w (fun w' r =>
      w'.fs = ((cfg.side .base).call w.fs c).1 ∧
      r = ((cfg.side .base).call w.fs c).2.map (fun _ => ())) := by
  unfold primUnit
  apply Sat.bind
  apply (sat_primCall_nf hnf).mono
  intro w1 r ⟨hfs, hr, _, _⟩
  cases r with
  | error e => exact ⟨hfs, by rw [← hr]; rfl⟩
  | ok a =>
    apply Sat.pure
    exact ⟨hfs, by rw [← hr]; rfl⟩

variable (hr : Roots bk kk) {v0 : View} {r0 : Option Node} {w : World}

theorem rename_transp {o n : Path} {ko kn : Key} (hinv : InvB (osSimR hr) v0 r0 w) (hko : PKey ko) (hkn : PKey kn)
    (ho : clean o = kp ko) (hn : clean n = kp kn) :
    Sat (Op.exec (osCfg bk kk) (.rename o n)) w
      (fun w' r => Transp bk kk w' r (Op.direct (baseFS bk kk) w.fs (.rename o n))) := by
  show Sat _ w (fun w' r => Transp bk kk w' r (directUnit (baseFS bk kk) w.fs (.rename o n)))
  have hd1 := directUnit_fst (baseFS bk kk) w.fs (.rename o n)
  have hd2 := directUnit_snd (baseFS bk kk) w.fs (.rename o n)
  rw [base_rename_spelling w.fs hko hkn ho hn] at hd1 hd2
  have hu := osCfg_keeps_umask bk kk
  -- a failed backup: the direct call fails too
  have hfailQ : ∀ w' : World, Twin bk kk w'.fs w.fs →
      (FileAnc (osView bk kk .base w.fs) ko ∨ FileAnc (osView bk kk .base w.fs) kn) →
      Transp bk kk w' (.error .typeMismatch) (directUnit (baseFS bk kk) w.fs (.rename o n)) := by
    intro w' htw hfa
    obtain ⟨e, hcall, he⟩ := base_rename_fileAnc hr hinv.good hko hkn hfa
    rw [hcall] at hd1 hd2
    refine ⟨?_, ?_⟩
    · rw [hd2]; exact Or.inr ⟨rfl, he⟩
    · rw [hd1]; exact htw
  unfold Op.exec BackupFS.rename
  apply Sat.bind
  apply Sat.bind
  apply ((sat_realPath (S := osSimR hr) hinv.good hko ho).and
    (sat_realPath_ok (S := osSimR hr) hinv.good hinv.nofault hko ho)).mono
  intro w1 r1 ⟨⟨hs1, hres1⟩, hok1⟩
  have hadv1 := AdvB.of_same hinv hs1
  obtain ⟨ro, hro⟩ := hok1
  subst hro
  have := hres1 ro rfl; subst this
  simp only
  apply Sat.bind
  apply ((sat_realPath (S := osSimR hr) hadv1.inv.good hkn hn).and
    (sat_realPath_ok (S := osSimR hr) hadv1.inv.good hadv1.inv.nofault hkn hn)).mono
  intro w2 r2 ⟨⟨hs2, hres2⟩, hok2⟩
  have hadv2 := hadv1.trans (AdvB.of_same hadv1.inv hs2)
  obtain ⟨rn, hrn⟩ := hok2
  subst hrn
  have := hres2 rn rfl; subst this
  simp only
  have hu2 : w2.fs.umask = w.fs.umask := by rw [hs2.fs, hs1.fs]
  apply Sat.bind
  apply ((sat_tryBackupT hadv2.inv hkn).and
    (show Sat (tryBackup (osCfg bk kk) (kp kn)) w2 (fun w' _ => w'.fs.umask = w2.fs.umask) from
      tryBackup_ku hu (kp kn) w2)).mono
  intro w3 r3 ⟨⟨hadv3', _, hfl3⟩, hu3'⟩
  have hadv3 := hadv2.trans hadv3'
  have hu3 : w3.fs.umask = w.fs.umask := hu3'.trans hu2
  cases r3 with
  | error e =>
    obtain ⟨he, hfa⟩ := hfl3 e rfl
    subst he
    apply hfailQ w3 (twin_of_adv hr hinv hadv3 hu3)
    right
    have : (osSimR hr).view .base w2.fs = (osSimR hr).view .base w.fs := hadv2.base
    rw [show osView bk kk .base w.fs = (osSimR hr).view .base w.fs from rfl, ← this]
    exact hfa
  | ok u3 =>
    simp only
    apply Sat.bind
    apply ((sat_tryBackupT hadv3.inv hko).and
      (show Sat (tryBackup (osCfg bk kk) (kp ko)) w3 (fun w' _ => w'.fs.umask = w3.fs.umask) from
        tryBackup_ku hu (kp ko) w3)).mono
    intro w4 r4 ⟨⟨hadv4', _, hfl4⟩, hu4'⟩
    have hadv4 := hadv3.trans hadv4'
    have hu4 : w4.fs.umask = w.fs.umask := hu4'.trans hu3
    cases r4 with
    | error e =>
      obtain ⟨he, hfa⟩ := hfl4 e rfl
      subst he
      apply hfailQ w4 (twin_of_adv hr hinv hadv4 hu4)
      left
      have : (osSimR hr).view .base w3.fs = (osSimR hr).view .base w.fs := hadv3.base
      rw [show osView bk kk .base w.fs = (osSimR hr).view .base w.fs from rfl, ← this]
      exact hfa
    | ok u4 =>
      simp only
      apply (sat_primUnit_nf (cfg := osCfg bk kk) (c := .rename (kp ko) (kp kn)) hadv4.inv.nofault).mono
      intro w5 r5 ⟨hfs5, hr5⟩
      have htw := twin_of_adv hr hinv hadv4 hu4
      obtain ⟨hres, htw5⟩ := base_rename_rel hr htw hko hkn
      have hfs5' : w5.fs = ((baseFS bk kk).call w4.fs (.rename (kp ko) (kp kn))).1 := hfs5
      have hr5' : r5 = ((baseFS bk kk).call w4.fs (.rename (kp ko) (kp kn))).2.map (fun _ => ()) := hr5
      rw [hres] at hr5'
      rw [← hfs5'] at htw5
      cases hc : ((baseFS bk kk).call w.fs (.rename (kp ko) (kp kn))).2 with
      | error e =>
        rw [hc] at hr5' hd2
        subst hr5'
        exact ⟨by rw [hd2]; exact Or.inl rfl, by rw [hd1]; exact htw5⟩
      | ok a =>
        rw [hc] at hr5' hd2
        subst hr5'
        apply Sat.pure
        exact ⟨by rw [hd2]; rfl, by rw [hd1]; exact htw5⟩

end

end BFS
