import Lemmas.LFBase
/-!
  Lemmas/LFPhase12.lean — `Rollback` over an `LSim` under an arbitrary fault plan, phases 1 and 2:
  removal of what the transaction created (deepest first) and restoration of directories
  (shallowest first, incl. the make-room `Remove` of a file or symlink that took a directory's
  place), each with "the loop's flag is `false`" as hypothesis.
-/
namespace BFS
namespace L
open BackupFS

variable {cfg : Cfg} {S : LSim cfg} {v0 : View}

/-! ### phase 1 under faults -/

theorem phase1F {w w1 : World} (hinv : Inv S v0 w) (hs : SameFS w w1)
    (l : List Path) (hl : ∀ p, p ∈ l ↔ ∃ k, PKey k ∧ p = kp k ∧ TN w k ∧ S.view .base w.fs k ≠ none)
    (hnd : l.Nodup) :
    Sat (forEachCollect (removeBaseAct cfg) (sortMost l)) w1 (fun w' r => r = .ok false →
      MidF S v0 w (fun k => PKey k ∧ TN w k) w') := by
  let R : Path → Path → Prop := fun p q => ∀ a b, PKey a → PKey b → p = kp a → q = kp b → b.length ≤ a.length
  let D : List Path → Key → Prop := fun rest k => PKey k ∧ TN w k ∧ kp k ∉ rest
  let J : List Path → World → Prop := fun rest w' =>
    rest.Pairwise R ∧ rest.Nodup ∧ (∀ p ∈ rest, p ∈ l) ∧ MidF S v0 w (D rest) w'
  have hperm := sortBy_perm (fun a b => lessFPS b a) l
  have hstep : ∀ x rest w', J (x :: rest) w' →
      Sat (removeBaseAct cfg x) w' (fun w'' r => r = .ok () → J rest w'') := by
    intro x rest w' ⟨hpw, hnd', hmem, hmid⟩
    obtain ⟨k, hk, rfl, htn, hpres⟩ := (hl x).mp (hmem x (by simp))
    have hxr : kp k ∉ rest := (List.nodup_cons.mp hnd').1
    have hnotD : ¬ D (kp k :: rest) k := fun hd => hd.2.2 (by simp)
    have hvk : S.view .base w'.fs k = S.view .base w.fs k := hmid.rest k hnotD
    have habs : v0 k = none := hinv.absent k hk htn
    have hkne : k ≠ [] := by
      intro e; subst e
      obtain ⟨mt, hroot⟩ := hinv.v0_root
      rw [habs] at hroot; cases hroot
    -- no ancestor is a symlink
    have hacc : NoLinkAnc (S.view .base w'.fs) k := by
      intro a ha hne hl'
      by_cases hda : D (kp k :: rest) a
      · obtain ⟨t, mt, ht⟩ := hl'
        rw [hmid.done a hda, hinv.absent a hda.1 hda.2.1] at ht
        cases ht
      · obtain ⟨t, mt, ht⟩ := hl'
        rw [hmid.rest a hda] at ht
        exact hinv.blink k hk (tracked_of_TN htn) a ha hne ⟨t, mt, ht⟩
    -- no child is left
    have hnochild : ¬ (S.view .base w'.fs).hasChild k := by
      rintro ⟨name, hc⟩
      have hcp : PKey (k ++ [name]) := S.pkey hmid.good hc
      have hcorig : v0 (k ++ [name]) = none :=
        hinv.v0_below (k := k) (by rintro ⟨mt, h⟩; rw [habs] at h; cases h) _ ⟨[name], rfl⟩ (by simp)
      by_cases hdc : D (kp k :: rest) (k ++ [name])
      · rw [hmid.done _ hdc] at hc; exact hc hcorig
      · rw [hmid.rest _ hdc] at hc
        have htnc : TN w (k ++ [name]) := hinv.present_new hcp hc hcorig
        have hin : kp (k ++ [name]) ∈ kp k :: rest := by
          apply Classical.byContradiction
          intro hnin; exact hdc ⟨hcp, htnc, hnin⟩
        rcases List.mem_cons.mp hin with heq | hin
        · have := kp_inj hcp hk heq
          have := congrArg List.length this
          simp at this
        · have := (List.pairwise_cons.mp hpw).1 _ hin k (k ++ [name]) hk hcp rfl rfl
          simp only [List.length_append, List.length_singleton] at this
          omega
    have hnode : (S.view .base w'.fs).isFileAt k ∨ isLinkAt (S.view .base w'.fs) k ∨
        ((S.view .base w'.fs).isDirAt k ∧ ¬ (S.view .base w'.fs).hasChild k) := by
      cases hn : S.view .base w'.fs k with
      | none => rw [hvk] at hn; exact absurd hn hpres
      | some n =>
        cases n with
        | file c mt => exact Or.inl ⟨c, mt, hn⟩
        | dir mt => exact Or.inr (Or.inr ⟨⟨mt, hn⟩, hnochild⟩)
        | link t mt => exact Or.inr (Or.inl ⟨t, mt, hn⟩)
    unfold removeBaseAct
    apply (sat_primUnit_exact (S := S) (s := .base) (c := .remove (kp k)) (K := (· = k))
      (P := fun m' => S.view .base m' k = none) hmid.good
      (fun m' r h => by
        obtain ⟨g, o, f, lm⟩ := S.remove_frame hmid.good hk hkne hacc h
        exact ⟨g, o, fun j hj => f j hj, lm⟩)
      (S.remove_ok hmid.good hk hkne hnode)).mono
    intro w'' r ⟨hc, hp, _⟩ hr
    refine ⟨(List.pairwise_cons.mp hpw).2, (List.nodup_cons.mp hnd').2,
      fun p hp' => hmem p (List.mem_cons_of_mem _ hp'), ?_⟩
    apply hmid.step hc.toChgL (by rw [hp hr, habs])
    intro j
    constructor
    · rintro ⟨hj, htj, hjr⟩
      by_cases hjk : j = k
      · exact Or.inr hjk
      · left
        refine ⟨hj, htj, ?_⟩
        intro hin
        rcases List.mem_cons.mp hin with heq | hin
        · exact hjk (kp_inj hj hk heq)
        · exact hjr hin
    · rintro (⟨hj, htj, hjr⟩ | rfl)
      · exact ⟨hj, htj, fun hin => hjr (List.mem_cons_of_mem _ hin)⟩
      · exact ⟨hk, htn, hxr⟩
  have hinit : J (sortMost l) w1 := by
    refine ⟨sortMost_kp_pairwise l, hperm.nodup_iff.mpr hnd, fun p hp => hperm.mem_iff.mp hp, ?_⟩
    refine ⟨hs.fs ▸ hinv.good, hs.infos, hs.faults, by rw [hs.fs], ?_, fun k _ => by rw [hs.fs]⟩
    rintro k ⟨hk, htn, hnin⟩
    rw [hs.fs, hinv.absent k hk htn]
    apply Classical.byContradiction
    intro hne
    exact hnin (hperm.mem_iff.mpr ((hl (kp k)).mpr ⟨k, hk, rfl, htn, hne⟩))
  apply (sat_forEachF hstep (sortMost l) w1 hinit).mono
  intro w' r hfin hr
  obtain ⟨_, _, _, hmid⟩ := hfin hr
  refine hmid.congr ?_
  intro k
  simp [D]

/-! ### phase 2 under faults -/

theorem phase2F {w w1 : World} (hinv : Inv S v0 w)
    (hmid : MidF S v0 w (fun k => PKey k ∧ TN w k) w1)
    (l : List Path) (hl : ∀ p, p ∈ l ↔ ∃ k, PKey k ∧ p = kp k ∧ TSDir w k) (hnd : l.Nodup) :
    Sat (forEachCollect (restoreDirAct cfg w.infos) (sortLeast l)) w1 (fun w' r => r = .ok false →
      MidF S v0 w (fun k => PKey k ∧ (TN w k ∨ TSDir w k)) w') := by
  let R : Path → Path → Prop := fun p q => ∀ a b, PKey a → PKey b → p = kp a → q = kp b → a.length ≤ b.length
  let D : List Path → Key → Prop := fun rest k => PKey k ∧ (TN w k ∨ (TSDir w k ∧ kp k ∉ rest))
  let J : List Path → World → Prop := fun rest w' =>
    rest.Pairwise R ∧ rest.Nodup ∧ (∀ p ∈ rest, p ∈ l) ∧ MidF S v0 w (D rest) w'
  have hperm := sortBy_perm lessFPS l
  have hstep : ∀ x rest w', J (x :: rest) w' →
      Sat (restoreDirAct cfg w.infos x) w' (fun w'' r => r = .ok () → J rest w'') := by
    intro x rest w' ⟨hpw, hnd', hmem, hm⟩
    obtain ⟨k, hk, rfl, hkne, i, hts, hkind⟩ := (hl x).mp (hmem x (by simp))
    have hxr : kp k ∉ rest := (List.nodup_cons.mp hnd').1
    have hnotD : ¬ D (kp k :: rest) k := by
      rintro ⟨_, htn | ⟨_, hnin⟩⟩
      · exact TN_not_TS hts htn
      · exact hnin (by simp)
    obtain ⟨n, hn, hfor, hperm4⟩ := hinv.ts_node hk hts
    have htarget := hinv.dir_target hk hts hkind
    have hisdir : i.isDir = true := by simp [Info.isDir, hkind]
    have hak : k.dropLast ≠ k := by
      intro e; have := dropLast_length_lt hkne; rw [e] at this; omega
    -- the parent is already a directory
    have hpar' : (S.view .base w'.fs).isDirAt k.dropLast := by
      rcases hinv.parent_tsdir hk hts hkne with ha | ha
      · rw [ha]; exact S.root_dir hm.good
      · have hpa : PKey k.dropLast := hk.dropLast
        have hDa : D (kp k :: rest) k.dropLast := by
          refine ⟨hpa, Or.inr ⟨ha, ?_⟩⟩
          intro hin
          rcases List.mem_cons.mp hin with heq | hin
          · exact hak (kp_inj hpa hk heq)
          · have := (List.pairwise_cons.mp hpw).1 _ hin k k.dropLast hk hpa rfl rfl
            have := dropLast_length_lt hkne
            omega
        obtain ⟨_, ia, htsa, hka⟩ := ha
        unfold View.isDirAt
        rw [hm.done _ hDa, hinv.dir_target hpa htsa hka]
        exact ⟨_, rfl⟩
    have hparent : ∀ w2, S.ChgL .base (· = k) w' w2 → (S.view .base w2.fs).parentDir k := by
      intro w2 hc
      refine ⟨hkne, ?_⟩
      unfold View.isDirAt
      rw [hc.frame _ hak]
      exact hpar'
    have hacc : NoLinkAnc (S.view .base w'.fs) k := S.noLinkAnc_parentDir hm.good ⟨hkne, hpar'⟩
    unfold restoreDirAct
    apply Sat.bind
    apply (sat_lexistsF (S := S) (s := .base) hm.good hk hacc).mono
    intro wa ra ⟨hsa, hsome, hnone⟩
    have hga : S.G wa.fs := hsa.fs ▸ hm.good
    have hacca : NoLinkAnc (S.view .base wa.fs) k := by rw [hsa.fs]; exact hacc
    cases ra with
    | error e => intro h; cases h
    | ok cur =>
    simp only
    -- removing a file or symlink in the way
    have hrm : (S.view .base w'.fs).isFileAt k ∨ isLinkAt (S.view .base w'.fs) k →
        Sat (primUnit cfg .base (.remove (kp k))) wa (fun w2 r => r = .ok () →
          S.Chg .base (· = k) w' w2 ∧ (S.view .base w2.fs k = none ∨ (S.view .base w2.fs).isDirAt k)) := by
      intro hfl
      have hfl' : (S.view .base wa.fs).isFileAt k ∨ isLinkAt (S.view .base wa.fs) k ∨
          ((S.view .base wa.fs).isDirAt k ∧ ¬ (S.view .base wa.fs).hasChild k) := by
        rw [hsa.fs]
        rcases hfl with h | h
        · exact Or.inl h
        · exact Or.inr (Or.inl h)
      apply (sat_primUnit_exact (S := S) (s := .base) (c := .remove (kp k)) (K := (· = k))
        (P := fun m' => S.view .base m' k = none) hga
        (fun m' r h => by
          obtain ⟨g, o, f, lm⟩ := S.remove_frame hga hk hkne hacca h
          exact ⟨g, o, fun j hj => f j hj, lm⟩)
        (S.remove_ok hga hk hkne hfl')).mono
      intro w2 r2 ⟨hc2, hp2, _⟩ hr
      exact ⟨LSim.Chg.same_left hsa hc2, Or.inl (hp2 hr)⟩
    -- make room
    have hroom : Sat (BFS.whenM (match (generalizing := false) cur with
        | some fi => !fi.isDir
        | none => false) (primUnit cfg .base (.remove (kp k)))) wa (fun w2 r => r = .ok () →
          S.Chg .base (· = k) w' w2 ∧ (S.view .base w2.fs k = none ∨ (S.view .base w2.fs).isDirAt k)) := by
      cases cur with
      | none =>
        have hv := hnone rfl
        apply Sat.whenM
        · intro h; cases h
        · intro _ _
          exact ⟨LSim.Chg.of_same hm.good hsa, Or.inl (by rw [hsa.fs]; exact hv)⟩
      | some fi =>
        obtain ⟨nd, hv, hfi⟩ := hsome fi rfl
        cases nd with
        | dir mt =>
          have : fi.isDir = true := by simp [Info.isDir, hfi.1, Node.kind]
          apply Sat.whenM
          · intro h; simp [this] at h
          · intro _ _
            exact ⟨LSim.Chg.of_same hm.good hsa, Or.inr ⟨mt, by rw [hsa.fs]; exact hv⟩⟩
        | link t mt =>
          apply Sat.whenM
          · intro _
            exact hrm (Or.inr ⟨t, mt, hv⟩)
          · intro h
            have : fi.isDir = false := by simp [Info.isDir, hfi.1, Node.kind]
            simp [this] at h
        | file c mt =>
          apply Sat.whenM
          · intro _
            exact hrm (Or.inl ⟨c, mt, hv⟩)
          · intro h
            have : fi.isDir = false := by simp [Info.isDir, hfi.1, Node.kind]
            simp [this] at h
    apply Sat.bind
    apply hroom.mono
    intro w2 r2 h2
    cases r2 with
    | error e => intro h; cases h
    | ok u2 =>
    obtain ⟨hc2, hcur2⟩ := h2 rfl
    simp only [infoFor_ts hts]
    apply (sat_copyDir_strong (S := S) (s := .base) (i := i) hc2.good hk hkne hisdir hperm4
      (hparent w2 hc2.toChgL) hcur2).mono
    intro w3 r3 ⟨hc3, _, hp3⟩ hr
    refine ⟨(List.pairwise_cons.mp hpw).2, (List.nodup_cons.mp hnd').2,
      fun p hp' => hmem p (List.mem_cons_of_mem _ hp'), ?_⟩
    apply hm.step (hc2.trans hc3).toChgL (by rw [hp3 hr, htarget])
    intro j
    constructor
    · rintro ⟨hj, htn | ⟨hd, hjr⟩⟩
      · exact Or.inl ⟨hj, Or.inl htn⟩
      · by_cases hjk : j = k
        · exact Or.inr hjk
        · left
          refine ⟨hj, Or.inr ⟨hd, ?_⟩⟩
          intro hin
          rcases List.mem_cons.mp hin with heq | hin
          · exact hjk (kp_inj hj hk heq)
          · exact hjr hin
    · rintro (⟨hj, htn | ⟨hd, hjr⟩⟩ | rfl)
      · exact ⟨hj, Or.inl htn⟩
      · exact ⟨hj, Or.inr ⟨hd, fun hin => hjr (List.mem_cons_of_mem _ hin)⟩⟩
      · exact ⟨hk, Or.inr ⟨⟨hkne, i, hts, hkind⟩, hxr⟩⟩
  have hinit : J (sortLeast l) w1 := by
    refine ⟨sortLeast_kp_pairwise l, hperm.nodup_iff.mpr hnd, fun p hp => hperm.mem_iff.mp hp, ?_⟩
    apply hmid.congr
    intro k
    constructor
    · rintro ⟨hk, htn⟩; exact ⟨hk, Or.inl htn⟩
    · rintro ⟨hk, htn | ⟨hd, hnin⟩⟩
      · exact ⟨hk, htn⟩
      · exact absurd (hperm.mem_iff.mpr ((hl (kp k)).mpr ⟨k, hk, rfl, hd⟩)) hnin
  apply (sat_forEachF hstep (sortLeast l) w1 hinit).mono
  intro w' r hfin hr
  obtain ⟨_, _, _, hm⟩ := hfin hr
  refine hm.congr ?_
  intro k
  simp [D]

end L
end BFS
