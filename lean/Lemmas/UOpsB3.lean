import Lemmas.UOpsB2
/-!
  Lemmas/UOpsB3.lean — tier 2 (C03 through flat symlinks): `StepB` for Symlink, MkdirAll, Create / OpenFile.
-/
namespace BFS
namespace U
open BackupFS MFS F16

section
variable {bk kk : Key}
variable (hr : Roots bk kk) {v0 : View} {r0 : Option Node} {w : World} {name : Path} {k : Key}
include hr

/-! ### Symlink -/

theorem symlink_dfail (hg : L.OSGoodL bk kk w.fs) (hflat : Flat bk w.fs) (hk : PKey k) (hname : clean name = kp k)
    (hlen : k.length ≤ 40) (o : Path) (hfa : FileAnc (L.osViewL bk kk .base w.fs) (L.G.rk bk w k)) :
    (directUnit (baseFS bk kk) w.fs (.symlink o name)).1 = w.fs ∧
      ∃ e', (directUnit (baseFS bk kk) w.fs (.symlink o name)).2 = .error e' ∧ FailCls e' := by
  have hsys : ∀ o' : Path, (∀ j, PKey j →
        PrefixFS.translate (kp bk) (.symlink o (kp j)) = .ok (.symlink o' (kp (bk ++ j)))) →
      (directUnit (baseFS bk kk) w.fs (.symlink o name)).1 = w.fs ∧
        ∃ e', (directUnit (baseFS bk kk) w.fs (.symlink o name)).2 = .error e' ∧ FailCls e' := by
    intro o' htr
    exact dfail_of_sys hr (c := fun r => .symlink o r) (sys := fun m p => m.symlink o' p) (f := false)
      hg hflat hk hlen (fun m => base_symlink_spelling m o hk hname)
      (fun m j hj => side_call_unit hr .base m (htr j hj) (x := m.symlink o' (kp (bk ++ j))) rfl)
      (fun m t e h he => by
        show ∃ e', m.symlink o' t = (m, .error e') ∧ e'.isNotFound = true
        unfold MFS.symlink
        split
        · exact ⟨.notExist, rfl, rfl⟩
        · rw [h]; exact ⟨e, rfl, he⟩) hfa
  cases hab : isAbs o with
  | true => exact hsys _ (fun j hj => L.tr_symlink_abs hr.pb hj hab)
  | false =>
    cases hin : (relInside (kp bk) (join (dir (kp (bk ++ k))) o)).isSome with
    | true =>
      -- admitted for the caller's directory: the kernel then fails below the file
      obtain ⟨e0, hn, hnf0⟩ := namei_fileAnc hr hg hflat hk hlen hfa false
      have t1 := L.tr_symlink_rel hr.pb hk hab hin
      have e1 := side_call_unit hr .base w.fs t1 (x := w.fs.symlink o (kp (bk ++ k))) rfl
      rw [directUnit_fst, directUnit_snd, base_symlink_spelling w.fs o hk hname]
      have e1' : (baseFS bk kk).call w.fs (.symlink o (kp k)) = _ := e1
      rw [e1']
      have hs : ∃ e', w.fs.symlink o (kp (bk ++ k)) = (w.fs, .error e') ∧ e'.isNotFound = true := by
        unfold MFS.symlink
        split
        · exact ⟨.notExist, rfl, rfl⟩
        · rw [hn]; exact ⟨e0, rfl, hnf0⟩
      obtain ⟨e', he', hnf'⟩ := hs
      rw [he']
      exact ⟨rfl, e', rfl, Or.inl hnf'⟩
    | false =>
      have t1 := tr_symlink_rel_none hr.pb hk hab hin
      have e1 := L.side_call_err hr .base w.fs t1
      rw [directUnit_fst, directUnit_snd, base_symlink_spelling w.fs o hk hname]
      have e1' : (baseFS bk kk).call w.fs (.symlink o (kp k)) = _ := e1
      rw [e1']
      exact ⟨rfl, .perm, rfl, Or.inr rfl⟩

theorem symlink_stepB (hinv : L.Inv (osSimLR hr) v0 w) (hb : BInvL (osSimLR hr) r0 w) (hflat : Flat bk w.fs) (hk : PKey k)
    (hname : clean name = kp k) (hlen : k.length ≤ 40) (hlok : LinkOKBoth bk kk w (L.G.rk bk w k)) (o : Path) :
    StepB hr r0 w (.symlink o name) := by
  have hrk := L.G.rk_pkey hr hinv.good hflat hk
  exact stepB_of_prep hr (c := fun r => .symlink o r) rfl (prepPhase_snd _ _ _) rfl
    (single_stepB' hr (c := fun r => .symlink o r) hinv hb hflat hk hname hlok
      (symlink_dfail hr hinv.good hflat hk hname hlen o)
      (fun m m' res hg hv h => (L.os_symlink_frame (s := .base) hr hg hrk
        (rk_noLinkAnc_of_view hr hinv.good hflat k hv) h).2.1))

/-! ### MkdirAll (any depth: only the frame law is needed here) -/

theorem mkdirAll_stepB (hinv : L.Inv (osSimLR hr) v0 w) (hb : BInvL (osSimLR hr) r0 w) (hflat : Flat bk w.fs) (hk : PKey k)
    (hname : clean name = kp k)
    (hfin : ∀ t mt, w.fs.get (bk ++ L.G.rk bk w k) ≠ some (.link t mt))
    (hpar : w.fs.get (bk ++ L.G.rk bk w k) ≠ none ∨
      ∃ mt, w.fs.get (bk ++ (L.G.rk bk w k).dropLast) = some (.dir mt)) (perm : Nat) :
    StepB hr r0 w (.mkdirAll name perm) := by
  have hg : L.OSGoodL bk kk w.fs := hinv.good
  have hrk := L.G.rk_pkey hr hg hflat hk
  refine stepB_of_prep hr (c := fun r => .mkdirAll r perm) rfl (prepPhase_snd _ _ _) rfl
    (single_stepB' hr (c := fun r => .mkdirAll r perm) hinv hb hflat hk hname (linkOKBoth_of_notLink hfin)
      ?_
      (fun m m' res hg hv h => (L.os_mkdirAll_frame (s := .base) hr hg hrk
        (accF_of_view (rk_noLinkAnc_of_view hr hinv.good hflat k hv) hv hfin) h).2.1))
  -- a regular file among the proper ancestors is impossible: the key exists or its parent is a directory
  intro hfa
  exfalso
  obtain ⟨a, ha, hane, hfile⟩ := hfa
  obtain ⟨c, mt, hget⟩ := L.osViewL_isFileAt (s := .base) hfile
  have hget' : w.fs.get (bk ++ a) = some (.file c mt) := hget
  have hpre : bk ++ a <+: bk ++ L.G.rk bk w k := (List.prefix_append_right_inj _).mpr ha
  have hne : bk ++ a ≠ bk ++ L.G.rk bk w k := fun e => hane (List.append_cancel_left e)
  have hnone : w.fs.get (bk ++ L.G.rk bk w k) = none := hg.below_nondir hpre hne hget' rfl
  rcases hpar with h | ⟨pmt, hp⟩
  · exact h hnone
  · have ha' : a <+: (L.G.rk bk w k).dropLast := prefix_dropLast ha hane
    have hpre' : bk ++ a <+: bk ++ (L.G.rk bk w k).dropLast := (List.prefix_append_right_inj _).mpr ha'
    by_cases he : bk ++ a = bk ++ (L.G.rk bk w k).dropLast
    · rw [← he, hget'] at hp; cases hp
    · have := hg.below_nondir hpre' he hget' rfl
      rw [this] at hp; cases hp

end

end U
end BFS
