import Lemmas.SimOS
import Lemmas.SimDir
/-!
  Lemmas/SimOSDir.lean — the extension `SimDir` of the contract discharged for the OS model behind
  two `PrefixFS` layers: a directory listing is exactly the set of live children, and a `Remove`
  that returns nil has removed the entry.
-/
namespace BFS
open MFS

section
variable {bk kk : Key}

/-- the names `Readdirnames` reports are exactly those of the live children -/
theorem mem_childNames {m : MFS} (hg : OSGood bk kk m) (K : Key) (n : Name) :
    n ∈ m.childNames K ↔ m.get (K ++ [n]) ≠ none := by
  unfold MFS.childNames
  rw [List.mem_eraseDups, List.mem_filterMap]
  constructor
  · rintro ⟨c, hc, hl⟩
    rw [List.mem_filter] at hc
    obtain ⟨_, hc⟩ := hc
    simp only [Bool.and_eq_true, decide_eq_true_eq] at hc
    obtain ⟨⟨_, hpar⟩, hsome⟩ := hc
    obtain ⟨node, hnode⟩ := Option.isSome_iff_exists.mp hsome
    obtain ⟨ys, rfl⟩ := List.getLast?_eq_some_iff.mp hl
    unfold parentKey at hpar
    simp only [List.dropLast_concat] at hpar
    subst hpar
    rw [hnode]; simp
  · intro h
    cases hn : m.get (K ++ [n]) with
    | none => exact absurd hn h
    | some node =>
      refine ⟨K ++ [n], ?_, by simp⟩
      rw [List.mem_filter]
      refine ⟨hg.dom _ node hn, ?_⟩
      simp [parentKey, hn]

theorem os_readdir_dir {m : MFS} {s : Side} {h : Handle} {k : Key} (hg : OSGood bk kk m)
    (hh : h.key = osRoot bk kk s ++ k) (hd : (osView bk kk s m).isDirAt k) :
    ∃ ns, ((osCfg bk kk).side s).hreaddirnames m h = .ok ns ∧
      ∀ n, n ∈ ns ↔ osView bk kk s m (k ++ [n]) ≠ none := by
  obtain ⟨mt, h0⟩ := osView_isDirAt hd
  rw [side_hreaddirnames]
  unfold MFS.hreaddirnames
  simp only [hh, h0]
  refine ⟨_, rfl, ?_⟩
  intro n
  unfold sortStrings
  rw [(sortBy_perm strLt _).mem_iff, mem_childNames hg, osView_eq, List.append_assoc]
  cases m.get (osRoot bk kk s ++ (k ++ [n])) <;> simp

theorem nodup_eraseDups_aux {α} [BEq α] [LawfulBEq α] :
    ∀ (n : Nat) (l : List α), l.length ≤ n → l.eraseDups.Nodup
  | 0, l, h => by
    have : l = [] := List.length_eq_zero_iff.mp (Nat.le_zero.mp h)
    subst this
    simp
  | _ + 1, [], _ => by simp
  | n + 1, a :: as, h => by
    rw [List.eraseDups_cons, List.nodup_cons]
    refine ⟨?_, nodup_eraseDups_aux n _ (Nat.le_trans (List.length_filter_le _ _) (by simpa using h))⟩
    intro hm
    rw [List.mem_eraseDups, List.mem_filter] at hm
    simp at hm

theorem os_readdir_nodup {m : MFS} {s : Side} {h : Handle} {ns : List Name}
    (he : ((osCfg bk kk).side s).hreaddirnames m h = .ok ns) : ns.Nodup := by
  rw [side_hreaddirnames] at he
  unfold MFS.hreaddirnames at he
  split at he
  · cases he
    unfold sortStrings
    rw [(sortBy_perm strLt _).nodup_iff]
    unfold MFS.childNames
    exact nodup_eraseDups_aux _ _ (Nat.le_refl _)
  · cases he
  · cases he

/-- `os.Remove` returning nil: the entry is gone -/
theorem remove_post_spec {m m' : MFS} (s : Side) {k : Key} (hr : Roots bk kk) (hg : OSGood bk kk m)
    (hk : PKey k) (hne : k ≠ []) (h : m.remove (kp (osRoot bk kk s ++ k)) = (m', .ok ())) :
    osView bk kk s m' k = none := by
  have hnone : ∀ P, osView bk kk s ((m.set (osRoot bk kk s ++ k) none).touchDir P) k = none := by
    intro P
    rw [osView_eq, touchDir_erase, set_get_self]
    rfl
  unfold MFS.remove at h
  have hKne : osRoot bk kk s ++ k ≠ [] := by simp [hne]
  rcases namei_below s hr hg hk false with ⟨n, hn, hnl, hres⟩ | ⟨_, mt, hn, hp, hres⟩ | ⟨e, _, hn, hp, hres, he⟩
  · rw [hres] at h
    simp only [hKne, if_false] at h
    cases n with
    | link t mt => cases hnl
    | dir mt =>
      simp only at h
      split at h
      · cases h
      · cases h; exact hnone _
    | file c mt =>
      simp only at h
      cases h; exact hnone _
  · rw [hres] at h; cases h
  · rw [hres] at h; cases h

theorem os_remove_post {m m' : MFS} {s : Side} {k : Key} {r : Ret} (hr : Roots bk kk)
    (hg : OSGood bk kk m) (hk : PKey k) (hne : k ≠ [])
    (h : ((osCfg bk kk).side s).call m (.remove (kp k)) = (m', .ok r)) : osView bk kk s m' k = none := by
  obtain ⟨h1, h2⟩ := unit_call_state (x := m.remove (kp (osRoot bk kk s ++ k))) hr (tr_remove (hr.pkey s) hk) rfl h
  have h3 : (m.remove (kp (osRoot bk kk s ++ k))).2 = .ok () := by
    cases hx : (m.remove (kp (osRoot bk kk s ++ k))).2 with
    | error e => rw [hx] at h2; cases h2
    | ok u => rfl
  rw [h3] at h1
  exact remove_post_spec s hr hg hk hne h1

end

theorem osSimDir (bk kk : Key) (hbk : PKey bk) (hkk : PKey kk) (hne1 : bk ≠ []) (hne2 : kk ≠ [])
    (hd1 : ¬ bk <+: kk) (hd2 : ¬ kk <+: bk) : SimDir (osSim bk kk hbk hkk hne1 hne2 hd1 hd2) where
  readdir_dir := fun hg hh hd => os_readdir_dir hg hh hd
  readdir_nodup := fun _ _ he => os_readdir_nodup he
  remove_post := fun hg hk hne h => os_remove_post ⟨hbk, hkk, hne1, hne2, hd1, hd2⟩ hg hk hne h

end BFS
