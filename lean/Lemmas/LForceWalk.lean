import Lemmas.LForce
/-!
  Lemmas/LForceWalk.lean — `tryRemoveBackup` and `ForceBackup` over an `LSim` (symlinks as leaves),
  all branches, no hypothesis about the backup filesystem beyond the invariant.

  * the stale copy the backup holds at `k` is a regular file **or a symlink** (`!fi.IsDir()`):
    `backup.Remove`, which removes a final symlink and never follows it;
  * the backup holds a *directory* at a path tracked as "did not exist": the walk.  Everything that
    branch does happens at or below `k` (`Below`), and — new with links — neither `k`, nor anything
    below it, nor any of its ancestors is a symlink in the backup view (`NoLinkAround`, from the
    clause `bklinks` of the invariant), which no removal changes (`LinkMono`), so none of the
    `Lstat`/`Open`/`Remove`/`RemoveAll` calls of the walk is redirected.
-/
namespace BFS
namespace L
open BackupFS

variable {cfg : Cfg} {S : LSim cfg} {v0 : View}

/-! ### no symlink on the way to, at, or below a key -/

/-- no key comparable with `k` is a symlink -/
def NoLinkAround (v : View) (k : Key) : Prop := ∀ a, (a <+: k ∨ k <+: a) → ¬ isLinkAt v a

theorem NoLinkAround.mono {v v' : View} {k : Key} (h : NoLinkAround v k) (hm : LinkMono v v') :
    NoLinkAround v' k :=
  fun a ha hl => h a ha (hm.isLinkAt hl)

theorem NoLinkAround.accF {v : View} {k j : Key} (h : NoLinkAround v k) (hkj : k <+: j) : AccF v j := by
  refine ⟨?_, h j (Or.inr hkj)⟩
  intro a ha _
  exact h a (List.prefix_or_prefix_of_prefix ha hkj)

theorem NoLinkAround.noLinkAnc {v : View} {k j : Key} (h : NoLinkAround v k) (hkj : k <+: j) : NoLinkAnc v j :=
  (h.accF hkj).1

/-! ### steps confined to the keys at or below `k` -/

/-- from `w` to `w'`: backup-side changes and deleted tracking entries, all at or below `k`; no
symlink appeared in the backup view -/
structure Below (S : LSim cfg) (k : Key) (w w' : World) : Prop where
  good : S.G w'.fs
  base : S.view .base w'.fs = S.view .base w.fs
  faults : w'.faults = w.faults
  backup : ∀ j, ¬ k <+: j → S.view .backup w'.fs j = S.view .backup w.fs j
  links : LinkMono (S.view .backup w.fs) (S.view .backup w'.fs)
  sub : w'.infos.Sublist w.infos
  gone : ∀ p x, (p, x) ∈ w.infos → (p, x) ∉ w'.infos → ∃ j, PKey j ∧ k <+: j ∧ p = kp j

theorem Below.refl {k : Key} {w : World} (hg : S.G w.fs) : Below S k w w :=
  ⟨hg, rfl, rfl, fun _ _ => rfl, LinkMono.refl _, List.Sublist.refl _, fun _ _ h h' => absurd h h'⟩

theorem Below.trans {k : Key} {a b c : World} (h1 : Below S k a b) (h2 : Below S k b c) : Below S k a c := by
  refine ⟨h2.good, h2.base.trans h1.base, h2.faults.trans h1.faults,
    fun j hj => (h2.backup j hj).trans (h1.backup j hj), h1.links.trans h2.links, h2.sub.trans h1.sub, ?_⟩
  intro p x hm hn
  by_cases hb : (p, x) ∈ b.infos
  · exact h2.gone p x hb hn
  · exact h1.gone p x hm hb

theorem Below.of_same {k : Key} {w w' : World} (hg : S.G w.fs) (hs : SameFS w w') : Below S k w w' :=
  ⟨hs.fs ▸ hg, (by rw [hs.fs]), hs.faults, fun _ _ => (by rw [hs.fs]), LinkMono.of_eq (by rw [hs.fs]),
    (by rw [hs.infos]; exact List.Sublist.refl _), fun p x h h' => absurd (hs.infos ▸ h) h'⟩

theorem Below.of_chg {k : Key} {K : Key → Prop} {w w' : World} (hc : S.Chg .backup K w w')
    (hK : ∀ j, K j → k <+: j) : Below S k w w' :=
  ⟨hc.good, hc.other, hc.faults, fun j hj => hc.frame j (fun h => hj (hK j h)), hc.links,
    (by rw [hc.infos]; exact List.Sublist.refl _), fun p x h h' => absurd (hc.infos ▸ h) h'⟩

theorem Below.of_del {k j : Key} {w : World} (hg : S.G w.fs) (hj : PKey j) (hkj : k <+: j) :
    Below S k w (delInfo w (kp j)) := by
  refine ⟨hg, rfl, rfl, fun _ _ => rfl, LinkMono.refl _, List.filter_sublist, ?_⟩
  intro p x hm hn
  refine ⟨j, hj, hkj, ?_⟩
  apply Classical.byContradiction
  intro hne
  exact hn (List.mem_filter.mpr ⟨hm, by simpa using hne⟩)

/-- an entry that is gone stays gone -/
theorem Below.lookup_none {k : Key} {w w' : World} (h : Below S k w w') {p : Path}
    (hl : w.infos.lookup p = none) : w'.infos.lookup p = none := by
  cases hl' : w'.infos.lookup p with
  | none => rfl
  | some x => exact absurd (h.sub.subset (mem_of_lookup hl')) (not_mem_of_lookup_none hl)

/-- the invariant after steps at or below a key `k` that did not exist when the transaction began
and is not a directory now, for any reference view `v` that agrees with the original off `k` and
shows at `k` the original node (nothing) while `k` is tracked, the current one once it is not -/
theorem Inv.below_aux {w w' : World} {k : Key} {v : View} (h : Inv S v0 w) (hb : Below S k w w')
    (hv0 : v0 k = none) (hnow : ¬ (S.view .base w.fs).isDirAt k)
    (hgv : GoodView v) (hoff : ∀ j, j ≠ k → v j = v0 j)
    (hun : w'.infos.lookup (kp k) = none → v k = S.view .base w.fs k)
    (htr : w'.infos.lookup (kp k) ≠ none → v k = v0 k) : Inv S v w' := by
  have horig : ¬ v0.isDirAt k := by
    intro ⟨mt, hmt⟩; rw [hv0] at hmt; cases hmt
  have hnd' : (w'.infos.map Prod.fst).Nodup := List.Nodup.sublist (List.Sublist.map _ hb.sub) h.nodup
  -- entries that survive are the old ones
  have ha : ∀ p x, w'.infos.lookup p = some x → w.infos.lookup p = some x := by
    intro p x hl
    exact lookup_of_mem h.nodup (hb.sub.subset (mem_of_lookup hl))
  -- entries that are gone were at or below `k`
  have hgone : ∀ j, PKey j → w'.infos.lookup (kp j) = none → w.infos.lookup (kp j) = none ∨ k <+: j := by
    intro j hj hl
    cases hl0 : w.infos.lookup (kp j) with
    | none => exact Or.inl rfl
    | some x =>
      right
      obtain ⟨j', hj', hkj', he⟩ := hb.gone (kp j) x (mem_of_lookup hl0) (not_mem_of_lookup_none hl)
      rw [kp_inj hj hj' he]; exact hkj'
  -- a key tracked with a `FileInfo` is not at or below `k`
  have hsaved_off : ∀ j i, PKey j → w.infos.lookup (kp j) = some (some i) → ¬ k <+: j := by
    intro j i hj hl hkj
    obtain ⟨n, hn, _, _⟩ := h.saved j i hj hl
    by_cases hjk : j = k
    · subst hjk; rw [hv0] at hn; cases hn
    · rw [h.v0_below horig j hkj hjk] at hn; cases hn
  have hne_of : ∀ j, ¬ k <+: j → j ≠ k := by
    intro j hj e; subst e; exact hj (List.prefix_refl _)
  -- such an entry survives
  have hkeep : ∀ j i, PKey j → w.infos.lookup (kp j) = some (some i) → w'.infos.lookup (kp j) = some (some i) := by
    intro j i hj hl
    cases hl' : w'.infos.lookup (kp j) with
    | some x => rw [ha _ _ hl'] at hl; exact hl
    | none =>
      rcases hgone j hj hl' with h0 | hkj
      · rw [h0] at hl; cases hl
      · exact absurd hkj (hsaved_off j i hj hl)
  refine ⟨hb.good, hgv, ?_, hnd', ?_, ?_, ?_, ?_, ?_, ?_⟩
  · intro p oi hm
    exact h.keys p oi (hb.sub.subset hm)
  · intro j hj hl
    rw [hb.base]
    by_cases hjk : j = k
    · subst hjk; exact (hun hl).symm
    · rw [hoff j hjk]
      rcases hgone j hj hl with h0 | hkj
      · exact h.frame j hj h0
      · rw [h.v0_below horig j hkj hjk]
        exact (S.goodView h.good .base).below_none hnow j hkj hjk
  · intro j hj hl
    have hl0 := ha _ _ hl
    by_cases hjk : j = k
    · subst hjk
      rw [htr (by rw [hl]; simp)]; exact hv0
    · rw [hoff j hjk]; exact h.absent j hj hl0
  · intro j i hj hl
    have hl0 := ha _ _ hl
    have hkj := hsaved_off j i hj hl0
    obtain ⟨n, hn, hfor, hcopy, hlcopy⟩ := h.saved j i hj hl0
    refine ⟨n, (by rw [hoff j (hne_of j hkj)]; exact hn), hfor, ?_, ?_⟩
    · intro c mt hnc
      obtain ⟨mt', hv⟩ := hcopy c mt hnc
      exact ⟨mt', by rw [hb.backup j hkj]; exact hv⟩
    · intro t mt hnc
      obtain ⟨⟨mt', hv⟩, hok⟩ := hlcopy t mt hnc
      exact ⟨⟨mt', by rw [hb.backup j hkj]; exact hv⟩, hok⟩
  · intro j i hj hl a haj
    have hl0 := ha _ _ hl
    have hkj := hsaved_off j i hj hl0
    intro hla
    rcases hgone a (hj.of_prefix haj) hla with h0 | hka
    · exact h.anc j i hj hl0 a haj h0
    · exact hkj (hka.trans haj)
  · intro j hj ht
    rw [hb.base]
    apply h.blink j hj
    unfold Tracked at ht ⊢
    cases hl' : w'.infos.lookup (kp j) with
    | none => exact absurd hl' ht
    | some x => rw [ha _ _ hl']; simp
  · intro j hl
    have hl0 := hb.links.isLinkAt hl
    rw [hb.base]
    rcases h.bklinks j hl0 with ⟨i, hts, hkind⟩ | ⟨hunj, hbl⟩
    · exact Or.inl ⟨i, hkeep j i (backup_pkey h.good hl0) hts, hkind⟩
    · exact Or.inr ⟨hb.lookup_none hunj, hbl⟩

theorem Inv.below {w w' : World} {k : Key} (h : Inv S v0 w) (hb : Below S k w w') (hk : PKey k)
    (hv0 : v0 k = none) (hnow : ¬ (S.view .base w.fs).isDirAt k) (hpar : v0.parentDir k) :
    (w'.infos.lookup (kp k) ≠ none → Inv S v0 w') ∧
    (w'.infos.lookup (kp k) = none → Inv S (rebase v0 k (S.view .base w.fs k)) w') := by
  have horig : ¬ v0.isDirAt k := by
    intro ⟨mt, hmt⟩; rw [hv0] at hmt; cases hmt
  constructor
  · intro htr
    exact h.below_aux hb hv0 hnow h.orig (fun _ _ => rfl) (fun hl => absurd hl htr) (fun _ => rfl)
  · intro hun
    exact h.below_aux hb hv0 hnow (GoodView.rebase h.orig (S.goodView h.good .base) hk horig hnow hpar)
      (fun j hj => rebase_ne v0 _ hj) (fun _ => rebase_self v0 k _) (fun hl => absurd hun hl)

theorem Inv.below_or {w w' : World} {k : Key} (h : Inv S v0 w) (hb : Below S k w w') (hk : PKey k)
    (hv0 : v0 k = none) (hnow : ¬ (S.view .base w.fs).isDirAt k) (hpar : v0.parentDir k) :
    Inv S v0 w' ∨ Inv S (rebase v0 k (S.view .base w.fs k)) w' := by
  obtain ⟨h1, h2⟩ := h.below hb hk hv0 hnow hpar
  cases hl : w'.infos.lookup (kp k) with
  | none => exact Or.inr (h2 hl)
  | some x => exact Or.inl (h1 (by rw [hl]; simp))

/-- when the backup holds a directory at a key that did not exist when the transaction began and
is not a directory in the base now, whose parent predates the transaction: no symlink on the way to
it, nor below it, in the backup view -/
theorem Inv.backup_noLinkAround {w : World} {k : Key} (h : Inv S v0 w) (hv0 : v0 k = none)
    (hpar : v0.parentDir k) : NoLinkAround (S.view .backup w.fs) k := by
  have horig : ¬ v0.isDirAt k := by
    intro ⟨mt, hmt⟩; rw [hv0] at hmt; cases hmt
  intro a ha hl
  have hl0 := h.bklink_orig hl
  rcases ha with ha | ha
  · by_cases hak : a = k
    · subst hak; exact isLinkAt_not_none hv0 hl0
    · exact h.orig.noLinkAnc_parentDir hpar a ha hak hl0
  · by_cases hak : a = k
    · subst hak; exact isLinkAt_not_none hv0 hl0
    · exact isLinkAt_not_none (h.v0_below horig a ha hak) hl0

/-! ### the walk over the backup tree, generically -/

theorem walk_lstat_same_side (S : LSim cfg) (s : Side) {p : Path} {w : World} :
    SameFS w ((worldWalkOps cfg s).lstat w p).1 := by
  have : Sat (primInfo cfg s (.lstat p)) w (fun w' _ => SameFS w w') := by
    unfold primInfo
    apply Sat.bind
    apply (sat_primCall_pure (fun m' r h => S.pure_lstat h)).mono
    intro w1 r ⟨hs, _⟩
    cases r with
    | error e => exact hs
    | ok ret => cases ret <;> exact hs
  exact this

theorem walk_readDir_side {s : Side} {j : Key} {w : World} (hg : S.G w.fs) (hj : PKey j)
    (hacc : AccF (S.view s w.fs) j) :
    SameFS w ((worldWalkOps cfg s).readDirNames w (kp j)).1 ∧
      ∀ ns, ((worldWalkOps cfg s).readDirNames w (kp j)).2 = .ok ns → ∀ n ∈ ns, Plain n := by
  have : Sat (do
      let h ← primOpen cfg s (.open_ (kp j))
      let r ← attempt (hReaddirnames cfg h)
      let _ ← attempt (hClose h)
      match r with
      | .ok ns => pure (sortStrings ns)
      | .error e => M.throw e : M (List Name)) w
      (fun w' r => SameFS w w' ∧ ∀ ns, r = .ok ns → ∀ n ∈ ns, Plain n) := by
    apply Sat.bind
    apply (sat_open_ro (S := S) hg hj hacc).mono
    intro w1 r1 ⟨hs1, hwh, _⟩
    cases r1 with
    | error e => exact ⟨hs1, by intro ns h; cases h⟩
    | ok wh =>
      simp only
      obtain ⟨hside, hH, _⟩ := hwh wh rfl
      apply Sat.bind
      apply Sat.attempt
      have hrd : Sat (hReaddirnames cfg wh) w1 (fun w' r => SameFS w1 w' ∧ ∀ ns, r = .ok ns → ∀ n ∈ ns, Plain n) := by
        unfold hReaddirnames
        apply Sat.bind
        apply Sat.primH
        · intro _ w2 h2; exact ⟨h2, by intro ns h; cases h⟩
        · intro w2 h2
          apply Sat.bind
          apply Sat.getW
          simp only
          cases hrd : (cfg.side wh.side).hreaddirnames w2.fs wh.h with
          | error e => exact ⟨h2, by intro ns h; cases h⟩
          | ok ns =>
            apply Sat.pure
            refine ⟨h2, ?_⟩
            intro ns' h; cases h
            rw [hside, h2.fs, hs1.fs] at hrd
            exact S.readdir_plain hg hH hrd
      apply hrd.mono
      intro w2 r2 ⟨hs2, hpl⟩
      simp only
      apply Sat.bind
      apply Sat.attempt
      apply (sat_hClose (wh := wh) (w := w2)).mono
      intro w3 r3 ⟨hs3, _⟩
      simp only
      have hs := (hs1.trans hs2).trans hs3
      cases r2 with
      | error e => exact ⟨hs, by intro ns h; cases h⟩
      | ok ns =>
        apply Sat.pure
        refine ⟨hs, ?_⟩
        intro ns' h; cases h
        intro n hn
        exact hpl ns rfl n ((sortBy_perm strLt ns).mem_iff.mp hn)
  exact this

/-- a predicate on walk states that the walk function keeps at every key at or below `k`, that does
not look at the trace, and that guarantees that the keys at or below `k` are reached without
traversing or following a symlink, is kept by the whole walk -/
structure WalkInv (S : LSim cfg) (s : Side) (fn : WalkFn World (List Path)) (k : Key)
    (P : World → List Path → Prop) : Prop where
  same : ∀ w w' a, P w a → SameFS w w' → P w' a
  good : ∀ w a, P w a → S.G w.fs
  acc : ∀ w a j, P w a → k <+: j → AccF (S.view s w.fs) j
  step : ∀ w a j info err, P w a → PKey j → k <+: j → P (fn w a (kp j) info err).1.1 (fn w a (kp j) info err).1.2

def WalkRecP (s : Side) (fn : WalkFn World (List Path)) (k : Key) (P : World → List Path → Prop)
    (fuel : Nat) : Prop :=
  ∀ (w : World) (a : List Path) (j : Key) (info : Info), P w a → PKey j → k <+: j →
    P (walkRec (worldWalkOps cfg s) fn fuel w a (kp j) info).1.1
      (walkRec (worldWalkOps cfg s) fn fuel w a (kp j) info).1.2

def WalkNamesP (s : Side) (fn : WalkFn World (List Path)) (k : Key) (P : World → List Path → Prop)
    (fuel : Nat) : Prop :=
  ∀ (names : List Name) (w : World) (a : List Path) (j : Key), (∀ n ∈ names, Plain n) →
    P w a → PKey j → k <+: j →
    P (walkNames (worldWalkOps cfg s) fn fuel w a (kp j) names).1.1
      (walkNames (worldWalkOps cfg s) fn fuel w a (kp j) names).1.2

theorem walkNamesP_of_rec {s : Side} {fn : WalkFn World (List Path)} {k : Key} {P : World → List Path → Prop}
    (hI : WalkInv S s fn k P) {fuel : Nat} (hrec : WalkRecP (cfg := cfg) s fn k P fuel) :
    WalkNamesP (cfg := cfg) s fn k P fuel := by
  intro names
  induction names with
  | nil =>
    intro w a j _ h _ _
    rw [walkNames]
    exact h
  | cons n rest ih =>
    intro w a j hpl h hj hkj
    have hn : Plain n := hpl n (by simp)
    have hrest : ∀ m ∈ rest, Plain m := fun m hm => hpl m (List.mem_cons_of_mem _ hm)
    have hj' : PKey (j ++ [n]) := hj.snoc hn
    have hkj' : k <+: j ++ [n] := prefix_snoc_of n hkj
    rw [walkNames]
    simp only [join_kp hj hn]
    have hsame := walk_lstat_same_side (cfg := cfg) S s (p := kp (j ++ [n])) (w := w)
    cases hl : (worldWalkOps cfg s).lstat w (kp (j ++ [n])) with
    | mk w1 r1 =>
      rw [hl] at hsame
      have h1 : P w1 a := hI.same _ _ _ h hsame
      cases r1 with
      | error e =>
        simp only
        have hfn := hI.step w1 a (j ++ [n]) none (some e) h1 hj' hkj'
        cases hf : fn w1 a (kp (j ++ [n])) none (some e) with
        | mk sa oe =>
          rw [hf] at hfn
          obtain ⟨s2, a2⟩ := sa
          cases oe with
          | some e' => exact hfn
          | none => exact ih s2 a2 j hrest hfn hj hkj
      | ok fi =>
        simp only
        have hr := hrec w1 a (j ++ [n]) fi h1 hj' hkj'
        cases hw : walkRec (worldWalkOps cfg s) fn fuel w1 a (kp (j ++ [n])) fi with
        | mk sa oe =>
          rw [hw] at hr
          obtain ⟨s2, a2⟩ := sa
          cases oe with
          | some e' => exact hr
          | none => exact ih s2 a2 j hrest hr hj hkj

theorem walk_inv {s : Side} {fn : WalkFn World (List Path)} {k : Key} {P : World → List Path → Prop}
    (hI : WalkInv S s fn k P) :
    ∀ fuel, WalkRecP (cfg := cfg) s fn k P fuel ∧ WalkNamesP (cfg := cfg) s fn k P fuel
  | 0 => by
    have hrec : WalkRecP (cfg := cfg) s fn k P 0 := by
      intro w a j info h _ _
      rw [walkRec]
      exact h
    exact ⟨hrec, walkNamesP_of_rec hI hrec⟩
  | fuel + 1 => by
    have ih := (walk_inv hI fuel).2
    have hrec : WalkRecP (cfg := cfg) s fn k P (fuel + 1) := by
      intro w a j info h hj hkj
      rw [walkRec]
      have hfn := hI.step w a j (some info) none h hj hkj
      cases hf : fn w a (kp j) (some info) none with
      | mk sa oe =>
        rw [hf] at hfn
        obtain ⟨s1, a1⟩ := sa
        cases oe with
        | some e => exact hfn
        | none =>
          simp only
          split
          · exact hfn
          · have hrd := walk_readDir_side (cfg := cfg) (S := S) (s := s) (j := j) (w := s1) (hI.good _ _ hfn) hj
              (hI.acc _ _ j hfn hkj)
            cases hr : (worldWalkOps cfg s).readDirNames s1 (kp j) with
            | mk s2 r2 =>
              rw [hr] at hrd
              have h2 : P s2 a1 := hI.same _ _ _ hfn hrd.1
              cases r2 with
              | error e => exact hI.step s2 a1 j (some info) (some e) h2 hj hkj
              | ok names => exact ih names s2 a1 j (hrd.2 names rfl) h2 hj hkj
    exact ⟨hrec, walkNamesP_of_rec hI hrec⟩

/-! ### the walk of `tryRemoveBackup` -/

/-- state of the walk of `tryRemoveBackup` from `w0`: everything so far happened at or below `k`,
still no symlink around `k` in the backup view, the collected directories are key paths at or below
`k`, and `k` itself is among them -/
structure RB (S : LSim cfg) (k : Key) (w0 w : World) (ds : List Path) : Prop where
  below : Below S k w0 w
  clean : NoLinkAround (S.view .backup w.fs) k
  keys : ∀ p ∈ ds, ∃ j, PKey j ∧ k <+: j ∧ p = kp j
  root : kp k ∈ ds

/-- `Remove` on the backup, then `delete(baseInfos, ·)`, at a key at or below `k` -/
theorem sat_removeDel {k j : Key} {w : World} (hg : S.G w.fs) (hkne : k ≠ []) (hj : PKey j) (hkj : k <+: j)
    (hcl : NoLinkAround (S.view .backup w.fs) k) :
    Sat (do primUnit cfg .backup (.remove (kp j)); deleteInfo (kp j) : M Unit) w
      (fun w' _ => Below S k w w') := by
  apply Sat.bind
  apply (sat_primUnit_chg (S := S) (s := .backup) (c := .remove (kp j)) (K := (· = j)) hg
    (fun m' r h => by
      obtain ⟨g, o, f, l⟩ := S.remove_frame hg hj (ne_nil_of_prefix hkne hkj) (hcl.noLinkAnc hkj) h
      exact ⟨g, o, fun i hi => f i hi, l⟩)).mono
  intro w1 r1 hc
  have hb1 : Below S k w w1 := Below.of_chg hc (fun i hi => by subst hi; exact hkj)
  cases r1 with
  | error e => exact hb1
  | ok u =>
    simp only
    apply Sat.of_eq (deleteInfo_eq w1 (kp j))
    exact hb1.trans (Below.of_del hc.good hj hkj)

theorem RB.step {k : Key} {w0 w w' : World} {ds : List Path} (h : RB S k w0 w ds) (hb : Below S k w w') :
    RB S k w0 w' ds :=
  ⟨h.below.trans hb, h.clean.mono hb.links, h.keys, h.root⟩

theorem removeBackupFn_rb {k : Key} (hkne : k ≠ []) {w0 : World} :
    WalkInv S .backup (removeBackupFn cfg) k (RB S k w0) := by
  refine ⟨?_, ?_, ?_, ?_⟩
  · intro w w' a h hs
    exact h.step (Below.of_same h.below.good hs)
  · intro w a h
    exact h.below.good
  · intro w a j h hkj
    exact h.clean.accF hkj
  · intro w a j info err h hj hkj
    unfold removeBackupFn
    cases err with
    | some e => exact h
    | none =>
      cases info with
      | none => exact h
      | some i =>
        simp only
        split
        · refine ⟨h.below, h.clean, ?_, List.mem_append_left _ h.root⟩
          intro p hp
          rcases List.mem_append.mp hp with hp | hp
          · exact h.keys p hp
          · simp only [List.mem_singleton] at hp
            exact ⟨j, hj, hkj, hp⟩
        · have hrem := (sat_removeDel (cfg := cfg) (S := S) h.below.good hkne hj hkj h.clean).elim
          cases hr : (do primUnit cfg .backup (.remove (kp j)); deleteInfo (kp j) : M Unit) w with
          | mk w' r =>
            rw [hr] at hrem
            cases r <;> exact h.step hrem

/-- the whole walk from a key at which the backup holds a directory -/
theorem walkTree_rb {k : Key} {w : World} (hg : S.G w.fs) (hk : PKey k) (hkne : k ≠ [])
    (hcl : NoLinkAround (S.view .backup w.fs) k)
    (hdir : (S.view .backup w.fs).isDirAt k) :
    Below S k w (walkTree (worldWalkOps cfg .backup) (removeBackupFn cfg) 64 w [] (kp k)).1.1 ∧
    ((walkTree (worldWalkOps cfg .backup) (removeBackupFn cfg) 64 w [] (kp k)).2 = none →
      (∀ p ∈ (walkTree (worldWalkOps cfg .backup) (removeBackupFn cfg) 64 w [] (kp k)).1.2,
        ∃ j, PKey j ∧ k <+: j ∧ p = kp j) ∧
      kp k ∈ (walkTree (worldWalkOps cfg .backup) (removeBackupFn cfg) 64 w [] (kp k)).1.2) := by
  have hI := removeBackupFn_rb (cfg := cfg) (S := S) hkne (w0 := w)
  unfold walkTree
  have hl : LstatPost S .backup k w ((worldWalkOps cfg .backup).lstat w (kp k)).1
      ((worldWalkOps cfg .backup).lstat w (kp k)).2 :=
    (sat_lstat (S := S) (s := .backup) hg hk (hcl.noLinkAnc (List.prefix_refl k))).elim
  cases hlr : (worldWalkOps cfg .backup).lstat w (kp k) with
  | mk w1 r1 =>
    rw [hlr] at hl
    obtain ⟨hs, hr⟩ := hl
    have hb1 : Below S k w w1 := Below.of_same hg hs
    cases r1 with
    | error e =>
      exact ⟨hb1, by intro h; cases h⟩
    | ok info =>
      simp only
      have hisd : info.isDir = true := by
        rcases hr with ⟨n, i, hv, hi, hfor⟩ | ⟨_, e, he, _⟩ | ⟨he, _⟩
        · cases hi
          obtain ⟨mt, hmt⟩ := hdir
          rw [hmt] at hv; cases hv
          have : info.kind = .dir := hfor.1
          simp [Info.isDir, this]
        · cases he
        · cases he
      have hall : RB S k w
          (walkRec (worldWalkOps cfg .backup) (removeBackupFn cfg) (63 + 1) w1 [] (kp k) info).1.1
          (walkRec (worldWalkOps cfg .backup) (removeBackupFn cfg) (63 + 1) w1 [] (kp k) info).1.2 := by
        rw [walkRec]
        have hfn : removeBackupFn cfg w1 [] (kp k) (some info) none = ((w1, [kp k]), none) := by
          simp [removeBackupFn, hisd]
        rw [hfn]
        simp only [hisd, Bool.not_true, Bool.false_eq_true, if_false]
        have h1 : RB S k w w1 [kp k] :=
          ⟨hb1, hcl.mono hb1.links,
            (by intro p hp; simp only [List.mem_singleton] at hp; exact ⟨k, hk, List.prefix_refl _, hp⟩),
            (by simp)⟩
        have hrd := walk_readDir_side (cfg := cfg) (S := S) (s := .backup) (j := k) (w := w1) hb1.good hk
          (h1.clean.accF (List.prefix_refl k))
        cases hrr : (worldWalkOps cfg .backup).readDirNames w1 (kp k) with
        | mk s2 r2 =>
          rw [hrr] at hrd
          have h2 : RB S k w s2 [kp k] := hI.same _ _ _ h1 hrd.1
          cases r2 with
          | error e => exact hI.step s2 [kp k] k (some info) (some e) h2 hk (List.prefix_refl _)
          | ok names =>
            exact (walk_inv (cfg := cfg) hI 63).2 names s2 [kp k] k (hrd.2 names rfl) h2 hk (List.prefix_refl _)
      exact ⟨hall.below, fun _ => ⟨hall.keys, hall.root⟩⟩

theorem sat_removeBackupDirs {k : Key} (hkne : k ≠ []) : ∀ (ds : List Path) (w : World), S.G w.fs →
    NoLinkAround (S.view .backup w.fs) k →
    (∀ p ∈ ds, ∃ j, PKey j ∧ k <+: j ∧ p = kp j) →
    Sat (removeBackupDirs cfg ds) w (fun w' r => Below S k w w' ∧
      (r = .ok () → ∀ p ∈ ds, w'.infos.lookup p = none))
  | [], w, hg, _, _ => by
    unfold removeBackupDirs
    apply Sat.pure
    exact ⟨Below.refl hg, by intro _ p hp; cases hp⟩
  | d :: ds, w, hg, hcl, hd => by
    unfold removeBackupDirs
    obtain ⟨j, hj, hkj, rfl⟩ := hd d (by simp)
    have hjne := ne_nil_of_prefix hkne hkj
    apply Sat.bind
    apply (sat_primUnit_chg (S := S) (s := .backup) (c := .removeAll (kp j)) (K := (j <+: ·)) hg
      (fun m' r h => by
        obtain ⟨g, o, f, l⟩ := S.removeAll_frame hg hj hjne (hcl.noLinkAnc hkj) h
        exact ⟨g, o, fun i hi => f i hi, l⟩)).mono
    intro w1 r1 hc
    have hb1 : Below S k w w1 := Below.of_chg hc (fun i hi => hkj.trans hi)
    cases r1 with
    | error e => exact ⟨hb1, by intro h; cases h⟩
    | ok u =>
      simp only
      apply Sat.bind
      apply Sat.of_eq (deleteInfo_eq w1 (kp j))
      simp only
      have hb2 : Below S k w (delInfo w1 (kp j)) := hb1.trans (Below.of_del hc.good hj hkj)
      apply (sat_removeBackupDirs hkne ds (delInfo w1 (kp j)) hb2.good (hcl.mono hb2.links)
        (fun p hp => hd p (List.mem_cons_of_mem _ hp))).mono
      intro w3 r3 ⟨hb3, hres⟩
      refine ⟨hb2.trans hb3, ?_⟩
      intro hr p hp
      rcases List.mem_cons.mp hp with rfl | hp
      · exact hb3.lookup_none (delInfo_lookup_self w1 _)
      · exact hres hr p hp

/-! ### `tryRemoveBackup` and `ForceBackup` -/

/-- `tryRemoveBackup` on a non-directory key (now a file, a symlink or absent; originally a file, a
symlink or absent) whose parent predates the transaction, all branches: on success the entry of `k`
is gone and the invariant holds for the view re-based at `k`; on failure it holds for the original
or for the re-based view -/
theorem sat_tryRemoveBackup_full {k : Key} {w : World} (hinv : Inv S v0 w) (hk : PKey k)
    (horig : ¬ v0.isDirAt k) (hnow : ¬ (S.view .base w.fs).isDirAt k) (hpar : v0.parentDir k) :
    Sat (tryRemoveBackup cfg (kp k)) w (fun w' r =>
      w'.faults = w.faults ∧ S.view .base w'.fs = S.view .base w.fs ∧
      (r = .ok () → Inv S (rebase v0 k (S.view .base w.fs k)) w') ∧
      (∀ e, r = .error e → Inv S v0 w' ∨ Inv S (rebase v0 k (S.view .base w.fs k)) w')) := by
  have hkne : k ≠ [] := hpar.1
  have haccb : NoLinkAnc (S.view .backup w.fs) k := hinv.backup_noLinkAnc_par hpar
  unfold tryRemoveBackup lookupInfo
  apply Sat.bind
  apply Sat.bind
  apply Sat.getW
  simp only
  apply Sat.pure
  simp only
  cases hl : w.infos.lookup (kp k) with
  | none =>
    simp only
    apply Sat.pure
    refine ⟨rfl, rfl, fun _ => ?_, fun e h => by cases h⟩
    rw [hinv.frame k hk hl, rebase_id]; exact hinv
  | some x =>
    simp only
    apply Sat.bind
    apply Sat.bind
    apply Sat.attempt
    apply (sat_lstat hinv.good hk haccb).mono
    intro w1 r ⟨hs, hr⟩
    have hg1 : S.G w1.fs := hs.fs ▸ hinv.good
    have haccb1 : NoLinkAnc (S.view .backup w1.fs) k := by rw [hs.fs]; exact haccb
    simp only
    rcases hr with ⟨n, i, hv, rfl, hfor⟩ | ⟨hv, e, rfl, hnf⟩ | ⟨rfl, hf⟩
    · simp only
      apply Sat.pure
      simp only
      have hv1 : S.view .backup w1.fs k = some n := by rw [hs.fs]; exact hv
      cases hisd : i.isDir with
      | false =>
        -- the stale copy is a regular file or a symlink: `backup.Remove`
        simp only [Bool.not_false, if_true]
        have hnd : (S.view .backup w1.fs).isFileAt k ∨ isLinkAt (S.view .backup w1.fs) k ∨
            ((S.view .backup w1.fs).isDirAt k ∧ ¬ (S.view .backup w1.fs).hasChild k) := by
          cases n with
          | file c mt => exact Or.inl ⟨c, mt, hv1⟩
          | link t mt => exact Or.inr (Or.inl ⟨t, mt, hv1⟩)
          | dir mt =>
            have : i.kind = .dir := hfor.1
            simp [Info.isDir, this] at hisd
        apply Sat.bind
        apply (sat_primUnit_exact' (S := S) (s := .backup) (c := .remove (kp k)) (K := (· = k))
          (P := fun m => S.view .backup m k = none) hg1
          (fun m' r h => by
            obtain ⟨g, o, f, _⟩ := S.remove_frame hg1 hk hkne haccb1 h
            exact ⟨g, o, fun j hj => f j hj⟩)
          (S.remove_ok hg1 hk hkne hnd)).mono
        intro w2 r2 ⟨hc, hpost, herr⟩
        cases r2 with
        | error e =>
          obtain ⟨hs12, hf1⟩ := herr e rfl
          have hs2 := hs.trans hs12
          exact ⟨hs2.faults, (by rw [hs2.fs]), (fun h => by cases h),
            fun _ _ => Or.inl (hinv.of_same hs2)⟩
        | ok u =>
          simp only
          apply Sat.of_eq (deleteInfo_eq w2 (kp k))
          have hc' : S.ChgL .backup (· = k) w w2 := LSim.ChgL.same_left hs hc
          exact ⟨hc'.faults, hc'.other,
            fun _ => hinv.del_rebase hk horig hnow hpar hc' (isLinkAt_not_none (hpost rfl)),
            fun e h => by cases h⟩
      | true =>
        -- the backup holds a directory: `k` is tracked as "did not exist"
        simp only [Bool.not_true, Bool.false_eq_true, if_false]
        obtain ⟨mtd, rfl⟩ := infoForL_dir hfor hisd
        have hv0 : v0 k = none := by
          cases x with
          | none => exact hinv.absent k hk hl
          | some i0 =>
            exfalso
            obtain ⟨n0, hn0, _, hcopy, hlcopy⟩ := hinv.saved k i0 hk hl
            cases n0 with
            | dir mt0 => exact horig ⟨mt0, hn0⟩
            | link t0 mt0 =>
              obtain ⟨⟨mt', hb'⟩, _⟩ := hlcopy t0 mt0 rfl
              rw [hv] at hb'; cases hb'
            | file c0 mt0 =>
              obtain ⟨mt', hb'⟩ := hcopy c0 mt0 rfl
              rw [hv] at hb'; cases hb'
        have hcl1 : NoLinkAround (S.view .backup w1.fs) k := by
          rw [hs.fs]; exact hinv.backup_noLinkAround hv0 hpar
        have hdir1 : (S.view .backup w1.fs).isDirAt k := ⟨mtd, hv1⟩
        have hb1 : Below S k w w1 := Below.of_same hinv.good hs
        apply Sat.bind
        have hw : Sat (fun w => match walkTree (worldWalkOps cfg .backup) (removeBackupFn cfg) 64 w [] (kp k) with
            | ((w', dirs), none) => (w', Except.ok dirs)
            | ((w', _), some e) => (w', Except.error e) : M (List Path)) w1
            (fun w' r => Below S k w1 w' ∧ ∀ dirs, r = .ok dirs →
              (∀ p ∈ dirs, ∃ j, PKey j ∧ k <+: j ∧ p = kp j) ∧ kp k ∈ dirs) := by
          have hwt := walkTree_rb (cfg := cfg) (S := S) hg1 hk hkne hcl1 hdir1
          unfold Sat
          show Below S k w1 (match walkTree (worldWalkOps cfg .backup) (removeBackupFn cfg) 64 w1 [] (kp k) with
              | ((w', dirs), none) => (w', Except.ok dirs)
              | ((w', _), some e) => (w', Except.error e)).1 ∧
            ∀ dirs, (match walkTree (worldWalkOps cfg .backup) (removeBackupFn cfg) 64 w1 [] (kp k) with
              | ((w', dirs), none) => (w', Except.ok dirs)
              | ((w', _), some e) => (w', Except.error e)).2 = .ok dirs →
                (∀ p ∈ dirs, ∃ j, PKey j ∧ k <+: j ∧ p = kp j) ∧ kp k ∈ dirs
          cases hx : walkTree (worldWalkOps cfg .backup) (removeBackupFn cfg) 64 w1 [] (kp k) with
          | mk sa oe =>
            rw [hx] at hwt
            obtain ⟨s2, a2⟩ := sa
            cases oe with
            | some e' => exact ⟨hwt.1, by intro d h; cases h⟩
            | none => exact ⟨hwt.1, by intro d h; cases h; exact hwt.2 rfl⟩
        apply hw.mono
        intro w3 r3 ⟨hb3, hdirs⟩
        have hb13 := hb1.trans hb3
        cases r3 with
        | error e =>
          exact ⟨hb13.faults, hb13.base, (by intro h; cases h),
            fun _ _ => hinv.below_or hb13 hk hv0 hnow hpar⟩
        | ok dirs =>
          simp only
          obtain ⟨hkeys, hroot⟩ := hdirs dirs rfl
          apply (sat_removeBackupDirs (cfg := cfg) (S := S) hkne (sortMost dirs) w3 hb3.good
            (hcl1.mono hb3.links)
            (fun p hp => hkeys p ((sortBy_perm _ dirs).mem_iff.mp hp))).mono
          intro w4 r4 ⟨hb4, hres⟩
          have hb := hb13.trans hb4
          refine ⟨hb.faults, hb.base, ?_, fun _ _ => hinv.below_or hb hk hv0 hnow hpar⟩
          intro hr
          exact (hinv.below hb hk hv0 hnow hpar).2
            (hres hr (kp k) ((sortBy_perm _ dirs).mem_iff.mpr hroot))
    · -- nothing in the backup at `k`
      simp only [hnf, if_true]
      apply Sat.pure
      simp only
      apply Sat.of_eq (deleteInfo_eq w1 (kp k))
      have hc' : S.ChgL .backup (· = k) w w1 := LSim.ChgL.of_same hinv.good hs
      exact ⟨hc'.faults, hc'.other,
        fun _ => hinv.del_rebase hk horig hnow hpar hc' (isLinkAt_not_none (by rw [hs.fs]; exact hv)),
        fun e h => by cases h⟩
    · simp only [Err.isNotFound, Bool.false_eq_true, if_false]
      apply Sat.throw
      exact ⟨hs.faults, (by rw [hs.fs]), (fun h => by cases h), fun _ _ => Or.inl (hinv.of_same hs)⟩

/-- C17, core, with symlinks as leaves: `ForceBackup(p)` for a path that was not a directory when the
transaction began, is not one now (a file, a symlink or absent), whose parent directories predate the
transaction, no proper ancestor of which is a symlink in the base now, and — if it is a symlink now —
whose target the base side admits re-creating: under every fault plan the base view is untouched and
the invariant holds for the original or for the re-based view; if it succeeds, for the view re-based
at `p` -/
theorem sat_forceBackup_full {name : Path} {k : Key} {w : World} (hinv : Inv S v0 w) (hk : PKey k)
    (hname : clean name = kp k)
    (horig : ¬ v0.isDirAt k) (hnow : ¬ (S.view .base w.fs).isDirAt k) (hpar : v0.parentDir k)
    (hacc : NoLinkAnc (S.view .base w.fs) k)
    (hlok : ∀ t mt, S.view .base w.fs k = some (.link t mt) → S.LinkOK .base k t) :
    Sat (forceBackup cfg name) w (fun w' r =>
      (Inv S v0 w' ∨ Inv S (rebase v0 k (S.view .base w.fs k)) w') ∧ w'.faults = w.faults ∧
      S.view .base w'.fs = S.view .base w.fs ∧
      (r = .ok () → Inv S (rebase v0 k (S.view .base w.fs k)) w' ∧ ∀ b, b <+: k → Tracked w' b)) := by
  unfold forceBackup
  apply Sat.bind
  apply (sat_realPath (S := S) hinv.good hk hname hacc).mono
  intro w1 r ⟨hs, hres⟩
  have hinv1 := hinv.of_same hs
  cases r with
  | error e => exact ⟨Or.inl hinv1, hs.faults, (by rw [hs.fs]), (by intro h; cases h)⟩
  | ok p =>
    simp only
    have hp := hres p rfl
    subst hp
    apply Sat.bind
    apply (sat_tryRemoveBackup_full (cfg := cfg) hinv1 hk horig (by rw [hs.fs]; exact hnow) hpar).mono
    intro w2 r2 ⟨hf2, hb2, hok2, herr2⟩
    rw [hs.fs] at hb2 hok2 herr2
    cases r2 with
    | error e => exact ⟨herr2 e rfl, hf2.trans hs.faults, hb2, (by intro h; cases h)⟩
    | ok u =>
      simp only
      have hinv2 := hok2 rfl
      apply (sat_tryBackup hinv2 hk (by rw [hb2]; exact hacc) (by rw [hb2]; exact hlok)).mono
      intro w3 r3 ⟨hadv, _, htr⟩
      exact ⟨Or.inr hadv.inv, hadv.faults.trans (hf2.trans hs.faults), hadv.base.trans hb2,
        fun h => ⟨hadv.inv, htr h⟩⟩

end L
end BFS
