import Lemmas.JTHex
/-! JSON text layer (C12): string literals — escape classes, `decStr ∘ encStrL`. -/
namespace BFS.JsonText

/-! ### escape classes -/

/-- the short escapes are read back -/
theorem esc2_some (c e : Char) (h : esc2 c = some e) : e ≠ 'u' ∧ unesc2 e = some c := by
  unfold esc2 at h
  repeat' split at h
  all_goals first
    | (cases h; subst_vars; decide)
    | cases h

theorem esc2_none (c : Char) (h : esc2 c = none) : c ≠ '"' ∧ c ≠ '\\' := by
  unfold esc2 at h
  repeat' split at h
  all_goals first
    | (constructor <;> assumption)
    | cases h

/-- the `\u00xy` class lies below 0x80 -/
theorem isU00_lt (c : Char) (h : isU00 c = true) : c.toNat < 64 := by
  unfold isU00 at h
  simp only [Bool.or_eq_true, decide_eq_true_eq] at h
  rcases h with ((h | h) | h) | h
  · omega
  · subst h; decide
  · subst h; decide
  · subst h; decide

theorem isLineSep_mod (c : Char) (h : isLineSep c = true) :
    8224 + c.toNat % 16 = c.toNat := by
  unfold isLineSep at h
  simp only [Bool.or_eq_true, decide_eq_true_eq] at h
  omega

theorem not_isU00_ge (c : Char) (h : isU00 c = false) : ¬ c.toNat < 32 := by
  unfold isU00 at h
  simp only [Bool.or_eq_false_iff, decide_eq_false_iff_not] at h
  exact h.1.1.1

theorem isSurr_small (n : Nat) (h : n < 55296) : isSurr n = false := by
  unfold isSurr; simp; omega

/-! ### one character -/

theorem consOut_some (c : Char) (s r : List Char) : consOut c (some (s, r)) = some (c :: s, r) := rfl

/-- what the decoder does with the encoding of one character -/
theorem decBody_encChar (fuel : Nat) (c : Char) (tail : List Char) :
    decBody (fuel + 1) (encChar c ++ tail) = consOut c (decBody fuel tail) := by
  unfold encChar
  split
  · rename_i e he
    obtain ⟨hu, hun⟩ := esc2_some c e he
    simp [decBody, hu, hun]
  · rename_i he
    obtain ⟨hq, hb⟩ := esc2_none c he
    split
    · rename_i h00
      have hlt := isU00_lt c h00
      have h4 := hex4_00 (c.toNat / 16) (c.toNat % 16) (by omega) (by omega) tail
      have he : c.toNat / 16 * 16 + c.toNat % 16 = c.toNat := by omega
      rw [he] at h4
      simp [decBody, h4, isSurr_small c.toNat (by omega), Char.ofNat_toNat]
    · split
      · rename_i h00 hls
        have hm := isLineSep_mod c hls
        have h4 := hex4_202 (c.toNat % 16) (by omega) tail
        rw [hm] at h4
        have hs : isSurr c.toNat = false := by
          unfold isLineSep at hls
          simp only [Bool.or_eq_true, decide_eq_true_eq] at hls
          apply isSurr_small; omega
        simp [decBody, h4, hs, Char.ofNat_toNat]
      · rename_i h00 hls
        have hge := not_isU00_ge c (by simpa using h00)
        simp [decBody, hq, hb, hge]

theorem encChar_ne_nil (c : Char) : encChar c ≠ [] := by
  unfold encChar
  split
  · simp
  · split
    · simp
    · split <;> simp

theorem length_le_encBody : ∀ s : List Char, s.length ≤ (encBody s).length
  | [] => by simp [encBody]
  | c :: s => by
    have := length_le_encBody s
    have h := encChar_ne_nil c
    have : 0 < (encChar c).length := List.length_pos_iff.mpr h
    simp only [encBody, List.length_cons, List.length_append]
    omega

/-! ### whole strings -/

theorem decBody_encBody : ∀ (s rest : List Char) (fuel : Nat), s.length + 1 ≤ fuel →
    decBody fuel (encBody s ++ '"' :: rest) = some (s, rest)
  | [], rest, fuel, h => by
    obtain ⟨f, rfl⟩ : ∃ f, fuel = f + 1 := ⟨fuel - 1, by omega⟩
    simp [encBody, decBody]
  | c :: s, rest, fuel, h => by
    obtain ⟨f, rfl⟩ : ∃ f, fuel = f + 1 := ⟨fuel - 1, by omega⟩
    simp only [encBody, List.append_assoc]
    rw [decBody_encChar, decBody_encBody s rest f (by simp at h; omega)]
    rfl

/-- a string literal written by the encoder is read back, whatever follows it -/
theorem decStr_encBody (s rest : List Char) : decStr (encBody s ++ '"' :: rest) = some (s, rest) := by
  unfold decStr
  apply decBody_encBody
  have := length_le_encBody s
  simp only [List.length_append, List.length_cons]
  omega

/-- the body of a literal determines the string -/
theorem encBody_injective {s t : List Char} (h : encBody s = encBody t) : s = t := by
  have h1 := decStr_encBody s []
  rw [h, decStr_encBody t []] at h1
  simp only [Option.some.injEq, Prod.mk.injEq, and_true] at h1
  exact h1.symm

theorem encStrL_injective {s t : List Char} (h : encStrL s = encStrL t) : s = t := by
  unfold encStrL at h
  simp only [List.cons.injEq, true_and] at h
  exact encBody_injective (List.append_cancel_right h)

end BFS.JsonText
