import Lemmas.TStep
import Lemmas.TRA3
/-!
  Lemmas/TStepAll.lean — transparency of one covered operation, `RemoveAll` included.
-/
namespace BFS
open BackupFS MFS

section
variable {bk kk : Key}

/-- the depth bound of the model's `Walk` (64 levels), for a `RemoveAll` -/
def Op.WalkDepthOK (bk kk : Key) (m : MFS) : Op → Prop
  | .removeAll p => ∀ k, PKey k → clean p = kp k → BFS.DepthOK bk kk m k
  | _ => True

/-- the one exception to transparency: `RemoveAll` of a name below a regular file -/
def Op.ENOTDIRException (bk kk : Key) (w : World) (op : Op) (w' : World) (r : Except Err OpOut)
    (d : MFS × Except Err DOut) : Prop :=
  ∃ p k, op = .removeAll p ∧ PKey k ∧ clean p = kp k ∧ RemoveAllENOTDIR bk kk w k w' r d

theorem op_transp_all (hr : Roots bk kk) {v0 : View} {r0 : Option Node} {w : World} {op : Op}
    (hinv : InvB (osSimR hr) v0 r0 w) (hc : op.AbsNames) (hdepth : op.WalkDepthOK bk kk w.fs) :
    Transp bk kk (Op.exec (osCfg bk kk) op w).1 (Op.exec (osCfg bk kk) op w).2
        (Op.direct (baseFS bk kk) w.fs op) ∨
      Op.ENOTDIRException bk kk w op (Op.exec (osCfg bk kk) op w).1 (Op.exec (osCfg bk kk) op w).2
        (Op.direct (baseFS bk kk) w.fs op) := by
  by_cases hra : op.isRemoveAll
  · cases op with
    | removeAll p =>
      obtain ⟨k, hk, hname⟩ := clean_abs hc.1
      have hne : k ≠ [] := by
        intro e; subst e; exact hc.2 hname
      rcases (removeAll_transp hr hinv hk hne hname (hdepth k hk hname)).elim with h | h
      · exact Or.inl h
      · exact Or.inr ⟨p, k, rfl, hk, hname, h⟩
    | _ => exact absurd hra id
  · exact Or.inl (op_transp hr hinv hc hra)

end

end BFS
