import Lemmas.HLLRes
import Lemmas.HLLWalk
import Lemmas.DHidStep
/-!
  Lemmas/HLLStep.lean — HiddenFS over `PrefixFS(kp bk)` over the OS model on well-formed disks with
  symlinks anywhere (`HLL.WFL`).

  * `visible_call_untouched_links`: one delegated call (other than `RemoveAll`) whose names are visible,
    the kernel walk of each of them meeting no symlink among its proper ancestors — and, for the calls
    that write through a final symlink (`followsMut`), the final component not being a symlink —,
    leaves every node at or below a hidden key exactly as it was.
  * `hiddenRemoveAll_untouched_links`: the whole `HiddenFS.RemoveAll` program, argument `kp y` with no
    symlink among the proper ancestors of `bk ++ y`; symlinks INSIDE the removed tree are leaves that
    `Lstat` reports as such and `Remove` unlinks without following.
-/
namespace BFS
namespace HLL
open MFS HiddenFS D L

/-- the key a name string denotes: the components of its cleaned form -/
def nameKey (n : Path) : Key := (cleanC n).comps

theorem nameKey_abs {p : Path} (h : isAbs p = true) : PKey (nameKey p) ∧ clean p = kp (nameKey p) := by
  have hc := cleanC_canon p
  have hr : (cleanC p).rooted = true := h
  refine ⟨?_, ?_⟩
  · intro n hn
    have := hc.ok n hn
    exact ⟨this.1.1, this.1.2, this.2, fun e => hc.rootedNoDD hr (e ▸ hn)⟩
  · unfold clean CPath.render nameKey
    simp [hr, kp]

theorem nameKey_kp {y : Key} (hy : PKey y) : nameKey (kp y) = y := by
  unfold nameKey
  rw [cleanC_kp hy]
  rfl

section
variable {bk : Key} {hks : List Key} {hs : List Path}

/-- the names of a call translated by `PrefixFS` come from the names of the call -/
theorem keyCall_paths {pk : Key} {c c' : Call} (hk : KeyCall pk c c') :
    followsMut c' = followsMut c ∧
    ∀ x, kp (pk ++ x) ∈ c'.accessPaths →
      ∃ n ∈ c.accessPaths, PrefixFS.prefixPath (kp pk) n = .ok (kp (pk ++ x)) := by
  cases hk with
  | rename o n x y hx hy hpo hpn =>
    refine ⟨rfl, ?_⟩
    intro z hm
    simp only [Call.accessPaths, List.mem_cons, List.not_mem_nil, or_false] at hm
    rcases hm with hm | hm
    · exact ⟨o, by simp [Call.accessPaths], by rw [hm]; exact hpo⟩
    · exact ⟨n, by simp [Call.accessPaths], by rw [hm]; exact hpn⟩
  | create n x hx hp | mkdir n p x hx hp | mkdirAll n p x hx hp | open_ n x hx hp | openFile n f p x hx hp
  | remove n x hx hp | removeAll n x hx hp
  | stat n x hx hp | chmod n md x hx hp | chown n u g x hx hp | chtimes n a t x hx hp | lstat n x hx hp
  | symlink o n o' x hx hp | readlink n x hx hp | lchown n u g x hx hp =>
    refine ⟨rfl, ?_⟩
    intro z hm
    simp only [Call.accessPaths, List.mem_singleton] at hm
    exact ⟨n, by simp [Call.accessPaths], by rw [hm]; exact hp⟩

/-- a visible name is mapped by `PrefixFS(kp bk)` to the key `bk ++ nameKey n` -/
theorem prefix_key_nameKey (H : HidKeys hs hks) (hne : hks ≠ []) (hbk : PKey bk) {x : Key} (hx : PKey x)
    {n : Path} (hp : PrefixFS.prefixPath (kp bk) n = .ok (kp (bk ++ x))) (hv : isHidden n hs = .ok false) :
    x = nameKey n := by
  obtain ⟨hy, hc⟩ := nameKey_abs (visible_abs H hne hv)
  exact prefixPath_key_eq hbk hx hy hc hp

/-- Lemma A with symlinks -/
theorem visible_call_untouched_links (H : HidKeys hs hks) (hne : hks ≠ []) {m : MFS} (hw : WFL m) (hbk : PKey bk)
    (c1 : Call) (hvis : ∀ n ∈ c1.accessPaths, isHidden n hs = .ok false)
    (hanc : ∀ o n, c1 = .rename o n →
      isParentOfHidden o hs = .ok false ∧ isParentOfHidden n hs = .ok false)
    (hnra : ∀ n, c1 ≠ .removeAll n)
    (hroute : ∀ n ∈ c1.accessPaths, NoLinkProper m (bk ++ nameKey n))
    (hfinal : followsMut c1 = true → ∀ n ∈ c1.accessPaths, ∀ tg mt, m.get (bk ++ nameKey n) ≠ some (.link tg mt)) :
    ∀ j, HidK hks j → ((prefixFS (kp bk) osfs).call m c1).1.get (bk ++ j) = m.get (bk ++ j) := by
  intro j hj
  rcases prefix_call_cases hbk m c1 with ⟨e, _, hc⟩ | ⟨c2, hk, _, hc⟩
  · rw [hc]
  · rw [hc]
    obtain ⟨hfm, hpaths⟩ := keyCall_paths hk
    have heff : Effect bk m (osCall m c2).1 c2 := by
      apply osCall_effect_links hw hbk hk
      · intro x hx hm
        obtain ⟨n, hn, hp⟩ := hpaths x hm
        rw [prefix_key_nameKey H hne hbk hx hp (hvis n hn)]
        exact hroute n hn
      · intro hf x hx hm tg mt
        obtain ⟨n, hn, hp⟩ := hpaths x hm
        rw [prefix_key_nameKey H hne hbk hx hp (hvis n hn)]
        exact hfinal (hfm ▸ hf) n hn tg mt
    have V : ∀ {n : Path} {x : Key}, PKey x → n ∈ c1.accessPaths →
        PrefixFS.prefixPath (kp bk) n = .ok (kp (bk ++ x)) → ¬ HidK hks x :=
      fun hx hn hp => prefix_key_visible H hne hbk hx hp (hvis _ hn)
    have inj : ∀ {x x' : Key}, PKey x → PKey x' → kp (bk ++ x) = kp (bk ++ x') → x = x' :=
      fun hx hx' e => List.append_cancel_left (kp_inj (hbk.append hx) (hbk.append hx') e)
    cases hk with
    | removeAll n x hx hp => exact absurd rfl (hnra n)
    | rename o n x y hx hy hpo hpn =>
      simp only [Effect] at heff
      obtain ⟨x', y', hx', hy', e1, e2, hm⟩ := heff
      have := inj hx hx' e1; subst this
      have := inj hy hy' e2; subst this
      rcases hm with hm | hm
      · rw [hm]
      · have hvx := V hx (by simp [Call.accessPaths]) hpo
        have hvy := V hy (by simp [Call.accessPaths]) hpn
        have hpx := prefix_key_notparent H hne hbk hx hpo (hvis o (by simp [Call.accessPaths])) (hanc o n rfl).1
        have hpy := prefix_key_notparent H hne hbk hy hpn (hvis n (by simp [Call.accessPaths])) (hanc o n rfl).2
        exact hid_of_moved hvx hpx hvy hpy hj hm
    | mkdirAll n p x hx hp =>
      simp only [Effect] at heff
      obtain ⟨x', hx', e1, hm⟩ := heff
      have := inj hx hx' e1; subst this
      exact hid_of_mkAll (V hx (by simp [Call.accessPaths]) hp) hj hm
    | create n x hx hp | mkdir n p x hx hp | open_ n x hx hp | openFile n f p x hx hp | remove n x hx hp
    | stat n x hx hp | chmod n md x hx hp | chown n u g x hx hp | chtimes n a t x hx hp | lstat n x hx hp
    | symlink o n o' x hx hp | readlink n x hx hp | lchown n u g x hx hp =>
      simp only [Effect, Call.primaryPath, Call.accessPaths, List.headD] at heff
      obtain ⟨x', hx', e1, hm⟩ := heff
      have := inj hx hx' e1; subst this
      exact hid_of_at (V hx (by simp [Call.accessPaths]) hp) hj hm

/-! ### the three calls of the walk, on key paths -/

/-- the translated call of a single-name method on a key path -/
theorem prefix_keyCall_kp (hbk : PKey bk) {y : Key} (hy : PKey y) {c c2 : Call} (hk : KeyCall bk c c2)
    (hc : c.accessPaths = [kp y]) : c2.accessPaths = [kp (bk ++ y)] := by
  have key : ∀ {n : Path} {x : Key}, PKey x → n = kp y →
      PrefixFS.prefixPath (kp bk) n = .ok (kp (bk ++ x)) → x = y := by
    intro n x hx hn hp
    subst hn
    exact prefixPath_key_eq hbk hx hy (clean_kp hy) hp
  cases hk with
  | rename o n x y' hx hy' hpo hpn => simp [Call.accessPaths] at hc
  | create n x hx hp | mkdir n p x hx hp | mkdirAll n p x hx hp | open_ n x hx hp | openFile n f p x hx hp
  | remove n x hx hp | removeAll n x hx hp
  | stat n x hx hp | chmod n md x hx hp | chown n u g x hx hp | chtimes n a t x hx hp | lstat n x hx hp
  | symlink o n o' x hx hp | readlink n x hx hp | lchown n u g x hx hp =>
    simp only [Call.accessPaths, List.cons.injEq, and_true] at hc
    rw [key hx hc hp]
    rfl

theorem prefix_remove_links {m : MFS} (hw : WFL m) (hbk : PKey bk) {y : Key} (hy : PKey y)
    (hnl : NoLinkProper m (bk ++ y)) :
    WFL ((prefixFS (kp bk) osfs).call m (.remove (kp y))).1 ∧
    LinkSub m ((prefixFS (kp bk) osfs).call m (.remove (kp y))).1 := by
  rcases prefix_call_cases hbk m (.remove (kp y)) with ⟨e, _, hc⟩ | ⟨c2, hk, _, hc⟩
  · rw [hc]; exact ⟨hw, LinkSub.refl _⟩
  · rw [hc]
    have hp2 := prefix_keyCall_kp hbk hy hk rfl
    cases hk with
    | remove n x hx hp =>
      simp only [Call.accessPaths, List.cons.injEq, and_true] at hp2
      show WFL (m.remove (kp (bk ++ x))).1 ∧ LinkSub m (m.remove (kp (bk ++ x))).1
      rw [hp2]
      exact remove_wfl hw (namei_cases_nf hw.good (hbk.append hy) hnl (TextOf.kp _))

/-- `Lstat` through the layer reporting a directory: the key is a live directory -/
theorem prefix_lstat_dir {m : MFS} (hw : WFL m) (hbk : PKey bk) {y : Key} (hy : PKey y)
    (hnl : NoLinkProper m (bk ++ y)) {fi : Info}
    (hr : ((prefixFS (kp bk) osfs).call m (.lstat (kp y))).2 = .ok (.info fi)) (hd : fi.isDir = true) :
    ∃ mt, m.get (bk ++ y) = some (.dir mt) := by
  rcases prefix_call_cases hbk m (.lstat (kp y)) with ⟨e, _, hc⟩ | ⟨c2, hk, _, hc⟩
  · rw [hc] at hr; cases hr
  · rw [hc] at hr
    have hp2 := prefix_keyCall_kp hbk hy hk rfl
    cases hk with
    | lstat n x hx hp =>
      simp only [Call.accessPaths, List.cons.injEq, and_true] at hp2
      rw [hp2] at hr
      simp only [osCall, MFS.lstat] at hr
      rcases namei_cases_nf hw.good (hbk.append hy) hnl (TextOf.kp (bk ++ y)) with
        ⟨n0, hn, hres⟩ | ⟨_, mt, _, _, hres⟩ | ⟨e, _, _, _, hres, _⟩
      · rw [hres] at hr
        simp only [Except.map, prefixPost] at hr
        cases n0 with
        | dir mt => exact ⟨mt, hn⟩
        | file c mt =>
          exfalso
          cases hr
          simp [infoOf, Info.isDir] at hd
        | link t mt =>
          exfalso
          cases hr
          simp [infoOf, Info.isDir] at hd
      · rw [hres] at hr; cases hr
      · rw [hres] at hr; cases hr

/-- the listing of a handle through the layer: plain names -/
theorem prefix_open_names {m : MFS} (hw : WFL m) {h : Handle} {names : List Name}
    (hn : (prefixFS (kp bk) osfs).hreaddirnames m h = .ok names) : ∀ n ∈ sortStrings names, Plain n := by
  rw [prefixFS_hreaddirnames] at hn
  change MFS.hreaddirnames m h = .ok names at hn
  unfold MFS.hreaddirnames at hn
  intro n hmem
  unfold sortStrings at hmem
  have hmem' := (sortBy_perm strLt _).mem_iff.mp hmem
  split at hn
  · cases hn
    exact L.childNames_plain hw.good h.key n ((sortBy_perm strLt _).mem_iff.mp hmem')
  · cases hn
  · cases hn

end

/-! ### the instance of the walk invariant -/

section
variable (bk : Key) (hks : List Key) (m0 : MFS)

/-- well-formed, hidden subtrees as on the initial disk `m0` -/
def InvL (s : MFS) : Prop := WFL s ∧ ∀ j, HidK hks j → s.get (bk ++ j) = m0.get (bk ++ j)

/-- a key path no proper ancestor of whose disk key is a symlink -/
def AdmA (s : MFS) (p : Path) : Prop := ∃ y, PKey y ∧ p = kp y ∧ NoLinkProper s (bk ++ y)

/-- a key path whose disk key is neither a symlink nor below one -/
def AdmB (s : MFS) (p : Path) : Prop := ∃ y, PKey y ∧ p = kp y ∧ NoLinkUpto s (bk ++ y)

variable {bk hks m0} {hs : List Path}

theorem stepInvR_links (H : HidKeys hs hks) (hne : hks ≠ []) (hbk : PKey bk) :
    StepInvR hs (prefixFS (kp bk) osfs) (InvL bk hks m0) (AdmA bk) (AdmB bk) := by
  refine ⟨fun s p => prefix_lstat_state s p, fun s p => prefix_open_state s p, ?_, ?_, ?_, ?_⟩
  · rintro s p ⟨y, hy, rfl, hn⟩
    exact ⟨y, hy, rfl, noLinkProper_of_upto hn⟩
  · rintro s p ⟨hw, hI⟩ ⟨y, hy, rfl, hnl⟩ hv
    obtain ⟨w', l'⟩ := prefix_remove_links hw hbk hy hnl
    refine ⟨⟨w', ?_⟩, ?_, ?_⟩
    · intro j hj
      rw [visible_call_untouched_links H hne hw hbk (.remove (kp y))
        (by intro n hn; simp only [Call.accessPaths, List.mem_singleton] at hn; subst hn; exact hv)
        (fun _ _ e => by cases e) (fun _ e => by cases e)
        (by intro n hn; simp only [Call.accessPaths, List.mem_singleton] at hn; subst hn
            rw [nameKey_kp hy]; exact hnl)
        (fun hf => by cases hf) j hj]
      exact hI j hj
    · rintro q ⟨z, hz, rfl, hq⟩
      exact ⟨z, hz, rfl, noLinkProper_of_linkSub l' hq⟩
    · rintro q ⟨z, hz, rfl, hq⟩
      exact ⟨z, hz, rfl, noLinkUpto_of_linkSub l' hq⟩
  · rintro s p fi ⟨hw, _⟩ ⟨y, hy, rfl, hnl⟩ hr hd
    obtain ⟨mt, hdir⟩ := prefix_lstat_dir hw hbk hy hnl hr hd
    refine ⟨y, hy, rfl, noLinkUpto_iff.mpr ⟨hnl, ?_⟩⟩
    intro tg mt' e
    rw [hdir] at e
    cases e
  · rintro s p h names ⟨hw, _⟩ ⟨y, hy, rfl, hnu⟩ _ hn n hmem
    have hpl := prefix_open_names hw hn n hmem
    refine ⟨y ++ [n], hy.snoc hpl, join_kp hy hpl, ?_⟩
    rw [← List.append_assoc]
    exact noLinkProper_snoc hnu n

/-- the whole `HiddenFS.RemoveAll` on a key path whose proper ancestors hold no symlink -/
theorem hiddenRemoveAll_untouched_links (H : HidKeys hs hks) (hne : hks ≠ []) (hbk : PKey bk) {m : MFS}
    (hw : WFL m) {y : Key} (hy : PKey y) (hnl : NoLinkProper m (bk ++ y)) (fuel : Nat) :
    WFL (hiddenRemoveAll hs (prefixFS (kp bk) osfs) fuel m (kp y)).1 ∧
    ∀ j, HidK hks j →
      (hiddenRemoveAll hs (prefixFS (kp bk) osfs) fuel m (kp y)).1.get (bk ++ j) = m.get (bk ++ j) :=
  hiddenRemoveAll_invR (stepInvR_links (m0 := m) H hne hbk) fuel m (kp y) ⟨hw, fun _ _ => rfl⟩
    ⟨y, hy, rfl, hnl⟩

end
end HLL
end BFS
