import Lemmas.LSimOSLaws6
/-!
  Lemmas/LSimOSLaws7.lean — `MkdirAll` (follows symlinks: hypothesis `AccF`, inherited by every prefix
  of the key and kept by the intermediate states, which add directories only).
-/
namespace BFS
namespace L
open MFS

section
variable {bk kk : Key}

theorem noLinkUpto_prefix {m : MFS} {K K' : Key} (h : NoLinkUpto m K) (hp : K' <+: K) : NoLinkUpto m K' :=
  fun p hpp => h p (List.IsPrefix.trans hpp hp)

theorem noLinkUpto_dropLast {m : MFS} {s : Side} {k : Key} (hne : k ≠ [])
    (h : NoLinkUpto m (osRoot bk kk s ++ k)) : NoLinkUpto m (osRoot bk kk s ++ k.dropLast) := by
  apply noLinkUpto_prefix h
  rw [← append_dropLast hne]
  exact dropLast_prefix _

theorem stat_text {m : MFS} (s : Side) {k : Key} {t : Path} (hr : Roots bk kk) (hg : OSGoodL bk kk m)
    (hk : PKey k) (hnl : NoLinkUpto m (osRoot bk kk s ++ k)) (ht : TextOf t (osRoot bk kk s ++ k)) :
    (∃ n, m.get (osRoot bk kk s ++ k) = some n ∧ m.stat t = .ok (infoOf (base t) n)) ∨
    (m.get (osRoot bk kk s ++ k) = none ∧ ∃ e, m.stat t = .error e) := by
  unfold MFS.stat
  rcases namei_below_text s hr hg hk hnl ht true with ⟨n, hn, _, hres⟩ | ⟨_, mt, hn, _, hres⟩ | ⟨e, _, hn, _, hres, _⟩
  · rw [hres]; exact Or.inl ⟨n, hn, rfl⟩
  · rw [hres]; exact Or.inr ⟨hn, _, rfl⟩
  · rw [hres]; exact Or.inr ⟨hn, _, rfl⟩

theorem lstat_text {m : MFS} (s : Side) {k : Key} {t : Path} (hr : Roots bk kk) (hg : OSGoodL bk kk m)
    (hk : PKey k) (hnl : NoLinkUpto m (osRoot bk kk s ++ k)) (ht : TextOf t (osRoot bk kk s ++ k)) :
    (∃ n, m.get (osRoot bk kk s ++ k) = some n ∧ m.lstat t = .ok (infoOf (base t) n)) ∨
    (m.get (osRoot bk kk s ++ k) = none ∧ ∃ e, m.lstat t = .error e) := by
  unfold MFS.lstat
  rcases namei_below_text s hr hg hk hnl ht false with ⟨n, hn, _, hres⟩ | ⟨_, mt, hn, _, hres⟩ | ⟨e, _, hn, _, hres, _⟩
  · rw [hres]; exact Or.inl ⟨n, hn, rfl⟩
  · rw [hres]; exact Or.inr ⟨hn, _, rfl⟩
  · rw [hres]; exact Or.inr ⟨hn, _, rfl⟩

theorem mkdirAllTail_spec {m1 m' : MFS} (s : Side) {k : Key} {t : Path} {perm : Nat} {r : Except Err Unit}
    (hr : Roots bk kk) (hg : OSGoodL bk kk m1) (hk : PKey k) (hnl : NoLinkUpto m1 (osRoot bk kk s ++ k))
    (ht : TextOf t (osRoot bk kk s ++ k))
    (h : mkdirAllTail m1 perm t = (m', r)) :
    OSGoodL bk kk m' ∧ EqOff m1 m' (osRoot bk kk s ++ k) ∧ LinkSub m1 m' ∧
      (r = .ok () → ∃ mt, m'.get (osRoot bk kk s ++ k) = some (.dir mt)) ∧
      (m' = m1 ∨ (m1.get (osRoot bk kk s ++ k) = none ∧ ∃ mt, m'.get (osRoot bk kk s ++ k) = some (.dir mt))) := by
  unfold mkdirAllTail at h
  cases hmk : mkdir m1 t perm with
  | mk m2 r2 =>
    obtain ⟨g1, g2, gl, g3, g4⟩ := mkdir_spec s hr hg hk (noLinkProper_of_upto hnl) ht hmk
    rw [hmk] at h
    cases r2 with
    | ok u =>
      simp only at h
      cases h
      obtain ⟨a, b⟩ := g3 rfl
      exact ⟨g1, g2, gl, fun _ => b, Or.inr ⟨a, b⟩⟩
    | error e =>
      simp only at h
      have hm2 : m2 = m1 := g4 e rfl
      subst hm2
      rcases lstat_text s hr hg hk hnl ht with ⟨n, hn, hl⟩ | ⟨hn, e', hl⟩
      · rw [hl] at h
        simp only [infoOf_isDir] at h
        split at h
        · rename_i hd
          cases h
          obtain ⟨mt, rfl⟩ := isDir_true hd
          exact ⟨hg, EqOff.refl _ _, LinkSub.refl _, fun _ => ⟨mt, hn⟩, Or.inl rfl⟩
        · cases h
          exact ⟨hg, EqOff.refl _ _, LinkSub.refl _, (fun e => by cases e), Or.inl rfl⟩
      · rw [hl] at h
        cases h
        exact ⟨hg, EqOff.refl _ _, LinkSub.refl _, (fun e => by cases e), Or.inl rfl⟩

theorem mkdirAll_spec (s : Side) (perm : Nat) (hr : Roots bk kk) :
    ∀ (fuel : Nat) (k : Key) (t : Path) (m m' : MFS) (r : Except Err Unit),
      OSGoodL bk kk m → PKey k → NoLinkUpto m (osRoot bk kk s ++ k) → TextOf t (osRoot bk kk s ++ k) →
      k.length < fuel →
      m.mkdirAll perm fuel t = (m', r) →
      OSGoodL bk kk m' ∧ Ext bk kk s k m m' ∧ LinkSub m m' ∧
        (r = .ok () → ∃ mt, m'.get (osRoot bk kk s ++ k) = some (.dir mt)) := by
  intro fuel
  induction fuel with
  | zero => intro k t m m' r _ _ _ _ hf; exact absurd hf (Nat.not_lt_zero _)
  | succ fuel ih =>
    intro k t m m' r hg hk hnl ht hf h
    rcases stat_text s hr hg hk hnl ht with ⟨n, hn, hst⟩ | ⟨hn, e0, hst⟩
    · rw [mkdirAll_succ_ok m perm fuel t hst, infoOf_isDir] at h
      split at h
      · rename_i hd
        cases h
        obtain ⟨mt, rfl⟩ := isDir_true hd
        exact ⟨hg, Ext.refl s k m, LinkSub.refl _, fun _ => ⟨mt, hn⟩⟩
      · cases h
        exact ⟨hg, Ext.refl s k m, LinkSub.refl _, fun e => by cases e⟩
    · have hne : k ≠ [] := key_ne_of_none hg hn
      have hKne : osRoot bk kk s ++ k ≠ [] := by simp [hne]
      have hpt := text_parent ((hr.pkey s).append hk) hKne ht
      have hpl := parentText_length (osRoot bk kk s ++ k)
      have htp : TextOf (parentText (osRoot bk kk s ++ k)) (osRoot bk kk s ++ k.dropLast) := by
        rw [← append_dropLast hne]; exact parentText_text
      rw [mkdirAll_succ_err m perm fuel t hst, hpt] at h
      simp only [hpl, if_true] at h
      cases hrec : m.mkdirAll perm fuel (parentText (osRoot bk kk s ++ k)) with
      | mk m1 r1 =>
        have hlen : k.dropLast.length < fuel := by
          have h1 : k.dropLast.length = k.length - 1 := List.length_dropLast
          have h2 : 0 < k.length := List.length_pos_iff.mpr hne
          omega
        obtain ⟨i1, i2, il, i3⟩ := ih k.dropLast _ m m1 r1 hg hk.dropLast (noLinkUpto_dropLast hne hnl) htp hlen hrec
        rw [hrec] at h
        cases r1 with
        | error e =>
          simp only at h
          cases h
          exact ⟨i1, i2.mono (dropLast_prefix k), il, fun e => by cases e⟩
        | ok u =>
          simp only at h
          obtain ⟨t1, t2, tl, t3, t4⟩ := mkdirAllTail_spec s hr i1 hk (noLinkUpto_of_linkSub il hnl) ht h
          exact ⟨t1, Ext.step hne i2 t2 t4, il.trans tl, t3⟩

theorem os_mkdirAll_frame {m m' : MFS} {s : Side} {k : Key} {perm : Nat} {r : Except Err Ret} (hr : Roots bk kk)
    (hg : OSGoodL bk kk m) (hk : PKey k) (hacc : AccF (osViewL bk kk s m) k)
    (h : ((osCfg bk kk).side s).call m (.mkdirAll (kp k) perm) = (m', r)) :
    OSGoodL bk kk m' ∧ osViewL bk kk s.other m' = osViewL bk kk s.other m ∧
      (∀ j, ¬ j <+: k → osViewL bk kk s m' j = osViewL bk kk s m j) ∧
      (∀ j, osViewL bk kk s m' j = osViewL bk kk s m j ∨
        (osViewL bk kk s m j = none ∧ (osViewL bk kk s m').isDirAt j)) ∧
      (r = .ok .unit → (osViewL bk kk s m').isDirAt k) := by
  rw [side_mkdirAll s hr hk] at h
  obtain ⟨h1, h2⟩ := Prod.mk.inj h
  have hlen : k.length < (kp (osRoot bk kk s ++ k)).length + 2 := by
    have := kp_length ((hr.pkey s).append hk)
    simp only [List.length_append] at this
    omega
  obtain ⟨g1, g2, _, g3⟩ := mkdirAll_spec s perm hr _ k _ m m' _ hg hk (noLinkUpto_of_view hg hacc) (TextOf.kp _) hlen
    (Prod.ext h1 rfl)
  refine ⟨g1, ?_, ?_, ?_, ?_⟩
  · funext x
    rcases g2 (osRoot bk kk s.other ++ x) with e | ⟨j, _, e, _, _⟩
    · exact map_eraseV_of_eraseMt _ e
    · exact absurd e.symm (hr.apart s j x)
  · intro j hj
    rcases g2 (osRoot bk kk s ++ j) with e | ⟨j', hj', e, _, _⟩
    · exact map_eraseV_of_eraseMt _ e
    · rw [List.append_cancel_left e] at hj
      exact absurd hj' hj
  · intro j
    rcases g2 (osRoot bk kk s ++ j) with e | ⟨_, _, _, e, mt, hd⟩
    · exact Or.inl (map_eraseV_of_eraseMt _ e)
    · refine Or.inr ⟨?_, osViewL_isDirAt_of hd⟩
      rw [osViewL_eq, e]
      rfl
  · intro hr'
    rw [hr'] at h2
    obtain ⟨mt, hd⟩ := g3 (map_unit_ok h2)
    exact osViewL_isDirAt_of hd

theorem mkdir_new {m : MFS} {s : Side} {k : Key} {perm : Nat} {pmt : Meta} (hr : Roots bk kk)
    (hg : OSGoodL bk kk m) (hk : PKey k) (hne : k ≠ []) (h0 : m.get (osRoot bk kk s ++ k) = none)
    (hpd : m.get (osRoot bk kk s ++ k.dropLast) = some (.dir pmt)) :
    ∃ nmt, m.mkdir (kp (osRoot bk kk s ++ k)) perm =
      ((m.set (osRoot bk kk s ++ k) (some (.dir nmt))).touchDir (osRoot bk kk s ++ k.dropLast), .ok ()) := by
  have hKne : osRoot bk kk s ++ k ≠ [] := by simp [hne]
  have hmiss := namei_new hr hg hk hne h0 hpd false hKne
  unfold MFS.mkdir
  rw [hmiss]
  simp only [dropLast_append_getLast' hKne]
  rw [append_dropLast hne]
  exact ⟨_, rfl⟩

theorem os_mkdirAll_ok {m : MFS} {s : Side} {k : Key} {perm : Nat} (hr : Roots bk kk) (hg : OSGoodL bk kk m)
    (hk : PKey k) (hp : k = [] ∨ (osViewL bk kk s m).parentDir k)
    (hv : osViewL bk kk s m k = none ∨ (osViewL bk kk s m).isDirAt k) :
    ∃ m', ((osCfg bk kk).side s).call m (.mkdirAll (kp k) perm) = (m', .ok .unit) ∧
      (∀ j, j ≠ k → osViewL bk kk s m' j = osViewL bk kk s m j) ∧
      ((osViewL bk kk s m).isDirAt k → osViewL bk kk s m' k = osViewL bk kk s m k) := by
  rw [side_mkdirAll s hr hk]
  have hdircase : (osViewL bk kk s m).isDirAt k →
      ∃ m', ((m.mkdirAll perm ((kp (osRoot bk kk s ++ k)).length + 2) (kp (osRoot bk kk s ++ k))).1,
        (m.mkdirAll perm ((kp (osRoot bk kk s ++ k)).length + 2) (kp (osRoot bk kk s ++ k))).2.map (fun _ => Ret.unit)) = (m', .ok .unit) ∧
      (∀ j, j ≠ k → osViewL bk kk s m' j = osViewL bk kk s m j) ∧
      ((osViewL bk kk s m).isDirAt k → osViewL bk kk s m' k = osViewL bk kk s m k) := by
    intro hd
    obtain ⟨mt, h0⟩ := osViewL_isDirAt hd
    have hacc : AccF (osViewL bk kk s m) k := by
      refine ⟨noLinkAnc_of_present hg ?_, ?_⟩
      · obtain ⟨mt', hv'⟩ := hd
        rw [hv']; exact fun e => by cases e
      · intro hl
        obtain ⟨raw, mt', hl⟩ := osViewL_isLinkAt hl
        rw [h0] at hl; cases hl
    rcases stat_text s hr hg hk (noLinkUpto_of_view hg hacc) (TextOf.kp _) with ⟨n, hn, hst⟩ | ⟨hn, _⟩
    · rw [h0] at hn
      cases hn
      rw [mkdirAll_succ_ok m perm _ _ hst]
      exact ⟨m, rfl, fun _ _ => rfl, fun _ => rfl⟩
    · rw [h0] at hn; cases hn
  rcases hv with hv | hv
  · have h0 := osViewL_none hv
    have hne : k ≠ [] := key_ne_of_none hg h0
    rcases hp with hp | ⟨_, hp⟩
    · exact absurd hp hne
    have hacc : AccF (osViewL bk kk s m) k := by
      refine ⟨noLinkAnc_of_parentDir hg hp, ?_⟩
      intro hl
      obtain ⟨raw, mt', hl⟩ := osViewL_isLinkAt hl
      rw [h0] at hl; cases hl
    have hnl := noLinkUpto_of_view hg hacc
    obtain ⟨pmt, hpd⟩ := osViewL_isDirAt hp
    have hKne : osRoot bk kk s ++ k ≠ [] := by simp [hne]
    rcases stat_text s hr hg hk hnl (TextOf.kp _) with ⟨n, hn, _⟩ | ⟨_, e0, hst⟩
    · rw [h0] at hn; cases hn
    have hpt := text_parent ((hr.pkey s).append hk) hKne (TextOf.kp _)
    have hpl := parentText_length (osRoot bk kk s ++ k)
    have htp : TextOf (parentText (osRoot bk kk s ++ k)) (osRoot bk kk s ++ k.dropLast) := by
      rw [← append_dropLast hne]; exact parentText_text
    rw [mkdirAll_succ_err m perm _ _ hst, hpt]
    simp only [hpl, if_true]
    rcases stat_text s hr hg hk.dropLast (noLinkUpto_dropLast hne hnl) htp with ⟨n, hn, hstp⟩ | ⟨hn, _⟩
    · rw [hpd] at hn
      cases hn
      rw [mkdirAll_succ_ok m perm _ _ hstp]
      simp only [infoOf_isDir, Node.isDir, if_true]
      obtain ⟨nmt, hmk⟩ := mkdir_new (perm := perm) hr hg hk hne h0 hpd
      unfold mkdirAllTail
      rw [hmk]
      refine ⟨_, rfl, ?_, ?_⟩
      · exact (frame_of hr ((EqOff.set _ _ _).touch _)
          ((LinkSub.set_nonlink _ _ (by intro t mt' e; cases e)).touch _)).2.1
      · intro hd
        obtain ⟨mt, hd⟩ := osViewL_isDirAt hd
        rw [h0] at hd; cases hd
    · rw [hpd] at hn; cases hn
  · exact hdircase hv

end
end L
end BFS
