import Lemmas.S4Seal
/-!
  Lemmas/S4SealOps.lean — every covered operation, and every covered history, keeps `RS`
  (Lemmas/S4Seal.lean): nothing at or below `loc/loc` ever changes.  Any tracked map, any fault plan.
-/
namespace BFS.S4
open BackupFS N D HiddenFS

section
variable {bk hk dd : Key}

/-! ### single-name mutators -/

theorem sat_single_rs (h : NRoots bk hk dd) {name : Path} {k : Key} (hk' : PKey k) (hname : clean name = kp k)
    {c : Path → Call} {w0 w : World} (h0 : RS bk hk dd w0 w)
    (hgood : ∀ m, NGood bk hk dd m → NGood bk hk dd (((nestedCfg bk hk).side .base).call m (c (kp k))).1) :
    Sat (prepare (nestedCfg bk hk) name >>= fun r => primUnit (nestedCfg bk hk) .base (c r)) w
      (fun w' _ => RS bk hk dd w0 w') := by
  apply Sat.bind
  apply (sat_prepare_rs h hk' hname h0).mono
  intro w1 r ⟨h1, hres⟩
  cases r with
  | error e => exact h1
  | ok p =>
    have := hres p rfl
    subst this
    exact sat_base_unit_rs h h1 (hgood _ h1.good)

theorem sat_remove_rs (h : NRoots bk hk dd) {name : Path} {k : Key} (hk' : PKey k) (hne : k ≠ [])
    (hname : clean name = kp k) {w0 w : World} (h0 : RS bk hk dd w0 w) :
    Sat (BackupFS.remove (nestedCfg bk hk) name) w (fun w' _ => RS bk hk dd w0 w') := by
  unfold BackupFS.remove
  exact sat_single_rs h hk' hname (c := fun r => .remove r) h0
    (fun m hg => (n_remove_frame (s := .base) h hg hk' hne rfl).1)

/-! ### handles of the base side -/

/-- a handle through which a write cannot harm: read-only, or referring to a visible key -/
def SafeH (bk hk : Key) (wh : WHandle) : Prop :=
  wh.side = .base ∧ (MFS.accessMode wh.h.flag = 0 ∨ ∃ k, NH bk hk .base wh.h k)

theorem sat_hWrite_rs (h : NRoots bk hk dd) {wh : WHandle} (hsafe : SafeH bk hk wh) (off : Nat) (d : String)
    {w0 w : World} (h0 : RS bk hk dd w0 w) :
    Sat (hWrite (nestedCfg bk hk) wh off d) w (fun w' _ => RS bk hk dd w0 w') := by
  obtain ⟨hside, hcase⟩ := hsafe
  rcases hcase with hro | ⟨k, hH⟩
  · exact (N.sat_hWrite_ro (nSim bk hk dd h) (wh := wh) (off := off) (d := d) (w := w) hro).mono
      (fun _ _ hs => h0.same_right hs)
  · unfold hWrite
    apply Sat.bind
    apply Sat.primH
    · intro _ w1 h1
      exact h0.same_right h1
    · intro w1 h1
      have h01 := h0.same_right h1
      show RS bk hk dd w0 (({ w1 with fs := (((nestedCfg bk hk).side wh.side).hwrite w1.fs wh.h off d).1 } : World))
      rw [hside]
      have hg' := (n_hwrite_frame (s := .base) (o := off) (d := d) h h01.good hH
        (m' := (((nestedCfg bk hk).side .base).hwrite w1.fs wh.h off d).1)
        (r := (((nestedCfg bk hk).side .base).hwrite w1.fs wh.h off d).2) rfl).1
      refine ⟨hg', fun y hy => ?_⟩
      show (((nestedCfg bk hk).side .base).hwrite w1.fs wh.h off d).1.get (bk ++ hk ++ y) = _
      rw [List.append_assoc, base_handle_write_spares_loc hH .base w1.fs off d (hk ++ y) (List.prefix_append _ _),
        ← List.append_assoc]
      exact h01.nest y hy

theorem sat_writeClose_rs (h : NRoots bk hk dd) {wh : WHandle} (hsafe : SafeH bk hk wh) (d : String)
    {w0 w : World} (h0 : RS bk hk dd w0 w) :
    Sat (writeClose (nestedCfg bk hk) wh d) w (fun w' _ => RS bk hk dd w0 w') := by
  unfold writeClose
  apply Sat.seq (P := RS bk hk dd w0) _ (fun _ x => x)
  · intro r w1 h1
    cases r with
    | error e =>
      simp only
      apply Sat.seq (P := RS bk hk dd w0)
        (Sat.attempt_any ((N.sat_hClose (wh := wh) (w := w1)).mono (fun _ _ hs => h1.same_right hs.1))) (fun _ x => x)
      intro _ w2 h2
      exact Sat.pure h2
    | ok u =>
      simp only
      apply Sat.seq (P := RS bk hk dd w0)
        (Sat.attempt_any ((N.sat_hClose (wh := wh) (w := w1)).mono (fun _ _ hs => h1.same_right hs.1))) (fun _ x => x)
      intro r2 w2 h2
      cases r2 <;> exact Sat.pure h2
  · apply Sat.attempt_any
    exact Sat.whenM_any (sat_hWrite_rs h hsafe 0 d h0) h0

/-- opening through the base side with a call that keeps the disk well-formed and hands out safe
handles -/
theorem sat_base_open_rs (h : NRoots bk hk dd) {c : Call} {w0 w : World} (h0 : RS bk hk dd w0 w)
    (hgood : NGood bk hk dd (((nestedCfg bk hk).side .base).call w.fs c).1)
    (hh : ∀ m' hd, ((nestedCfg bk hk).side .base).call w.fs c = (m', .ok (.handle hd)) →
      MFS.accessMode hd.flag = 0 ∨ ∃ k, NH bk hk .base hd k) :
    Sat (primOpen (nestedCfg bk hk) .base c) w (fun w' r => RS bk hk dd w0 w' ∧
      ∀ wh, r = .ok wh → SafeH bk hk wh) := by
  unfold primOpen
  apply Sat.bind
  apply (sat_base_call_rs h h0 hgood).mono
  intro w1 r ⟨h1, heq⟩
  cases r with
  | error e => exact ⟨h1, by intro wh e'; cases e'⟩
  | ok ret =>
    cases ret with
    | handle hd =>
      apply Sat.pure
      refine ⟨h1, ?_⟩
      intro wh e
      cases e
      exact ⟨rfl, hh _ hd (heq _ rfl)⟩
    | unit => exact ⟨h1, by intro wh e'; cases e'⟩
    | info i => exact ⟨h1, by intro wh e'; cases e'⟩
    | str s => exact ⟨h1, by intro wh e'; cases e'⟩

theorem sat_open_then_write_rs (h : NRoots bk hk dd) {x : M WHandle} {d : String} {w0 w : World}
    (hx : Sat x w (fun w' r => RS bk hk dd w0 w' ∧ ∀ wh, r = .ok wh → SafeH bk hk wh)) :
    Sat (do
      let hd ← x
      let o ← writeClose (nestedCfg bk hk) hd d
      pure (OpOut.written hd o) : M OpOut) w (fun w' _ => RS bk hk dd w0 w') := by
  apply Sat.bind
  apply hx.mono
  intro w1 r ⟨h1, hsafe⟩
  cases r with
  | error e => exact h1
  | ok wh =>
    simp only
    apply Sat.seq (P := RS bk hk dd w0) (sat_writeClose_rs h (hsafe wh rfl) d h1) (fun _ x => x)
    intro _ w2 h2
    exact Sat.pure h2

/-! ### Create / OpenFile -/

theorem sat_creat_rs (h : NRoots bk hk dd) {name : Path} {k : Key} (hk' : PKey k) (hname : clean name = kp k)
    (d : String) {w0 w : World} (h0 : RS bk hk dd w0 w) :
    Sat (Op.exec (nestedCfg bk hk) (.creat name d)) w (fun w' _ => RS bk hk dd w0 w') := by
  unfold Op.exec
  apply sat_open_then_write_rs h
  unfold BackupFS.create
  apply Sat.bind
  apply (sat_prepare_rs h hk' hname h0).mono
  intro w1 r ⟨h1, hres⟩
  cases r with
  | error e => exact ⟨h1, by intro wh e'; cases e'⟩
  | ok p =>
    have := hres p rfl
    subst this
    simp only
    apply sat_base_open_rs (c := .create (kp k)) h h1
      (n_create_frame (s := .base) h h1.good hk'
        (m' := (((nestedCfg bk hk).side .base).call w1.fs (.create (kp k))).1)
        (r := (((nestedCfg bk hk).side .base).call w1.fs (.create (kp k))).2) rfl).1
    intro m' hd he
    exact Or.inr ⟨k, ((n_create_frame (s := .base) h h1.good hk' he).2.2.2 hd rfl).1⟩

theorem sat_write_rs (h : NRoots bk hk dd) {name : Path} {k : Key} (hk' : PKey k) (hname : clean name = kp k)
    (flag perm : Nat) (d : String) {w0 w : World} (h0 : RS bk hk dd w0 w) :
    Sat (Op.exec (nestedCfg bk hk) (.write name flag perm d)) w (fun w' _ => RS bk hk dd w0 w') := by
  unfold Op.exec
  apply sat_open_then_write_rs h
  unfold BackupFS.openFile
  split
  · have hp : NGood bk hk dd (((nestedCfg bk hk).side .base).call w.fs (.openFile name O_RDONLY 0)).1 := by
      rw [n_pure_openRO (s := .base) h (m' := (((nestedCfg bk hk).side .base).call w.fs (.openFile name O_RDONLY 0)).1)
        (r := (((nestedCfg bk hk).side .base).call w.fs (.openFile name O_RDONLY 0)).2) rfl]
      exact h0.good
    apply sat_base_open_rs h h0 hp
    intro m' hd he
    left
    rw [n_openFile_flag (s := .base) h he]
    rfl
  · apply Sat.bind
    apply (sat_prepare_rs h hk' hname h0).mono
    intro w1 r ⟨h1, hres⟩
    cases r with
    | error e => exact ⟨h1, by intro wh e'; cases e'⟩
    | ok p =>
      have := hres p rfl
      subst this
      simp only
      apply sat_base_open_rs (c := .openFile (kp k) flag perm) h h1
        (n_openFile_frame (s := .base) h h1.good hk'
          (m' := (((nestedCfg bk hk).side .base).call w1.fs (.openFile (kp k) flag perm)).1)
          (r := (((nestedCfg bk hk).side .base).call w1.fs (.openFile (kp k) flag perm)).2) rfl).1
      intro m' hd he
      exact Or.inr ⟨k, (n_openFile_frame (s := .base) h h1.good hk' he).2.2.2 hd rfl⟩

/-! ### Rename -/

theorem sat_rename_rs (h : NRoots bk hk dd) {o n : Path} {ko kn : Key} (hko : PKey ko) (hkn : PKey kn)
    (ho : clean o = kp ko) (hn : clean n = kp kn) {w0 w : World} (h0 : RS bk hk dd w0 w) :
    Sat (BackupFS.rename (nestedCfg bk hk) o n) w (fun w' _ => RS bk hk dd w0 w') := by
  unfold BackupFS.rename
  apply Sat.bind
  apply (N.sat_realPath (S := nSim bk hk dd h) h0.good hko ho).mono
  intro w1 r1 ⟨hs1, hres1⟩
  have h1 := h0.same_right hs1
  cases r1 with
  | error e => exact h1
  | ok ro =>
    have := hres1 ro rfl; subst this
    simp only
    apply Sat.bind
    apply (N.sat_realPath (S := nSim bk hk dd h) h1.good hkn hn).mono
    intro w2 r2 ⟨hs2, hres2⟩
    have h2 := h1.same_right hs2
    cases r2 with
    | error e => exact h2
    | ok rn =>
      have := hres2 rn rfl; subst this
      simp only
      apply Sat.seq (P := RS bk hk dd w0) (sat_tryBackup_rs h hkn h2) (fun _ x => x)
      intro _ w3 h3
      apply Sat.seq (P := RS bk hk dd w0) (sat_tryBackup_rs h hko h3) (fun _ x => x)
      intro _ w4 h4
      exact sat_base_unit_rs h h4 (n_rename_frame (s := .base) h h4.good hko hkn rfl).1

/-! ### RemoveAll: the walk -/

structure WalkRS (bk hk dd : Key) (w0 w : World) (dirs : List Path) : Prop where
  rs : RS bk hk dd w0 w
  dirs : ∀ p ∈ dirs, ∃ j, PKey j ∧ j ≠ [] ∧ p = kp j

theorem WalkRS.same {w0 w w' : World} {dirs : List Path} (hw : WalkRS bk hk dd w0 w dirs) (hs : SameFS w w') :
    WalkRS bk hk dd w0 w' dirs := ⟨hw.rs.same_right hs, hw.dirs⟩

theorem removeAllFn_rs (h : NRoots bk hk dd) {w0 w : World} {dirs : List Path} {j : Key} {info : Option Info}
    {err : Option Err} (hw : WalkRS bk hk dd w0 w dirs) (hj : PKey j) (hne : j ≠ []) :
    WalkRS bk hk dd w0 (removeAllFn (nestedCfg bk hk) w dirs (kp j) info err).1.1
      (removeAllFn (nestedCfg bk hk) w dirs (kp j) info err).1.2 := by
  unfold removeAllFn
  cases err with
  | some e => exact hw
  | none =>
    cases info with
    | none => exact hw
    | some i =>
      simp only
      split
      · refine ⟨hw.rs, ?_⟩
        intro p hp
        rcases List.mem_append.mp hp with hp | hp
        · exact hw.dirs p hp
        · simp only [List.mem_singleton] at hp
          exact ⟨j, hj, hne, hp⟩
      · have hrem := (sat_remove_rs h hj hne (clean_kp hj) hw.rs).elim
        cases hr : BackupFS.remove (nestedCfg bk hk) (kp j) w with
        | mk w' r =>
          rw [hr] at hrem
          cases r <;> exact ⟨hrem, hw.dirs⟩

def WalkRecRS (bk hk dd : Key) (w0 : World) (fuel : Nat) : Prop :=
  ∀ (w : World) (a : List Path) (j : Key) (info : Info), WalkRS bk hk dd w0 w a → PKey j → j ≠ [] →
    WalkRS bk hk dd w0
      (walkRec (worldWalkOps (nestedCfg bk hk) .base) (removeAllFn (nestedCfg bk hk)) fuel w a (kp j) info).1.1
      (walkRec (worldWalkOps (nestedCfg bk hk) .base) (removeAllFn (nestedCfg bk hk)) fuel w a (kp j) info).1.2

def WalkNamesRS (bk hk dd : Key) (w0 : World) (fuel : Nat) : Prop :=
  ∀ (names : List Name) (w : World) (a : List Path) (j : Key), (∀ n ∈ names, Plain n) →
    WalkRS bk hk dd w0 w a → PKey j → j ≠ [] →
    WalkRS bk hk dd w0
      (walkNames (worldWalkOps (nestedCfg bk hk) .base) (removeAllFn (nestedCfg bk hk)) fuel w a (kp j) names).1.1
      (walkNames (worldWalkOps (nestedCfg bk hk) .base) (removeAllFn (nestedCfg bk hk)) fuel w a (kp j) names).1.2

theorem walkNamesRS_of_rec (h : NRoots bk hk dd) {w0 : World} {fuel : Nat} (hrec : WalkRecRS bk hk dd w0 fuel) :
    WalkNamesRS bk hk dd w0 fuel := by
  intro names
  induction names with
  | nil =>
    intro w a j _ hw _ _
    rw [walkNames]
    exact hw
  | cons n rest ih =>
    intro w a j hpl hw hj hne
    have hn : Plain n := hpl n (by simp)
    have hrest : ∀ m ∈ rest, Plain m := fun m hm => hpl m (List.mem_cons_of_mem _ hm)
    have hj' : PKey (j ++ [n]) := hj.snoc hn
    have hne' : j ++ [n] ≠ [] := by simp
    rw [walkNames]
    simp only [join_kp hj hn]
    have hsame := N.walk_lstat_same (cfg := nestedCfg bk hk) (nSim bk hk dd h) (p := kp (j ++ [n])) (w := w)
    cases hl : (worldWalkOps (nestedCfg bk hk) .base).lstat w (kp (j ++ [n])) with
    | mk w1 r1 =>
      rw [hl] at hsame
      have h1 : WalkRS bk hk dd w0 w1 a := hw.same hsame
      cases r1 with
      | error e =>
        simp only
        have hfn := removeAllFn_rs h (info := none) (err := some e) h1 hj' hne'
        cases hf : removeAllFn (nestedCfg bk hk) w1 a (kp (j ++ [n])) none (some e) with
        | mk sa oe =>
          rw [hf] at hfn
          obtain ⟨s2, a2⟩ := sa
          cases oe with
          | some e' => exact hfn
          | none => exact ih s2 a2 j hrest hfn hj hne
      | ok fi =>
        simp only
        have hr := hrec w1 a (j ++ [n]) fi h1 hj' hne'
        cases hwk : walkRec (worldWalkOps (nestedCfg bk hk) .base) (removeAllFn (nestedCfg bk hk)) fuel w1 a (kp (j ++ [n])) fi with
        | mk sa oe =>
          rw [hwk] at hr
          obtain ⟨s2, a2⟩ := sa
          cases oe with
          | some e' => exact hr
          | none => exact ih s2 a2 j hrest hr hj hne

theorem walk_rs (h : NRoots bk hk dd) (w0 : World) : ∀ fuel, WalkRecRS bk hk dd w0 fuel ∧ WalkNamesRS bk hk dd w0 fuel
  | 0 => by
    have hrec : WalkRecRS bk hk dd w0 0 := by
      intro w a j info hw _ _
      rw [walkRec]
      exact hw
    exact ⟨hrec, walkNamesRS_of_rec h hrec⟩
  | fuel + 1 => by
    have ih := (walk_rs h w0 fuel).2
    have hrec : WalkRecRS bk hk dd w0 (fuel + 1) := by
      intro w a j info hw hj hne
      rw [walkRec]
      have hfn := removeAllFn_rs h (info := some info) (err := none) hw hj hne
      cases hf : removeAllFn (nestedCfg bk hk) w a (kp j) (some info) none with
      | mk sa oe =>
        rw [hf] at hfn
        obtain ⟨s1, a1⟩ := sa
        cases oe with
        | some e => exact hfn
        | none =>
          simp only
          split
          · exact hfn
          · have hrd := N.walk_readDir (cfg := nestedCfg bk hk) (S := nSim bk hk dd h) (j := j) (w := s1) hfn.rs.good hj
            cases hr : (worldWalkOps (nestedCfg bk hk) .base).readDirNames s1 (kp j) with
            | mk s2 r2 =>
              rw [hr] at hrd
              have h2 : WalkRS bk hk dd w0 s2 a1 := hfn.same hrd.1
              cases r2 with
              | error e => exact removeAllFn_rs h h2 hj hne
              | ok names => exact ih names s2 a1 j (hrd.2 names rfl) h2 hj hne
    exact ⟨hrec, walkNamesRS_of_rec h hrec⟩

theorem walkTree_rs (h : NRoots bk hk dd) {w0 w : World} {k : Key} (hw : WalkRS bk hk dd w0 w []) (hk' : PKey k) (hne : k ≠ []) :
    WalkRS bk hk dd w0
      (walkTree (worldWalkOps (nestedCfg bk hk) .base) (removeAllFn (nestedCfg bk hk)) 64 w [] (kp k)).1.1
      (walkTree (worldWalkOps (nestedCfg bk hk) .base) (removeAllFn (nestedCfg bk hk)) 64 w [] (kp k)).1.2 := by
  unfold walkTree
  have hsame := N.walk_lstat_same (cfg := nestedCfg bk hk) (nSim bk hk dd h) (p := kp k) (w := w)
  cases hl : (worldWalkOps (nestedCfg bk hk) .base).lstat w (kp k) with
  | mk w3 r3 =>
    rw [hl] at hsame
    have h3 : WalkRS bk hk dd w0 w3 [] := hw.same hsame
    cases r3 with
    | error e => exact removeAllFn_rs h h3 hk' hne
    | ok info => exact (walk_rs h w0 64).1 w3 [] k info h3 hk' hne

theorem sat_removeEach_rs (h : NRoots bk hk dd) {w0 : World} : ∀ (ds : List Path) (w : World), RS bk hk dd w0 w →
    (∀ p ∈ ds, ∃ j, PKey j ∧ j ≠ [] ∧ p = kp j) →
    Sat (removeEach (nestedCfg bk hk) ds) w (fun w' _ => RS bk hk dd w0 w')
  | [], w, h0, _ => by
    unfold removeEach
    exact Sat.pure h0
  | d :: ds, w, h0, hd => by
    unfold removeEach
    obtain ⟨j, hj, hne, rfl⟩ := hd d (by simp)
    apply Sat.seq (P := RS bk hk dd w0) (sat_remove_rs h hj hne (clean_kp hj) h0) (fun _ x => x)
    intro _ w1 h1
    exact sat_removeEach_rs h ds w1 h1 (fun p hp => hd p (List.mem_cons_of_mem _ hp))

theorem sat_removeAll_rs (h : NRoots bk hk dd) {name : Path} {k : Key} (hk' : PKey k) (hne : k ≠ [])
    (hname : clean name = kp k) {w0 w : World} (h0 : RS bk hk dd w0 w) :
    Sat (BackupFS.removeAll (nestedCfg bk hk) name) w (fun w' _ => RS bk hk dd w0 w') := by
  unfold BackupFS.removeAll
  apply Sat.bind
  apply (N.sat_realPath (S := nSim bk hk dd h) h0.good hk' hname).mono
  intro w1 r1 ⟨hs1, hres1⟩
  have h1 := h0.same_right hs1
  cases r1 with
  | error e => exact h1
  | ok r =>
    have := hres1 r rfl; subst this
    simp only
    apply Sat.bind
    apply Sat.attempt
    apply (N.sat_lstat (S := nSim bk hk dd h) (s := .base) h1.good hk').mono
    intro w2 r2 ⟨hs2, _⟩
    have h2 := h1.same_right hs2
    simp only
    cases r2 with
    | error e =>
      simp only
      split
      · exact Sat.pure h2
      · exact Sat.throw h2
    | ok fi =>
      simp only
      split
      · exact sat_remove_rs h hk' hne (clean_kp hk') h2
      · apply Sat.bind
        have hwalk : WalkRS bk hk dd w0 w2 [] := ⟨h2, by intro p hp; cases hp⟩
        have hw : Sat (fun w => match walkTree (worldWalkOps (nestedCfg bk hk) .base) (removeAllFn (nestedCfg bk hk)) 64 w [] (kp k) with
            | ((w', dirs), none) => (w', Except.ok dirs)
            | ((w', _), some e) => (w', Except.error e) : M (List Path)) w2
            (fun w' r => RS bk hk dd w0 w' ∧ ∀ dirs, r = .ok dirs → ∀ p ∈ dirs, ∃ j, PKey j ∧ j ≠ [] ∧ p = kp j) := by
          have hwt := walkTree_rs h hwalk hk' hne
          unfold Sat
          show RS bk hk dd w0 (match walkTree (worldWalkOps (nestedCfg bk hk) .base) (removeAllFn (nestedCfg bk hk)) 64 w2 [] (kp k) with
              | ((w', dirs), none) => (w', Except.ok dirs)
              | ((w', _), some e) => (w', Except.error e)).1 ∧
            ∀ dirs, (match walkTree (worldWalkOps (nestedCfg bk hk) .base) (removeAllFn (nestedCfg bk hk)) 64 w2 [] (kp k) with
              | ((w', dirs), none) => (w', Except.ok dirs)
              | ((w', _), some e) => (w', Except.error e)).2 = .ok dirs → ∀ p ∈ dirs, ∃ j, PKey j ∧ j ≠ [] ∧ p = kp j
          cases hx : walkTree (worldWalkOps (nestedCfg bk hk) .base) (removeAllFn (nestedCfg bk hk)) 64 w2 [] (kp k) with
          | mk sa oe =>
            rw [hx] at hwt
            obtain ⟨s2, a2⟩ := sa
            cases oe with
            | some e' => exact ⟨hwt.rs, by intro d hd; cases hd⟩
            | none => exact ⟨hwt.rs, by intro d hd; cases hd; exact hwt.dirs⟩
        apply hw.mono
        intro w3 r3 ⟨h3, hdirs⟩
        cases r3 with
        | error e => exact h3
        | ok dirs =>
          simp only
          apply sat_removeEach_rs h (sortMost dirs) w3 h3
          intro p hp
          exact hdirs dirs rfl p ((sortBy_perm _ dirs).mem_iff.mp hp)

/-! ### every covered operation, every covered history -/

/-- absolute names; `Remove`/`RemoveAll` not of the root; no `Symlink`, no `ForceBackup` (the class
`N.Op.Covered` without its clause about `Rename` of non-empty directories, which is not needed here) -/
def AbsOp : Op → Prop
  | .creat p _ | .write p _ _ _ | .mkdir p _ | .mkdirAll p _ | .chmod p _ | .chown p _ _
  | .lchown p _ _ | .chtimes p _ => isAbs p = true
  | .remove p | .removeAll p => isAbs p = true ∧ clean p ≠ rootP
  | .rename o n => isAbs o = true ∧ isAbs n = true
  | .stat _ | .lstat _ | .readlink _ => True
  | .symlink _ _ | .force _ => False

theorem AbsOp.of_covered {cfg : Cfg} {S : N.Sim cfg} {w : World} {op : Op} (hc : N.Op.Covered S w op) : AbsOp op := by
  cases op <;> first | exact hc | exact ⟨hc.1, hc.2.1⟩

theorem sat_unit_rs {x : M Unit} {w0 w : World} (hx : Sat x w (fun w' _ => RS bk hk dd w0 w')) :
    Sat (do x; pure OpOut.unit : M OpOut) w (fun w' _ => RS bk hk dd w0 w') := by
  apply Sat.seq (P := RS bk hk dd w0) hx (fun _ x => x)
  intro _ w1 h1
  exact Sat.pure h1

theorem op_rs (h : NRoots bk hk dd) {op : Op} (hc : AbsOp op) {w0 w : World} (h0 : RS bk hk dd w0 w) :
    Sat (Op.exec (nestedCfg bk hk) op) w (fun w' _ => RS bk hk dd w0 w') := by
  cases op with
  | creat p d =>
    obtain ⟨k, hk', hname⟩ := clean_abs hc
    exact sat_creat_rs h hk' hname d h0
  | write p f pm d =>
    obtain ⟨k, hk', hname⟩ := clean_abs hc
    exact sat_write_rs h hk' hname f pm d h0
  | mkdir p m =>
    obtain ⟨k, hk', hname⟩ := clean_abs hc
    unfold Op.exec BackupFS.mkdir
    exact sat_unit_rs (sat_single_rs h hk' hname (c := fun r => .mkdir r m) h0
      (fun m' hg => (n_mkdir_frame (s := .base) h hg hk' rfl).1))
  | mkdirAll p m =>
    obtain ⟨k, hk', hname⟩ := clean_abs hc
    unfold Op.exec BackupFS.mkdirAll
    exact sat_unit_rs (sat_single_rs h hk' hname (c := fun r => .mkdirAll r m) h0
      (fun m' hg => (n_mkdirAll_frame (s := .base) h hg hk' rfl).1))
  | remove p =>
    obtain ⟨k, hk', hname⟩ := clean_abs hc.1
    have hne : k ≠ [] := by intro e; subst e; exact hc.2 hname
    unfold Op.exec
    exact sat_unit_rs (sat_remove_rs h hk' hne hname h0)
  | removeAll p =>
    obtain ⟨k, hk', hname⟩ := clean_abs hc.1
    have hne : k ≠ [] := by intro e; subst e; exact hc.2 hname
    unfold Op.exec
    exact sat_unit_rs (sat_removeAll_rs h hk' hne hname h0)
  | rename o n =>
    obtain ⟨ko, hko, ho⟩ := clean_abs hc.1
    obtain ⟨kn, hkn, hn⟩ := clean_abs hc.2
    unfold Op.exec
    exact sat_unit_rs (sat_rename_rs h hko hkn ho hn h0)
  | symlink o n => exact absurd hc id
  | chmod p m =>
    obtain ⟨k, hk', hname⟩ := clean_abs hc
    unfold Op.exec BackupFS.chmod
    exact sat_unit_rs (sat_single_rs h hk' hname (c := fun r => .chmod r m) h0
      (fun m' hg => (n_chmod_frame (s := .base) h hg hk' rfl).1))
  | chown p u g =>
    obtain ⟨k, hk', hname⟩ := clean_abs hc
    unfold Op.exec BackupFS.chown
    exact sat_unit_rs (sat_single_rs h hk' hname (c := fun r => .chown r u g) h0
      (fun m' hg => (n_chown_frame (s := .base) h hg hk' rfl).1))
  | lchown p u g =>
    obtain ⟨k, hk', hname⟩ := clean_abs hc
    unfold Op.exec BackupFS.lchown
    exact sat_unit_rs (sat_single_rs h hk' hname (c := fun r => .lchown r u g) h0
      (fun m' hg => (n_lchown_frame (s := .base) h hg hk' rfl).1))
  | chtimes p t =>
    obtain ⟨k, hk', hname⟩ := clean_abs hc
    unfold Op.exec BackupFS.chtimes
    exact sat_unit_rs (sat_single_rs h hk' hname (c := fun r => .chtimes r t t) h0
      (fun m' hg => (n_chtimes_frame (s := .base) h hg hk' rfl).1))
  | stat p =>
    unfold Op.exec BackupFS.stat primInfo
    apply Sat.bind
    apply Sat.bind
    apply (sat_pure_rs (s := .base) (c := .stat p) h0 (fun _ _ he => n_pure_stat h he)).mono
    intro w1 r ⟨h1, _⟩
    cases r with
    | error e => exact h1
    | ok ret => cases ret <;> first | exact Sat.pure (Sat.pure h1) | exact Sat.throw h1
  | lstat p =>
    unfold Op.exec BackupFS.lstat primInfo
    apply Sat.bind
    apply Sat.bind
    apply (sat_pure_rs (s := .base) (c := .lstat p) h0 (fun _ _ he => n_pure_lstat h he)).mono
    intro w1 r ⟨h1, _⟩
    cases r with
    | error e => exact h1
    | ok ret => cases ret <;> first | exact Sat.pure (Sat.pure h1) | exact Sat.throw h1
  | readlink p =>
    unfold Op.exec BackupFS.readlink primStr
    apply Sat.bind
    apply Sat.bind
    apply (sat_pure_rs (s := .base) (c := .readlink p) h0 (fun _ _ he => n_pure_readlink h he)).mono
    intro w1 r ⟨h1, _⟩
    cases r with
    | error e => exact h1
    | ok ret => cases ret <;> first | exact Sat.pure (Sat.pure h1) | exact Sat.throw h1
  | force p => exact absurd hc id

/-- histories of operations with absolute names -/
def AbsHist : List Op → Prop
  | [] => True
  | op :: rest => AbsOp op ∧ AbsHist rest

theorem history_rs (h : NRoots bk hk dd) : ∀ (ops : List Op) (w0 w : World), RS bk hk dd w0 w → AbsHist ops →
    RS bk hk dd w0 (runOps (nestedCfg bk hk) w ops)
  | [], _, _, h0, _ => h0
  | op :: rest, w0, w, h0, hc => by
    show RS bk hk dd w0 (runOps (nestedCfg bk hk) (op.step (nestedCfg bk hk) w) rest)
    exact history_rs h rest w0 _ (op_rs h hc.1 h0).elim hc.2

theorem AbsHist.of_covered {cfg : Cfg} {S : N.Sim cfg} : ∀ (ops : List Op) (w : World),
    N.CoveredHist cfg S w ops → AbsHist ops
  | [], _, _ => trivial
  | _ :: rest, _, hc => ⟨AbsOp.of_covered hc.1, AbsHist.of_covered rest _ hc.2⟩

end
end BFS.S4
