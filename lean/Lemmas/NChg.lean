import Lemmas.NSim
import Lemmas.Sat
import Lemmas.KP
/-!
  Lemmas/NChg.lean (copy of Lemmas/Chg.lean over `N.Sim`) — world-level step relations derived from a `Sim`, and what each primitive
  call of the BackupFS code satisfies (for every fault plan: a refused call changes nothing).
-/
namespace BFS.N

variable {cfg : Cfg} (S : Sim cfg)

/-- a step on side `s` that changes that side's view at most at the keys in `K`; the other
side's view, the tracked map and the fault plan are untouched -/
structure Sim.Chg (s : Side) (K : Key → Prop) (w w' : World) : Prop where
  good : S.G w'.fs
  other : S.view s.other w'.fs = S.view s.other w.fs
  frame : ∀ j, ¬ K j → S.view s w'.fs j = S.view s w.fs j
  infos : w'.infos = w.infos
  faults : w'.faults = w.faults

variable {S}

theorem Sim.Chg.of_same {s : Side} {K : Key → Prop} {w w' : World} (hg : S.G w.fs) (h : SameFS w w') :
    S.Chg s K w w' :=
  ⟨h.fs ▸ hg, by rw [h.fs], fun _ _ => by rw [h.fs], h.infos, h.faults⟩

theorem Sim.Chg.refl {s : Side} {K : Key → Prop} {w : World} (hg : S.G w.fs) : S.Chg s K w w :=
  Sim.Chg.of_same hg (SameFS.refl w)

theorem Sim.Chg.trans {s : Side} {K : Key → Prop} {a b c : World} (h1 : S.Chg s K a b) (h2 : S.Chg s K b c) :
    S.Chg s K a c :=
  ⟨h2.good, h2.other.trans h1.other, fun j hj => (h2.frame j hj).trans (h1.frame j hj),
    h2.infos.trans h1.infos, h2.faults.trans h1.faults⟩

theorem Sim.Chg.mono {s : Side} {K K' : Key → Prop} {w w' : World} (h : S.Chg s K w w')
    (hk : ∀ j, K j → K' j) : S.Chg s K' w w' :=
  ⟨h.good, h.other, fun j hj => h.frame j (fun hkj => hj (hk j hkj)), h.infos, h.faults⟩

theorem Sim.Chg.same_left {s : Side} {K : Key → Prop} {a b c : World} (h1 : SameFS a b) (h2 : S.Chg s K b c) :
    S.Chg s K a c :=
  ⟨h2.good, by rw [h2.other, h1.fs], fun j hj => by rw [h2.frame j hj, h1.fs],
    h2.infos.trans h1.infos, h2.faults.trans h1.faults⟩

theorem Sim.Chg.same_right {s : Side} {K : Key → Prop} {a b c : World} (h1 : S.Chg s K a b) (h2 : SameFS b c) :
    S.Chg s K a c :=
  ⟨h2.fs ▸ h1.good, by rw [h2.fs, h1.other], fun j hj => by rw [h2.fs, h1.frame j hj],
    h2.infos.trans h1.infos, h2.faults.trans h1.faults⟩

theorem Side.other_other (s : Side) : s.other.other = s := by cases s <;> rfl

/-- the generic frame rule: a primitive whose law bounds its effect satisfies `Chg` whatever the
fault plan does -/
theorem sat_primCall_chg {s : Side} {c : Call} {K : Key → Prop} {w : World} (hg : S.G w.fs)
    (hlaw : ∀ m' r, (cfg.side s).call w.fs c = (m', r) →
      S.G m' ∧ S.view s.other m' = S.view s.other w.fs ∧ ∀ j, ¬ K j → S.view s m' j = S.view s w.fs j) :
    Sat (primCall cfg s c) w (fun w' _ => S.Chg s K w w') := by
  apply Sat.primCall
  · intro _ w1 h1
    exact Sim.Chg.of_same hg h1
  · intro w1 h1
    obtain ⟨g, o, f⟩ := hlaw _ _ rfl
    exact ⟨g, o, f, h1.infos, h1.faults⟩

theorem sat_primUnit_chg {s : Side} {c : Call} {K : Key → Prop} {w : World} (hg : S.G w.fs)
    (hlaw : ∀ m' r, (cfg.side s).call w.fs c = (m', r) →
      S.G m' ∧ S.view s.other m' = S.view s.other w.fs ∧ ∀ j, ¬ K j → S.view s m' j = S.view s w.fs j) :
    Sat (primUnit cfg s c) w (fun w' _ => S.Chg s K w w') := by
  unfold primUnit
  apply Sat.bind
  apply (sat_primCall_chg hg hlaw).mono
  intro w1 r h
  cases r with
  | ok a => exact Sat.pure h
  | error e => exact h

/-- a read-only primitive leaves the disk alone -/
theorem sat_primCall_pure {s : Side} {c : Call} {w : World}
    (hpure : ∀ m' r, (cfg.side s).call w.fs c = (m', r) → m' = w.fs) :
    Sat (primCall cfg s c) w (fun w' r => SameFS w w' ∧
      (r = ((cfg.side s).call w.fs c).2 ∨ (w.faults ≠ [] ∧ r = .error .io))) := by
  apply Sat.primCall
  · intro hf w1 h1
    exact ⟨h1, Or.inr ⟨hf, rfl⟩⟩
  · intro w1 h1
    have := hpure _ _ rfl
    refine ⟨⟨?_, h1.infos, h1.faults⟩, Or.inl rfl⟩
    simp only [this]

/-! ### Lstat -/

/-- what `Lstat (kp k)` on side `s` tells, under any fault plan: the node, or "not found" when
there is none, or an injected fault -/
def LstatPost (S : Sim cfg) (s : Side) (k : Key) (w : World) (w' : World) (r : Except Err Info) : Prop :=
  SameFS w w' ∧
    ((∃ n i, S.view s w.fs k = some n ∧ r = .ok i ∧ InfoFor i n) ∨
     (S.view s w.fs k = none ∧ ∃ e, r = .error e ∧ e.isNotFound = true) ∨
     (r = .error .io ∧ w.faults ≠ []))

theorem sat_lstat {s : Side} {k : Key} {w : World} (hg : S.G w.fs) (hk : PKey k) :
    Sat (primInfo cfg s (.lstat (kp k))) w (LstatPost S s k w) := by
  unfold primInfo
  apply Sat.bind
  apply (sat_primCall_pure (fun m' r h => S.pure_lstat h)).mono
  intro w1 r ⟨hs, hr⟩
  cases hv : S.view s w.fs k with
  | none =>
    obtain ⟨e, he, hnf⟩ := S.lstat_none hg hk hv
    rw [he] at hr
    rcases hr with rfl | ⟨hf, rfl⟩
    · exact ⟨hs, Or.inr (Or.inl ⟨hv, e, rfl, hnf⟩)⟩
    · exact ⟨hs, Or.inr (Or.inr ⟨rfl, hf⟩)⟩
  | some n =>
    obtain ⟨i, hi, hfor⟩ := S.lstat_some hg hk hv
    rw [hi] at hr
    rcases hr with rfl | ⟨hf, rfl⟩
    · apply Sat.pure
      exact ⟨hs, Or.inl ⟨n, i, hv, rfl, hfor⟩⟩
    · exact ⟨hs, Or.inr (Or.inr ⟨rfl, hf⟩)⟩

/-- the root entry of Rollback's first loop, on a healthy pair of filesystems (the root of either
view is a directory): ONE read-only primitive (Lstat of the root on the base) that finds the
directory; the state is unchanged; no error is collected unless a fault was injected -/
theorem sat_ensureRoot {w : World} (hg : S.G w.fs) (i : Info) :
    Sat (BackupFS.ensureRoot cfg rootP i) w (fun w' r => SameFS w w' ∧ ∃ f, r = .ok f ∧ (w.faults = [] → f = false)) := by
  unfold BackupFS.ensureRoot BackupFS.lexists
  apply Sat.bind
  apply Sat.attempt
  apply Sat.bind
  apply Sat.attempt
  apply (sat_lstat (S := S) (s := .base) (k := []) hg (by intro n hn; cases hn)).mono
  intro w1 r ⟨hs, hr⟩
  obtain ⟨mt, hroot⟩ := S.root_dir (s := .base) hg
  rcases hr with ⟨n, j, hv, rfl, hfor⟩ | ⟨hv, e, rfl, hnfd⟩ | ⟨rfl, hf⟩
  · exact ⟨hs, false, rfl, fun _ => rfl⟩
  · rw [hroot] at hv; cases hv
  · exact ⟨hs, true, rfl, fun h => absurd h hf⟩


end BFS.N
