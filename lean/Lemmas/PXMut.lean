import Lemmas.PXDom
/-!
  Lemmas/PXMut.lean — two-disk laws of the mutating syscalls: when a name resolves to the same outcome
  on two disks that agree at and below `pk` (and have the same umask), at a key at or below `pk`, the
  syscall returns the same result on both and the two disks agree afterwards.
-/
namespace BFS
namespace PX
open MFS D

/-- the two disks hold the same node at every key at or below `pk`, and the same umask -/
structure Agree (pk : Key) (m1 m2 : MFS) : Prop where
  get : AgreeIn pk m1 m2
  umask : m1.umask = m2.umask

theorem Agree.refl (pk : Key) (m : MFS) : Agree pk m m := ⟨AgreeIn.refl _ _, rfl⟩

theorem touchDir_get (m : MFS) (P K : Key) :
    (m.touchDir P).get K =
      if K = P then (match m.get P with
        | some (.dir mt) => some (.dir { mt with mtime := .fresh })
        | o => o)
      else m.get K := by
  split
  · rename_i e
    subst e
    unfold touchDir
    cases hk : m.get K with
    | none => simp only [hk]
    | some n =>
      cases n with
      | dir mt => simp only [set_get_self]
      | file c mt => simp only [hk]
      | link t mt => simp only [hk]
  · rename_i e
    exact touchDir_get_ne m e

theorem touchDir_umask' (m : MFS) (k : Key) : (m.touchDir k).umask = m.umask := by
  rcases touchDir_cases m k with ⟨mt, _, e⟩ | e <;> rw [e] <;> rfl

section
variable {pk : Key} {m1 m2 : MFS}

theorem Agree.set (h : Agree pk m1 m2) (K : Key) (v : Option Node) : Agree pk (m1.set K v) (m2.set K v) := by
  refine ⟨?_, h.umask⟩
  intro K' hK'
  rw [set_get, set_get]
  split
  · rfl
  · exact h.get K' hK'

theorem Agree.touchDir (h : Agree pk m1 m2) (P : Key) : Agree pk (m1.touchDir P) (m2.touchDir P) := by
  refine ⟨?_, by rw [touchDir_umask', touchDir_umask']; exact h.umask⟩
  intro K hK
  rw [touchDir_get, touchDir_get]
  split
  · rename_i e
    subst e
    rw [h.get K hK]
  · exact h.get K hK

theorem Agree.removeSubtree (h : Agree pk m1 m2) (K : Key) :
    Agree pk (m1.removeSubtree K) (m2.removeSubtree K) := by
  refine ⟨?_, h.umask⟩
  intro K' hK'
  rw [removeSubtree_get, removeSubtree_get]
  split
  · rfl
  · exact h.get K' hK'

theorem Agree.moveSubtree (h : Agree pk m1 m2) {Ko : Key} (ho : pk <+: Ko) (Kn : Key) :
    Agree pk (m1.moveSubtree Ko Kn) (m2.moveSubtree Ko Kn) := by
  refine ⟨?_, h.umask⟩
  intro K' hK'
  rw [moveSubtree_get, moveSubtree_get]
  split
  · exact h.get _ (ho.trans (List.prefix_append _ _))
  · split
    · rfl
    · exact h.get K' hK'

theorem inheritGid_agree (h : Agree pk m1 m2) {P : Key} (hP : pk <+: P) : inheritGid m1 P = inheritGid m2 P := by
  unfold inheritGid
  rw [h.get P hP]

/-- same result, agreeing disks -/
def Same {α : Type} (pk : Key) (x y : MFS × Except Err α) : Prop := x.2 = y.2 ∧ Agree pk x.1 y.1

/-- the parent of an absent key at or below a live `pk` is at or below `pk` -/
theorem parent_inside {K : Key} (hK : pk <+: K) (hlive : (m1.get pk).isSome) (hn : m1.get K = none) :
    pk <+: K.dropLast := by
  apply prefix_dropLast hK
  intro e
  rw [e, hn] at hlive
  cases hlive

/-! ### per syscall -/

theorem mkdir_same (ha : Agree pk m1 m2) {K : Key} {t : Path} (perm : Nat) (hK : pk <+: K)
    (hlive : (m1.get pk).isSome) (hr : namei m1 t false = namei m2 t false)
    (hN : NC m1 K (namei m1 t false)) : Same pk (m1.mkdir t perm) (m2.mkdir t perm) := by
  unfold Same MFS.mkdir
  rw [← hr]
  rcases hN with ⟨n, hn, hres⟩ | ⟨hne, mt, hn, hp, hres⟩ | ⟨e, hres⟩
  · rw [hres]; exact ⟨rfl, ha⟩
  · rw [hres]
    simp only
    rw [← inheritGid_agree ha (parent_inside hK hlive hn), ← ha.umask]
    exact ⟨trivial, (ha.set _ _).touchDir _⟩
  · rw [hres]; exact ⟨rfl, ha⟩

theorem same_ret {α : Type} (ha : Agree pk m1 m2) (r : Except Err α) : Same pk (m1, r) (m2, r) := ⟨rfl, ha⟩

theorem same_ite {α : Type} {c : Prop} [Decidable c] {a1 b1 a2 b2 : MFS × Except Err α}
    (h1 : c → Same pk a1 a2) (h2 : ¬ c → Same pk b1 b2) :
    Same pk (if c then a1 else b1) (if c then a2 else b2) := by
  by_cases hc : c
  · simp only [hc, if_true]; exact h1 hc
  · simp only [hc, if_false]; exact h2 hc

theorem symlink_same (ha : Agree pk m1 m2) {K : Key} {t : Path} (o : Path) (hK : pk <+: K)
    (hlive : (m1.get pk).isSome) (hr : namei m1 t false = namei m2 t false)
    (hN : NC m1 K (namei m1 t false)) : Same pk (m1.symlink o t) (m2.symlink o t) := by
  unfold MFS.symlink
  apply same_ite
  · intro _; exact same_ret ha _
  intro _
  rw [← hr]
  rcases hN with ⟨n, hn, hres⟩ | ⟨hne, mt, hn, hp, hres⟩ | ⟨e, hres⟩
  · rw [hres]; exact same_ret ha _
  · rw [hres]
    simp only
    rw [← inheritGid_agree ha (parent_inside hK hlive hn)]
    exact ⟨rfl, (ha.set _ _).touchDir _⟩
  · rw [hres]; exact same_ret ha _

theorem openFile_same (ha : Agree pk m1 m2) {K : Key} {t : Path} (flag perm : Nat) (hK : pk <+: K)
    (hlive : (m1.get pk).isSome)
    (hr : namei m1 t (!(hasFlag flag O_CREATE && hasFlag flag O_EXCL))
      = namei m2 t (!(hasFlag flag O_CREATE && hasFlag flag O_EXCL)))
    (hN : NC m1 K (namei m1 t (!(hasFlag flag O_CREATE && hasFlag flag O_EXCL)))) :
    Same pk (m1.openFile t flag perm) (m2.openFile t flag perm) := by
  unfold MFS.openFile
  simp only
  rw [← hr]
  rcases hN with ⟨n, hn, hres⟩ | ⟨hne, mt, hn, hp, hres⟩ | ⟨e, hres⟩
  · rw [hres]
    simp only
    apply same_ite
    · intro _; exact same_ret ha _
    intro _
    cases n with
    | dir mt =>
      simp only
      apply same_ite <;> (intro _; exact same_ret ha _)
    | link tg mt => exact same_ret ha _
    | file c mt =>
      simp only
      apply same_ite
      · intro _; exact ⟨rfl, ha.set _ _⟩
      · intro _; exact same_ret ha _
  · rw [hres]
    simp only
    apply same_ite
    · intro _; exact same_ret ha _
    intro _
    rw [← inheritGid_agree ha (parent_inside hK hlive hn), ← ha.umask]
    exact ⟨rfl, (ha.set _ _).touchDir _⟩
  · rw [hres]; exact same_ret ha _

theorem remove_same (ha : Agree pk m1 m2) (hs1 : DomSup m1) (hs2 : DomSup m2) {K : Key} {t : Path}
    (hK : pk <+: K) (hr : namei m1 t false = namei m2 t false)
    (hN : NC m1 K (namei m1 t false)) : Same pk (m1.remove t) (m2.remove t) := by
  unfold MFS.remove
  rw [← hr]
  rcases hN with ⟨n, hn, hres⟩ | ⟨hne, mt, hn, hp, hres⟩ | ⟨e, hres⟩
  · rw [hres]
    simp only
    apply same_ite
    · intro _; exact same_ret ha _
    intro _
    cases n with
    | dir mt =>
      simp only
      rw [← hasChildren_agree ha.get hs1 hs2 hK]
      apply same_ite
      · intro _; exact same_ret ha _
      · intro _; exact ⟨rfl, (ha.set _ _).touchDir _⟩
    | link tg mt => exact ⟨rfl, (ha.set _ _).touchDir _⟩
    | file c mt => exact ⟨rfl, (ha.set _ _).touchDir _⟩
  · rw [hres]; exact same_ret ha _
  · rw [hres]; exact same_ret ha _

theorem removeAll_same (ha : Agree pk m1 m2) {K : Key} {t : Path}
    (hr : namei m1 t false = namei m2 t false)
    (hN : NC m1 K (namei m1 t false)) : Same pk (m1.removeAll t) (m2.removeAll t) := by
  unfold MFS.removeAll
  apply same_ite
  · intro _; exact same_ret ha _
  intro _
  apply same_ite
  · intro _; exact same_ret ha _
  intro _
  rw [← hr]
  rcases hN with ⟨n, hn, hres⟩ | ⟨hne, mt, hn, hp, hres⟩ | ⟨e, hres⟩
  · rw [hres]
    simp only
    apply same_ite
    · intro _; exact same_ret ha _
    · intro _; exact ⟨rfl, (ha.removeSubtree _).touchDir _⟩
  · rw [hres]; exact same_ret ha _
  · rw [hres]
    cases e <;> exact same_ret ha _

theorem metaOp_same (ha : Agree pk m1 m2) {K : Key} {t : Path} {follow : Bool} (f : Node → Node)
    (hr : namei m1 t follow = namei m2 t follow)
    (hN : NC m1 K (namei m1 t follow)) : Same pk (metaOp m1 t follow f) (metaOp m2 t follow f) := by
  unfold metaOp
  rw [← hr]
  rcases hN with ⟨n, hn, hres⟩ | ⟨hne, mt, hn, hp, hres⟩ | ⟨e, hres⟩
  · rw [hres]; exact ⟨rfl, ha.set _ _⟩
  · rw [hres]; exact same_ret ha _
  · rw [hres]; exact same_ret ha _

theorem rename_same (ha : Agree pk m1 m2) {Ko Kn : Key} {to tn : Path} (hKo : pk <+: Ko)
    (hro : namei m1 to false = namei m2 to false) (hrn : namei m1 tn false = namei m2 tn false)
    (ho : NC m1 Ko (namei m1 to false)) (hn : NC m1 Kn (namei m1 tn false)) :
    Same pk (m1.rename to tn) (m2.rename to tn) := by
  unfold MFS.rename
  simp only
  rw [← hro, ← hrn]
  have mv : ∀ kn : Key, Same pk
      (((m1.moveSubtree Ko kn).touchDir (parentKey Ko)).touchDir (parentKey kn), (Except.ok () : Except Err Unit))
      (((m2.moveSubtree Ko kn).touchDir (parentKey Ko)).touchDir (parentKey kn), Except.ok ()) :=
    fun kn => ⟨rfl, ((ha.moveSubtree hKo kn).touchDir _).touchDir _⟩
  rcases hn with ⟨nn, hnn, hresn⟩ | ⟨hnne, mtn, hnn, hpn, hresn⟩ | ⟨en, hresn⟩
  · rcases ho with ⟨no, hno, hreso⟩ | ⟨hone, mto, hno, hpo, hreso⟩ | ⟨eo, hreso⟩
    · rw [hresn, hreso]
      cases nn with
      | dir mt =>
        simp only
        by_cases hc : Ko = Kn ∧ to ≠ tn
        · simp only [hc, and_self, if_true, ne_eq, not_false_eq_true]
          exact same_ret ha _
        · simp only [hc, if_false]
          exact same_ret ha _
      | file c mt =>
        simp only
        repeat (first | exact same_ret ha _ | exact mv _ | (apply same_ite <;> intro _))
      | link tg mt =>
        simp only
        repeat (first | exact same_ret ha _ | exact mv _ | (apply same_ite <;> intro _))
    · rw [hresn, hreso]
      cases nn <;> exact same_ret ha _
    · rw [hresn, hreso]
      cases nn <;> exact same_ret ha _
  · rcases ho with ⟨no, hno, hreso⟩ | ⟨hone, mto, hno, hpo, hreso⟩ | ⟨eo, hreso⟩
    · rw [hresn, hreso]
      simp only
      apply same_ite
      · intro _; exact same_ret ha _
      · intro _; exact mv _
    · rw [hresn, hreso]; exact same_ret ha _
    · rw [hresn, hreso]; exact same_ret ha _
  · rw [hresn]
    rcases ho with ⟨no, hno, hreso⟩ | ⟨hone, mto, hno, hpo, hreso⟩ | ⟨eo, hreso⟩ <;>
      (rw [hreso]; exact same_ret ha _)

end
end PX
end BFS
