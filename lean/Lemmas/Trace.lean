import Lemmas.Monad
/-! Compositional reasoning about what a computation appends to the trace. -/
namespace BFS

/-- `w'` extends `w`'s trace by events all satisfying `P` (the trace is newest first) -/
def Extends (P : Event → Prop) (w w' : World) : Prop :=
  ∃ new, w'.trace = new ++ w.trace ∧ ∀ e ∈ new, P e

theorem Extends.refl (P : Event → Prop) (w : World) : Extends P w w := ⟨[], by simp, by simp⟩

theorem Extends.trans {P : Event → Prop} {a b c : World} (h1 : Extends P a b) (h2 : Extends P b c) :
    Extends P a c := by
  obtain ⟨n1, e1, p1⟩ := h1
  obtain ⟨n2, e2, p2⟩ := h2
  refine ⟨n2 ++ n1, by rw [e2, e1]; simp, ?_⟩
  intro e he
  rcases List.mem_append.mp he with h | h
  · exact p2 e h
  · exact p1 e h

theorem Extends.mono {P Q : Event → Prop} (hpq : ∀ e, P e → Q e) {a b : World} (h : Extends P a b) :
    Extends Q a b := by
  obtain ⟨n, e, p⟩ := h
  exact ⟨n, e, fun x hx => hpq x (p x hx)⟩

/-- every event the computation logs satisfies `P`, on success and on failure -/
def Logs {α} (x : M α) (P : Event → Prop) : Prop := ∀ w, Extends P w (x w).1

theorem Logs.mono {α} {x : M α} {P Q : Event → Prop} (hpq : ∀ e, P e → Q e) (h : Logs x P) : Logs x Q :=
  fun w => (h w).mono hpq

theorem Logs.pure {α} (a : α) (P) : Logs (pure a : M α) P := fun w => Extends.refl P w

theorem Logs.throw {α} (e : Err) (P) : Logs (M.throw e : M α) P := fun w => Extends.refl P w

theorem Logs.getW (P) : Logs getW P := fun w => Extends.refl P w

theorem Logs.modifyW {f : World → World} (P) (hf : ∀ w, (f w).trace = w.trace) : Logs (modifyW f) P :=
  fun w => ⟨[], by simp [BFS.modifyW, hf w], by simp⟩

theorem Logs.bind {α β} {x : M α} {f : α → M β} {P} (hx : Logs x P) (hf : ∀ a, Logs (f a) P) :
    Logs (x >>= f) P := by
  intro w
  rw [M.bind_apply]
  have h1 := hx w
  cases hxw : x w with
  | mk w' r =>
    rw [hxw] at h1
    cases r with
    | ok a => exact h1.trans (hf a w')
    | error e => exact h1

theorem Logs.attempt {α} {x : M α} {P} (hx : Logs x P) : Logs (attempt x) P := by
  intro w
  rw [attempt_apply]
  exact hx w

theorem Logs.ite {α} {c : Prop} [Decidable c] {x y : M α} {P} (hx : Logs x P) (hy : Logs y P) :
    Logs (if c then x else y) P := by
  split
  · exact hx
  · exact hy

/-- `account` logs exactly one event carrying the given signature and flag -/
theorem account_extends (sig : Sig) (mutf : Bool) (w : World) (P : Event → Prop)
    (hP : ∀ f, P ⟨sig, f, mutf⟩) :
    Extends P w (account sig mutf w).1 := by
  unfold account
  refine ⟨[_], rfl, ?_⟩
  intro e he
  simp at he
  subst he
  exact hP _

theorem account_trace (sig : Sig) (mutf : Bool) (w : World) :
    ∃ e : Event, (account sig mutf w).1.trace = e :: w.trace ∧ e.sig = sig ∧ e.mutating = mutf := by
  unfold account
  exact ⟨_, rfl, rfl, rfl⟩

/-- the events `primCall` can log: one event for the call (none for an invisible Chtimes) -/
theorem primCall_logs (cfg : Cfg) (side : Side) (c : Call) (P : Event → Prop)
    (hP : ∀ f, P ⟨⟨side, callMethod c, callArgs c⟩, f, callMutating c⟩) :
    Logs (primCall cfg side c) P := by
  intro w
  unfold primCall
  by_cases hg : isGhost c = true
  · simp only [hg, if_true]
    split
    · exact ⟨[], by simp, by simp⟩
    · unfold execCall
      cases hcall : (cfg.side side).call w.fs c with
      | mk m' r => exact ⟨[], by simp, by simp⟩
  · simp only [hg]
    obtain ⟨ev, htr, hsig, hmut⟩ := account_trace ⟨side, callMethod c, callArgs c⟩ (callMutating c) w
    have hPev : P ev := by
      have := hP ev.failed
      rcases ev with ⟨s, fl, m⟩
      simp only at hsig hmut
      subst hsig; subst hmut
      exact this
    cases hacc : account ⟨side, callMethod c, callArgs c⟩ (callMutating c) w with
    | mk w1 faulted =>
      rw [hacc] at htr
      simp only at htr
      have h1 : Extends P w w1 := by
        refine ⟨[ev], by rw [htr]; rfl, ?_⟩
        intro x hx
        simp at hx
        subst hx
        exact hPev
      cases faulted with
      | true => exact h1
      | false =>
        simp only [Bool.false_eq_true, if_false]
        unfold execCall
        cases hcall : (cfg.side side).call w1.fs c with
        | mk m' r => exact h1

theorem primH_logs (wh : WHandle) (method : String) (extra : List Path) (mutf : Bool) (P : Event → Prop)
    (hP : ∀ f, P ⟨⟨wh.side, method, wh.arg :: extra⟩, f, mutf⟩) :
    Logs (primH wh method extra mutf) P := by
  intro w
  unfold primH
  simp only
  have := account_extends { side := wh.side, method := method, args := wh.arg :: extra } mutf w P hP
  cases hacc : account { side := wh.side, method := method, args := wh.arg :: extra } mutf w with
  | mk w1 faulted =>
    rw [hacc] at this
    simp only
    split <;> exact this

end BFS
