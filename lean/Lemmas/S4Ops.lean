import Lemmas.S4Hid
import Props.C06
/-!
  Lemmas/S4Ops.lean — every public operation of BackupFS on a name at or below the backup location,
  nested layering, any tracked map, any fault plan: what it returns and what it does to the disk.

  * single-name mutators (`Create`, `OpenFile` with a writing flag, `Mkdir`, `MkdirAll`, `Remove`,
    `Chmod`, `Chown`, `Lchown`, `Chtimes`, `Symlink` located there): `prepare` runs as described in
    `Lemmas/S4Hid.lean` (frame `HF`), then the base call is refused: the operation fails;
  * read-only operations (`Stat`, `Lstat`, `Readlink`, read-only `OpenFile`): one refused base call,
    nothing changes;
  * `RemoveAll`: the `Lstat` after name resolution is refused with `ErrHiddenNotExist`, which counts
    as "does not exist": returns nil, nothing changes;
  * `Rename` with a hidden name and `Symlink` with a hidden (lexical, effective) target: fail; the
    visible name is prepared as for any mutator (under the transaction invariant `N.Inv`).
-/
namespace BFS.S4
open BackupFS N D HiddenFS

section
variable {bk hk dd : Key}

/-! ### refused base calls -/

/-- outcome of a call the base side refuses with `e`: nothing changes; the error is `e`, or the
injected fault -/
def RO {α : Type} (e : Err) (w w' : World) (r : Except Err α) : Prop :=
  SameFS w w' ∧ (r = .error e ∨ (w.faults ≠ [] ∧ r = .error .io))

theorem sat_refused {c : Call} {e : Err} (hr : Refused bk hk .base c e) {w : World} :
    Sat (primCall (nestedCfg bk hk) .base c) w (RO e w) := by
  apply (N.sat_primCall_pure (cfg := nestedCfg bk hk) (s := .base) (c := c)
    (fun m' r he => by rw [hr] at he; cases he; rfl)).mono
  intro w' r ⟨hs, hr'⟩
  refine ⟨hs, ?_⟩
  rcases hr' with rfl | hf
  · left; rw [hr]
  · right; exact hf

theorem sat_refused_bind {α} {c : Call} {e : Err} (hr : Refused bk hk .base c e) (g : Ret → M α) {w : World} :
    Sat (primCall (nestedCfg bk hk) .base c >>= g) w (RO e w) := by
  apply Sat.bind
  apply (sat_refused hr).mono
  intro w' r ⟨hs, hr'⟩
  rcases hr' with rfl | ⟨hf, rfl⟩
  · exact ⟨hs, Or.inl rfl⟩
  · exact ⟨hs, Or.inr ⟨hf, rfl⟩⟩

theorem sat_refused_unit {c : Call} {e : Err} (hr : Refused bk hk .base c e) {w : World} :
    Sat (primUnit (nestedCfg bk hk) .base c) w (RO e w) := sat_refused_bind hr _
theorem sat_refused_open {c : Call} {e : Err} (hr : Refused bk hk .base c e) {w : World} :
    Sat (primOpen (nestedCfg bk hk) .base c) w (RO e w) := sat_refused_bind hr _
theorem sat_refused_info {c : Call} {e : Err} (hr : Refused bk hk .base c e) {w : World} :
    Sat (primInfo (nestedCfg bk hk) .base c) w (RO e w) := sat_refused_bind hr _
theorem sat_refused_str {c : Call} {e : Err} (hr : Refused bk hk .base c e) {w : World} :
    Sat (primStr (nestedCfg bk hk) .base c) w (RO e w) := sat_refused_bind hr _

/-- the hidden check on any spelling of a hidden name -/
theorem hguard_hid_raw (h : NRoots bk hk dd) {name : Path} {k : Key} (hk' : PKey k) (hname : clean name = kp k)
    (hh : hk <+: k) (e : Err) : hguard (nhs hk) name e = .error e := by
  apply hguard_of_hidden
  rw [← isHidden_clean, hname]
  exact isHidden_hid h hk' hh

/-- a refusal of the translator is a refusal of the base side -/
theorem refused_of_tr {c : Call} {e : Err} (hnr : ∀ n, c ≠ .removeAll n)
    (htr : HiddenFS.translate (nhs hk) c = .error e) : Refused bk hk .base c e := refused_base hnr htr

section
variable (h : NRoots bk hk dd) {name : Path} {k : Key} (hk' : PKey k) (hname : clean name = kp k) (hh : hk <+: k)
include h hk' hname hh

theorem ref_create : Refused bk hk .base (.create name) .hiddenPerm :=
  refused_of_tr (by intro n e; cases e) (by simp only [HiddenFS.translate, hguard_hid_raw h hk' hname hh, bind, Except.bind])
theorem ref_mkdir (p : Nat) : Refused bk hk .base (.mkdir name p) .hiddenPerm :=
  refused_of_tr (by intro n e; cases e) (by simp only [HiddenFS.translate, hguard_hid_raw h hk' hname hh, bind, Except.bind])
theorem ref_mkdirAll (p : Nat) : Refused bk hk .base (.mkdirAll name p) .hiddenPerm :=
  refused_of_tr (by intro n e; cases e) (by simp only [HiddenFS.translate, hguard_hid_raw h hk' hname hh, bind, Except.bind])
theorem ref_openFile (fl p : Nat) : Refused bk hk .base (.openFile name fl p)
    (if hasFlag fl O_CREATE then .hiddenPerm else .hiddenNotExist) :=
  refused_of_tr (by intro n e; cases e) (by simp only [HiddenFS.translate, hguard_hid_raw h hk' hname hh, bind, Except.bind])
theorem ref_remove : Refused bk hk .base (.remove name) .hiddenNotExist :=
  refused_of_tr (by intro n e; cases e) (by simp only [HiddenFS.translate, hguard_hid_raw h hk' hname hh, bind, Except.bind])
theorem ref_chmod (md : Nat) : Refused bk hk .base (.chmod name md) .hiddenNotExist :=
  refused_of_tr (by intro n e; cases e) (by simp only [HiddenFS.translate, hguard_hid_raw h hk' hname hh, bind, Except.bind])
theorem ref_chown (u g : Int) : Refused bk hk .base (.chown name u g) .hiddenNotExist :=
  refused_of_tr (by intro n e; cases e) (by simp only [HiddenFS.translate, hguard_hid_raw h hk' hname hh, bind, Except.bind])
theorem ref_lchown (u g : Int) : Refused bk hk .base (.lchown name u g) .hiddenNotExist :=
  refused_of_tr (by intro n e; cases e) (by simp only [HiddenFS.translate, hguard_hid_raw h hk' hname hh, bind, Except.bind])
theorem ref_chtimes (a t : Time) : Refused bk hk .base (.chtimes name a t) .hiddenNotExist :=
  refused_of_tr (by intro n e; cases e) (by simp only [HiddenFS.translate, hguard_hid_raw h hk' hname hh, bind, Except.bind])
theorem ref_stat : Refused bk hk .base (.stat name) .hiddenNotExist :=
  refused_of_tr (by intro n e; cases e) (by simp only [HiddenFS.translate, hguard_hid_raw h hk' hname hh, bind, Except.bind])
theorem ref_lstat : Refused bk hk .base (.lstat name) .hiddenNotExist :=
  refused_of_tr (by intro n e; cases e) (by simp only [HiddenFS.translate, hguard_hid_raw h hk' hname hh, bind, Except.bind])
theorem ref_readlink : Refused bk hk .base (.readlink name) .hiddenNotExist :=
  refused_of_tr (by intro n e; cases e) (by simp only [HiddenFS.translate, hguard_hid_raw h hk' hname hh, bind, Except.bind])
theorem ref_open : Refused bk hk .base (.open_ name) .hiddenNotExist :=
  refused_of_tr (by intro n e; cases e) (by simp only [HiddenFS.translate, hguard_hid_raw h hk' hname hh, bind, Except.bind])

end

/-- the hidden check never errs on an absolute name -/
theorem isHidden_abs_total (h : NRoots bk hk dd) {p : Path} (hp : isAbs p = true) :
    ∃ b, isHidden p (nhs hk) = .ok b := by
  obtain ⟨e, he, hc⟩ := clean_abs hp
  rw [← isHidden_clean, hc, isHidden_kp (nhidKeys h) he]
  exact ⟨_, rfl⟩

/-- the lexical effective target of a symlink located at a key path is absolute -/
theorem eff_abs {k : Key} (hk' : PKey k) (o : Path) :
    isAbs (if isAbs o then o else join (dir (kp k)) o) = true := by
  split
  · assumption
  · rw [dir_kp hk']
    show isRooted _ = true
    rw [isRooted_join_left _ (kp_ne_nil _)]
    exact isRooted_kp _

/-- `Symlink(o, n)` with `n` at or below the location: refused, whatever the target -/
theorem ref_symlink (h : NRoots bk hk dd) {k : Key} (hk' : PKey k) (hh : hk <+: k) (o : Path) :
    Refused bk hk .base (.symlink o (kp k)) .hiddenPerm := by
  apply refused_of_tr (by intro n e; cases e)
  obtain ⟨b, hb⟩ := isHidden_abs_total h (eff_abs hk' o)
  cases b with
  | true => exact (Props.C06.symlink_refused (nhs hk) o (kp k)).1 (by rw [clean_kp hk']; exact hb)
  | false => exact (Props.C06.symlink_refused (nhs hk) o (kp k)).2 (by rw [clean_kp hk']; exact hb) (isHidden_hid h hk' hh)

/-- `Symlink(o, n)` whose lexical effective target is at or below the location: refused -/
theorem ref_symlink_target (o n : Path)
    (he : isHidden (if isAbs o then o else join (dir (clean n)) o) (nhs hk) = .ok true) :
    Refused bk hk .base (.symlink o n) .hiddenPerm :=
  refused_of_tr (by intro n e; cases e) ((Props.C06.symlink_refused (nhs hk) o n).1 he)

/-! ### mutators on a hidden name -/

/-- outcome of a mutator on a name at or below the location: the frame `HF`; it fails; and when no
fault is planned and the location's ancestors are tracked it fails with exactly `e` -/
def HidPost {α : Type} (bk hk dd : Key) (e : Err) (w w' : World) (r : Except Err α) : Prop :=
  HF bk hk dd w w' ∧ (∃ e', r = .error e') ∧ (w.faults = [] → AncTracked hk w → r = .error e)

theorem sat_hid_then {α : Type} (h : NRoots bk hk dd) {name : Path} {k : Key} (hhk : hk <+: k) (hk' : PKey k)
    (hname : clean name = kp k) {w : World} (hg : NGood bk hk dd w.fs) {f : Path → M α} {e : Err}
    (hf : ∀ w1, Sat (f (kp k)) w1 (RO e w1)) :
    Sat (prepare (nestedCfg bk hk) name >>= f) w (HidPost bk hk dd e w) := by
  apply Sat.bind
  apply (sat_prepare_hid h hhk hk' hname hg).mono
  intro w1 r ⟨h1, hres, hok⟩
  cases r with
  | error e' => exact ⟨h1, ⟨e', rfl⟩, fun hnf ht => by cases hok hnf ht⟩
  | ok p =>
    have := hres p rfl
    subst this
    apply (hf w1).mono
    intro w2 r2 ⟨hs, hr⟩
    refine ⟨h1.trans (HF.of_same h1.good hs), ?_, ?_⟩
    · rcases hr with rfl | ⟨_, rfl⟩ <;> exact ⟨_, rfl⟩
    · intro hnf _
      rcases hr with rfl | ⟨hf', _⟩
      · rfl
      · rw [h1.faults] at hf'; exact absurd hnf hf'

theorem sat_hid_bind {α β : Type} {x : M α} {g : α → M β} {e : Err} {w : World}
    (hx : Sat x w (HidPost bk hk dd e w)) : Sat (x >>= g) w (HidPost bk hk dd e w) := by
  apply Sat.bind
  apply hx.mono
  intro w1 r ⟨a, ⟨e', he⟩, c⟩
  subst he
  refine ⟨a, ⟨e', rfl⟩, ?_⟩
  intro hnf ht
  have := c hnf ht
  cases this
  rfl

theorem sat_ro_bind {α β : Type} {x : M α} {g : α → M β} {e : Err} {w : World}
    (hx : Sat x w (RO e w)) : Sat (x >>= g) w (RO e w) := by
  apply Sat.bind
  apply hx.mono
  intro w1 r ⟨a, hr⟩
  rcases hr with rfl | ⟨hf, rfl⟩
  · exact ⟨a, Or.inl rfl⟩
  · exact ⟨a, Or.inr ⟨hf, rfl⟩⟩

/-- the name a single-name mutator works on (`Symlink`: the link's location) -/
def mutName : Op → Option Path
  | .creat p _ | .mkdir p _ | .mkdirAll p _ | .remove p | .chmod p _ | .chown p _ _ | .lchown p _ _
  | .chtimes p _ => some p
  | .write p f _ _ => if f = O_RDONLY then none else some p
  | .symlink _ n => some n
  | _ => none

/-- the name a read-only operation works on -/
def roName : Op → Option Path
  | .stat p | .lstat p | .readlink p => some p
  | .write p f _ _ => if f = O_RDONLY then some p else none
  | _ => none

/-- the error class with which HiddenFS refuses the operation's base call (C06's table) -/
def locRefusal : Op → Err
  | .creat _ _ | .mkdir _ _ | .mkdirAll _ _ | .symlink _ _ => .hiddenPerm
  | .write _ f _ _ =>
    if f = O_RDONLY then .hiddenNotExist else if hasFlag f O_CREATE then .hiddenPerm else .hiddenNotExist
  | _ => .hiddenNotExist

/-- S1, mutators -/
theorem sat_mut_hid (h : NRoots bk hk dd) {op : Op} {p : Path} {k : Key} (hm : mutName op = some p)
    (hk' : PKey k) (hname : clean p = kp k) (hhk : hk <+: k) {w : World} (hg : NGood bk hk dd w.fs) :
    Sat (Op.exec (nestedCfg bk hk) op) w (HidPost bk hk dd (locRefusal op) w) := by
  have hck := clean_kp hk'
  cases op <;> simp only [mutName] at hm <;> first | (cases hm; done) | skip
  case creat q d =>
    cases hm
    unfold Op.exec BackupFS.create
    exact sat_hid_bind (sat_hid_then h hhk hk' hname hg (fun _ => sat_refused_open (ref_create h hk' hck hhk)))
  case write q f pm d =>
    split at hm
    · cases hm
    · rename_i hf
      cases hm
      unfold Op.exec BackupFS.openFile
      simp only [hf, if_false, locRefusal]
      exact sat_hid_bind (sat_hid_then h hhk hk' hname hg (fun _ => sat_refused_open (ref_openFile h hk' hck hhk f pm)))
  case mkdir q m =>
    cases hm
    unfold Op.exec BackupFS.mkdir
    exact sat_hid_bind (sat_hid_then h hhk hk' hname hg (fun _ => sat_refused_unit (ref_mkdir h hk' hck hhk m)))
  case mkdirAll q m =>
    cases hm
    unfold Op.exec BackupFS.mkdirAll
    exact sat_hid_bind (sat_hid_then h hhk hk' hname hg (fun _ => sat_refused_unit (ref_mkdirAll h hk' hck hhk m)))
  case remove q =>
    cases hm
    unfold Op.exec BackupFS.remove
    exact sat_hid_bind (sat_hid_then h hhk hk' hname hg (fun _ => sat_refused_unit (ref_remove h hk' hck hhk)))
  case symlink o q =>
    cases hm
    unfold Op.exec BackupFS.symlink
    exact sat_hid_bind (sat_hid_then h hhk hk' hname hg (fun _ => sat_refused_unit (ref_symlink h hk' hhk o)))
  case chmod q m =>
    cases hm
    unfold Op.exec BackupFS.chmod
    exact sat_hid_bind (sat_hid_then h hhk hk' hname hg (fun _ => sat_refused_unit (ref_chmod h hk' hck hhk m)))
  case chown q u g =>
    cases hm
    unfold Op.exec BackupFS.chown
    exact sat_hid_bind (sat_hid_then h hhk hk' hname hg (fun _ => sat_refused_unit (ref_chown h hk' hck hhk u g)))
  case lchown q u g =>
    cases hm
    unfold Op.exec BackupFS.lchown
    exact sat_hid_bind (sat_hid_then h hhk hk' hname hg (fun _ => sat_refused_unit (ref_lchown h hk' hck hhk u g)))
  case chtimes q t =>
    cases hm
    unfold Op.exec BackupFS.chtimes
    exact sat_hid_bind (sat_hid_then h hhk hk' hname hg (fun _ => sat_refused_unit (ref_chtimes h hk' hck hhk t t)))

/-- S1, read-only operations: one refused base call -/
theorem sat_ro_hid (h : NRoots bk hk dd) {op : Op} {p : Path} {k : Key} (hm : roName op = some p)
    (hk' : PKey k) (hname : clean p = kp k) (hhk : hk <+: k) {w : World} :
    Sat (Op.exec (nestedCfg bk hk) op) w (RO (locRefusal op) w) := by
  cases op <;> simp only [roName] at hm <;> first | (cases hm; done) | skip
  case write q f pm d =>
    split at hm
    · rename_i hf
      cases hm
      unfold Op.exec BackupFS.openFile
      simp only [hf, if_true, locRefusal]
      exact sat_ro_bind (sat_refused_open (ref_openFile h hk' hname hhk O_RDONLY 0))
    · cases hm
  case stat q =>
    cases hm
    unfold Op.exec BackupFS.stat
    exact sat_ro_bind (sat_refused_info (ref_stat h hk' hname hhk))
  case lstat q =>
    cases hm
    unfold Op.exec BackupFS.lstat
    exact sat_ro_bind (sat_refused_info (ref_lstat h hk' hname hhk))
  case readlink q =>
    cases hm
    unfold Op.exec BackupFS.readlink
    exact sat_ro_bind (sat_refused_str (ref_readlink h hk' hname hhk))

/-- S1, `RemoveAll` of a hidden name: the refusal counts as "does not exist" — nil, nothing changes -/
theorem sat_removeAll_hid (h : NRoots bk hk dd) {p : Path} {k : Key} (hk' : PKey k) (hname : clean p = kp k)
    (hhk : hk <+: k) {w : World} (hg : NGood bk hk dd w.fs) :
    Sat (Op.exec (nestedCfg bk hk) (.removeAll p)) w (fun w' r =>
      SameFS w w' ∧ (w.faults = [] → r = .ok .unit) ∧ (∀ e, r = .error e → w.faults ≠ [])) := by
  unfold Op.exec BackupFS.removeAll
  apply Sat.bind
  apply Sat.bind
  apply (sat_realPath_ok (S := nSim bk hk dd h) hg hk' hname).mono
  intro w1 r ⟨hs, hres, hok⟩
  cases r with
  | error e => exact ⟨hs, ⟨fun hnf => (by cases hok hnf), fun _ _ hnf => (by cases hok hnf)⟩⟩
  | ok q =>
    have := hres q rfl
    subst this
    simp only
    apply Sat.bind
    apply Sat.attempt
    apply (sat_refused_info (ref_lstat h hk' (clean_kp hk') hhk) (w := w1)).mono
    intro w2 r2 ⟨hs2, hr2⟩
    rcases hr2 with rfl | ⟨hf, rfl⟩
    · simp only [Err.isNotFound, if_true]
      apply Sat.pure
      apply Sat.pure
      exact ⟨hs.trans hs2, ⟨fun _ => rfl, fun e he => (by cases he)⟩⟩
    · simp only [Err.isNotFound, Bool.false_eq_true, if_false]
      apply Sat.throw
      refine ⟨hs.trans hs2, ⟨fun hnf => ?_, fun _ _ hnf => ?_⟩⟩
      · rw [hs.faults] at hf; exact absurd hnf hf
      · rw [hs.faults] at hf; exact hf hnf

/-! ### two-name operations: `Rename` with a hidden name or a name leading to the location,
`Symlink` with a hidden target (under the transaction invariant) -/

theorem sat_rename_hid (h : NRoots bk hk dd) {v0 : View} {o n : Path} {ko kn : Key} {w : World}
    (hinv : N.Inv (nSim bk hk dd h) v0 w) (hko : PKey ko) (hkn : PKey kn)
    (ho : clean o = kp ko) (hn : clean n = kp kn)
    (hbad : NHid hk .base ko ∨ NPar hk .base ko ∨ NHid hk .base kn ∨ NPar hk .base kn) :
    Sat (Op.exec (nestedCfg bk hk) (.rename o n)) w (fun w' r =>
      (∃ e, r = .error e) ∧ N.Adv (nSim bk hk dd h) v0 w w') := by
  unfold Op.exec BackupFS.rename
  apply Sat.bind
  apply Sat.bind
  apply (N.sat_realPath (S := nSim bk hk dd h) hinv.good hko ho).mono
  intro w1 r1 ⟨hs1, hres1⟩
  have hadv1 := N.Adv.of_same hinv hs1
  cases r1 with
  | error e => exact ⟨⟨e, rfl⟩, hadv1⟩
  | ok ro =>
    have := hres1 ro rfl; subst this
    simp only
    apply Sat.bind
    apply (N.sat_realPath (S := nSim bk hk dd h) hadv1.inv.good hkn hn).mono
    intro w2 r2 ⟨hs2, hres2⟩
    have hadv2 := hadv1.trans (N.Adv.of_same hadv1.inv hs2)
    cases r2 with
    | error e => exact ⟨⟨e, rfl⟩, hadv2⟩
    | ok rn =>
      have := hres2 rn rfl; subst this
      simp only
      apply Sat.bind
      apply (N.sat_tryBackup hadv2.inv hkn).mono
      intro w3 r3 ⟨hadv3', _⟩
      have hadv3 := hadv2.trans hadv3'
      cases r3 with
      | error e => exact ⟨⟨e, rfl⟩, hadv3⟩
      | ok u3 =>
        simp only
        apply Sat.bind
        apply (N.sat_tryBackup hadv3.inv hko).mono
        intro w4 r4 ⟨hadv4', _⟩
        have hadv4 := hadv3.trans hadv4'
        cases r4 with
        | error e => exact ⟨⟨e, rfl⟩, hadv4⟩
        | ok u4 =>
          simp only
          obtain ⟨e, hr⟩ := refused_rename h hko hkn hbad
          apply (sat_refused_unit hr (w := w4)).mono
          intro w5 r5 ⟨hs5, hr5⟩
          have hadv5 := hadv4.trans (N.Adv.of_same hadv4.inv hs5)
          rcases hr5 with rfl | ⟨_, rfl⟩ <;> exact ⟨⟨_, rfl⟩, hadv5⟩

theorem sat_symlink_target_hid (h : NRoots bk hk dd) {v0 : View} {o n : Path} {kn : Key} {w : World}
    (hinv : N.Inv (nSim bk hk dd h) v0 w) (hkn : PKey kn) (hn : clean n = kp kn)
    (he : isHidden (if isAbs o then o else join (dir (kp kn)) o) (nhs hk) = .ok true) :
    Sat (Op.exec (nestedCfg bk hk) (.symlink o n)) w (fun w' r =>
      (∃ e, r = .error e) ∧ N.Adv (nSim bk hk dd h) v0 w w') := by
  unfold Op.exec BackupFS.symlink
  apply Sat.bind
  apply Sat.bind
  apply (N.sat_prepare hinv hkn hn).mono
  intro w1 r1 ⟨hadv1, hres1⟩
  cases r1 with
  | error e => exact ⟨⟨e, rfl⟩, hadv1⟩
  | ok rn =>
    have := (hres1 rn rfl).1; subst this
    simp only
    apply (sat_refused_unit (ref_symlink_target o (kp kn) (by rw [clean_kp hkn]; exact he)) (w := w1)).mono
    intro w2 r2 ⟨hs2, hr2⟩
    have hadv2 := hadv1.trans (N.Adv.of_same hadv1.inv hs2)
    rcases hr2 with rfl | ⟨_, rfl⟩ <;> exact ⟨⟨_, rfl⟩, hadv2⟩

end
end BFS.S4
