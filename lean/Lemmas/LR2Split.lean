import Lemmas.LPInv
import Lemmas.R2Split
import Lemmas.LTx
/-!
  Lemmas/LR2Split.lean — the two halves of `Rollback` (`restorePart`, `cleanupPart`: Lemmas/R2Split.lean)
  over an `LSim` (disks WITH symlinks), for any world with a well-formed disk and ANY fault plan:

  * `L.sat_restorePart_foot` — the restore half (classification loop, removal of created paths, restore of
    directories, files, SYMLINKS) never changes the backup view, creates no symlink in it, changes the base
    view within the footprint of the tracked map only, and a symlink of the base afterwards was a symlink
    before or sits at a key in `Lk` (the keys at which the symlink loop may create one);
  * `L.sat_cleanupPart_foot` — the clean-up half never changes the base view.

  Hypotheses as in Lemmas/LPFoot.lean (`BaseAncOK`, `BackupAncOK`: no symlink ABOVE a tracked path), all of
  them consequences of the transaction invariant `L.Inv` (`Inv.footprint_hyps`, `Inv.links_apart`).
-/
namespace BFS
namespace L
open BackupFS

variable {cfg : Cfg} {S : LSim cfg}

/-- **the restore half never touches the backup** and stays within the base footprint of the tracked map —
whatever the fault plan, whatever it returns; the plan it hands on lists tracked entries only.  `Lk`
bounds where the symlink loop may create symlinks (`hact`), and no key in `Lk` is a proper ancestor of a
key tracked as a symlink (`hsep`). -/
theorem sat_restorePart_foot_core {w : World} {infos : List (Path × Option Info)} (hg : S.G w.fs)
    (hkeys : ∀ p oi, (p, oi) ∈ infos → ∃ k, PKey k ∧ p = kp k)
    (hroot : (kp [], none) ∉ infos)
    (hbase : BaseAncOK (S.view .base w.fs) infos)
    (hbackup : BackupAncOK (S.view .backup w.fs) infos)
    (Lk : Key → Prop)
    (hsep : ∀ a k, Lk a → LinkTracked infos k → a <+: k → a = k)
    (hact : ∀ (k : Key) (w' : World), LinkTracked infos k → S.G w'.fs →
      S.view .backup w'.fs = S.view .backup w.fs → NoLinkAnc (S.view .base w'.fs) k →
      Sat (restoreLinkAct cfg infos (kp k)) w' (fun w'' _ => S.ChgL .base (· = k) w' w'' ∧
        (¬ Lk k → S.Chg .base (· = k) w' w''))) :
    Sat (restorePart cfg infos) w (fun w' r =>
      S.Foot (BaseFoot (S.view .backup w.fs) infos) (FileFoot (S.view .backup w.fs) infos)
        (fun _ => False) Lk w w' ∧
      ∀ res, r = .ok res → PlanOK infos res.1) := by
  have hsome : ∀ {p : Path} {i : Info}, p ≠ rootP → (p, some i) ∈ infos → ∃ k, p = kp k ∧ TrackedKey infos k (some i) := by
    intro p i hp hm
    obtain ⟨k, hk, rfl⟩ := hkeys p _ hm
    exact ⟨k, rfl, hk, fun e => hp (by rw [e]; rfl), hm⟩
  have hnone : ∀ {p : Path}, (p, none) ∈ infos → ∃ k, p = kp k ∧ TrackedKey infos k none := by
    intro p hm
    obtain ⟨k, hk, rfl⟩ := hkeys p _ hm
    exact ⟨k, rfl, hk, fun e => hroot (e ▸ hm), hm⟩
  let PR : World → Prop := S.Foot (BaseFoot (S.view .backup w.fs) infos) (FileFoot (S.view .backup w.fs) infos)
    (fun _ => False) (fun _ => False) w
  let PL : World → Prop := S.Foot (BaseFoot (S.view .backup w.fs) infos) (FileFoot (S.view .backup w.fs) infos)
    (fun _ => False) Lk w
  have hPL : ∀ w1, PR w1 → PL w1 := fun w1 h => h.mono (fun _ h => h) (fun _ h => h) (fun _ h => h) (fun _ h => h.elim)
  have haccR : ∀ {w1 : World} {k : Key} {oi : Option Info}, PR w1 → TrackedKey infos k oi →
      NoLinkAnc (S.view .base w1.fs) k := by
    intro w1 k oi h1 ht a ha hne hl
    rcases h1.links a hl with h0 | hf
    · exact hbase k oi ht a ha hne h0
    · exact hf
  have haccL : ∀ {w1 : World} {k : Key}, PL w1 → LinkTracked infos k → NoLinkAnc (S.view .base w1.fs) k := by
    intro w1 k h1 hlt a ha hne hl
    rcases h1.links a hl with h0 | hla
    · obtain ⟨i, ht, _⟩ := hlt
      exact hbase k _ ht a ha hne h0
    · exact hne (hsep a k hla hlt ha)
  unfold restorePart
  apply Sat.bind
  apply (sat_classify_any S (infos := infos) infos {} w w (fun _ h => h) (SameFS.refl w) hg (PlanOK.empty _)).mono
  intro w1 r ⟨hs1, hplan⟩
  have h1 : PR w1 := LSim.Foot.of_same hg hs1
  cases r with
  | error e => exact ⟨hPL w1 h1, fun res h => by cases h⟩
  | ok pl =>
    have hpl := hplan pl rfl
    simp only
    refine ⟨?_, fun res h => by rw [restoreLoops_fst cfg infos pl w1 res h]; exact hpl⟩
    show Sat (restoreLoops cfg infos pl) w1 (fun w' _ => PL w')
    unfold restoreLoops
    -- created entries are removed
    apply Sat.seq (P := PR) _ hPL
    rotate_left
    · apply sat_forEach_any (P := PR) _ w1 h1
      intro x hx w' h'
      obtain ⟨k, rfl, ht⟩ := hnone (hpl.rem x ((sortBy_perm _ _).mem_iff.mp hx))
      exact (sat_removeBaseAct_fp h'.good ht.1 ht.2.1 (haccR h' ht)).mono (fun _ _ hc => h'.trans
        (LSim.Foot.of_base hc (fun j e => ⟨k, none, ht, Or.inl e⟩) (fun j e => ⟨k, none, ht, Or.inl e⟩)))
    intro e1 w2 h2
    -- directories are restored
    apply Sat.seq (P := PR) _ hPL
    rotate_left
    · apply sat_forEach_any (P := PR) _ w2 h2
      intro x hx w' h'
      obtain ⟨hp, i, hm, hkind⟩ := hpl.dirs x ((sortBy_perm _ _).mem_iff.mp hx)
      obtain ⟨k, rfl, ht⟩ := hsome hp hm
      exact (sat_restoreDirAct_fp h'.good ht.1 ht.2.1 (haccR h' ht)).mono (fun _ _ hc => h'.trans
        (LSim.Foot.of_dir hc (fun j hj => ⟨k, some i, ht, Or.inr (Or.inr ⟨i, rfl, hkind, hj⟩)⟩)
          ⟨k, some i, ht, Or.inl rfl⟩))
    intro e2 w3 h3
    -- files are restored: the backup view is still the one Rollback started with
    apply Sat.seq (P := PR) _ hPL
    rotate_left
    · apply sat_forEach_any (P := PR) _ w3 h3
      intro x hx w' h'
      obtain ⟨hp, i, hm, hkind⟩ := hpl.files x ((sortBy_perm _ _).mem_iff.mp hx)
      obtain ⟨k, rfl, ht⟩ := hsome hp hm
      have hbk : S.view .backup w'.fs = S.view .backup w.fs := funext (fun j => h'.backup j (fun h => h))
      have hbacc : NoLinkAnc (S.view .backup w'.fs) k := by rw [hbk]; exact hbackup k i ht
      exact (sat_restoreFileAct_fp h'.good ht.1 ht.2.1 (haccR h' ht) hbacc).mono (fun _ _ hc => h'.trans
        (LSim.Foot.of_base hc (fun j hj => ⟨k, some i, ht, (FileReach.touches hkind (hbk ▸ hj)).touches⟩)
          (fun j hj => ⟨k, some i, ht, FileReach.touches hkind (hbk ▸ hj)⟩)))
    intro e3 w4 h4
    have h4 : PL w4 := hPL w4 h4
    -- symlinks are restored: each act is confined to its key, where a symlink may appear
    apply Sat.seq (P := PL) _ (fun _ h => h)
    rotate_left
    · apply sat_forEach_any (P := PL) _ w4 h4
      intro x hx w' h'
      obtain ⟨hp, i, hm, hkind⟩ := hpl.links x ((sortBy_perm _ _).mem_iff.mp hx)
      obtain ⟨k, rfl, ht⟩ := hsome hp hm
      have hlt : LinkTracked infos k := ⟨i, ht, hkind⟩
      have hbk : S.view .backup w'.fs = S.view .backup w.fs := funext (fun j => h'.backup j (fun h => h))
      apply (hact k w' hlt h'.good hbk (haccL h' hlt)).mono
      intro w'' _ ⟨hc, hcn⟩
      apply h'.trans
      by_cases hlk : Lk k
      · exact LSim.Foot.of_link hc ⟨k, some i, ht, Or.inl rfl⟩ ⟨k, some i, ht, Or.inl rfl⟩ hlk
      · exact LSim.Foot.of_base (hcn hlk) (fun j e => ⟨k, some i, ht, Or.inl e⟩) (fun j e => ⟨k, some i, ht, Or.inl e⟩)
    intro e4 w5 h5
    exact Sat.pure h5

/-- over the bare contract: symlinks may appear at keys tracked as symlinks only, provided no key tracked
as a symlink lies strictly below another one -/
theorem sat_restorePart_foot {w : World} {infos : List (Path × Option Info)} (hg : S.G w.fs)
    (hkeys : ∀ p oi, (p, oi) ∈ infos → ∃ k, PKey k ∧ p = kp k)
    (hroot : (kp [], none) ∉ infos)
    (hbase : BaseAncOK (S.view .base w.fs) infos)
    (hbackup : BackupAncOK (S.view .backup w.fs) infos)
    (hapart : LinksApart infos) :
    Sat (restorePart cfg infos) w (fun w' r =>
      S.Foot (BaseFoot (S.view .backup w.fs) infos) (FileFoot (S.view .backup w.fs) infos)
        (fun _ => False) (LinkTracked infos) w w' ∧
      ∀ res, r = .ok res → PlanOK infos res.1) :=
  sat_restorePart_foot_core hg hkeys hroot hbase hbackup (LinkTracked infos) hapart
    (fun k w' hlt hg' _ hacc => by
      obtain ⟨i, ht, hkind⟩ := hlt
      exact (sat_restoreLinkAct_fp hg' ht.1 ht.2.1 hacc).mono
        (fun _ _ h => ⟨h, fun hn => absurd ⟨i, ht, hkind⟩ hn⟩))

/-- every path the clean-up half will visit is the path of a key other than the root, none of whose
proper ancestors is a symlink in the backup view `vb` -/
def PlanKeysL (vb : View) (pl : RollbackPlan) : Prop :=
  ∀ p, p ∈ pl.links ∨ p ∈ pl.files ∨ p ∈ pl.dirs → ∃ k, PKey k ∧ k ≠ [] ∧ p = kp k ∧ NoLinkAnc vb k

theorem planOK_keysL {vb : View} {infos : List (Path × Option Info)} {pl : RollbackPlan} (h : PlanOK infos pl)
    (hkeys : ∀ p oi, (p, oi) ∈ infos → ∃ k, PKey k ∧ p = kp k)
    (hbackup : BackupAncOK vb infos) : PlanKeysL vb pl := by
  have hsome : ∀ {p : Path} {i : Info}, p ≠ rootP → (p, some i) ∈ infos →
      ∃ k, PKey k ∧ k ≠ [] ∧ p = kp k ∧ NoLinkAnc vb k := by
    intro p i hp hm
    obtain ⟨k, hk, rfl⟩ := hkeys p _ hm
    have hne : k ≠ [] := fun e => hp (by rw [e]; rfl)
    exact ⟨k, hk, hne, rfl, hbackup k i ⟨hk, hne, hm⟩⟩
  intro p hp
  rcases hp with hp | hp | hp
  · obtain ⟨hne, i, hm, _⟩ := h.links p hp; exact hsome hne hm
  · obtain ⟨hne, i, hm, _⟩ := h.files p hp; exact hsome hne hm
  · obtain ⟨hne, i, hm, _⟩ := h.dirs p hp; exact hsome hne hm

/-- **the clean-up half never touches the base** — whatever the fault plan, whatever it returns; it
creates no symlink and retargets none in the backup -/
theorem sat_cleanupPart_foot {w : World} {r : RestoreRes} (hg : S.G w.fs)
    (hpk : PlanKeysL (S.view .backup w.fs) r.1) :
    Sat (cleanupPart cfg r) w (fun w' _ =>
      S.Foot (fun _ => False) (fun _ => False) (fun _ => True) (fun _ => False) w w') := by
  unfold cleanupPart
  let P : World → Prop := S.Foot (fun _ => False) (fun _ => False) (fun _ => True) (fun _ => False) w
  have h0 : P w := LSim.Foot.refl hg
  apply Sat.seq (P := P) _ (fun _ h => h)
  rotate_left
  · exact sat_removeBackupPaths_foot h0 (fun p hp => by
      obtain ⟨k, hk, hne, e, hna⟩ := hpk p (Or.inl hp); exact ⟨k, hk, hne, e, trivial, hna⟩)
  intro e5 w6 h6
  apply Sat.seq (P := P) _ (fun _ h => h)
  rotate_left
  · exact sat_removeBackupPaths_foot h6 (fun p hp => by
      obtain ⟨k, hk, hne, e, hna⟩ := hpk p (Or.inr (Or.inl hp)); exact ⟨k, hk, hne, e, trivial, hna⟩)
  intro e6 w7 h7
  apply Sat.seq (P := P) _ (fun _ h => h)
  rotate_left
  · exact sat_removeBackupPaths_foot h7 (fun p hp => by
      obtain ⟨k, hk, hne, e, hna⟩ := hpk p (Or.inr (Or.inr hp)); exact ⟨k, hk, hne, e, trivial, hna⟩)
  intro e7 w8 h8
  apply Sat.bind
  apply Sat.modifyW
  apply Sat.pure
  exact ⟨h8.good, h8.base, h8.leaves, h8.backup, h8.blinks, h8.links⟩

end L
end BFS
