import Lemmas.PNName
/-!
  Lemmas/PNLayer.lean — PrefixFS as a layer `prefixFS p inner` over ANY inner filesystem: what a
  successful call returns in terms of the inner call on the re-rooted arguments, the assumption
  "the inner filesystem reports names derived from the paths it was given" (`ReportsGivenNames`,
  proved of the OS model), and the handle primitives being blind to the reported name (`NameBlind`).
-/
namespace BFS
namespace PN
open PrefixFS D

/-! ### what the inner filesystem is assumed to report -/

/-- The inner filesystem reports names derived from the paths it was given, like package `os`:
a handle is named by the path it was opened with (`os.File.Name`), a `FileInfo` from `Stat`/`Lstat`
by `Base` of the path, a `FileInfo` from `File.Stat` by `Base` of the handle's name. -/
structure ReportsGivenNames {σ} (inner : FSI σ) : Prop where
  handle_name : ∀ (s s' : σ) (c : Call) (h : Handle),
    inner.call s c = (s', .ok (.handle h)) → h.name = c.primaryPath
  info_name : ∀ (s s' : σ) (c : Call) (i : Info),
    inner.call s c = (s', .ok (.info i)) → i.name = base c.primaryPath
  hstat_name : ∀ (s : σ) (h : Handle) (i : Info), inner.hstat s h = .ok i → i.name = base h.name

/-- the handle primitives that carry data or listings do not look at the name a handle reports -/
structure NameBlind {σ} (inner : FSI σ) : Prop where
  readdirnames : ∀ (s : σ) (h : Handle) (nm : Path),
    inner.hreaddirnames s { h with name := nm } = inner.hreaddirnames s h
  read : ∀ (s : σ) (h : Handle) (nm : Path), inner.hread s { h with name := nm } = inner.hread s h
  write : ∀ (s : σ) (h : Handle) (nm : Path) (off : Nat) (d : String),
    inner.hwrite s { h with name := nm } off d = inner.hwrite s h off d

theorem infoOf_name (nm : Path) (n : Node) : (MFS.infoOf nm n).name = nm := by
  cases n <;> rfl

theorem openFile_name {m : MFS} {t : Path} {flag perm : Nat} {h : Handle}
    (hr : (m.openFile t flag perm).2 = .ok h) : h.name = t := by
  unfold MFS.openFile at hr
  simp only at hr
  split at hr
  · cases hr
  · split at hr
    · cases hr
    · split at hr
      · split at hr
        · cases hr
        · cases hr; rfl
      · cases hr
      · split at hr <;> (cases hr; rfl)
  · split at hr
    · cases hr
    · cases hr; rfl

theorem os_lstat_name {m : MFS} {q : Path} {i : Info} (h : m.lstat q = .ok i) : i.name = base q := by
  unfold MFS.lstat at h
  split at h
  · cases h; exact infoOf_name _ _
  · cases h
  · cases h

theorem os_stat_name {m : MFS} {q : Path} {i : Info} (h : m.stat q = .ok i) : i.name = base q := by
  unfold MFS.stat at h
  split at h
  · cases h; exact infoOf_name _ _
  · cases h
  · cases h

theorem os_hstat_name {m : MFS} {h : Handle} {i : Info} (hs : m.hstat h = .ok i) : i.name = base h.name := by
  unfold MFS.hstat at hs
  split at hs
  · cases hs; exact infoOf_name _ _
  · cases hs

theorem liftU_ne_handle {σ} {x : σ × Except Err Unit} {s' : σ} {h : Handle} :
    liftU x ≠ (s', .ok (.handle h)) := by
  intro e
  unfold liftU at e
  rcases x with ⟨a, b⟩
  cases b with
  | error _ => simp [Except.map] at e
  | ok _ => simp [Except.map] at e

theorem liftU_ne_info {σ} {x : σ × Except Err Unit} {s' : σ} {i : Info} :
    liftU x ≠ (s', .ok (.info i)) := by
  intro e
  unfold liftU at e
  rcases x with ⟨a, b⟩
  cases b with
  | error _ => simp [Except.map] at e
  | ok _ => simp [Except.map] at e

theorem map_handle_ok {x : Except Err Handle} {h : Handle} (e : x.map Ret.handle = .ok (.handle h)) :
    x = .ok h := by
  cases x with
  | error _ => cases e
  | ok h0 => simp only [Except.map, Except.ok.injEq, Ret.handle.injEq] at e; rw [e]

theorem map_info_ok {x : Except Err Info} {i : Info} (e : x.map Ret.info = .ok (.info i)) :
    x = .ok i := by
  cases x with
  | error _ => cases e
  | ok h0 => simp only [Except.map, Except.ok.injEq, Ret.info.injEq] at e; rw [e]

theorem map_ne {α} {x : Except Err α} {f : α → Ret} {r : Ret} (hf : ∀ a, f a ≠ r) :
    x.map f ≠ .ok r := by
  cases x with
  | error _ => intro e; cases e
  | ok a => intro e; simp only [Except.map, Except.ok.injEq] at e; exact hf a e

/-- the OS model reports names derived from the paths it was given -/
theorem reportsGivenNames_osfs : ReportsGivenNames osfs where
  handle_name := by
    intro m m' c h hc
    cases c
    case create n =>
      simp only [osfs, osCall, Prod.mk.injEq] at hc
      exact openFile_name (map_handle_ok hc.2)
    case open_ n =>
      simp only [osfs, osCall, Prod.mk.injEq] at hc
      exact openFile_name (map_handle_ok hc.2)
    case openFile n f pm =>
      simp only [osfs, osCall, Prod.mk.injEq] at hc
      exact openFile_name (map_handle_ok hc.2)
    case stat n =>
      simp only [osfs, osCall, Prod.mk.injEq] at hc
      exact absurd hc.2 (map_ne (fun a => by simp))
    case lstat n =>
      simp only [osfs, osCall, Prod.mk.injEq] at hc
      exact absurd hc.2 (map_ne (fun a => by simp))
    case readlink n =>
      simp only [osfs, osCall, Prod.mk.injEq] at hc
      exact absurd hc.2 (map_ne (fun a => by simp))
    all_goals exact absurd hc liftU_ne_handle
  info_name := by
    intro m m' c i hc
    cases c
    case create n =>
      simp only [osfs, osCall, Prod.mk.injEq] at hc
      exact absurd hc.2 (map_ne (fun a => by simp))
    case open_ n =>
      simp only [osfs, osCall, Prod.mk.injEq] at hc
      exact absurd hc.2 (map_ne (fun a => by simp))
    case openFile n f pm =>
      simp only [osfs, osCall, Prod.mk.injEq] at hc
      exact absurd hc.2 (map_ne (fun a => by simp))
    case stat n =>
      simp only [osfs, osCall, Prod.mk.injEq] at hc
      exact os_stat_name (map_info_ok hc.2)
    case lstat n =>
      simp only [osfs, osCall, Prod.mk.injEq] at hc
      exact os_lstat_name (map_info_ok hc.2)
    case readlink n =>
      simp only [osfs, osCall, Prod.mk.injEq] at hc
      exact absurd hc.2 (map_ne (fun a => by simp))
    all_goals exact absurd hc liftU_ne_info
  hstat_name := fun _ _ _ h => os_hstat_name h

theorem nameBlind_osfs : NameBlind osfs where
  readdirnames := fun _ _ _ => rfl
  read := fun _ _ _ => rfl
  write := fun _ _ _ _ _ => rfl

/-! ### a successful call through the layer -/

/-- the same call at `prefix + cleaned name`; absolute link targets re-rooted, relative verbatim
(identical to `Props.C14.rerooted`) -/
def rerooted (pre : Path) (c : Call) : Call :=
  c.mapPaths (fun n => join pre (clean n)) (fun o => if isAbs o then join pre (clean o) else o)

theorem primaryPath_mapPaths (f g : Path → Path) (c : Call) :
    (c.mapPaths f g).primaryPath = f c.primaryPath := by
  cases c <;> rfl

theorem primaryPath_rerooted (pre : Path) (c : Call) :
    (rerooted pre c).primaryPath = join pre (clean c.primaryPath) := primaryPath_mapPaths _ _ c

theorem primaryPath_mem (c : Call) : c.primaryPath ∈ c.accessPaths := by
  cases c <;> simp [Call.primaryPath, Call.accessPaths]

/-- (restated from `Props.C14.reroot_exact`) for names that stay inside every method delegates the
same call on the re-rooted arguments -/
theorem translate_inside (pre : Path) (hne : pre ≠ []) (c : Call)
    (hin : ∀ n ∈ c.accessPaths, StaysInside n)
    (hsym : ∀ o n, c = .symlink o n → isAbs o = false →
      Within pre (join (dir (join pre (clean n))) o)) :
    translate pre c = .ok (rerooted pre c) := by
  unfold rerooted
  cases c
  all_goals try (
    simp only [Call.accessPaths, List.mem_singleton, forall_eq] at hin
    simp only [translate, Call.mapPaths, bind, Except.bind, pure, Except.pure,
      prefixPath_staysInside hne hin]
    done)
  · rename_i o n
    simp only [Call.accessPaths, List.mem_cons, List.not_mem_nil, or_false] at hin
    simp only [translate, Call.mapPaths, bind, Except.bind, pure, Except.pure,
      prefixPath_staysInside hne (hin o (Or.inl rfl)), prefixPath_staysInside hne (hin n (Or.inr rfl))]
  · rename_i o n
    simp only [Call.accessPaths, List.mem_singleton, forall_eq] at hin
    simp only [translate, Call.mapPaths, bind, Except.bind, pure, Except.pure,
      prefixPath_staysInside hne hin]
    by_cases hab : isAbs o = true
    · simp only [hab, if_true, prefixPath_staysInside hne (staysInside_of_abs hab)]
    · have hab' : isAbs o = false := by simpa using hab
      simp only [hab', Bool.false_eq_true, if_false]
      rw [relInside_of_within (hsym o n rfl hab')]

theorem map_ok_inv {α β} {x : Except Err α} {f : α → β} {b : β} (h : x.map f = .ok b) :
    ∃ a, x = .ok a ∧ b = f a := by
  cases x with
  | error _ => cases h
  | ok a => exact ⟨a, rfl, by simp only [Except.map, Except.ok.injEq] at h; exact h.symm⟩

/-- a successful call through `prefixFS p inner` (ANY names): one inner call succeeded, on the
translated call, and the result is its result post-processed -/
theorem call_ok_inv {σ} (inner : FSI σ) (p : Path) (c : Call) (s s' : σ) (r : Ret)
    (h : (prefixFS p inner).call s c = (s', .ok r)) :
    ∃ c' r0, translate (mk p) c = .ok c' ∧ inner.call s c' = (s', .ok r0) ∧
      r = prefixPost (mk p) c c' r0 := by
  rw [prefixFS_call_gen] at h
  cases ht : translate (mk p) c with
  | error e => rw [ht] at h; simp only [Prod.mk.injEq] at h; cases h.2
  | ok c' =>
    rw [ht] at h
    simp only [Prod.mk.injEq] at h
    obtain ⟨h1, h2⟩ := h
    obtain ⟨r0, hr0, hr⟩ := map_ok_inv h2
    refine ⟨c', r0, rfl, ?_, hr⟩
    rw [← h1, ← hr0]

/-- … for names that stay inside: the inner call on the re-rooted arguments -/
theorem call_inside_inv {σ} (inner : FSI σ) (p : Path) (c : Call) (s s' : σ) (r : Ret)
    (hin : ∀ n ∈ c.accessPaths, StaysInside n)
    (hsym : ∀ o n, c = .symlink o n → isAbs o = false →
      Within (mk p) (join (dir (join (mk p) (clean n))) o))
    (h : (prefixFS p inner).call s c = (s', .ok r)) :
    ∃ r0, inner.call s (rerooted (mk p) c) = (s', .ok r0) ∧
      r = prefixPost (mk p) c (rerooted (mk p) c) r0 := by
  obtain ⟨c', r0, ht, hc, hr⟩ := call_ok_inv inner p c s s' r h
  rw [translate_inside (mk p) (clean_ne_nil p) c hin hsym] at ht
  cases ht
  exact ⟨r0, hc, hr⟩

theorem mk_clean (p : Path) : clean (mk p) = mk p := clean_idempotent p

theorem post_ret_handle {pre : Path} {c c' : Call} {r0 : Ret} {h : Handle}
    (e : Ret.handle h = prefixPost pre c c' r0) :
    ∃ h0, r0 = .handle h0 ∧ h = { h0 with name := reportedName pre c'.primaryPath h0.name } := by
  cases r0 with
  | handle h0 =>
    rw [post_handle] at e
    exact ⟨h0, rfl, Ret.handle.inj e⟩
  | unit => rw [post_unit] at e; cases e
  | info i => cases c <;> cases e
  | str t => cases c <;> cases e

theorem post_ret_info_stat {pre : Path} {c c' : Call} {r0 : Ret} {i : Info}
    (hc : (∃ n, c = .stat n) ∨ (∃ n, c = .lstat n))
    (e : Ret.info i = prefixPost pre c c' r0) :
    ∃ i0, r0 = .info i0 ∧ i = { i0 with name := reportedInfoName pre c'.primaryPath i0.name } := by
  cases r0 with
  | handle h0 => rw [post_handle] at e; cases e
  | unit => rw [post_unit] at e; cases e
  | info i0 =>
    rcases hc with ⟨n, rfl⟩ | ⟨n, rfl⟩
    · exact ⟨i0, rfl, Ret.info.inj e⟩
    · exact ⟨i0, rfl, Ret.info.inj e⟩
  | str t =>
    rcases hc with ⟨n, rfl⟩ | ⟨n, rfl⟩ <;> cases e

theorem post_ret_str_readlink {pre : Path} {n : Path} {c' : Call} {r0 : Ret} {t : Path}
    (e : Ret.str t = prefixPost pre (.readlink n) c' r0) :
    ∃ t0, r0 = .str t0 ∧ t = readlinkPost pre t0 := by
  cases r0 with
  | handle h0 => rw [post_handle] at e; cases e
  | unit => rw [post_unit] at e; cases e
  | info i0 => cases e
  | str t0 => exact ⟨t0, rfl, Ret.str.inj e⟩

end PN
end BFS
