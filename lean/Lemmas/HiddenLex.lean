import Lemmas.Hidden
import Lemmas.KP
/-!
  Lemmas/HiddenLex.lean — the lexical checks of HiddenFS (`isHidden`, `isParentOfHidden`) on
  absolute cleaned paths `kp j`, in terms of keys: "hidden" is "some hidden key is a prefix",
  "parent of hidden" is "a proper prefix of some hidden key".  Neither check can fail on such
  paths (`filepath.Rel` relates any two rooted paths).
-/
namespace BFS
open HiddenFS

/-- the hidden path list `hs` consists exactly of the paths of the keys `hks` -/
structure HidKeys (hs : List Path) (hks : List Key) : Prop where
  pkey : ∀ h ∈ hks, PKey h
  mem : ∀ p, p ∈ hs ↔ ∃ h ∈ hks, p = kp h

/-- key `j` is a hidden entry or lies below one -/
def HidK (hks : List Key) (j : Key) : Prop := ∃ h ∈ hks, h <+: j

/-- key `j` is a proper ancestor of a hidden entry -/
def ParK (hks : List Key) (j : Key) : Prop := ∃ h ∈ hks, j <+: h ∧ j ≠ h

instance (hks : List Key) (j : Key) : Decidable (HidK hks j) :=
  inferInstanceAs (Decidable (∃ h ∈ hks, h <+: j))
instance (hks : List Key) (j : Key) : Decidable (ParK hks j) :=
  inferInstanceAs (Decidable (∃ h ∈ hks, j <+: h ∧ j ≠ h))

theorem hidKeys_map {hks : List Key} (h : ∀ h ∈ hks, PKey h) : HidKeys (hks.map kp) hks :=
  ⟨h, fun p => by
    simp only [List.mem_map]
    constructor
    · rintro ⟨a, ha, rfl⟩; exact ⟨a, ha, rfl⟩
    · rintro ⟨a, ha, rfl⟩; exact ⟨a, ha, rfl⟩⟩

/-- what `NewHiddenFS` stores for the paths of `hks` -/
theorem hidKeys_mk {hks : List Key} (h : ∀ h ∈ hks, PKey h) : HidKeys (HiddenFS.mk (hks.map kp)) hks := by
  refine ⟨h, fun p => ?_⟩
  unfold HiddenFS.mk sortMost
  rw [(sortBy_perm _ _).mem_iff]
  simp only [List.mem_map]
  constructor
  · rintro ⟨_, ⟨a, ha, rfl⟩, rfl⟩; exact ⟨a, ha, clean_kp (h a ha)⟩
  · rintro ⟨a, ha, rfl⟩; exact ⟨kp a, ⟨a, ha, rfl⟩, clean_kp (h a ha)⟩

theorem HidKeys.nil_iff {hs hks} (H : HidKeys hs hks) : hs = [] ↔ hks = [] := by
  constructor
  · intro e
    cases hks with
    | nil => rfl
    | cons a as =>
      have := (H.mem (kp a)).mpr ⟨a, by simp, rfl⟩
      rw [e] at this; cases this
  · intro e
    cases hs with
    | nil => rfl
    | cons p ps =>
      obtain ⟨a, ha, _⟩ := (H.mem p).mp (by simp)
      rw [e] at ha; cases ha

/-! ### `Within` and `rel` on key paths -/

theorem within_kp {h j : Key} (hh : PKey h) (hj : PKey j) : Within (kp h) (kp j) ↔ h <+: j := by
  unfold Within WithinC
  rw [cleanC_kp hh, cleanC_kp hj]
  simp only [kc, true_and]
  constructor
  · intro ⟨hp, _⟩; exact List.isPrefixOf_iff_prefix.mp hp
  · intro hp
    refine ⟨List.isPrefixOf_iff_prefix.mpr hp, ?_⟩
    intro hm
    exact (hj dotdot (List.mem_of_mem_drop hm)).2.2.2 rfl

/-- `filepath.Rel` never fails on two rooted cleaned paths -/
theorem rel_kp_ne_none {a b : Key} (ha : PKey a) (hb : PKey b) : rel (kp a) (kp b) ≠ none := by
  unfold rel
  rw [cleanC_kp ha, cleanC_kp hb]
  simp only [kc]
  by_cases hab : a = b
  · simp [hab]
  · have hab' : ¬ (({ rooted := true, comps := a } : CPath) = { rooted := true, comps := b }) := by
      intro e; injection e with _ e2; exact hab e2
    simp only [hab', ne_eq, not_true_eq_false, if_false, Bool.not_true, Bool.false_and, Bool.false_eq_true]
    obtain ⟨c, h1, _, _⟩ := stripCommon_spec a b
    cases hsc : stripCommon a b with
    | mk bs ts =>
      rw [hsc] at h1
      simp only at h1 ⊢
      cases bs with
      | nil => simp
      | cons b0 rest =>
        simp only
        have : b0 ≠ dotdot := (ha b0 (by rw [h1]; simp)).2.2.2
        simp [this]

theorem joinSep_ne_dot {ns : List Name} (hne : ns ≠ []) (hp : ∀ n ∈ ns, Plain n) : joinSep ns ≠ dot := by
  cases ns with
  | nil => exact absurd rfl hne
  | cons a as =>
    cases as with
    | nil => simp only [joinSep]; exact (hp a (by simp)).2.2.1
    | cons b bs =>
      rw [joinSep_cons_cons]
      intro e
      have : '/' ∈ dot := by rw [← e]; simp
      revert this; decide

theorem isInHiddenPath_kp {h j : Key} (hh : PKey h) (hj : PKey j) :
    isInHiddenPath (kp j) (kp h) = some (decide (h <+: j)) := by
  cases hi : isInHiddenPath (kp j) (kp h) with
  | none =>
    exfalso
    unfold isInHiddenPath at hi
    cases hr : rel (kp h) (kp j) with
    | none => exact rel_kp_ne_none hh hj hr
    | some r => rw [hr] at hi; simp only at hi; split at hi <;> cases hi
  | some b =>
    cases b with
    | true =>
      have := (within_kp hh hj).mp (within_of_isInHiddenPath hi)
      simp [this]
    | false =>
      have : ¬ h <+: j := by
        intro hp
        rw [isInHiddenPath_of_within ((within_kp hh hj).mpr hp)] at hi
        cases hi
      simp [this]

theorem dirContains_kp {j h : Key} (hj : PKey j) (hh : PKey h) :
    dirContains (kp j) (kp h) = some (decide (j <+: h ∧ j ≠ h)) := by
  unfold dirContains
  cases hr : rel (kp j) (kp h) with
  | none => exact absurd hr (rel_kp_ne_none hj hh)
  | some r =>
    simp only
    by_cases hp : j <+: h
    · by_cases he : j = h
      · subst he
        have : r = dot := by
          unfold rel at hr
          simp at hr
          exact hr.symm
        subst this
        simp
      · have hw := relInside_of_within ((within_kp hj hh).mpr hp)
        rw [cleanC_kp hj, cleanC_kp hh] at hw
        simp only [kc] at hw
        obtain ⟨t, rfl⟩ := hp
        have htne : t ≠ [] := by intro e; apply he; simp [e]
        simp only [List.drop_left, htne, if_false] at hw
        unfold relInside at hw
        rw [hr] at hw
        simp only at hw
        split at hw
        · cases hw
        · rename_i hnc
          simp only [Option.some.injEq] at hw
          have hd : r ≠ dot := by
            rw [hw]
            exact joinSep_ne_dot htne (fun n hn => hh n (List.mem_append_right _ hn))
          simp only [Bool.or_eq_true, decide_eq_true_eq, not_or] at hnc
          have h2 : hasPrefix r relParent = false := by simpa using hnc.2
          simp [hd, hnc.1, h2, he]
    · have hn : relInside (kp j) (kp h) = none := by
        cases hx : relInside (kp j) (kp h) with
        | none => rfl
        | some x =>
          exact absurd ((within_kp hj hh).mp (within_of_relInside hx)) hp
      unfold relInside at hn
      rw [hr] at hn
      simp only at hn
      split at hn
      · rename_i hc
        have hd : r ≠ dot := by
          intro e; subst e
          have := not_climb_dot
          simp [this.1, this.2] at hc
        simp only [Bool.or_eq_true, decide_eq_true_eq] at hc
        have : (hasPrefix r relParent || decide (r = dotdot)) = true := by
          simp only [Bool.or_eq_true, decide_eq_true_eq]; exact hc.symm
        simp [hd, this, hp]
      · cases hn

/-! ### the two checks -/

theorem comparable_kp {hs hks} (H : HidKeys hs hks) {j : Key} (hj : PKey j) : Comparable hs (kp j) := by
  intro p hp
  obtain ⟨h, hm, rfl⟩ := (H.mem p).mp hp
  rw [clean_kp hj]
  exact rel_kp_ne_none (H.pkey h hm) hj

/-- `isHidden` on a key path: never an error, true iff a hidden key is a prefix -/
theorem isHidden_kp {hs hks} (H : HidKeys hs hks) {j : Key} (hj : PKey j) :
    isHidden (kp j) hs = .ok (decide (HidK hks j)) := by
  by_cases hh : HidK hks j
  · simp only [hh, decide_true]
    apply isHidden_of_within_comparable _ (comparable_kp H hj)
    obtain ⟨h, hm, hp⟩ := hh
    exact ⟨kp h, (H.mem _).mpr ⟨h, hm, rfl⟩, (within_kp (H.pkey h hm) hj).mpr hp⟩
  · simp only [hh, decide_false]
    apply isHidden_visible _ (comparable_kp H hj)
    intro p hp hw
    obtain ⟨h, hm, rfl⟩ := (H.mem p).mp hp
    exact hh ⟨h, hm, (within_kp (H.pkey h hm) hj).mp hw⟩

theorem isParentLoop_kp {j : Key} (hj : PKey j) : ∀ (ps : List Path), (∀ p ∈ ps, ∃ h, PKey h ∧ p = kp h) →
    ∃ b, isParentLoop (kp j) ps = .ok b ∧ (b = true ↔ ∃ h, PKey h ∧ kp h ∈ ps ∧ j <+: h ∧ j ≠ h)
  | [], _ => ⟨false, rfl, by simp⟩
  | p :: ps, hps => by
    obtain ⟨h, hh, rfl⟩ := hps p (by simp)
    simp only [isParentLoop, dirContains_kp hj hh]
    by_cases hc : j <+: h ∧ j ≠ h
    · rw [decide_eq_true hc]
      exact ⟨true, rfl, by simp only [true_iff]; exact ⟨h, hh, by simp, hc.1, hc.2⟩⟩
    · rw [decide_eq_false hc]
      simp only
      obtain ⟨b, hb, hiff⟩ := isParentLoop_kp hj ps (fun p hp => hps p (List.mem_cons_of_mem _ hp))
      refine ⟨b, hb, hiff.trans ?_⟩
      constructor
      · rintro ⟨h', hh', hm, hc'⟩; exact ⟨h', hh', List.mem_cons_of_mem _ hm, hc'⟩
      · rintro ⟨h', hh', hm, hc'⟩
        rcases List.mem_cons.mp hm with e | hm
        · have := kp_inj hh' hh e; subst this; exact absurd hc' hc
        · exact ⟨h', hh', hm, hc'⟩

/-- `isParentOfHiddenDir` on a key path: never an error, true iff the key is a proper prefix of a
hidden key -/
theorem isParentOfHidden_kp {hs hks} (H : HidKeys hs hks) {j : Key} (hj : PKey j) :
    isParentOfHidden (kp j) hs = .ok (decide (ParK hks j)) := by
  unfold isParentOfHidden
  split
  · rename_i e
    have := H.nil_iff.mp e
    subst this
    simp [ParK]
  · rw [clean_kp hj]
    obtain ⟨b, hb, hiff⟩ := isParentLoop_kp hj hs (fun p hp => by
      obtain ⟨h, hm, rfl⟩ := (H.mem p).mp hp
      exact ⟨h, H.pkey h hm, rfl⟩)
    rw [hb]
    congr 1
    have : b = true ↔ ParK hks j := by
      rw [hiff]
      constructor
      · rintro ⟨h, hh, hm, hc⟩
        obtain ⟨h', hm', e⟩ := (H.mem _).mp hm
        have := kp_inj hh (H.pkey h' hm') e; subst this
        exact ⟨h, hm', hc⟩
      · rintro ⟨h, hm, hc⟩
        exact ⟨h, H.pkey h hm, (H.mem _).mpr ⟨h, hm, rfl⟩, hc⟩
    cases b with
    | true => simp [this.mp rfl]
    | false =>
      have : ¬ ParK hks j := fun hp => by have := this.mpr hp; cases this
      simp [this]

/-- the statement in the form with explicit key quantifiers -/
theorem isHidden_kp' {hks : List Key} (hp : ∀ h ∈ hks, PKey h) {j : Key} (hj : PKey j) :
    isHidden (kp j) (hks.map kp) = .ok (decide (∃ h ∈ hks, h <+: j)) :=
  isHidden_kp (hidKeys_map hp) hj

theorem isParentOfHidden_kp' {hks : List Key} (hp : ∀ h ∈ hks, PKey h) {j : Key} (hj : PKey j) :
    isParentOfHidden (kp j) (hks.map kp) = .ok (decide (∃ h ∈ hks, j <+: h ∧ j ≠ h)) :=
  isParentOfHidden_kp (hidKeys_map hp) hj

end BFS
