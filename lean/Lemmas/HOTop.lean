import Lemmas.HOWalk
/-!
  Lemmas/HOTop.lean — one call of ANY of the 16 methods with ANY names through
  `HiddenFS(hks.map kp)` over `PrefixFS(kp bk)` over the OS model, on two related link-free disks:
  same result, same reads through a returned handle, related disks afterwards.
-/
namespace BFS
namespace HO
open MFS D PX HiddenFS

/-- HiddenFS(hidden keys `hks`) over PrefixFS(`bk`) over the OS filesystem -/
abbrev hfs (bk : Key) (hks : List Key) : FSI MFS := hiddenFS (hks.map kp) (prefixFS (kp bk) osfs)

section
variable {bk : Key} {hks : List Key}

theorem translate_symlink {hs : List Path} {c c1 : Call} (h : translate hs c = .ok c1)
    (hns : ∀ o n, c ≠ .symlink o n) : ∀ o n, c1 ≠ .symlink o n := by
  intro o' n' e
  subst e
  cases c <;> simp only [translate, bind, Except.bind, pure, Except.pure] at h
  case rename o n =>
    repeat (first | cases h | split at h)
  case symlink o n => exact hns o n rfl
  all_goals (
    split at h
    · cases h
    · cases h)

/-- what the caller can read through the handle a call returned, right after the call -/
def throughOf (bk : Key) (hks : List Key) (x : MFS × Except Err Ret) :
    Option (Except Err String × Except Err Info × Except Err (List Name)) :=
  match x.2 with
  | .ok (.handle h) => some ((hfs bk hks).hread x.1 h, (hfs bk hks).hstat x.1 h, (hfs bk hks).hreaddirnames x.1 h)
  | _ => none

theorem translate_remove_inv {hs : List Path} {c c1 : Call} (h : translate hs c = .ok c1) {n : Path}
    (e : c1 = .remove n) : c = .remove n := by
  subst e
  cases c <;> simp only [translate, bind, Except.bind, pure, Except.pure] at h
  case rename o n' =>
    repeat (first | cases h | split at h)
  case symlink o n' =>
    repeat (first | cases h | split at h)
  all_goals (
    split at h
    · cases h
    · first | (cases h; rfl) | cases h)

/-- `Symlink` returns no handle -/
theorem symlink_no_handle (hbk : PKey bk) (m : MFS) (o n : Path) (h : Handle) :
    ((hfs bk hks).call m (.symlink o n)).2 ≠ .ok (.handle h) := by
  intro hr
  rw [hiddenFS_call_gen (hks.map kp) (prefixFS (kp bk) osfs) m _ (fun _ e => by cases e)] at hr
  cases htr : translate (HiddenFS.mk (hks.map kp)) (.symlink o n) with
  | error e' => rw [htr] at hr; cases hr
  | ok c1 =>
    rw [htr] at hr
    simp only at hr
    simp only [translate, bind, Except.bind, pure, Except.pure] at htr
    have hc1 : ∃ o' n', c1 = .symlink o' n' := by
      repeat (first | (cases htr; exact ⟨_, _, rfl⟩) | split at htr | cases htr)
    obtain ⟨o', n', rfl⟩ := hc1
    rcases prefix_call_cases hbk m (.symlink o' n') with ⟨e', _, hc⟩ | ⟨c2, hkc, _, hc⟩
    · rw [hc] at hr; cases hr
    · rw [hc] at hr
      cases hkc with
      | symlink _ _ o'' x' hx' _ =>
        simp only [osCall] at hr
        cases hq : (m.symlink o'' (kp (bk ++ x'))).2 with
        | error e'' => simp [liftU, hq, Except.map] at hr
        | ok u => simp [liftU, hq, Except.map, prefixPost, hiddenPost] at hr

/-- the reads through the returned handle, given that the call returned the same on both disks and
left them in agreement on the visible keys -/
theorem through_two (hbk : PKey bk) (hp : ∀ h ∈ hks, PKey h) (hne : hks ≠ []) {m1 m2 : MFS} (hw1 : WFB bk m1)
    {c : Call} (hnra : ∀ n, c ≠ .removeAll n)
    (hres : ((hfs bk hks).call m1 c).2 = ((hfs bk hks).call m2 c).2)
    (hag : Agr (Vis bk hks) ((hfs bk hks).call m1 c).1 ((hfs bk hks).call m2 c).1)
    (hwf : (∀ o n, c ≠ .symlink o n) → WFB bk ((hfs bk hks).call m1 c).1 ∧ WFB bk ((hfs bk hks).call m2 c).1) :
    throughOf bk hks ((hfs bk hks).call m1 c) = throughOf bk hks ((hfs bk hks).call m2 c) := by
  have H := hidKeys_mk hp
  unfold throughOf
  rw [← hres]
  cases hr : ((hfs bk hks).call m1 c).2 with
  | error e => rfl
  | ok ret =>
    cases ret with
    | unit => rfl
    | info i => rfl
    | str t => rfl
    | handle h =>
      simp only
      obtain ⟨x, hx, hvx, hk, hln, hcl⟩ := hidden_handle_facts H hne hbk hw1 hnra hr
      have hns : ∀ o n, c ≠ .symlink o n := by
        intro o n e
        subst e
        exact symlink_no_handle hbk m1 o n h hr
      obtain ⟨w1, w2⟩ := hwf hns
      exact congrArg some (hidden_through_same (hp := hks.map kp) H (.of_wfb w1) (.of_wfb w2) hag hx hvx hk hln hcl)

theorem hidden_call_two (hbk : PKey bk) (hp : ∀ h ∈ hks, PKey h) (hne : hks ≠ []) {m1 m2 : MFS}
    (hR : Rel bk hks m1 m2) (c : Call)
    (hsh : (∃ n, c = .removeAll n) → Shallow bk hks m1 ∧ Shallow bk hks m2) :
    ((hfs bk hks).call m1 c).2 = ((hfs bk hks).call m2 c).2 ∧
    throughOf bk hks ((hfs bk hks).call m1 c) = throughOf bk hks ((hfs bk hks).call m2 c) ∧
    Agr (Vis bk hks) ((hfs bk hks).call m1 c).1 ((hfs bk hks).call m2 c).1 ∧
    SameHP bk hks ((hfs bk hks).call m1 c).1 ((hfs bk hks).call m2 c).1 ∧
    HidSame bk hks m1 ((hfs bk hks).call m1 c).1 ∧ HidSame bk hks m2 ((hfs bk hks).call m2 c).1 ∧
    ((∀ o n, c ≠ .symlink o n) →
      WFB bk ((hfs bk hks).call m1 c).1 ∧ WFB bk ((hfs bk hks).call m2 c).1) := by
  have H := hidKeys_mk hp
  by_cases hra : ∃ n, c = .removeAll n
  · obtain ⟨n, rfl⟩ := hra
    obtain ⟨s1, s2⟩ := hsh ⟨n, rfl⟩
    obtain ⟨e1, e2', e3, e4⟩ := hiddenRemoveAll_two H hne hbk (RelG.of_rel hR) s1 s2 n
    have e2 := e2'.to_rel
    have c1 : (hfs bk hks).call m1 (.removeAll n) =
        liftU (hiddenRemoveAll (HiddenFS.mk (hks.map kp)) (PF bk) 64 m1 (rmName n)) := rfl
    have c2 : (hfs bk hks).call m2 (.removeAll n) =
        liftU (hiddenRemoveAll (HiddenFS.mk (hks.map kp)) (PF bk) 64 m2 (rmName n)) := rfl
    rw [c1, c2]
    refine ⟨by unfold liftU; simp only; rw [e1], ?_, e2.agr, e2.hp, e3, e4, fun _ => ⟨e2.wf1, e2.wf2⟩⟩
    unfold throughOf liftU
    simp only
    rw [← e1]
    cases (hiddenRemoveAll (HiddenFS.mk (hks.map kp)) (PF bk) 64 m1 (rmName n)).2 <;> rfl
  · have hnra : ∀ n, c ≠ .removeAll n := fun n e => hra ⟨n, e⟩
    have g1 := hiddenFS_call_gen (hks.map kp) (prefixFS (kp bk) osfs) m1 c hnra
    have g2 := hiddenFS_call_gen (hks.map kp) (prefixFS (kp bk) osfs) m2 c hnra
    cases htr : translate (HiddenFS.mk (hks.map kp)) c with
    | error e =>
      rw [htr] at g1 g2
      simp only at g1 g2
      have g1' : (hfs bk hks).call m1 c = (m1, .error e) := g1
      have g2' : (hfs bk hks).call m2 c = (m2, .error e) := g2
      rw [g1', g2']
      exact ⟨rfl, rfl, hR.agr, hR.hp, HidSame.refl _, HidSame.refl _, fun _ => ⟨hR.wf1, hR.wf2⟩⟩
    | ok c1 =>
      rw [htr] at g1 g2
      simp only at g1 g2
      have g1' : (hfs bk hks).call m1 c = (((prefixFS (kp bk) osfs).call m1 c1).1,
          ((prefixFS (kp bk) osfs).call m1 c1).2.map (hiddenPost c c1)) := g1
      have g2' : (hfs bk hks).call m2 c = (((prefixFS (kp bk) osfs).call m2 c1).1,
          ((prefixFS (kp bk) osfs).call m2 c1).2.map (hiddenPost c c1)) := g2
      obtain ⟨hvis, hanc, hnr⟩ := translate_ok_visible htr
      obtain ⟨e1, e2, e3, e4, e5⟩ := visible_call_same H hne hbk hR c1 hvis hanc (hnr hnra)
      have hres : ((hfs bk hks).call m1 c).2 = ((hfs bk hks).call m2 c).2 := by
        rw [g1', g2']; simp only; rw [e1]
      have hag : Agr (Vis bk hks) ((hfs bk hks).call m1 c).1 ((hfs bk hks).call m2 c).1 := by
        rw [g1', g2']; exact e2
      have hwf : (∀ o n, c ≠ .symlink o n) →
          WFB bk ((hfs bk hks).call m1 c).1 ∧ WFB bk ((hfs bk hks).call m2 c).1 := by
        intro hns
        rw [g1', g2']
        exact ⟨prefix_call_wf hR.wf1 hbk c1 (translate_symlink htr hns) (hnr hnra),
          prefix_call_wf hR.wf2 hbk c1 (translate_symlink htr hns) (hnr hnra)⟩
      exact ⟨hres, through_two hbk hp hne hR.wf1 hnra hres hag hwf, hag, by rw [g1', g2']; exact e3,
        by rw [g1']; exact e4, by rw [g2']; exact e5, hwf⟩

/-- without the presence relation: every method, `Remove` only of names that are not the directory of a
hidden path -/
theorem hidden_call_two_nopres (hbk : PKey bk) (hp : ∀ h ∈ hks, PKey h) (hne : hks ≠ []) {m1 m2 : MFS}
    (hw1 : WFB bk m1) (hw2 : WFB bk m2) (ha : Agr (Vis bk hks) m1 m2) (c : Call)
    (hsh : (∃ n, c = .removeAll n) → Shallow bk hks m1 ∧ Shallow bk hks m2)
    (hnp : ∀ n, c = .remove n → ∀ h ∈ hks, h ≠ [] → clean n ≠ kp h.dropLast) :
    ((hfs bk hks).call m1 c).2 = ((hfs bk hks).call m2 c).2 ∧
    throughOf bk hks ((hfs bk hks).call m1 c) = throughOf bk hks ((hfs bk hks).call m2 c) ∧
    Agr (Vis bk hks) ((hfs bk hks).call m1 c).1 ((hfs bk hks).call m2 c).1 ∧
    HidSame bk hks m1 ((hfs bk hks).call m1 c).1 ∧ HidSame bk hks m2 ((hfs bk hks).call m2 c).1 ∧
    ((∀ o n, c ≠ .symlink o n) →
      WFB bk ((hfs bk hks).call m1 c).1 ∧ WFB bk ((hfs bk hks).call m2 c).1) := by
  have H := hidKeys_mk hp
  by_cases hra : ∃ n, c = .removeAll n
  · obtain ⟨n, rfl⟩ := hra
    obtain ⟨s1, s2⟩ := hsh ⟨n, rfl⟩
    have hR : RelG False bk hks m1 m2 := ⟨hw1, hw2, ha, fun q => q.elim⟩
    obtain ⟨e1, e2, e3, e4⟩ := hiddenRemoveAll_two H hne hbk hR s1 s2 n
    have c1 : (hfs bk hks).call m1 (.removeAll n) =
        liftU (hiddenRemoveAll (HiddenFS.mk (hks.map kp)) (PF bk) 64 m1 (rmName n)) := rfl
    have c2 : (hfs bk hks).call m2 (.removeAll n) =
        liftU (hiddenRemoveAll (HiddenFS.mk (hks.map kp)) (PF bk) 64 m2 (rmName n)) := rfl
    rw [c1, c2]
    refine ⟨by unfold liftU; simp only; rw [e1], ?_, e2.agr, e3, e4, fun _ => ⟨e2.wf1, e2.wf2⟩⟩
    unfold throughOf liftU
    simp only
    rw [← e1]
    cases (hiddenRemoveAll (HiddenFS.mk (hks.map kp)) (PF bk) 64 m1 (rmName n)).2 <;> rfl
  have hnra : ∀ n, c ≠ .removeAll n := fun n e => hra ⟨n, e⟩
  have g1 := hiddenFS_call_gen (hks.map kp) (prefixFS (kp bk) osfs) m1 c hnra
  have g2 := hiddenFS_call_gen (hks.map kp) (prefixFS (kp bk) osfs) m2 c hnra
  cases htr : translate (HiddenFS.mk (hks.map kp)) c with
  | error e =>
    rw [htr] at g1 g2
    simp only at g1 g2
    have g1' : (hfs bk hks).call m1 c = (m1, .error e) := g1
    have g2' : (hfs bk hks).call m2 c = (m2, .error e) := g2
    rw [g1', g2']
    exact ⟨rfl, rfl, ha, HidSame.refl _, HidSame.refl _, fun _ => ⟨hw1, hw2⟩⟩
  | ok c1 =>
    rw [htr] at g1 g2
    simp only at g1 g2
    have g1' : (hfs bk hks).call m1 c = (((prefixFS (kp bk) osfs).call m1 c1).1,
        ((prefixFS (kp bk) osfs).call m1 c1).2.map (hiddenPost c c1)) := g1
    have g2' : (hfs bk hks).call m2 c = (((prefixFS (kp bk) osfs).call m2 c1).1,
        ((prefixFS (kp bk) osfs).call m2 c1).2.map (hiddenPost c c1)) := g2
    obtain ⟨hvis, hanc, hnr⟩ := translate_ok_visible htr
    have hnp1 : ∀ n, c1 = .remove n → ∀ h ∈ hks, h ≠ [] → clean n ≠ kp h.dropLast :=
      fun n e => hnp n (translate_remove_inv htr e)
    obtain ⟨e1, e2, e4, e5⟩ := visible_call_same_gen H hne hbk hw1 hw2 ha c1 hvis hanc (hnr hnra)
      (removeOK_nopar H hne hbk hw1 hw2 ha hvis hnp1)
    have hres : ((hfs bk hks).call m1 c).2 = ((hfs bk hks).call m2 c).2 := by
      rw [g1', g2']; simp only; rw [e1]
    have hag : Agr (Vis bk hks) ((hfs bk hks).call m1 c).1 ((hfs bk hks).call m2 c).1 := by
      rw [g1', g2']; exact e2
    have hwf : (∀ o n, c ≠ .symlink o n) →
        WFB bk ((hfs bk hks).call m1 c).1 ∧ WFB bk ((hfs bk hks).call m2 c).1 := by
      intro hns
      rw [g1', g2']
      exact ⟨prefix_call_wf hw1 hbk c1 (translate_symlink htr hns) (hnr hnra),
        prefix_call_wf hw2 hbk c1 (translate_symlink htr hns) (hnr hnra)⟩
    exact ⟨hres, through_two hbk hp hne hw1 hnra hres hag hwf, hag, by rw [g1']; exact e4,
      by rw [g2']; exact e5, hwf⟩

/-- a handle kept for later: it names a visible key, and whatever is read through it at any later time
— on any two well-formed disks that then agree on the visible keys — is the same -/
theorem hidden_handle_reads_two (hbk : PKey bk) (hp : ∀ h ∈ hks, PKey h) (hne : hks ≠ []) {m : MFS}
    (hw : WFB bk m) {c : Call} {h : Handle} (hr : ((hfs bk hks).call m c).2 = .ok (.handle h)) :
    (∃ x, PKey x ∧ ¬ HidK hks x ∧ h.key = bk ++ x) ∧
    ∀ (m1 m2 : MFS), WFB bk m1 → WFB bk m2 → Agr (Vis bk hks) m1 m2 →
      ((hfs bk hks).hread m1 h, (hfs bk hks).hstat m1 h, (hfs bk hks).hreaddirnames m1 h) =
        ((hfs bk hks).hread m2 h, (hfs bk hks).hstat m2 h, (hfs bk hks).hreaddirnames m2 h) := by
  have H := hidKeys_mk hp
  have hnra : ∀ n, c ≠ .removeAll n := by
    intro n e
    subst e
    have c1 : (hfs bk hks).call m (.removeAll n) =
        liftU (hiddenRemoveAll (HiddenFS.mk (hks.map kp)) (PF bk) 64 m (rmName n)) := rfl
    rw [c1] at hr
    exact liftU_not_handle _ _ hr
  obtain ⟨x, hx, hvx, hk, hln, hcl⟩ := hidden_handle_facts H hne hbk hw hnra hr
  exact ⟨⟨x, hx, hvx, hk⟩, fun m1 m2 w1 w2 hag => hidden_through_same (hp := hks.map kp) H (.of_wfb w1) (.of_wfb w2) hag hx hvx hk hln hcl⟩

end
end HO
end BFS
