import Lemmas.Clean
/-! `iterateDirTree` on a cleaned path enumerates exactly its ancestor chain. -/
namespace BFS

theorem iterAux_single (pre : Path) (r : Char) : iterAux pre [r] = [pre ++ [r]] := by
  simp [iterAux]

theorem iterAux_sep {pre rest : Path} (h : rest ≠ []) :
    iterAux pre ('/' :: rest) = (if pre = [] then ['/'] else pre) :: iterAux (pre ++ ['/']) rest := by
  cases rest with
  | nil => exact absurd rfl h
  | cons r2 rs => simp [iterAux]

theorem iterAux_nonsep {pre rest : Path} {c : Char} (hc : c ≠ '/') (h : rest ≠ []) :
    iterAux pre (c :: rest) = iterAux (pre ++ [c]) rest := by
  cases rest with
  | nil => exact absurd rfl h
  | cons r2 rs => simp [iterAux, hc]

theorem iterAux_append_sepfree : ∀ (n pre rest : Path), '/' ∉ n → rest ≠ [] →
    iterAux pre (n ++ rest) = iterAux (pre ++ n) rest
  | [], pre, rest, _, _ => by simp
  | c :: n', pre, rest, hn, hr => by
    have hc : c ≠ '/' := by intro e; apply hn; simp [e]
    have hn' : '/' ∉ n' := by intro e; apply hn; simp [e]
    have hne : n' ++ rest ≠ [] := by simp [hr]
    rw [List.cons_append, iterAux_nonsep hc hne, iterAux_append_sepfree n' _ rest hn' hr]
    simp

theorem iterAux_name : ∀ (n pre : Path), n ≠ [] → '/' ∉ n → iterAux pre n = [pre ++ n]
  | [], _, h, _ => absurd rfl h
  | [c], pre, _, _ => iterAux_single pre c
  | c :: c2 :: cs, pre, _, hn => by
    have hc : c ≠ '/' := by intro e; apply hn; simp [e]
    have hn' : '/' ∉ (c2 :: cs) := by intro e; apply hn; exact List.mem_cons_of_mem _ e
    rw [iterAux_nonsep hc (by simp), iterAux_name (c2 :: cs) _ (by simp) hn']
    simp

theorem joinSep_cons_cons (n n2 : Name) (ns : List Name) :
    joinSep (n :: n2 :: ns) = n ++ '/' :: joinSep (n2 :: ns) := rfl

theorem joinSep_ne_nil {ns : List Name} (hne : ns ≠ []) (h : ∀ n ∈ ns, NameOK n) : joinSep ns ≠ [] := by
  cases ns with
  | nil => exact absurd rfl hne
  | cons n rest =>
    have hn := (h n (by simp)).1
    cases rest with
    | nil => simpa [joinSep] using hn
    | cons n2 r => rw [joinSep_cons_cons]; simp

theorem inits1_ne_nil {α} : ∀ {l : List α} {x : List α}, x ∈ inits1 l → x ≠ []
  | [], x, h => by simp [inits1] at h
  | a :: as, x, h => by
    simp only [inits1, List.mem_cons, List.mem_map] at h
    rcases h with rfl | ⟨y, _, rfl⟩ <;> simp

theorem joinSep_cons_of_ne_nil (n : Name) {l : List Name} (h : l ≠ []) :
    joinSep (n :: l) = n ++ '/' :: joinSep l := by
  cases l with
  | nil => exact absurd rfl h
  | cons a as => rfl

theorem iterAux_joinSep : ∀ (ns : List Name) (pre : Path), ns ≠ [] → (∀ n ∈ ns, NameOK n) →
    iterAux pre (joinSep ns) = (inits1 ns).map (fun l => pre ++ joinSep l)
  | [], _, h, _ => absurd rfl h
  | [n], pre, _, hok => by
    have := hok n (by simp)
    simp [joinSep, inits1, iterAux_name n pre this.1 this.2]
  | n :: n2 :: ns', pre, _, hok => by
    have hn := hok n (by simp)
    have hrest : ∀ m ∈ n2 :: ns', NameOK m := fun m hm => hok m (List.mem_cons_of_mem _ hm)
    have hj : joinSep (n2 :: ns') ≠ [] := joinSep_ne_nil (by simp) hrest
    rw [joinSep_cons_cons, iterAux_append_sepfree n pre _ hn.2 (by simp), iterAux_sep hj,
      iterAux_joinSep (n2 :: ns') _ (by simp) hrest]
    have hpn : pre ++ n ≠ [] := by simp [hn.1]
    simp only [hpn, if_false]
    conv => rhs; rw [inits1]
    simp only [List.map_cons, List.map_map]
    congr 1
    simp only [List.map_inj_left, Function.comp]
    intro l hl
    rw [joinSep_cons_of_ne_nil n (inits1_ne_nil hl)]
    simp

theorem splitSep_sepfree_eq : ∀ (n : Name), '/' ∉ n → splitSep n = [n]
  | [], _ => rfl
  | c :: n', hn => by
    have hc : c ≠ '/' := by intro e; apply hn; simp [e]
    have hn' : '/' ∉ n' := by intro e; apply hn; simp [e]
    simp [splitSep, hc, splitSep_sepfree_eq n' hn']

theorem splitSep_append_sep : ∀ (n rest : Path), '/' ∉ n →
    splitSep (n ++ '/' :: rest) = n :: splitSep rest
  | [], rest, _ => by simp [splitSep]
  | c :: n', rest, hn => by
    have hc : c ≠ '/' := by intro e; apply hn; simp [e]
    have hn' : '/' ∉ n' := by intro e; apply hn; simp [e]
    simp [splitSep, hc, splitSep_append_sep n' rest hn']

theorem splitSep_joinSep : ∀ (ns : List Name), ns ≠ [] → (∀ n ∈ ns, NameOK n) →
    splitSep (joinSep ns) = ns
  | [], h, _ => absurd rfl h
  | [n], _, hok => by simpa [joinSep] using splitSep_sepfree_eq n (hok n (by simp)).2
  | n :: n2 :: ns', _, hok => by
    have hn := hok n (by simp)
    have hrest : ∀ m ∈ n2 :: ns', NameOK m := fun m hm => hok m (List.mem_cons_of_mem _ hm)
    rw [joinSep_cons_cons, splitSep_append_sep n _ hn.2, splitSep_joinSep (n2 :: ns') (by simp) hrest]

theorem filter_nameOK {ns : List Name} (hok : ∀ n ∈ ns, NameOK n) :
    ns.filter (· ≠ []) = ns := by
  apply List.filter_eq_self.mpr
  intro n hn
  simpa using (hok n hn).1

/-- the component list of a rendered normal-form path is the list it was rendered from,
except that the empty unrooted path renders as `"."`. -/
theorem comps_render_rooted {cs : List Name} (hok : ∀ n ∈ cs, NameOK n) :
    comps ('/' :: joinSep cs) = cs := by
  unfold comps
  cases cs with
  | nil => simp [joinSep, splitSep]
  | cons n ns =>
    have : splitSep ('/' :: joinSep (n :: ns)) = [] :: splitSep (joinSep (n :: ns)) := by
      simp [splitSep]
    rw [this, splitSep_joinSep _ (by simp) hok]
    have := filter_nameOK hok
    simp only [List.filter_cons] at this ⊢
    simpa using this

theorem comps_joinSep {cs : List Name} (hne : cs ≠ []) (hok : ∀ n ∈ cs, NameOK n) :
    comps (joinSep cs) = cs := by
  unfold comps
  rw [splitSep_joinSep _ hne hok, filter_nameOK hok]

theorem isRooted_joinSep {cs : List Name} (hok : ∀ n ∈ cs, NameOK n) : isRooted (joinSep cs) = false := by
  cases cs with
  | nil => rfl
  | cons n ns =>
    have hn := hok n (by simp)
    cases n with
    | nil => exact absurd rfl hn.1
    | cons c n' =>
      have hc : c ≠ '/' := by intro e; apply hn.2; simp [e]
      cases ns with
      | nil => simp [joinSep, isRooted, hc]
      | cons n2 r => simp [joinSep, isRooted, hc]

/-- T19.5 on rendered normal forms. -/
theorem iterateDirTree_render {c : CPath} (hnf : c.NF) :
    iterateDirTree c.render = chain c.render := by
  unfold CPath.NF at hnf
  unfold CPath.render
  by_cases hr : c.rooted = true
  · simp only [hr, if_true]
    unfold chain iterateDirTree
    rw [comps_render_rooted hnf]
    simp only [isRooted, decide_true, if_true]
    by_cases hcs : c.comps = []
    · simp [hcs, joinSep, iterAux, inits1, rootP]
    · have hj := joinSep_ne_nil hcs hnf
      rw [iterAux_sep hj, iterAux_joinSep _ _ hcs hnf]
      simp [rootP]
  · have hr' : c.rooted = false := by simpa using hr
    simp only [hr']
    by_cases hcs : c.comps = []
    · simp only [hcs]
      decide
    · simp only [hcs, if_false, Bool.false_eq_true]
      unfold chain iterateDirTree
      rw [isRooted_joinSep hnf, comps_joinSep hcs hnf, iterAux_joinSep _ _ hcs hnf]
      simp

theorem iterateDirTree_clean {p : Path} (h : IsClean p) : iterateDirTree p = chain p := by
  unfold IsClean clean at h
  have := iterateDirTree_render (cleanC_NF p)
  rw [h] at this
  exact this

end BFS
