import Lemmas.Order
/-! `sortBy` returns the unique sorted permutation (for a strict total order). -/
namespace BFS

structure StrictTotal (lt : Path → Path → Bool) : Prop where
  irrefl : ∀ a, lt a a = false
  trans : ∀ {a b c}, lt a b = true → lt b c = true → lt a c = true
  total : ∀ {a b}, a ≠ b → lt a b = true ∨ lt b a = true

theorem strictTotal_lessFPS : StrictTotal lessFPS :=
  ⟨lessFPS_irrefl, lessFPS_trans, lessFPS_total⟩

theorem strictTotal_flip {lt} (h : StrictTotal lt) : StrictTotal (fun a b => lt b a) :=
  ⟨h.irrefl, fun h1 h2 => h.trans h2 h1, fun hne => (h.total hne).symm⟩

theorem strictTotal_strLt : StrictTotal strLt :=
  ⟨strLt_irrefl, strLt_trans, strLt_total⟩

/-- "not after": `a` may stand before `b` in a sorted list -/
def leOf (lt : Path → Path → Bool) (a b : Path) : Prop := lt b a = false

theorem leOf_trans {lt} (h : StrictTotal lt) {a b c : Path}
    (h1 : leOf lt a b) (h2 : leOf lt b c) : leOf lt a c := by
  unfold leOf at *
  cases hca : lt c a with
  | false => rfl
  | true =>
    by_cases hab : a = b
    · subst hab; rw [hca] at h2; cases h2
    · rcases h.total hab with hlt | hlt
      · have := h.trans hca hlt
        rw [this] at h2; cases h2
      · rw [hlt] at h1; cases h1

theorem leOf_antisymm {lt} (h : StrictTotal lt) {a b : Path}
    (h1 : leOf lt a b) (h2 : leOf lt b a) : a = b := by
  unfold leOf at *
  by_cases hab : a = b
  · exact hab
  · rcases h.total hab with hlt | hlt
    · rw [hlt] at h2; cases h2
    · rw [hlt] at h1; cases h1

theorem leOf_of_lt {lt} (h : StrictTotal lt) {a b : Path} (hlt : lt a b = true) : leOf lt a b := by
  unfold leOf
  cases hba : lt b a with
  | false => rfl
  | true => have := h.trans hlt hba; rw [h.irrefl] at this; cases this

theorem mem_insertBy {lt x y} : ∀ {l : List Path}, y ∈ insertBy lt x l ↔ y = x ∨ y ∈ l
  | [] => by simp [insertBy]
  | z :: zs => by
    simp only [insertBy]
    split
    · simp [mem_insertBy (l := zs)]
      constructor
      · rintro (h | h | h) <;> simp [h]
      · rintro (h | h | h) <;> simp [h]
    · simp

theorem insertBy_perm (lt x) : ∀ l : List Path, (insertBy lt x l).Perm (x :: l)
  | [] => by simp [insertBy]
  | y :: ys => by
    simp only [insertBy]
    split
    · exact ((insertBy_perm lt x ys).cons y).trans (List.Perm.swap x y ys)
    · exact List.Perm.refl _

theorem sortBy_perm (lt) : ∀ l : List Path, (sortBy lt l).Perm l
  | [] => by simp [sortBy]
  | x :: xs => by
    simp only [sortBy]
    exact (insertBy_perm lt x _).trans ((sortBy_perm lt xs).cons x)

theorem insertBy_pairwise {lt} (h : StrictTotal lt) (x) :
    ∀ {l : List Path}, l.Pairwise (leOf lt) → (insertBy lt x l).Pairwise (leOf lt)
  | [], _ => by simp [insertBy]
  | y :: ys, hp => by
    simp only [insertBy]
    have hp' := List.pairwise_cons.mp hp
    split
    · rename_i hyx
      apply List.pairwise_cons.mpr
      refine ⟨?_, insertBy_pairwise h x hp'.2⟩
      intro z hz
      rcases mem_insertBy.mp hz with rfl | hz
      · exact leOf_of_lt h hyx
      · exact hp'.1 z hz
    · rename_i hyx
      have hxy : leOf lt x y := by
        unfold leOf; simpa using hyx
      apply List.pairwise_cons.mpr
      refine ⟨?_, hp⟩
      intro z hz
      rcases List.mem_cons.mp hz with rfl | hz
      · exact hxy
      · exact leOf_trans h hxy (hp'.1 z hz)

theorem sortBy_pairwise {lt} (h : StrictTotal lt) : ∀ l : List Path, (sortBy lt l).Pairwise (leOf lt)
  | [] => by simp [sortBy]
  | x :: xs => by
    simp only [sortBy]
    exact insertBy_pairwise h x (sortBy_pairwise h xs)

/-- Any sorted permutation of `l` is `sortBy lt l`: the sorting algorithm does not matter. -/
theorem sorted_perm_unique {lt} (h : StrictTotal lt) {l l' : List Path}
    (hperm : l'.Perm l) (hsorted : l'.Pairwise (leOf lt)) : l' = sortBy lt l :=
  List.Perm.eq_of_pairwise (fun _ _ _ _ h1 h2 => leOf_antisymm h h1 h2) hsorted
    (sortBy_pairwise h l) (hperm.trans (sortBy_perm lt l).symm)

theorem sortBy_perm_invariant {lt} (h : StrictTotal lt) {l₁ l₂ : List Path} (hp : l₁.Perm l₂) :
    sortBy lt l₁ = sortBy lt l₂ :=
  sorted_perm_unique h ((sortBy_perm lt l₁).trans hp) (sortBy_pairwise h l₁)

/-- for duplicate-free input the result is strictly sorted -/
theorem sortBy_pairwise_strict {lt} (h : StrictTotal lt) {l : List Path} (hnd : l.Nodup) :
    (sortBy lt l).Pairwise (fun a b => lt a b = true) := by
  have hp := sortBy_pairwise h l
  have hnd' : (sortBy lt l).Nodup := (sortBy_perm lt l).symm.nodup hnd
  have := hp.and hnd'
  refine this.imp ?_
  intro a b ⟨hle, hne⟩
  rcases h.total hne with hlt | hlt
  · exact hlt
  · unfold leOf at hle; rw [hlt] at hle; cases hle

end BFS
