import Lemmas.SimOSBase
/-!
  Lemmas/SimOSPrefix.lean — what the `PrefixFS` layer rooted at `kp b` does to a call whose path
  arguments are `kp k`: the same call at `kp (b ++ k)`; results keep everything but names.
-/
namespace BFS
open PrefixFS

theorem canon_kp {k : Key} (hk : PKey k) : CPath.Canon { rooted := true, comps := k } := by
  refine ⟨fun n hn => ⟨⟨(hk n hn).1, (hk n hn).2.1⟩, (hk n hn).2.2.1⟩, ?_, fun _ hm => (hk _ hm).2.2.2 rfl⟩
  unfold DDLeading
  apply List.Pairwise.imp_of_mem (R := fun _ _ => True)
  · intro a b _ hb _ _ e
    exact (hk b hb).2.2.2 e
  · simp [List.pairwise_iff_forall_sublist]

theorem render_kp (k : Key) : CPath.render { rooted := true, comps := k } = kp k := by
  simp [CPath.render, kp]

theorem oscleanC_kp {k : Key} (hk : PKey k) : cleanC (kp k) = { rooted := true, comps := k } := by
  rw [← render_kp k]
  exact cleanC_render (canon_kp hk)

theorem osclean_kp {k : Key} (hk : PKey k) : clean (kp k) = kp k := by
  unfold clean
  rw [oscleanC_kp hk, render_kp]

theorem mk_kp {k : Key} (hk : PKey k) : PrefixFS.mk (kp k) = kp k := osclean_kp hk

theorem staysInside_kp (k : Key) : StaysInside (kp k) := staysInside_of_abs (isRooted_kp k)

theorem osjoin_kp {b k : Key} (hb : PKey b) (hk : PKey k) : join (kp b) (clean (kp k)) = kp (b ++ k) := by
  have h1 := cleanC_join_clean (kp_ne_nil b) (staysInside_kp k)
  rw [oscleanC_kp hb, oscleanC_kp hk, isRooted_kp] at h1
  have h2 := join_clean_is_clean (kp b) (clean (kp k)) (kp_ne_nil b)
  rw [← h2]
  show (cleanC (join (kp b) (clean (kp k)))).render = _
  rw [h1]
  exact render_kp (b ++ k)

theorem prefixPath_kp {b k : Key} (hb : PKey b) (hk : PKey k) :
    prefixPath (kp b) (kp k) = .ok (kp (b ++ k)) := by
  rw [prefixPath_staysInside (kp_ne_nil b) (staysInside_kp k), osjoin_kp hb hk]

/-! ### the translated calls -/

section
variable {b k : Key} (hb : PKey b) (hk : PKey k)
include hb hk

theorem tr_lstat : translate (kp b) (.lstat (kp k)) = .ok (.lstat (kp (b ++ k))) := by
  simp only [translate, prefixPath_kp hb hk, bind, Except.bind, pure, Except.pure]
theorem tr_open : translate (kp b) (.open_ (kp k)) = .ok (.open_ (kp (b ++ k))) := by
  simp only [translate, prefixPath_kp hb hk, bind, Except.bind, pure, Except.pure]
theorem tr_create : translate (kp b) (.create (kp k)) = .ok (.create (kp (b ++ k))) := by
  simp only [translate, prefixPath_kp hb hk, bind, Except.bind, pure, Except.pure]
theorem tr_openFile (fl p : Nat) : translate (kp b) (.openFile (kp k) fl p) = .ok (.openFile (kp (b ++ k)) fl p) := by
  simp only [translate, prefixPath_kp hb hk, bind, Except.bind, pure, Except.pure]
theorem tr_mkdir (p : Nat) : translate (kp b) (.mkdir (kp k) p) = .ok (.mkdir (kp (b ++ k)) p) := by
  simp only [translate, prefixPath_kp hb hk, bind, Except.bind, pure, Except.pure]
theorem tr_mkdirAll (p : Nat) : translate (kp b) (.mkdirAll (kp k) p) = .ok (.mkdirAll (kp (b ++ k)) p) := by
  simp only [translate, prefixPath_kp hb hk, bind, Except.bind, pure, Except.pure]
theorem tr_remove : translate (kp b) (.remove (kp k)) = .ok (.remove (kp (b ++ k))) := by
  simp only [translate, prefixPath_kp hb hk, bind, Except.bind, pure, Except.pure]
theorem tr_removeAll : translate (kp b) (.removeAll (kp k)) = .ok (.removeAll (kp (b ++ k))) := by
  simp only [translate, prefixPath_kp hb hk, bind, Except.bind, pure, Except.pure]
theorem tr_chmod (md : Nat) : translate (kp b) (.chmod (kp k) md) = .ok (.chmod (kp (b ++ k)) md) := by
  simp only [translate, prefixPath_kp hb hk, bind, Except.bind, pure, Except.pure]
theorem tr_chown (u g : Int) : translate (kp b) (.chown (kp k) u g) = .ok (.chown (kp (b ++ k)) u g) := by
  simp only [translate, prefixPath_kp hb hk, bind, Except.bind, pure, Except.pure]
theorem tr_lchown (u g : Int) : translate (kp b) (.lchown (kp k) u g) = .ok (.lchown (kp (b ++ k)) u g) := by
  simp only [translate, prefixPath_kp hb hk, bind, Except.bind, pure, Except.pure]
theorem tr_chtimes (a t : Time) : translate (kp b) (.chtimes (kp k) a t) = .ok (.chtimes (kp (b ++ k)) a t) := by
  simp only [translate, prefixPath_kp hb hk, bind, Except.bind, pure, Except.pure]
theorem tr_rename {k2 : Key} (hk2 : PKey k2) :
    translate (kp b) (.rename (kp k) (kp k2)) = .ok (.rename (kp (b ++ k)) (kp (b ++ k2))) := by
  simp only [translate, prefixPath_kp hb hk, prefixPath_kp hb hk2, bind, Except.bind, pure, Except.pure]
end

/-! ### the layer -/

theorem side_eq (bk kk : Key) (s : Side) : (osCfg bk kk).side s = prefixFS (kp (osRoot bk kk s)) osfs := by
  cases s <;> rfl

theorem side_hread (bk kk : Key) (s : Side) : ((osCfg bk kk).side s).hread = MFS.hread := by cases s <;> rfl
theorem side_hwrite (bk kk : Key) (s : Side) : ((osCfg bk kk).side s).hwrite = MFS.hwrite := by cases s <;> rfl
theorem side_hstat (bk kk : Key) (s : Side) : ((osCfg bk kk).side s).hstat = MFS.hstat := by cases s <;> rfl
theorem side_hreaddirnames (bk kk : Key) (s : Side) :
    ((osCfg bk kk).side s).hreaddirnames = MFS.hreaddirnames := by cases s <;> rfl

theorem prefixFS_call (pre : Path) (m : MFS) (c : Call) :
    (prefixFS pre osfs).call m c =
      (match translate (PrefixFS.mk pre) c with
       | .error e => (m, .error e)
       | .ok c' => ((osCall m c').1, (osCall m c').2.map (prefixPost (PrefixFS.mk pre) c c'))) := rfl

theorem side_call {bk kk : Key} (hr : Roots bk kk) (s : Side) (m : MFS) {c c' : Call}
    (h : translate (kp (osRoot bk kk s)) c = .ok c') :
    ((osCfg bk kk).side s).call m c =
      ((osCall m c').1, (osCall m c').2.map (prefixPost (kp (osRoot bk kk s)) c c')) := by
  rw [side_eq, prefixFS_call, mk_kp (hr.pkey s), h]

/-- for arbitrary arguments: the layer refuses or forwards one translated call -/
theorem side_call_cases {bk kk : Key} (hr : Roots bk kk) (s : Side) (m : MFS) (c : Call) :
    (∃ e, ((osCfg bk kk).side s).call m c = (m, .error e)) ∨
    (∃ c', translate (kp (osRoot bk kk s)) c = .ok c' ∧
      ((osCfg bk kk).side s).call m c =
        ((osCall m c').1, (osCall m c').2.map (prefixPost (kp (osRoot bk kk s)) c c'))) := by
  cases h : translate (kp (osRoot bk kk s)) c with
  | error e =>
    left
    refine ⟨e, ?_⟩
    rw [side_eq, prefixFS_call, mk_kp (hr.pkey s), h]
  | ok c' => exact Or.inr ⟨c', rfl, side_call hr s m h⟩

theorem post_unit (pre : Path) (c c' : Call) : prefixPost pre c c' .unit = .unit := by
  cases c <;> rfl

theorem post_handle (pre : Path) (c c' : Call) (h : Handle) :
    prefixPost pre c c' (.handle h) = .handle { h with name := PrefixFS.reportedName pre c'.primaryPath h.name } := by
  cases c <;> rfl

theorem post_lstat_info (pre : Path) (p : Path) (c' : Call) (i : Info) :
    prefixPost pre (.lstat p) c' (.info i) = .info { i with name := PrefixFS.reportedInfoName pre c'.primaryPath i.name } := rfl

theorem map_post_unit (pre : Path) (c c' : Call) (r : Except Err Unit) :
    (r.map (fun _ => Ret.unit)).map (prefixPost pre c c') = r.map (fun _ => Ret.unit) := by
  cases r with
  | error e => rfl
  | ok u => simp only [Except.map, post_unit]

/-- calls returning no value -/
theorem side_call_unit {bk kk : Key} (hr : Roots bk kk) (s : Side) (m : MFS) {c c' : Call}
    (h : translate (kp (osRoot bk kk s)) c = .ok c') {x : MFS × Except Err Unit} (hx : osCall m c' = liftU x) :
    ((osCfg bk kk).side s).call m c = (x.1, x.2.map (fun _ => Ret.unit)) := by
  rw [side_call hr s m h, hx]
  simp only [liftU, map_post_unit]

theorem map_unit_ok {r : Except Err Unit} (h : r.map (fun _ => Ret.unit) = .ok .unit) : r = .ok () := by
  cases r with
  | error e => cases h
  | ok u => rfl

/-- calls returning a handle -/
theorem side_call_handle {bk kk : Key} (hr : Roots bk kk) (s : Side) (m : MFS) {c c' : Call}
    (h : translate (kp (osRoot bk kk s)) c = .ok c') {x : MFS × Except Err Handle}
    (hx : osCall m c' = (x.1, x.2.map Ret.handle)) :
    ((osCfg bk kk).side s).call m c =
      (x.1, x.2.map (fun hd => Ret.handle { hd with name := PrefixFS.reportedName (kp (osRoot bk kk s)) c'.primaryPath hd.name })) := by
  rw [side_call hr s m h, hx]
  cases x.2 with
  | error e => rfl
  | ok hd => simp only [Except.map, post_handle]

end BFS
