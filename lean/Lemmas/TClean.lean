import Lemmas.TRel4
/-!
  Lemmas/TClean.lean — the base filesystem (a `PrefixFS`) treats a name and its cleaned form alike:
  a call with the caller's spelling `name` is the call with `kp k` when `clean name = kp k`.
-/
namespace BFS
open MFS PrefixFS

section
variable {bk kk : Key}

theorem prefixPath_spelling (pre : Path) {name : Path} {k : Key} (hk : PKey k) (hname : clean name = kp k) :
    prefixPath pre name = prefixPath pre (kp k) := by
  unfold prefixPath
  rw [hname, clean_kp hk]

/-- the post-processing of `PrefixFS` looks only at the method, not at the name -/
def SameMethod : Call → Call → Prop
  | .create _, .create _ | .mkdir _ _, .mkdir _ _ | .mkdirAll _ _, .mkdirAll _ _ | .open_ _, .open_ _
  | .openFile _ _ _, .openFile _ _ _ | .remove _, .remove _ | .removeAll _, .removeAll _
  | .rename _ _, .rename _ _ | .stat _, .stat _ | .chmod _ _, .chmod _ _ | .chown _ _ _, .chown _ _ _
  | .chtimes _ _ _, .chtimes _ _ _ | .lstat _, .lstat _ | .symlink _ _, .symlink _ _
  | .readlink _, .readlink _ | .lchown _ _ _, .lchown _ _ _ => True
  | _, _ => False

theorem prefixPost_sameMethod (pre : Path) {c1 c2 : Call} (h : SameMethod c1 c2) (c' : Call) (r : Ret) :
    prefixPost pre c1 c' r = prefixPost pre c2 c' r := by
  cases c1 <;> cases c2 <;> first | exact absurd h id | (cases r <;> rfl)

/-- two calls that translate alike and are the same method are the same call on a `PrefixFS` -/
theorem prefixFS_call_congr (pre : Path) (m : MFS) {c1 c2 : Call} (hs : SameMethod c1 c2)
    (ht : translate (PrefixFS.mk pre) c1 = translate (PrefixFS.mk pre) c2) :
    (prefixFS pre osfs).call m c1 = (prefixFS pre osfs).call m c2 := by
  rw [prefixFS_call, prefixFS_call, ht]
  cases translate (PrefixFS.mk pre) c2 with
  | error e => rfl
  | ok c' =>
    simp only
    congr 1
    cases (osCall m c').2 with
    | error e => rfl
    | ok r => simp only [Except.map, prefixPost_sameMethod _ hs]

/-- every single-path call: the spelling of the name does not matter -/
theorem base_call_spelling (m : MFS) {name : Path} {k : Key} (hk : PKey k) (hname : clean name = kp k) :
    (baseFS bk kk).call m (.create name) = (baseFS bk kk).call m (.create (kp k)) ∧
    (∀ p, (baseFS bk kk).call m (.mkdir name p) = (baseFS bk kk).call m (.mkdir (kp k) p)) ∧
    (∀ p, (baseFS bk kk).call m (.mkdirAll name p) = (baseFS bk kk).call m (.mkdirAll (kp k) p)) ∧
    (∀ f p, (baseFS bk kk).call m (.openFile name f p) = (baseFS bk kk).call m (.openFile (kp k) f p)) ∧
    (baseFS bk kk).call m (.remove name) = (baseFS bk kk).call m (.remove (kp k)) ∧
    (baseFS bk kk).call m (.removeAll name) = (baseFS bk kk).call m (.removeAll (kp k)) ∧
    (∀ md, (baseFS bk kk).call m (.chmod name md) = (baseFS bk kk).call m (.chmod (kp k) md)) ∧
    (∀ u g, (baseFS bk kk).call m (.chown name u g) = (baseFS bk kk).call m (.chown (kp k) u g)) ∧
    (∀ u g, (baseFS bk kk).call m (.lchown name u g) = (baseFS bk kk).call m (.lchown (kp k) u g)) ∧
    (∀ a t, (baseFS bk kk).call m (.chtimes name a t) = (baseFS bk kk).call m (.chtimes (kp k) a t)) ∧
    (baseFS bk kk).call m (.lstat name) = (baseFS bk kk).call m (.lstat (kp k)) := by
  have pp := prefixPath_spelling (PrefixFS.mk (kp bk)) hk hname
  refine ⟨?_, ?_, ?_, ?_, ?_, ?_, ?_, ?_, ?_, ?_, ?_⟩
  all_goals intros
  all_goals
    apply prefixFS_call_congr (kp bk) m (by trivial)
    simp only [translate, pp]

theorem base_rename_spelling (m : MFS) {o n : Path} {ko kn : Key} (hko : PKey ko) (hkn : PKey kn)
    (ho : clean o = kp ko) (hn : clean n = kp kn) :
    (baseFS bk kk).call m (.rename o n) = (baseFS bk kk).call m (.rename (kp ko) (kp kn)) := by
  have p1 := prefixPath_spelling (PrefixFS.mk (kp bk)) hko ho
  have p2 := prefixPath_spelling (PrefixFS.mk (kp bk)) hkn hn
  apply prefixFS_call_congr (kp bk) m (by trivial)
  simp only [translate, p1, p2]

end

end BFS
