import Model.BackupFS
/-! Basic facts about the state-and-error monad `M` and the structural (never-throwing) parts of
`Rollback`. -/
namespace BFS

theorem M.bind_apply {α β} (x : M α) (f : α → M β) (w : World) :
    (x >>= f) w = match x w with
      | (w', .ok a) => f a w'
      | (w', .error e) => (w', .error e) := rfl

theorem M.pure_apply {α} (a : α) (w : World) : (pure a : M α) w = (w, .ok a) := rfl

theorem M.bind_ok {α β} {x : M α} {f : α → M β} {w w' : World} {a : α} (h : x w = (w', .ok a)) :
    (x >>= f) w = f a w' := by
  rw [M.bind_apply, h]

theorem M.bind_ok_inv {α β} {x : M α} {f : α → M β} {w w' : World} {b : β}
    (h : (x >>= f) w = (w', .ok b)) : ∃ a w1, x w = (w1, .ok a) ∧ f a w1 = (w', .ok b) := by
  rw [M.bind_apply] at h
  cases hx : x w with
  | mk w1 r =>
    rw [hx] at h
    cases r with
    | ok a => exact ⟨a, w1, rfl, h⟩
    | error e => cases h

theorem M.bind_error {α β} {x : M α} {f : α → M β} {w w' : World} {e : Err}
    (h : x w = (w', .error e)) : (x >>= f) w = (w', .error e) := by
  rw [M.bind_apply, h]

theorem attempt_apply {α} (x : M α) (w : World) : attempt x w = ((x w).1, .ok (x w).2) := by
  unfold attempt
  cases x w
  rfl

/-- a computation that never reports an error -/
def Total {α} (x : M α) : Prop := ∀ w, ∃ a, (x w).2 = .ok a

theorem Total.pure {α} (a : α) : Total (pure a : M α) := fun _ => ⟨a, rfl⟩

theorem Total.bind {α β} {x : M α} {f : α → M β} (hx : Total x) (hf : ∀ a, Total (f a)) :
    Total (x >>= f) := by
  intro w
  obtain ⟨a, ha⟩ := hx w
  rw [M.bind_apply]
  cases hxw : x w with
  | mk w' r =>
    rw [hxw] at ha
    simp only at ha
    subst ha
    exact hf a w'

theorem Total.attempt {α} (x : M α) : Total (attempt x) := by
  intro w
  rw [attempt_apply]
  exact ⟨_, rfl⟩

theorem Total.modifyW (f : World → World) : Total (modifyW f) := fun _ => ⟨(), rfl⟩

theorem Total.getW : Total getW := fun w => ⟨w, rfl⟩

namespace BackupFS

theorem forEachCollect_total {α} (f : α → M Unit) : ∀ xs : List α, Total (forEachCollect f xs)
  | [] => Total.pure false
  | x :: xs => by
    unfold forEachCollect
    apply Total.bind (Total.attempt _)
    intro r
    apply Total.bind (forEachCollect_total f xs)
    intro rest
    exact Total.pure _

theorem ensureRoot_total (cfg : Cfg) (p : Path) (i : Info) : Total (ensureRoot cfg p i) := by
  unfold ensureRoot
  apply Total.bind (Total.attempt _)
  intro r
  cases r with
  | error e => exact Total.pure _
  | ok o => cases o with
    | some _ => exact Total.pure _
    | none =>
      apply Total.bind (Total.attempt _)
      intro r2
      cases r2 <;> exact Total.pure _

theorem classify_total (cfg : Cfg) : ∀ (l : List (Path × Option Info)) (pl : RollbackPlan),
    Total (classify cfg l pl)
  | [], pl => Total.pure pl
  | (p, none) :: rest, pl => by
    unfold classify
    apply Total.bind (Total.attempt _)
    intro r
    cases r with
    | error e => exact classify_total cfg rest _
    | ok o => cases o with
      | none => exact classify_total cfg rest _
      | some i => exact classify_total cfg rest _
  | (p, some i) :: rest, pl => by
    unfold classify
    split
    · apply Total.bind (ensureRoot_total cfg p i)
      intro f
      exact classify_total cfg rest _
    · cases i.kind <;> exact classify_total cfg rest _

theorem removeBackupPaths_total (cfg : Cfg) (ps : List Path) : Total (removeBackupPaths cfg ps) :=
  forEachCollect_total _ _

/-- `Rollback` never aborts: every failure inside it is collected, and it always reaches its end -/
theorem rollback_total (cfg : Cfg) : Total (rollback cfg) := by
  unfold rollback
  apply Total.bind Total.getW; intro w
  apply Total.bind (classify_total cfg _ _); intro pl
  apply Total.bind (forEachCollect_total _ _); intro e1
  apply Total.bind (forEachCollect_total _ _); intro e2
  apply Total.bind (forEachCollect_total _ _); intro e3
  apply Total.bind (forEachCollect_total _ _); intro e4
  apply Total.bind (removeBackupPaths_total cfg _); intro e5
  apply Total.bind (removeBackupPaths_total cfg _); intro e6
  apply Total.bind (removeBackupPaths_total cfg _); intro e7
  apply Total.bind (Total.modifyW _); intro _
  exact Total.pure _

end BackupFS
end BFS

namespace BFS

/-- postcondition on the final state, whatever the result -/
def Post {α} (x : M α) (P : World → Prop) : Prop := ∀ w, P (x w).1

theorem Post.bind_total {α β} {x : M α} {f : α → M β} {P : World → Prop}
    (hx : Total x) (hf : ∀ a, Post (f a) P) : Post (x >>= f) P := by
  intro w
  obtain ⟨a, ha⟩ := hx w
  rw [M.bind_apply]
  cases hxw : x w with
  | mk w' r =>
    rw [hxw] at ha
    simp only at ha
    subst ha
    exact hf a w'

namespace BackupFS

/-- T07.2 after `Rollback` no path is tracked any more — whether or not it reported an error -/
theorem rollback_resets_infos (cfg : Cfg) (w : World) : (rollback cfg w).1.infos = [] := by
  have : Post (rollback cfg) (fun w => w.infos = []) := by
    unfold rollback
    apply Post.bind_total (P := fun w => w.infos = []) Total.getW; intro w
    apply Post.bind_total (P := fun w => w.infos = []) (classify_total cfg _ _); intro pl
    apply Post.bind_total (P := fun w => w.infos = []) (forEachCollect_total _ _); intro e1
    apply Post.bind_total (P := fun w => w.infos = []) (forEachCollect_total _ _); intro e2
    apply Post.bind_total (P := fun w => w.infos = []) (forEachCollect_total _ _); intro e3
    apply Post.bind_total (P := fun w => w.infos = []) (forEachCollect_total _ _); intro e4
    apply Post.bind_total (P := fun w => w.infos = []) (removeBackupPaths_total cfg _); intro e5
    apply Post.bind_total (P := fun w => w.infos = []) (removeBackupPaths_total cfg _); intro e6
    apply Post.bind_total (P := fun w => w.infos = []) (removeBackupPaths_total cfg _); intro e7
    intro w
    rfl
  exact this w

theorem forEachCollect_nil {α} (f : α → M Unit) (w : World) :
    forEachCollect f [] w = (w, .ok false) := rfl

theorem sortBy_nil (lt : Path → Path → Bool) : sortBy lt [] = [] := rfl

/-- T07.3 a `Rollback` with nothing tracked issues no primitive call, changes nothing and
reports success: a second Rollback is a no-op -/
theorem rollback_noop_of_untracked (cfg : Cfg) (w : World) (h : w.infos = []) :
    rollback cfg w = (w, .ok false) := by
  unfold rollback
  simp only [M.bind_apply, getW, h, classify, M.pure_apply, sortMost, sortLeast, sortStrings,
    sortBy_nil, forEachCollect_nil, removeBackupPaths, modifyW, Bool.or_false]
  cases w
  simp_all

end BackupFS
end BFS
