import Lemmas.S4Base
import Lemmas.Footprint
/-!
  Lemmas/S4Hid.lean — what `prepare` (= `realPath; tryBackup`) does in the nested layering when the
  name lies AT OR BELOW THE BACKUP LOCATION, for any tracked map and any fault plan, at the level of
  the raw disk.

  The hidden name resolves to itself (the refusal `ErrHiddenNotExist` of the HiddenFS base counts as
  "does not exist"), is recorded as *absent*, and the proper ancestors of the location that are not
  yet tracked are copied into the backup — the only change on the disk (`HF`): keys
  `bk ++ hk ++ a` for proper prefixes `a` of the location `hk`.  If every such ancestor (but the
  root, whose copy is a no-op) is tracked already — always so for a location directly below the
  root — the disk is exactly unchanged and, without faults, `prepare` succeeds.
-/
namespace BFS.S4
open BackupFS N D

section
variable {bk hk dd : Key}

/-! ### backup-side work between the location and `loc ++ a` -/

structure BStep (bk hk dd a : Key) (w w' : World) : Prop where
  good : NGood bk hk dd w'.fs
  frame : ∀ j, ¬ Between (bk ++ hk) (bk ++ hk ++ a) j → w'.fs.get j = w.fs.get j
  infos : w'.infos = w.infos
  faults : w'.faults = w.faults

theorem BStep.refl {a : Key} {w : World} (hg : NGood bk hk dd w.fs) : BStep bk hk dd a w w :=
  ⟨hg, fun _ _ => rfl, rfl, rfl⟩

theorem BStep.trans {a : Key} {w1 w2 w3 : World} (h1 : BStep bk hk dd a w1 w2) (h2 : BStep bk hk dd a w2 w3) :
    BStep bk hk dd a w1 w3 :=
  ⟨h2.good, fun j hj => (h2.frame j hj).trans (h1.frame j hj), h2.infos.trans h1.infos, h2.faults.trans h1.faults⟩

theorem BStep.same_right {a : Key} {w1 w2 w3 : World} (h1 : BStep bk hk dd a w1 w2) (h2 : SameFS w2 w3) :
    BStep bk hk dd a w1 w3 :=
  ⟨h2.fs ▸ h1.good, fun j hj => by rw [h2.fs]; exact h1.frame j hj, h2.infos.trans h1.infos, h2.faults.trans h1.faults⟩

/-- the four mutating calls of `copyDir` keep the disk well-formed -/
theorem backup_good (h : NRoots bk hk dd) {m : MFS} (hg : NGood bk hk dd m) {a : Key} (ha : PKey a) {c : Call}
    (hc : (∃ p, c = .mkdirAll (kp a) p) ∨ (∃ md, c = .chmod (kp a) md) ∨ (∃ u g, c = .chown (kp a) u g) ∨
      (∃ x t, c = .chtimes (kp a) x t)) :
    NGood bk hk dd (((nestedCfg bk hk).side .backup).call m c).1 := by
  rcases hc with ⟨p, rfl⟩ | ⟨md, rfl⟩ | ⟨u, g, rfl⟩ | ⟨x, t, rfl⟩
  · exact (n_mkdirAll_frame (s := .backup) h hg ha rfl).1
  · exact (n_chmod_frame (s := .backup) h hg ha rfl).1
  · exact (n_chown_frame (s := .backup) h hg ha rfl).1
  · exact (n_chtimes_frame (s := .backup) h hg ha rfl).1

theorem sat_backup_prim (h : NRoots bk hk dd) {a : Key} (ha : PKey a) (hne : a ≠ []) {c : Call}
    (hc : (∃ p, c = .mkdirAll (kp a) p) ∨ (∃ md, c = .chmod (kp a) md) ∨ (∃ u g, c = .chown (kp a) u g) ∨
      (∃ x t, c = .chtimes (kp a) x t)) {w0 w : World} (h0 : BStep bk hk dd a w0 w) :
    Sat (primUnit (nestedCfg bk hk) .backup c) w (fun w' _ => BStep bk hk dd a w0 w') := by
  unfold primUnit
  apply Sat.bind
  apply Sat.primCall
  · intro _ w1 h1
    exact h0.same_right h1
  · intro w1 h1
    have hb : BStep bk hk dd a w0 { w1 with fs := (((nestedCfg bk hk).side .backup).call w.fs c).1 } :=
      ⟨backup_good h h0.good ha hc,
        fun j hj => (backup_frame h h0.good ha hne hc j hj).trans (h0.frame j hj),
        h1.infos.trans h0.infos, h1.faults.trans h0.faults⟩
    cases (((nestedCfg bk hk).side .backup).call w.fs c).2 with
    | ok x => exact Sat.pure hb
    | error e => exact hb

theorem sat_backup_lstat (h : NRoots bk hk dd) {a : Key} {p : Path} {w0 w : World} (h0 : BStep bk hk dd a w0 w) :
    Sat (primInfo (nestedCfg bk hk) .backup (.lstat p)) w (fun w' _ => BStep bk hk dd a w0 w') :=
  (sat_primInfo_same (cfg := nestedCfg bk hk) (s := .backup) (c := .lstat p)
    (fun _ _ he => n_pure_lstat h he)).mono (fun _ _ hs => h0.same_right hs)

theorem sat_chownTo_bstep (h : NRoots bk hk dd) {a : Key} (ha : PKey a) (hne : a ≠ []) {i : Info} {w0 w : World}
    (h0 : BStep bk hk dd a w0 w) :
    Sat (chownTo (nestedCfg bk hk) .backup i (kp a)) w (fun w' _ => BStep bk hk dd a w0 w') := by
  unfold chownTo
  apply Sat.seq (P := BStep bk hk dd a w0) (sat_backup_lstat h h0) (fun _ x => x)
  intro old w1 h1
  apply Sat.whenM_any _ h1
  exact sat_backup_prim h ha hne (Or.inr (Or.inr (Or.inl ⟨_, _, rfl⟩))) h1

/-- `copyDir` on the backup side for a key other than the root: confined between the location and
the copy's position -/
theorem sat_copyDir_bstep (h : NRoots bk hk dd) {a : Key} (ha : PKey a) (hne : a ≠ []) {i : Info} {w : World}
    (hg : NGood bk hk dd w.fs) :
    Sat (copyDir (nestedCfg bk hk) .backup (kp a) i) w (fun w' _ => BStep bk hk dd a w w') := by
  unfold copyDir
  apply Sat.wrapped_any
  have hrefl : BStep bk hk dd a w w := BStep.refl hg
  apply Sat.ite
  · intro _; exact Sat.throw hrefl
  · intro _
    apply Sat.ite
    · intro _; exact Sat.pure hrefl
    · intro _
      apply Sat.seq (P := BStep bk hk dd a w) (sat_backup_prim h ha hne (Or.inl ⟨_, rfl⟩) hrefl) (fun _ x => x)
      intro _ w1 h1
      apply Sat.seq (P := BStep bk hk dd a w) (sat_backup_lstat h h1) (fun _ x => x)
      intro cur w2 h2
      apply Sat.seq (P := BStep bk hk dd a w) _ (fun _ x => x)
      · intro _ w3 h3
        apply Sat.seq (P := BStep bk hk dd a w) _ (fun _ x => x)
        · intro _ w4 h4
          apply Sat.ignorePerm_any
          exact sat_chownTo_bstep h ha hne h4
        · apply Sat.whenM_any _ h3
          apply Sat.ignorePerm_any
          exact sat_backup_prim h ha hne (Or.inr (Or.inr (Or.inr ⟨_, _, rfl⟩))) h3
      · apply Sat.whenM_any _ h2
        exact sat_backup_prim h ha hne (Or.inr (Or.inl ⟨_, rfl⟩)) h2

/-- `copyDir` of the root is a no-op -/
theorem copyDir_root (cfg : Cfg) (s : Side) (i : Info) (w : World) :
    copyDir cfg s (kp []) i w = (w, if i.isDir then .ok () else .error .typeMismatch) := by
  unfold copyDir wrapped
  cases hd : i.isDir with
  | true =>
    have : kp [] = rootP := rfl
    simp [this, pure]
  | false => simp [M.throw, wrapV]

/-! ### `backupRequired`, any key -/

/-- the four ways `backupRequired (kp a)` can end -/
def BRPost (bk hk dd : Key) (h : NRoots bk hk dd) (a : Key) (w w' : World) (r : Except Err (Option Info × Bool)) : Prop :=
  (∃ x, w.infos.lookup (kp a) = some x ∧ w' = w ∧ r = .ok (x, false)) ∨
  (w.infos.lookup (kp a) = none ∧ SameFS w w' ∧ ∃ n i, nview bk hk .base w.fs a = some n ∧ InfoFor i n ∧
    r = .ok (some i, true)) ∨
  (w.infos.lookup (kp a) = none ∧ nview bk hk .base w.fs a = none ∧
    ∃ w1, SameFS w w1 ∧ w' = addInfo w1 (kp a) none ∧ r = .ok (none, false)) ∨
  (w.faults ≠ [] ∧ SameFS w w' ∧ r = .error .io)

theorem sat_backupRequired_gen (h : NRoots bk hk dd) {a : Key} (ha : PKey a) {w : World} (hg : NGood bk hk dd w.fs) :
    Sat (backupRequired (nestedCfg bk hk) (kp a)) w (BRPost bk hk dd h a w) := by
  unfold backupRequired lookupInfo
  apply Sat.bind
  apply Sat.bind
  apply Sat.getW
  simp only
  apply Sat.pure
  simp only
  cases hl : w.infos.lookup (kp a) with
  | some info =>
    simp only
    apply Sat.pure
    exact Or.inl ⟨info, hl, rfl, rfl⟩
  | none =>
    simp only
    apply Sat.bind
    apply Sat.attempt
    apply (N.sat_lstat (S := nSim bk hk dd h) (s := .base) hg ha).mono
    intro w1 r ⟨hs, hr⟩
    have hl1 : w1.infos.lookup (kp a) = none := by rw [hs.infos]; exact hl
    simp only
    rcases hr with ⟨n, i, hv, rfl, hfor⟩ | ⟨hv, e, rfl, hnf⟩ | ⟨rfl, hf⟩
    · simp only
      apply Sat.pure
      exact Or.inr (Or.inl ⟨hl, hs, n, i, hv, hfor, rfl⟩)
    · simp only [hnf, if_true]
      apply Sat.bind
      apply Sat.of_eq (setInfo_untracked hl1)
      simp only
      apply Sat.pure
      exact Or.inr (Or.inr (Or.inl ⟨hl, hv, w1, hs, rfl, rfl⟩))
    · simp only [Err.isNotFound, Bool.false_eq_true, if_false]
      apply Sat.throw
      exact Or.inr (Or.inr (Or.inr ⟨hf, hs, rfl⟩))

/-! ### the frame of `prepare` on a hidden name -/

/-- position (on the whole disk) of the backup copy of a proper ancestor of the location; `a = []`
is the location directory itself -/
def ParPos (bk hk : Key) (j : Key) : Prop := ∃ a, a <+: hk ∧ a ≠ hk ∧ j = bk ++ hk ++ a

/-- every proper ancestor of the location except the root is tracked (vacuous for a location
directly below the root) -/
def AncTracked (hk : Key) (w : World) : Prop := ∀ a, a <+: hk → a ≠ hk → a ≠ [] → w.infos.lookup (kp a) ≠ none

structure HF (bk hk dd : Key) (w w' : World) : Prop where
  good : NGood bk hk dd w'.fs
  other : ∀ j, ¬ ParPos bk hk j → w'.fs.get j = w.fs.get j
  faults : w'.faults = w.faults
  keep : ∀ p x, w.infos.lookup p = some x → w'.infos.lookup p = some x
  exact : AncTracked hk w → w'.fs = w.fs
  newHid : ∀ k, PKey k → hk <+: k →
    w'.infos.lookup (kp k) = w.infos.lookup (kp k) ∨ w'.infos.lookup (kp k) = some none

theorem AncTracked.mono {w w' : World} (h : AncTracked hk w)
    (hk' : ∀ p x, w.infos.lookup p = some x → w'.infos.lookup p = some x) : AncTracked hk w' := by
  intro a h1 h2 h3
  cases hl : w.infos.lookup (kp a) with
  | none => exact absurd hl (h a h1 h2 h3)
  | some x => rw [hk' _ _ hl]; simp

theorem HF.refl {w : World} (hg : NGood bk hk dd w.fs) : HF bk hk dd w w :=
  ⟨hg, fun _ _ => rfl, rfl, fun _ _ x => x, fun _ => rfl, fun _ _ _ => Or.inl rfl⟩

theorem HF.trans {w1 w2 w3 : World} (h1 : HF bk hk dd w1 w2) (h2 : HF bk hk dd w2 w3) : HF bk hk dd w1 w3 := by
  refine ⟨h2.good, fun j hj => (h2.other j hj).trans (h1.other j hj), h2.faults.trans h1.faults,
    fun p x hx => h2.keep p x (h1.keep p x hx), ?_, ?_⟩
  · intro ht
    rw [h2.exact (ht.mono h1.keep), h1.exact ht]
  · intro k hk1 hk2
    rcases h2.newHid k hk1 hk2 with e2 | e2
    · rw [e2]; exact h1.newHid k hk1 hk2
    · exact Or.inr e2

theorem HF.of_same {w w' : World} (hg : NGood bk hk dd w.fs) (hs : SameFS w w') : HF bk hk dd w w' :=
  ⟨hs.fs ▸ hg, fun _ _ => by rw [hs.fs], hs.faults, fun p x hx => by rw [hs.infos]; exact hx,
    fun _ => hs.fs, fun _ _ _ => Or.inl (by rw [hs.infos])⟩

/-- recording a hidden key as absent -/
theorem HF.add_hid {w : World} (hg : NGood bk hk dd w.fs) {a : Key} (ha : PKey a)
    (hl : w.infos.lookup (kp a) = none) : HF bk hk dd w (addInfo w (kp a) none) := by
  refine ⟨hg, fun _ _ => rfl, rfl, ?_, fun _ => rfl, ?_⟩
  · intro p x hx
    by_cases e : p = kp a
    · rw [e, hl] at hx; cases hx
    · show (w.infos ++ [(kp a, none)]).lookup p = some x
      rw [lookup_snoc_ne e]; exact hx
  · intro k hk1 _
    by_cases e : k = a
    · right; rw [e]; exact lookup_snoc_self hl
    · left
      exact lookup_snoc_ne (fun e' => e (kp_inj hk1 ha e'))

/-- recording a visible key -/
theorem HF.add_vis {w : World} (hg : NGood bk hk dd w.fs) {a : Key} (ha : PKey a) (hv : ¬ hk <+: a)
    (hl : w.infos.lookup (kp a) = none) (x : Option Info) : HF bk hk dd w (addInfo w (kp a) x) := by
  refine ⟨hg, fun _ _ => rfl, rfl, ?_, fun _ => rfl, ?_⟩
  · intro p y hy
    by_cases e : p = kp a
    · rw [e, hl] at hy; cases hy
    · show (w.infos ++ [(kp a, x)]).lookup p = some y
      rw [lookup_snoc_ne e]; exact hy
  · intro k hk1 hk2
    left
    exact lookup_snoc_ne (fun e' => hv ((kp_inj hk1 ha e') ▸ hk2))

/-- a backup copy of an untracked proper ancestor of the location -/
theorem HF.of_bstep {w w' : World} {a : Key} (hp : a <+: hk) (hne : a ≠ hk) (hn0 : a ≠ [])
    (hl : w.infos.lookup (kp a) = none) (hb : BStep bk hk dd a w w') : HF bk hk dd w w' := by
  refine ⟨hb.good, ?_, hb.faults, fun p x hx => by rw [hb.infos]; exact hx, ?_, fun _ _ _ => Or.inl (by rw [hb.infos])⟩
  · intro j hj
    apply hb.frame j
    intro hbt
    obtain ⟨a', ha', rfl⟩ := between_append hbt
    apply hj
    refine ⟨a', ha'.trans hp, ?_, rfl⟩
    intro e
    subst e
    exact hne (N.prefix_antisymm hp ha')
  · intro ht
    exact absurd hl (ht a hp hne hn0)

/-! ### the ancestor walk of `backupDirs` towards a hidden name -/

/-- a prefix of a hidden key is hidden itself or a proper ancestor of the location -/
theorem cmp_of_prefix {k a : Key} (hhk : hk <+: k) (hak : a <+: k) : hk <+: a ∨ (a <+: hk ∧ a ≠ hk) :=
  below_cases hak hhk

theorem hvisit_cons (h : NRoots bk hk dd) {k a : Key} (hhk : hk <+: k) (hak : a <+: k) (ha : PKey a)
    {rest : List Path} {w0 w : World} (h0 : HF bk hk dd w0 w) {Q : World → Except Err Unit → Prop}
    (hstop : ∀ w' e, HF bk hk dd w0 w' → ¬ (w0.faults = [] ∧ AncTracked hk w0) → Q w' (.error e))
    (hnext : ∀ w', HF bk hk dd w0 w' → Sat (backupDirsVisit (nestedCfg bk hk) rest) w' Q) :
    Sat (backupDirsVisit (nestedCfg bk hk) (kp a :: rest)) w Q := by
  unfold backupDirsVisit
  apply Sat.bind
  apply (sat_backupRequired_gen h ha h0.good).mono
  intro w1 r hr
  rcases hr with ⟨x, hl, rfl, rfl⟩ | ⟨hl, hs, n, i, hv, hfor, rfl⟩ | ⟨hl, hv, w1', hs, rfl, rfl⟩ | ⟨hf, hs, rfl⟩
  · simp only [Bool.not_false, if_true]
    exact hnext w1 h0
  · -- found: a proper ancestor of the location, a directory
    simp only [Bool.not_true, Bool.false_eq_true, if_false]
    have hvis : ¬ hk <+: a := (nview_base_some (dd := dd) hv).1
    have hpar : a <+: hk ∧ a ≠ hk := by
      rcases cmp_of_prefix hhk hak with h1 | h1
      · exact absurd h1 hvis
      · exact h1
    obtain ⟨mt, hdir⟩ := n_par_dir (s := .base) h0.good hpar
    rw [hv] at hdir
    cases hdir
    have hisd : i.isDir = true := by
      have : i.kind = .dir := hfor.1
      simp [Info.isDir, this]
    have hg1 : NGood bk hk dd w1.fs := hs.fs ▸ h0.good
    have hl1 : w1.infos.lookup (kp a) = none := by rw [hs.infos]; exact hl
    have h01 : HF bk hk dd w0 w1 := h0.trans (HF.of_same h0.good hs)
    by_cases hn0 : a = []
    · subst hn0
      apply Sat.bind
      apply Sat.of_eq (copyDir_root _ _ i w1)
      simp only [hisd, if_true]
      apply Sat.bind
      apply Sat.of_eq (setInfo_untracked hl1)
      simp only
      exact hnext _ (h01.trans (HF.add_vis hg1 ha hvis hl1 _))
    · apply Sat.bind
      apply (sat_copyDir_bstep h ha hn0 (i := i) hg1).mono
      intro w2 r2 hb
      have h02 : HF bk hk dd w0 w2 := h01.trans (HF.of_bstep hpar.1 hpar.2 hn0 hl1 hb)
      cases r2 with
      | error e =>
        apply hstop _ e h02
        intro ⟨_, ht⟩
        have := (ht.mono h0.keep) a hpar.1 hpar.2 hn0
        exact this hl
      | ok u =>
        simp only
        have hl2 : w2.infos.lookup (kp a) = none := by rw [hb.infos]; exact hl1
        apply Sat.bind
        apply Sat.of_eq (setInfo_untracked hl2)
        simp only
        exact hnext _ (h02.trans (HF.add_vis hb.good ha hvis hl2 _))
  · -- not found (refused): recorded as absent
    simp only [Bool.not_false, if_true]
    have hg1 : NGood bk hk dd w1'.fs := hs.fs ▸ h0.good
    have hl1 : w1'.infos.lookup (kp a) = none := by rw [hs.infos]; exact hl
    have h01 : HF bk hk dd w0 w1' := h0.trans (HF.of_same h0.good hs)
    by_cases hh : hk <+: a
    · exact hnext _ (h01.trans (HF.add_hid hg1 ha hl1))
    · exact hnext _ (h01.trans (HF.add_vis hg1 ha hh hl1 _))
  · apply hstop _ _ (h0.trans (HF.of_same h0.good hs))
    intro ⟨hnf, _⟩
    rw [← h0.faults] at hnf
    exact hf hnf

theorem sat_hvisit (h : NRoots bk hk dd) {k : Key} (hhk : hk <+: k) :
    ∀ (xs : List Name) (pre : Key) (w0 w : World), pre ++ xs <+: k → PKey (pre ++ xs) → HF bk hk dd w0 w →
    Sat (backupDirsVisit (nestedCfg bk hk) ((inits1 xs).map (fun l => kp (pre ++ l)))) w (fun w' r =>
      HF bk hk dd w0 w' ∧ (w0.faults = [] → AncTracked hk w0 → r = .ok ()))
  | [], pre, w0, w, _, _, h0 => by
    simp only [inits1, List.map_nil, backupDirsVisit]
    apply Sat.pure
    exact ⟨h0, fun _ _ => rfl⟩
  | x :: xs, pre, w0, w, hpk, hP, h0 => by
    have hlist : (inits1 (x :: xs)).map (fun l => kp (pre ++ l)) =
        kp (pre ++ [x]) :: (inits1 xs).map (fun l => kp ((pre ++ [x]) ++ l)) := by
      simp [inits1, List.map_map, Function.comp_def]
    rw [hlist]
    have happ : (pre ++ [x]) ++ xs = pre ++ x :: xs := by simp
    have ha : PKey (pre ++ [x]) := hP.of_prefix ⟨xs, happ⟩
    have hak : pre ++ [x] <+: k := List.IsPrefix.trans ⟨xs, happ⟩ hpk
    apply hvisit_cons h hhk hak ha h0
    · intro w' e hf hn
      exact ⟨hf, fun h1 h2 => absurd ⟨h1, h2⟩ hn⟩
    · intro w' hf
      exact sat_hvisit h hhk xs (pre ++ [x]) w0 w' (by rw [happ]; exact hpk) (by rw [happ]; exact hP) hf

theorem sat_backupDirs_hid (h : NRoots bk hk dd) {k d : Key} (hhk : hk <+: k) (hdk : d <+: k) (hd : PKey d)
    {w0 w : World} (h0 : HF bk hk dd w0 w) :
    Sat (backupDirs (nestedCfg bk hk) (kp d)) w (fun w' r =>
      HF bk hk dd w0 w' ∧ (w0.faults = [] → AncTracked hk w0 → r = .ok ())) := by
  unfold backupDirs
  rw [iterateDirTree_kp hd]
  have hroot : rootP = kp [] := rfl
  rw [hroot]
  apply hvisit_cons h hhk List.nil_prefix PKey.nil h0
  · intro w' e hf hn
    exact ⟨hf, fun h1 h2 => absurd ⟨h1, h2⟩ hn⟩
  · intro w' hf
    have := sat_hvisit h hhk d [] w0 w' (by simpa using hdk) (by simpa using hd) hf
    simpa using this

/-! ### `tryBackup`, `realPath`, `prepare` on a hidden name -/

theorem backupDirPath_kp {k : Key} (hk' : PKey k) (info : Option Info) :
    ∃ d, PKey d ∧ d <+: k ∧ backupDirPath info (kp k) = kp d := by
  cases info with
  | none => exact ⟨k.dropLast, hk'.dropLast, List.dropLast_prefix k, by simp [backupDirPath, dir_kp hk']⟩
  | some i =>
    cases hd : i.isDir with
    | true => exact ⟨k, hk', List.prefix_rfl, by simp [backupDirPath, hd]⟩
    | false => exact ⟨k.dropLast, hk'.dropLast, List.dropLast_prefix k, by simp [backupDirPath, hd, dir_kp hk']⟩

theorem sat_tryBackup_hid (h : NRoots bk hk dd) {k : Key} (hhk : hk <+: k) (hk' : PKey k) {w : World}
    (hg : NGood bk hk dd w.fs) :
    Sat (tryBackup (nestedCfg bk hk) (kp k)) w (fun w' r =>
      HF bk hk dd w w' ∧ (w.faults = [] → AncTracked hk w → r = .ok ())) := by
  unfold tryBackup
  apply Sat.bind
  apply (sat_backupRequired_gen h hk' hg).mono
  intro w1 r hr
  -- after `backupRequired`: not required
  have hrest : ∀ (info : Option Info) (w1 : World), HF bk hk dd w w1 →
      Sat (do
        backupDirs (nestedCfg bk hk) (backupDirPath info (kp k))
        if !false then pure () else
          match info with
          | none => pure ()
          | some i =>
            if i.isDir then pure ()
            else if i.isRegular then do
              let sf ← primOpen (nestedCfg bk hk) .base (.open_ (kp k))
              let r ← attempt (do
                copyFile (nestedCfg bk hk) .backup (kp k) i sf
                setInfo (kp k) (some i))
              let _ ← attempt (hClose sf)
              match r with
              | .ok () => pure ()
              | .error e => M.throw e
            else do
              copySymlink (nestedCfg bk hk) .base .backup (kp k) i
              setInfo (kp k) (some i) : M Unit) w1
        (fun w' r => HF bk hk dd w w' ∧ (w.faults = [] → AncTracked hk w → r = .ok ())) := by
    intro info w1 h1
    obtain ⟨d, hd, hdk, hde⟩ := backupDirPath_kp hk' info
    rw [hde]
    apply Sat.bind
    apply (sat_backupDirs_hid h hhk hdk hd h1).mono
    intro w2 r2 ⟨h2, hok⟩
    cases r2 with
    | error e => exact ⟨h2, hok⟩
    | ok u =>
      simp only [Bool.not_false, if_true]
      apply Sat.pure
      exact ⟨h2, fun _ _ => rfl⟩
  rcases hr with ⟨x, hl, rfl, rfl⟩ | ⟨hl, hs, n, i, hv, hfor, rfl⟩ | ⟨hl, hv, w1', hs, rfl, rfl⟩ | ⟨hf, hs, rfl⟩
  · exact hrest x w1 (HF.refl hg)
  · rw [nview_base_hid hhk] at hv; cases hv
  · exact hrest none _ ((HF.of_same hg hs).trans (HF.add_hid (hs.fs ▸ hg) hk' (by rw [hs.infos]; exact hl)))
  · exact ⟨HF.of_same hg hs, fun hnf => absurd hnf hf⟩

end

/-! ### name resolution succeeds without faults (any `N.Sim`) -/

section
variable {cfg : Cfg} {S : N.Sim cfg}

theorem sat_resolveLoop_ok : ∀ (fuel : Nat) (l : List Path) (last : Path) (fi : Option Info) (w : World),
    S.G w.fs → (∀ p ∈ l, ∃ a, PKey a ∧ p = kp a) → l.length < fuel →
    Sat (resolveLoop cfg fuel l last fi) w (fun _ r => w.faults = [] → ∃ x, r = .ok x)
  | 0, l, _, _, _, _, _, hlen => by omega
  | _ + 1, [], last, fi, w, _, _, _ => by
    unfold resolveLoop
    apply Sat.pure
    exact fun _ => ⟨_, rfl⟩
  | fuel + 1, p :: rest, last, fi, w, hg, hl, hlen => by
    unfold resolveLoop
    obtain ⟨a, ha, rfl⟩ := hl p (by simp)
    apply Sat.bind
    apply Sat.attempt
    apply (N.sat_lstat hg ha).mono
    intro w1 r ⟨hs, hr⟩
    simp only
    rcases hr with ⟨n, i, hv, rfl, hfor⟩ | ⟨hv, e, rfl, hnf⟩ | ⟨rfl, hf⟩
    · simp only
      have hnl : i.isSymlink = false := by
        cases n with
        | link t mt => exact absurd hv (S.no_link hg)
        | file c mt => have : i.kind = .file := hfor.1; simp [Info.isSymlink, this]
        | dir mt => have : i.kind = .dir := hfor.1; simp [Info.isSymlink, this]
      simp only [hnl, Bool.false_eq_true, if_false]
      apply (sat_resolveLoop_ok fuel rest (kp a) (some i) w1 (hs.fs ▸ hg)
        (fun q hq => hl q (List.mem_cons_of_mem _ hq)) (by simp at hlen; omega)).mono
      intro w2 r2 hres hnf
      exact hres (by rw [hs.faults]; exact hnf)
    · simp only [hnf, if_true]
      apply Sat.pure
      exact fun _ => ⟨_, rfl⟩
    · simp only [Err.isNotFound, Bool.false_eq_true, if_false]
      apply Sat.throw
      exact fun hnf => absurd hnf hf

theorem sat_realPath_ok {name : Path} {k : Key} {w : World} (hg : S.G w.fs) (hk : PKey k)
    (hname : clean name = kp k) :
    Sat (realPath cfg name) w (fun w' r => SameFS w w' ∧ (∀ p, r = .ok p → p = kp k) ∧
      (w.faults = [] → r = .ok (kp k))) := by
  have h1 := N.sat_realPath (S := S) hg hk hname
  have h2 : Sat (realPath cfg name) w (fun _ r => w.faults = [] → ∃ x, r = .ok x) := by
    unfold realPath resolvePathWithInfo
    rw [hname]
    simp only [kp_ne_nil, if_false]
    apply Sat.bind
    apply (sat_resolveLoop_ok (S := S) _ (iterateDirTree (kp k)) (kp k) none w hg
      (by
        intro p hp
        obtain ⟨a, ha, rfl⟩ := (mem_iterateDirTree_kp hk).mp hp
        exact ⟨a, hk.of_prefix ha, rfl⟩)
      (by omega)).mono
    intro w1 r hres
    cases r with
    | error e => exact fun hnf => by obtain ⟨x, hx⟩ := hres hnf; cases hx
    | ok pr =>
      apply Sat.pure
      exact fun _ => ⟨_, rfl⟩
  refine ⟨h1.elim.1, h1.elim.2, ?_⟩
  intro hnf
  obtain ⟨x, hx⟩ := h2.elim hnf
  rw [hx, h1.elim.2 x hx]

end

section
variable {bk hk dd : Key}

/-- `prepare` on a name at or below the location -/
theorem sat_prepare_hid (h : NRoots bk hk dd) {name : Path} {k : Key} (hhk : hk <+: k) (hk' : PKey k)
    (hname : clean name = kp k) {w : World} (hg : NGood bk hk dd w.fs) :
    Sat (prepare (nestedCfg bk hk) name) w (fun w' r =>
      HF bk hk dd w w' ∧ (∀ p, r = .ok p → p = kp k) ∧ (w.faults = [] → AncTracked hk w → r = .ok (kp k))) := by
  unfold prepare
  apply Sat.bind
  apply (sat_realPath_ok (S := nSim bk hk dd h) hg hk' hname).mono
  intro w1 r ⟨hs, hres, hok⟩
  have h1 : HF bk hk dd w w1 := HF.of_same hg hs
  cases r with
  | error e => exact ⟨h1, ⟨(by intro p hp; cases hp), fun hnf _ => by cases hok hnf⟩⟩
  | ok p =>
    simp only
    have hp := hres p rfl
    subst hp
    apply Sat.bind
    apply (sat_tryBackup_hid h hhk hk' (hs.fs ▸ hg)).mono
    intro w2 r2 ⟨h2, hok2⟩
    have hk2 : w.faults = [] → AncTracked hk w → r2 = .ok () := by
      intro hnf ht
      exact hok2 (by rw [hs.faults]; exact hnf) (ht.mono h1.keep)
    cases r2 with
    | error e => exact ⟨h1.trans h2, ⟨(by intro p hp; cases hp), fun hnf ht => by cases hk2 hnf ht⟩⟩
    | ok u =>
      apply Sat.pure
      exact ⟨h1.trans h2, ⟨(by intro p hp; cases hp; rfl), fun _ _ => rfl⟩⟩

end
end BFS.S4
