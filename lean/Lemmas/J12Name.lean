import Lemmas.Keeps
import Model.History
/-!
  Lemmas/J12Name.lean — provenance of tracked `FileInfo`s (C12, end to end).

  `AllN N infos`: every tracked entry `(p, some i)` satisfies `N p i`.  If every successful
  `Lstat p` on the BASE filesystem returns an info satisfying `N p` (`LstatN cfg N`), then every
  method of BackupFS — under every fault plan, on every world, for every argument — preserves
  `AllN N`: an entry is recorded only by `setInfo p (some i)` with `i` the info `backupRequired p`
  obtained from `base.Lstat(p)`; nothing else writes infos (`deleteInfo` filters, Rollback resets).
  The calculus `Pres N x Q` = "x preserves `AllN N` and its results satisfy `Q`".
-/
namespace BFS
namespace J12
open BackupFS

variable {cfg : Cfg} {N : Path → Info → Prop}

/-- every tracked info satisfies `N` -/
def AllN (N : Path → Info → Prop) (infos : List (Path × Option Info)) : Prop :=
  ∀ p i, (p, some i) ∈ infos → N p i

/-- what `Lstat` on the base filesystem reports satisfies `N` -/
def LstatN (cfg : Cfg) (N : Path → Info → Prop) : Prop :=
  ∀ m p m' i, cfg.base.call m (.lstat p) = (m', .ok (.info i)) → N p i

theorem AllN.nil : AllN N [] := fun _ _ h => by cases h

def Pres {α} (N : Path → Info → Prop) (x : M α) (Q : α → Prop) : Prop :=
  ∀ w, AllN N w.infos → AllN N (x w).1.infos ∧ ∀ a, (x w).2 = .ok a → Q a

theorem Pres.of_keeps {α} {x : M α} (h : Keeps (fun w => w.infos) x) : Pres N x (fun _ => True) := by
  intro w hw
  have e : (x w).1.infos = w.infos := h w
  exact ⟨by rw [e]; exact hw, fun _ _ => trivial⟩

theorem Pres.mono {α} {x : M α} {Q Q' : α → Prop} (h : Pres N x Q) (hq : ∀ a, Q a → Q' a) :
    Pres N x Q' := fun w hw => ⟨(h w hw).1, fun a ha => hq a ((h w hw).2 a ha)⟩

theorem Pres.triv {α} {x : M α} {Q : α → Prop} (h : Pres N x Q) : Pres N x (fun _ => True) :=
  h.mono (fun _ _ => trivial)

theorem Pres.pure {α} {a : α} {Q : α → Prop} (h : Q a) : Pres N (pure a : M α) Q := by
  intro w hw
  refine ⟨hw, ?_⟩
  intro b hb
  have : (Except.ok a : Except Err α) = .ok b := hb
  cases this
  exact h

theorem Pres.throw {α} {e : Err} {Q : α → Prop} : Pres N (M.throw e : M α) Q := by
  intro w hw
  refine ⟨hw, ?_⟩
  intro b hb
  have : (Except.error e : Except Err α) = .ok b := hb
  cases this

theorem Pres.bind {α β} {x : M α} {f : α → M β} {Q : α → Prop} {R : β → Prop}
    (hx : Pres N x Q) (hf : ∀ a, Q a → Pres N (f a) R) : Pres N (x >>= f) R := by
  intro w hw
  obtain ⟨h1, h2⟩ := hx w hw
  rw [M.bind_apply]
  cases hxw : x w with
  | mk w' r =>
    rw [hxw] at h1 h2
    cases r with
    | ok a => exact hf a (h2 a rfl) w' h1
    | error e =>
      refine ⟨h1, ?_⟩
      intro b hb
      cases hb

theorem Pres.attempt {α} {x : M α} {Q : α → Prop} (hx : Pres N x Q) :
    Pres N (attempt x) (fun r => ∀ a, r = .ok a → Q a) := by
  intro w hw
  rw [attempt_apply]
  obtain ⟨h1, h2⟩ := hx w hw
  refine ⟨h1, ?_⟩
  intro r hr a ha
  have : (Except.ok (x w).2 : Except Err (Except Err α)) = .ok r := hr
  cases this
  exact h2 a ha

theorem Pres.ite {α} {c : Prop} [Decidable c] {x y : M α} {Q : α → Prop}
    (hx : Pres N x Q) (hy : Pres N y Q) : Pres N (if c then x else y) Q := by
  split
  · exact hx
  · exact hy

theorem Pres.dite {α} {c : Prop} [Decidable c] {x y : M α} {Q : α → Prop}
    (hx : c → Pres N x Q) (hy : ¬ c → Pres N y Q) : Pres N (if c then x else y) Q := by
  split
  · exact hx ‹_›
  · exact hy ‹_›

theorem Pres.whenM {c : Bool} {x : M Unit} (hx : Pres N x (fun _ => True)) :
    Pres N (whenM c x) (fun _ => True) := by
  unfold BFS.whenM
  exact Pres.ite hx (Pres.pure trivial)

/-- a world-to-world function that keeps the tracked map -/
theorem Pres.modify_filter (q : Path × Option Info → Bool) :
    Pres N (modifyW (fun w => { w with infos := w.infos.filter q })) (fun _ => True) := by
  intro w hw
  refine ⟨?_, fun _ _ => trivial⟩
  intro p i hm
  exact hw p i (List.mem_filter.mp hm).1

/-! ### the primitive gate: a successful result is the result of the call on some disk -/

theorem execCall_ok {side : Side} {c : Call} {w w' : World} {r : Ret}
    (h : execCall cfg side c w = (w', .ok r)) : ∃ m', (cfg.side side).call w.fs c = (m', .ok r) := by
  unfold execCall at h
  cases hc : (cfg.side side).call w.fs c with
  | mk m' r' =>
    rw [hc] at h
    simp only [Prod.mk.injEq] at h
    exact ⟨m', by rw [← h.2]⟩

theorem primCall_ok {side : Side} {c : Call} {w w' : World} {r : Ret}
    (h : primCall cfg side c w = (w', .ok r)) : ∃ m m', (cfg.side side).call m c = (m', .ok r) := by
  unfold primCall at h
  split at h
  · split at h
    · simp only [Prod.mk.injEq] at h
      cases h.2
    · exact ⟨_, execCall_ok h⟩
  · split at h
    · simp only [Prod.mk.injEq] at h
      cases h.2
    · exact ⟨_, execCall_ok h⟩

theorem primInfo_ok {side : Side} {c : Call} {w : World} {i : Info}
    (h : (primInfo cfg side c w).2 = .ok i) : ∃ m m', (cfg.side side).call m c = (m', .ok (.info i)) := by
  unfold primInfo at h
  rw [M.bind_apply] at h
  cases hc : primCall cfg side c w with
  | mk w1 r =>
    rw [hc] at h
    cases r with
    | error e => cases h
    | ok ret =>
      cases ret with
      | info i' =>
        have : (Except.ok i' : Except Err Info) = .ok i := h
        cases this
        exact primCall_ok hc
      | unit => cases h
      | str s => cases h
      | handle hd => cases h

theorem primInfo_lstat_pres (hL : LstatN cfg N) (p : Path) :
    Pres N (primInfo cfg .base (.lstat p)) (fun i => N p i) := by
  intro w hw
  have e : (primInfo cfg .base (.lstat p) w).1.infos = w.infos := primInfo_keeps cfg .base _ w
  refine ⟨by rw [e]; exact hw, ?_⟩
  intro i hi
  obtain ⟨m, m', hc⟩ := primInfo_ok hi
  exact hL m p m' i hc

/-! ### tracking -/

theorem lookupInfo_keeps (p : Path) : Keeps (fun w => w.infos) (lookupInfo p) := by
  unfold lookupInfo
  apply Keeps.bind (Keeps.getW _); intro w
  exact Keeps.pure _ _

theorem setInfo_pres (p : Path) (oi : Option Info) (h : ∀ i, oi = some i → N p i) :
    Pres N (setInfo p oi) (fun _ => True) := by
  intro w hw
  refine ⟨?_, fun _ _ => trivial⟩
  unfold setInfo modifyW
  simp only
  split
  · exact hw
  · intro q i hm
    simp only [List.mem_append, List.mem_singleton, Prod.mk.injEq] at hm
    rcases hm with hm | ⟨rfl, rfl⟩
    · exact hw q i hm
    · exact h i rfl

theorem deleteInfo_pres (p : Path) : Pres N (deleteInfo p) (fun _ => True) := by
  unfold deleteInfo
  exact Pres.modify_filter _

theorem backupRequired_pres (hL : LstatN cfg N) (p : Path) :
    Pres N (backupRequired cfg p) (fun r => r.2 = true → ∀ i, r.1 = some i → N p i) := by
  unfold backupRequired
  apply Pres.bind (Pres.of_keeps (lookupInfo_keeps p)); intro li _
  cases li with
  | some info => exact Pres.pure (fun h => by cases h)
  | none =>
    apply Pres.bind (Pres.attempt (primInfo_lstat_pres hL p)); intro res hres
    cases res with
    | ok info =>
      exact Pres.pure (fun _ i hi => by cases hi; exact hres _ rfl)
    | error e =>
      apply Pres.ite
      · apply Pres.bind (setInfo_pres p none (fun i h => by cases h)); intro _ _
        exact Pres.pure (fun h => by cases h)
      · exact Pres.throw

theorem backupDirsVisit_pres (hL : LstatN cfg N) :
    ∀ l : List Path, Pres N (backupDirsVisit cfg l) (fun _ => True)
  | [] => Pres.pure trivial
  | sub :: rest => by
    unfold backupDirsVisit
    apply Pres.bind (backupRequired_pres hL sub); intro fr hfr
    rcases fr with ⟨fi, required⟩
    simp only
    apply Pres.dite (fun _ => backupDirsVisit_pres hL rest)
    intro hreq
    cases fi with
    | none => exact backupDirsVisit_pres hL rest
    | some i =>
      have hN : N sub i := hfr (by simpa using hreq) i rfl
      apply Pres.bind (Pres.of_keeps (copyDir_keeps cfg .backup sub i)); intro _ _
      apply Pres.bind (setInfo_pres sub (some i) (fun j hj => by cases hj; exact hN)); intro _ _
      exact backupDirsVisit_pres hL rest

theorem hClose_keeps (wh : WHandle) : Keeps (fun w => w.infos) (hClose wh) := by
  unfold hClose; exact primH_keeps_infos _ _ _ _

theorem tryBackup_pres (hL : LstatN cfg N) (r : Path) : Pres N (tryBackup cfg r) (fun _ => True) := by
  unfold tryBackup
  apply Pres.bind (backupRequired_pres hL r); intro inb hinb
  rcases inb with ⟨info, needs⟩
  simp only
  apply Pres.bind (by unfold backupDirs; exact backupDirsVisit_pres hL _); intro _ _
  apply Pres.dite (fun _ => Pres.pure trivial)
  intro hneeds
  cases info with
  | none => exact Pres.pure trivial
  | some i =>
    have hN : N r i := hinb (by simpa using hneeds) i rfl
    simp only
    apply Pres.ite (Pres.pure trivial)
    apply Pres.ite
    · apply Pres.bind (Pres.of_keeps (primOpen_keeps cfg .base _)); intro sf _
      apply Pres.bind (Pres.attempt (Q := fun _ => True) (by
        apply Pres.bind (Pres.of_keeps (copyFile_keeps cfg .backup r i sf)); intro _ _
        exact setInfo_pres r (some i) (fun j hj => by cases hj; exact hN))); intro res _
      apply Pres.bind (Pres.of_keeps (Keeps.attempt (hClose_keeps sf))); intro _ _
      cases res with
      | ok u => exact Pres.pure trivial
      | error e => exact Pres.throw
    · apply Pres.bind (Pres.of_keeps (copySymlink_keeps cfg .base .backup r i)); intro _ _
      exact setInfo_pres r (some i) (fun j hj => by cases hj; exact hN)

/-! ### resolution keeps the tracked map -/

theorem resolveLoop_keeps (cfg : Cfg) : ∀ (fuel : Nat) (l : List Path) (last : Path) (fi : Option Info),
    Keeps (fun w => w.infos) (resolveLoop cfg fuel l last fi)
  | 0, _, _, _ => Keeps.pure _ _
  | _ + 1, [], _, _ => Keeps.pure _ _
  | fuel + 1, p :: rest, last, fi => by
    unfold resolveLoop
    apply Keeps.bind (Keeps.attempt (primInfo_keeps cfg .base _)); intro res
    cases res with
    | error e => exact Keeps.ite (Keeps.pure _ _) (Keeps.throw _ _)
    | ok i =>
      simp only
      apply Keeps.ite
      · apply Keeps.bind (primStr_keeps cfg .base _); intro linked
        exact resolveLoop_keeps cfg fuel _ _ _
      · exact resolveLoop_keeps cfg fuel _ _ _

theorem realPath_keeps (cfg : Cfg) (name : Path) : Keeps (fun w => w.infos) (realPath cfg name) := by
  unfold realPath resolvePathWithInfo
  apply Keeps.bind
  · apply Keeps.ite (Keeps.throw _ _)
    exact resolveLoop_keeps cfg _ _ _ _
  · intro r; exact Keeps.pure _ _

theorem prepare_pres (hL : LstatN cfg N) (name : Path) : Pres N (prepare cfg name) (fun _ => True) := by
  unfold prepare
  apply Pres.bind (Pres.of_keeps (realPath_keeps cfg name)); intro r _
  apply Pres.bind (tryBackup_pres hL r); intro _ _
  exact Pres.pure trivial

/-- `prepare` followed by one primitive call -/
theorem prepare_then_pres {α} (hL : LstatN cfg N) (name : Path) (k : Path → M α)
    (hk : ∀ r, Keeps (fun w => w.infos) (k r)) : Pres N (prepare cfg name >>= k) (fun _ => True) :=
  Pres.bind (prepare_pres hL name) (fun r _ => Pres.of_keeps (hk r))

theorem create_pres (hL : LstatN cfg N) (n : Path) : Pres N (create cfg n) (fun _ => True) := by
  rw [create_eq]; exact prepare_then_pres hL n _ (fun _ => primOpen_keeps cfg .base _)
theorem mkdir_pres (hL : LstatN cfg N) (n : Path) (p : Nat) : Pres N (mkdir cfg n p) (fun _ => True) := by
  rw [mkdir_eq]; exact prepare_then_pres hL n _ (fun _ => primUnit_keeps cfg .base _)
theorem mkdirAll_pres (hL : LstatN cfg N) (n : Path) (p : Nat) : Pres N (mkdirAll cfg n p) (fun _ => True) := by
  rw [mkdirAll_eq]; exact prepare_then_pres hL n _ (fun _ => primUnit_keeps cfg .base _)
theorem remove_pres (hL : LstatN cfg N) (n : Path) : Pres N (remove cfg n) (fun _ => True) := by
  rw [remove_eq]; exact prepare_then_pres hL n _ (fun _ => primUnit_keeps cfg .base _)
theorem chmod_pres (hL : LstatN cfg N) (n : Path) (m : Nat) : Pres N (chmod cfg n m) (fun _ => True) := by
  rw [chmod_eq]; exact prepare_then_pres hL n _ (fun _ => primUnit_keeps cfg .base _)
theorem chown_pres (hL : LstatN cfg N) (n : Path) (u g : Int) : Pres N (chown cfg n u g) (fun _ => True) := by
  rw [chown_eq]; exact prepare_then_pres hL n _ (fun _ => primUnit_keeps cfg .base _)
theorem lchown_pres (hL : LstatN cfg N) (n : Path) (u g : Int) : Pres N (lchown cfg n u g) (fun _ => True) := by
  rw [lchown_eq]; exact prepare_then_pres hL n _ (fun _ => primUnit_keeps cfg .base _)
theorem chtimes_pres (hL : LstatN cfg N) (n : Path) (a m : Time) : Pres N (chtimes cfg n a m) (fun _ => True) := by
  rw [chtimes_eq]; exact prepare_then_pres hL n _ (fun _ => primUnit_keeps cfg .base _)
theorem symlink_pres (hL : LstatN cfg N) (o n : Path) : Pres N (symlink cfg o n) (fun _ => True) := by
  rw [symlink_eq]; exact prepare_then_pres hL n _ (fun _ => primUnit_keeps cfg .base _)

theorem openFile_pres (hL : LstatN cfg N) (n : Path) (f p : Nat) : Pres N (openFile cfg n f p) (fun _ => True) := by
  by_cases h : f = O_RDONLY
  · unfold openFile
    simp only [h, if_true]
    exact Pres.of_keeps (primOpen_keeps cfg .base _)
  · rw [openFile_eq cfg n f p h]; exact prepare_then_pres hL n _ (fun _ => primOpen_keeps cfg .base _)

theorem rename_pres (hL : LstatN cfg N) (o n : Path) : Pres N (rename cfg o n) (fun _ => True) := by
  unfold rename
  apply Pres.bind (Pres.of_keeps (realPath_keeps cfg o)); intro ro _
  apply Pres.bind (Pres.of_keeps (realPath_keeps cfg n)); intro rn _
  apply Pres.bind (tryBackup_pres hL rn); intro _ _
  apply Pres.bind (tryBackup_pres hL ro); intro _ _
  exact Pres.of_keeps (primUnit_keeps cfg .base _)

/-! ### the walks -/

section walk
variable {α : Type} (P : World → Prop) (ops : WalkOps World) (fn : WalkFn World α)
  (hl : ∀ w p, P w → P (ops.lstat w p).1)
  (hr : ∀ w p, P w → P (ops.readDirNames w p).1)
  (hf : ∀ w a p i e, P w → P (fn w a p i e).1.1)
include hl hr hf

def RecP (fuel : Nat) : Prop := ∀ w a p i, P w → P (walkRec ops fn fuel w a p i).1.1
def NamesP (fuel : Nat) : Prop := ∀ names w a p, P w → P (walkNames ops fn fuel w a p names).1.1

omit hr in
theorem namesP_of_rec {fuel : Nat} (hrec : RecP P ops fn fuel) : NamesP P ops fn fuel := by
  intro names
  induction names with
  | nil =>
    intro w a p hw
    rw [walkNames]
    exact hw
  | cons n rest ih =>
    intro w a p hw
    rw [walkNames]
    have h1 := hl w (join p n) hw
    cases hls : ops.lstat w (join p n) with
    | mk w1 r1 =>
      rw [hls] at h1
      cases r1 with
      | error e =>
        simp only
        have h2 := hf w1 a (join p n) none (some e) h1
        cases hfe : fn w1 a (join p n) none (some e) with
        | mk sa oe =>
          rw [hfe] at h2
          obtain ⟨s2, a2⟩ := sa
          cases oe with
          | some e' => exact h2
          | none => exact ih s2 a2 p h2
      | ok fi =>
        simp only
        have h2 := hrec w1 a (join p n) fi h1
        cases hw2 : walkRec ops fn fuel w1 a (join p n) fi with
        | mk sa oe =>
          rw [hw2] at h2
          obtain ⟨s2, a2⟩ := sa
          cases oe with
          | some e' => exact h2
          | none => exact ih s2 a2 p h2

theorem walk_P : ∀ fuel, RecP P ops fn fuel ∧ NamesP P ops fn fuel
  | 0 => by
    have hrec : RecP P ops fn 0 := by
      intro w a p i hw
      rw [walkRec]
      exact hw
    exact ⟨hrec, namesP_of_rec P ops fn hl hf hrec⟩
  | fuel + 1 => by
    have ih := (walk_P fuel).2
    have hrec : RecP P ops fn (fuel + 1) := by
      intro w a p i hw
      rw [walkRec]
      have h1 := hf w a p (some i) none hw
      cases hfe : fn w a p (some i) none with
      | mk sa oe =>
        rw [hfe] at h1
        obtain ⟨s1, a1⟩ := sa
        cases oe with
        | some e => exact h1
        | none =>
          simp only
          split
          · exact h1
          · have h2 := hr s1 p h1
            cases hrd : ops.readDirNames s1 p with
            | mk s2 r2 =>
              rw [hrd] at h2
              cases r2 with
              | error e => exact hf s2 a1 p (some i) (some e) h2
              | ok names => exact ih names s2 a1 p h2
    exact ⟨hrec, namesP_of_rec P ops fn hl hf hrec⟩

theorem walkTree_P (fuel : Nat) (w : World) (a : α) (root : Path) (hw : P w) :
    P (walkTree ops fn fuel w a root).1.1 := by
  unfold walkTree
  have h1 := hl w root hw
  cases hls : ops.lstat w root with
  | mk w1 r1 =>
    rw [hls] at h1
    cases r1 with
    | error e => exact hf w1 a root none (some e) h1
    | ok info => exact (walk_P P ops fn hl hr hf fuel).1 w1 a root info h1

end walk

theorem worldWalkOps_lstat_keeps (cfg : Cfg) (side : Side) (w : World) (p : Path) :
    ((worldWalkOps cfg side).lstat w p).1.infos = w.infos :=
  primInfo_keeps cfg side _ w

theorem worldWalkOps_readDir_keeps (cfg : Cfg) (side : Side) (w : World) (p : Path) :
    ((worldWalkOps cfg side).readDirNames w p).1.infos = w.infos := by
  have h : Keeps (fun w => w.infos) (do
      let h ← primOpen cfg side (.open_ p)
      let r ← attempt (hReaddirnames cfg h)
      let _ ← attempt (hClose h)
      match r with
      | .ok ns => pure (sortStrings ns)
      | .error e => M.throw e : M (List Name)) := by
    apply Keeps.bind (primOpen_keeps cfg side _); intro h
    apply Keeps.bind (Keeps.attempt (by
      unfold hReaddirnames
      apply Keeps.bind (primH_keeps_infos _ _ _ _); intro _
      apply Keeps.bind (Keeps.getW _); intro w'
      split
      · exact Keeps.pure _ _
      · exact Keeps.throw _ _)); intro r
    apply Keeps.bind (Keeps.attempt (hClose_keeps h)); intro _
    cases r with
    | ok ns => exact Keeps.pure _ _
    | error e => exact Keeps.throw _ _
  exact h w

theorem removeAllFn_P (hL : LstatN cfg N) (w : World) (a : List Path) (p : Path) (i : Option Info)
    (e : Option Err) (hw : AllN N w.infos) : AllN N (removeAllFn cfg w a p i e).1.1.infos := by
  unfold removeAllFn
  cases e with
  | some e => exact hw
  | none =>
    cases i with
    | none => exact hw
    | some i =>
      simp only
      split
      · exact hw
      · have h := (remove_pres hL p w hw).1
        cases hrm : remove cfg p w with
        | mk w' r =>
          rw [hrm] at h
          cases r <;> exact h

theorem removeEach_pres (hL : LstatN cfg N) : ∀ ds : List Path, Pres N (removeEach cfg ds) (fun _ => True)
  | [] => Pres.pure trivial
  | d :: ds => by
    unfold removeEach
    apply Pres.bind (remove_pres hL d); intro _ _
    exact removeEach_pres hL ds

theorem removeAll_pres (hL : LstatN cfg N) (name : Path) : Pres N (removeAll cfg name) (fun _ => True) := by
  unfold removeAll
  apply Pres.bind (Pres.of_keeps (realPath_keeps cfg name)); intro r _
  apply Pres.bind (Pres.of_keeps (Keeps.attempt (primInfo_keeps cfg .base _))); intro res _
  cases res with
  | error e => exact Pres.ite (Pres.pure trivial) Pres.throw
  | ok fi =>
    simp only
    apply Pres.ite (remove_pres hL r)
    apply Pres.bind (Q := fun _ => True)
    · intro w hw
      have h := walkTree_P (fun w => AllN N w.infos) (worldWalkOps cfg .base) (removeAllFn cfg)
        (fun w p hw => by rw [worldWalkOps_lstat_keeps]; exact hw)
        (fun w p hw => by rw [worldWalkOps_readDir_keeps]; exact hw)
        (fun w a p i e hw => removeAllFn_P hL w a p i e hw) 64 w [] r hw
      dsimp only
      cases hwt : walkTree (worldWalkOps cfg .base) (removeAllFn cfg) 64 w [] r with
      | mk sa oe =>
        rw [hwt] at h
        obtain ⟨w', dirs⟩ := sa
        cases oe <;> exact ⟨h, fun _ _ => trivial⟩
    · intro dirs _
      exact removeEach_pres hL _

/-! ### ForceBackup -/

theorem removeBackupFn_P (w : World) (a : List Path) (p : Path) (i : Option Info)
    (e : Option Err) (hw : AllN N w.infos) : AllN N (removeBackupFn cfg w a p i e).1.1.infos := by
  unfold removeBackupFn
  cases e with
  | some e => exact hw
  | none =>
    cases i with
    | none => exact hw
    | some i =>
      simp only
      split
      · exact hw
      · have hp : Pres N (do primUnit cfg .backup (.remove p); deleteInfo p : M Unit) (fun _ => True) := by
          apply Pres.bind (Pres.of_keeps (primUnit_keeps cfg .backup _)); intro _ _
          exact deleteInfo_pres p
        have h := (hp w hw).1
        cases hrm : (do primUnit cfg .backup (.remove p); deleteInfo p : M Unit) w with
        | mk w' r =>
          rw [hrm] at h
          cases r <;> exact h

theorem removeBackupDirs_pres : ∀ ds : List Path, Pres N (removeBackupDirs cfg ds) (fun _ => True)
  | [] => Pres.pure trivial
  | d :: ds => by
    unfold removeBackupDirs
    apply Pres.bind (Pres.of_keeps (primUnit_keeps cfg .backup _)); intro _ _
    apply Pres.bind (deleteInfo_pres d); intro _ _
    exact removeBackupDirs_pres ds

theorem tryRemoveBackup_pres (r : Path) : Pres N (tryRemoveBackup cfg r) (fun _ => True) := by
  unfold tryRemoveBackup
  apply Pres.bind (Pres.of_keeps (lookupInfo_keeps r)); intro li _
  cases li with
  | none => exact Pres.pure trivial
  | some x =>
    simp only
    apply Pres.bind (Q := fun _ => True)
    · apply Pres.bind (Pres.of_keeps (Keeps.attempt (primInfo_keeps cfg .backup _))); intro res _
      cases res with
      | ok i => exact Pres.pure trivial
      | error e => exact Pres.ite (Pres.pure trivial) Pres.throw
    · intro fi _
      cases fi with
      | none => exact deleteInfo_pres r
      | some i =>
        simp only
        apply Pres.ite
        · apply Pres.bind (Pres.of_keeps (primUnit_keeps cfg .backup _)); intro _ _
          exact deleteInfo_pres r
        · apply Pres.bind (Q := fun _ => True)
          · intro w hw
            have h := walkTree_P (fun w => AllN N w.infos) (worldWalkOps cfg .backup) (removeBackupFn cfg)
              (fun w p hw => by rw [worldWalkOps_lstat_keeps]; exact hw)
              (fun w p hw => by rw [worldWalkOps_readDir_keeps]; exact hw)
              (fun w a p i e hw => removeBackupFn_P w a p i e hw) 64 w [] r hw
            dsimp only
            cases hwt : walkTree (worldWalkOps cfg .backup) (removeBackupFn cfg) 64 w [] r with
            | mk sa oe =>
              rw [hwt] at h
              obtain ⟨w', dirs⟩ := sa
              cases oe <;> exact ⟨h, fun _ _ => trivial⟩
          · intro dirs _
            exact removeBackupDirs_pres _

theorem forceBackup_pres (hL : LstatN cfg N) (name : Path) : Pres N (forceBackup cfg name) (fun _ => True) := by
  unfold forceBackup
  apply Pres.bind (Pres.of_keeps (realPath_keeps cfg name)); intro r _
  apply Pres.bind (tryRemoveBackup_pres r); intro _ _
  exact tryBackup_pres hL r

/-! ### operations and histories -/

theorem writeClose_keeps (cfg : Cfg) (h : WHandle) (data : String) :
    Keeps (fun w => w.infos) (writeClose cfg h data) := by
  unfold writeClose
  apply Keeps.bind (Keeps.attempt (Keeps.whenM (hWrite_keeps cfg h 0 data))); intro r
  cases r with
  | error e =>
    apply Keeps.bind (Keeps.attempt (hClose_keeps h)); intro _
    exact Keeps.pure _ _
  | ok u =>
    apply Keeps.bind (Keeps.attempt (hClose_keeps h)); intro c
    cases c with
    | error e => exact Keeps.pure _ _
    | ok u' => exact Keeps.pure _ _

theorem unit_out {x : M Unit} (h : Pres N x (fun _ => True)) :
    Pres N (do x; pure OpOut.unit : M OpOut) (fun _ => True) :=
  Pres.bind h (fun _ _ => Pres.pure trivial)

theorem exec_pres (hL : LstatN cfg N) (op : Op) : Pres N (op.exec cfg) (fun _ => True) := by
  cases op with
  | creat p d =>
    unfold Op.exec
    apply Pres.bind (create_pres hL p); intro h _
    apply Pres.bind (Pres.of_keeps (writeClose_keeps cfg h d)); intro o _
    exact Pres.pure trivial
  | write p f pm d =>
    unfold Op.exec
    apply Pres.bind (openFile_pres hL p f pm); intro h _
    apply Pres.bind (Pres.of_keeps (writeClose_keeps cfg h d)); intro o _
    exact Pres.pure trivial
  | mkdir p m => exact unit_out (mkdir_pres hL p m)
  | mkdirAll p m => exact unit_out (mkdirAll_pres hL p m)
  | remove p => exact unit_out (remove_pres hL p)
  | removeAll p => exact unit_out (removeAll_pres hL p)
  | rename o n => exact unit_out (rename_pres hL o n)
  | symlink o n => exact unit_out (symlink_pres hL o n)
  | chmod p m => exact unit_out (chmod_pres hL p m)
  | chown p u g => exact unit_out (chown_pres hL p u g)
  | lchown p u g => exact unit_out (lchown_pres hL p u g)
  | chtimes p t => exact unit_out (chtimes_pres hL p t t)
  | stat p =>
    unfold Op.exec
    apply Pres.bind (Pres.of_keeps (stat_keeps cfg p)); intro _ _
    exact Pres.pure trivial
  | lstat p =>
    unfold Op.exec
    apply Pres.bind (Pres.of_keeps (lstat_keeps cfg p)); intro _ _
    exact Pres.pure trivial
  | readlink p =>
    unfold Op.exec
    apply Pres.bind (Pres.of_keeps (readlink_keeps cfg p)); intro _ _
    exact Pres.pure trivial
  | force p => exact unit_out (forceBackup_pres hL p)

/-- every operation — any argument, any outcome, any fault plan — records only what base `Lstat`
reported for the recorded path -/
theorem step_allN (hL : LstatN cfg N) (w : World) (op : Op) (hw : AllN N w.infos) :
    AllN N (op.step cfg w).infos :=
  (exec_pres hL op w hw).1

theorem runOps_allN (hL : LstatN cfg N) : ∀ (ops : List Op) (w : World), AllN N w.infos →
    AllN N (runOps cfg w ops).infos
  | [], _, hw => hw
  | op :: rest, w, hw => runOps_allN hL rest (op.step cfg w) (step_allN hL w op hw)

end J12
end BFS
