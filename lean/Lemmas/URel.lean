import Lemmas.TUmask
import Lemmas.LSimOS
/-!
  Lemmas/URel.lean — non-interference of the OS model for disks WITH symlinks, stated relative to the
  outcome of name resolution.

  `UEq bk m1 m2`: the two disks show the same at and below the base root `bk` up to what the base view
  (`L.osViewL`, erasure `L.eraseV (kp bk)`) erases — directory timestamps, a symlink's timestamp and mode
  bits, the base prefix of an absolute link target — and have the same umask.

  `NRel bk m1 m2 r1 r2`: the two resolutions `r1` (on `m1`) and `r2` (on `m2`) ended at the same place:
  the same key holding nodes equal up to the erasure, or the same live parent directory and final name,
  or the same error.  The TEXTS resolved may differ (the caller's name through symlinked directories on
  one side, BackupFS's resolved name on the other).

  Every mutating syscall of `Model/OS.lean` whose name resolutions are related gives the same result
  and leaves related disks (`*_rel`).  The only observable that depends on the text is the name stored
  in a handle (`Handle.name`): `openFile_rel` compares handles by `hcore`.
-/
namespace BFS
namespace U
open MFS

/-- what the base view shows of a node -/
abbrev ev (bk : Key) (n : Node) : Node := L.eraseV (kp bk) n

/-- same base view (at and below `bk`), same umask -/
structure UEq (bk : Key) (m1 m2 : MFS) : Prop where
  get : ∀ K, bk <+: K → (m1.get K).map (ev bk) = (m2.get K).map (ev bk)
  umask : m1.umask = m2.umask

section
variable {bk : Key}

theorem UEq.refl (bk : Key) (m : MFS) : UEq bk m m := ⟨fun _ _ => rfl, rfl⟩

theorem UEq.symm {m1 m2 : MFS} (h : UEq bk m1 m2) : UEq bk m2 m1 :=
  ⟨fun K hK => (h.get K hK).symm, h.umask.symm⟩

theorem UEq.trans {m1 m2 m3 : MFS} (h1 : UEq bk m1 m2) (h2 : UEq bk m2 m3) : UEq bk m1 m3 :=
  ⟨fun K hK => (h1.get K hK).trans (h2.get K hK), h1.umask.trans h2.umask⟩

theorem UEq.set {m1 m2 : MFS} (h : UEq bk m1 m2) (K : Key) {v1 v2 : Option Node}
    (hv : v1.map (ev bk) = v2.map (ev bk)) : UEq bk (m1.set K v1) (m2.set K v2) := by
  refine ⟨?_, h.umask⟩
  intro K' hK'
  rw [set_get, set_get]
  split
  · exact hv
  · exact h.get K' hK'

theorem UEq.touchDir {m1 m2 : MFS} (h : UEq bk m1 m2) (K K2 : Key) :
    UEq bk (m1.touchDir K) (m2.touchDir K2) := by
  refine ⟨?_, by rw [touchDir_umask, touchDir_umask]; exact h.umask⟩
  intro K' hK'
  show ((m1.touchDir K).get K').map (L.eraseV (kp bk)) = ((m2.touchDir K2).get K').map (L.eraseV (kp bk))
  rw [L.touchDir_eraseV, L.touchDir_eraseV]
  exact h.get K' hK'

theorem UEq.removeSubtree {m1 m2 : MFS} (h : UEq bk m1 m2) (K : Key) :
    UEq bk (m1.removeSubtree K) (m2.removeSubtree K) := by
  refine ⟨?_, h.umask⟩
  intro K' hK'
  rw [removeSubtree_get, removeSubtree_get]
  split
  · rfl
  · exact h.get K' hK'

theorem UEq.moveSubtree {m1 m2 : MFS} (h : UEq bk m1 m2) {Ko Kn : Key} (ho : bk <+: Ko) :
    UEq bk (m1.moveSubtree Ko Kn) (m2.moveSubtree Ko Kn) := by
  refine ⟨?_, h.umask⟩
  intro K' hK'
  rw [moveSubtree_get, moveSubtree_get]
  split
  · exact h.get _ (List.IsPrefix.trans ho (List.prefix_append _ _))
  · split
    · rfl
    · exact h.get K' hK'

/-! ### nodes equal up to the erasure -/

theorem ev_isDir {n1 n2 : Node} (h : ev bk n1 = ev bk n2) : n1.isDir = n2.isDir := by
  rw [← L.eraseV_isDir (kp bk) n1, ← L.eraseV_isDir (kp bk) n2]; exact congrArg Node.isDir h

theorem ev_isLink {n1 n2 : Node} (h : ev bk n1 = ev bk n2) : n1.isLink = n2.isLink := by
  rw [← L.eraseV_isLink (kp bk) n1, ← L.eraseV_isLink (kp bk) n2]; exact congrArg Node.isLink h

theorem ev_file_left {c : String} {mt : Meta} {n2 : Node} (h : ev bk (.file c mt) = ev bk n2) : n2 = .file c mt := by
  cases n2 with
  | file c2 mt2 => simp only [ev, L.eraseV, Node.file.injEq] at h; rw [h.1, h.2]
  | dir mt2 => simp [ev, L.eraseV] at h
  | link t2 mt2 => simp [ev, L.eraseV] at h

theorem ev_dir_left {mt1 : Meta} {n2 : Node} (h : ev bk (.dir mt1) = ev bk n2) :
    ∃ mt2, n2 = .dir mt2 ∧ mt1.mode = mt2.mode ∧ mt1.uid = mt2.uid ∧ mt1.gid = mt2.gid := by
  cases n2 with
  | dir mt2 =>
    simp only [ev, L.eraseV, Node.dir.injEq, Meta.mk.injEq] at h
    exact ⟨mt2, rfl, h.1, h.2.1, h.2.2.1⟩
  | file c2 mt2 => simp [ev, L.eraseV] at h
  | link t2 mt2 => simp [ev, L.eraseV] at h

theorem ev_link_left {t1 : Path} {mt1 : Meta} {n2 : Node} (h : ev bk (.link t1 mt1) = ev bk n2) :
    ∃ t2 mt2, n2 = .link t2 mt2 ∧ mt1.uid = mt2.uid ∧ mt1.gid = mt2.gid := by
  cases n2 with
  | link t2 mt2 =>
    simp only [ev, L.eraseV, Node.link.injEq, Meta.mk.injEq] at h
    exact ⟨t2, mt2, rfl, h.2.2.1, h.2.2.2.1⟩
  | file c2 mt2 => simp [ev, L.eraseV] at h
  | dir mt2 => simp [ev, L.eraseV] at h

theorem map_ev_some {a b : Option Node} {n1 : Node} (h : a.map (ev bk) = b.map (ev bk)) (ha : a = some n1) :
    ∃ n2, b = some n2 ∧ ev bk n1 = ev bk n2 := by
  subst ha
  cases b with
  | none => cases h
  | some n2 => exact ⟨n2, rfl, by simpa using h⟩

theorem map_ev_none {a b : Option Node} (h : a.map (ev bk) = b.map (ev bk)) (ha : a = none) : b = none := by
  subst ha
  cases b with
  | none => rfl
  | some n2 => cases h

theorem UEq.none_iff {m1 m2 : MFS} (hb : UEq bk m1 m2) {K : Key} (hK : bk <+: K) :
    m1.get K = none ↔ m2.get K = none :=
  ⟨fun h => map_ev_none (hb.get K hK) h, fun h => map_ev_none (hb.get K hK).symm h⟩

theorem UEq.dir_iff {m1 m2 : MFS} (hb : UEq bk m1 m2) {K : Key} (hK : bk <+: K) :
    (∃ mt, m1.get K = some (.dir mt)) ↔ ∃ mt, m2.get K = some (.dir mt) := by
  constructor
  · rintro ⟨mt, h⟩
    obtain ⟨n2, h2, he⟩ := map_ev_some (hb.get K hK) h
    obtain ⟨mt2, rfl, _⟩ := ev_dir_left he
    exact ⟨mt2, h2⟩
  · rintro ⟨mt, h⟩
    obtain ⟨n2, h2, he⟩ := map_ev_some (hb.get K hK).symm h
    obtain ⟨mt2, rfl, _⟩ := ev_dir_left he
    exact ⟨mt2, h2⟩

/-- no symlink at `K` on the one disk iff none on the other -/
theorem UEq.link_iff {m1 m2 : MFS} (hb : UEq bk m1 m2) {K : Key} (hK : bk <+: K) :
    (∃ t mt, m1.get K = some (.link t mt)) ↔ ∃ t mt, m2.get K = some (.link t mt) := by
  constructor
  · rintro ⟨t, mt, h⟩
    obtain ⟨n2, h2, he⟩ := map_ev_some (hb.get K hK) h
    obtain ⟨t2, mt2, rfl, _⟩ := ev_link_left he
    exact ⟨t2, mt2, h2⟩
  · rintro ⟨t, mt, h⟩
    obtain ⟨n2, h2, he⟩ := map_ev_some (hb.get K hK).symm h
    obtain ⟨t2, mt2, rfl, _⟩ := ev_link_left he
    exact ⟨t2, mt2, h2⟩

/-! ### related outcomes of name resolution -/

inductive NRel (bk : Key) (m1 m2 : MFS) : Res → Res → Prop
  | found (K : Key) (n1 n2 : Node) (hK : bk <+: K) (h1 : m1.get K = some n1) (h2 : m2.get K = some n2)
      (he : ev bk n1 = ev bk n2) : NRel bk m1 m2 (.found K n1) (.found K n2)
  | missing (P : Key) (c : Name) (mt1 mt2 : Meta) (hP : bk <+: P)
      (h1 : m1.get (P ++ [c]) = none) (h2 : m2.get (P ++ [c]) = none)
      (hp1 : m1.get P = some (.dir mt1)) (hp2 : m2.get P = some (.dir mt2))
      (hpe : ev bk (.dir mt1) = ev bk (.dir mt2)) : NRel bk m1 m2 (.missing P c) (.missing P c)
  | err (e : Err) : NRel bk m1 m2 (.err e) (.err e)

theorem NRel.split {m1 m2 : MFS} {r1 r2 : Res} (h : NRel bk m1 m2 r1 r2) :
    (∃ K n1 n2, r1 = .found K n1 ∧ r2 = .found K n2 ∧ bk <+: K ∧ m1.get K = some n1 ∧ m2.get K = some n2 ∧
      ev bk n1 = ev bk n2) ∨
    (∃ P c mt1 mt2, r1 = .missing P c ∧ r2 = .missing P c ∧ bk <+: P ∧ m1.get (P ++ [c]) = none ∧
      m2.get (P ++ [c]) = none ∧ m1.get P = some (.dir mt1) ∧ m2.get P = some (.dir mt2) ∧
      ev bk (.dir mt1) = ev bk (.dir mt2)) ∨
    (∃ e, r1 = .err e ∧ r2 = .err e) := by
  cases h with
  | found K n1 n2 hK h1 h2 he => exact Or.inl ⟨K, n1, n2, rfl, rfl, hK, h1, h2, he⟩
  | missing P c mt1 mt2 hP h1 h2 hp1 hp2 hpe => exact Or.inr (Or.inl ⟨P, c, mt1, mt2, rfl, rfl, hP, h1, h2, hp1, hp2, hpe⟩)
  | err e => exact Or.inr (Or.inr ⟨e, rfl, rfl⟩)

theorem inheritGid_rel {m1 m2 : MFS} {P : Key} {mt1 mt2 : Meta} (h1 : m1.get P = some (.dir mt1))
    (h2 : m2.get P = some (.dir mt2)) (he : ev bk (.dir mt1) = ev bk (.dir mt2)) :
    inheritGid m1 P = inheritGid m2 P := by
  obtain ⟨mt2', e, a, _, c⟩ := ev_dir_left he
  cases e
  rw [inheritGid_dir h1, inheritGid_dir h2, a, c]

/-! ### Mkdir, Symlink -/

theorem mkdir_rel {m1 m2 : MFS} (hb : UEq bk m1 m2) {t1 t2 : Path}
    (hn : NRel bk m1 m2 (namei m1 t1 false) (namei m2 t2 false)) (perm : Nat) :
    (m1.mkdir t1 perm).2 = (m2.mkdir t2 perm).2 ∧ UEq bk (m1.mkdir t1 perm).1 (m2.mkdir t2 perm).1 := by
  unfold MFS.mkdir
  rcases hn.split with ⟨K, n1, n2, e1, e2, _⟩ | ⟨P, c, mt1, mt2, e1, e2, hP, _, _, hp1, hp2, hpe⟩ | ⟨e, e1, e2⟩
  · rw [e1, e2]; exact ⟨rfl, hb⟩
  · rw [e1, e2]
    simp only [inheritGid_rel hp1 hp2 hpe, hb.umask]
    exact ⟨trivial, (hb.set _ rfl).touchDir _ _⟩
  · rw [e1, e2]; exact ⟨rfl, hb⟩

theorem symlink_rel {m1 m2 : MFS} (hb : UEq bk m1 m2) {t1 t2 : Path}
    (hn : NRel bk m1 m2 (namei m1 t1 false) (namei m2 t2 false)) (o : Path) :
    (m1.symlink o t1).2 = (m2.symlink o t2).2 ∧ UEq bk (m1.symlink o t1).1 (m2.symlink o t2).1 := by
  unfold MFS.symlink
  split
  · exact ⟨rfl, hb⟩
  rcases hn.split with ⟨K, n1, n2, e1, e2, _⟩ | ⟨P, c, mt1, mt2, e1, e2, hP, _, _, hp1, hp2, hpe⟩ | ⟨e, e1, e2⟩
  · rw [e1, e2]; exact ⟨rfl, hb⟩
  · rw [e1, e2]
    simp only [inheritGid_rel hp1 hp2 hpe]
    exact ⟨trivial, (hb.set _ rfl).touchDir _ _⟩
  · rw [e1, e2]; exact ⟨rfl, hb⟩

/-! ### OpenFile, Write -/

/-- what a handle is, but for the name it reports (the text it was opened with) -/
def hcore (h : Handle) : Key × Bool × Nat := (h.key, h.isDir, h.flag)

theorem openFile_rel {m1 m2 : MFS} (hb : UEq bk m1 m2) {t1 t2 : Path} (flag perm : Nat)
    (hn : NRel bk m1 m2 (namei m1 t1 (!(hasFlag flag O_CREATE && hasFlag flag O_EXCL)))
      (namei m2 t2 (!(hasFlag flag O_CREATE && hasFlag flag O_EXCL)))) :
    (m1.openFile t1 flag perm).2.map hcore = (m2.openFile t2 flag perm).2.map hcore ∧
      UEq bk (m1.openFile t1 flag perm).1 (m2.openFile t2 flag perm).1 ∧
      (∀ h, (m1.openFile t1 flag perm).2 = .ok h → bk <+: h.key) := by
  unfold MFS.openFile
  simp only
  rcases hn.split with ⟨K, n1, n2, e1, e2, hK, _, _, he⟩ | ⟨P, c, mt1, mt2, e1, e2, hP, _, _, hp1, hp2, hpe⟩ | ⟨e, e1, e2⟩
  · rw [e1, e2]
    simp only
    split
    · exact ⟨rfl, hb, fun h hh => by cases hh⟩
    · cases n1 with
      | link tg1 mt1 =>
        obtain ⟨tg2, mt2, rfl, _⟩ := ev_link_left he
        exact ⟨rfl, hb, fun h hh => by cases hh⟩
      | dir mt1 =>
        obtain ⟨mt2, rfl, _⟩ := ev_dir_left he
        simp only
        split
        · exact ⟨rfl, hb, fun h hh => by cases hh⟩
        · exact ⟨rfl, hb, fun h hh => by cases hh; exact hK⟩
      | file c1 mt1 =>
        have := ev_file_left he
        subst this
        simp only
        split
        · exact ⟨rfl, hb.set _ rfl, fun h hh => by cases hh; exact hK⟩
        · exact ⟨rfl, hb, fun h hh => by cases hh; exact hK⟩
  · rw [e1, e2]
    simp only
    split
    · exact ⟨rfl, hb, fun h hh => by cases hh⟩
    · simp only [inheritGid_rel hp1 hp2 hpe, hb.umask]
      exact ⟨rfl, (hb.set _ rfl).touchDir _ _,
        fun h hh => by cases hh; exact List.IsPrefix.trans hP (List.prefix_append _ _)⟩
  · rw [e1, e2]
    exact ⟨rfl, hb, fun h hh => by cases hh⟩

theorem hwrite_rel {m1 m2 : MFS} (hb : UEq bk m1 m2) {h1 h2 : Handle} (hc : hcore h1 = hcore h2)
    (hkey : bk <+: h1.key) (off : Nat) (d : String) :
    (m1.hwrite h1 off d).2 = (m2.hwrite h2 off d).2 ∧ UEq bk (m1.hwrite h1 off d).1 (m2.hwrite h2 off d).1 := by
  have hk : h2.key = h1.key := by
    have := congrArg Prod.fst hc; exact this.symm
  have hf : h2.flag = h1.flag := by
    have := congrArg (fun x => x.2.2) hc; exact this.symm
  unfold MFS.hwrite
  rw [hk, hf]
  split
  · exact ⟨rfl, hb⟩
  · have hget := hb.get h1.key hkey
    cases g1 : m1.get h1.key with
    | none =>
      rw [map_ev_none hget g1]
      exact ⟨rfl, hb⟩
    | some n1 =>
      obtain ⟨n2, g2, he⟩ := map_ev_some hget g1
      rw [g2]
      cases n1 with
      | file c mt =>
        have := ev_file_left he
        subst this
        simp only
        split
        · exact ⟨rfl, hb⟩
        · exact ⟨rfl, hb.set _ rfl⟩
      | dir mt =>
        obtain ⟨mt2, rfl, _⟩ := ev_dir_left he
        exact ⟨rfl, hb⟩
      | link tt mt =>
        obtain ⟨t2, mt2, rfl, _⟩ := ev_link_left he
        exact ⟨rfl, hb⟩

end

/-! ### Remove -/

section
variable {bk kk : Key}

theorem hasChildren_rel {m1 m2 : MFS} (hg1 : L.OSGoodL bk kk m1) (hg2 : L.OSGoodL bk kk m2) (hb : UEq bk m1 m2)
    {K : Key} (hK : bk <+: K) : m1.hasChildren K = m2.hasChildren K := by
  have hiff : m1.hasChildren K = false ↔ m2.hasChildren K = false := by
    rw [L.hasChildren_false_iff hg1, L.hasChildren_false_iff hg2]
    have hp : ∀ c, bk <+: K ++ [c] := fun c => List.IsPrefix.trans hK (List.prefix_append _ _)
    exact ⟨fun a c => (hb.none_iff (hp c)).mp (a c), fun a c => (hb.none_iff (hp c)).mpr (a c)⟩
  cases a : m1.hasChildren K <;> cases b : m2.hasChildren K <;> simp_all

theorem remove_rel {m1 m2 : MFS} (hg1 : L.OSGoodL bk kk m1) (hg2 : L.OSGoodL bk kk m2) (hb : UEq bk m1 m2)
    {t1 t2 : Path} (hn : NRel bk m1 m2 (namei m1 t1 false) (namei m2 t2 false)) :
    (m1.remove t1).2 = (m2.remove t2).2 ∧ UEq bk (m1.remove t1).1 (m2.remove t2).1 := by
  unfold MFS.remove
  rcases hn.split with ⟨K, n1, n2, e1, e2, hK, _, _, he⟩ | ⟨P, c, mt1, mt2, e1, e2, _⟩ | ⟨e, e1, e2⟩
  · rw [e1, e2]
    simp only
    split
    · exact ⟨rfl, hb⟩
    · cases n1 with
      | link tg1 mt1 =>
        obtain ⟨tg2, mt2, rfl, _⟩ := ev_link_left he
        exact ⟨rfl, (hb.set _ rfl).touchDir _ _⟩
      | dir mt1 =>
        obtain ⟨mt2, rfl, _⟩ := ev_dir_left he
        simp only [hasChildren_rel hg1 hg2 hb hK]
        split
        · exact ⟨rfl, hb⟩
        · exact ⟨rfl, (hb.set _ rfl).touchDir _ _⟩
      | file c1 mt1 =>
        have := ev_file_left he
        subst this
        exact ⟨rfl, (hb.set _ rfl).touchDir _ _⟩
  · rw [e1, e2]; exact ⟨rfl, hb⟩
  · rw [e1, e2]; exact ⟨rfl, hb⟩

end

/-! ### Chmod, Chown, Lchown, Chtimes -/

section
variable {bk : Key}

/-- node updates that respect equality up to the erasure -/
def EvCongr (bk : Key) (f : Node → Node) : Prop := ∀ n1 n2, ev bk n1 = ev bk n2 → ev bk (f n1) = ev bk (f n2)

theorem metaOp_rel {m1 m2 : MFS} (hb : UEq bk m1 m2) {t1 t2 : Path} (follow : Bool)
    (hn : NRel bk m1 m2 (namei m1 t1 follow) (namei m2 t2 follow)) {f : Node → Node} (hf : EvCongr bk f) :
    (metaOp m1 t1 follow f).2 = (metaOp m2 t2 follow f).2 ∧
      UEq bk (metaOp m1 t1 follow f).1 (metaOp m2 t2 follow f).1 := by
  unfold metaOp
  rcases hn.split with ⟨K, n1, n2, e1, e2, _, _, _, he⟩ | ⟨P, c, mt1, mt2, e1, e2, _⟩ | ⟨e, e1, e2⟩
  · rw [e1, e2]
    refine ⟨rfl, hb.set _ ?_⟩
    simp only [Option.map_some, Option.some.injEq]
    exact hf n1 n2 he
  · rw [e1, e2]; exact ⟨rfl, hb⟩
  · rw [e1, e2]; exact ⟨rfl, hb⟩

theorem evc_chmod (mode : Nat) : EvCongr bk (fun n => n.setMeta { n.meta with mode := mode &&& 0o7777 }) := by
  intro n1 n2 he
  cases n1 with
  | file c mt => have := ev_file_left he; subst this; rfl
  | dir mt =>
    obtain ⟨mt2, rfl, a, b, c⟩ := ev_dir_left he
    simp only [ev, L.eraseV, Node.setMeta, Node.meta, b, c]
  | link t mt =>
    obtain ⟨t2, mt2, rfl, b, c⟩ := ev_link_left he
    simp only [ev, L.eraseV, Node.link.injEq] at he
    simp only [ev, L.eraseV, Node.setMeta, Node.meta, b, c, he.1]

theorem evc_chtimes (t : Time) : EvCongr bk (fun n => n.setMeta { n.meta with mtime := t }) := by
  intro n1 n2 he
  cases n1 with
  | file c mt => have := ev_file_left he; subst this; rfl
  | dir mt =>
    obtain ⟨mt2, rfl, a, b, c⟩ := ev_dir_left he
    simp only [ev, L.eraseV, Node.setMeta, Node.meta, a, b, c]
  | link tg mt =>
    obtain ⟨t2, mt2, rfl, b, c⟩ := ev_link_left he
    simp only [ev, L.eraseV, Node.link.injEq] at he
    simp only [ev, L.eraseV, Node.setMeta, Node.meta, b, c, he.1]

theorem evc_chown (u g : Int) : EvCongr bk (chownF u g) := by
  intro n1 n2 he
  cases n1 with
  | file c mt => have := ev_file_left he; subst this; rfl
  | dir mt =>
    obtain ⟨mt2, rfl, a, b, c⟩ := ev_dir_left he
    simp only [ev, L.eraseV, chownF, Node.setMeta, Node.meta, Node.isLink, chownMode, Node.isDir, a, b, c]
    rfl
  | link tg mt =>
    obtain ⟨t2, mt2, rfl, b, c⟩ := ev_link_left he
    simp only [ev, L.eraseV, Node.link.injEq] at he
    simp only [ev, L.eraseV, chownF, Node.setMeta, Node.meta, Node.isLink, b, c, he.1]

end

/-! ### Rename -/

section
variable {bk kk : Key}

theorem rename_rel {m1 m2 : MFS} (hb : UEq bk m1 m2) {o1 n1 o2 n2 : Path}
    (hno : NRel bk m1 m2 (namei m1 o1 false) (namei m2 o2 false))
    (hnn : NRel bk m1 m2 (namei m1 n1 false) (namei m2 n2 false))
    (htxt : o1 = n1 ↔ o2 = n2) :
    (m1.rename o1 n1).2 = (m2.rename o2 n2).2 ∧ UEq bk (m1.rename o1 n1).1 (m2.rename o2 n2).1 := by
  unfold MFS.rename
  simp only
  have hne : (o1 ≠ n1) ↔ (o2 ≠ n2) := not_congr htxt
  rcases hnn.split with ⟨Kn, nn1, nn2, en1, en2, _, _, _, hen⟩ | ⟨Pn, cn, pmt1, pmt2, en1, en2, _⟩ | ⟨en, en1, en2⟩
  · rw [en1, en2]
    cases nn1 with
    | dir a =>
      obtain ⟨b, rfl, _⟩ := ev_dir_left hen
      -- an existing directory target: Go's pre-check
      rcases hno.split with ⟨Ko, no1, no2, eo1, eo2, _⟩ | ⟨_, _, _, _, eo1, eo2, _⟩ | ⟨eo, eo1, eo2⟩
      · rw [eo1, eo2]
        simp only
        by_cases hc : Ko = Kn ∧ o1 ≠ n1
        · have hc2 : Ko = Kn ∧ o2 ≠ n2 := ⟨hc.1, hne.mp hc.2⟩
          rw [if_pos hc, if_pos hc2]
          simp only [hc.1, if_true]
          exact ⟨trivial, hb⟩
        · have hc2 : ¬ (Ko = Kn ∧ o2 ≠ n2) := fun h => hc ⟨h.1, hne.mpr h.2⟩
          rw [if_neg hc, if_neg hc2]
          exact ⟨rfl, hb⟩
      · rw [eo1, eo2]; exact ⟨rfl, hb⟩
      · rw [eo1, eo2]; exact ⟨rfl, hb⟩
    | file c mt =>
      have := ev_file_left hen
      subst this
      rcases hno.split with ⟨Ko, no1, no2, eo1, eo2, hKo, _, _, heo⟩ | ⟨_, _, _, _, eo1, eo2, _⟩ | ⟨eo, eo1, eo2⟩
      · rw [eo1, eo2]
        simp only [ev_isDir heo]
        split
        · exact ⟨rfl, hb⟩
        split
        · exact ⟨rfl, hb⟩
        split
        · exact ⟨rfl, hb⟩
        split
        · exact ⟨rfl, hb⟩
        split
        · exact ⟨rfl, hb⟩
        · exact ⟨rfl, ((hb.moveSubtree hKo).touchDir _ _).touchDir _ _⟩
      · rw [eo1, eo2]; exact ⟨rfl, hb⟩
      · rw [eo1, eo2]; exact ⟨rfl, hb⟩
    | link tg mt =>
      obtain ⟨tg2, mt2, rfl, _⟩ := ev_link_left hen
      have hl1 : (Node.link tg mt).isDir = false := rfl
      have hl2 : (Node.link tg2 mt2).isDir = false := rfl
      rcases hno.split with ⟨Ko, no1, no2, eo1, eo2, hKo, _, _, heo⟩ | ⟨_, _, _, _, eo1, eo2, _⟩ | ⟨eo, eo1, eo2⟩
      · rw [eo1, eo2]
        simp only [ev_isDir heo, hl1, hl2]
        split
        · exact ⟨rfl, hb⟩
        split
        · exact ⟨rfl, hb⟩
        split
        · exact ⟨rfl, hb⟩
        split
        · exact ⟨rfl, hb⟩
        split
        · exact ⟨rfl, hb⟩
        · exact ⟨rfl, ((hb.moveSubtree hKo).touchDir _ _).touchDir _ _⟩
      · rw [eo1, eo2]; exact ⟨rfl, hb⟩
      · rw [eo1, eo2]; exact ⟨rfl, hb⟩
  · rw [en1, en2]
    rcases hno.split with ⟨Ko, no1, no2, eo1, eo2, hKo, _⟩ | ⟨_, _, _, _, eo1, eo2, _⟩ | ⟨eo, eo1, eo2⟩
    · rw [eo1, eo2]
      simp only
      split
      · exact ⟨rfl, hb⟩
      · exact ⟨rfl, ((hb.moveSubtree hKo).touchDir _ _).touchDir _ _⟩
    · rw [eo1, eo2]; exact ⟨rfl, hb⟩
    · rw [eo1, eo2]; exact ⟨rfl, hb⟩
  · rw [en1, en2]
    rcases hno.split with ⟨Ko, no1, no2, eo1, eo2, _⟩ | ⟨_, _, _, _, eo1, eo2, _⟩ | ⟨eo, eo1, eo2⟩
    all_goals (rw [eo1, eo2]; exact ⟨rfl, hb⟩)

end

end U
end BFS
