import Lemmas.UOpsB5
/-!
  Lemmas/UStepB.lean — tier 2 (C03 through flat symlinks), assembled: `Op.CoveredB` (what the success of the
  backup copy needs on top of `Op.CoveredU`), `op_stepB`, the histories `HistB` that keep the backup-side
  clauses, `history_keepsB`.
-/
namespace BFS
namespace U
open BackupFS MFS F16 L.G

/-- if the resolved key is a symlink, the BACKUP `PrefixFS` admits its copy -/
def BackupLinkOK {cfg : Cfg} (S : L.LSim cfg) (w : World) (r : Key) : Prop :=
  ∀ t mt, S.view .base w.fs r = some (.link t mt) → S.LinkOK .backup r t

/-- What the SUCCESS of the backup copy needs of an operation on top of `Op.CoveredU`: the backup side admits
the copy of a final symlink (non-following operations); `Remove`/`RemoveAll` not of the root; `OpenFile` for
writing on a resolved key that is not a symlink (also with `O_CREATE|O_EXCL`). -/
def Op.CoveredB {cfg : Cfg} (bk : Key) (S : L.LSim cfg) (w : World) : Op → Prop
  | .mkdir p _ | .lchown p _ _ | .symlink _ p => ∀ k, PKey k → clean p = kp k → BackupLinkOK S w (rk bk w k)
  | .remove p | .removeAll p => clean p ≠ rootP ∧ ∀ k, PKey k → clean p = kp k → BackupLinkOK S w (rk bk w k)
  | .rename o n => ∀ ko kn, PKey ko → PKey kn → clean o = kp ko → clean n = kp kn →
      BackupLinkOK S w (rk bk w ko) ∧ BackupLinkOK S w (rk bk w kn)
  | .write p flag _ _ => flag = O_RDONLY ∨ ∀ k, PKey k → clean p = kp k → NotLinkAt S w (rk bk w k)
  | _ => True

section
variable {bk kk : Key}

theorem linkOKBoth_of {hr : Roots bk kk} {w : World} {r : Key} (h1 : LinkOKAt (osSimLR hr) w r)
    (h2 : BackupLinkOK (osSimLR hr) w r) : LinkOKBoth bk kk w r :=
  fun t mt hv => ⟨h1 t mt hv, h2 t mt hv⟩

theorem key_ne_of_clean {p : Path} {k : Key} (h : clean p ≠ rootP) (hname : clean p = kp k) : k ≠ [] := by
  intro e; subst e; exact h hname

theorem op_stepB (hr : Roots bk kk) {v0 : View} {r0 : Option Node} {w : World} {op : Op}
    (hinv : L.Inv (osSimLR hr) v0 w) (hb : BInvL (osSimLR hr) r0 w)
    (hc : Op.CoveredU bk (osSimLR hr) w op) (hcb : Op.CoveredB bk (osSimLR hr) w op) : StepB hr r0 w op := by
  cases op with
  | creat p d =>
    obtain ⟨habs, hflat, h⟩ := hc
    obtain ⟨k, hk, hname⟩ := clean_abs habs
    obtain ⟨hlen, hnl⟩ := h k hk hname
    exact creat_stepB hr hinv hb hflat hk hname hlen (notLink_get hnl) d
  | write p f pm d =>
    rcases hc with hro | ⟨habs, hflat, h⟩
    · exact readonly_stepB hr hb (op := .write p f pm d) hro
    · by_cases hro : f = O_RDONLY
      · exact readonly_stepB hr hb (op := .write p f pm d) hro
      · obtain ⟨k, hk, hname⟩ := clean_abs habs
        obtain ⟨hlen, hlok, _⟩ := h k hk hname
        rcases hcb with h1 | h1
        · exact absurd h1 hro
        · have hnl := h1 k hk hname
          exact write_stepB hr hinv hb hflat hk hname hlen f pm hro
            (linkOKBoth_of_notLink (notLink_get hnl)) (notLink_get hnl) d
  | mkdir p m =>
    obtain ⟨habs, hflat, h⟩ := hc
    obtain ⟨k, hk, hname⟩ := clean_abs habs
    obtain ⟨hlen, hlok⟩ := h k hk hname
    exact mkdir_stepB hr hinv hb hflat hk hname hlen (linkOKBoth_of hlok (hcb k hk hname)) m
  | mkdirAll p m =>
    obtain ⟨habs, hflat, h⟩ := hc
    obtain ⟨k, hk, hname⟩ := clean_abs habs
    obtain ⟨hlen, hnl, hpar⟩ := h k hk hname
    refine mkdirAll_stepB hr hinv hb hflat hk hname (notLink_get hnl) ?_ m
    rcases hpar with h1 | h1
    · left
      intro hnone
      apply h1
      show L.osViewL bk kk .base w.fs (rk bk w k) = none
      rw [L.osViewL_eq]
      show (w.fs.get (bk ++ rk bk w k)).map _ = none
      rw [hnone]; rfl
    · right
      exact L.osViewL_isDirAt (s := .base) h1
  | remove p =>
    obtain ⟨habs, hflat, h⟩ := hc
    obtain ⟨k, hk, hname⟩ := clean_abs habs
    obtain ⟨hlen, hlok⟩ := h k hk hname
    exact remove_stepB hr hinv hb hflat hk hname (key_ne_of_clean hcb.1 hname) hlen
      (linkOKBoth_of hlok (hcb.2 k hk hname))
  | removeAll p =>
    obtain ⟨habs, hflat, h⟩ := hc
    obtain ⟨k, hk, hname⟩ := clean_abs habs
    obtain ⟨hlen, hlok, hnd⟩ := h k hk hname
    exact removeAll_stepB hr hinv hb hflat hk hname (key_ne_of_clean hcb.1 hname)
      (linkOKBoth_of hlok (hcb.2 k hk hname))
      (fun mt hget => hnd (L.osViewL_isDirAt_of (s := .base) hget))
  | rename o n =>
    obtain ⟨ha1, ha2, hflat, h⟩ := hc
    obtain ⟨ko, hko, ho⟩ := clean_abs ha1
    obtain ⟨kn, hkn, hn⟩ := clean_abs ha2
    obtain ⟨hl1, hl2, hlo, hln, _⟩ := h ko kn hko hkn ho hn
    obtain ⟨hbo, hbn⟩ := hcb ko kn hko hkn ho hn
    exact rename_stepB hr hinv hb hflat hko hkn ho hn hl1 hl2 (linkOKBoth_of hlo hbo) (linkOKBoth_of hln hbn)
  | symlink o n =>
    obtain ⟨habs, hflat, h⟩ := hc
    obtain ⟨k, hk, hname⟩ := clean_abs habs
    obtain ⟨hlen, hlok, _⟩ := h k hk hname
    exact symlink_stepB hr hinv hb hflat hk hname hlen (linkOKBoth_of hlok (hcb k hk hname)) o
  | chmod p m =>
    obtain ⟨habs, hflat, h⟩ := hc
    obtain ⟨k, hk, hname⟩ := clean_abs habs
    obtain ⟨hlen, hnl⟩ := h k hk hname
    exact chmod_stepB hr hinv hb hflat hk hname hlen (notLink_get hnl) m
  | chown p u g =>
    obtain ⟨habs, hflat, h⟩ := hc
    obtain ⟨k, hk, hname⟩ := clean_abs habs
    obtain ⟨hlen, hnl⟩ := h k hk hname
    exact chown_stepB hr hinv hb hflat hk hname hlen (notLink_get hnl) u g
  | lchown p u g =>
    obtain ⟨habs, hflat, h⟩ := hc
    obtain ⟨k, hk, hname⟩ := clean_abs habs
    obtain ⟨hlen, hlok⟩ := h k hk hname
    exact lchown_stepB hr hinv hb hflat hk hname hlen (linkOKBoth_of hlok (hcb k hk hname)) u g
  | chtimes p t =>
    obtain ⟨habs, hflat, h⟩ := hc
    obtain ⟨k, hk, hname⟩ := clean_abs habs
    obtain ⟨hlen, hnl⟩ := h k hk hname
    exact chtimes_stepB hr hinv hb hflat hk hname hlen (notLink_get hnl) t
  | stat p => exact readonly_stepB hr hb (op := .stat p) trivial
  | lstat p => exact readonly_stepB hr hb (op := .lstat p) trivial
  | readlink p => exact readonly_stepB hr hb (op := .readlink p) trivial
  | force p => exact absurd hc id

/-- a history every operation of which is covered by C01's through-flat-links fragment (so `L.Inv` is kept)
and by the finished classes of C03 with the extra demands of `CoveredB` (so the backup-side clauses are kept) -/
def HistB (bk kk : Key) (hr : Roots bk kk) : World → List Op → Prop
  | _, [] => True
  | w, op :: rest =>
    (L.G.Op.Covered bk (osSimLR hr) w op ∧ Op.CoveredU bk (osSimLR hr) w op ∧ Op.CoveredB bk (osSimLR hr) w op) ∧
      HistB bk kk hr (op.step (osCfg bk kk) w) rest

theorem history_keepsB (hr : Roots bk kk) {v0 : View} {r0 : Option Node} : ∀ (ops : List Op) (w : World),
    L.Inv (osSimLR hr) v0 w → BInvL (osSimLR hr) r0 w → HistB bk kk hr w ops →
    L.Inv (osSimLR hr) v0 (runOps (osCfg bk kk) w ops) ∧ BInvL (osSimLR hr) r0 (runOps (osCfg bk kk) w ops)
  | [], w, hinv, hb, _ => ⟨hinv, hb⟩
  | op :: rest, w, hinv, hb, hc => by
    have h1 := L.G.op_keeps (hbk := hr.pb) (hkk := hr.pk) (hne1 := hr.nb) (hne2 := hr.nk) (hd1 := hr.d1) (hd2 := hr.d2)
      hinv hc.1.1
    have h2 := (op_stepB hr hinv hb hc.1.2.1 hc.1.2.2).binv
    exact history_keepsB hr rest (op.step (osCfg bk kk) w) h1.inv h2 hc.2

end

end U
end BFS
