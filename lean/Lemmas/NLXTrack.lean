import Lemmas.NLXInv
import Lemmas.NLBTrack
/-!
  Lemmas/NLXTrack.lean (copy of Lemmas/LXTrack.lean over `NL.Sim`) — `backupRequired`, `backupDirs`, `tryBackup` (incl. its symlink branch),
  `prepare` over an `LSim` keep the invariant `NL.InvX` (exactness of the recorded backup copies) under
  EVERY fault plan: a key is recorded only after its copy helper returned ok, and a copy helper that
  returns ok leaves the original at the target, whatever was there before:
  * `copyFile` (Lemmas/LCopy.lean, `sat_copyFile`): ok ⇒ `restoredFile data i`;
  * `copyDir` (`sat_copyDir_x` below): ok ⇒ `restoredDir i`; over an orphan that is not a directory its
    `MkdirAll` fails; it touches no other key because the parent already is an (exact) backup directory;
  * `copySymlink` (`sat_copySymlink`): ok ⇒ a symlink with the reported text and the owner of the `FileInfo`.
-/
set_option linter.unusedSectionVars false
namespace BFS
namespace NL
open BackupFS

variable {cfg : Cfg} {S : Sim cfg} [BackupPlain S] {v0 : View}

/-- `MkdirAll` returns no value (either side, any arguments): a fact about the filesystems that the
contract `LSim` does not state; for the OS model behind two `PrefixFS` layers see Lemmas/LXOS.lean -/
def MkdirAllUnit (cfg : Cfg) : Prop :=
  ∀ (s : Side) (m : MFS) (p : Path) (perm : Nat) (m' : MFS) (ret : Ret),
    (cfg.side s).call m (.mkdirAll p perm) = (m', .ok ret) → ret = .unit

/-! ### copyDir: ok means exact, whatever sat at the target -/

/-- `copyDir` over a target that is neither absent nor a directory nor a symlink (an orphan file): the
`MkdirAll` fails, nothing but the target key is concerned -/
theorem sat_copyDir_nondir (hmk : MkdirAllUnit cfg) {s : Side} {d : Key} {i : Info} {w : World} (hg : S.G w.fs) (hd : PKey d)
    (hne : d ≠ []) (hdir : i.isDir = true) (hpar : (S.view s w.fs).parentDir d)
    (hnl : ¬ isLinkAt (S.view s w.fs) d)
    (hcur : ¬ (S.view s w.fs d = none ∨ (S.view s w.fs).isDirAt d)) :
    Sat (copyDir cfg s (kp d) i) w (fun w' r => S.Chg s (· = d) w w' ∧ r ≠ .ok ()) := by
  have hacc : AccF (S.view s w.fs) d := ⟨S.noLinkAnc_parentDir hg hpar, hnl⟩
  unfold copyDir
  apply Sat.wrapped
  have hroot : ¬ kp d = rootP := fun h => hne ((kp_eq_root_iff hd).mp h)
  simp only [hdir, Bool.not_true, Bool.false_eq_true, if_false, hroot]
  apply Sat.bind
  unfold primUnit
  apply Sat.bind
  apply Sat.primCall
  · intro _ w1 h1
    exact ⟨Sim.Chg.of_same hg h1, by intro h; cases h⟩
  · intro w1 h1
    cases heq : (cfg.side s).call w.fs (.mkdirAll (kp d) (i.perm &&& 0o777)) with
    | mk m' r =>
      obtain ⟨g, o, f, fl, hdirAt⟩ := S.mkdirAll_frame hg hd hacc heq
      have hchg : S.Chg s (· = d) w { w1 with fs := m' } := by
        refine ⟨⟨g, o, ?_, h1.infos, h1.faults⟩, ?_⟩
        · intro j hj
          by_cases hpre : j <+: d
          · -- a proper ancestor of `d`: a live directory, which `MkdirAll` leaves alone
            have hjd : (S.view s w.fs).isDirAt j := by
              have hp' : j <+: d.dropLast := prefix_proper_dropLast hpre hj
              obtain ⟨mt, hmt⟩ := hpar.2
              by_cases he : j = d.dropLast
              · rw [he]; exact ⟨mt, hmt⟩
              · exact (S.goodView hg s).ancestors (by rw [hmt]; simp) hp' he
            rcases fl j with e | ⟨hn, _⟩
            · exact e
            · obtain ⟨mt, hmt⟩ := hjd
              rw [hmt] at hn; cases hn
          · exact f j hpre
        · intro j t mt' hl
          rcases fl j with e | ⟨_, mt, hdir'⟩
          · exact ⟨mt', by rw [← e]; exact hl⟩
          · simp only at hl hdir'
            rw [hdir'] at hl; cases hl
      simp only
      cases r with
      | error e => exact ⟨hchg, by intro h; cases h⟩
      | ok ret =>
        exfalso
        have hret : ret = .unit := hmk s w.fs (kp d) (i.perm &&& 0o777) m' ret heq
        subst hret
        obtain ⟨mt, hmt⟩ := hdirAt rfl
        rcases fl d with e | ⟨hn, _⟩
        · exact hcur (Or.inr ⟨mt, by rw [← e]; exact hmt⟩)
        · exact hcur (Or.inl hn)

/-- `copyDir(kp d, i)` below a directory, the target not a symlink: confined to `d`, and ok means the
target is the directory `i` describes -/
theorem sat_copyDir_x (hmk : MkdirAllUnit cfg) {s : Side} {d : Key} {i : Info} {w : World} (hg : S.G w.fs) (hd : PKey d)
    (hne : d ≠ []) (hdir : i.isDir = true) (hperm : i.perm < 4096) (hvis : ¬ S.Hid s d)
    (hpar : (S.view s w.fs).parentDir d) (hnl : ¬ isLinkAt (S.view s w.fs) d) :
    Sat (copyDir cfg s (kp d) i) w (fun w' r => S.Chg s (· = d) w w' ∧
      (r = .ok () → S.view s w'.fs d = some (restoredDir i))) := by
  by_cases hcur : S.view s w.fs d = none ∨ (S.view s w.fs).isDirAt d
  · exact (sat_copyDir_strong (S := S) (s := s) (i := i) hg hd hne hdir hperm hvis hpar hcur).mono
      (fun _ _ ⟨hc, _, hp⟩ => ⟨hc, hp⟩)
  · exact (sat_copyDir_nondir hmk (S := S) (s := s) (i := i) hg hd hne hdir hpar hnl hcur).mono
      (fun _ _ ⟨hc, hr⟩ => ⟨hc, fun h => absurd h hr⟩)

/-! ### backupRequired -/

theorem sat_backupRequired_x {k : Key} {w : World} (hinv : InvX S v0 w) (hk : PKey k)
    (hacc : NoLinkAnc (S.view .base w.fs) k) :
    Sat (backupRequired cfg (kp k)) w (fun w' _ => XInv S v0 w') := by
  unfold backupRequired lookupInfo
  apply Sat.bind
  apply Sat.bind
  apply Sat.getW
  simp only
  apply Sat.pure
  simp only
  cases hl : w.infos.lookup (kp k) with
  | some info =>
    simp only
    apply Sat.pure
    exact hinv.x
  | none =>
    simp only
    apply Sat.bind
    apply Sat.attempt
    apply (sat_lstat hinv.good hk hacc).mono
    intro w1 r ⟨hs, hr⟩
    have hb1 := hinv.x.of_same hs
    have hl1 : w1.infos.lookup (kp k) = none := by rw [hs.infos]; exact hl
    simp only
    rcases hr with ⟨n, i, hv, rfl, hfor⟩ | ⟨hv, e, rfl, hnf⟩ | ⟨rfl, hf⟩
    · simp only
      apply Sat.pure
      exact hb1
    · simp only [hnf, if_true]
      apply Sat.bind
      apply Sat.of_eq (setInfo_untracked hl1)
      simp only
      apply Sat.pure
      exact hb1.add_plain (fun _ _ _ _ _ h => by cases h)
    · simp only [Err.isNotFound, Bool.false_eq_true, if_false]
      apply Sat.throw
      exact hb1

theorem sat_backupRequiredX {k : Key} {w : World} (hinv : InvX S v0 w) (hk : PKey k)
    (hacc : NoLinkAnc (S.view .base w.fs) k) :
    Sat (backupRequired cfg (kp k)) w (fun w' r => AdvX S v0 w w' ∧ OnlyAdded (· = k) w w' ∧
      ∀ oi req, r = .ok (oi, req) →
        (req = false → w'.infos.lookup (kp k) = some oi) ∧
        (req = true → w'.infos.lookup (kp k) = none ∧
          ∃ i n, oi = some i ∧ S.view .base w'.fs k = some n ∧ InfoForL i n)) :=
  ((sat_backupRequired hinv.inv hk hacc).and (sat_backupRequired_x hinv hk hacc)).mono
    (fun _ _ ⟨⟨ha, ho, hres⟩, hb⟩ => ⟨⟨ha, hb⟩, ho, hres⟩)

/-! ### backupDirs -/

/-- one step of the `backupDirs` visitor, for a key all of whose proper ancestors are tracked -/
theorem sat_visit_consX (hmk : MkdirAllUnit cfg) {a : Key} {rest : List Path} {w : World}
    {Q : World → Except Err Unit → Prop}
    (hinv : InvX S v0 w) (ha : PKey a) (hacc : NoLinkAnc (S.view .base w.fs) a)
    (hpre : ∀ b, b <+: a → b ≠ a → Tracked w b)
    (hstop : ∀ w' e, AdvX S v0 w w' → OnlyAdded (· = a) w w' → Q w' (.error e))
    (hnext : ∀ w', AdvX S v0 w w' → OnlyAdded (· = a) w w' → Tracked w' a →
      Sat (backupDirsVisit cfg rest) w' Q) :
    Sat (backupDirsVisit cfg (kp a :: rest)) w Q := by
  unfold backupDirsVisit
  apply Sat.bind
  apply (sat_backupRequiredX hinv ha hacc).mono
  intro w1 r ⟨hadv1, hon1, hres⟩
  cases r with
  | error e => exact hstop w1 e hadv1 hon1
  | ok pr =>
    obtain ⟨fi, required⟩ := pr
    obtain ⟨hfalse, htrue⟩ := hres fi required rfl
    simp only
    cases required with
    | false =>
      simp only [Bool.not_false, if_true]
      apply hnext w1 hadv1 hon1
      unfold Tracked
      rw [(hfalse rfl)]
      simp
    | true =>
      simp only [Bool.not_true, Bool.false_eq_true, if_false]
      obtain ⟨hun1, i, n, rfl, hv1, hfor⟩ := htrue rfl
      simp only
      have hinv1 := hadv1.inv
      have hg1 := hinv1.good
      cases hisd : i.isDir with
      | false =>
        -- `copyDir` refuses before any call
        apply Sat.bind
        apply Sat.of_eq (copyDir_not_dir hisd)
        exact hstop _ _ hadv1 hon1
      | true =>
        obtain ⟨mt, hn⟩ := infoForL_dir hfor hisd
        subst hn
        have hanc : ∀ b, b <+: a → b ≠ a → w1.infos.lookup (kp b) ≠ none :=
          fun b hb hne => (hpre b hb hne).monoNLX hadv1
        by_cases hroot : a = []
        · -- the root itself: nothing is copied
          subst hroot
          apply Sat.bind
          apply Sat.of_eq (copyDir_root (cfg := cfg) (s := .backup) (i := i) (w := w1) hisd)
          simp only
          apply Sat.bind
          apply Sat.of_eq (setInfo_untracked hun1)
          simp only
          have hinv3 := hinv1.inv.add_some (i := i) ha hun1 hv1 hfor
            (by intro c mt' e; cases e) (by intro t mt' e; cases e) hanc
          have hb3 : XInv S v0 (addInfo w1 (kp []) (some i)) :=
            hinv1.x.add_plain (fun j _ hj hjne e _ => hjne (kp_inj hj PKey.nil e.symm))
          have hadv3 : AdvX S v0 w1 (addInfo w1 (kp []) (some i)) :=
            ⟨Adv.add (S := S) (v0 := v0) (x := some i) ha hun1 hinv3, hb3⟩
          apply hnext _ (hadv1.trans hadv3) (hon1.trans (OnlyAdded.add ha))
          unfold Tracked
          rw [show (addInfo w1 (kp []) (some i)).infos.lookup (kp []) = some (some i) from
            lookup_snoc_self hun1]
          simp
        · have hperm : i.perm < 4096 := by rw [hfor.2.1]; exact S.mode_lt hg1 hv1
          have hpar : (S.view .backup w1.fs).parentDir a :=
            ⟨hroot, hinv1.parent_bdir ha hroot hun1 (by rw [hv1]; simp)
              (hanc a.dropLast (List.dropLast_prefix a) (by
                intro e; have := dropLast_length_lt hroot; rw [e] at this; omega))⟩
          have hnl : ¬ isLinkAt (S.view .backup w1.fs) a :=
            hinv1.inv.backup_notLink hun1 (isLinkAt_not_dir ⟨mt, hv1⟩)
          apply Sat.bind
          apply (sat_copyDir_x hmk (S := S) (s := .backup) (i := i) hg1 ha hroot hisd hperm (BackupPlain.bvis a) hpar hnl).mono
          intro w2 r2 ⟨hc2, hp2⟩
          have hadv2 : Adv S v0 w1 w2 := Adv.backup_soft hinv1.inv ha hun1 hc2.soft
          have hx2 : XInv S v0 w2 := hinv1.x.backup_step hun1 hc2.toChgL
          have hadvx2 : AdvX S v0 w1 w2 := ⟨hadv2, hx2⟩
          have hon2 : OnlyAdded (· = a) w1 w2 := OnlyAdded.of_infos hc2.infos
          cases r2 with
          | error e => exact hstop _ e (hadv1.trans hadvx2) (hon1.trans hon2)
          | ok u =>
            simp only
            have hun2 : w2.infos.lookup (kp a) = none := by rw [hc2.infos]; exact hun1
            have hv2 : S.view .base w2.fs a = some (.dir mt) := by rw [hadv2.base]; exact hv1
            have hinv3 := hadv2.inv.add_some (i := i) ha hun2 hv2 hfor
              (by intro c mt' e; cases e) (by intro t mt' e; cases e)
              (fun b hb hne => (hanc b hb hne |> fun h => (show Tracked w1 b from h).monoNL hadv2))
            have hex : S.view .backup w2.fs a = v0 a := by
              rw [hp2 rfl, ← hinv1.inv.frame a ha hun1, hv1, restoredDir_eq hfor (S.erased hg1 hv1)]
            have hb3 := hx2.record (i := i) ha hex
            apply Sat.bind
            apply Sat.of_eq (setInfo_untracked hun2)
            simp only
            have hadv3 : AdvX S v0 w2 (addInfo w2 (kp a) (some i)) := ⟨Adv.add ha hun2 hinv3, hb3⟩
            apply hnext _ ((hadv1.trans hadvx2).trans hadv3)
              ((hon1.trans hon2).trans (OnlyAdded.add ha))
            unfold Tracked
            rw [show (addInfo w2 (kp a) (some i)).infos.lookup (kp a) = some (some i) from
              lookup_snoc_self hun2]
            simp

/-- the visitor over the remaining ancestors `pre ++ [x₁]`, `pre ++ [x₁, x₂]`, … -/
theorem sat_visitX (hmk : MkdirAllUnit cfg) : ∀ (xs : List Name) (pre : Key) (w : World), PKey (pre ++ xs) →
    InvX S v0 w → NoLinkAnc (S.view .base w.fs) (pre ++ xs) →
    (∀ b, b <+: pre → Tracked w b) →
    Sat (backupDirsVisit cfg ((inits1 xs).map (fun l => kp (pre ++ l)))) w (fun w' r =>
      AdvX S v0 w w' ∧ OnlyAdded (· <+: pre ++ xs) w w' ∧
        (r = .ok () → ∀ b, b <+: pre ++ xs → Tracked w' b))
  | [], pre, w, _, hinv, _, hpre => by
    simp only [inits1, List.map_nil, backupDirsVisit, List.append_nil]
    apply Sat.pure
    exact ⟨AdvX.refl hinv, OnlyAdded.refl w, fun _ => hpre⟩
  | x :: xs, pre, w, hpk, hinv, hacc, hpre => by
    have hlist : (inits1 (x :: xs)).map (fun l => kp (pre ++ l)) =
        kp (pre ++ [x]) :: (inits1 xs).map (fun l => kp ((pre ++ [x]) ++ l)) := by
      simp [inits1, List.map_map, Function.comp_def]
    rw [hlist]
    have happ : (pre ++ [x]) ++ xs = pre ++ x :: xs := by simp
    have hpfx : pre ++ [x] <+: pre ++ x :: xs := ⟨xs, happ⟩
    have ha : PKey (pre ++ [x]) := hpk.of_prefix hpfx
    have hsub : ∀ j, j = pre ++ [x] → j <+: pre ++ x :: xs := by
      intro j hj; subst hj; exact hpfx
    apply sat_visit_consX hmk hinv ha (hacc.of_prefix hpfx)
    · intro b hb hne
      rcases prefix_snoc_iff.mp hb with h | h
      · exact hpre b h
      · exact absurd h hne
    · intro w' e hadv hon
      refine ⟨hadv, hon.mono hsub, ?_⟩
      intro h; cases h
    · intro w' hadv hon htr
      have hpre' : ∀ b, b <+: pre ++ [x] → Tracked w' b := by
        intro b hb
        rcases prefix_snoc_iff.mp hb with h | h
        · exact (hpre b h).monoNLX hadv
        · subst h; exact htr
      have ih := sat_visitX hmk xs (pre ++ [x]) w' (by rw [happ]; exact hpk) hadv.inv
        (by rw [happ, hadv.base]; exact hacc) hpre'
      rw [happ] at ih
      apply ih.mono
      intro w'' r ⟨hadv', hon', hall⟩
      exact ⟨hadv.trans hadv', (hon.mono hsub).trans hon', hall⟩

theorem sat_backupDirsX (hmk : MkdirAllUnit cfg) {d : Key} {w : World} (hinv : InvX S v0 w) (hd : PKey d)
    (hacc : NoLinkAnc (S.view .base w.fs) d) :
    Sat (backupDirs cfg (kp d)) w (fun w' r => AdvX S v0 w w' ∧ OnlyAdded (· <+: d) w w' ∧
      (r = .ok () → ∀ b, b <+: d → Tracked w' b)) := by
  unfold backupDirs
  rw [iterateDirTree_kp hd]
  have hroot : rootP = kp [] := rfl
  rw [hroot]
  apply sat_visit_consX hmk hinv PKey.nil (NoLinkAnc.root _)
  · intro b hb hne
    exact absurd (List.prefix_nil.mp hb) hne
  · intro w' e hadv hon
    refine ⟨hadv, hon.mono (fun j hj => by subst hj; exact List.nil_prefix), ?_⟩
    intro h; cases h
  · intro w' hadv hon htr
    have := sat_visitX hmk (cfg := cfg) d [] w' (by simpa using hd) hadv.inv
      (by simp only [List.nil_append]; rw [hadv.base]; exact hacc)
      (by intro b hb; rw [List.prefix_nil.mp hb]; exact htr)
    simp only [List.nil_append] at this
    apply this.mono
    intro w'' r ⟨hadv', hon', hall⟩
    exact ⟨hadv.trans hadv', (hon.mono (fun j hj => by subst hj; exact List.nil_prefix)).trans hon', hall⟩

/-! ### tryBackup -/

theorem sat_tryBackupX (hmk : MkdirAllUnit cfg) {k : Key} {w : World} (hinv : InvX S v0 w) (hk : PKey k)
    (hacc : NoLinkAnc (S.view .base w.fs) k)
    (hlok : ∀ t mt, S.view .base w.fs k = some (.link t mt) → S.LinkOK .base k t) :
    Sat (tryBackup cfg (kp k)) w (fun w' r => AdvX S v0 w w' ∧ OnlyAdded (· <+: k) w w' ∧
      (r = .ok () → ∀ b, b <+: k → Tracked w' b)) := by
  unfold tryBackup
  apply Sat.bind
  apply (sat_backupRequiredX hinv hk hacc).mono
  intro w1 r1 ⟨hadv1, hon1', hres⟩
  have hon1 : OnlyAdded (· <+: k) w w1 := hon1'.mono (fun j hj => by subst hj; exact List.prefix_rfl)
  cases r1 with
  | error e => exact ⟨hadv1, hon1, by intro h; cases h⟩
  | ok pr =>
    obtain ⟨info, needsBackup⟩ := pr
    obtain ⟨hfalse, htrue⟩ := hres info needsBackup rfl
    simp only
    -- the directory whose chain is backed up
    have hdir : ∀ inf : Option Info, ∃ d, PKey d ∧ backupDirPath inf (kp k) = kp d ∧ (d = k ∨ d = k.dropLast) ∧
        (∀ i, inf = some i → i.isDir = true → d = k) ∧ (∀ i, inf = some i → i.isDir = false → d = k.dropLast) := by
      intro inf
      cases inf with
      | none => exact ⟨k.dropLast, hk.dropLast, (by simp [backupDirPath, dir_kp hk]), Or.inr rfl, (by intro i h; cases h), (by intro i h; cases h)⟩
      | some i =>
        cases hd : i.isDir with
        | true =>
          refine ⟨k, hk, (by simp [backupDirPath, hd]), Or.inl rfl, fun _ _ _ => rfl, ?_⟩
          intro i' h h'; cases h; rw [hd] at h'; cases h'
        | false =>
          refine ⟨k.dropLast, hk.dropLast, (by simp [backupDirPath, hd, dir_kp hk]), Or.inr rfl, ?_, fun _ _ _ => rfl⟩
          intro i' h h'; cases h; rw [hd] at h'; cases h'
    obtain ⟨d, hd, hdeq, hdk, hd_dir, hd_file⟩ := hdir info
    rw [hdeq]
    have hdpre : d <+: k := by
      rcases hdk with rfl | rfl
      · exact List.prefix_rfl
      · exact dropLast_prefix' k
    have hacc1 : NoLinkAnc (S.view .base w1.fs) k := by rw [hadv1.base]; exact hacc
    apply Sat.bind
    apply (sat_backupDirsX hmk hadv1.inv hd (hacc1.of_prefix hdpre)).mono
    intro w2 r2 ⟨hadv2, hon2, hall⟩
    have hadv12 := hadv1.trans hadv2
    have hon12 : OnlyAdded (· <+: k) w w2 :=
      hon1.trans (hon2.mono (fun j hj => List.IsPrefix.trans hj hdpre))
    cases r2 with
    | error e => exact ⟨hadv12, hon12, by intro h; cases h⟩
    | ok u2 =>
      simp only
      have hall := hall rfl
      have hpref : ∀ w', (∀ b, b <+: d → Tracked w' b) → Tracked w' k → ∀ b, b <+: k → Tracked w' b := by
        intro w' hd' hk' b hb
        by_cases hbk : b = k
        · subst hbk; exact hk'
        · rcases hdk with rfl | rfl
          · exact hd' b hb
          · exact hd' b (prefix_proper_dropLast hb hbk)
      cases needsBackup with
      | false =>
        simp only [Bool.not_false, if_true]
        apply Sat.pure
        refine ⟨hadv12, hon12, fun _ => ?_⟩
        have : Tracked w1 k := by unfold Tracked; rw [hfalse rfl]; simp
        exact hpref w2 hall (this.monoNLX hadv2)
      | true =>
        simp only [Bool.not_true, Bool.false_eq_true, if_false]
        obtain ⟨hun1, i, n, rfl, hv1, hfor⟩ := htrue rfl
        simp only
        cases hisd : i.isDir with
        | true =>
          simp only [if_true]
          apply Sat.pure
          refine ⟨hadv12, hon12, fun _ => ?_⟩
          have := hd_dir i rfl hisd
          subst this
          exact hall
        | false =>
          simp only [Bool.false_eq_true, if_false]
          have hdl := hd_file i rfl hisd
          subst hdl
          have hkne : k ≠ [] := by
            intro e; subst e
            obtain ⟨mt', hroot⟩ := S.root_dir (s := .base) hadv1.inv.good
            rw [hroot] at hv1; cases hv1
            simp [Info.isDir, hfor.1, Node.kind] at hisd
          have hun2 : w2.infos.lookup (kp k) = none := by
            cases hl : w2.infos.lookup (kp k) with
            | none => rfl
            | some x =>
              exfalso
              have ht : Tracked w2 k := by unfold Tracked; rw [hl]; simp
              rcases hon2 k hk ht with h | h
              · exact h hun1
              · exact not_prefix_dropLast hkne h
          have hv2 : S.view .base w2.fs k = some n := by rw [hadv2.base]; exact hv1
          have hinv2 := hadv2.inv
          have hg2 := hinv2.good
          have hv0 : v0 k = some n := by rw [← hinv2.inv.frame k hk hun2]; exact hv2
          -- the backup side of `k` is not reached through a symlink
          have haccb2 : NoLinkAnc (S.view .backup w2.fs) k :=
            hinv2.inv.backup_noLinkAnc hk hun2 (by rw [hv2]; simp)
              (fun b hb hne => hall b (prefix_proper_dropLast hb hne))
          cases hreg : i.isRegular with
          | true =>
            simp only [if_true]
            -- the node is a regular file
            obtain ⟨c, mt, hn⟩ : ∃ c mt, n = .file c mt := by
              have hkd := hfor.1
              cases n with
              | file c mt => exact ⟨c, mt, rfl⟩
              | dir mt => simp [Info.isRegular, hkd, Node.kind] at hreg
              | link t mt => simp [Info.isRegular, hkd, Node.kind] at hreg
            subst hn
            apply Sat.bind
            apply (sat_open_ro (S := S) hg2 hk (S.accF_present hg2 hv2 rfl)).mono
            intro w3 r3 ⟨hs3, hwh, _⟩
            have hadv23 := AdvX.of_same hinv2 hs3
            have hadv3 : AdvX S v0 w w3 := hadv12.trans hadv23
            have hon3 : OnlyAdded (· <+: k) w w3 := hon12.trans (OnlyAdded.of_infos hs3.infos)
            cases r3 with
            | error e => exact ⟨hadv3, hon3, by intro h; cases h⟩
            | ok sf =>
              simp only
              obtain ⟨hside, hH, hflag⟩ := hwh sf rfl
              have hinv3 := hadv3.inv
              have hun3 : w3.infos.lookup (kp k) = none := by rw [hs3.infos]; exact hun2
              have hv3 : S.view .base w3.fs k = some (.file c mt) := by rw [hs3.fs]; exact hv2
              have haccb3 : AccF (S.view .backup w3.fs) k := by
                rw [hs3.fs]
                exact ⟨haccb2, hinv2.inv.backup_notLink hun2 (isLinkAt_not_file ⟨c, mt, hv2⟩)⟩
              have hall3 : ∀ b, b <+: k.dropLast → Tracked w3 b := fun b hb => (hall b hb).monoNLX hadv23
              apply Sat.bind
              apply Sat.attempt
              -- copy, then record
              have hcopy : Sat (do copyFile cfg .backup (kp k) i sf; setInfo (kp k) (some i) : M Unit) w3
                  (fun w' r => AdvX S v0 w3 w' ∧ OnlyAdded (· <+: k) w3 w' ∧ (r = .ok () → Tracked w' k)) := by
                apply Sat.bind
                apply (sat_copyFile (S := S) (s := .backup) (ks := k) (data := c) (mt0 := mt) hinv3.good hk haccb3
                  hside hH (by rw [hflag]; decide) hv3 hreg
                  (by rw [hfor.2.1]; exact S.mode_lt hinv3.good hv3)).mono
                intro w4 r4 ⟨hc4, hp4, _⟩
                have hadv4 : Adv S v0 w3 w4 := Adv.backup_soft hinv3.inv hk hun3 hc4.soft
                have hx4 : XInv S v0 w4 := hinv3.x.backup_step hun3 hc4.toChgL
                have hon4 : OnlyAdded (· <+: k) w3 w4 := OnlyAdded.of_infos hc4.infos
                cases r4 with
                | error e => exact ⟨⟨hadv4, hx4⟩, hon4, by intro h; cases h⟩
                | ok u4 =>
                  simp only
                  have hun4 : w4.infos.lookup (kp k) = none := by rw [hc4.infos]; exact hun3
                  apply Sat.of_eq (setInfo_untracked hun4)
                  have hv4 : S.view .base w4.fs k = some (.file c mt) := by rw [hadv4.base]; exact hv3
                  have hinv5 := hadv4.inv.add_some (i := i) hk hun4 hv4 hfor
                    (by
                      intro c' mt' hn
                      cases hn
                      exact ⟨_, hp4 rfl⟩)
                    (by intro t mt' e; cases e)
                    (by
                      intro b hb hne
                      exact (hall3 b (prefix_proper_dropLast hb hne)).monoNL hadv4)
                  have hex : S.view .backup w4.fs k = v0 k := by
                    rw [hp4 rfl, hv0, restoredFile_eq hfor]
                  have hb5 := hx4.record (i := i) hk hex
                  refine ⟨⟨hadv4.trans (Adv.add hk hun4 hinv5), hb5⟩,
                    hon4.trans ((OnlyAdded.add hk).mono (fun j hj => by subst hj; exact List.prefix_rfl)), fun _ => ?_⟩
                  unfold Tracked
                  rw [show (addInfo w4 (kp k) (some i)).infos.lookup (kp k) = some (some i) from lookup_snoc_self hun4]
                  simp
              apply hcopy.mono
              intro w5 r5 ⟨hadv5, hon5, htr5⟩
              simp only
              apply Sat.bind
              apply Sat.attempt
              apply (sat_hClose (wh := sf) (w := w5)).mono
              intro w6 r6 ⟨hs6, _⟩
              simp only
              have hadv56 := AdvX.of_same hadv5.inv hs6
              have hadv6 : AdvX S v0 w w6 := (hadv3.trans hadv5).trans hadv56
              have hon6 : OnlyAdded (· <+: k) w w6 := (hon3.trans hon5).trans (OnlyAdded.of_infos hs6.infos)
              cases r5 with
              | error e => exact ⟨hadv6, hon6, by intro h; cases h⟩
              | ok u5 =>
                cases u5
                refine ⟨hadv6, hon6, fun _ => ?_⟩
                have hk6 : Tracked w6 k := (htr5 rfl).monoNLX hadv56
                apply hpref w6 _ hk6
                intro b hb
                exact ((hall3 b hb).monoNLX hadv5).monoNLX hadv56
          | false =>
            simp only [Bool.false_eq_true, if_false]
            -- the node is a symlink
            obtain ⟨t, mt, hn⟩ : ∃ t mt, n = .link t mt := by
              have hkd := hfor.1
              cases n with
              | link t mt => exact ⟨t, mt, rfl⟩
              | dir mt => simp [Info.isDir, hkd, Node.kind] at hisd
              | file c mt => simp [Info.isRegular, hkd, Node.kind] at hreg
            subst hn
            have hlink2 : isLinkAt (S.view .base w2.fs) k := ⟨t, mt, hv2⟩
            apply Sat.bind
            have hcs := sat_copySymlink (cfg := cfg) (S := S) (s := .backup) (i := i) hg2 hk haccb2
              (show S.view Side.backup.other w2.fs k = some (.link t mt) from hv2)
            apply hcs.mono
            intro w3 r3 ⟨hc3, hp3, _⟩
            have hadv3' : Adv S v0 w2 w3 := Adv.backup_link hinv2.inv hk hun2 hlink2 hc3
            have hx3 : XInv S v0 w3 := hinv2.x.backup_step hun2 hc3
            have hon3 : OnlyAdded (· <+: k) w w3 := hon12.trans (OnlyAdded.of_infos hc3.infos)
            cases r3 with
            | error e => exact ⟨hadv12.trans ⟨hadv3', hx3⟩, hon3, by intro h; cases h⟩
            | ok u3 =>
              simp only
              have hun3 : w3.infos.lookup (kp k) = none := by rw [hc3.infos]; exact hun2
              apply Sat.of_eq (setInfo_untracked hun3)
              have hv3 : S.view .base w3.fs k = some (.link t mt) := by rw [hadv3'.base]; exact hv2
              obtain ⟨mt', hb3, hu3, hg3⟩ := hp3 rfl
              have hinv4 := hadv3'.inv.add_some (i := i) hk hun3 hv3 hfor
                (by intro c' mt'' e; cases e)
                (by
                  intro t' mt'' e
                  cases e
                  exact ⟨⟨mt', hb3⟩, hlok t mt (by rw [← hadv12.base]; exact hv2)⟩)
                (by
                  intro b hb hne
                  exact (hall b (prefix_proper_dropLast hb hne)).monoNL hadv3')
              have hex : S.view .backup w3.fs k = v0 k := by
                rw [hb3, hv0]
                congr 1
                exact link_eq (S.link_erased hg2 hv2) (S.link_erased hc3.good hb3)
                  (hu3.trans hfor.2.2.1) (hg3.trans hfor.2.2.2.1)
              have hb4 := hx3.record (i := i) hk hex
              have hadv4 : AdvX S v0 w2 (addInfo w3 (kp k) (some i)) :=
                ⟨hadv3'.trans (Adv.add (S := S) (v0 := v0) (x := some i) hk hun3 hinv4), hb4⟩
              refine ⟨hadv12.trans hadv4,
                hon3.trans ((OnlyAdded.add hk).mono (fun j hj => by subst hj; exact List.prefix_rfl)), fun _ => ?_⟩
              have hk4 : Tracked (addInfo w3 (kp k) (some i)) k := by
                unfold Tracked
                rw [show (addInfo w3 (kp k) (some i)).infos.lookup (kp k) = some (some i) from lookup_snoc_self hun3]
                simp
              apply hpref _ _ hk4
              intro b hb
              exact (hall b hb).monoNLX hadv4

/-! ### prepare -/

theorem sat_prepareX (hmk : MkdirAllUnit cfg) {name : Path} {k : Key} {w : World} (hinv : InvX S v0 w) (hk : PKey k)
    (hname : clean name = kp k) (hacc : NoLinkAnc (S.view .base w.fs) k)
    (hlok : ∀ t mt, S.view .base w.fs k = some (.link t mt) → S.LinkOK .base k t) :
    Sat (prepare cfg name) w (fun w' r => AdvX S v0 w w' ∧ OnlyAdded (· <+: k) w w' ∧
      ∀ p, r = .ok p → p = kp k ∧ ∀ b, b <+: k → Tracked w' b) := by
  unfold prepare
  apply Sat.bind
  apply (sat_realPath (S := S) hinv.good hk hname hacc).mono
  intro w1 r ⟨hs, hres⟩
  have hadv1 := AdvX.of_same hinv hs
  have hon1 : OnlyAdded (· <+: k) w w1 := OnlyAdded.of_infos hs.infos
  cases r with
  | error e => exact ⟨hadv1, hon1, by intro p h; cases h⟩
  | ok p =>
    simp only
    have hp := hres p rfl
    subst hp
    apply Sat.bind
    apply (sat_tryBackupX hmk hadv1.inv hk (by rw [hs.fs]; exact hacc) (by rw [hs.fs]; exact hlok)).mono
    intro w2 r2 ⟨hadv2, hon2, htr⟩
    cases r2 with
    | error e => exact ⟨hadv1.trans hadv2, hon1.trans hon2, by intro p h; cases h⟩
    | ok u =>
      apply Sat.pure
      refine ⟨hadv1.trans hadv2, hon1.trans hon2, ?_⟩
      intro p h
      cases h
      exact ⟨rfl, htr rfl⟩

end NL
end BFS
