import Lemmas.GRes
/-!
  Lemmas/GLoop.lean — `realPath` on a flat disk under EVERY fault plan: it changes neither disk, tracked
  map nor fault plan, and IF it succeeds it returns `kp (resK … [] k)`.  (A planned fault makes a
  primitive return `EIO`, which is not of the not-found class: `resolveLoop` then fails instead of
  returning the lexical tail.)  Generalises Lemmas/F16Loop.lean (`sat_loop`, no planned faults); the
  proof texts are those of F16Loop.lean with one more case per primitive.
-/
namespace BFS
namespace L
namespace G
open BackupFS MFS F16

theorem sat_primCall_any {cfg : Cfg} {s : Side} {c : Call} {w : World} {r : Except Err Ret}
    (hc : (cfg.side s).call w.fs c = (w.fs, r)) :
    Sat (primCall cfg s c) w (fun w1 r1 => SameFS w w1 ∧ (r1 = r ∨ r1 = .error .io)) := by
  apply Sat.primCall
  · intro _ w1 hs; exact ⟨hs, Or.inr rfl⟩
  · intro w1 hs
    rw [hc]
    exact ⟨sameFS_setfs hs, Or.inl rfl⟩

theorem sat_primInfo_ok_any {cfg : Cfg} {s : Side} {c : Call} {w : World} {i : Info}
    (hc : (cfg.side s).call w.fs c = (w.fs, .ok (.info i))) :
    Sat (primInfo cfg s c) w (fun w1 r => SameFS w w1 ∧ (r = .ok i ∨ r = .error .io)) := by
  unfold primInfo
  apply Sat.bind
  apply (sat_primCall_any hc).mono
  intro w1 r1 ⟨hs, hr⟩
  rcases hr with rfl | rfl
  · exact Sat.pure ⟨hs, Or.inl rfl⟩
  · exact ⟨hs, Or.inr rfl⟩

theorem sat_primInfo_err_any {cfg : Cfg} {s : Side} {c : Call} {w : World} {e : Err}
    (hc : (cfg.side s).call w.fs c = (w.fs, .error e)) :
    Sat (primInfo cfg s c) w (fun w1 r => SameFS w w1 ∧ (r = .error e ∨ r = .error .io)) := by
  unfold primInfo
  apply Sat.bind
  apply (sat_primCall_any hc).mono
  intro w1 r1 ⟨hs, hr⟩
  rcases hr with rfl | rfl
  · exact ⟨hs, Or.inl rfl⟩
  · exact ⟨hs, Or.inr rfl⟩

theorem sat_primStr_ok_any {cfg : Cfg} {s : Side} {c : Call} {w : World} {t : Path}
    (hc : (cfg.side s).call w.fs c = (w.fs, .ok (.str t))) :
    Sat (primStr cfg s c) w (fun w1 r => SameFS w w1 ∧ (r = .ok t ∨ r = .error .io)) := by
  unfold primStr
  apply Sat.bind
  apply (sat_primCall_any hc).mono
  intro w1 r1 ⟨hs, hr⟩
  rcases hr with rfl | rfl
  · exact Sat.pure ⟨hs, Or.inl rfl⟩
  · exact ⟨hs, Or.inr rfl⟩

section
variable {bk kk : Key}

/-- Lstat on the base at `kp k`, any fault plan, no symlink among the proper ancestors of `bk ++ k` -/
theorem sat_lstat_any (hr : Roots bk kk) {w : World} (hg : L.OSGoodL bk kk w.fs) {k : Key}
    (hk : PKey k) (hnl : L.NoLinkProper w.fs (bk ++ k)) :
    Sat (primInfo (osCfg bk kk) .base (.lstat (kp k))) w (fun w1 r => SameFS w w1 ∧
      (r = .error .io ∨
       (∃ n i, w.fs.get (bk ++ k) = some n ∧ r = .ok i ∧ i.kind = n.kind) ∨
       (w.fs.get (bk ++ k) = none ∧ ∃ e, r = .error e ∧ e.isNotFound = true))) := by
  cases hget : w.fs.get (bk ++ k) with
  | some n =>
    have hv : L.osViewL bk kk .base w.fs k = some (L.eraseV (kp bk) n) := by
      rw [L.osViewL_eq, osRoot_base, hget]; rfl
    obtain ⟨i, hc, hfor⟩ := L.os_lstat_some hr hg hk hv
    apply (sat_primInfo_ok_any hc).mono
    intro w1 r ⟨hs, hr'⟩
    rcases hr' with hr' | hr'
    · exact ⟨hs, Or.inr (Or.inl ⟨n, i, rfl, hr', by rw [hfor.1, L.eraseV_kind]⟩)⟩
    · exact ⟨hs, Or.inl hr'⟩
  | none =>
    have hv : L.osViewL bk kk .base w.fs k = none := by
      rw [L.osViewL_eq, osRoot_base, hget]; rfl
    have hna : L.NoLinkAnc (L.osViewL bk kk .base w.fs) k := by
      intro a ha hne hl
      obtain ⟨raw, mt, hl⟩ := L.osViewL_isLinkAt hl
      rw [osRoot_base] at hl
      exact hnl (bk ++ a) ((List.prefix_append_right_inj _).mpr ha)
        (fun e => hne (List.append_cancel_left e)) raw mt hl
    obtain ⟨e, hc, he⟩ := L.os_lstat_none hr hg hk hna hv
    apply (sat_primInfo_err_any hc).mono
    intro w1 r ⟨hs, hr'⟩
    rcases hr' with hr' | hr'
    · exact ⟨hs, Or.inr (Or.inr ⟨rfl, e, hr', he⟩)⟩
    · exact ⟨hs, Or.inl hr'⟩

/-- Readlink on the base at a symlink, any fault plan -/
theorem sat_readlink_any (hr : Roots bk kk) {w : World} (hg : L.OSGoodL bk kk w.fs) {k : Key}
    (hk : PKey k) {raw : Path} {mt : Meta} (hget : w.fs.get (bk ++ k) = some (.link raw mt)) :
    Sat (primStr (osCfg bk kk) .base (.readlink (kp k))) w (fun w1 r => SameFS w w1 ∧
      (r = .ok (PrefixFS.readlinkPost (kp bk) raw) ∨ r = .error .io)) := by
  have hv : L.osViewL bk kk .base w.fs k =
      some (.link (PrefixFS.readlinkPost (kp bk) raw) { mt with mtime := .fresh, mode := 0o777 }) := by
    rw [L.osViewL_eq, osRoot_base, hget]; rfl
  exact sat_primStr_ok_any (L.os_readlink_link hr hg hk hv)

/-- **the loop, every fault plan**: on the chain of `D ++ S`, from a link-free location `D`, the loop
changes nothing and, if it succeeds, returns `kp (resK D S)` -/
theorem sat_loop_any (hr : Roots bk kk) : ∀ (S : List Name) (D : Key) (fuel : Nat) (last : Path) (fi : Option Info)
    (w : World), L.OSGoodL bk kk w.fs → Flat bk w.fs → PKey D → PKey S →
    NoLinkUpto w.fs (bk ++ D) → S.length < fuel →
    Sat (resolveLoop (osCfg bk kk) fuel ((inits1 S).map (fun p => kp (D ++ p))) last fi) w
      (fun w' r => SameFS w w' ∧ ∀ x, r = .ok x → x.1 = (if S = [] then last else kp (resK w.fs bk D S)))
  | [], D, fuel, last, fi, w, _, _, _, _, _, hf => by
    obtain ⟨g, rfl⟩ : ∃ g, fuel = g + 1 := ⟨fuel - 1, by simp at hf; omega⟩
    simp only [inits1, List.map_nil]
    unfold resolveLoop
    exact Sat.pure ⟨SameFS.refl w, by intro x hx; cases hx; rfl⟩
  | s :: S, D, fuel, last, fi, w, hg, hflat, hD, hS, hnl, hf => by
    obtain ⟨g, rfl⟩ : ∃ g, fuel = g + 1 := ⟨fuel - 1, by simp at hf; omega⟩
    have hs : Plain s := hS s (by simp)
    have hS' : PKey S := fun n hn => hS n (List.mem_cons_of_mem _ hn)
    have hk : PKey (D ++ [s]) := hD.snoc hs
    have hlist : (inits1 (s :: S)).map (fun p => kp (D ++ p)) =
        kp (D ++ [s]) :: (inits1 S).map (fun p => kp ((D ++ [s]) ++ p)) := by
      simp only [inits1, List.map_cons, List.map_map]
      congr 1
      apply List.map_congr_left
      intro p _
      simp
    have hlastl : ((inits1 (s :: S)).map (fun p => kp (D ++ p))).getLast? = some (kp (D ++ s :: S)) := by
      rw [List.getLast?_map, inits1_getLast _ (by simp)]; rfl
    rw [hlist] at hlastl ⊢
    have hprop : L.NoLinkProper w.fs (bk ++ (D ++ [s])) := by
      intro p hp hne
      rw [← List.append_assoc] at hp hne
      have := prefix_dropLast hp hne
      rw [List.dropLast_concat] at this
      exact hnl p this
    unfold resolveLoop
    apply Sat.bind
    apply Sat.attempt
    apply (sat_lstat_any hr hg hk hprop).mono
    intro w1 r ⟨hs1, hres⟩
    have hfs1 : w1.fs = w.fs := hs1.fs
    have hg1 : L.OSGoodL bk kk w1.fs := by rw [hfs1]; exact hg
    have hflat1 : Flat bk w1.fs := by rw [hfs1]; exact hflat
    simp only [List.cons_ne_nil, if_false]
    rcases hres with rfl | ⟨n, i, hget, rfl, hkind⟩ | ⟨hget, e, rfl, he⟩
    · -- the Lstat was refused by the fault plan: EIO is not of the not-found class
      simp only [Err.isNotFound, Bool.false_eq_true, if_false]
      apply Sat.throw
      exact ⟨hs1, by intro x hx; cases hx⟩
    · simp only
      rw [isSymlink_of_kind hkind]
      rw [← List.append_assoc] at hget
      cases n with
      | link raw mt =>
        simp only [Node.isLink, if_true]
        have hok := hflat.target hg hget (by rw [List.append_assoc]; exact List.prefix_append _ _)
        rw [List.append_assoc] at hok hget
        apply Sat.bind
        apply (sat_readlink_any hr hg1 hk (by rw [hfs1]; exact hget)).mono
        intro w2 r2 ⟨hs2, hr2⟩
        rcases hr2 with rfl | rfl
        · simp only
          have hfs2 : w2.fs = w.fs := hs2.fs.trans hfs1
          rw [target_text hr.pb hk (by simp) hok]
          have hpe := effK_pkey hr.pb hk hok
          have hmap : ((inits1 S).map (fun p => kp ((D ++ [s]) ++ p))).map
              (replacePrefix1 (kp (D ++ [s])) (kp (effK bk (D ++ [s]) raw))) =
              (inits1 S).map (fun p => kp (effK bk (D ++ [s]) raw ++ p)) := by
            rw [List.map_map]
            apply List.map_congr_left
            intro p hp
            obtain ⟨hpp, hpne⟩ := inits1_pkey hS' hp
            exact replacePrefix1_kp (by simp) hpe hpp hpne
          rw [hmap]
          have hnlE : NoLinkUpto w2.fs (bk ++ effK bk (D ++ [s]) raw) := by
            rw [hfs2, effK_spec hok]; exact hok.nolink
          apply (sat_loop_any hr S _ g (kp (D ++ [s])) (some i) w2 (by rw [hfs2]; exact hg)
            (by rw [hfs2]; exact hflat) hpe hS' hnlE (by simp at hf; omega)).mono
          intro w3 r3 ⟨hs3, hr3⟩
          refine ⟨(hs1.trans hs2).trans hs3, ?_⟩
          intro x hx
          rw [hr3 x hx, hfs2]
          by_cases hSe : S = []
          · subst hSe; simp [resK_single]
          · rw [← List.append_assoc] at hget
            simp only [hSe, if_false, resK_link hSe hget]
        · exact ⟨hs1.trans hs2, by intro x hx; cases hx⟩
      | dir mt =>
        simp only [Node.isLink, Bool.false_eq_true, if_false]
        have hnl' : NoLinkUpto w1.fs (bk ++ (D ++ [s])) := by
          rw [hfs1, ← List.append_assoc]
          exact noLinkUpto_snoc hnl (by intro t mt' h'; rw [hget] at h'; cases h')
        apply (sat_loop_any hr S _ g (kp (D ++ [s])) (some i) w1 hg1 hflat1 hk hS' hnl'
          (by simp at hf; omega)).mono
        intro w3 r3 ⟨hs3, hr3⟩
        refine ⟨hs1.trans hs3, ?_⟩
        intro x hx
        rw [hr3 x hx, hfs1]
        by_cases hSe : S = []
        · subst hSe; simp [resK_single]
        · simp only [hSe, if_false, resK_dir hSe hget]
      | file ct mt =>
        simp only [Node.isLink, Bool.false_eq_true, if_false]
        have hnl' : NoLinkUpto w1.fs (bk ++ (D ++ [s])) := by
          rw [hfs1, ← List.append_assoc]
          exact noLinkUpto_snoc hnl (by intro t mt' h'; rw [hget] at h'; cases h')
        apply (sat_loop_any hr S _ g (kp (D ++ [s])) (some i) w1 hg1 hflat1 hk hS' hnl'
          (by simp at hf; omega)).mono
        intro w3 r3 ⟨hs3, hr3⟩
        refine ⟨hs1.trans hs3, ?_⟩
        intro x hx
        rw [hr3 x hx, hfs1]
        by_cases hSe : S = []
        · subst hSe; simp [resK_single]
        · simp only [hSe, if_false, resK_file hget]
          have hdead : ¬ ∃ mt', w.fs.get (bk ++ (D ++ [s])) = some (.dir mt') := by
            rintro ⟨mt', h'⟩
            rw [← List.append_assoc, hget] at h'; cases h'
          rw [resK_dead hg hdead]
          simp
    · simp only [he, if_true]
      apply Sat.pure
      refine ⟨hs1, ?_⟩
      intro x hx
      cases hx
      rw [hlastl]
      rw [← List.append_assoc] at hget
      simp only [Option.getD_some, resK_none hget]

/-- `realPath` on a flat disk, EVERY fault plan: nothing changes; if it succeeds it returns
`kp (resK … [] k)` -/
theorem sat_realPath_flat_any (hr : Roots bk kk) {w : World}
    (hg : L.OSGoodL bk kk w.fs) (hflat : Flat bk w.fs) {name : Path} {k : Key} (hk : PKey k)
    (hname : clean name = kp k) :
    Sat (realPath (osCfg bk kk) name) w
      (fun w' r => SameFS w w' ∧ ∀ p, r = .ok p → p = kp (resK w.fs bk [] k)) := by
  unfold realPath resolvePathWithInfo
  rw [hname]
  simp only [kp_ne_nil, if_false]
  rw [iterateDirTree_kp hk]
  apply Sat.bind
  unfold resolveLoop
  apply Sat.bind
  apply Sat.attempt
  have hroot : rootP = kp [] := rfl
  rw [hroot]
  have hprop : L.NoLinkProper w.fs (bk ++ []) := L.noLinkProper_of_upto (noLinkUpto_root hg)
  apply (sat_lstat_any hr hg PKey.nil hprop).mono
  intro w1 r ⟨hs1, hres⟩
  obtain ⟨mtb, hb⟩ := hg.bdir
  rw [List.append_nil] at hres
  rcases hres with rfl | ⟨n, i, hget, rfl, hkind⟩ | ⟨hget, _⟩
  · simp only [Err.isNotFound, Bool.false_eq_true, if_false]
    apply Sat.throw
    exact ⟨hs1, by intro p hp; cases hp⟩
  · rw [hb] at hget
    cases hget
    simp only
    rw [isSymlink_of_kind hkind]
    simp only [Node.isLink, Bool.false_eq_true, if_false]
    have hfs1 : w1.fs = w.fs := hs1.fs
    have hlist : (inits1 k).map kp = (inits1 k).map (fun p => kp ([] ++ p)) := by simp
    rw [hlist]
    apply (sat_loop_any hr k [] _ (kp []) (some i) w1 (by rw [hfs1]; exact hg)
      (by rw [hfs1]; exact hflat) PKey.nil hk (by rw [hfs1]; exact noLinkUpto_root hg)
      (by simp [inits1_length])).mono
    intro w2 r2 ⟨hs2, hr2⟩
    cases r2 with
    | error e => exact ⟨hs1.trans hs2, by intro p hp; cases hp⟩
    | ok x =>
      apply Sat.pure
      refine ⟨hs1.trans hs2, ?_⟩
      intro p hp
      cases hp
      rw [hr2 x rfl, hfs1]
      by_cases hke : k = []
      · subst hke; rfl
      · simp only [hke, if_false]
  · rw [hb] at hget; cases hget

theorem resTo_flat_any (hr : Roots bk kk) {w : World} (hg : OSGoodL bk kk w.fs)
    (hflat : Flat bk w.fs) {name : Path} {k : Key} (hk : PKey k) (hname : clean name = kp k) :
    ResTo (osCfg bk kk) w name (rk bk w k) := by
  intro w1 h1 _
  have := sat_realPath_flat_any hr (w := w1) (by rw [h1]; exact hg) (by rw [h1]; exact hflat) hk hname
  apply this.mono
  intro w' x ⟨hs, hx⟩
  refine ⟨hs, ?_⟩
  intro p hp
  rw [hx p hp]
  unfold rk
  rw [h1]

end

end G
end L
end BFS
