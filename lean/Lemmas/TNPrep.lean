import Lemmas.TNTrackB
import Lemmas.TPrep
/-!
  Lemmas/TNPrep.lean (copy of Lemmas/TPrep.lean over `N.Sim`; `FileAnc` is the one of Lemmas/TPrep.lean) — the key lemma of C03 (transparency): on healthy filesystems under `InvB`,
  `prepare cfg name` (= `realPath; tryBackup`, what every mutator runs first)

  * never changes the base view (already `AdvB.base`),
  * either succeeds with the cleaned name, all of whose ancestors are then tracked,
  * or fails — and then only with `errDirInfoExpected` (class `typeMismatch`) raised by `copyDir` in
    `backupDirs`, because a proper ancestor of the named key is, in the base view, an untracked
    regular file.  (The direct call on the base then fails with ENOTDIR.)

  This is `Lemmas/TrackB.lean` once more with the reason of every failure carried along.
-/
namespace BFS.N
open BackupFS

variable {cfg : Cfg} {S : Sim cfg} {v0 : View} {r0 : Option Node}

/-! ### realPath never fails on healthy link-free filesystems -/

theorem sat_resolveLoop_ok : ∀ (fuel : Nat) (l : List Path) (last : Path) (fi : Option Info) (w : World),
    S.G w.fs → w.faults = [] → (∀ p ∈ l, ∃ a, PKey a ∧ p = kp a) → l.length < fuel →
    Sat (resolveLoop cfg fuel l last fi) w (fun _ r => ∃ x, r = .ok x)
  | 0, l, _, _, _, _, _, _, hlen => by omega
  | _ + 1, [], last, fi, w, _, _, _, _ => by
    unfold resolveLoop
    apply Sat.pure
    exact ⟨_, rfl⟩
  | fuel + 1, p :: rest, last, fi, w, hg, hnf, hl, hlen => by
    unfold resolveLoop
    obtain ⟨a, ha, rfl⟩ := hl p (by simp)
    apply Sat.bind
    apply Sat.attempt
    apply (sat_lstat hg ha).mono
    intro w1 r ⟨hs, hr⟩
    simp only
    rcases hr with ⟨n, i, hv, rfl, hfor⟩ | ⟨hv, e, rfl, hnfd⟩ | ⟨rfl, hf⟩
    · simp only
      have hnl : i.isSymlink = false := by
        cases n with
        | link t mt => exact absurd hv (S.no_link hg)
        | file c mt => have : i.kind = .file := hfor.1; simp [Info.isSymlink, this]
        | dir mt => have : i.kind = .dir := hfor.1; simp [Info.isSymlink, this]
      simp only [hnl, Bool.false_eq_true, if_false]
      exact sat_resolveLoop_ok fuel rest (kp a) (some i) w1 (hs.fs ▸ hg) (hs.faults.trans hnf)
        (fun q hq => hl q (List.mem_cons_of_mem _ hq)) (by simp at hlen; omega)
    · simp only [hnfd, if_true]
      apply Sat.pure
      exact ⟨_, rfl⟩
    · exact absurd hnf hf

theorem sat_realPath_ok {name : Path} {k : Key} {w : World} (hg : S.G w.fs) (hnf : w.faults = []) (hk : PKey k)
    (hname : clean name = kp k) :
    Sat (realPath cfg name) w (fun _ r => ∃ p, r = .ok p) := by
  unfold realPath resolvePathWithInfo
  rw [hname]
  simp only [kp_ne_nil, if_false]
  apply Sat.bind
  apply (sat_resolveLoop_ok (S := S) _ (iterateDirTree (kp k)) (kp k) none w hg hnf
    (by
      intro p hp
      obtain ⟨a, ha, rfl⟩ := (mem_iterateDirTree_kp hk).mp hp
      exact ⟨a, hk.of_prefix ha, rfl⟩)
    (by omega)).mono
  intro w1 r ⟨x, hx⟩
  subst hx
  apply Sat.pure
  exact ⟨_, rfl⟩

/-! ### backupRequired never fails on healthy filesystems -/

theorem sat_backupRequired_ok {k : Key} {w : World} (hg : S.G w.fs) (hnf : w.faults = []) (hk : PKey k) :
    Sat (backupRequired cfg (kp k)) w (fun _ r => ∃ x, r = .ok x) := by
  unfold backupRequired lookupInfo
  apply Sat.bind
  apply Sat.bind
  apply Sat.getW
  simp only
  apply Sat.pure
  simp only
  cases hl : w.infos.lookup (kp k) with
  | some info =>
    simp only
    apply Sat.pure
    exact ⟨_, rfl⟩
  | none =>
    simp only
    apply Sat.bind
    apply Sat.attempt
    apply (sat_lstat hg hk).mono
    intro w1 r ⟨hs, hr⟩
    simp only
    rcases hr with ⟨n, i, hv, rfl, hfor⟩ | ⟨hv, e, rfl, hnfd⟩ | ⟨rfl, hf⟩
    · simp only
      apply Sat.pure
      exact ⟨_, rfl⟩
    · simp only [hnfd, if_true]
      apply Sat.bind
      have hl1 : w1.infos.lookup (kp k) = none := by rw [hs.infos]; exact hl
      apply Sat.of_eq (setInfo_untracked hl1)
      simp only
      apply Sat.pure
      exact ⟨_, rfl⟩
    · exact absurd hnf hf

/-! ### backupDirs: why it fails -/

/-- one step of the `backupDirs` visitor: it stops only at an untracked regular file -/
theorem sat_visit_consT {a : Key} {rest : List Path} {w : World} {Q : World → Except Err Unit → Prop}
    (hinv : InvB S v0 r0 w) (ha : PKey a) (hpre : ∀ b, b <+: a → b ≠ a → Tracked w b)
    (hstop : ∀ w', AdvB S v0 r0 w w' → OnlyAdded (· = a) w w' → (S.view .base w.fs).isFileAt a →
      ¬ Tracked w a → Q w' (.error .typeMismatch))
    (hnext : ∀ w', AdvB S v0 r0 w w' → OnlyAdded (· = a) w w' → Tracked w' a →
      Sat (backupDirsVisit cfg rest) w' Q) :
    Sat (backupDirsVisit cfg (kp a :: rest)) w Q := by
  unfold backupDirsVisit
  apply Sat.bind
  apply ((sat_backupRequiredB hinv ha).and (sat_backupRequired_ok (S := S) hinv.good hinv.nofault ha)).mono
  intro w1 r ⟨⟨hadv1, hon1, hres⟩, hok⟩
  cases r with
  | error e => obtain ⟨x, hx⟩ := hok; cases hx
  | ok pr =>
    obtain ⟨fi, required⟩ := pr
    obtain ⟨hfalse, htrue⟩ := hres fi required rfl
    simp only
    cases required with
    | false =>
      simp only [Bool.not_false, if_true]
      apply hnext w1 hadv1 hon1
      unfold Tracked
      rw [(hfalse rfl)]
      simp
    | true =>
      simp only [Bool.not_true, Bool.false_eq_true, if_false]
      obtain ⟨hun1, i, n, rfl, hv1, hfor⟩ := htrue rfl
      simp only
      have hinv1 := hadv1.inv
      have hg1 := hinv1.good
      cases hisd : i.isDir with
      | false =>
        -- `copyDir` refuses before any call: the entry is a regular file
        apply Sat.bind
        apply Sat.of_eq (copyDir_not_dir hisd)
        apply hstop _ hadv1 hon1
        · rw [← hadv1.base]
          cases n with
          | file c mt => exact ⟨c, mt, hv1⟩
          | dir mt =>
            have : i.kind = .dir := hfor.1
            simp [Info.isDir, this] at hisd
          | link t mt => exact absurd hv1 (S.no_link hg1)
        · intro ht
          have := ht.monoB hadv1
          exact this hun1
      | true =>
        have hnofile : ∀ c mt, n = .file c mt → ∃ mt', S.view .backup w1.fs a = some (.file c mt') := by
          intro c mt hn
          subst hn
          have : i.kind = .file := hfor.1
          simp [Info.isDir, this] at hisd
        have hanc : ∀ b, b <+: a → b ≠ a → w1.infos.lookup (kp b) ≠ none :=
          fun b hb hne => (hpre b hb hne).monoB hadv1
        by_cases hroot : a = []
        · -- the root itself: nothing is copied
          subst hroot
          apply Sat.bind
          apply Sat.of_eq (copyDir_root (cfg := cfg) (s := .backup) (i := i) (w := w1) hisd)
          simp only
          have hinv3 := hinv1.inv.add_some (i := i) ha hun1 hv1 hfor hnofile hanc
          have hb3 := hinv1.b.add_plain (q := kp []) (x := some i)
            (fun j _ hj hjne e _ => hjne (kp_inj hj PKey.nil e.symm))
          apply Sat.bind
          apply Sat.of_eq (setInfo_untracked hun1)
          simp only
          have hadv3 : AdvB S v0 r0 w1 (addInfo w1 (kp []) (some i)) :=
            ⟨Adv.add (S := S) (v0 := v0) (x := some i) ha hun1 hinv3, hb3⟩
          apply hnext _ (hadv1.trans hadv3) (hon1.trans (OnlyAdded.add ha))
          unfold Tracked
          rw [show (addInfo w1 (kp []) (some i)).infos.lookup (kp []) = some (some i) from
            lookup_snoc_self hun1]
          simp
        · have hperm : i.perm < 4096 := by rw [hfor.2.1]; exact S.mode_lt hg1 hv1
          have hpar : (S.view .backup w1.fs).parentDir a :=
            ⟨hroot, hinv1.parent_bdir ha hroot hun1 (by rw [hv1]; simp)
              (hanc a.dropLast (List.dropLast_prefix a) (by
                intro e; have := dropLast_length_lt hroot; rw [e] at this; omega))⟩
          apply Sat.bind
          apply (sat_copyDir_strong (S := S) (s := .backup) (i := i) hg1 ha hroot hisd hperm (hinv1.b.bvis a) hpar
            (Or.inl (hinv1.b.absent hroot hun1))).mono
          intro w2 r2 ⟨hc2, hof2, hp2⟩
          obtain ⟨u, hr⟩ := OnlyFault.nofault hof2 hinv1.nofault
          subst hr
          simp only
          have hadv2 : Adv S v0 w1 w2 := Adv.backup_soft hinv1.inv ha hun1 hc2.soft
          have hun2 : w2.infos.lookup (kp a) = none := by rw [hc2.infos]; exact hun1
          have hv2 : S.view .base w2.fs a = some n := by rw [hadv2.base]; exact hv1
          have hinv3 := hadv2.inv.add_some (i := i) ha hun2 hv2 hfor
            (by
              intro c mt hn
              subst hn
              have : i.kind = .file := hfor.1
              simp [Info.isDir, this] at hisd)
            (fun b hb hne => (hanc b hb hne |> fun h => (show Tracked w1 b from h).mono hadv2))
          have hb3 := hinv1.b.add_some (i := i) ha hroot hun1 hc2 (fun _ => ⟨_, hp2 rfl⟩)
          apply Sat.bind
          apply Sat.of_eq (setInfo_untracked hun2)
          simp only
          have hadv3 : Adv S v0 w2 (addInfo w2 (kp a) (some i)) := Adv.add ha hun2 hinv3
          apply hnext _ (hadv1.trans ⟨hadv2.trans hadv3, hb3⟩)
            ((hon1.trans (OnlyAdded.of_infos hc2.infos)).trans (OnlyAdded.add ha))
          unfold Tracked
          rw [show (addInfo w2 (kp a) (some i)).infos.lookup (kp a) = some (some i) from
            lookup_snoc_self hun2]
          simp

/-- why a run of the visitor failed: `errDirInfoExpected` at an untracked regular file on the chain -/
def VisitFail (S : Sim cfg) (w : World) (k : Key) (r : Except Err Unit) : Prop :=
  ∀ e, r = .error e → e = .typeMismatch ∧ ∃ a, a <+: k ∧ (S.view .base w.fs).isFileAt a ∧ ¬ Tracked w a

theorem VisitFail.of_later {w w' : World} {k k' : Key} {r : Except Err Unit} (hadv : AdvB S v0 r0 w w')
    (hp : k <+: k') (h : VisitFail S w' k r) : VisitFail S w k' r := by
  intro e he
  obtain ⟨h1, a, ha, hf, hu⟩ := h e he
  refine ⟨h1, a, List.IsPrefix.trans ha hp, ?_, fun ht => hu (ht.monoB hadv)⟩
  rw [← hadv.base]; exact hf

theorem sat_visitT : ∀ (xs : List Name) (pre : Key) (w : World), PKey (pre ++ xs) → InvB S v0 r0 w →
    (∀ b, b <+: pre → Tracked w b) →
    Sat (backupDirsVisit cfg ((inits1 xs).map (fun l => kp (pre ++ l)))) w (fun w' r =>
      AdvB S v0 r0 w w' ∧ OnlyAdded (· <+: pre ++ xs) w w' ∧
        (r = .ok () → ∀ b, b <+: pre ++ xs → Tracked w' b) ∧ VisitFail S w (pre ++ xs) r)
  | [], pre, w, _, hinv, hpre => by
    simp only [inits1, List.map_nil, backupDirsVisit, List.append_nil]
    apply Sat.pure
    exact ⟨AdvB.refl hinv, OnlyAdded.refl w, fun _ => hpre, fun e h => by cases h⟩
  | x :: xs, pre, w, hpk, hinv, hpre => by
    have hlist : (inits1 (x :: xs)).map (fun l => kp (pre ++ l)) =
        kp (pre ++ [x]) :: (inits1 xs).map (fun l => kp ((pre ++ [x]) ++ l)) := by
      simp [inits1, List.map_map, Function.comp_def]
    rw [hlist]
    have happ : (pre ++ [x]) ++ xs = pre ++ x :: xs := by simp
    have ha : PKey (pre ++ [x]) := hpk.of_prefix ⟨xs, happ⟩
    have hsubp : pre ++ [x] <+: pre ++ x :: xs := ⟨xs, happ⟩
    have hsub : ∀ j, j = pre ++ [x] → j <+: pre ++ x :: xs := by
      intro j hj; subst hj; exact hsubp
    apply sat_visit_consT hinv ha
    · intro b hb hne
      rcases prefix_snoc_iff.mp hb with h | h
      · exact hpre b h
      · exact absurd h hne
    · intro w' hadv hon hfile hun
      refine ⟨hadv, hon.mono hsub, (fun h => by cases h), ?_⟩
      intro e he
      cases he
      exact ⟨rfl, pre ++ [x], hsubp, hfile, hun⟩
    · intro w' hadv hon htr
      have hpre' : ∀ b, b <+: pre ++ [x] → Tracked w' b := by
        intro b hb
        rcases prefix_snoc_iff.mp hb with h | h
        · exact (hpre b h).monoB hadv
        · subst h; exact htr
      have ih := sat_visitT xs (pre ++ [x]) w' (by rw [happ]; exact hpk) hadv.inv hpre'
      rw [happ] at ih
      apply ih.mono
      intro w'' r ⟨hadv', hon', hall, hfail⟩
      exact ⟨hadv.trans hadv', (hon.mono hsub).trans hon', hall, hfail.of_later hadv List.prefix_rfl⟩

theorem sat_backupDirsT {d : Key} {w : World} (hinv : InvB S v0 r0 w) (hd : PKey d) :
    Sat (backupDirs cfg (kp d)) w (fun w' r => AdvB S v0 r0 w w' ∧ OnlyAdded (· <+: d) w w' ∧
      (r = .ok () → ∀ b, b <+: d → Tracked w' b) ∧ VisitFail S w d r) := by
  unfold backupDirs
  rw [iterateDirTree_kp hd]
  have hroot : rootP = kp [] := rfl
  rw [hroot]
  apply sat_visit_consT hinv PKey.nil
  · intro b hb hne
    exact absurd (List.prefix_nil.mp hb) hne
  · intro w' hadv hon hfile hun
    refine ⟨hadv, hon.mono (fun j hj => by subst hj; exact List.nil_prefix), (fun h => by cases h), ?_⟩
    intro e he
    cases he
    exact ⟨rfl, [], List.nil_prefix, hfile, hun⟩
  · intro w' hadv hon htr
    have := sat_visitT (cfg := cfg) d [] w' (by simpa using hd) hadv.inv
      (by intro b hb; rw [List.prefix_nil.mp hb]; exact htr)
    simp only [List.nil_append] at this
    apply this.mono
    intro w'' r ⟨hadv', hon', hall, hfail⟩
    exact ⟨hadv.trans hadv', (hon.mono (fun j hj => by subst hj; exact List.nil_prefix)).trans hon', hall,
      hfail.of_later hadv List.prefix_rfl⟩

/-! ### tryBackup: why it fails -/

theorem sat_tryBackupT {k : Key} {w : World} (hinv : InvB S v0 r0 w) (hk : PKey k) :
    Sat (tryBackup cfg (kp k)) w (fun w' r => AdvB S v0 r0 w w' ∧ (r = .ok () → ∀ b, b <+: k → Tracked w' b) ∧
      (∀ e, r = .error e → e = .typeMismatch ∧ FileAnc (S.view .base w.fs) k)) := by
  unfold tryBackup
  apply Sat.bind
  apply ((sat_backupRequiredB hinv hk).and (sat_backupRequired_ok (S := S) hinv.good hinv.nofault hk)).mono
  intro w1 r1 ⟨⟨hadv1, hon1, hres⟩, hok1⟩
  cases r1 with
  | error e => obtain ⟨x, hx⟩ := hok1; cases hx
  | ok pr =>
    obtain ⟨info, needsBackup⟩ := pr
    obtain ⟨hfalse, htrue⟩ := hres info needsBackup rfl
    simp only
    -- the directory whose chain is backed up
    have hdir : ∀ inf : Option Info, ∃ d, PKey d ∧ backupDirPath inf (kp k) = kp d ∧ (d = k ∨ d = k.dropLast) ∧
        (∀ i, inf = some i → i.isDir = true → d = k) ∧ (∀ i, inf = some i → i.isDir = false → d = k.dropLast) ∧
        (inf = none → d = k.dropLast) := by
      intro inf
      cases inf with
      | none => exact ⟨k.dropLast, hk.dropLast, (by simp [backupDirPath, dir_kp hk]), Or.inr rfl, (by intro i h; cases h), (by intro i h; cases h), fun _ => rfl⟩
      | some i =>
        cases hd : i.isDir with
        | true =>
          refine ⟨k, hk, (by simp [backupDirPath, hd]), Or.inl rfl, fun _ _ _ => rfl, ?_, fun h => by cases h⟩
          intro i' h h'; cases h; rw [hd] at h'; cases h'
        | false =>
          refine ⟨k.dropLast, hk.dropLast, (by simp [backupDirPath, hd, dir_kp hk]), Or.inr rfl, ?_, fun _ _ _ => rfl, fun h => by cases h⟩
          intro i' h h'; cases h; rw [hd] at h'; cases h'
    obtain ⟨d, hd, hdeq, hdk, hd_dir, hd_file, hd_none⟩ := hdir info
    rw [hdeq]
    -- the key itself is, in the base view, a directory or tracked whenever its own chain is walked
    have hself : d = k → (S.view .base w1.fs).isDirAt k ∨ Tracked w1 k := by
      intro hdk'
      have hrootcase : k = k.dropLast → (S.view .base w1.fs).isDirAt k ∨ Tracked w1 k := by
        intro e
        have : k = [] := by
          apply Classical.byContradiction
          intro hne
          have := dropLast_length_lt hne
          rw [← e] at this
          omega
        rw [this]
        exact Or.inl (S.root_dir hadv1.inv.good)
      cases info with
      | none => exact hrootcase (hdk'.symm.trans (hd_none rfl))
      | some i =>
        cases hisd : i.isDir with
        | false => exact hrootcase (hdk'.symm.trans (hd_file i rfl hisd))
        | true =>
          cases needsBackup with
          | false =>
            right
            unfold Tracked
            rw [hfalse rfl]
            simp
          | true =>
            left
            obtain ⟨_, i', n, hi, hv1, hfor⟩ := htrue rfl
            cases hi
            cases n with
            | dir mt => exact ⟨mt, hv1⟩
            | file c mt =>
              have : i.kind = .file := hfor.1
              simp [Info.isDir, this] at hisd
            | link t mt => exact absurd hv1 (S.no_link hadv1.inv.good)
    have hfileanc : ∀ a, a <+: d → (S.view .base w1.fs).isFileAt a → ¬ Tracked w1 a → FileAnc (S.view .base w.fs) k := by
      intro a ha hf hu
      have hak : a <+: k := by
        rcases hdk with rfl | rfl
        · exact ha
        · exact List.IsPrefix.trans ha (List.dropLast_prefix k)
      refine ⟨a, hak, ?_, by rw [← hadv1.base]; exact hf⟩
      intro e
      subst e
      obtain ⟨c, mt, hfv⟩ := hf
      have hcontra : (S.view .base w1.fs).isDirAt a ∨ Tracked w1 a → False := by
        intro h
        rcases h with ⟨mt', h⟩ | h
        · rw [hfv] at h; cases h
        · exact hu h
      rcases hdk with hdk' | hdk'
      · exact hcontra (hself hdk')
      · -- `a <+: a.dropLast`: only for the root
        rw [hdk'] at ha
        by_cases hne : a = []
        · subst hne
          obtain ⟨mt', h⟩ := S.root_dir (s := .base) hadv1.inv.good
          rw [hfv] at h; cases h
        · exact not_prefix_dropLast hne ha
    apply Sat.bind
    apply (sat_backupDirsT hadv1.inv hd).mono
    intro w2 r2 ⟨hadv2, hon2, hall, hfail2⟩
    have hadv12 := hadv1.trans hadv2
    cases r2 with
    | error e =>
      refine ⟨hadv12, (by intro h; cases h), ?_⟩
      intro e' he'
      cases he'
      obtain ⟨h1, a, ha, hf, hu⟩ := hfail2 e rfl
      exact ⟨h1, hfileanc a ha hf hu⟩
    | ok u2 =>
      simp only
      have hall := hall rfl
      have hpref : ∀ w', (∀ b, b <+: d → Tracked w' b) → Tracked w' k → ∀ b, b <+: k → Tracked w' b := by
        intro w' hd' hk' b hb
        by_cases hbk : b = k
        · subst hbk; exact hk'
        · rcases hdk with rfl | rfl
          · exact hd' b hb
          · exact hd' b (prefix_proper_dropLast hb hbk)
      cases needsBackup with
      | false =>
        simp only [Bool.not_false, if_true]
        apply Sat.pure
        refine ⟨hadv12, fun _ => ?_, fun e h => by cases h⟩
        have : Tracked w1 k := by unfold Tracked; rw [hfalse rfl]; simp
        exact hpref w2 hall (this.monoB hadv2)
      | true =>
        simp only [Bool.not_true, Bool.false_eq_true, if_false]
        obtain ⟨hun1, i, n, rfl, hv1, hfor⟩ := htrue rfl
        simp only
        have hnl : ∀ t mt, n ≠ .link t mt := by
          intro t mt e; subst e; exact S.no_link hadv1.inv.good hv1
        cases hisd : i.isDir with
        | true =>
          simp only [if_true]
          apply Sat.pure
          refine ⟨hadv12, fun _ => ?_, fun e h => by cases h⟩
          have := hd_dir i rfl hisd
          subst this
          exact hall
        | false =>
          simp only [Bool.false_eq_true, if_false]
          have hdl := hd_file i rfl hisd
          subst hdl
          -- the node is a regular file
          obtain ⟨c, mt, hn⟩ : ∃ c mt, n = .file c mt := by
            cases n with
            | file c mt => exact ⟨c, mt, rfl⟩
            | dir mt =>
              have : i.kind = .dir := hfor.1
              simp [Info.isDir, this] at hisd
            | link t mt => exact absurd rfl (hnl t mt)
          subst hn
          have hkfile : i.kind = .file := hfor.1
          have hreg : i.isRegular = true := by
            simp [Info.isRegular, hkfile]
          simp only [hreg, if_true]
          have hkne : k ≠ [] := by
            intro e; subst e
            obtain ⟨mt', hroot⟩ := S.root_dir (s := .base) hadv1.inv.good
            rw [hroot] at hv1; cases hv1
          have hun2 : w2.infos.lookup (kp k) = none := by
            cases hl : w2.infos.lookup (kp k) with
            | none => rfl
            | some x =>
              exfalso
              have ht : Tracked w2 k := by unfold Tracked; rw [hl]; simp
              rcases hon2 k hk ht with h | h
              · exact h hun1
              · exact not_prefix_dropLast hkne h
          have hv2 : S.view .base w2.fs k = some (.file c mt) := by rw [hadv2.base]; exact hv1
          have hg2 := hadv2.inv.good
          apply Sat.bind
          apply (sat_open_ro (S := S) hg2 hk).mono
          intro w3 r3 ⟨hs3, hwh, hof3⟩
          have hadv23 := AdvB.of_same hadv2.inv hs3
          have hadv3 : AdvB S v0 r0 w w3 := hadv12.trans hadv23
          obtain ⟨sf, hsf⟩ := OnlyFault.nofault (hof3 (Or.inl ⟨c, mt, hv2⟩)) hadv2.inv.nofault
          subst hsf
          simp only
          obtain ⟨hside, hH, hflag⟩ := hwh sf rfl
          have hinv3 := hadv3.inv
          have hun3 : w3.infos.lookup (kp k) = none := by rw [hs3.infos]; exact hun2
          have hv3 : S.view .base w3.fs k = some (.file c mt) := by rw [hs3.fs]; exact hv2
          have hall3 : ∀ b, b <+: k.dropLast → Tracked w3 b := fun b hb => (hall b hb).monoB hadv23
          apply Sat.bind
          apply Sat.attempt
          -- copy, then record
          have hcopy : Sat (do copyFile cfg .backup (kp k) i sf; setInfo (kp k) (some i) : M Unit) w3
              (fun w' r => AdvB S v0 r0 w3 w' ∧ (r = .ok () → Tracked w' k) ∧ ∃ u, r = .ok u) := by
            apply Sat.bind
            apply (sat_copyFile (S := S) (s := .backup) (ks := k) (data := c) (mt0 := mt) hinv3.good hk
              hside hH (by rw [hflag]; decide) hv3 hreg
              (by rw [hfor.2.1]; exact S.mode_lt hinv3.good hv3)).mono
            intro w4 r4 ⟨hc4, hp4, hof4⟩
            have hcw : CanWrite S .backup (S.view .backup w3.fs) k :=
              Or.inr ⟨hinv3.b.absent hkne hun3,
                ⟨hkne, hinv3.parent_bdir hk hkne hun3 (by rw [hv3]; simp) (hall3 _ List.prefix_rfl)⟩, hinv3.b.bvis k⟩
            obtain ⟨u4, hr4⟩ := OnlyFault.nofault (hof4 hcw) hinv3.nofault
            subst hr4
            have hadv4 : Adv S v0 w3 w4 := Adv.backup_soft hinv3.inv hk hun3 hc4.soft
            simp only
            have hun4 : w4.infos.lookup (kp k) = none := by rw [hc4.infos]; exact hun3
            apply Sat.of_eq (setInfo_untracked hun4)
            have hv4 : S.view .base w4.fs k = some (.file c mt) := by rw [hadv4.base]; exact hv3
            have hinv5 := hadv4.inv.add_some (i := i) hk hun4 hv4 hfor
              (by
                intro c' mt' hn
                cases hn
                exact ⟨_, hp4 rfl⟩)
              (by
                intro b hb hne
                exact (hall3 b (prefix_proper_dropLast hb hne)).mono hadv4)
            have hb5 := hinv3.b.add_some (i := i) hk hkne hun3 hc4
              (fun h => by rw [hkfile] at h; cases h)
            refine ⟨⟨hadv4.trans (Adv.add hk hun4 hinv5), hb5⟩, fun _ => ?_, ⟨_, rfl⟩⟩
            unfold Tracked
            rw [show (addInfo w4 (kp k) (some i)).infos.lookup (kp k) = some (some i) from lookup_snoc_self hun4]
            simp
          apply hcopy.mono
          intro w5 r5 ⟨hadv5, htr5, hok5⟩
          obtain ⟨u5, hu5⟩ := hok5
          subst hu5
          simp only
          apply Sat.bind
          apply Sat.attempt
          apply (sat_hClose (wh := sf) (w := w5)).mono
          intro w6 r6 ⟨hs6, _⟩
          simp only
          have hadv56 := AdvB.of_same hadv5.inv hs6
          have hadv6 : AdvB S v0 r0 w w6 := (hadv3.trans hadv5).trans hadv56
          cases u5
          refine ⟨hadv6, fun _ => ?_, fun e h => by cases h⟩
          have hk6 : Tracked w6 k := (htr5 rfl).monoB hadv56
          apply hpref w6 _ hk6
          intro b hb
          exact ((hall3 b hb).monoB hadv5).monoB hadv56

/-! ### prepare -/

/-- the key lemma: what `prepare` does on healthy filesystems -/
theorem sat_prepareT {name : Path} {k : Key} {w : World} (hinv : InvB S v0 r0 w) (hk : PKey k)
    (hname : clean name = kp k) :
    Sat (prepare cfg name) w (fun w' r => AdvB S v0 r0 w w' ∧
      (∀ p, r = .ok p → p = kp k ∧ ∀ b, b <+: k → Tracked w' b) ∧
      (∀ e, r = .error e → e = .typeMismatch ∧ FileAnc (S.view .base w.fs) k)) := by
  unfold prepare
  apply Sat.bind
  apply ((sat_realPath (S := S) hinv.good hk hname).and
    (sat_realPath_ok (S := S) hinv.good hinv.nofault hk hname)).mono
  intro w1 r ⟨⟨hs, hres⟩, hok⟩
  have hadv1 := AdvB.of_same hinv hs
  obtain ⟨p, hp⟩ := hok
  subst hp
  simp only
  have hp := hres p rfl
  subst hp
  apply Sat.bind
  apply (sat_tryBackupT hadv1.inv hk).mono
  intro w2 r2 ⟨hadv2, htr, hfail⟩
  cases r2 with
  | error e =>
    refine ⟨hadv1.trans hadv2, (by intro p h; cases h), ?_⟩
    intro e' he'
    cases he'
    obtain ⟨h1, h2⟩ := hfail e rfl
    refine ⟨h1, ?_⟩
    rw [← hadv1.base]; exact h2
  | ok u =>
    apply Sat.pure
    refine ⟨hadv1.trans hadv2, ?_, fun e h => by cases h⟩
    intro p h
    cases h
    exact ⟨rfl, htr rfl⟩

end BFS.N
