import Lemmas.Trace
/-! What `tryBackup` logs: on the base side only read-only calls. -/
namespace BFS
namespace BackupFS

/-- an event on `side`, or a non-mutating one -/
def OnSideOrRO (side : Side) (e : Event) : Prop := e.sig.side = side ∨ e.mutating = false

/-- every primitive of a computation that only touches `side` -/
def OnSide (side : Side) (e : Event) : Prop := e.sig.side = side

theorem primCall_onSide (cfg : Cfg) (side : Side) (c : Call) : Logs (primCall cfg side c) (OnSide side) :=
  primCall_logs cfg side c _ (fun _ => rfl)

theorem primCall_ro (cfg : Cfg) (side : Side) (c : Call) (h : callMutating c = false) :
    Logs (primCall cfg side c) (fun e => e.mutating = false) :=
  primCall_logs cfg side c _ (fun _ => h)

theorem primInfo_logs (cfg : Cfg) (side : Side) (c : Call) {P} (h : Logs (primCall cfg side c) P) :
    Logs (primInfo cfg side c) P := by
  unfold primInfo
  apply Logs.bind h
  intro r
  cases r <;> first | exact Logs.pure _ _ | exact Logs.throw _ _

theorem primStr_logs (cfg : Cfg) (side : Side) (c : Call) {P} (h : Logs (primCall cfg side c) P) :
    Logs (primStr cfg side c) P := by
  unfold primStr
  apply Logs.bind h
  intro r
  cases r <;> first | exact Logs.pure _ _ | exact Logs.throw _ _

theorem primUnit_logs (cfg : Cfg) (side : Side) (c : Call) {P} (h : Logs (primCall cfg side c) P) :
    Logs (primUnit cfg side c) P := by
  unfold primUnit
  apply Logs.bind h
  intro r
  exact Logs.pure _ _

theorem primOpen_logs (cfg : Cfg) (side : Side) (c : Call) {P} (h : Logs (primCall cfg side c) P) :
    Logs (primOpen cfg side c) P := by
  unfold primOpen
  apply Logs.bind h
  intro r
  cases r <;> first | exact Logs.pure _ _ | exact Logs.throw _ _

theorem lexists_logs (cfg : Cfg) (side : Side) (p : Path) {P}
    (h : Logs (primCall cfg side (.lstat p)) P) : Logs (lexists cfg side p) P := by
  unfold lexists
  apply Logs.bind (Logs.attempt (primInfo_logs cfg side _ h))
  intro r
  cases r with
  | ok i => exact Logs.pure _ _
  | error e => exact Logs.ite (Logs.pure _ _) (Logs.throw _ _)

theorem ignorePerm_logs {x : M Unit} {P} (h : Logs x P) : Logs (ignorePerm x) P := by
  unfold ignorePerm
  apply Logs.bind (Logs.attempt h)
  intro r
  cases r with
  | ok u => exact Logs.pure _ _
  | error e => exact Logs.ite (Logs.pure _ _) (Logs.throw _ _)

theorem wrapped_logs {α} {x : M α} {P} (h : Logs x P) : Logs (wrapped x) P := by
  intro w
  unfold wrapped
  have := h w
  cases hx : x w with
  | mk w' r =>
    rw [hx] at this
    cases r <;> exact this

theorem whenM_logs {c : Bool} {x : M Unit} {P} (h : Logs x P) : Logs (whenM c x) P := by
  unfold whenM
  exact Logs.ite h (Logs.pure _ _)

theorem chownTo_onSide (cfg : Cfg) (side : Side) (src : Info) (n : Path) :
    Logs (chownTo cfg side src n) (OnSide side) := by
  unfold chownTo
  apply Logs.bind (primInfo_logs cfg side _ (primCall_onSide cfg side _))
  intro old
  exact whenM_logs (primUnit_logs cfg side _ (primCall_onSide cfg side _))

theorem copyDir_onSide (cfg : Cfg) (side : Side) (name : Path) (info : Info) :
    Logs (copyDir cfg side name info) (OnSide side) := by
  unfold copyDir
  apply wrapped_logs
  apply Logs.ite (Logs.throw _ _)
  apply Logs.ite (Logs.pure _ _)
  apply Logs.bind (primUnit_logs cfg side _ (primCall_onSide cfg side _)); intro _
  apply Logs.bind (primInfo_logs cfg side _ (primCall_onSide cfg side _)); intro cur
  apply Logs.bind (whenM_logs (primUnit_logs cfg side _ (primCall_onSide cfg side _))); intro _
  apply Logs.bind (whenM_logs (ignorePerm_logs (primUnit_logs cfg side _ (primCall_onSide cfg side _)))); intro _
  exact ignorePerm_logs (chownTo_onSide cfg side info name)

theorem hRead_ro (wh : WHandle) : Logs (hRead wh) (fun e => e.mutating = false) :=
  primH_logs wh "read" [] false _ (fun _ => rfl)

theorem hClose_ro (wh : WHandle) : Logs (hClose wh) (fun e => e.mutating = false) :=
  primH_logs wh "close" [] false _ (fun _ => rfl)

theorem hWrite_onSide (cfg : Cfg) (wh : WHandle) (off : Nat) (d : String) :
    Logs (hWrite cfg wh off d) (OnSide wh.side) := by
  unfold hWrite
  apply Logs.bind (primH_logs wh "write" _ true _ (fun _ => rfl)); intro _
  intro w
  cases h : (cfg.side wh.side).hwrite w.fs wh.h off d with
  | mk m' r => exact ⟨[], by simp [h], by simp⟩


theorem OnSide.toOr {side : Side} {e : Event} (h : OnSide side e) : OnSideOrRO side e := Or.inl h
theorem RO.toOr {side : Side} {e : Event} (h : e.mutating = false) : OnSideOrRO side e := Or.inr h

theorem peek_logs (cfg : Cfg) (wh : WHandle) (P) : Logs (peek cfg wh) P := by
  unfold peek
  apply Logs.bind (Logs.getW _); intro w
  split <;> first | exact Logs.pure _ _ | exact Logs.throw _ _

theorem copyChunks_logs (cfg : Cfg) (dst src : WHandle) :
    ∀ (off : Nat) (cs : List String), Logs (copyChunks cfg dst src off cs) (OnSideOrRO dst.side)
  | _, [] => by
    unfold copyChunks
    exact (hRead_ro src).mono (fun _ h => RO.toOr h)
  | off, c :: cs => by
    unfold copyChunks
    apply Logs.bind ((hRead_ro src).mono (fun _ h => RO.toOr h)); intro _
    apply Logs.bind ((hWrite_onSide cfg dst off c).mono (fun _ h => OnSide.toOr h)); intro _
    exact copyChunks_logs cfg dst src _ cs

theorem primOpen_side (cfg : Cfg) (side : Side) (c : Call) (w w' : World) (h : WHandle)
    (hw : primOpen cfg side c w = (w', .ok h)) : h.side = side := by
  unfold primOpen at hw
  rw [M.bind_apply] at hw
  cases hp : primCall cfg side c w with
  | mk w1 r =>
    rw [hp] at hw
    cases r with
    | error e => cases hw
    | ok v =>
      cases v <;> simp only [M.pure_apply, M.throw] at hw <;> cases hw
      rfl

/-- a bind whose continuation may use what the first computation returned in the state it
returned it -/
theorem Logs.bind' {α β} {x : M α} {f : α → M β} {P}
    (hx : Logs x P) (hf : ∀ w w' a, x w = (w', .ok a) → Extends P w' (f a w').1) :
    Logs (x >>= f) P := by
  intro w
  rw [M.bind_apply]
  have h1 := hx w
  cases hxw : x w with
  | mk w' r =>
    rw [hxw] at h1
    cases r with
    | ok a => exact h1.trans (hf w w' a hxw)
    | error e => exact h1

theorem writeFile_logs (cfg : Cfg) (side : Side) (name : Path) (perm : Nat) (src : WHandle) :
    Logs (writeFile cfg side name perm src) (OnSideOrRO side) := by
  unfold writeFile
  apply Logs.bind' ((primOpen_logs cfg side _ (primCall_onSide cfg side _)).mono (fun _ h => OnSide.toOr h))
  intro w w' dst hdst
  have hs : dst.side = side := primOpen_side cfg side _ w w' dst hdst
  revert w'
  suffices h : Logs (do
      let data ← peek cfg src
      let r ← attempt (copyChunks cfg dst src 0 (chunks (data.length + 1) data.toList))
      let c ← attempt (hClose dst)
      match r, c with
      | .error e, _ => M.throw e
      | .ok (), .error e => M.throw e
      | .ok (), .ok () => pure ()) (OnSideOrRO side) by
    intro w' _; exact h w'
  apply Logs.bind (peek_logs cfg src _); intro data
  apply Logs.bind (Logs.attempt (hs ▸ copyChunks_logs cfg dst src 0 _)); intro r
  apply Logs.bind (Logs.attempt ((hClose_ro dst).mono (fun _ h => RO.toOr h))); intro c
  cases r with
  | error e => exact Logs.throw _ _
  | ok u =>
    cases c with
    | error e => exact Logs.throw _ _
    | ok u' => exact Logs.pure _ _

theorem chownTo_logs (cfg : Cfg) (side : Side) (src : Info) (n : Path) :
    Logs (chownTo cfg side src n) (OnSideOrRO side) :=
  (chownTo_onSide cfg side src n).mono (fun _ h => OnSide.toOr h)

theorem copyFile_logs (cfg : Cfg) (side : Side) (name : Path) (info : Info) (src : WHandle) :
    Logs (copyFile cfg side name info src) (OnSideOrRO side) := by
  unfold copyFile
  apply wrapped_logs
  apply Logs.ite (Logs.throw _ _)
  apply Logs.bind (writeFile_logs cfg side name _ src); intro _
  apply Logs.bind (ignorePerm_logs (chownTo_logs cfg side info name)); intro _
  apply Logs.bind (primInfo_logs cfg side _ ((primCall_onSide cfg side _).mono (fun _ h => OnSide.toOr h))); intro cur
  apply Logs.bind (whenM_logs (primUnit_logs cfg side _ ((primCall_onSide cfg side _).mono (fun _ h => OnSide.toOr h)))); intro _
  exact whenM_logs (ignorePerm_logs (primUnit_logs cfg side _ ((primCall_onSide cfg side _).mono (fun _ h => OnSide.toOr h))))

theorem copySymlink_logs (cfg : Cfg) (source target : Side) (name : Path) (info : Info) :
    Logs (copySymlink cfg source target name info) (OnSideOrRO target) := by
  unfold copySymlink
  apply wrapped_logs
  apply Logs.ite (Logs.throw _ _)
  apply Logs.bind (primStr_logs cfg source _ ((primCall_ro cfg source _ rfl).mono (fun _ h => RO.toOr h))); intro pointsAt
  apply Logs.bind (primUnit_logs cfg target _ ((primCall_onSide cfg target _).mono (fun _ h => OnSide.toOr h))); intro _
  exact ignorePerm_logs (primUnit_logs cfg target _ ((primCall_onSide cfg target _).mono (fun _ h => OnSide.toOr h)))

theorem setInfo_logs (p : Path) (i : Option Info) (P) : Logs (setInfo p i) P := by
  unfold setInfo
  apply Logs.modifyW
  intro w
  split <;> rfl

theorem deleteInfo_logs (p : Path) (P) : Logs (deleteInfo p) P := by
  unfold deleteInfo
  exact Logs.modifyW _ (fun _ => rfl)

theorem lookupInfo_logs (p : Path) (P) : Logs (lookupInfo p) P := by
  unfold lookupInfo
  apply Logs.bind (Logs.getW _); intro w
  exact Logs.pure _ _

theorem backupRequired_logs (cfg : Cfg) (r : Path) :
    Logs (backupRequired cfg r) (fun e => e.mutating = false) := by
  unfold backupRequired
  apply Logs.bind (lookupInfo_logs r _); intro li
  cases li with
  | some info => exact Logs.pure _ _
  | none =>
    apply Logs.bind (Logs.attempt (primInfo_logs cfg .base _ (primCall_ro cfg .base _ rfl))); intro res
    cases res with
    | ok i => exact Logs.pure _ _
    | error e =>
      apply Logs.ite
      · apply Logs.bind (setInfo_logs _ _ _); intro _
        exact Logs.pure _ _
      · exact Logs.throw _ _

theorem backupDirsVisit_logs (cfg : Cfg) :
    ∀ l : List Path, Logs (backupDirsVisit cfg l) (OnSideOrRO .backup)
  | [] => Logs.pure _ _
  | sub :: rest => by
    unfold backupDirsVisit
    apply Logs.bind ((backupRequired_logs cfg sub).mono (fun _ h => RO.toOr h)); intro fr
    rcases fr with ⟨fi, required⟩
    simp only
    apply Logs.ite (backupDirsVisit_logs cfg rest)
    cases fi with
    | none => exact backupDirsVisit_logs cfg rest
    | some i =>
      apply Logs.bind ((copyDir_onSide cfg .backup sub i).mono (fun _ h => OnSide.toOr h)); intro _
      apply Logs.bind (setInfo_logs _ _ _); intro _
      exact backupDirsVisit_logs cfg rest

/-- T08/T02 core: while taking a backup, BackupFS issues only read-only calls on the base
filesystem (Lstat, Open, Read, Readlink, Close); every mutating call goes to the backup. -/
theorem tryBackup_logs (cfg : Cfg) (r : Path) : Logs (tryBackup cfg r) (OnSideOrRO .backup) := by
  unfold tryBackup
  apply Logs.bind ((backupRequired_logs cfg r).mono (fun _ h => RO.toOr h)); intro inb
  rcases inb with ⟨info, needs⟩
  simp only
  apply Logs.bind (by unfold backupDirs; exact backupDirsVisit_logs cfg _); intro _
  apply Logs.ite (Logs.pure _ _)
  cases info with
  | none => exact Logs.pure _ _
  | some i =>
    simp only
    apply Logs.ite (Logs.pure _ _)
    apply Logs.ite
    · apply Logs.bind (primOpen_logs cfg .base _ ((primCall_ro cfg .base _ rfl).mono (fun _ h => RO.toOr h))); intro sf
      apply Logs.bind (Logs.attempt (by
        apply Logs.bind (copyFile_logs cfg .backup r i sf); intro _
        exact setInfo_logs _ _ _)); intro res
      apply Logs.bind (Logs.attempt ((hClose_ro sf).mono (fun _ h => RO.toOr h))); intro _
      cases res with
      | ok u => exact Logs.pure _ _
      | error e => exact Logs.throw _ _
    · apply Logs.bind (copySymlink_logs cfg .base .backup r i); intro _
      exact setInfo_logs _ _ _

end BackupFS
end BFS
