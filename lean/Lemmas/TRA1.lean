import Lemmas.TWalk
import Lemmas.SimOSDir
/-!
  Lemmas/TRA1.lean — `RemoveAll` (C03), part 1: the read-only steps of the walk (`Lstat`,
  `readDirNames`) on two disks with the same base view, and on a healthy `World`.
-/
namespace BFS
open BackupFS MFS

section
variable {bk kk : Key}

/-! ### `Lstat` on the base -/

theorem base_lstat_rel {m1 m2 : MFS} (hr : Roots bk kk) (h : Twin bk kk m1 m2) {j : Key} (hj : PKey j) :
    ((baseFS bk kk).call m1 (.lstat (kp j))).1 = m1 ∧ ((baseFS bk kk).call m2 (.lstat (kp j))).1 = m2 ∧
    ((∃ i1 i2, ((baseFS bk kk).call m1 (.lstat (kp j))).2 = .ok (.info i1) ∧
        ((baseFS bk kk).call m2 (.lstat (kp j))).2 = .ok (.info i2) ∧ i1.isDir = i2.isDir) ∨
     (∃ e, ((baseFS bk kk).call m1 (.lstat (kp j))).2 = .error e ∧
        ((baseFS bk kk).call m2 (.lstat (kp j))).2 = .error e)) := by
  have e1 := side_lstat (m := m1) .base hr hj
  have e2 := side_lstat (m := m2) .base hr hj
  show (((osCfg bk kk).side .base).call m1 _).1 = m1 ∧ (((osCfg bk kk).side .base).call m2 _).1 = m2 ∧ _
  refine ⟨by rw [e1], by rw [e2], ?_⟩
  show (∃ i1 i2, (((osCfg bk kk).side .base).call m1 _).2 = _ ∧ (((osCfg bk kk).side .base).call m2 _).2 = _ ∧ _) ∨
    (∃ e, (((osCfg bk kk).side .base).call m1 _).2 = _ ∧ (((osCfg bk kk).side .base).call m2 _).2 = _)
  rw [e1, e2]
  rcases (statE_rel h hr.pb hj (TextOf.kp _)).2 with ⟨n1, n2, he, l1, l2⟩ | ⟨e, l1, l2, _⟩
  · left
    have l1' : m1.lstat (kp (osRoot bk kk .base ++ j)) = .ok (infoOf (base (kp (bk ++ j))) n1) := l1
    have l2' : m2.lstat (kp (osRoot bk kk .base ++ j)) = .ok (infoOf (base (kp (bk ++ j))) n2) := l2
    rw [l1', l2']
    refine ⟨_, _, rfl, rfl, ?_⟩
    show ({ infoOf _ n1 with name := _ } : Info).isDir = ({ infoOf _ n2 with name := _ } : Info).isDir
    have := erase_isDir he
    cases n1 <;> cases n2 <;> simp_all [Info.isDir, infoOf, Node.isDir]
  · right
    have l1' : m1.lstat (kp (osRoot bk kk .base ++ j)) = .error e := l1
    have l2' : m2.lstat (kp (osRoot bk kk .base ++ j)) = .error e := l2
    rw [l1', l2']
    exact ⟨e, rfl, rfl⟩

/-! ### listing a directory -/

theorem childNames_perm {m1 m2 : MFS} (h : Twin bk kk m1 m2) {K : Key} (hK : bk <+: K) :
    (m1.childNames K).Perm (m2.childNames K) := by
  have nd : ∀ m : MFS, (m.childNames K).Nodup := by
    intro m
    unfold MFS.childNames
    exact nodup_eraseDups_aux _ _ (Nat.le_refl _)
  apply (List.perm_ext_iff_of_nodup (nd m1) (nd m2)).mpr
  intro n
  rw [mem_childNames h.g1, mem_childNames h.g2]
  have hp : bk <+: K ++ [n] := List.IsPrefix.trans hK (List.prefix_append _ _)
  constructor
  · intro a b; exact a ((h.eq.none_iff hp).mpr b)
  · intro a b; exact a ((h.eq.none_iff hp).mp b)

theorem hreaddirnames_rel {m1 m2 : MFS} (h : Twin bk kk m1 m2) {hd : Handle} (hK : bk <+: hd.key) :
    m1.hreaddirnames hd = m2.hreaddirnames hd := by
  unfold MFS.hreaddirnames
  have hget := h.eq.get hd.key hK
  cases h1 : m1.get hd.key with
  | none => rw [map_erase_none hget h1]
  | some n1 =>
    obtain ⟨n2, h2, he⟩ := map_erase_some hget h1
    rw [h2]
    rcases erase_pair he (by
      cases n1 with
      | link t mt => exact absurd h1 (by
          obtain ⟨j, hj⟩ := hK
          rw [← hj]
          exact h.g1.nolink _ t mt (Or.inl (List.prefix_append _ _)))
      | file c mt => rfl
      | dir mt => rfl) with ⟨a, b, rfl, rfl⟩ | ⟨c, mt, rfl, rfl⟩
    · simp only
      unfold sortStrings
      rw [sortBy_perm_invariant strictTotal_strLt (childNames_perm h hK)]
    · rfl

theorem base_open_rel {m1 m2 : MFS} (hr : Roots bk kk) (h : Twin bk kk m1 m2) {j : Key} (hj : PKey j) :
    ((baseFS bk kk).call m1 (.open_ (kp j))).1 = m1 ∧ ((baseFS bk kk).call m2 (.open_ (kp j))).1 = m2 ∧
    ((baseFS bk kk).call m1 (.open_ (kp j))).2 = ((baseFS bk kk).call m2 (.open_ (kp j))).2 ∧
    (∀ hd, ((baseFS bk kk).call m1 (.open_ (kp j))).2 = .ok (.handle hd) → hd.key = bk ++ j) := by
  have e1 := side_open (m := m1) .base hr hj
  have e2 := side_open (m := m2) .base hr hj
  obtain ⟨a, _⟩ := openFile_rel h hr.pb hj (TextOf.kp _) O_RDONLY 0
  refine ⟨os_pure_open (s := .base) hr (Prod.ext rfl rfl), os_pure_open (s := .base) hr (Prod.ext rfl rfl), ?_, ?_⟩
  · show (((osCfg bk kk).side .base).call m1 _).2 = (((osCfg bk kk).side .base).call m2 _).2
    rw [e1, e2]
    exact map_congr _ a
  · intro hd hh
    exact (os_open_handle (s := .base) hr h.g1 hj (Prod.ext rfl hh)).1

/-- `readDirNames` of `Walk` over the base FSI, on two disks with the same base view -/
theorem fsiReadDirNames_rel {m1 m2 : MFS} (hr : Roots bk kk) (h : Twin bk kk m1 m2) {j : Key} (hj : PKey j) :
    (fsiReadDirNames (baseFS bk kk) m1 (kp j)).1 = m1 ∧ (fsiReadDirNames (baseFS bk kk) m2 (kp j)).1 = m2 ∧
    (fsiReadDirNames (baseFS bk kk) m1 (kp j)).2 = (fsiReadDirNames (baseFS bk kk) m2 (kp j)).2 ∧
    (∀ ns, (fsiReadDirNames (baseFS bk kk) m1 (kp j)).2 = .ok ns → ∀ n ∈ ns, Plain n) := by
  obtain ⟨p1, p2, hres, hkey⟩ := base_open_rel hr h hj
  have hrd : (baseFS bk kk).hreaddirnames = MFS.hreaddirnames := side_hreaddirnames bk kk .base
  unfold fsiReadDirNames
  cases hc1 : (baseFS bk kk).call m1 (.open_ (kp j)) with
  | mk a1 r1 =>
    cases hc2 : (baseFS bk kk).call m2 (.open_ (kp j)) with
    | mk a2 r2 =>
      rw [hc1] at p1 hres hkey
      rw [hc2] at p2 hres
      simp only at p1 p2 hres hkey
      subst p1 p2 hres
      cases r1 with
      | error e => exact ⟨rfl, rfl, rfl, fun _ h => by cases h⟩
      | ok ret =>
        cases ret with
        | handle hd =>
          simp only [hrd]
          have hk := hkey hd rfl
          have := hreaddirnames_rel h (hd := hd) (by rw [hk]; exact List.prefix_append _ _)
          rw [← this]
          cases hn : a1.hreaddirnames hd with
          | error e => exact ⟨rfl, rfl, rfl, fun _ h => by cases h⟩
          | ok names =>
            refine ⟨rfl, rfl, rfl, ?_⟩
            intro ns hns
            cases hns
            intro n hn'
            have hpl : ∀ x ∈ names, Plain x :=
              os_readdir_plain (s := .base) h.g1 (by rw [side_hreaddirnames]; exact hn)
            exact hpl n ((sortBy_perm strLt names).mem_iff.mp hn')
        | unit => exact ⟨rfl, rfl, rfl, fun _ h => by cases h⟩
        | info i => exact ⟨rfl, rfl, rfl, fun _ h => by cases h⟩
        | str s => exact ⟨rfl, rfl, rfl, fun _ h => by cases h⟩

/-! ### the same steps on a healthy `World` -/

theorem sat_primInfo_nf {cfg : Cfg} {c : Call} {w : World} (hnf : w.faults = []) :
    Sat (primInfo cfg .base c) w (fun w' r =>
      w'.fs = ((cfg.side .base).call w.fs c).1 ∧ w'.infos = w.infos ∧ w'.faults = w.faults ∧
      r = (match ((cfg.side .base).call w.fs c).2 with
        | .ok (.info i) => .ok i
        | .ok _ => .error .other
        | .error e => .error e)) := by
  unfold primInfo
  apply Sat.bind
  apply (sat_primCall_nf hnf).mono
  intro w1 r ⟨hfs, hr, hi, hf⟩
  rw [← hr]
  cases r with
  | error e => exact ⟨hfs, hi, hf, rfl⟩
  | ok ret =>
    cases ret with
    | info i => apply Sat.pure; exact ⟨hfs, hi, hf, rfl⟩
    | unit => exact ⟨hfs, hi, hf, rfl⟩
    | handle h => exact ⟨hfs, hi, hf, rfl⟩
    | str s => exact ⟨hfs, hi, hf, rfl⟩

/-- `Walk`'s `lstat` on the world is `fsiLstat` on its disk -/
theorem worldLstat_nf {cfg : Cfg} {w : World} (hnf : w.faults = []) (p : Path)
    (hpure : ((cfg.side .base).call w.fs (.lstat p)).1 = w.fs) :
    SameFS w ((worldWalkOps cfg .base).lstat w p).1 ∧
      ((worldWalkOps cfg .base).lstat w p).2 = (fsiLstat (cfg.side .base) w.fs p).2 := by
  have h := (sat_primInfo_nf (cfg := cfg) (c := .lstat p) hnf).elim
  show SameFS w (primInfo cfg .base (.lstat p) w).1 ∧ (primInfo cfg .base (.lstat p) w).2 = _
  obtain ⟨h1, h2, h3, h4⟩ := h
  refine ⟨⟨h1.trans hpure, h2, h3⟩, ?_⟩
  rw [h4]
  unfold fsiLstat
  cases (cfg.side .base).call w.fs (.lstat p) with
  | mk m' r =>
    cases r with
    | error e => rfl
    | ok ret => cases ret <;> rfl

theorem sat_primOpen_nf2 {cfg : Cfg} {c : Call} {w : World} (hnf : w.faults = []) :
    Sat (primOpen cfg .base c) w (fun w' r =>
      w'.fs = ((cfg.side .base).call w.fs c).1 ∧ w'.infos = w.infos ∧ w'.faults = w.faults ∧
      r = (match ((cfg.side .base).call w.fs c).2 with
        | .ok (.handle h) => .ok { h := h, arg := c.primaryPath, side := .base }
        | .ok _ => .error .other
        | .error e => .error e)) := by
  unfold primOpen
  apply Sat.bind
  apply (sat_primCall_nf hnf).mono
  intro w1 r ⟨hfs, hr, hi, hf⟩
  rw [← hr]
  cases r with
  | error e => exact ⟨hfs, hi, hf, rfl⟩
  | ok ret =>
    cases ret with
    | handle h => apply Sat.pure; exact ⟨hfs, hi, hf, rfl⟩
    | unit => exact ⟨hfs, hi, hf, rfl⟩
    | info i => exact ⟨hfs, hi, hf, rfl⟩
    | str s => exact ⟨hfs, hi, hf, rfl⟩

theorem sat_hReaddirnames_nf {cfg : Cfg} {wh : WHandle} {w : World} (hnf : w.faults = []) :
    Sat (hReaddirnames cfg wh) w (fun w' r => SameFS w w' ∧ r = (cfg.side wh.side).hreaddirnames w.fs wh.h) := by
  unfold hReaddirnames
  apply Sat.bind
  apply (sat_primH_nf hnf).mono
  intro w1 r1 ⟨hs1, hr1⟩
  subst hr1
  simp only
  apply Sat.bind
  apply Sat.getW
  simp only
  rw [hs1.fs]
  cases (cfg.side wh.side).hreaddirnames w.fs wh.h with
  | ok ns => exact ⟨hs1, rfl⟩
  | error e => exact ⟨hs1, rfl⟩

/-- `Walk`'s `readDirNames` on the world is `fsiReadDirNames` on its disk -/
theorem worldReadDir_nf {cfg : Cfg} {w : World} (hnf : w.faults = []) (p : Path)
    (hpure : ((cfg.side .base).call w.fs (.open_ p)).1 = w.fs) :
    SameFS w ((worldWalkOps cfg .base).readDirNames w p).1 ∧
      ((worldWalkOps cfg .base).readDirNames w p).2 = (fsiReadDirNames (cfg.side .base) w.fs p).2 := by
  have key : Sat (do
      let h ← primOpen cfg .base (.open_ p)
      let r ← attempt (hReaddirnames cfg h)
      let _ ← attempt (hClose h)
      match r with
      | .ok ns => pure (sortStrings ns)
      | .error e => M.throw e : M (List Name)) w
      (fun w' r => SameFS w w' ∧ r = (fsiReadDirNames (cfg.side .base) w.fs p).2) := by
    unfold fsiReadDirNames
    apply Sat.bind
    apply (sat_primOpen_nf2 (cfg := cfg) (c := .open_ p) hnf).mono
    intro w1 r1 ⟨hfs1, hi1, hf1, hr1⟩
    have hs1 : SameFS w w1 := ⟨hfs1.trans hpure, hi1, hf1⟩
    rw [hr1]
    cases hc : (cfg.side .base).call w.fs (.open_ p) with
    | mk m' rr =>
      rw [hc] at hpure
      simp only at hpure
      subst hpure
      cases rr with
      | error e => exact ⟨hs1, rfl⟩
      | ok ret =>
        cases ret with
        | handle h =>
          simp only
          apply Sat.bind
          apply Sat.attempt
          apply (sat_hReaddirnames_nf (cfg := cfg) (wh := { h := h, arg := (Call.open_ p).primaryPath, side := .base })
            (hs1.faults.trans hnf)).mono
          intro w2 r2 ⟨hs2, hr2⟩
          simp only
          apply Sat.bind
          apply Sat.attempt
          apply (sat_primH_nf (wh := { h := h, arg := (Call.open_ p).primaryPath, side := .base }) (method := "close")
            (extra := []) (mu := false) ((hs2.faults.trans hs1.faults).trans hnf)).mono
          intro w3 r3 ⟨hs3, _⟩
          simp only
          have hs := (hs1.trans hs2).trans hs3
          rw [hr2, hs1.fs]
          show Sat _ w3 (fun w' r => SameFS w w' ∧ r = _)
          cases (cfg.side .base).hreaddirnames w.fs h with
          | ok ns => exact ⟨hs, rfl⟩
          | error e => exact ⟨hs, rfl⟩
        | unit => exact ⟨hs1, rfl⟩
        | info i => exact ⟨hs1, rfl⟩
        | str s => exact ⟨hs1, rfl⟩
  exact key

end

end BFS
