import Lemmas.HLLStep
import Lemmas.J12Disk
/-!
  Lemmas/HLLEnd.lean — calls that FOLLOW a final symlink, on well-formed disks with symlinks anywhere:
  whatever route the kernel's resolution takes (any number of symlinks, `..`, absolute targets), it
  ends at a key `K` of the disk (`found`) or at a missing name in a live directory (`missing`), and
  the call changes the node at `K` and stamps its parent only (`D.At`).  Hence: if the resolution
  ENDS OUTSIDE an upward-closed set of keys (`EndsOutside`), nothing in that set changes.

  `visible_call_untouched_links_w`: Lemma A of `Lemmas/HLLStep.lean` with the weaker hypothesis on the
  final component: it is not a symlink, OR the following resolution of the name ends outside the
  hidden subtrees.
-/
namespace BFS
namespace HLL
open MFS HiddenFS D L

/-- a `missing` outcome names an absent entry of a live directory -/
theorem walk_missing_get {m : MFS} (hw : WFL m) (f : Bool) :
    ∀ (fuel hops : Nat) (cur : Key) (cs : List Name) (P : Key) (c : Name),
      (∃ mt, m.get cur = some (.dir mt)) → walk m f fuel hops cur cs = .missing P c →
      (∃ mt, m.get P = some (.dir mt)) ∧ m.get (P ++ [c]) = none := by
  intro fuel
  induction fuel with
  | zero =>
    intro hops cur cs P c _ h
    unfold walk at h
    cases h
  | succ fuel ih =>
    intro hops cur cs P c hcur h
    cases cs with
    | nil =>
      unfold walk at h
      split at h <;> cases h
    | cons x rest =>
      unfold walk at h
      split at h
      · exact ih _ _ _ _ _ hcur h
      · split at h
        · refine ih _ _ _ _ _ ?_ h
          obtain ⟨mt, hmt⟩ := hcur
          by_cases hne : cur = []
          · subst hne; exact ⟨mt, hmt⟩
          · exact hw.parent cur _ hmt hne
        · simp only at h
          split at h
          · rename_i heq
            split at h
            · cases h; exact ⟨hcur, heq⟩
            · cases h
          · rename_i mt heq
            exact ih _ _ _ _ _ ⟨mt, heq⟩ h
          · split at h <;> cases h
          · split at h
            · cases h
            · split at h
              · cases h
              · split at h
                · cases h
                · refine ih _ _ _ _ _ ?_ h
                  split
                  · exact hw.root
                  · exact hcur

theorem namei_missing_get {m : MFS} (hw : WFL m) {t : Path} {f : Bool} {P : Key} {c : Name}
    (h : namei m t f = .missing P c) : (∃ mt, m.get P = some (.dir mt)) ∧ m.get (P ++ [c]) = none := by
  unfold namei at h
  split at h
  · cases h
  · exact walk_missing_get hw f _ _ _ _ _ _ hw.root h

/-- the resolution of text `t` (following a final symlink iff `f`) does not end in `Hid` -/
def EndsOutsideF (Hid : Key → Prop) (m : MFS) (t : Path) (f : Bool) : Prop :=
  match namei m t f with
  | .found K _ => ¬ Hid K
  | .missing P c => ¬ Hid (P ++ [c])
  | .err _ => True

/-- the FOLLOWING resolution of text `t` does not end in `Hid` -/
abbrev EndsOutside (Hid : Key → Prop) (m : MFS) (t : Path) : Prop := EndsOutsideF Hid m t true

theorem at_outside {Hid : Key → Prop} (hup : ∀ p q, Hid p → p <+: q → Hid q) {m m' : MFS} {K : Key}
    (hK : ¬ Hid K) (h : At m m' K) : ∀ J, Hid J → m'.get J = m.get J := by
  intro J hJ
  apply h.other J
  · intro e; exact hK (e ▸ hJ)
  · intro e; exact hK (hup _ _ hJ (e ▸ dropLast_prefix K))

/-- a syscall that acts at the key its resolution ends at -/
theorem resolve_frame {Hid : Key → Prop} (hup : ∀ p q, Hid p → p <+: q → Hid q) {m : MFS} (hw : WFL m)
    {t : Path} {f : Bool} (hend : EndsOutsideF Hid m t f) (op : MFS)
    (hat : ∀ K, NC m K (namei m t f) → At m op K) (herr : ∀ e, namei m t f = .err e → op = m) :
    ∀ J, Hid J → op.get J = m.get J := by
  unfold EndsOutsideF at hend
  cases hres : namei m t f with
  | found K n =>
    rw [hres] at hend
    exact at_outside hup hend (hat K (.found n (J12.namei_found_get hres) hres))
  | missing P c =>
    rw [hres] at hend
    obtain ⟨⟨mt, hP⟩, hc⟩ := namei_missing_get hw hres
    have hne : P ++ [c] ≠ [] := by simp
    refine at_outside hup hend (hat (P ++ [c]) (.missing hne mt hc (by simpa using hP) ?_))
    rw [hres]
    simp
  | err e =>
    intro J _
    rw [herr e hres]

/-- the calls that are ONE syscall on ONE name, with the follow flag of its name resolution
(`Open`, `Stat`, `Lstat`, `Readlink` change nothing whatever they resolve to); `none` for the
programs `MkdirAll`, `RemoveAll` and the two-name `Rename` -/
def resolveFlag : Call → Option Bool
  | .create _ => some true
  | .mkdir _ _ => some false
  | .open_ _ => some true
  | .openFile _ f _ => some (!(hasFlag f O_CREATE && hasFlag f O_EXCL))
  | .remove _ => some false
  | .stat _ => some true
  | .chmod _ _ => some true
  | .chown _ _ _ => some true
  | .chtimes _ _ _ => some true
  | .lstat _ => some false
  | .symlink _ _ => some false
  | .readlink _ => some false
  | .lchown _ _ _ => some false
  | .mkdirAll _ _ => none
  | .removeAll _ => none
  | .rename _ _ => none

theorem resolveFlag_of_followsMut {c : Call} (h : followsMut c = true) : resolveFlag c = some true := by
  cases c <;> simp only [followsMut, Bool.false_eq_true] at h <;> try rfl
  case openFile n f p =>
    simp only [Bool.and_eq_true, Bool.not_eq_true'] at h
    simp [resolveFlag, h.1]

/-- one syscall on one name: nothing changes where its resolution does not end -/
theorem osCall_ends_untouched {Hid : Key → Prop} (hup : ∀ p q, Hid p → p <+: q → Hid q) {m : MFS} (hw : WFL m)
    {c2 : Call} {t : Path} {f : Bool} (hf : resolveFlag c2 = some f) (hp : c2.accessPaths = [t])
    (hend : EndsOutsideF Hid m t f) : ∀ J, Hid J → (osCall m c2).1.get J = m.get J := by
  cases c2 <;> simp only [resolveFlag, Option.some.injEq] at hf <;> try (cases hf; done)
  all_goals (simp only [Call.accessPaths, List.cons.injEq, and_true] at hp; subst hp; subst hf)
  case create n =>
    apply resolve_frame hup hw hend
    · intro K hN
      exact at_openFile _ _ hN
    · intro e he
      show (m.openFile n _ _).1 = m
      unfold MFS.openFile
      have : (!(hasFlag (O_RDWR ||| O_CREATE ||| O_TRUNC) O_CREATE && hasFlag (O_RDWR ||| O_CREATE ||| O_TRUNC) O_EXCL)) = true := by
        decide
      simp only [this, he]
  case mkdir n p =>
    apply resolve_frame hup hw hend
    · intro K hN; exact at_mkdir p hN
    · intro e he
      show (m.mkdir n p).1 = m
      unfold MFS.mkdir
      rw [he]
  case open_ n =>
    intro J _
    show (m.openFile n O_RDONLY 0).1.get J = _
    rw [openFile_ro_state]
  case openFile n fl p =>
    apply resolve_frame hup hw hend
    · intro K hN
      exact at_openFile _ _ hN
    · intro e he
      show (m.openFile n fl p).1 = m
      unfold MFS.openFile
      simp only [he]
  case remove n =>
    apply resolve_frame hup hw hend
    · intro K hN; exact at_remove hN
    · intro e he
      show (m.remove n).1 = m
      unfold MFS.remove
      rw [he]
  case stat n => intro J _; rfl
  case chmod n md =>
    apply resolve_frame hup hw hend
    · intro K hN; exact at_chmod md hN
    · intro e he
      show (m.chmod n md).1 = m
      unfold MFS.chmod
      rw [he]
  case chown n u g =>
    apply resolve_frame hup hw hend
    · intro K hN; exact at_chown u g hN
    · intro e he
      show (m.chown n u g).1 = m
      unfold MFS.chown
      rw [he]
  case chtimes n a mt =>
    apply resolve_frame hup hw hend
    · intro K hN; exact at_chtimes mt hN
    · intro e he
      show (m.chtimes n mt).1 = m
      unfold MFS.chtimes
      rw [he]
  case lstat n => intro J _; rfl
  case symlink o n =>
    apply resolve_frame hup hw hend
    · intro K hN; exact at_symlink o hN
    · intro e he
      show (m.symlink o n).1 = m
      unfold MFS.symlink
      split
      · rfl
      · rw [he]
  case readlink n => intro J _; rfl
  case lchown n u g =>
    apply resolve_frame hup hw hend
    · intro K hN; exact at_lchown u g hN
    · intro e he
      show (m.lchown n u g).1 = m
      unfold MFS.lchown
      rw [he]

/-- the keys at or below a hidden key, as disk keys -/
def HidDisk (bk : Key) (hks : List Key) (K : Key) : Prop := ∃ h ∈ hks, bk ++ h <+: K

theorem hidDisk_up (bk : Key) (hks : List Key) : ∀ p q, HidDisk bk hks p → p <+: q → HidDisk bk hks q :=
  fun _ _ ⟨h, hm, hp⟩ hpq => ⟨h, hm, hp.trans hpq⟩

section
variable {bk : Key} {hks : List Key} {hs : List Path}

theorem keyCall_resolveFlag {pk : Key} {c c' : Call} (hk : KeyCall pk c c') : resolveFlag c' = resolveFlag c := by
  cases hk <;> rfl

/-- ONE syscall on ONE visible name (`resolveFlag c1 = some f`): if the kernel's resolution of the
name — with the call's own follow flag, by whatever route, through any number of symlinks — ends
outside the hidden subtrees, nothing at or below a hidden key changes -/
theorem ends_call_untouched (H : HidKeys hs hks) (hne : hks ≠ []) {m : MFS} (hw : WFL m) (hbk : PKey bk)
    (c1 : Call) (hvis : ∀ n ∈ c1.accessPaths, isHidden n hs = .ok false)
    {f : Bool} (hrf : resolveFlag c1 = some f)
    (hend : ∀ n ∈ c1.accessPaths, EndsOutsideF (HidDisk bk hks) m (kp (bk ++ nameKey n)) f) :
    ∀ j, HidK hks j → ((prefixFS (kp bk) osfs).call m c1).1.get (bk ++ j) = m.get (bk ++ j) := by
  intro j hj
  have hJ : HidDisk bk hks (bk ++ j) := by
    obtain ⟨h, hm, hp⟩ := hj
    exact ⟨h, hm, (List.prefix_append_right_inj bk).mpr hp⟩
  rcases prefix_call_cases hbk m c1 with ⟨e, _, hc⟩ | ⟨c2, hk, _, hc⟩
  · rw [hc]
  · rw [hc]
    have hrf2 : resolveFlag c2 = some f := by rw [keyCall_resolveFlag hk]; exact hrf
    have key : ∀ {n : Path} {x : Key}, PKey x → n ∈ c1.accessPaths →
        PrefixFS.prefixPath (kp bk) n = .ok (kp (bk ++ x)) →
        c2.accessPaths = [kp (bk ++ x)] → (osCall m c2).1.get (bk ++ j) = m.get (bk ++ j) := by
      intro n x hx hn hp h2
      have hxe := prefix_key_nameKey H hne hbk hx hp (hvis n hn)
      have he := hend n hn
      rw [← hxe] at he
      exact osCall_ends_untouched (hidDisk_up bk hks) hw hrf2 h2 he _ hJ
    cases hk with
    | create n x hx hp | mkdir n p x hx hp | open_ n x hx hp | openFile n fl p x hx hp | remove n x hx hp
    | stat n x hx hp | chmod n md x hx hp | chown n u g x hx hp | chtimes n a t x hx hp | lstat n x hx hp
    | symlink o n o' x hx hp | readlink n x hx hp | lchown n u g x hx hp =>
      exact key hx (by simp [Call.accessPaths]) hp rfl
    | mkdirAll n p x hx hp | removeAll n x hx hp => cases hrf
    | rename o n x y hx hy hpo hpn => cases hrf

/-- the calls that write through a final symlink -/
theorem follow_call_untouched (H : HidKeys hs hks) (hne : hks ≠ []) {m : MFS} (hw : WFL m) (hbk : PKey bk)
    (c1 : Call) (hvis : ∀ n ∈ c1.accessPaths, isHidden n hs = .ok false)
    (hfm : followsMut c1 = true)
    (hend : ∀ n ∈ c1.accessPaths, EndsOutside (HidDisk bk hks) m (kp (bk ++ nameKey n))) :
    ∀ j, HidK hks j → ((prefixFS (kp bk) osfs).call m c1).1.get (bk ++ j) = m.get (bk ++ j) :=
  ends_call_untouched H hne hw hbk c1 hvis (resolveFlag_of_followsMut hfm) hend

/-- a route free of symlinks up to the final component resolves to the key itself: for a visible
name it ends outside -/
theorem endsOutside_of_nolink {m : MFS} (hw : WFL m) (hbk : PKey bk) {x : Key} (hx : PKey x)
    (hv : ¬ HidK hks x) (hnl : NoLinkUpto m (bk ++ x)) : EndsOutside (HidDisk bk hks) m (kp (bk ++ x)) := by
  have hout : ∀ K, K = bk ++ x ∨ K.dropLast = (bk ++ x).dropLast ∧ K = bk ++ x → ¬ HidDisk bk hks K := by
    intro K hK ⟨h, hm, hp⟩
    have e : K = bk ++ x := hK.elim id (fun a => a.2)
    rw [e] at hp
    exact hv ⟨h, hm, (List.prefix_append_right_inj bk).mp hp⟩
  unfold EndsOutside EndsOutsideF
  rcases L.namei_cases hw.good (hbk.append hx) hnl (TextOf.kp (bk ++ x)) true with
    ⟨n, _, _, hr⟩ | ⟨hne, mt, _, _, hr⟩ | ⟨e, _, _, _, hr, _⟩
  · rw [hr]; exact hout _ (Or.inl rfl)
  · rw [hr]
    simp only
    rw [dropLast_append_getLast' hne]
    exact hout _ (Or.inl rfl)
  · rw [hr]; trivial

/-- Lemma A with symlinks, weaker hypothesis on a final symlink -/
theorem visible_call_untouched_links_w (H : HidKeys hs hks) (hne : hks ≠ []) {m : MFS} (hw : WFL m) (hbk : PKey bk)
    (c1 : Call) (hvis : ∀ n ∈ c1.accessPaths, isHidden n hs = .ok false)
    (hanc : ∀ o n, c1 = .rename o n →
      isParentOfHidden o hs = .ok false ∧ isParentOfHidden n hs = .ok false)
    (hnra : ∀ n, c1 ≠ .removeAll n)
    (hroute : followsMut c1 = false → ∀ n ∈ c1.accessPaths, NoLinkProper m (bk ++ nameKey n))
    (hfinal : followsMut c1 = true → ∀ n ∈ c1.accessPaths,
      (NoLinkUpto m (bk ++ nameKey n)) ∨ EndsOutside (HidDisk bk hks) m (kp (bk ++ nameKey n))) :
    ∀ j, HidK hks j → ((prefixFS (kp bk) osfs).call m c1).1.get (bk ++ j) = m.get (bk ++ j) := by
  cases hfm : followsMut c1 with
  | false =>
    exact visible_call_untouched_links H hne hw hbk c1 hvis hanc hnra (hroute hfm)
      (fun hf => by rw [hfm] at hf; cases hf)
  | true =>
    apply follow_call_untouched H hne hw hbk c1 hvis hfm
    intro n hn
    rcases hfinal hfm n hn with hnl | hend
    · obtain ⟨hy, hc⟩ := nameKey_abs (visible_abs H hne (hvis n hn))
      obtain ⟨y, hy', hc', hnh⟩ := visible_key H hne (hvis n hn)
      have : y = nameKey n := kp_inj hy' hy (hc'.symm.trans hc)
      subst this
      exact endsOutside_of_nolink hw hbk hy hnh hnl
    · exact hend

end
end HLL
end BFS
