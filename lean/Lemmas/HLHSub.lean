import Lemmas.HLHLayer
/-!
  Lemmas/HLHSub.lean — calls other than `Symlink` and `Rename` create no symlink and move none
  (`L.LinkSub m m'`: every symlink of `m'` is a symlink of `m` at the same key with the same target) —
  for any argument text and any route, on any disk (no well-formedness needed); through `PrefixFS` and
  `HiddenFS` (the `RemoveAll` program included).
-/
namespace BFS
namespace HLH
open MFS D L HLL HO HiddenFS

def noLinkMaker : Call → Bool
  | .symlink _ _ => false
  | .rename _ _ => false
  | _ => true

theorem ls_new (m : MFS) (K P : Key) {n : Node} (hn : ∀ t mt, n ≠ .link t mt) :
    LinkSub m ((m.set K (some n)).touchDir P) :=
  (LinkSub.set_nonlink m K (by intro t mt e; cases e; exact hn _ _ rfl)).touch P

theorem ls_del (m : MFS) (K P : Key) : LinkSub m ((m.set K none).touchDir P) :=
  (LinkSub.set_nonlink m K (by intro t mt e; cases e)).touch P

theorem mkdir_ls (m : MFS) (t : Path) (perm : Nat) : LinkSub m (m.mkdir t perm).1 := by
  unfold MFS.mkdir
  split
  · exact LinkSub.refl _
  · exact LinkSub.refl _
  · exact ls_new m _ _ (by intro t mt e; cases e)

theorem openFile_ls (m : MFS) (t : Path) (flag perm : Nat) : LinkSub m (m.openFile t flag perm).1 := by
  unfold MFS.openFile
  simp only
  split
  · exact LinkSub.refl _
  · split
    · exact LinkSub.refl _
    · split
      · split <;> exact LinkSub.refl _
      · exact LinkSub.refl _
      · split
        · exact LinkSub.set_nonlink m _ (by intro t mt e; cases e)
        · exact LinkSub.refl _
  · split
    · exact LinkSub.refl _
    · exact ls_new m _ _ (by intro t mt e; cases e)

theorem remove_ls (m : MFS) (t : Path) : LinkSub m (m.remove t).1 := by
  unfold MFS.remove
  split
  · exact LinkSub.refl _
  · exact LinkSub.refl _
  · split
    · exact LinkSub.refl _
    · split
      · split
        · exact LinkSub.refl _
        · exact ls_del m _ _
      · exact ls_del m _ _

theorem removeAll_ls (m : MFS) (t : Path) : LinkSub m (m.removeAll t).1 := by
  unfold MFS.removeAll
  split
  · exact LinkSub.refl _
  · split
    · exact LinkSub.refl _
    · split
      · exact LinkSub.refl _
      · exact LinkSub.refl _
      · exact LinkSub.refl _
      · split
        · exact LinkSub.refl _
        · exact (LinkSub.removeSubtree m _).touch _

theorem setMeta_link {n : Node} {mt' : Meta} {t : Path} {mt2 : Meta} (h : n.setMeta mt' = .link t mt2) :
    ∃ mt, n = .link t mt := by
  cases n with
  | link t0 mt0 => simp only [Node.setMeta, Node.link.injEq] at h; exact ⟨mt0, by rw [h.1]⟩
  | file c mt0 => simp [Node.setMeta] at h
  | dir mt0 => simp [Node.setMeta] at h

theorem metaOp_ls (m : MFS) (t : Path) (follow : Bool) (f : Node → Node)
    (hf : ∀ n t mt', f n = .link t mt' → ∃ mt, n = .link t mt) : LinkSub m (metaOp m t follow f).1 := by
  unfold metaOp
  cases hres : namei m t follow with
  | err e => exact LinkSub.refl _
  | missing a b => exact LinkSub.refl _
  | found k n => exact LinkSub.set_keep (J12.namei_found_get hres) (hf n)

theorem mkdirAll_ls (perm : Nat) : ∀ (fuel : Nat) (m : MFS) (t : Path), LinkSub m (m.mkdirAll perm fuel t).1 := by
  intro fuel
  induction fuel with
  | zero => intro m t; exact LinkSub.refl _
  | succ fuel ih =>
    intro m t
    cases hst : m.stat t with
    | ok i =>
      rw [mkdirAll_succ_ok m perm fuel t hst]
      split <;> exact LinkSub.refl _
    | error e0 =>
      rw [mkdirAll_succ_err m perm fuel t hst]
      have h1 : LinkSub m (if (uptoLastSep (stripTrailingSeps t)).length > 0
          then m.mkdirAll perm fuel (uptoLastSep (stripTrailingSeps t)) else (m, Except.ok ())).1 := by
        split
        · exact ih _ _
        · exact LinkSub.refl _
      revert h1
      generalize (if (uptoLastSep (stripTrailingSeps t)).length > 0
          then m.mkdirAll perm fuel (uptoLastSep (stripTrailingSeps t)) else (m, Except.ok ())) = r
      intro h1
      obtain ⟨m1, r1⟩ := r
      cases r1 with
      | error e => exact h1
      | ok u =>
        show LinkSub m (mkdirAllTail m1 perm t).1
        rw [mkdirAllTail_state]
        exact h1.trans (mkdir_ls m1 _ _)

/-- every OS call but `Symlink` and `Rename`: no new symlink, no symlink moved -/
theorem osCall_ls (m : MFS) (c : Call) (hc : noLinkMaker c = true) : LinkSub m (osCall m c).1 := by
  cases c with
  | create n => exact openFile_ls m _ _ _
  | mkdir n p => exact mkdir_ls m _ _
  | mkdirAll n p => exact mkdirAll_ls p _ m _
  | open_ n => exact openFile_ls m _ _ _
  | openFile n f p => exact openFile_ls m _ _ _
  | remove n => exact remove_ls m _
  | removeAll n => exact removeAll_ls m _
  | rename o n => cases hc
  | stat n => exact LinkSub.refl _
  | chmod n md =>
    show LinkSub m (m.chmod _ md).1
    rw [mfs_chmod_eq]
    exact metaOp_ls m _ _ _ (fun n t mt' h => setMeta_link h)
  | chown n u g =>
    show LinkSub m (m.chown _ u g).1
    rw [mfs_chown_eq]
    exact metaOp_ls m _ _ _ (fun n t mt' h => setMeta_link h)
  | chtimes n a t =>
    show LinkSub m (m.chtimes _ t).1
    rw [mfs_chtimes_eq]
    exact metaOp_ls m _ _ _ (fun n t mt' h => setMeta_link h)
  | lstat n => exact LinkSub.refl _
  | symlink o n => cases hc
  | readlink n => exact LinkSub.refl _
  | lchown n u g =>
    show LinkSub m (m.lchown _ u g).1
    rw [mfs_lchown_eq]
    exact metaOp_ls m _ _ _ (fun n t mt' h => setMeta_link h)

theorem keyCall_noLinkMaker {pk : Key} {c c' : Call} (hk : KeyCall pk c c') : noLinkMaker c' = noLinkMaker c := by
  cases hk <;> rfl

theorem prefix_call_ls {bk : Key} (hbk : PKey bk) (m : MFS) (c : Call) (hc : noLinkMaker c = true) :
    LinkSub m ((prefixFS (kp bk) osfs).call m c).1 := by
  rcases prefix_call_cases hbk m c with ⟨e, _, h⟩ | ⟨c2, hk, _, h⟩
  · rw [h]; exact LinkSub.refl _
  · rw [h]; exact osCall_ls m c2 ((keyCall_noLinkMaker hk).trans hc)

theorem hiddenDelegated_noLinkMaker (c : Call) : noLinkMaker (hiddenDelegated c) = noLinkMaker c := by
  cases c <;> rfl

end HLH
end BFS
