import Lemmas.NLBRestore
import Lemmas.NLSimOS
import Lemmas.LBOS
/-!
  Lemmas/NLBOS.lean — the two facts about the filesystems that the backup-side invariant `NL.InvB`
  needs beyond the contract `NL.Sim`, for the NESTED (README) layering
  `N.nestedCfg bk hk = NewWithFS (PrefixFS (kp bk) osfs) (kp hk)` over the OS model:
  * `nlSymErrPure` — a `Symlink` call that returns an error leaves the disk exactly as it was
    (`NL.SymErrPure`): the `HiddenFS` of the base side / the `PrefixFS(loc)` of the backup side refuses
    before calling the inner `PrefixFS(root)`, or forwards a `Symlink` call, and a refused `Symlink`
    through `PrefixFS(root)` over the OS writes nothing (`L.prefixFS_symlink_err`, Lemmas/LBOS.lean);
  * `backupPlain_nlSim` — nothing is masked on the backup side (`NL.BackupPlain`).
-/
namespace BFS
namespace NL
open N

/-- a `Symlink` call the `HiddenFS` lets through is forwarded as a `Symlink` call -/
theorem hidden_tr_symlink {hs : List Path} {t p : Path} {c' : Call}
    (htr : HiddenFS.translate hs (.symlink t p) = .ok c') : c' = .symlink t p := by
  simp only [HiddenFS.translate, bind, Except.bind, pure, Except.pure] at htr
  split at htr
  · cases htr
  · split at htr
    · cases htr
    · cases htr; rfl

/-- a `Symlink` call a `PrefixFS` lets through is forwarded as a `Symlink` call -/
theorem prefix_tr_symlink {ps : Path} {t p : Path} {c' : Call}
    (htr : PrefixFS.translate ps (.symlink t p) = .ok c') : ∃ o' n', c' = .symlink o' n' := by
  simp only [PrefixFS.translate, bind, Except.bind, pure, Except.pure] at htr
  cases hpp : PrefixFS.prefixPath ps p with
  | error e1 => rw [hpp] at htr; cases htr
  | ok np =>
    rw [hpp] at htr
    simp only at htr
    split at htr
    · cases hpo : PrefixFS.prefixPath ps t with
      | error e2 => rw [hpo] at htr; cases htr
      | ok op => rw [hpo] at htr; cases htr; exact ⟨_, _, rfl⟩
    · split at htr
      · cases htr
      · cases htr; exact ⟨_, _, rfl⟩

theorem inner_symlink_err {bk dd : Key} {m m' : MFS} {t p : Path} {r : Except Err Ret}
    (h : (inner bk dd).call m (.symlink t p) = (m', r)) {post : Ret → Ret} {e : Err}
    (hr : r.map post = .error e) : m' = m := by
  cases r with
  | ok x => cases hr
  | error e1 =>
    have h' : (prefixFS (kp bk) osfs).call m (.symlink t p) = (m', .error e1) := by
      have he : inner bk dd = prefixFS (kp bk) osfs := side_eq bk dd .base
      rw [← he]; exact h
    exact L.prefixFS_symlink_err _ h'

/-- in the nested layering a refused `Symlink` changes nothing (either side, any arguments) -/
theorem nlSymErrPure (bk hk : Key) : SymErrPure (nestedCfg bk hk) := by
  intro s m t p m' e h
  cases s with
  | base =>
    rw [side_base (dd := bk), hiddenFS_call _ _ _ _ (fun n hn => by cases hn)] at h
    cases htr : HiddenFS.translate (HiddenFS.mk [kp hk]) (.symlink t p) with
    | error e' => rw [htr] at h; cases h; rfl
    | ok c' =>
      rw [htr] at h
      simp only at h
      have hc := hidden_tr_symlink htr
      subst hc
      obtain ⟨h1, h2⟩ := Prod.mk.inj h
      rw [← h1]
      exact inner_symlink_err (dd := bk) (r := ((inner bk bk).call m (.symlink t p)).2) rfl h2
  | backup =>
    rw [side_backup (dd := bk), prefixFS_call_gen] at h
    cases htr : PrefixFS.translate (PrefixFS.mk (kp hk)) (.symlink t p) with
    | error e' => rw [htr] at h; cases h; rfl
    | ok c' =>
      rw [htr] at h
      simp only at h
      obtain ⟨o', n', hc⟩ := prefix_tr_symlink htr
      subst hc
      obtain ⟨h1, h2⟩ := Prod.mk.inj h
      rw [← h1]
      exact inner_symlink_err (dd := bk) (r := ((inner bk bk).call m (.symlink o' n')).2) rfl h2

/-- nothing is masked on the backup side of the nested layering -/
instance backupPlain_nlSim (bk hk dd : Key) (hr : NRoots bk hk dd) : BackupPlain (nlSim bk hk dd hr) where
  bvis := fun _ h => h
  bpar := fun _ h => h

end NL
end BFS
