import Lemmas.LPFoot
import Lemmas.LSimOS
/-!
  Lemmas/LPOS.lean — the law `LSim.ReadlinkStrict` ("`Readlink` fails on an entry that is not a
  symlink": `EINVAL`) holds of the OS model behind `PrefixFS`, on either side.
-/
namespace BFS
namespace L
open MFS

section
variable {bk kk : Key}

theorem os_readlink_nonlink {m : MFS} {s : Side} {k : Key} {n : Node} (hr : Roots bk kk)
    (hg : OSGoodL bk kk m) (hk : PKey k) (hv : osViewL bk kk s m k = some n) (hn : n.isLink = false) :
    ((osCfg bk kk).side s).call m (.readlink (kp k)) = (m, .error .inval) := by
  obtain ⟨n0, h0, he⟩ := osViewL_some hv
  have hn0 : n0.isLink = false := by rw [← eraseV_isLink (kp (osRoot bk kk s)) n0, he]; exact hn
  have hl : m.readlink (kp (osRoot bk kk s ++ k)) = .error .inval := by
    unfold MFS.readlink
    rw [namei_live hr hg hk h0 false (Or.inr rfl)]
    cases n0 with
    | link t mt => cases hn0
    | file c mt => rfl
    | dir mt => rfl
  rw [side_call hr s m (tr_readlink (hr.pkey s) hk)]
  show (m, ((m.readlink (kp (osRoot bk kk s ++ k))).map Ret.str).map _) = _
  rw [hl]
  rfl

end

theorem osSimL_readlinkStrict (bk kk : Key) (hbk : PKey bk) (hkk : PKey kk) (hne1 : bk ≠ []) (hne2 : kk ≠ [])
    (hd1 : ¬ bk <+: kk) (hd2 : ¬ kk <+: bk) : (osSimL bk kk hbk hkk hne1 hne2 hd1 hd2).ReadlinkStrict := by
  intro m k n hg hk hv hn
  exact ⟨.inval, os_readlink_nonlink ⟨hbk, hkk, hne1, hne2, hd1, hd2⟩ hg hk hv hn⟩

end L
end BFS
