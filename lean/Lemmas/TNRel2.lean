import Lemmas.TNRel
/-!
  Lemmas/TNRel2.lean — non-interference of the OS model with a hole, part 2 (`Lemmas/TRel3.lean` over
  `VEq`): `Rename` (both names visible, the old one not an ancestor of the location) and `MkdirAll`.
-/
namespace BFS.N
open MFS

section
variable {bk hk dd : Key}

/-! ### Rename -/

theorem rename_relV {m1 m2 : MFS} (h : VTwin bk hk dd m1 m2) (hbk : PKey bk) {ko kn : Key} (hko : PKey ko) (hkn : PKey kn)
    (hpo : Clear hk ko) (hvn : ¬ hk <+: kn)
    {o n : Path} (hto : TextOf o (bk ++ ko)) (htn : TextOf n (bk ++ kn)) :
    (m1.rename o n).2 = (m2.rename o n).2 ∧ VEq bk hk (m1.rename o n).1 (m2.rename o n).1 := by
  have hvo : ¬ hk <+: ko := hpo.vis
  unfold MFS.rename
  simp only
  rcases (h.namei hbk hkn hvn htn false).split with ⟨nn1, nn2, en1, en2, _, _, hen, hln, _⟩ |
    ⟨hnen, pmt1, pmt2, en1, en2, _⟩ | ⟨en, en1, en2, _⟩
  · rw [en1, en2]
    rcases erase_pair hen hln with ⟨a, b, rfl, rfl⟩ | ⟨c, mt, rfl, rfl⟩
    · -- an existing directory target: Go's pre-check
      rcases (h.namei hbk hko hvo hto false).split with ⟨no1, no2, eo1, eo2, _⟩ | ⟨_, _, _, eo1, eo2, _⟩ | ⟨eo, eo1, eo2, _⟩
      · rw [eo1, eo2]
        simp only
        by_cases hc : bk ++ ko = bk ++ kn ∧ o ≠ n
        · rw [if_pos hc]
          simp only [hc.1, if_true]
          exact ⟨trivial, h.eq⟩
        · rw [if_neg hc]
          exact ⟨rfl, h.eq⟩
      · rw [eo1, eo2]; exact ⟨rfl, h.eq⟩
      · rw [eo1, eo2]; exact ⟨rfl, h.eq⟩
    · rcases (h.namei hbk hko hvo hto false).split with ⟨no1, no2, eo1, eo2, _, _, heo, hlo, _⟩ | ⟨_, _, _, eo1, eo2, _⟩ |
        ⟨eo, eo1, eo2, _⟩
      · rw [eo1, eo2]
        simp only [erase_isDir heo]
        split
        · exact ⟨rfl, h.eq⟩
        split
        · exact ⟨rfl, h.eq⟩
        split
        · exact ⟨rfl, h.eq⟩
        split
        · exact ⟨rfl, h.eq⟩
        split
        · exact ⟨rfl, h.eq⟩
        · exact ⟨rfl, ((h.eq.moveSubtree _ hpo).touchDir _ _).touchDir _ _⟩
      · rw [eo1, eo2]; exact ⟨rfl, h.eq⟩
      · rw [eo1, eo2]; exact ⟨rfl, h.eq⟩
  · rw [en1, en2]
    rcases (h.namei hbk hko hvo hto false).split with ⟨no1, no2, eo1, eo2, _⟩ | ⟨_, _, _, eo1, eo2, _⟩ | ⟨eo, eo1, eo2, _⟩
    · rw [eo1, eo2]
      simp only
      split
      · exact ⟨rfl, h.eq⟩
      · exact ⟨rfl, ((h.eq.moveSubtree _ hpo).touchDir _ _).touchDir _ _⟩
    · rw [eo1, eo2]; exact ⟨rfl, h.eq⟩
    · rw [eo1, eo2]; exact ⟨rfl, h.eq⟩
  · rw [en1, en2]
    rcases (h.namei hbk hko hvo hto false).split with ⟨no1, no2, eo1, eo2, _⟩ | ⟨_, _, _, eo1, eo2, _⟩ | ⟨eo, eo1, eo2, _⟩
    all_goals (rw [eo1, eo2]; exact ⟨rfl, h.eq⟩)

/-! ### MkdirAll -/

/-- `Stat`/`Lstat` on the two disks: both succeed on nodes equal up to directory timestamps, or both
fail with the same error -/
theorem statE_relV {m1 m2 : MFS} (h : VTwin bk hk dd m1 m2) (hbk : PKey bk) {k : Key} (hk' : PKey k)
    (hv : ¬ hk <+: k) {t : Path} (ht : TextOf t (bk ++ k)) :
    ((∃ n1 n2, eraseMt n1 = eraseMt n2 ∧ m1.stat t = .ok (infoOf (base t) n1) ∧ m2.stat t = .ok (infoOf (base t) n2)) ∨
      (∃ e, m1.stat t = .error e ∧ m2.stat t = .error e ∧ m1.get (bk ++ k) = none)) ∧
    ((∃ n1 n2, eraseMt n1 = eraseMt n2 ∧ m1.lstat t = .ok (infoOf (base t) n1) ∧ m2.lstat t = .ok (infoOf (base t) n2)) ∨
      (∃ e, m1.lstat t = .error e ∧ m2.lstat t = .error e ∧ m1.get (bk ++ k) = none)) := by
  constructor
  · unfold MFS.stat
    rcases (h.namei hbk hk' hv ht true).split with ⟨n1, n2, e1, e2, _, _, he, _, _⟩ | ⟨_, _, _, e1, e2, g1, _⟩ |
      ⟨e, e1, e2, _, g1, _⟩
    · rw [e1, e2]; exact Or.inl ⟨n1, n2, he, rfl, rfl⟩
    · rw [e1, e2]; exact Or.inr ⟨_, rfl, rfl, g1⟩
    · rw [e1, e2]; exact Or.inr ⟨_, rfl, rfl, g1⟩
  · unfold MFS.lstat
    rcases (h.namei hbk hk' hv ht false).split with ⟨n1, n2, e1, e2, _, _, he, _, _⟩ | ⟨_, _, _, e1, e2, g1, _⟩ |
      ⟨e, e1, e2, _, g1, _⟩
    · rw [e1, e2]; exact Or.inl ⟨n1, n2, he, rfl, rfl⟩
    · rw [e1, e2]; exact Or.inr ⟨_, rfl, rfl, g1⟩
    · rw [e1, e2]; exact Or.inr ⟨_, rfl, rfl, g1⟩

theorem mkdirAllTail_relV {m1 m2 : MFS} (hr : Roots bk dd) (h : VTwin bk hk dd m1 m2) {k : Key} (hk' : PKey k)
    (hv : ¬ hk <+: k) {t : Path} (ht : TextOf t (bk ++ k)) (perm : Nat) :
    (mkdirAllTail m1 perm t).2 = (mkdirAllTail m2 perm t).2 ∧
      VEq bk hk (mkdirAllTail m1 perm t).1 (mkdirAllTail m2 perm t).1 := by
  unfold mkdirAllTail
  obtain ⟨hres, hbeq⟩ := mkdir_relV h hr.pb hk' hv ht perm
  cases hm1 : m1.mkdir t perm with
  | mk a1 r1 =>
    cases hm2 : m2.mkdir t perm with
    | mk a2 r2 =>
      rw [hm1, hm2] at hres hbeq
      simp only at hres hbeq
      subst hres
      cases r1 with
      | ok u => exact ⟨rfl, hbeq⟩
      | error e =>
        simp only
        have ha1 : a1 = m1 := (mkdir_spec .base hr h.g1 hk' ht hm1).2.2.2 e rfl
        have ha2 : a2 = m2 := (mkdir_spec .base hr h.g2 hk' ht hm2).2.2.2 e rfl
        subst ha1 ha2
        rcases (statE_relV h hr.pb hk' hv ht).2 with ⟨n1, n2, he, l1, l2⟩ | ⟨e', l1, l2, _⟩
        · rw [l1, l2]
          simp only [infoOf_isDir, erase_isDir he]
          split
          · exact ⟨rfl, h.eq⟩
          · exact ⟨rfl, h.eq⟩
        · rw [l1, l2]
          exact ⟨rfl, h.eq⟩

theorem mkdirAll_relV (hr : Roots bk dd) (perm : Nat) :
    ∀ (fuel : Nat) (k : Key) (t : Path) (m1 m2 : MFS), VTwin bk hk dd m1 m2 → PKey k → ¬ hk <+: k →
      TextOf t (bk ++ k) → k.length < fuel →
      (m1.mkdirAll perm fuel t).2 = (m2.mkdirAll perm fuel t).2 ∧
        VEq bk hk (m1.mkdirAll perm fuel t).1 (m2.mkdirAll perm fuel t).1 := by
  intro fuel
  induction fuel with
  | zero => intro k t m1 m2 _ _ _ _ hf; exact absurd hf (Nat.not_lt_zero _)
  | succ fuel ih =>
    intro k t m1 m2 h hk' hv ht hf
    rcases (statE_relV h hr.pb hk' hv ht).1 with ⟨n1, n2, he, s1, s2⟩ | ⟨e, s1, s2, hn⟩
    · rw [mkdirAll_succ_ok m1 perm fuel t s1, mkdirAll_succ_ok m2 perm fuel t s2, infoOf_isDir, infoOf_isDir,
        erase_isDir he]
      split
      · exact ⟨rfl, h.eq⟩
      · exact ⟨rfl, h.eq⟩
    · have hne : k ≠ [] := key_ne_of_none (s := .base) h.g1 hn
      have hKne : bk ++ k ≠ [] := by simp [hne]
      have hpt := text_parent (hr.pb.append hk') hKne ht
      have hpl := parentText_length (bk ++ k)
      have htp : TextOf (parentText (bk ++ k)) (bk ++ k.dropLast) := by
        rw [← append_dropLast hne]; exact parentText_text
      have hlen : k.dropLast.length < fuel := by
        have h1 : k.dropLast.length = k.length - 1 := List.length_dropLast
        have h2 : 0 < k.length := List.length_pos_iff.mpr hne
        omega
      rw [mkdirAll_succ_err m1 perm fuel t s1, mkdirAll_succ_err m2 perm fuel t s2, hpt]
      simp only [hpl, if_true]
      obtain ⟨ires, ibeq⟩ := ih k.dropLast _ m1 m2 h hk'.dropLast (vis_dropLast hv) htp hlen
      cases hr1 : m1.mkdirAll perm fuel (parentText (bk ++ k)) with
      | mk a1 r1 =>
        cases hr2 : m2.mkdirAll perm fuel (parentText (bk ++ k)) with
        | mk a2 r2 =>
          rw [hr1, hr2] at ires ibeq
          simp only at ires ibeq
          subst ires
          cases r1 with
          | error e' => exact ⟨rfl, ibeq⟩
          | ok u =>
            simp only
            have g1 := (mkdirAll_spec .base perm hr fuel k.dropLast _ m1 a1 _ h.g1 hk'.dropLast htp hlen hr1).1
            have g2 := (mkdirAll_spec .base perm hr fuel k.dropLast _ m2 a2 _ h.g2 hk'.dropLast htp hlen hr2).1
            exact mkdirAllTail_relV hr ⟨g1, g2, ibeq⟩ hk' hv ht perm

end

end BFS.N
