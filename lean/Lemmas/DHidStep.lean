import Lemmas.DConf
import Lemmas.DWalk
/-!
  Lemmas/DHidStep.lean — HiddenFS over `PrefixFS(kp bk)` over the OS model, on disks without symlinks
  at/below `bk` (`WFB bk m`): one delegated call whose names are visible leaves every node at or
  below a hidden key exactly as it was; `Lstat`, `Open`, `Remove` keep the disk well-formed.
-/
namespace BFS
namespace D
open MFS HiddenFS

section
variable {bk : Key} {hks : List Key}

theorem hidK_mono {j x : Key} (h : HidK hks j) (hp : j <+: x) : HidK hks x := by
  obtain ⟨h0, hm, hh⟩ := h
  exact ⟨h0, hm, hh.trans hp⟩

theorem prefix_cancel {a b : Key} (h : bk ++ a <+: bk ++ b) : a <+: b :=
  (List.prefix_append_right_inj bk).mp h

theorem not_below_visible {x j : Key} (hx : ¬ HidK hks x) (hpx : ¬ ParK hks x) (hj : HidK hks j) :
    ¬ x <+: j := by
  intro hxj
  obtain ⟨h, hm, hh⟩ := hj
  rcases List.prefix_or_prefix_of_prefix hh hxj with h1 | h1
  · exact hx ⟨h, hm, h1⟩
  · by_cases he : x = h
    · exact hx ⟨h, hm, he ▸ List.prefix_rfl⟩
    · exact hpx ⟨h, hm, h1, he⟩

theorem ne_dropLast_of_hid {x j : Key} (hx : ¬ HidK hks x) (hj : HidK hks j) :
    bk ++ j ≠ (bk ++ x).dropLast := by
  intro e
  have : bk ++ j <+: bk ++ x := e ▸ dropLast_prefix _
  exact hx (hidK_mono hj (prefix_cancel this))

theorem hid_of_at {m m' : MFS} {x j : Key} (hx : ¬ HidK hks x) (hj : HidK hks j) (h : At m m' (bk ++ x)) :
    m'.get (bk ++ j) = m.get (bk ++ j) := by
  apply h.other _ ?_ (ne_dropLast_of_hid hx hj)
  intro e
  have := List.append_cancel_left e
  subst this
  exact hx hj

theorem hid_of_mkAll {m m' : MFS} {x j : Key} (hx : ¬ HidK hks x) (hj : HidK hks j)
    (h : MkAll m m' (bk ++ x)) : m'.get (bk ++ j) = m.get (bk ++ j) := by
  rcases h (bk ++ j) with h | ⟨a, _⟩ | ⟨_, c, a, _⟩
  · exact h
  · exact absurd (hidK_mono hj (prefix_cancel a)) hx
  · have : bk ++ j <+: bk ++ x := (List.prefix_append _ _).trans a
    exact absurd (hidK_mono hj (prefix_cancel this)) hx

theorem hid_of_moved {m m' : MFS} {x y j : Key} (hx : ¬ HidK hks x) (hpx : ¬ ParK hks x)
    (hy : ¬ HidK hks y) (hpy : ¬ ParK hks y) (hj : HidK hks j) (h : Moved m m' (bk ++ x) (bk ++ y)) :
    m'.get (bk ++ j) = m.get (bk ++ j) :=
  h.other _ (fun e => not_below_visible hx hpx hj (prefix_cancel e))
    (fun e => not_below_visible hy hpy hj (prefix_cancel e))
    (ne_dropLast_of_hid hx hj) (ne_dropLast_of_hid hy hj)

variable {hs : List Path}

/-- Lemma A: a call through `PrefixFS(kp bk)` whose entry names are all visible (and, for `Rename`,
no ancestors of hidden paths), other than `RemoveAll`, leaves the hidden subtrees untouched -/
theorem visible_call_untouched (H : HidKeys hs hks) (hne : hks ≠ []) {m : MFS} (hw : WFB bk m) (hbk : PKey bk)
    (c1 : Call) (hvis : ∀ n ∈ c1.accessPaths, isHidden n hs = .ok false)
    (hanc : ∀ o n, c1 = .rename o n →
      isParentOfHidden o hs = .ok false ∧ isParentOfHidden n hs = .ok false)
    (hnra : ∀ n, c1 ≠ .removeAll n) :
    ∀ j, HidK hks j → ((prefixFS (kp bk) osfs).call m c1).1.get (bk ++ j) = m.get (bk ++ j) := by
  intro j hj
  rcases prefix_call_cases hbk m c1 with ⟨e, _, hc⟩ | ⟨c2, hk, _, hc⟩
  · rw [hc]
  · rw [hc]
    have heff := osCall_effect hw hbk hk
    have V : ∀ {n : Path} {x : Key}, PKey x → n ∈ c1.accessPaths →
        PrefixFS.prefixPath (kp bk) n = .ok (kp (bk ++ x)) → ¬ HidK hks x :=
      fun hx hn hp => prefix_key_visible H hne hbk hx hp (hvis _ hn)
    have inj : ∀ {x x' : Key}, PKey x → PKey x' → kp (bk ++ x) = kp (bk ++ x') → x = x' :=
      fun hx hx' e => List.append_cancel_left (kp_inj (hbk.append hx) (hbk.append hx') e)
    cases hk with
    | removeAll n x hx hp => exact absurd rfl (hnra n)
    | rename o n x y hx hy hpo hpn =>
      simp only [Effect] at heff
      obtain ⟨x', y', hx', hy', e1, e2, hm⟩ := heff
      have := inj hx hx' e1; subst this
      have := inj hy hy' e2; subst this
      rcases hm with hm | hm
      · rw [hm]
      · have hvx := V hx (by simp [Call.accessPaths]) hpo
        have hvy := V hy (by simp [Call.accessPaths]) hpn
        have hpx := prefix_key_notparent H hne hbk hx hpo (hvis o (by simp [Call.accessPaths])) (hanc o n rfl).1
        have hpy := prefix_key_notparent H hne hbk hy hpn (hvis n (by simp [Call.accessPaths])) (hanc o n rfl).2
        exact hid_of_moved hvx hpx hvy hpy hj hm
    | mkdirAll n p x hx hp =>
      simp only [Effect] at heff
      obtain ⟨x', hx', e1, hm⟩ := heff
      have := inj hx hx' e1; subst this
      exact hid_of_mkAll (V hx (by simp [Call.accessPaths]) hp) hj hm
    | create n x hx hp | mkdir n p x hx hp | open_ n x hx hp | openFile n f p x hx hp | remove n x hx hp
    | stat n x hx hp | chmod n md x hx hp | chown n u g x hx hp | chtimes n a t x hx hp | lstat n x hx hp
    | symlink o n o' x hx hp | readlink n x hx hp | lchown n u g x hx hp =>
      simp only [Effect, Call.primaryPath, Call.accessPaths, List.headD] at heff
      obtain ⟨x', hx', e1, hm⟩ := heff
      have := inj hx hx' e1; subst this
      exact hid_of_at (V hx (by simp [Call.accessPaths]) hp) hj hm

/-! ### the three calls of the walk keep the disk well-formed -/

theorem prefix_lstat_state (m : MFS) (p : Path) : ((prefixFS (kp bk) osfs).call m (.lstat p)).1 = m := by
  rw [prefixFS_call]
  cases h : PrefixFS.translate (PrefixFS.mk (kp bk)) (.lstat p) with
  | error e => rfl
  | ok c' =>
    obtain ⟨p', rfl⟩ := tr_shape_lstat h
    rfl

theorem prefix_open_state (m : MFS) (p : Path) : ((prefixFS (kp bk) osfs).call m (.open_ p)).1 = m := by
  rw [prefixFS_call]
  cases h : PrefixFS.translate (PrefixFS.mk (kp bk)) (.open_ p) with
  | error e => rfl
  | ok c' =>
    obtain ⟨p', rfl⟩ := tr_shape_open h
    exact openFile_ro_state m p' 0

theorem prefix_remove_wf {m : MFS} (hw : WFB bk m) (hbk : PKey bk) (p : Path) :
    WFB bk ((prefixFS (kp bk) osfs).call m (.remove p)).1 := by
  rcases prefix_call_cases hbk m (.remove p) with ⟨e, _, hc⟩ | ⟨c2, hk, _, hc⟩
  · rw [hc]; exact hw
  · rw [hc]
    cases hk with
    | remove n x hx hp => exact hw.remove_wf (hw.resolve_key hbk hx (TextOf.kp _) false)

end
end D
end BFS
