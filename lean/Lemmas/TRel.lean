import Lemmas.SimOS
/-!
  Lemmas/TRel.lean — non-interference of the OS model, part 1: two well-formed disks that show the
  same at and below the base root `bk` (directory timestamps erased) and have the same umask
  (`BEq bk m1 m2`) resolve every text naming a key at or below `bk` the same way (`NameiRel`):
  same outcome, same error class, nodes equal up to directory timestamps.
-/
namespace BFS
open MFS

/-- the two disks show the same at and below `bk`, up to directory timestamps, and have the same
umask -/
structure BEq (bk : Key) (m1 m2 : MFS) : Prop where
  get : ∀ K, bk <+: K → (m1.get K).map eraseMt = (m2.get K).map eraseMt
  umask : m1.umask = m2.umask

theorem BEq.refl (bk : Key) (m : MFS) : BEq bk m m := ⟨fun _ _ => rfl, rfl⟩

theorem BEq.symm {bk : Key} {m1 m2 : MFS} (h : BEq bk m1 m2) : BEq bk m2 m1 :=
  ⟨fun K hK => (h.get K hK).symm, h.umask.symm⟩

theorem BEq.trans {bk : Key} {m1 m2 m3 : MFS} (h1 : BEq bk m1 m2) (h2 : BEq bk m2 m3) : BEq bk m1 m3 :=
  ⟨fun K hK => (h1.get K hK).trans (h2.get K hK), h1.umask.trans h2.umask⟩

theorem touchDir_umask (m : MFS) (k : Key) : (m.touchDir k).umask = m.umask := by
  rcases touchDir_cases m k with ⟨mt, _, e⟩ | e <;> rw [e] <;> rfl

theorem BEq.set {bk : Key} {m1 m2 : MFS} (h : BEq bk m1 m2) (K : Key) {v1 v2 : Option Node}
    (hv : v1.map eraseMt = v2.map eraseMt) : BEq bk (m1.set K v1) (m2.set K v2) := by
  refine ⟨?_, h.umask⟩
  intro K' hK'
  rw [set_get, set_get]
  split
  · exact hv
  · exact h.get K' hK'

theorem BEq.touchDir {bk : Key} {m1 m2 : MFS} (h : BEq bk m1 m2) (K K2 : Key) :
    BEq bk (m1.touchDir K) (m2.touchDir K2) := by
  refine ⟨?_, by rw [touchDir_umask, touchDir_umask]; exact h.umask⟩
  intro K' hK'
  rw [touchDir_erase, touchDir_erase]
  exact h.get K' hK'

theorem BEq.touch_left {bk : Key} {m1 m2 : MFS} (h : BEq bk m1 m2) (K : Key) : BEq bk (m1.touchDir K) m2 := by
  refine ⟨?_, by rw [touchDir_umask]; exact h.umask⟩
  intro K' hK'
  rw [touchDir_erase]
  exact h.get K' hK'

theorem BEq.removeSubtree {bk : Key} {m1 m2 : MFS} (h : BEq bk m1 m2) (K : Key) :
    BEq bk (m1.removeSubtree K) (m2.removeSubtree K) := by
  refine ⟨?_, h.umask⟩
  intro K' hK'
  rw [removeSubtree_get, removeSubtree_get]
  split
  · rfl
  · exact h.get K' hK'

theorem BEq.moveSubtree {bk : Key} {m1 m2 : MFS} (h : BEq bk m1 m2) {Ko Kn : Key} (ho : bk <+: Ko) :
    BEq bk (m1.moveSubtree Ko Kn) (m2.moveSubtree Ko Kn) := by
  refine ⟨?_, h.umask⟩
  intro K' hK'
  rw [moveSubtree_get, moveSubtree_get]
  split
  · exact h.get _ (List.IsPrefix.trans ho (List.prefix_append _ _))
  · split
    · rfl
    · exact h.get K' hK'

/-! ### nodes equal up to directory timestamps -/

theorem erase_kind {n1 n2 : Node} (h : eraseMt n1 = eraseMt n2) : n1.kind = n2.kind := by
  rw [← eraseMt_kind n1, h, eraseMt_kind]

theorem erase_isDir {n1 n2 : Node} (h : eraseMt n1 = eraseMt n2) : n1.isDir = n2.isDir := by
  rw [← eraseMt_isDir n1, h, eraseMt_isDir]

theorem erase_isLink {n1 n2 : Node} (h : eraseMt n1 = eraseMt n2) : n1.isLink = n2.isLink := by
  rw [← eraseMt_isLink n1, h, eraseMt_isLink]

theorem erase_nondir {n1 n2 : Node} (h : eraseMt n1 = eraseMt n2) (hd : n1.isDir = false) : n1 = n2 := by
  cases n1 <;> cases n2 <;> simp_all [eraseMt, Node.isDir]

theorem erase_dir_dir {mt1 mt2 : Meta} (h : eraseMt (.dir mt1) = eraseMt (.dir mt2)) :
    mt1.mode = mt2.mode ∧ mt1.uid = mt2.uid ∧ mt1.gid = mt2.gid := by
  simp only [eraseMt, Node.dir.injEq, Meta.mk.injEq] at h
  exact ⟨h.1, h.2.1, h.2.2.1⟩

theorem erase_dir_left {n2 : Node} {mt1 : Meta} (h : eraseMt (.dir mt1) = eraseMt n2) :
    ∃ mt2, n2 = .dir mt2 := by
  cases n2 with
  | dir mt2 => exact ⟨mt2, rfl⟩
  | file c mt2 => simp [eraseMt] at h
  | link t mt2 => simp [eraseMt] at h

theorem map_erase_some {a b : Option Node} {n1 : Node} (h : a.map eraseMt = b.map eraseMt) (ha : a = some n1) :
    ∃ n2, b = some n2 ∧ eraseMt n1 = eraseMt n2 := by
  subst ha
  cases b with
  | none => cases h
  | some n2 => exact ⟨n2, rfl, by simpa using h⟩

theorem map_erase_none {a b : Option Node} (h : a.map eraseMt = b.map eraseMt) (ha : a = none) : b = none := by
  subst ha
  cases b with
  | none => rfl
  | some n2 => cases h

theorem map_erase_kind {a b : Option Node} (h : a.map eraseMt = b.map eraseMt) :
    a.map Node.kind = b.map Node.kind := by
  cases a with
  | none => rw [map_erase_none h rfl]
  | some n1 =>
    obtain ⟨n2, rfl, he⟩ := map_erase_some h rfl
    simp only [Option.map_some, Option.some.injEq]
    exact erase_kind he

/-! ### name resolution on two disks with the same shape -/

/-- same outcome, same key, same error class (the nodes found may differ) -/
def ResShape : Res → Res → Prop
  | .found k1 _, .found k2 _ => k1 = k2
  | .missing p1 c1, .missing p2 c2 => p1 = p2 ∧ c1 = c2
  | .err e1, .err e2 => e1 = e2
  | _, _ => False

theorem walk_shape (m1 m2 : MFS) (f : Bool) (hops : Nat) (tl : List Name) (htl : trivialRest tl = true) :
    ∀ (cs : List Name) (cur : Key) (fuel : Nat), PKey cs →
      (∀ p, p <+: cs → (m1.get (cur ++ p)).map Node.kind = (m2.get (cur ++ p)).map Node.kind) →
      (∀ p, p <+: cs → p ≠ [] → ∀ t mt, m1.get (cur ++ p) ≠ some (.link t mt)) →
      cs.length + tl.length < fuel →
      ResShape (walk m1 f fuel hops cur (cs ++ tl)) (walk m2 f fuel hops cur (cs ++ tl))
  | [], cur, fuel, _, hk, _, hf => by
    simp only [List.nil_append]
    rw [walk_trivial m1 f hops cur tl fuel htl (by simpa using hf),
      walk_trivial m2 f hops cur tl fuel htl (by simpa using hf)]
    have := hk [] List.prefix_rfl
    simp only [List.append_nil] at this
    cases h1 : m1.get cur <;> cases h2 : m2.get cur <;> simp [h1, h2, ResShape] at this ⊢
  | c :: cs, cur, fuel, hp, hk, hnl, hf => by
    obtain ⟨f', rfl⟩ : ∃ f', fuel = f' + 1 := ⟨fuel - 1, by simp at hf; omega⟩
    have hc : Plain c := hp c (by simp)
    rw [List.cons_append, walk_step m1 f f' hops cur hc, walk_step m2 f f' hops cur hc]
    have hkc := hk [c] (by simp)
    have hnlc := hnl [c] (by simp) (by simp)
    have ih := walk_shape m1 m2 f hops tl htl cs (cur ++ [c]) f'
      (fun n hn => hp n (List.mem_cons_of_mem _ hn))
      (fun p hpre => by
        have := hk (c :: p) (by simpa using hpre)
        simpa using this)
      (fun p hpre hne t mt => by
        have := hnl (c :: p) (by simpa using hpre) (by simp) t mt
        simpa using this)
      (by simp at hf ⊢; omega)
    cases h1 : m1.get (cur ++ [c]) with
    | none =>
      cases h2 : m2.get (cur ++ [c]) with
      | none =>
        simp only
        split <;> simp [ResShape]
      | some n2 => rw [h1, h2] at hkc; simp at hkc
    | some n1 =>
      cases h2 : m2.get (cur ++ [c]) with
      | none => rw [h1, h2] at hkc; simp at hkc
      | some n2 =>
        rw [h1, h2] at hkc
        simp only [Option.map_some, Option.some.injEq] at hkc
        cases n1 with
        | link t mt => exact absurd h1 (hnlc t mt)
        | dir mt1 =>
          cases n2 with
          | dir mt2 => exact ih
          | file c2 mt2 => cases hkc
          | link t2 mt2 => cases hkc
        | file c1 mt1 =>
          cases n2 with
          | file c2 mt2 =>
            simp only
            split <;> simp [ResShape]
          | dir mt2 => cases hkc
          | link t2 mt2 => cases hkc

/-- `namei_walk` with the fuel and the tail independent of the disk -/
theorem namei_walk' {t : Path} {K : Key} (hK : PKey K) (h : TextOf t K) :
    ∃ tl fuel, trivialRest tl = true ∧ K.length + tl.length < fuel ∧
      ∀ (m : MFS) (f : Bool), namei m t f = walk m f fuel 0 [] (K ++ tl) := by
  obtain ⟨tl, hs, htl, _⟩ := splitSep_text hK h
  refine ⟨tl, 4095 + (K.length + tl.length + 1), htl, by omega, ?_⟩
  intro m f
  unfold namei
  simp only [h.ne_nil, if_false, hs, List.length_cons, List.length_append]
  have : 4096 + (K.length + tl.length + 1) = (4095 + (K.length + tl.length + 1)) + 1 := by omega
  rw [this, walk_skip m f _ 0 [] _ (by decide)]

/-- how the two disks resolve a text naming the key `K` at or below the base root -/
inductive NameiRel (m1 m2 : MFS) (K : Key) : Res → Res → Prop
  | found (n1 n2 : Node) (h1 : m1.get K = some n1) (h2 : m2.get K = some n2)
      (he : eraseMt n1 = eraseMt n2) (hl1 : n1.isLink = false) (hl2 : n2.isLink = false) :
      NameiRel m1 m2 K (.found K n1) (.found K n2)
  | missing (hne : K ≠ []) (mt1 mt2 : Meta) (h1 : m1.get K = none) (h2 : m2.get K = none)
      (hp1 : m1.get K.dropLast = some (.dir mt1)) (hp2 : m2.get K.dropLast = some (.dir mt2))
      (hpe : eraseMt (.dir mt1) = eraseMt (.dir mt2)) :
      NameiRel m1 m2 K (.missing K.dropLast (K.getLast hne)) (.missing K.dropLast (K.getLast hne))
  | err (e : Err) (hne : K ≠ []) (h1 : m1.get K = none) (h2 : m2.get K = none)
      (hp1 : ¬ ∃ mt, m1.get K.dropLast = some (.dir mt)) (hp2 : ¬ ∃ mt, m2.get K.dropLast = some (.dir mt))
      (he : e.isNotFound = true) :
      NameiRel m1 m2 K (.err e) (.err e)

section
variable {bk kk : Key}

theorem BEq.none_iff {m1 m2 : MFS} (hb : BEq bk m1 m2) {K : Key} (hK : bk <+: K) :
    m1.get K = none ↔ m2.get K = none :=
  ⟨fun h => map_erase_none (hb.get K hK) h, fun h => map_erase_none (hb.get K hK).symm h⟩

theorem BEq.dir_iff {m1 m2 : MFS} (hb : BEq bk m1 m2) {K : Key} (hK : bk <+: K) :
    (∃ mt, m1.get K = some (.dir mt)) ↔ ∃ mt, m2.get K = some (.dir mt) :=
  ⟨fun h => erase_eq_dir (hb.get K hK).symm h, fun h => erase_eq_dir (hb.get K hK) h⟩

/-- along the way to a key at or below `bk` the two disks have nodes of the same kind -/
theorem kinds_along {m1 m2 : MFS} (hg1 : OSGood bk kk m1) (hg2 : OSGood bk kk m2) (hb : BEq bk m1 m2)
    {K : Key} (hK : bk <+: K) (p : Key) (hp : p <+: K) :
    (m1.get p).map Node.kind = (m2.get p).map Node.kind := by
  rcases List.prefix_or_prefix_of_prefix hK hp with h | h
  · exact map_erase_kind (hb.get p h)
  · by_cases he : p = bk
    · subst he
      exact map_erase_kind (hb.get p List.prefix_rfl)
    · obtain ⟨mt1, h1⟩ := hg1.bdir
      obtain ⟨mt2, h2⟩ := hg2.bdir
      obtain ⟨a, ha⟩ := hg1.ancestor h1 h he
      obtain ⟨b, hb'⟩ := hg2.ancestor h2 h he
      rw [ha, hb']
      rfl

theorem namei_rel {m1 m2 : MFS} (hg1 : OSGood bk kk m1) (hg2 : OSGood bk kk m2) (hb : BEq bk m1 m2)
    {k : Key} (hK : PKey (bk ++ k)) {t : Path} (ht : TextOf t (bk ++ k)) (f : Bool) :
    NameiRel m1 m2 (bk ++ k) (namei m1 t f) (namei m2 t f) := by
  have hpre : bk <+: bk ++ k := List.prefix_append _ _
  have hnl1 : NoLinkUpto m1 (bk ++ k) := hg1.noLinkUpto .base k
  have hnl2 : NoLinkUpto m2 (bk ++ k) := hg2.noLinkUpto .base k
  have hne_of_none : m1.get (bk ++ k) = none → bk ++ k ≠ bk := by
    intro h e
    obtain ⟨mt, hm⟩ := hg1.bdir
    rw [e, hm] at h
    cases h
  rcases namei_cases hg1 hK hnl1 ht f with ⟨n1, h1, hl1, hr1⟩ | ⟨hne, mt1, h1, hp1, hr1⟩ | ⟨e1, hne, h1, hp1, hr1, he1⟩
  · obtain ⟨n2, h2, he⟩ := map_erase_some (hb.get _ hpre) h1
    rcases namei_cases hg2 hK hnl2 ht f with ⟨n2', h2', hl2, hr2⟩ | ⟨_, _, h2', _, _⟩ | ⟨_, _, h2', _, _, _⟩
    · rw [h2] at h2'
      cases h2'
      rw [hr1, hr2]
      exact .found n1 n2 h1 h2 he hl1 hl2
    · rw [h2] at h2'; cases h2'
    · rw [h2] at h2'; cases h2'
  · have h2 : m2.get (bk ++ k) = none := (hb.none_iff hpre).mp h1
    have hpp : bk <+: (bk ++ k).dropLast := prefix_dropLast hpre (fun e => hne_of_none h1 e.symm)
    obtain ⟨n2, hp2, hpe⟩ := map_erase_some (hb.get _ hpp) hp1
    obtain ⟨mt2, rfl⟩ := erase_dir_left hpe
    rcases namei_cases hg2 hK hnl2 ht f with ⟨n2', h2', _, _⟩ | ⟨hne2, mt2', _, _, hr2⟩ | ⟨_, _, _, hp2', _, _⟩
    · rw [h2] at h2'; cases h2'
    · rw [hr1, hr2]
      exact .missing hne mt1 mt2 h1 h2 hp1 hp2 hpe
    · exact absurd ⟨mt2, hp2⟩ hp2'
  · have h2 : m2.get (bk ++ k) = none := (hb.none_iff hpre).mp h1
    have hpp : bk <+: (bk ++ k).dropLast := prefix_dropLast hpre (fun e => hne_of_none h1 e.symm)
    have hp2 : ¬ ∃ mt, m2.get (bk ++ k).dropLast = some (.dir mt) := fun h => hp1 ((hb.dir_iff hpp).mpr h)
    rcases namei_cases hg2 hK hnl2 ht f with ⟨n2', h2', _, _⟩ | ⟨_, mt2', _, hp2', _⟩ | ⟨e2, _, _, _, hr2, _⟩
    · rw [h2] at h2'; cases h2'
    · exact absurd ⟨mt2', hp2'⟩ hp2
    · -- same error class: walk both disks
      obtain ⟨tl, fuel, htl, hf, hw⟩ := namei_walk' hK ht
      have hsh := walk_shape m1 m2 f 0 tl htl (bk ++ k) [] fuel hK
        (fun p hp => by simpa using kinds_along hg1 hg2 hb hpre p hp)
        (fun p hp _ t mt => by simpa using hnl1 p hp t mt) hf
      rw [← hw m1 f, ← hw m2 f, hr1, hr2] at hsh
      have : e1 = e2 := hsh
      subst this
      rw [hr1, hr2]
      exact .err e1 hne h1 h2 hp1 hp2 he1

end

end BFS
