import Lemmas.LFRollback
import Lemmas.GTx
/-!
  Lemmas/LFGTx.lean — C09's main clause for names through FLAT links.  Rollback never resolves a
  name (it works on tracked keys), so the Rollback half is `L.sat_rollbackF` verbatim; only the
  history side (`G.history_keeps`: every covered operation, under any fault plan, keeps `L.Inv`)
  differs from Lemmas/LFRollback.lean.
-/
namespace BFS
namespace L
namespace G
open BackupFS F16

section
variable {bk kk : Key} {hbk : PKey bk} {hkk : PKey kk} {hne1 : bk ≠ []} {hne2 : kk ≠ []}
  {hd1 : ¬ bk <+: kk} {hd2 : ¬ kk <+: bk}

/-- C09 through flat links: after any G-covered history (run under any fault plan), Rollback run
under ANY fault plan either reports an error or has restored every entry of the base below its root -/
theorem tx_success_means_restored {w : World} (hg : OSGoodL bk kk w.fs) (hinfos : w.infos = [])
    (hbl : BackupLinksOK (osSimL bk kk hbk hkk hne1 hne2 hd1 hd2) w.fs) (ops : List Op)
    (hcov : CoveredHist (osCfg bk kk) bk (osSimL bk kk hbk hkk hne1 hne2 hd1 hd2) w ops) (plan : List Fault) :
    (rollback (osCfg bk kk) { runOps (osCfg bk kk) w ops with faults := plan }).2 = .ok false →
      SameBelowRoot (osViewL bk kk .base w.fs)
        (osViewL bk kk .base (rollback (osCfg bk kk) { runOps (osCfg bk kk) w ops with faults := plan }).1.fs) := by
  intro h
  have hk := history_keeps (hbk := hbk) (hkk := hkk) (hne1 := hne1) (hne2 := hne2) (hd1 := hd1) (hd2 := hd2)
    ops w (Inv.init hg hinfos hbl) hcov
  exact ((sat_rollbackF (cfg := osCfg bk kk) (hk.inv.with_faults plan)).elim h).2.1

/-- the same with the fault plan the history itself ran under; the start conditions of the next
transaction hold again -/
theorem tx_success_means_restored_same_plan {w : World} (hg : OSGoodL bk kk w.fs) (hinfos : w.infos = [])
    (hbl : BackupLinksOK (osSimL bk kk hbk hkk hne1 hne2 hd1 hd2) w.fs) (ops : List Op)
    (hcov : CoveredHist (osCfg bk kk) bk (osSimL bk kk hbk hkk hne1 hne2 hd1 hd2) w ops) :
    (rollback (osCfg bk kk) (runOps (osCfg bk kk) w ops)).2 = .ok false →
      OSGoodL bk kk (runTx (osCfg bk kk) w ops).fs ∧ (runTx (osCfg bk kk) w ops).infos = [] ∧
        BackupLinksOK (osSimL bk kk hbk hkk hne1 hne2 hd1 hd2) (runTx (osCfg bk kk) w ops).fs ∧
        SameBelowRoot (osViewL bk kk .base w.fs) (osViewL bk kk .base (runTx (osCfg bk kk) w ops).fs) := by
  intro h
  have hk := history_keeps (hbk := hbk) (hkk := hkk) (hne1 := hne1) (hne2 := hne2) (hd1 := hd1) (hd2 := hd2)
    ops w (Inv.init hg hinfos hbl) hcov
  have hr := (sat_rollbackF (cfg := osCfg bk kk) hk.inv).elim h
  exact ⟨hr.1, rollback_resets_infos (osCfg bk kk) _, backupLinksOK_after hk.inv hr.1 hr.2.1 hr.2.2, hr.2.1⟩

end

end G
end L
end BFS
