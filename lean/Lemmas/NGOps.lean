import Lemmas.GRes
import Lemmas.NLOps
/-!
  Lemmas/NGOps.lean (copy of Lemmas/GOps.lean over `NL.Sim`) — the per-operation lemmas of
  Lemmas/NLOps.lean with the resolution step abstracted: instead of `clean name = kp k` with
  `NoLinkAnc … k` (which makes `realPath` the identity) they take `L.G.ResTo cfg w name r` — "`realPath name`
  changes nothing and returns `kp r`" (Lemmas/GRes.lean; the definition does not mention the contract and is
  shared) — and the demands of `NL.Op.Covered` on the RESOLVED key `r`.  Everything after the resolution
  step (`tryBackup (kp r)`, the base call at `kp r`, the walk of `RemoveAll`) is that of Lemmas/NLOps.lean.
  Generic in the contract `NL.Sim`.
-/
namespace BFS
namespace NL
namespace G
open BackupFS

variable {cfg : Cfg} {S : Sim cfg} {v0 : View}

theorem sat_prepareG {name : Path} {k : Key} {w : World} (hinv : Inv S v0 w) (hk : PKey k)
    (hres : L.G.ResTo cfg w name k) (hacc : NoLinkAnc (S.view .base w.fs) k)
    (hlok : ∀ t mt, S.view .base w.fs k = some (.link t mt) → S.LinkOK .base k t) :
    Sat (prepare cfg name) w (fun w' r => Adv S v0 w w' ∧ OnlyAdded (· <+: k) w w' ∧
      ∀ p, r = .ok p → p = kp k ∧ ∀ b, b <+: k → Tracked w' b) := by
  unfold prepare
  apply Sat.bind
  apply (hres w rfl rfl).mono
  intro w1 r ⟨hs, hres⟩
  have hadv1 := Adv.of_same hinv hs
  have hon1 : OnlyAdded (· <+: k) w w1 := OnlyAdded.of_infos hs.infos
  cases r with
  | error e => exact ⟨hadv1, hon1, by intro p h; cases h⟩
  | ok p =>
    simp only
    have hp := hres p rfl
    subst hp
    apply Sat.bind
    apply (NL.sat_tryBackup hadv1.inv hk (by rw [hs.fs]; exact hacc) (by rw [hs.fs]; exact hlok)).mono
    intro w2 r2 ⟨hadv2, hon2, htr⟩
    cases r2 with
    | error e => exact ⟨hadv1.trans hadv2, hon1.trans hon2, by intro p h; cases h⟩
    | ok u =>
      apply Sat.pure
      refine ⟨hadv1.trans hadv2, hon1.trans hon2, ?_⟩
      intro p h
      cases h
      exact ⟨rfl, htr rfl⟩

theorem sat_prep_thenG {α} {name : Path} {k : Key} {w : World} {f : Path → M α}
    {Q : World → Except Err α → Prop} (hinv : Inv S v0 w) (hk : PKey k) (hres : L.G.ResTo cfg w name k)
    (hreach : Reach S w k)
    (herr : ∀ w' e, Adv S v0 w w' → Q w' (.error e))
    (hnext : ∀ w', Adv S v0 w w' → OnlyAdded (· <+: k) w w' → (∀ b, b <+: k → Tracked w' b) → Sat (f (kp k)) w' Q) :
    Sat (prepare cfg name >>= f) w Q := by
  apply Sat.bind
  apply (sat_prepareG hinv hk hres hreach.1 hreach.2).mono
  intro w1 r ⟨hadv, hon, hres⟩
  cases r with
  | error e => exact herr w1 e hadv
  | ok p =>
    obtain ⟨hp, htr⟩ := hres p rfl
    subst hp
    exact hnext w1 hadv hon htr

/-- the single-path mutators: `prepare`, then one base call confined to the resolved key -/
theorem sat_singleG {name : Path} {k : Key} {w : World} {c : Path → Call} (hinv : Inv S v0 w) (hk : PKey k)
    (hres : L.G.ResTo cfg w name k) (hreach : Reach S w k)
    (hlaw : ∀ m, S.G m → S.view .base m = S.view .base w.fs → ∀ m' r, (cfg.side .base).call m (c (kp k)) = (m', r) →
      S.G m' ∧ S.view Side.base.other m' = S.view Side.base.other m ∧
        (∀ j, j ≠ k → S.view .base m' j = S.view .base m j) ∧ LinkMono (S.view .base m) (S.view .base m')) :
    Sat (prepare cfg name >>= fun r => primUnit cfg .base (c r)) w
      (fun w' _ => Kept S v0 w w' ∧ BaseRel S (· = k) w w') := by
  apply sat_prep_thenG hinv hk hres hreach
  · intro w' e hadv; exact ⟨Kept.of_adv hadv, BaseRel.of_eq hadv.base⟩
  · intro w' hadv _ htr
    apply (NL.sat_base_call (S := S) (K := (· = k)) hadv.inv
      (fun j _ hj => by subst hj; exact htr j List.prefix_rfl)
      (fun m' r h => by
        obtain ⟨g, o, f, l⟩ := hlaw w'.fs hadv.inv.good hadv.base m' r h
        exact ⟨g, o, fun j hj => f j hj, l⟩)).mono
    intro w'' _ ⟨hk', hb'⟩
    exact ⟨(Kept.of_adv hadv).trans hk', (BaseRel.of_eq hadv.base).trans hb'⟩

theorem sat_mkdirG {name : Path} {k : Key} {perm : Nat} {w : World} (hinv : Inv S v0 w) (hk : PKey k)
    (hres : L.G.ResTo cfg w name k) (hreach : Reach S w k) :
    Sat (BackupFS.mkdir cfg name perm) w (fun w' _ => Kept S v0 w w' ∧ BaseRel S (· = k) w w') :=
  sat_singleG (c := fun r => .mkdir r perm) hinv hk hres hreach
    (fun _ hg hb _ _ h => S.mkdir_frame hg hk (by rw [hb]; exact hreach.1) h)

theorem sat_removeG {name : Path} {k : Key} {w : World} (hinv : Inv S v0 w) (hk : PKey k) (hne : k ≠ [])
    (hres : L.G.ResTo cfg w name k) (hreach : Reach S w k) :
    Sat (BackupFS.remove cfg name) w (fun w' _ => Kept S v0 w w' ∧ BaseRel S (· = k) w w') :=
  sat_singleG (c := fun r => .remove r) hinv hk hres hreach
    (fun _ hg hb _ _ h => S.remove_frame hg hk hne (by rw [hb]; exact hreach.1) h)

theorem sat_lchownG {name : Path} {k : Key} {u g : Int} {w : World} (hinv : Inv S v0 w) (hk : PKey k)
    (hres : L.G.ResTo cfg w name k) (hreach : Reach S w k) :
    Sat (BackupFS.lchown cfg name u g) w (fun w' _ => Kept S v0 w w' ∧ BaseRel S (· = k) w w') :=
  sat_singleG (c := fun r => .lchown r u g) hinv hk hres hreach
    (fun _ hg hb _ _ h => by
      obtain ⟨g', o, f, l, _⟩ := S.lchown_frame hg hk (by rw [hb]; exact hreach.1) h
      exact ⟨g', o, f, l⟩)

theorem sat_chmodG {name : Path} {k : Key} {mode : Nat} {w : World} (hinv : Inv S v0 w) (hk : PKey k)
    (hres : L.G.ResTo cfg w name k) (hreach : ReachF S w k) :
    Sat (BackupFS.chmod cfg name mode) w (fun w' _ => Kept S v0 w w' ∧ BaseRel S (· = k) w w') :=
  sat_singleG (c := fun r => .chmod r mode) hinv hk hres hreach.reach
    (fun _ hg hb _ _ h => S.chmod_frame hg hk (by rw [hb]; exact hreach) h)

theorem sat_chownG {name : Path} {k : Key} {u g : Int} {w : World} (hinv : Inv S v0 w) (hk : PKey k)
    (hres : L.G.ResTo cfg w name k) (hreach : ReachF S w k) :
    Sat (BackupFS.chown cfg name u g) w (fun w' _ => Kept S v0 w w' ∧ BaseRel S (· = k) w w') :=
  sat_singleG (c := fun r => .chown r u g) hinv hk hres hreach.reach
    (fun _ hg hb _ _ h => S.chown_frame hg hk (by rw [hb]; exact hreach) h)

theorem sat_chtimesG {name : Path} {k : Key} {a t : Time} {w : World} (hinv : Inv S v0 w) (hk : PKey k)
    (hres : L.G.ResTo cfg w name k) (hreach : ReachF S w k) :
    Sat (BackupFS.chtimes cfg name a t) w (fun w' _ => Kept S v0 w w' ∧ BaseRel S (· = k) w w') :=
  sat_singleG (c := fun r => .chtimes r a t) hinv hk hres hreach.reach
    (fun _ hg hb _ _ h => S.chtimes_frame hg hk (by rw [hb]; exact hreach) h)

theorem sat_mkdirAllG {name : Path} {k : Key} {perm : Nat} {w : World} (hinv : Inv S v0 w) (hk : PKey k)
    (hres : L.G.ResTo cfg w name k) (hreach : ReachF S w k) :
    Sat (BackupFS.mkdirAll cfg name perm) w (fun w' _ => Kept S v0 w w') := by
  unfold BackupFS.mkdirAll
  apply sat_prep_thenG hinv hk hres hreach.reach
  · intro w' e hadv; exact Kept.of_adv hadv
  · intro w' hadv _ htr
    apply (NL.sat_base_call (S := S) (K := (· <+: k)) hadv.inv
      (fun j _ hj => htr j hj)
      (fun m' r h => by
        obtain ⟨g, o, f, fl, _⟩ := S.mkdirAll_frame hadv.inv.good hk (by rw [hadv.base]; exact hreach) h
        refine ⟨g, o, f, ?_⟩
        intro j t mt' hl
        rcases fl j with e | ⟨_, mt, hdir⟩
        · exact ⟨mt', by rw [← e]; exact hl⟩
        · rw [hdir] at hl; cases hl)).mono
    intro w'' _ ⟨hk', _⟩
    exact (Kept.of_adv hadv).trans hk'

/-! ### Create / OpenFile -/

theorem sat_creatG {name : Path} {k : Key} {d : String} {w : World} (hinv : Inv S v0 w) (hk : PKey k)
    (hres : L.G.ResTo cfg w name k) (hreach : ReachF S w k) :
    Sat (Op.exec cfg (.creat name d)) w (fun w' _ => Kept S v0 w w') := by
  unfold Op.exec BackupFS.create
  apply Sat.bind
  apply sat_prep_thenG hinv hk hres hreach.reach
  · intro w' e hadv; exact Kept.of_adv hadv
  · intro w1 hadv _ htr
    apply (NL.sat_base_open (S := S) (k := k) hadv.inv (htr k List.prefix_rfl)
      (fun m' r h => by
        obtain ⟨g, o, f, l, hh⟩ := S.create_frame hadv.inv.good hk (by rw [hadv.base]; exact hreach) h
        exact ⟨g, o, f, l, fun h' hr => (hh h' hr).1⟩)).mono
    intro w2 r2 ⟨hk2, hwh⟩
    have hk02 := (Kept.of_adv hadv).trans hk2
    cases r2 with
    | error e => exact hk02
    | ok wh =>
      simp only
      obtain ⟨hside, hH⟩ := hwh wh rfl
      have htr2 : Tracked w2 k := hk2.tracked k (htr k List.prefix_rfl)
      apply Sat.bind
      apply (NL.sat_writeClose (S := S) (d := d) hk2.inv hside hH htr2).mono
      intro w3 r3 hk3
      cases r3 with
      | error e => exact hk02.trans hk3
      | ok o => exact Sat.pure (hk02.trans hk3)

theorem sat_writeG {name : Path} {flag perm : Nat} {d : String} {w : World} (hinv : Inv S v0 w)
    (hcov : flag = O_RDONLY ∨ ∃ k, PKey k ∧ L.G.ResTo cfg w name k ∧ ReachF S w k) :
    Sat (Op.exec cfg (.write name flag perm d)) w (fun w' _ => Kept S v0 w w') := by
  by_cases hro : flag = O_RDONLY
  · exact NL.sat_write (S := S) hinv (Or.inl hro)
  · unfold Op.exec BackupFS.openFile
    apply Sat.bind
    simp only [hro, if_false]
    rcases hcov with h | ⟨k, hk, hres, hreach⟩
    · exact absurd h hro
    apply sat_prep_thenG hinv hk hres hreach.reach
    · intro w' e hadv; exact Kept.of_adv hadv
    · intro w1 hadv _ htr
      apply (NL.sat_base_open (S := S) (k := k) hadv.inv (htr k List.prefix_rfl)
        (fun m' r h => S.openFile_frame hadv.inv.good hk (by rw [hadv.base]; exact hreach) h)).mono
      intro w2 r2 ⟨hk2, hwh⟩
      have hk02 := (Kept.of_adv hadv).trans hk2
      cases r2 with
      | error e => exact hk02
      | ok wh =>
        simp only
        obtain ⟨hside, hH⟩ := hwh wh rfl
        have htr2 : Tracked w2 k := hk2.tracked k (htr k List.prefix_rfl)
        apply Sat.bind
        apply (NL.sat_writeClose (S := S) (d := d) hk2.inv hside hH htr2).mono
        intro w3 r3 hk3
        cases r3 with
        | error e => exact hk02.trans hk3
        | ok o => exact Sat.pure (hk02.trans hk3)

/-! ### Symlink / Rename -/

theorem sat_symlinkG {o n : Path} {kn : Key} {w : World} (hinv : Inv S v0 w) (hkn : PKey kn)
    (hres : L.G.ResTo cfg w n kn) (hreach : Reach S w kn) (hnb : NoneBelow w kn) :
    Sat (BackupFS.symlink cfg o n) w (fun w' _ => Kept S v0 w w') := by
  unfold BackupFS.symlink
  apply sat_prep_thenG hinv hkn hres hreach
  · intro w' e hadv; exact Kept.of_adv hadv
  · intro w1 hadv hon htr
    have hacc1 : NoLinkAnc (S.view .base w1.fs) kn := by rw [hadv.base]; exact hreach.1
    apply (sat_primUnit_chgL (S := S) (s := .base) (c := .symlink o (kp kn)) (K := (· = kn)) hadv.inv.good
      (fun m' r h => by
        obtain ⟨g, ot, f⟩ := S.symlink_frame hadv.inv.good hkn hacc1 h
        exact ⟨g, ot, fun j hj => f j hj⟩)).mono
    intro w2 _ hc
    refine (Kept.of_adv hadv).trans (Kept.of_chgL hadv.inv hc
      (fun j _ hj => by subst hj; exact htr j List.prefix_rfl) ?_)
    intro k hk htk a ha hne hl
    by_cases hak : a = kn
    · subst hak
      rcases hon k hk htk with h | h
      · exact hne (hnb k hk h ha).symm
      · exact hne (prefix_antisymm ha h)
    · obtain ⟨t, mt, ht⟩ := hl
      rw [hc.frame a hak] at ht
      exact hadv.inv.blink k hk htk a ha hne ⟨t, mt, ht⟩

theorem sat_renameG {o n : Path} {ko kn : Key} {w : World} (hinv : Inv S v0 w) (hko : PKey ko) (hkn : PKey kn)
    (ho : L.G.ResTo cfg w o ko) (hn : L.G.ResTo cfg w n kn) (hro : Reach S w ko) (hrn : Reach S w kn)
    (hleaf : ¬ ((S.view .base w.fs).isDirAt ko ∧ (S.view .base w.fs).hasChild ko))
    (hnb : isLinkAt (S.view .base w.fs) ko → NoneBelow w kn) :
    Sat (BackupFS.rename cfg o n) w (fun w' _ => Kept S v0 w w') := by
  unfold BackupFS.rename
  apply Sat.bind
  apply (ho w rfl rfl).mono
  intro w1 r1 ⟨hs1, hres1⟩
  have hadv1 := Adv.of_same hinv hs1
  cases r1 with
  | error e => exact Kept.of_adv hadv1
  | ok ro =>
    have := hres1 ro rfl; subst this
    simp only
    apply Sat.bind
    apply (hn w1 hs1.fs hs1.faults).mono
    intro w2 r2 ⟨hs2, hres2⟩
    have hadv2 := hadv1.trans (Adv.of_same hadv1.inv hs2)
    have hon2 : OnlyAdded (fun j => j <+: kn ∨ j <+: ko) w w2 :=
      OnlyAdded.of_infos (hs2.infos.trans hs1.infos)
    cases r2 with
    | error e => exact Kept.of_adv hadv2
    | ok rn =>
      have := hres2 rn rfl; subst this
      simp only
      have hrn2 := hrn.of_base hadv2.base
      apply Sat.bind
      apply (NL.sat_tryBackup hadv2.inv hkn hrn2.1 hrn2.2).mono
      intro w3 r3 ⟨hadv3', hon3', htr3⟩
      have hadv3 := hadv2.trans hadv3'
      have hon3 : OnlyAdded (fun j => j <+: kn ∨ j <+: ko) w w3 := hon2.trans (hon3'.mono (fun j hj => Or.inl hj))
      cases r3 with
      | error e => exact Kept.of_adv hadv3
      | ok u3 =>
        simp only
        have hro3 := hro.of_base hadv3.base
        apply Sat.bind
        apply (NL.sat_tryBackup hadv3.inv hko hro3.1 hro3.2).mono
        intro w4 r4 ⟨hadv4', hon4', htr4⟩
        have hadv4 := hadv3.trans hadv4'
        have hon4 : OnlyAdded (fun j => j <+: kn ∨ j <+: ko) w w4 := hon3.trans (hon4'.mono (fun j hj => Or.inr hj))
        cases r4 with
        | error e => exact Kept.of_adv hadv4
        | ok u4 =>
          simp only
          have hleaf4 : ¬ ((S.view .base w4.fs).isDirAt ko ∧ (S.view .base w4.fs).hasChild ko) := by
            rw [hadv4.base]; exact hleaf
          have hacco : NoLinkAnc (S.view .base w4.fs) ko := by rw [hadv4.base]; exact hro.1
          have haccn : NoLinkAnc (S.view .base w4.fs) kn := by rw [hadv4.base]; exact hrn.1
          have hg4 := hadv4.inv.good
          -- the base call
          have hcall : Sat (primUnit cfg .base (.rename (kp ko) (kp kn))) w4 (fun w' _ =>
              S.ChgL .base (fun j => j = ko ∨ j = kn) w4 w' ∧
              (∀ t mt', S.view .base w'.fs ko = some (.link t mt') → ∃ mt, S.view .base w4.fs ko = some (.link t mt)) ∧
              (∀ t mt', S.view .base w'.fs kn = some (.link t mt') →
                (∃ mt, S.view .base w4.fs kn = some (.link t mt)) ∨ (∃ mt, S.view .base w4.fs ko = some (.link t mt))) ∧
              ((S.view .base w4.fs).isDirAt kn → S.view .base w'.fs = S.view .base w4.fs)) := by
            unfold primUnit
            apply Sat.bind
            apply Sat.primCall
            · intro _ w5 h5
              have hfs : S.view .base w5.fs = S.view .base w4.fs := by rw [h5.fs]
              refine ⟨Sim.ChgL.of_same hg4 h5, ?_, ?_, fun _ => hfs⟩
              · intro t mt' h; exact ⟨mt', by rw [← hfs]; exact h⟩
              · intro t mt' h; exact Or.inl ⟨mt', by rw [← hfs]; exact h⟩
            · intro w5 h5
              cases heq : (cfg.side .base).call w4.fs (.rename (kp ko) (kp kn)) with
              | mk m' r =>
                obtain ⟨g, ot, hl, hd⟩ := S.rename_frame hg4 hko hkn hacco haccn heq
                obtain ⟨f, lo, ln⟩ := hl hleaf4
                have hchg : S.ChgL .base (fun j => j = ko ∨ j = kn) w4 { w5 with fs := m' } :=
                  ⟨g, ot, fun j hj => f j (fun e => hj (Or.inl e)) (fun e => hj (Or.inr e)), h5.infos, h5.faults⟩
                simp only
                cases r with
                | ok a => exact Sat.pure ⟨hchg, lo, ln, hd⟩
                | error e => exact ⟨hchg, lo, ln, hd⟩
          apply hcall.mono
          intro w5 _ ⟨hc, lo, ln, hd⟩
          refine (Kept.of_adv hadv4).trans (Kept.of_chgL hadv4.inv hc ?_ ?_)
          · intro j _ hj
            rcases hj with rfl | rfl
            · exact htr4 rfl j List.prefix_rfl
            · exact (htr3 rfl j List.prefix_rfl).monoNL hadv4'
          · intro k hk htk a ha hne hl
            have hbl4 := hadv4.inv.blink k hk htk a ha hne
            obtain ⟨t, mt', ht⟩ := hl
            by_cases hao : a = ko
            · subst hao
              obtain ⟨mt, h4⟩ := lo t mt' ht
              exact hbl4 ⟨t, mt, h4⟩
            · by_cases han : a = kn
              · subst han
                rcases ln t mt' ht with ⟨mt, h4⟩ | ⟨mt, h4⟩
                · exact hbl4 ⟨t, mt, h4⟩
                · -- the source is a symlink
                  have hlk : isLinkAt (S.view .base w.fs) ko := ⟨t, mt, by rw [← hadv4.base]; exact h4⟩
                  rcases hon4 k hk htk with h | h | h
                  · exact hne (hnb hlk k hk h ha).symm
                  · exact hne (prefix_antisymm ha h)
                  · -- `a` is a proper ancestor of the (live) source: a directory, so the call is refused
                    have hane : a ≠ ko := hao
                    have hdir : (S.view .base w4.fs).isDirAt a :=
                      (S.goodView hg4 .base).ancestors (by rw [h4]; simp) (List.IsPrefix.trans ha h) hane
                    rw [hd hdir] at ht
                    obtain ⟨md, hmd⟩ := hdir
                    rw [hmd] at ht; cases ht
              · rw [hc.frame a (fun e => by rcases e with e | e; exact hao e; exact han e)] at ht
                exact hbl4 ⟨t, mt', ht⟩

/-! ### RemoveAll: resolve, then the walk of Lemmas/LOps.lean below the resolved key -/

theorem sat_removeAllG {name : Path} {k : Key} {w : World} (hinv : Inv S v0 w) (hk : PKey k) (hne : k ≠ [])
    (hres : L.G.ResTo cfg w name k) (hacc : NoLinkAnc (S.view .base w.fs) k) (hlok : LOK S k w) :
    Sat (BackupFS.removeAll cfg name) w (fun w' _ => Kept S v0 w w') := by
  unfold BackupFS.removeAll
  apply Sat.bind
  apply (hres w rfl rfl).mono
  intro w1 r1 ⟨hs1, hres1⟩
  have hk1 := Kept.of_same hinv hs1
  cases r1 with
  | error e => exact hk1
  | ok r =>
    have := hres1 r rfl; subst this
    simp only
    have hacc1 : NoLinkAnc (S.view .base w1.fs) k := by rw [hs1.fs]; exact hacc
    apply Sat.bind
    apply Sat.attempt
    apply (NL.sat_lstat hk1.inv.good hk hacc1).mono
    intro w2 r2 ⟨hs2, _⟩
    have hk2 := hk1.trans (Kept.of_same hk1.inv hs2)
    have hv2 : S.view .base w2.fs = S.view .base w.fs := by rw [hs2.fs, hs1.fs]
    have hacc2 : NoLinkAnc (S.view .base w2.fs) k := by rw [hv2]; exact hacc
    have hwalk : WalkOK S v0 k w w2 [] := ⟨hk2, LinkMono.of_eq hv2, by intro p hp; cases hp⟩
    simp only
    cases r2 with
    | error e =>
      simp only
      split
      · exact Sat.pure hk2
      · exact Sat.throw hk2
    | ok fi =>
      simp only
      split
      · apply (NL.sat_remove (S := S) hk2.inv hk hne (clean_kp hk) (hwalk.reach hlok List.prefix_rfl hacc2)).mono
        intro w3 _ ⟨hk3, _⟩
        exact hk2.trans hk3
      · apply Sat.bind
        have hw : Sat (fun w => match walkTree (worldWalkOps cfg .base) (removeAllFn cfg) 64 w [] (kp k) with
            | ((w', dirs), none) => (w', Except.ok dirs)
            | ((w', _), some e) => (w', Except.error e) : M (List Path)) w2
            (fun w' r => Kept S v0 w w' ∧ ∀ dirs, r = .ok dirs → WalkOK S v0 k w w' dirs) := by
          have hwt := walkTree_ok (cfg := cfg) hlok hwalk hk hne hacc2
          unfold Sat
          show Kept S v0 w (match walkTree (worldWalkOps cfg .base) (removeAllFn cfg) 64 w2 [] (kp k) with
              | ((w', dirs), none) => (w', Except.ok dirs)
              | ((w', _), some e) => (w', Except.error e)).1 ∧
            ∀ dirs, (match walkTree (worldWalkOps cfg .base) (removeAllFn cfg) 64 w2 [] (kp k) with
              | ((w', dirs), none) => (w', Except.ok dirs)
              | ((w', _), some e) => (w', Except.error e)).2 = .ok dirs → WalkOK S v0 k w
                (match walkTree (worldWalkOps cfg .base) (removeAllFn cfg) 64 w2 [] (kp k) with
                  | ((w', dirs), none) => (w', Except.ok dirs)
                  | ((w', _), some e) => (w', Except.error e)).1 dirs
          cases hx : walkTree (worldWalkOps cfg .base) (removeAllFn cfg) 64 w2 [] (kp k) with
          | mk sa oe =>
            rw [hx] at hwt
            obtain ⟨s2, a2⟩ := sa
            cases oe with
            | some e' => exact ⟨hwt.kept, by intro d h; cases h⟩
            | none => exact ⟨hwt.kept, by intro d h; cases h; exact hwt⟩
        apply hw.mono
        intro w3 r3 ⟨hk3, hdirs⟩
        cases r3 with
        | error e => exact hk3
        | ok dirs =>
          simp only
          have h3 := hdirs dirs rfl
          apply NL.sat_removeEach (S := S) hlok (sortMost dirs) w3
          exact ⟨h3.kept, h3.mono, fun p hp => h3.dirs p ((sortBy_perm _ dirs).mem_iff.mp hp)⟩

end G
end NL
end BFS
