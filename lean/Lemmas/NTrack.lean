import Lemmas.NInv
import Lemmas.Resolve
/-!
  Lemmas/NTrack.lean (copy of Lemmas/Track.lean over `N.Sim`) — `backupRequired`, `backupDirs`, `tryBackup`, `realPath` and `prepare`
  (what every mutator runs before it touches the base) preserve the invariant under every fault
  plan, never change the base view, and on success leave the resolved path tracked.
-/
namespace BFS.N
open BackupFS

variable {cfg : Cfg} {S : Sim cfg} {v0 : View}

def Tracked (w : World) (k : Key) : Prop := w.infos.lookup (kp k) ≠ none

theorem Tracked.mono {w w' : World} {k : Key} (h : Tracked w k) (ha : Adv S v0 w w') : Tracked w' k := by
  unfold Tracked at *
  cases hl : w.infos.lookup (kp k) with
  | none => exact absurd hl h
  | some x => rw [ha.mono _ _ hl]; simp

/-- nothing but `K` became tracked -/
def OnlyAdded (K : Key → Prop) (w w' : World) : Prop := ∀ j, PKey j → Tracked w' j → Tracked w j ∨ K j

theorem OnlyAdded.refl {K : Key → Prop} (w : World) : OnlyAdded K w w := fun _ _ h => Or.inl h

theorem OnlyAdded.of_infos {K : Key → Prop} {w w' : World} (h : w'.infos = w.infos) : OnlyAdded K w w' := by
  intro j _ hj; left; unfold Tracked at *; rw [← h]; exact hj

theorem OnlyAdded.trans {K : Key → Prop} {a b c : World} (h1 : OnlyAdded K a b) (h2 : OnlyAdded K b c) :
    OnlyAdded K a c := by
  intro j hj hc
  rcases h2 j hj hc with h | h
  · exact h1 j hj h
  · exact Or.inr h

theorem OnlyAdded.mono {K K' : Key → Prop} {w w' : World} (h : OnlyAdded K w w') (hk : ∀ j, K j → K' j) :
    OnlyAdded K' w w' := by
  intro j hj hc
  rcases h j hj hc with h | h
  · exact Or.inl h
  · exact Or.inr (hk j h)

theorem OnlyAdded.add {w : World} {k : Key} {x : Option Info} (hk : PKey k) :
    OnlyAdded (· = k) w (addInfo w (kp k) x) := by
  intro j hj hc
  by_cases hjk : j = k
  · exact Or.inr hjk
  · left
    unfold Tracked addInfo at *
    simp only at hc
    rwa [lookup_snoc_ne (fun e => hjk (kp_inj hj hk e))] at hc

/-! ### backupRequired -/

theorem sat_backupRequired {k : Key} {w : World} (hinv : Inv S v0 w) (hk : PKey k) :
    Sat (backupRequired cfg (kp k)) w (fun w' r => Adv S v0 w w' ∧ OnlyAdded (· = k) w w' ∧
      ∀ oi req, r = .ok (oi, req) →
        (req = false → w'.infos.lookup (kp k) = some oi) ∧
        (req = true → w'.infos.lookup (kp k) = none ∧
          ∃ i n, oi = some i ∧ S.view .base w'.fs k = some n ∧ InfoFor i n)) := by
  unfold backupRequired lookupInfo
  apply Sat.bind
  apply Sat.bind
  apply Sat.getW
  simp only
  apply Sat.pure
  simp only
  cases hl : w.infos.lookup (kp k) with
  | some info =>
    simp only
    apply Sat.pure
    refine ⟨Adv.refl hinv, OnlyAdded.refl w, ?_⟩
    intro oi req h
    cases h
    exact ⟨fun _ => hl, fun h => by cases h⟩
  | none =>
    simp only
    apply Sat.bind
    apply Sat.attempt
    apply (sat_lstat hinv.good hk).mono
    intro w1 r ⟨hs, hr⟩
    have hinv1 := hinv.of_same hs
    have hl1 : w1.infos.lookup (kp k) = none := by rw [hs.infos]; exact hl
    simp only
    rcases hr with ⟨n, i, hv, rfl, hfor⟩ | ⟨hv, e, rfl, hnf⟩ | ⟨rfl, hf⟩
    · simp only
      apply Sat.pure
      refine ⟨Adv.of_same hinv hs, OnlyAdded.of_infos hs.infos, ?_⟩
      intro oi req h
      cases h
      exact ⟨fun h => (by cases h), fun _ => ⟨hl1, i, n, rfl, (by rw [hs.fs]; exact hv), hfor⟩⟩
    · simp only [hnf, if_true]
      apply Sat.bind
      have hv1 : S.view .base w1.fs k = none := by rw [hs.fs]; exact hv
      apply Sat.of_eq (setInfo_untracked hl1)
      simp only
      apply Sat.pure
      have hadd := Adv.add (S := S) (v0 := v0) (x := none) hk hl1 (hinv1.add_none hk hl1 hv1)
      refine ⟨(Adv.of_same hinv hs).trans hadd, (OnlyAdded.of_infos hs.infos).trans (OnlyAdded.add hk), ?_⟩
      intro oi req h
      cases h
      exact ⟨fun _ => lookup_snoc_self hl1, fun h => by cases h⟩
    · simp only [Err.isNotFound, Bool.false_eq_true, if_false]
      apply Sat.throw
      refine ⟨Adv.of_same hinv hs, OnlyAdded.of_infos hs.infos, ?_⟩
      intro oi req h; cases h

/-! ### backupDirs -/

theorem copyDir_ok_isDir {s : Side} {p : Path} {i : Info} {w : World}
    (h : (copyDir cfg s p i w).2 = .ok ()) : i.isDir = true := by
  cases hd : i.isDir with
  | true => rfl
  | false =>
    exfalso
    unfold copyDir wrapped at h
    simp [hd, M.throw] at h

theorem prefix_snoc_iff {α} {b pre : List α} {x : α} : b <+: pre ++ [x] ↔ b <+: pre ∨ b = pre ++ [x] := by
  rw [List.prefix_concat_iff]
  exact Or.comm

theorem sat_copyDir_weak' {s : Side} {d : Key} {i : Info} {w : World} (hg : S.G w.fs) (hd : PKey d) :
    Sat (copyDir cfg s (kp d) i) w (fun w' r => S.Soft s d w w' ∧ (r = .ok () → i.isDir = true)) :=
  ⟨(sat_copyDir_weak hg hd).elim, copyDir_ok_isDir⟩

/-- one step of the `backupDirs` visitor, for a key all of whose proper ancestors are tracked -/
theorem sat_visit_cons {a : Key} {rest : List Path} {w : World} {Q : World → Except Err Unit → Prop}
    (hinv : Inv S v0 w) (ha : PKey a) (hpre : ∀ b, b <+: a → b ≠ a → Tracked w b)
    (hstop : ∀ w' e, Adv S v0 w w' → OnlyAdded (· = a) w w' → Q w' (.error e))
    (hnext : ∀ w', Adv S v0 w w' → OnlyAdded (· = a) w w' → Tracked w' a →
      Sat (backupDirsVisit cfg rest) w' Q) :
    Sat (backupDirsVisit cfg (kp a :: rest)) w Q := by
  unfold backupDirsVisit
  apply Sat.bind
  apply (sat_backupRequired hinv ha).mono
  intro w1 r ⟨hadv1, hon1, hres⟩
  cases r with
  | error e => exact hstop w1 e hadv1 hon1
  | ok pr =>
    obtain ⟨fi, required⟩ := pr
    obtain ⟨hfalse, htrue⟩ := hres fi required rfl
    simp only
    cases required with
    | false =>
      simp only [Bool.not_false, if_true]
      apply hnext w1 hadv1 hon1
      unfold Tracked
      rw [(hfalse rfl)]
      simp
    | true =>
      simp only [Bool.not_true, Bool.false_eq_true, if_false]
      obtain ⟨hun1, i, n, rfl, hv1, hfor⟩ := htrue rfl
      simp only
      apply Sat.bind
      apply (sat_copyDir_weak' (S := S) (s := .backup) (i := i) hadv1.inv.good ha).mono
      intro w2 r2 ⟨hsoft, hisd⟩
      have hadv2 : Adv S v0 w1 w2 := Adv.backup_soft hadv1.inv ha hun1 hsoft
      have hon2 : OnlyAdded (· = a) w1 w2 := OnlyAdded.of_infos hsoft.infos
      cases r2 with
      | error e => exact hstop _ e (hadv1.trans hadv2) (hon1.trans hon2)
      | ok u =>
        simp only
        have hisdir := hisd rfl
        have hun2 : w2.infos.lookup (kp a) = none := by
          rw [hsoft.infos]; exact hun1
        apply Sat.bind
        apply Sat.of_eq (setInfo_untracked hun2)
        simp only
        have hv2 : S.view .base w2.fs a = some n := by
          rw [hadv2.base]; exact hv1
        have hinv3 := hadv2.inv.add_some (i := i) ha hun2 hv2 hfor
          (by
            intro c mt hn
            subst hn
            have : i.kind = .file := hfor.1
            simp [Info.isDir, this] at hisdir)
          (by
            intro b hb hne
            exact ((hpre b hb hne).mono hadv1).mono hadv2)
        have hadv3 := Adv.add (S := S) (v0 := v0) (x := some i) ha hun2 hinv3
        apply hnext _ ((hadv1.trans hadv2).trans hadv3) ((hon1.trans hon2).trans (OnlyAdded.add ha))
        unfold Tracked
        rw [show (addInfo w2 (kp a) (some i)).infos.lookup (kp a) = some (some i) from
          lookup_snoc_self hun2]
        simp

/-- the visitor over the remaining ancestors `pre ++ [x₁]`, `pre ++ [x₁, x₂]`, … -/
theorem sat_visit : ∀ (xs : List Name) (pre : Key) (w : World), PKey (pre ++ xs) → Inv S v0 w →
    (∀ b, b <+: pre → Tracked w b) →
    Sat (backupDirsVisit cfg ((inits1 xs).map (fun l => kp (pre ++ l)))) w (fun w' r =>
      Adv S v0 w w' ∧ OnlyAdded (· <+: pre ++ xs) w w' ∧
        (r = .ok () → ∀ b, b <+: pre ++ xs → Tracked w' b))
  | [], pre, w, _, hinv, hpre => by
    simp only [inits1, List.map_nil, backupDirsVisit, List.append_nil]
    apply Sat.pure
    exact ⟨Adv.refl hinv, OnlyAdded.refl w, fun _ => hpre⟩
  | x :: xs, pre, w, hpk, hinv, hpre => by
    have hlist : (inits1 (x :: xs)).map (fun l => kp (pre ++ l)) =
        kp (pre ++ [x]) :: (inits1 xs).map (fun l => kp ((pre ++ [x]) ++ l)) := by
      simp [inits1, List.map_map, Function.comp_def]
    rw [hlist]
    have happ : (pre ++ [x]) ++ xs = pre ++ x :: xs := by simp
    have ha : PKey (pre ++ [x]) := hpk.of_prefix ⟨xs, happ⟩
    have hsub : ∀ j, j = pre ++ [x] → j <+: pre ++ x :: xs := by
      intro j hj; subst hj; exact ⟨xs, happ⟩
    apply sat_visit_cons hinv ha
    · intro b hb hne
      rcases prefix_snoc_iff.mp hb with h | h
      · exact hpre b h
      · exact absurd h hne
    · intro w' e hadv hon
      refine ⟨hadv, hon.mono hsub, ?_⟩
      intro h; cases h
    · intro w' hadv hon htr
      have hpre' : ∀ b, b <+: pre ++ [x] → Tracked w' b := by
        intro b hb
        rcases prefix_snoc_iff.mp hb with h | h
        · exact (hpre b h).mono hadv
        · subst h; exact htr
      have ih := sat_visit xs (pre ++ [x]) w' (by rw [happ]; exact hpk) hadv.inv hpre'
      rw [happ] at ih
      apply ih.mono
      intro w'' r ⟨hadv', hon', hall⟩
      exact ⟨hadv.trans hadv', (hon.mono hsub).trans hon', hall⟩

theorem sat_backupDirs {d : Key} {w : World} (hinv : Inv S v0 w) (hd : PKey d) :
    Sat (backupDirs cfg (kp d)) w (fun w' r => Adv S v0 w w' ∧ OnlyAdded (· <+: d) w w' ∧
      (r = .ok () → ∀ b, b <+: d → Tracked w' b)) := by
  unfold backupDirs
  rw [iterateDirTree_kp hd]
  have hroot : rootP = kp [] := rfl
  rw [hroot]
  apply sat_visit_cons hinv PKey.nil
  · intro b hb hne
    exact absurd (List.prefix_nil.mp hb) hne
  · intro w' e hadv hon
    refine ⟨hadv, hon.mono (fun j hj => by subst hj; exact List.nil_prefix), ?_⟩
    intro h; cases h
  · intro w' hadv hon htr
    have := sat_visit (cfg := cfg) d [] w' (by simpa using hd) hadv.inv
      (by intro b hb; rw [List.prefix_nil.mp hb]; exact htr)
    simp only [List.nil_append] at this
    apply this.mono
    intro w'' r ⟨hadv', hon', hall⟩
    exact ⟨hadv.trans hadv', (hon.mono (fun j hj => by subst hj; exact List.nil_prefix)).trans hon', hall⟩

/-! ### opening a file read-only -/

theorem sat_open_ro {s : Side} {k : Key} {w : World} (hg : S.G w.fs) (hk : PKey k) :
    Sat (primOpen cfg s (.open_ (kp k))) w (fun w' r => SameFS w w' ∧
      (∀ wh, r = .ok wh → wh.side = s ∧ S.H s wh.h k ∧ wh.h.flag = O_RDONLY) ∧
      ((S.view s w.fs).isFileAt k ∨ (S.view s w.fs).isDirAt k → OnlyFault w r)) := by
  unfold primOpen
  apply Sat.bind
  apply (sat_primCall_pure (fun m' r h => S.pure_open h)).mono
  intro w1 r ⟨hs, hr⟩
  have hfault : ∀ {α} (x : Except Err α), x = .error .io → w.faults ≠ [] → OnlyFault w x := by
    intro α x hx hf e he
    rw [hx] at he; cases he; exact ⟨rfl, hf⟩
  cases hc : (cfg.side s).call w.fs (.open_ (kp k)) with
  | mk m' r' =>
    rw [hc] at hr
    simp only at hr
    have hcan : (S.view s w.fs).isFileAt k ∨ (S.view s w.fs).isDirAt k → ∃ h, r' = .ok (.handle h) := by
      intro hv
      obtain ⟨h, heq, _⟩ := S.open_some hg hk hv
      rw [hc] at heq; cases heq; exact ⟨h, rfl⟩
    rcases hr with hr | ⟨hf, hr⟩
    · rw [hr]
      cases r' with
      | error e =>
        refine ⟨hs, (by intro wh h; cases h), ?_⟩
        intro hv; obtain ⟨h, hh⟩ := hcan hv; cases hh
      | ok ret =>
        cases ret with
        | handle h =>
          apply Sat.pure
          refine ⟨hs, ?_, fun _ => OnlyFault.ok⟩
          intro wh hwh
          cases hwh
          obtain ⟨hH, hfl⟩ := S.open_handle hg hk hc
          exact ⟨rfl, hH, hfl⟩
        | _ =>
          refine ⟨hs, (by intro wh h; cases h), ?_⟩
          intro hv; obtain ⟨h, hh⟩ := hcan hv; cases hh
    · rw [hr]
      exact ⟨hs, (by intro wh h; cases h), fun _ => hfault _ rfl hf⟩

/-! ### tryBackup -/

theorem not_prefix_dropLast {k : Key} (hne : k ≠ []) : ¬ k <+: k.dropLast := by
  intro h
  have h1 := h.length_le
  have h2 : 0 < k.length := List.length_pos_iff.mpr hne
  rw [List.length_dropLast] at h1
  omega

theorem prefix_proper_dropLast {b k : Key} (h : b <+: k) (hne : b ≠ k) : b <+: k.dropLast := by
  rcases List.eq_nil_or_concat k with rfl | ⟨ns, n, hk⟩
  · exact absurd (List.prefix_nil.mp h) hne
  · rw [List.concat_eq_append] at hk
    subst hk
    rw [List.dropLast_concat]
    rcases prefix_snoc_iff.mp h with h' | h'
    · exact h'
    · exact absurd h' hne

theorem sat_tryBackup {k : Key} {w : World} (hinv : Inv S v0 w) (hk : PKey k) :
    Sat (tryBackup cfg (kp k)) w (fun w' r => Adv S v0 w w' ∧ (r = .ok () → ∀ b, b <+: k → Tracked w' b)) := by
  unfold tryBackup
  apply Sat.bind
  apply (sat_backupRequired hinv hk).mono
  intro w1 r1 ⟨hadv1, hon1, hres⟩
  cases r1 with
  | error e => exact ⟨hadv1, by intro h; cases h⟩
  | ok pr =>
    obtain ⟨info, needsBackup⟩ := pr
    obtain ⟨hfalse, htrue⟩ := hres info needsBackup rfl
    simp only
    -- the directory whose chain is backed up
    have hdir : ∀ inf : Option Info, ∃ d, PKey d ∧ backupDirPath inf (kp k) = kp d ∧ (d = k ∨ d = k.dropLast) ∧
        (∀ i, inf = some i → i.isDir = true → d = k) ∧ (∀ i, inf = some i → i.isDir = false → d = k.dropLast) := by
      intro inf
      cases inf with
      | none => exact ⟨k.dropLast, hk.dropLast, (by simp [backupDirPath, dir_kp hk]), Or.inr rfl, (by intro i h; cases h), (by intro i h; cases h)⟩
      | some i =>
        cases hd : i.isDir with
        | true =>
          refine ⟨k, hk, (by simp [backupDirPath, hd]), Or.inl rfl, fun _ _ _ => rfl, ?_⟩
          intro i' h h'; cases h; rw [hd] at h'; cases h'
        | false =>
          refine ⟨k.dropLast, hk.dropLast, (by simp [backupDirPath, hd, dir_kp hk]), Or.inr rfl, ?_, fun _ _ _ => rfl⟩
          intro i' h h'; cases h; rw [hd] at h'; cases h'
    obtain ⟨d, hd, hdeq, hdk, hd_dir, hd_file⟩ := hdir info
    rw [hdeq]
    apply Sat.bind
    apply (sat_backupDirs hadv1.inv hd).mono
    intro w2 r2 ⟨hadv2, hon2, hall⟩
    have hadv12 := hadv1.trans hadv2
    cases r2 with
    | error e => exact ⟨hadv12, by intro h; cases h⟩
    | ok u2 =>
      simp only
      have hall := hall rfl
      have hpref : ∀ w', (∀ b, b <+: d → Tracked w' b) → Tracked w' k → ∀ b, b <+: k → Tracked w' b := by
        intro w' hd' hk' b hb
        by_cases hbk : b = k
        · subst hbk; exact hk'
        · rcases hdk with rfl | rfl
          · exact hd' b hb
          · exact hd' b (prefix_proper_dropLast hb hbk)
      cases needsBackup with
      | false =>
        simp only [Bool.not_false, if_true]
        apply Sat.pure
        refine ⟨hadv12, fun _ => ?_⟩
        have : Tracked w1 k := by unfold Tracked; rw [hfalse rfl]; simp
        exact hpref w2 hall (this.mono hadv2)
      | true =>
        simp only [Bool.not_true, Bool.false_eq_true, if_false]
        obtain ⟨hun1, i, n, rfl, hv1, hfor⟩ := htrue rfl
        simp only
        have hnl : ∀ t mt, n ≠ .link t mt := by
          intro t mt e; subst e; exact S.no_link hadv1.inv.good hv1
        cases hisd : i.isDir with
        | true =>
          simp only [if_true]
          apply Sat.pure
          refine ⟨hadv12, fun _ => ?_⟩
          have := hd_dir i rfl hisd
          subst this
          exact hall
        | false =>
          simp only [Bool.false_eq_true, if_false]
          have hdl := hd_file i rfl hisd
          subst hdl
          -- the node is a regular file
          obtain ⟨c, mt, hn⟩ : ∃ c mt, n = .file c mt := by
            cases n with
            | file c mt => exact ⟨c, mt, rfl⟩
            | dir mt =>
              have : i.kind = .dir := hfor.1
              simp [Info.isDir, this] at hisd
            | link t mt => exact absurd rfl (hnl t mt)
          subst hn
          have hreg : i.isRegular = true := by
            have : i.kind = .file := hfor.1
            simp [Info.isRegular, this]
          simp only [hreg, if_true]
          have hkne : k ≠ [] := by
            intro e; subst e
            obtain ⟨mt', hroot⟩ := S.root_dir (s := .base) hadv1.inv.good
            rw [hroot] at hv1; cases hv1
          have hun2 : w2.infos.lookup (kp k) = none := by
            cases hl : w2.infos.lookup (kp k) with
            | none => rfl
            | some x =>
              exfalso
              have ht : Tracked w2 k := by unfold Tracked; rw [hl]; simp
              rcases hon2 k hk ht with h | h
              · exact h hun1
              · exact not_prefix_dropLast hkne h
          have hv2 : S.view .base w2.fs k = some (.file c mt) := by rw [hadv2.base]; exact hv1
          have hg2 := hadv2.inv.good
          apply Sat.bind
          apply (sat_open_ro (S := S) hg2 hk).mono
          intro w3 r3 ⟨hs3, hwh, _⟩
          have hadv3 : Adv S v0 w w3 := hadv12.trans (Adv.of_same hadv2.inv hs3)
          cases r3 with
          | error e => exact ⟨hadv3, by intro h; cases h⟩
          | ok sf =>
            simp only
            obtain ⟨hside, hH, hflag⟩ := hwh sf rfl
            have hinv3 := hadv3.inv
            have hun3 : w3.infos.lookup (kp k) = none := by rw [hs3.infos]; exact hun2
            have hv3 : S.view .base w3.fs k = some (.file c mt) := by rw [hs3.fs]; exact hv2
            apply Sat.bind
            apply Sat.attempt
            -- copy, then record
            have hcopy : Sat (do copyFile cfg .backup (kp k) i sf; setInfo (kp k) (some i) : M Unit) w3
                (fun w' r => Adv S v0 w3 w' ∧ (r = .ok () → Tracked w' k)) := by
              apply Sat.bind
              apply (sat_copyFile (S := S) (s := .backup) (ks := k) (data := c) (mt0 := mt) hinv3.good hk
                hside hH (by rw [hflag]; decide) hv3 hreg
                (by rw [hfor.2.1]; exact S.mode_lt hinv3.good hv3)).mono
              intro w4 r4 ⟨hc4, hp4, _⟩
              have hadv4 : Adv S v0 w3 w4 := Adv.backup_soft hinv3 hk hun3 hc4.soft
              cases r4 with
              | error e => exact ⟨hadv4, by intro h; cases h⟩
              | ok u4 =>
                simp only
                have hun4 : w4.infos.lookup (kp k) = none := by rw [hc4.infos]; exact hun3
                apply Sat.of_eq (setInfo_untracked hun4)
                have hv4 : S.view .base w4.fs k = some (.file c mt) := by rw [hadv4.base]; exact hv3
                have hinv5 := hadv4.inv.add_some (i := i) hk hun4 hv4 hfor
                  (by
                    intro c' mt' hn
                    cases hn
                    exact ⟨_, hp4 rfl⟩)
                  (by
                    intro b hb hne
                    exact (((hall b (prefix_proper_dropLast hb hne)).mono (Adv.of_same hadv2.inv hs3))).mono hadv4)
                refine ⟨hadv4.trans (Adv.add hk hun4 hinv5), fun _ => ?_⟩
                unfold Tracked
                rw [show (addInfo w4 (kp k) (some i)).infos.lookup (kp k) = some (some i) from lookup_snoc_self hun4]
                simp
            apply hcopy.mono
            intro w5 r5 ⟨hadv5, htr5⟩
            simp only
            apply Sat.bind
            apply Sat.attempt
            apply (sat_hClose (wh := sf) (w := w5)).mono
            intro w6 r6 ⟨hs6, _⟩
            simp only
            have hadv6 : Adv S v0 w w6 := (hadv3.trans hadv5).trans (Adv.of_same hadv5.inv hs6)
            cases r5 with
            | error e => exact ⟨hadv6, by intro h; cases h⟩
            | ok u5 =>
              cases u5
              refine ⟨hadv6, fun _ => ?_⟩
              have hk6 : Tracked w6 k := (htr5 rfl).mono (Adv.of_same hadv5.inv hs6)
              apply hpref w6 _ hk6
              intro b hb
              exact (((hall b hb).mono (Adv.of_same hadv2.inv hs3)).mono hadv5).mono (Adv.of_same hadv5.inv hs6)

/-! ### realPath / prepare -/

theorem sat_resolveLoop : ∀ (fuel : Nat) (l : List Path) (last : Path) (fi : Option Info) (w : World),
    S.G w.fs → (∀ p ∈ l, ∃ a, PKey a ∧ p = kp a) → l.length < fuel →
    Sat (resolveLoop cfg fuel l last fi) w (fun w' r => SameFS w w' ∧
      ∀ p oi, r = .ok (p, oi) → p = l.getLast?.getD last)
  | 0, l, _, _, _, _, _, hlen => by omega
  | _ + 1, [], last, fi, w, _, _, _ => by
    unfold resolveLoop
    apply Sat.pure
    refine ⟨SameFS.refl w, ?_⟩
    intro p oi h; cases h; rfl
  | fuel + 1, p :: rest, last, fi, w, hg, hl, hlen => by
    unfold resolveLoop
    obtain ⟨a, ha, rfl⟩ := hl p (by simp)
    apply Sat.bind
    apply Sat.attempt
    apply (sat_lstat hg ha).mono
    intro w1 r ⟨hs, hr⟩
    simp only
    have hlast : ∀ x, (kp a :: rest).getLast?.getD x = rest.getLast?.getD (kp a) := by
      intro x
      cases rest with
      | nil => rfl
      | cons q qs =>
        rw [List.getLast?_cons_cons]
        cases hq : (q :: qs).getLast? with
        | none => simp at hq
        | some y => rfl
    rcases hr with ⟨n, i, hv, rfl, hfor⟩ | ⟨hv, e, rfl, hnf⟩ | ⟨rfl, hf⟩
    · simp only
      have hnl : i.isSymlink = false := by
        cases n with
        | link t mt => exact absurd hv (S.no_link hg)
        | file c mt => have : i.kind = .file := hfor.1; simp [Info.isSymlink, this]
        | dir mt => have : i.kind = .dir := hfor.1; simp [Info.isSymlink, this]
      simp only [hnl, Bool.false_eq_true, if_false]
      apply (sat_resolveLoop fuel rest (kp a) (some i) w1 (hs.fs ▸ hg)
        (fun q hq => hl q (List.mem_cons_of_mem _ hq)) (by simp at hlen; omega)).mono
      intro w2 r2 ⟨hs2, hres⟩
      refine ⟨hs.trans hs2, ?_⟩
      intro p oi h
      rw [hres p oi h, hlast]
    · simp only [hnf, if_true]
      apply Sat.pure
      refine ⟨hs, ?_⟩
      intro p oi h
      cases h
      rw [hlast, hlast]
    · simp only [Err.isNotFound, Bool.false_eq_true, if_false]
      apply Sat.throw
      exact ⟨hs, by intro p oi h; cases h⟩

theorem sat_realPath {name : Path} {k : Key} {w : World} (hg : S.G w.fs) (hk : PKey k)
    (hname : clean name = kp k) :
    Sat (realPath cfg name) w (fun w' r => SameFS w w' ∧ ∀ p, r = .ok p → p = kp k) := by
  unfold realPath resolvePathWithInfo
  rw [hname]
  simp only [kp_ne_nil, if_false]
  apply Sat.bind
  apply (sat_resolveLoop (S := S) _ (iterateDirTree (kp k)) (kp k) none w hg
    (by
      intro p hp
      obtain ⟨a, ha, rfl⟩ := (mem_iterateDirTree_kp hk).mp hp
      exact ⟨a, hk.of_prefix ha, rfl⟩)
    (by omega)).mono
  intro w1 r ⟨hs, hres⟩
  cases r with
  | error e => exact ⟨hs, by intro p h; cases h⟩
  | ok pr =>
    apply Sat.pure
    refine ⟨hs, ?_⟩
    intro p h
    cases h
    rw [hres pr.1 pr.2 rfl, iterateDirTree_getLast _ (kp_ne_nil k)]
    rfl

theorem sat_prepare {name : Path} {k : Key} {w : World} (hinv : Inv S v0 w) (hk : PKey k)
    (hname : clean name = kp k) :
    Sat (prepare cfg name) w (fun w' r => Adv S v0 w w' ∧
      ∀ p, r = .ok p → p = kp k ∧ ∀ b, b <+: k → Tracked w' b) := by
  unfold prepare
  apply Sat.bind
  apply (sat_realPath (S := S) hinv.good hk hname).mono
  intro w1 r ⟨hs, hres⟩
  have hadv1 := Adv.of_same hinv hs
  cases r with
  | error e => exact ⟨hadv1, by intro p h; cases h⟩
  | ok p =>
    simp only
    have hp := hres p rfl
    subst hp
    apply Sat.bind
    apply (sat_tryBackup hadv1.inv hk).mono
    intro w2 r2 ⟨hadv2, htr⟩
    cases r2 with
    | error e => exact ⟨hadv1.trans hadv2, by intro p h; cases h⟩
    | ok u =>
      apply Sat.pure
      refine ⟨hadv1.trans hadv2, ?_⟩
      intro p h
      cases h
      exact ⟨rfl, htr rfl⟩

end BFS.N
