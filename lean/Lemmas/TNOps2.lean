import Lemmas.TNOps
/-!
  Lemmas/TNOps2.lean — transparency in the nested layering (`Lemmas/TOps2..4.lean` for `nestedCfg`): the
  instances of `single_transpN` / `open_transpN` for Mkdir, MkdirAll, Remove, Chmod, Chown, Lchown,
  Chtimes, Create, OpenFile (all flag combinations); the read-only operations; Rename.
-/
namespace BFS.N
open BackupFS MFS HiddenFS

section
variable {bk hk dd : Key}

variable (h : NRoots bk hk dd) {v0 : View} {r0 : Option Node} {w : World} {name : Path} {k : Key}
include h

/-! ### the instances (the key may be visible, or at / below the location: there both sides refuse) -/

theorem mkdir_transpN (hinv : InvB (nSim bk hk dd h) v0 r0 w) (hk' : PKey k)
    (hname : clean name = kp k) (perm : Nat) :
    Sat (Op.exec (nestedCfg bk hk) (.mkdir name perm)) w
      (fun w' r => NTransp bk hk dd (FileAnc (nview bk hk .base w.fs) k) w' r (Op.direct (nbase bk hk) w.fs (.mkdir name perm))) :=
  single_anyN h (c := fun r => .mkdir r perm) hinv hk' hname
    (fun m => (nbase_call_spelling m hk' hname).2.1 perm)
    (fun hv => ⟨fun _ _ ht => nbase_mkdir_rel h ht hk' hv perm,
      fun _ hg hf => (nbase_call_fileAnc h hg hk' hv hf).2.1 perm⟩)
    (fun hh => refused_single h hk' (s := .base) hh (f := (Call.mkdir · perm)) (Or.inr (Or.inl ⟨perm, rfl⟩)))

theorem mkdirAll_transpN (hinv : InvB (nSim bk hk dd h) v0 r0 w) (hk' : PKey k)
    (hname : clean name = kp k) (perm : Nat) :
    Sat (Op.exec (nestedCfg bk hk) (.mkdirAll name perm)) w
      (fun w' r => NTransp bk hk dd (FileAnc (nview bk hk .base w.fs) k) w' r (Op.direct (nbase bk hk) w.fs (.mkdirAll name perm))) :=
  single_anyN h (c := fun r => .mkdirAll r perm) hinv hk' hname
    (fun m => (nbase_call_spelling m hk' hname).2.2.1 perm)
    (fun hv => ⟨fun _ _ ht => nbase_mkdirAll_rel h ht hk' hv perm,
      fun _ hg hf => (nbase_call_fileAnc h hg hk' hv hf).2.2.1 perm⟩)
    (fun hh => refused_single h hk' (s := .base) hh (f := (Call.mkdirAll · perm)) (Or.inr (Or.inr (Or.inl ⟨perm, rfl⟩))))

theorem remove_transpN (hinv : InvB (nSim bk hk dd h) v0 r0 w) (hk' : PKey k) (hne : k ≠ [])
    (hname : clean name = kp k) :
    Sat (Op.exec (nestedCfg bk hk) (.remove name)) w
      (fun w' r => NTransp bk hk dd (FileAnc (nview bk hk .base w.fs) k) w' r (Op.direct (nbase bk hk) w.fs (.remove name))) :=
  single_anyN h (c := fun r => .remove r) hinv hk' hname
    (fun m => (nbase_call_spelling m hk' hname).2.2.2.2.1)
    (fun hv => ⟨fun _ _ ht => nbase_remove_rel h ht hk' hne hv,
      fun _ hg hf => (nbase_call_fileAnc h hg hk' hv hf).2.2.2.2.1⟩)
    (fun hh => refused_single h hk' (s := .base) hh (f := Call.remove)
      (Or.inr (Or.inr (Or.inr (Or.inr (Or.inr (Or.inl rfl)))))))

theorem chmod_transpN (hinv : InvB (nSim bk hk dd h) v0 r0 w) (hk' : PKey k)
    (hname : clean name = kp k) (mode : Nat) :
    Sat (Op.exec (nestedCfg bk hk) (.chmod name mode)) w
      (fun w' r => NTransp bk hk dd (FileAnc (nview bk hk .base w.fs) k) w' r (Op.direct (nbase bk hk) w.fs (.chmod name mode))) :=
  single_anyN h (c := fun r => .chmod r mode) hinv hk' hname
    (fun m => (nbase_call_spelling m hk' hname).2.2.2.2.2.1 mode)
    (fun hv => ⟨fun _ _ ht => nbase_chmod_rel h ht hk' hv mode,
      fun _ hg hf => (nbase_call_fileAnc h hg hk' hv hf).2.2.2.2.2.1 mode⟩)
    (fun hh => refused_single h hk' (s := .base) hh (f := (Call.chmod · mode))
      (Or.inr (Or.inr (Or.inr (Or.inr (Or.inr (Or.inr (Or.inl ⟨mode, rfl⟩))))))))

theorem chown_transpN (hinv : InvB (nSim bk hk dd h) v0 r0 w) (hk' : PKey k)
    (hname : clean name = kp k) (u g : Int) :
    Sat (Op.exec (nestedCfg bk hk) (.chown name u g)) w
      (fun w' r => NTransp bk hk dd (FileAnc (nview bk hk .base w.fs) k) w' r (Op.direct (nbase bk hk) w.fs (.chown name u g))) :=
  single_anyN h (c := fun r => .chown r u g) hinv hk' hname
    (fun m => (nbase_call_spelling m hk' hname).2.2.2.2.2.2.1 u g)
    (fun hv => ⟨fun _ _ ht => nbase_chown_rel h ht hk' hv u g,
      fun _ hg hf => (nbase_call_fileAnc h hg hk' hv hf).2.2.2.2.2.2.1 u g⟩)
    (fun hh => refused_single h hk' (s := .base) hh (f := (Call.chown · u g))
      (Or.inr (Or.inr (Or.inr (Or.inr (Or.inr (Or.inr (Or.inr (Or.inl ⟨u, g, rfl⟩)))))))))

theorem lchown_transpN (hinv : InvB (nSim bk hk dd h) v0 r0 w) (hk' : PKey k)
    (hname : clean name = kp k) (u g : Int) :
    Sat (Op.exec (nestedCfg bk hk) (.lchown name u g)) w
      (fun w' r => NTransp bk hk dd (FileAnc (nview bk hk .base w.fs) k) w' r (Op.direct (nbase bk hk) w.fs (.lchown name u g))) :=
  single_anyN h (c := fun r => .lchown r u g) hinv hk' hname
    (fun m => (nbase_call_spelling m hk' hname).2.2.2.2.2.2.2.1 u g)
    (fun hv => ⟨fun _ _ ht => nbase_lchown_rel h ht hk' hv u g,
      fun _ hg hf => (nbase_call_fileAnc h hg hk' hv hf).2.2.2.2.2.2.2.1 u g⟩)
    (fun hh => refused_single h hk' (s := .base) hh (f := (Call.lchown · u g))
      (Or.inr (Or.inr (Or.inr (Or.inr (Or.inr (Or.inr (Or.inr (Or.inr (Or.inl ⟨u, g, rfl⟩))))))))))

theorem chtimes_transpN (hinv : InvB (nSim bk hk dd h) v0 r0 w) (hk' : PKey k)
    (hname : clean name = kp k) (t : Time) :
    Sat (Op.exec (nestedCfg bk hk) (.chtimes name t)) w
      (fun w' r => NTransp bk hk dd (FileAnc (nview bk hk .base w.fs) k) w' r (Op.direct (nbase bk hk) w.fs (.chtimes name t))) :=
  single_anyN h (c := fun r => .chtimes r t t) hinv hk' hname
    (fun m => (nbase_call_spelling m hk' hname).2.2.2.2.2.2.2.2 t t)
    (fun hv => ⟨fun _ _ ht => nbase_chtimes_rel h ht hk' hv t t,
      fun _ hg hf => (nbase_call_fileAnc h hg hk' hv hf).2.2.2.2.2.2.2.2 t t⟩)
    (fun hh => refused_single h hk' (s := .base) hh (f := (Call.chtimes · t t))
      (Or.inr (Or.inr (Or.inr (Or.inr (Or.inr (Or.inr (Or.inr (Or.inr (Or.inr ⟨t, t, rfl⟩))))))))))

theorem creat_transpN (hinv : InvB (nSim bk hk dd h) v0 r0 w) (hk' : PKey k)
    (hname : clean name = kp k) (data : String) :
    Sat (Op.exec (nestedCfg bk hk) (.creat name data)) w
      (fun w' r => NTransp bk hk dd (FileAnc (nview bk hk .base w.fs) k) w' r (Op.direct (nbase bk hk) w.fs (.creat name data))) :=
  open_anyN h (c := fun r => .create r) hinv hk' hname
    (fun m => (nbase_call_spelling m hk' hname).1)
    (fun hv => ⟨fun _ _ ht => nbase_create_rel h ht hk' hv,
      fun _ hg hf => (nbase_call_fileAnc h hg hk' hv hf).1,
      fun _ hd hg hh => (((nSim bk hk dd h).create_frame (s := .base) hg hk' (Prod.ext rfl rfl)).2.2.2 hd hh).1.1⟩)
    (fun hh => refused_single h hk' (s := .base) hh (f := Call.create) (Or.inl rfl))

/-! ### OpenFile -/

omit h in
/-- a read-only open ignores the permission argument -/
theorem nbase_openRO_perm (m : MFS) (name : Path) (perm : Nat) :
    (nbase bk hk).call m (.openFile name O_RDONLY perm) = (nbase bk hk).call m (.openFile name O_RDONLY 0) := by
  show ((nestedCfg bk hk).side .base).call m _ = ((nestedCfg bk hk).side .base).call m _
  rw [side_base (dd := bk), hiddenFS_call _ _ _ _ (by intro n e; cases e), hiddenFS_call _ _ _ _ (by intro n e; cases e)]
  simp only [HiddenFS.translate]
  cases hguard (HiddenFS.mk [kp hk]) name (if hasFlag O_RDONLY O_CREATE = true then Err.hiddenPerm else Err.hiddenNotExist) with
  | error e => rfl
  | ok u =>
    simp only [bind, Except.bind, pure, Except.pure]
    rw [base_openRO_perm (bk := bk) (kk := bk) m name perm]
    congr 1

omit h in
theorem spell_handle_key {x y : MFS × Except Err Ret} (hs : SpellEq x y) {hd : Handle} (hx : x.2 = .ok (.handle hd)) :
    ∃ hd', y.2 = .ok (.handle hd') ∧ hd'.key = hd.key := by
  obtain ⟨_, h2⟩ := hs
  rw [hx] at h2
  cases hy : y.2 with
  | error e => rw [hy] at h2; simp [Except.map] at h2
  | ok r =>
    rw [hy] at h2
    simp only [Except.map, Except.ok.injEq] at h2
    cases r with
    | handle hd' =>
      simp only [Ret.noL, Ret.handle.injEq] at h2
      refine ⟨hd', rfl, ?_⟩
      have := congrArg Handle.key h2
      exact this.symm
    | unit => simp [Ret.noL] at h2
    | info i => simp [Ret.noL] at h2
    | str t => simp [Ret.noL] at h2

theorem write_transpN (hinv : InvB (nSim bk hk dd h) v0 r0 w) (hk' : PKey k)
    (hname : clean name = kp k) (flag perm : Nat) (data : String) :
    Sat (Op.exec (nestedCfg bk hk) (.write name flag perm data)) w
      (fun w' r => NTransp bk hk dd (FileAnc (nview bk hk .base w.fs) k) w' r (Op.direct (nbase bk hk) w.fs (.write name flag perm data))) := by
  by_cases hro : flag = O_RDONLY
  · subst hro
    have hx : Op.exec (nestedCfg bk hk) (.write name O_RDONLY perm data) = (do
        let hd ← primOpen (nestedCfg bk hk) .base (.openFile name O_RDONLY 0)
        let o ← writeClose (nestedCfg bk hk) hd data
        pure (OpOut.written hd o) : M OpOut) := by
      unfold Op.exec BackupFS.openFile
      simp only [if_true]
    rw [hx]
    have hcall : (nbase bk hk).call w.fs (.openFile name O_RDONLY 0) =
        (nbase bk hk).call w.fs (.openFile name O_RDONLY perm) := (nbase_openRO_perm w.fs name perm).symm
    have hpure : ((nbase bk hk).call w.fs (.openFile name O_RDONLY perm)).1 = w.fs :=
      (nSim bk hk dd h).pure_openRO (s := .base) (Prod.ext rfl rfl)
    apply open_tail_transpN h (c1 := .openFile name O_RDONLY 0) (c2 := .openFile name O_RDONLY perm) hinv.nofault
      (by rw [hcall])
    · rw [hcall, hpure]; exact NTwin.refl hinv.good
    · intro hd hh
      obtain ⟨hd', hh', hkey⟩ := spell_handle_key ((nbase_call_spelling w.fs hk' hname).2.2.2.1 O_RDONLY perm) hh
      have := ((nSim bk hk dd h).openFile_frame (s := .base) hinv.good hk' (Prod.ext rfl rfl)).2.2.2 hd' hh'
      exact ⟨k, hkey.symm.trans this.1, this.2⟩
  · have hx : Op.exec (nestedCfg bk hk) (.write name flag perm data) = (do
        let hd ← (prepare (nestedCfg bk hk) name >>= fun r => primOpen (nestedCfg bk hk) .base (.openFile r flag perm))
        let o ← writeClose (nestedCfg bk hk) hd data
        pure (OpOut.written hd o) : M OpOut) := by
      unfold Op.exec BackupFS.openFile
      simp only [hro, if_false]
    rw [hx]
    exact open_anyN h (c := fun r => .openFile r flag perm) hinv hk' hname
      (fun m => (nbase_call_spelling m hk' hname).2.2.2.1 flag perm)
      (fun hv => ⟨fun _ _ ht => nbase_openFile_rel h ht hk' hv flag perm,
        fun _ hg hf => (nbase_call_fileAnc h hg hk' hv hf).2.2.2.1 flag perm,
        fun m hd hg hh => (((nSim bk hk dd h).openFile_frame (s := .base) hg hk' (Prod.ext rfl rfl)).2.2.2 hd hh).1⟩)
      (fun hh => refused_single h hk' (s := .base) hh (f := (Call.openFile · flag perm))
        (Or.inr (Or.inr (Or.inr (Or.inr (Or.inl ⟨flag, perm, rfl⟩))))))

/-! ### read-only operations (any name, hidden ones included) -/

theorem info_transpN {P : Prop} (hinv : InvB (nSim bk hk dd h) v0 r0 w) (c : Call)
    (hpure : ((nbase bk hk).call w.fs c).1 = w.fs) :
    Sat (do let i ← primInfo (nestedCfg bk hk) .base c; pure (OpOut.info i) : M OpOut) w
      (fun w' r => NTransp bk hk dd P w' r (directInfo (nbase bk hk) w.fs c)) := by
  unfold primInfo directInfo
  apply Sat.bind
  apply Sat.bind
  apply (sat_primCall_nf hinv.nofault).mono
  intro w1 r ⟨hfs, hr1, _, _⟩
  have hfs' : w1.fs = ((nbase bk hk).call w.fs c).1 := hfs
  have hr1' : r = ((nbase bk hk).call w.fs c).2 := hr1
  rw [hpure] at hfs'
  cases hc : (nbase bk hk).call w.fs c with
  | mk m' rr =>
    rw [hc] at hr1' hpure
    simp only at hr1' hpure
    subst hr1'
    have htw : NTwin bk hk dd w1.fs m' := by rw [hfs', hpure]; exact NTwin.refl hinv.good
    cases r with
    | error e => exact ⟨Or.inl rfl, htw⟩
    | ok ret =>
      cases ret with
      | info i =>
        apply Sat.pure
        apply Sat.pure
        exact ⟨rfl, htw⟩
      | unit => exact ⟨Or.inl rfl, htw⟩
      | handle hd => exact ⟨Or.inl rfl, htw⟩
      | str s => exact ⟨Or.inl rfl, htw⟩

theorem str_transpN {P : Prop} (hinv : InvB (nSim bk hk dd h) v0 r0 w) (c : Call)
    (hpure : ((nbase bk hk).call w.fs c).1 = w.fs) :
    Sat (do let i ← primStr (nestedCfg bk hk) .base c; pure (OpOut.str i) : M OpOut) w
      (fun w' r => NTransp bk hk dd P w' r (directStr (nbase bk hk) w.fs c)) := by
  unfold primStr directStr
  apply Sat.bind
  apply Sat.bind
  apply (sat_primCall_nf hinv.nofault).mono
  intro w1 r ⟨hfs, hr1, _, _⟩
  have hfs' : w1.fs = ((nbase bk hk).call w.fs c).1 := hfs
  have hr1' : r = ((nbase bk hk).call w.fs c).2 := hr1
  rw [hpure] at hfs'
  cases hc : (nbase bk hk).call w.fs c with
  | mk m' rr =>
    rw [hc] at hr1' hpure
    simp only at hr1' hpure
    subst hr1'
    have htw : NTwin bk hk dd w1.fs m' := by rw [hfs', hpure]; exact NTwin.refl hinv.good
    cases r with
    | error e => exact ⟨Or.inl rfl, htw⟩
    | ok ret =>
      cases ret with
      | str i =>
        apply Sat.pure
        apply Sat.pure
        exact ⟨rfl, htw⟩
      | unit => exact ⟨Or.inl rfl, htw⟩
      | handle hd => exact ⟨Or.inl rfl, htw⟩
      | info s => exact ⟨Or.inl rfl, htw⟩

theorem stat_transpN (hinv : InvB (nSim bk hk dd h) v0 r0 w) (name : Path) :
    Sat (Op.exec (nestedCfg bk hk) (.stat name)) w
      (fun w' r => NTransp bk hk dd False w' r (Op.direct (nbase bk hk) w.fs (.stat name))) :=
  info_transpN h hinv (.stat name) ((nSim bk hk dd h).pure_stat (s := .base) (Prod.ext rfl rfl))

theorem lstat_transpN (hinv : InvB (nSim bk hk dd h) v0 r0 w) (name : Path) :
    Sat (Op.exec (nestedCfg bk hk) (.lstat name)) w
      (fun w' r => NTransp bk hk dd False w' r (Op.direct (nbase bk hk) w.fs (.lstat name))) :=
  info_transpN h hinv (.lstat name) ((nSim bk hk dd h).pure_lstat (s := .base) (Prod.ext rfl rfl))

theorem readlink_transpN (hinv : InvB (nSim bk hk dd h) v0 r0 w) (name : Path) :
    Sat (Op.exec (nestedCfg bk hk) (.readlink name)) w
      (fun w' r => NTransp bk hk dd False w' r (Op.direct (nbase bk hk) w.fs (.readlink name))) :=
  str_transpN h hinv (.readlink name) ((nSim bk hk dd h).pure_readlink (s := .base) (Prod.ext rfl rfl))

end

end BFS.N
