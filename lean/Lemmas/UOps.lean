import Lemmas.UName
import Lemmas.UDef
import Lemmas.GOps
import Lemmas.TOps3
/-!
  Lemmas/UOps.lean — transparency of one operation whose name passes through FLAT symlinks (C03):
  single-path mutators without a handle (Mkdir, Remove, Lchown, Symlink, Chmod, Chown, Chtimes).

  Shape of every lemma: in a state `w` satisfying the transaction invariant of the symlink development
  (`L.Inv`), healthy filesystems, `Flat` disk, name with at most 40 components: with `r = G.rk bk w k`
  the key `realPath` returns,

  * if the backup phase (`prepare`) fails with `e`, the operation fails with `e` and the base view is
    what it was (`TranspU … (.error e)`);
  * if it succeeds, the base call on the RESOLVED name `kp r` on the post-backup disk and the direct
    call with the CALLER's name on the original disk agree in result and resulting base view
    (`TranspU … (.ok ())`), by `U.nrel_flat` (same outcome of name resolution) and `U.*_rel`
    (non-interference of the OS model).
-/
namespace BFS
namespace U
open BackupFS MFS F16

section
variable {bk kk : Key}

/-- the `LSim` instance of the OS model for given roots -/
abbrev osSimLR (hr : Roots bk kk) : L.LSim (osCfg bk kk) := L.osSimL bk kk hr.pb hr.pk hr.nb hr.nk hr.d1 hr.d2

/-- same data, up to the name a handle reports -/
def DataAgree : DOut → DOut → Prop
  | .unit, .unit => True
  | .written h1 o1, .written h2 o2 => hcore h1 = hcore h2 ∧ o1 = o2
  | .info i1, .info i2 => i1 = i2
  | .str s1, .str s2 => s1 = s2
  | _, _ => False

/-- the result through BackupFS agrees with the direct result: same data on success, the same error
on failure -/
def ResAgreeU (rx : Except Err OpOut) (rd : Except Err DOut) : Prop :=
  match rx, rd with
  | .ok a, .ok b => DataAgree a.data b
  | .error e1, .error e2 => e1 = e2
  | _, _ => False

/-- transparency of one step, given the outcome `pr` of its backup phase: `w'`, `res` the world and
result after the operation through BackupFS from `w`, `d` the outcome of the direct call on `w.fs` -/
def TranspU (bk : Key) (w : World) (pr : Except Err Unit) (w' : World) (res : Except Err OpOut)
    (d : MFS × Except Err DOut) : Prop :=
  match pr with
  | .ok _ => ResAgreeU res d.2 ∧ UEq bk w'.fs d.1
  | .error e => res = .error e ∧ UEq bk w'.fs w.fs

/-! ### the backup phase -/

/-- what `prepare` leaves behind -/
structure PrepFacts (bk kk : Key) (w : World) (r : Key) (pw : World × Except Err Path) : Prop where
  good : L.OSGoodL bk kk pw.1.fs
  eq : UEq bk w.fs pw.1.fs
  nofault : pw.1.faults = []
  res : ∀ p, pw.2 = .ok p → p = kp r

theorem ueq_of_adv (hr : Roots bk kk) {v0 : View} {w w1 : World} (hadv : L.Adv (osSimLR hr) v0 w w1)
    (hu : w1.fs.umask = w.fs.umask) : UEq bk w.fs w1.fs := by
  refine ⟨?_, hu.symm⟩
  intro K hK
  obtain ⟨j, rfl⟩ := hK
  exact (congrFun hadv.base j).symm

theorem prepare_flat (hr : Roots bk kk) {v0 : View} {w : World} {name : Path} {k : Key}
    (hinv : L.Inv (osSimLR hr) v0 w) (hnf : w.faults = []) (hflat : Flat bk w.fs) (hk : PKey k)
    (hname : clean name = kp k)
    (hlok : ∀ t mt, L.osViewL bk kk .base w.fs (L.G.rk bk w k) = some (.link t mt) →
      L.osLinkOK bk kk .base (L.G.rk bk w k) t) :
    PrepFacts bk kk w (L.G.rk bk w k) (prepare (osCfg bk kk) name w) := by
  have hg : L.OSGoodL bk kk w.fs := hinv.good
  have hres := L.G.resTo_flat hr hnf hg hflat hk hname
  have hrk := L.G.rk_pkey hr hg hflat hk
  have hacc := L.G.rk_noLinkAnc (kk := kk) hg hflat k
  have h1 := (L.G.sat_prepareG (S := osSimLR hr) hinv hrk hres hacc hlok).elim
  have h2 : (prepare (osCfg bk kk) name w).1.fs.umask = w.fs.umask :=
    prepare_ku (osCfg_keeps_umask bk kk) name w
  obtain ⟨hadv, _, hp⟩ := h1
  exact ⟨hadv.inv.good, ueq_of_adv hr hadv h2, hadv.faults.trans hnf, fun p h => (hp p h).1⟩

/-! ### single-path mutators without a handle -/

theorem resAgreeU_unit (r : Except Err Ret) :
    ResAgreeU (r.map (fun _ => OpOut.unit)) (r.map (fun _ => DOut.unit)) := by
  cases r with
  | ok a => trivial
  | error e => rfl

/-- the call gives the same result on the two disks — with the caller's key on the first, the resolved key
on the second — and leaves them related again -/
def CallRelU (bk kk : Key) (m1 m2 : MFS) (c1 c2 : Call) : Prop :=
  ((baseFS bk kk).call m1 c1).2 = ((baseFS bk kk).call m2 c2).2 ∧
    UEq bk ((baseFS bk kk).call m1 c1).1 ((baseFS bk kk).call m2 c2).1

/-- from the OS level: a call that `PrefixFS` forwards as one syscall returning nothing -/
theorem callRelU_of_sys {c : Path → Call} {sys : MFS → Path → MFS × Except Err Unit}
    (hside : ∀ m j, PKey j → (baseFS bk kk).call m (c (kp j)) =
      ((sys m (kp (bk ++ j))).1, (sys m (kp (bk ++ j))).2.map (fun _ => Ret.unit)))
    {m1 m2 : MFS} {k r : Key} (hk : PKey k) (hrk : PKey r)
    (h : (sys m1 (kp (bk ++ k))).2 = (sys m2 (kp (bk ++ r))).2 ∧
      UEq bk (sys m1 (kp (bk ++ k))).1 (sys m2 (kp (bk ++ r))).1) :
    CallRelU bk kk m1 m2 (c (kp k)) (c (kp r)) := by
  unfold CallRelU
  rw [hside m1 k hk, hside m2 r hrk]
  exact ⟨by rw [h.1], h.2⟩

theorem single_transpU (hr : Roots bk kk) {v0 : View} {w : World} {name : Path} {k : Key}
    {c : Path → Call}
    (hinv : L.Inv (osSimLR hr) v0 w) (hnf : w.faults = []) (hflat : Flat bk w.fs) (hk : PKey k)
    (hname : clean name = kp k)
    (hlok : ∀ t mt, L.osViewL bk kk .base w.fs (L.G.rk bk w k) = some (.link t mt) →
      L.osLinkOK bk kk .base (L.G.rk bk w k) t)
    (hspell : ∀ m, (baseFS bk kk).call m (c name) = (baseFS bk kk).call m (c (kp k)))
    (hrel : ∀ m2, L.OSGoodL bk kk m2 → UEq bk w.fs m2 →
      CallRelU bk kk w.fs m2 (c (kp k)) (c (kp (L.G.rk bk w k)))) :
    Sat (do (prepare (osCfg bk kk) name >>= fun r => primUnit (osCfg bk kk) .base (c r)); pure OpOut.unit : M OpOut) w
      (fun w' res => TranspU bk w ((prepare (osCfg bk kk) name w).2.map (fun _ => ())) w' res
        (directUnit (baseFS bk kk) w.fs (c name))) := by
  have hd1 := directUnit_fst (baseFS bk kk) w.fs (c name)
  have hd2 := directUnit_snd (baseFS bk kk) w.fs (c name)
  rw [hspell] at hd1 hd2
  have hfacts := prepare_flat hr hinv hnf hflat hk hname hlok
  show Sat ((prepare (osCfg bk kk) name >>= fun r => primUnit (osCfg bk kk) .base (c r)) >>= fun _ => pure OpOut.unit) w _
  have hassoc : ((prepare (osCfg bk kk) name >>= fun r => primUnit (osCfg bk kk) .base (c r)) >>= fun _ => (pure OpOut.unit : M OpOut)) =
      (prepare (osCfg bk kk) name >>= fun r => (do primUnit (osCfg bk kk) .base (c r); pure OpOut.unit : M OpOut)) := by
    funext w0
    simp only [M.bind_apply]
    cases prepare (osCfg bk kk) name w0 with
    | mk w1 r => cases r <;> rfl
  rw [hassoc]
  apply Sat.bind
  unfold Sat
  revert hfacts
  cases prepare (osCfg bk kk) name w with
  | mk w1 pr =>
    intro hfacts
    cases pr with
    | error e =>
      exact ⟨rfl, hfacts.eq.symm⟩
    | ok p =>
      have hp := hfacts.res p rfl
      subst hp
      show Sat (do primUnit (osCfg bk kk) .base (c (kp (L.G.rk bk w k))); pure OpOut.unit : M OpOut) w1
        (fun w' res => TranspU bk w (.ok ()) w' res (directUnit (baseFS bk kk) w.fs (c name)))
      apply (sat_unit_nf (cfg := osCfg bk kk) (c := c (kp (L.G.rk bk w k))) hfacts.nofault).mono
      intro w2 r2 ⟨hfs, hr2⟩
      have hfs' : w2.fs = ((baseFS bk kk).call w1.fs (c (kp (L.G.rk bk w k)))).1 := hfs
      have hr2' : r2 = ((baseFS bk kk).call w1.fs (c (kp (L.G.rk bk w k)))).2.map (fun _ => OpOut.unit) := hr2
      obtain ⟨hres, hueq⟩ := hrel w1.fs hfacts.good hfacts.eq
      refine ⟨?_, ?_⟩
      · rw [hd2, hr2', hres]
        exact resAgreeU_unit _
      · rw [hd1, hfs']
        exact hueq.symm

/-! ### the instances -/

variable (hr : Roots bk kk) {v0 : View} {w : World} {name : Path} {k : Key}
include hr

omit hr in
theorem prepPhase_snd (cfg : Cfg) (p : Path) (w : World) :
    ((do let _ ← prepare cfg p; pure () : M Unit) w).2 = (prepare cfg p w).2.map (fun _ => ()) := by
  simp only [M.bind_apply]
  cases prepare cfg p w with
  | mk w1 r => cases r <;> rfl

/-- the outcomes of name resolution: caller's key on `w.fs`, resolved key on `m2` -/
theorem nrel_rk (hg : L.OSGoodL bk kk w.fs) (hflat : Flat bk w.fs) (hk : PKey k) (hlen : k.length ≤ 40)
    {m2 : MFS} (hg2 : L.OSGoodL bk kk m2) (hb : UEq bk w.fs m2) (f : Bool)
    (hfin : f = true → ∀ t mt, w.fs.get (bk ++ L.G.rk bk w k) ≠ some (.link t mt)) :
    NRel bk w.fs m2 (namei w.fs (kp (bk ++ k)) f) (namei m2 (kp (bk ++ L.G.rk bk w k)) f) :=
  nrel_flat hr hg hg2 hb hflat hk hlen f hfin

theorem side_mkdir (m : MFS) (j : Key) (hj : PKey j) (perm : Nat) :
    (baseFS bk kk).call m (.mkdir (kp j) perm) =
      ((m.mkdir (kp (bk ++ j)) perm).1, (m.mkdir (kp (bk ++ j)) perm).2.map (fun _ => Ret.unit)) :=
  side_call_unit hr .base m (tr_mkdir hr.pb hj perm) (x := m.mkdir (kp (bk ++ j)) perm) rfl

theorem side_remove (m : MFS) (j : Key) (hj : PKey j) :
    (baseFS bk kk).call m (.remove (kp j)) =
      ((m.remove (kp (bk ++ j))).1, (m.remove (kp (bk ++ j))).2.map (fun _ => Ret.unit)) :=
  side_call_unit hr .base m (tr_remove hr.pb hj) (x := m.remove (kp (bk ++ j))) rfl

theorem side_chmod (m : MFS) (j : Key) (hj : PKey j) (mode : Nat) :
    (baseFS bk kk).call m (.chmod (kp j) mode) =
      ((m.chmod (kp (bk ++ j)) mode).1, (m.chmod (kp (bk ++ j)) mode).2.map (fun _ => Ret.unit)) :=
  side_call_unit hr .base m (tr_chmod hr.pb hj mode) (x := m.chmod (kp (bk ++ j)) mode) rfl

theorem side_chown (m : MFS) (j : Key) (hj : PKey j) (u g : Int) :
    (baseFS bk kk).call m (.chown (kp j) u g) =
      ((m.chown (kp (bk ++ j)) u g).1, (m.chown (kp (bk ++ j)) u g).2.map (fun _ => Ret.unit)) :=
  side_call_unit hr .base m (tr_chown hr.pb hj u g) (x := m.chown (kp (bk ++ j)) u g) rfl

theorem side_lchown (m : MFS) (j : Key) (hj : PKey j) (u g : Int) :
    (baseFS bk kk).call m (.lchown (kp j) u g) =
      ((m.lchown (kp (bk ++ j)) u g).1, (m.lchown (kp (bk ++ j)) u g).2.map (fun _ => Ret.unit)) :=
  side_call_unit hr .base m (tr_lchown hr.pb hj u g) (x := m.lchown (kp (bk ++ j)) u g) rfl

theorem side_chtimes (m : MFS) (j : Key) (hj : PKey j) (a t : Time) :
    (baseFS bk kk).call m (.chtimes (kp j) a t) =
      ((m.chtimes (kp (bk ++ j)) t).1, (m.chtimes (kp (bk ++ j)) t).2.map (fun _ => Ret.unit)) :=
  side_call_unit hr .base m (tr_chtimes hr.pb hj a t) (x := m.chtimes (kp (bk ++ j)) t) rfl

theorem mkdir_transpU (hinv : L.Inv (osSimLR hr) v0 w) (hnf : w.faults = []) (hflat : Flat bk w.fs) (hk : PKey k)
    (hname : clean name = kp k) (hlen : k.length ≤ 40)
    (hlok : ∀ t mt, L.osViewL bk kk .base w.fs (L.G.rk bk w k) = some (.link t mt) →
      L.osLinkOK bk kk .base (L.G.rk bk w k) t) (perm : Nat) :
    Sat (Op.exec (osCfg bk kk) (.mkdir name perm)) w
      (fun w' res => TranspU bk w ((Op.backupPhase (osCfg bk kk) (.mkdir name perm) w).2) w' res
        (Op.direct (baseFS bk kk) w.fs (.mkdir name perm))) := by
  have hrk := L.G.rk_pkey hr hinv.good hflat hk
  have h := single_transpU hr (c := fun r => .mkdir r perm) hinv hnf hflat hk hname hlok
    (fun m => (base_call_spelling m hk hname).2.1 perm)
    (fun m2 hg2 hb => callRelU_of_sys (c := fun r => .mkdir r perm) (sys := fun m p => m.mkdir p perm)
      (fun m j hj => side_mkdir hr m j hj perm) hk hrk
      (mkdir_rel hb (nrel_rk hr hinv.good hflat hk hlen hg2 hb false (fun h => by cases h)) perm))
  have e : (Op.backupPhase (osCfg bk kk) (.mkdir name perm) w).2 =
      (prepare (osCfg bk kk) name w).2.map (fun _ => ()) := prepPhase_snd _ _ _
  rw [e]
  exact h

end

end U
end BFS
