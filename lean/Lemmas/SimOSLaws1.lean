import Lemmas.SimOSWalk
import Lemmas.SimOSPrefix
import Lemmas.SimOSGood
/-!
  Lemmas/SimOSLaws1.lean — the laws of `Sim` for the OS instance: static facts, read-only calls,
  `Lstat`, `Open`.
-/
namespace BFS
open MFS

section
variable {bk kk : Key}

/-! ### static facts -/

theorem os_root_dir {m : MFS} {s : Side} (hg : OSGood bk kk m) : (osView bk kk s m).isDirAt [] := by
  obtain ⟨mt, h⟩ := hg.rdir s
  exact osView_isDirAt_of (mt := mt) (by simpa using h)

theorem os_parent_dir {m : MFS} {s : Side} {k : Key} (hg : OSGood bk kk m) (h : osView bk kk s m k ≠ none)
    (hne : k ≠ []) : (osView bk kk s m).isDirAt k.dropLast := by
  obtain ⟨n0, h0⟩ := osView_ne_none h
  obtain ⟨mt, hp⟩ := hg.parent _ n0 h0 (by simp [hne])
  rw [append_dropLast hne] at hp
  exact osView_isDirAt_of hp

theorem os_pkey {m : MFS} {s : Side} {k : Key} (hg : OSGood bk kk m) (h : osView bk kk s m k ≠ none) : PKey k := by
  obtain ⟨n0, h0⟩ := osView_ne_none h
  exact (hg.pkey _ n0 h0).right

theorem os_no_link {m : MFS} {s : Side} {k : Key} {t : Path} {mt : Meta} (hg : OSGood bk kk m) :
    osView bk kk s m k ≠ some (.link t mt) := by
  intro h
  obtain ⟨n0, h0, he⟩ := osView_some h
  rw [eraseMt_link] at he
  subst he
  exact hg.nolink' s (List.prefix_append _ _) h0

theorem os_mode_lt {m : MFS} {s : Side} {k : Key} {n : Node} (hg : OSGood bk kk m)
    (h : osView bk kk s m k = some n) : n.meta.mode < 4096 := by
  obtain ⟨n0, h0, he⟩ := osView_some h
  rw [← he, eraseMt_mode]
  exact hg.mode _ n0 h0

theorem os_erased {m : MFS} {s : Side} {k : Key} {mt : Meta} (_hg : OSGood bk kk m)
    (h : osView bk kk s m k = some (.dir mt)) : mt.mtime = .fresh := by
  obtain ⟨n0, _, he⟩ := osView_some h
  obtain ⟨m0, _, e⟩ := eraseMt_dir he
  rw [e]

/-! ### name resolution below the roots -/

theorem live_not_link {m : MFS} {s : Side} {k : Key} {n0 : Node} (hg : OSGood bk kk m)
    (hn : m.get (osRoot bk kk s ++ k) = some n0) : n0.isLink = false := by
  cases n0 with
  | link t mt => exact absurd hn (hg.nolink' s (List.prefix_append _ _))
  | file c mt => rfl
  | dir mt => rfl

theorem namei_live {m : MFS} {s : Side} {k : Key} {n0 : Node} (hr : Roots bk kk) (hg : OSGood bk kk m) (hk : PKey k)
    (hn : m.get (osRoot bk kk s ++ k) = some n0) (f : Bool) :
    namei m (kp (osRoot bk kk s ++ k)) f = .found (osRoot bk kk s ++ k) n0 :=
  namei_found m f ((hr.pkey s).append hk) (TextOf.kp _) hn (live_not_link hg hn)
    (fun _ hp hne => hg.ancestor hn hp hne)

theorem namei_below {m : MFS} (s : Side) {k : Key} (hr : Roots bk kk) (hg : OSGood bk kk m) (hk : PKey k) (f : Bool) :
    NameiCase m (osRoot bk kk s ++ k) (namei m (kp (osRoot bk kk s ++ k)) f) :=
  namei_cases hg ((hr.pkey s).append hk) (hg.noLinkUpto s k) (TextOf.kp _) f

theorem namei_below_text {m : MFS} (s : Side) {k : Key} {t : Path} (hr : Roots bk kk) (hg : OSGood bk kk m)
    (hk : PKey k) (ht : TextOf t (osRoot bk kk s ++ k)) (f : Bool) :
    NameiCase m (osRoot bk kk s ++ k) (namei m t f) :=
  namei_cases hg ((hr.pkey s).append hk) (hg.noLinkUpto s k) ht f

theorem key_ne_of_none {m : MFS} {s : Side} {k : Key} (hg : OSGood bk kk m)
    (hn : m.get (osRoot bk kk s ++ k) = none) : k ≠ [] := by
  intro e
  obtain ⟨mt, h⟩ := hg.rdir s
  rw [e, List.append_nil, h] at hn
  cases hn

/-! ### `FileInfo` -/

theorem infoFor_infoOf (nm : Path) {n0 : Node} (hl : n0.isLink = false) : InfoFor (infoOf nm n0) (eraseMt n0) := by
  cases n0 with
  | link t mt => cases hl
  | file c mt => exact ⟨rfl, rfl, rfl, rfl, fun _ => rfl⟩
  | dir mt => exact ⟨rfl, rfl, rfl, rfl, fun h => by cases h⟩

theorem infoFor_rename {i : Info} {n : Node} (h : InfoFor i n) (nm : Path) : InfoFor { i with name := nm } n := h

/-! ### read-only calls never change the disk -/

theorem tr_shape_lstat {pre p : Path} {c' : Call} (h : PrefixFS.translate pre (.lstat p) = .ok c') :
    ∃ p', c' = .lstat p' := by
  simp only [PrefixFS.translate, bind, Except.bind, pure, Except.pure] at h
  split at h
  · cases h
  · cases h; exact ⟨_, rfl⟩

theorem tr_shape_stat {pre p : Path} {c' : Call} (h : PrefixFS.translate pre (.stat p) = .ok c') :
    ∃ p', c' = .stat p' := by
  simp only [PrefixFS.translate, bind, Except.bind, pure, Except.pure] at h
  split at h
  · cases h
  · cases h; exact ⟨_, rfl⟩

theorem tr_shape_readlink {pre p : Path} {c' : Call} (h : PrefixFS.translate pre (.readlink p) = .ok c') :
    ∃ p', c' = .readlink p' := by
  simp only [PrefixFS.translate, bind, Except.bind, pure, Except.pure] at h
  split at h
  · cases h
  · cases h; exact ⟨_, rfl⟩

theorem tr_shape_open {pre p : Path} {c' : Call} (h : PrefixFS.translate pre (.open_ p) = .ok c') :
    ∃ p', c' = .open_ p' := by
  simp only [PrefixFS.translate, bind, Except.bind, pure, Except.pure] at h
  split at h
  · cases h
  · cases h; exact ⟨_, rfl⟩

theorem tr_shape_openFile {pre p : Path} {fl pm : Nat} {c' : Call}
    (h : PrefixFS.translate pre (.openFile p fl pm) = .ok c') : ∃ p', c' = .openFile p' fl pm := by
  simp only [PrefixFS.translate, bind, Except.bind, pure, Except.pure] at h
  split at h
  · cases h
  · cases h; exact ⟨_, rfl⟩

/-- a call whose translated form leaves the state alone leaves it alone through the layer -/
theorem pure_of_shape {m m' : MFS} {s : Side} {c : Call} {r : Except Err Ret} (hr : Roots bk kk)
    (hsh : ∀ c', PrefixFS.translate (kp (osRoot bk kk s)) c = .ok c' → (osCall m c').1 = m)
    (h : ((osCfg bk kk).side s).call m c = (m', r)) : m' = m := by
  rcases side_call_cases hr s m c with ⟨e, he⟩ | ⟨c', htr, he⟩
  · rw [he] at h; cases h; rfl
  · rw [he] at h
    have := hsh c' htr
    cases h
    exact this

theorem os_pure_lstat {m m' : MFS} {s : Side} {p : Path} {r : Except Err Ret} (hr : Roots bk kk)
    (h : ((osCfg bk kk).side s).call m (.lstat p) = (m', r)) : m' = m := by
  apply pure_of_shape hr ?_ h
  intro c' htr
  obtain ⟨p', rfl⟩ := tr_shape_lstat htr
  rfl

theorem os_pure_stat {m m' : MFS} {s : Side} {p : Path} {r : Except Err Ret} (hr : Roots bk kk)
    (h : ((osCfg bk kk).side s).call m (.stat p) = (m', r)) : m' = m := by
  apply pure_of_shape hr ?_ h
  intro c' htr
  obtain ⟨p', rfl⟩ := tr_shape_stat htr
  rfl

theorem os_pure_readlink {m m' : MFS} {s : Side} {p : Path} {r : Except Err Ret} (hr : Roots bk kk)
    (h : ((osCfg bk kk).side s).call m (.readlink p) = (m', r)) : m' = m := by
  apply pure_of_shape hr ?_ h
  intro c' htr
  obtain ⟨p', rfl⟩ := tr_shape_readlink htr
  rfl

/-- opening without write access, creation or truncation leaves the disk alone -/
theorem openFile_ro_state (m : MFS) (p : Path) (perm : Nat) : (m.openFile p O_RDONLY perm).1 = m := by
  unfold MFS.openFile
  have h1 : hasFlag O_RDONLY O_CREATE = false := by decide
  have h2 : (accessMode O_RDONLY != 0) = false := by decide
  simp only [h1, h2, Bool.false_and, Bool.not_false, Bool.false_or, Bool.false_eq_true, if_false, if_true]
  cases namei m p true with
  | err e => rfl
  | missing a b => rfl
  | found k n => cases n <;> rfl

theorem os_pure_open {m m' : MFS} {s : Side} {p : Path} {r : Except Err Ret} (hr : Roots bk kk)
    (h : ((osCfg bk kk).side s).call m (.open_ p) = (m', r)) : m' = m := by
  apply pure_of_shape hr ?_ h
  intro c' htr
  obtain ⟨p', rfl⟩ := tr_shape_open htr
  exact openFile_ro_state m p' 0

theorem os_pure_openRO {m m' : MFS} {s : Side} {p : Path} {perm : Nat} {r : Except Err Ret} (hr : Roots bk kk)
    (h : ((osCfg bk kk).side s).call m (.openFile p O_RDONLY perm) = (m', r)) : m' = m := by
  apply pure_of_shape hr ?_ h
  intro c' htr
  obtain ⟨p', rfl⟩ := tr_shape_openFile htr
  exact openFile_ro_state m p' perm

end
end BFS
