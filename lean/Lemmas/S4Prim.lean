import Lemmas.S4Base
import Props.C06D
/-!
  Lemmas/S4Prim.lean — C04/S2 at the level of single primitives of the nested layering
  `nestedCfg bk hk`, raw disk:

  * `base_call_spares_loc`: ANY call with ANY name strings through the base side (the whole
    `HiddenFS.RemoveAll` program included) leaves every node at or below the location exactly as it
    is (from `Props.C06.hidden_subtree_untouched_linkfree`);
  * `base_handle_write_spares_loc`: a write through a handle the base side returned for `kp k`
    changes only the key `bk ++ k`, which is not at or below the location;
  * `listing_omits_loc`: a listing through the base side never contains a name leading to the
    location (in particular the location's own name in its parent directory);
  * `backup_call_confined`: the four mutating calls of `copyDir` on the backup side change nothing
    outside the location's subtree.
-/
namespace BFS.S4
open BackupFS N D HiddenFS

section
variable {bk hk dd : Key}

theorem osGood_bb {m : MFS} (hg : NGood bk hk dd m) : OSGood bk bk m :=
  ⟨hg.os.root, hg.os.pkey, hg.os.dom, hg.os.mode, hg.os.parent, hg.os.bdir, hg.os.bdir,
    fun k t mt h => hg.os.nolink k t mt (Or.inl (h.elim id id))⟩

/-- S2 (primitive level): no base-side call touches anything at or below the location -/
theorem base_call_spares_loc (h : NRoots bk hk dd) {m : MFS} (hg : NGood bk hk dd m) (c : Call) :
    ∀ j, hk <+: j → (((nestedCfg bk hk).side .base).call m c).1.get (bk ++ j) = m.get (bk ++ j) := by
  intro j hj
  exact Props.C06.hidden_subtree_untouched_linkfree bk [hk]
    (by intro x hx; simp at hx; subst hx; exact h.ph) m (osGood_bb hg) c j ⟨hk, by simp, hj⟩

/-- a handle of the base side for `kp k` refers to the visible key `bk ++ k`; writing through it —
on whatever disk — changes that key only -/
theorem base_handle_write_spares_loc {hd : Handle} {k : Key} (hH : NH bk hk .base hd k) (s : Side) (m2 : MFS)
    (off : Nat) (d : String) :
    ∀ j, hk <+: j → (((nestedCfg bk hk).side s).hwrite m2 hd off d).1.get (bk ++ j) = m2.get (bk ++ j) := by
  intro j hj
  rw [side_hwrite']
  apply hwrite_frame
  rw [hH.1]
  intro e
  have : j = k := by simpa [N.off] using List.append_cancel_left e
  exact hH.2 (this ▸ hj)

/-! ### listings -/

theorem hiddenFilter_vis (hs : List Path) (d : Path) : ∀ (l r : List Name), hiddenFilter hs d l = .ok r →
    ∀ n ∈ r, isHidden (join d n) hs = .ok false
  | [], r, h => by
    simp only [hiddenFilter] at h
    cases h
    intro n hn; cases hn
  | x :: xs, r, h => by
    unfold hiddenFilter at h
    split at h
    · cases h
    · rename_i hid hhid
      split at h
      · cases h
      · rename_i rest hrest
        cases h
        intro n hn
        have ih := hiddenFilter_vis hs d xs rest hrest
        cases hid with
        | true => exact ih n (by simpa using hn)
        | false =>
          rcases List.mem_cons.mp (by simpa using hn) with e | hn'
          · rw [e]; exact hhid
          · exact ih n hn'

/-- S2, listings: what `Readdirnames` returns through a base-side handle opened as `kp a` contains
no name `n` with `a ++ [n]` at or below the location -/
theorem listing_omits_loc (h : NRoots bk hk dd) {m : MFS} (hg : NGood bk hk dd m) {hd : Handle} {a : Key}
    (ha : PKey a) (hl : hd.lname = kp a) {ns : List Name}
    (he : ((nestedCfg bk hk).side .base).hreaddirnames m hd = .ok ns) :
    ∀ n ∈ ns, ¬ hk <+: a ++ [n] := by
  intro n hn hh
  have hpl := n_readdir_plain (s := .base) hg he n hn
  rw [base_hreaddirnames] at he
  cases hx : MFS.hreaddirnames m hd with
  | error e => rw [hx] at he; cases he
  | ok names =>
    rw [hx] at he
    have hv := hiddenFilter_vis _ _ _ _ he n hn
    rw [hl, join_kp ha hpl] at hv
    have hpk : PKey (a ++ [n]) := by
      intro x hx'
      rcases List.mem_append.mp hx' with h1 | h1
      · exact ha x h1
      · simp only [List.mem_singleton] at h1; subst h1; exact hpl
    rw [isHidden_hid h hpk hh] at hv
    cases hv

/-- in particular: the parent directory of the location does not show the location -/
theorem listing_of_parent_omits_loc (h : NRoots bk hk dd) {m : MFS} (hg : NGood bk hk dd m) {hd : Handle}
    (hl : hd.lname = kp hk.dropLast) {ns : List Name}
    (he : ((nestedCfg bk hk).side .base).hreaddirnames m hd = .ok ns) :
    hk.getLast h.nh ∉ ns := by
  intro hn
  apply listing_omits_loc h hg h.ph.dropLast hl he _ hn
  rw [List.dropLast_concat_getLast]
  exact List.prefix_rfl

/-! ### backup side: confined to the location's subtree -/

theorem backup_call_confined (h : NRoots bk hk dd) {m : MFS} (hg : NGood bk hk dd m) {a : Key} (ha : PKey a)
    (hne : a ≠ []) {c : Call}
    (hc : (∃ p, c = .mkdirAll (kp a) p) ∨ (∃ md, c = .chmod (kp a) md) ∨ (∃ u g, c = .chown (kp a) u g) ∨
      (∃ x t, c = .chtimes (kp a) x t)) :
    ∀ j, ¬ bk ++ hk <+: j → (((nestedCfg bk hk).side .backup).call m c).1.get j = m.get j := by
  intro j hj
  exact backup_frame h hg ha hne hc j (fun hb => hj hb.1)

end
end BFS.S4
