import Lemmas.HiddenLex
import Lemmas.Sim
/-!
  Lemmas/HiddenRA.lean — `HiddenFS.RemoveAll` (`hiddenRemoveAll`) over an abstract filesystem
  pair `S : Sim cfg` (inner filesystem `cfg.side .base`), part (A): safety.

  Whatever the result and whatever the fuel, the program changes the base view only at keys that
  are below the argument, not hidden, and not a directory leading to a hidden entry.
-/
namespace BFS
open HiddenFS

variable {cfg : Cfg}

/-- the keys `HiddenFS.RemoveAll (kp k)` may change: below `k`, not hidden, and not a directory
(in the original view `v0`) that leads to a hidden entry -/
def Touch (hks : List Key) (v0 : View) (k j : Key) : Prop :=
  k <+: j ∧ ¬ HidK hks j ∧ ¬ (ParK hks j ∧ v0.isDirAt j)

/-- `m'` is well-formed, its backup side is that of `m`, and its base view differs from that of
`m` only at keys satisfying `T` -/
structure Frame (S : Sim cfg) (T : Key → Prop) (m m' : MFS) : Prop where
  good : S.G m'
  other : S.view .backup m' = S.view .backup m
  same : ∀ j, ¬ T j → S.view .base m' j = S.view .base m j

theorem Frame.refl {S : Sim cfg} {T : Key → Prop} {m : MFS} (hg : S.G m) : Frame S T m m :=
  ⟨hg, rfl, fun _ _ => rfl⟩

theorem Frame.trans {S : Sim cfg} {T : Key → Prop} {a b c : MFS} (h1 : Frame S T a b) (h2 : Frame S T b c) :
    Frame S T a c :=
  ⟨h2.good, h2.other.trans h1.other, fun j hj => (h2.same j hj).trans (h1.same j hj)⟩

/-- one `Remove (kp j)` on the base side, `j` touchable -/
theorem Frame.remove {S : Sim cfg} {T : Key → Prop} {m0 m m1 : MFS} {j : Key} {r : Except Err Ret}
    (h : Frame S T m0 m) (hj : PKey j) (hne : j ≠ []) (ht : T j)
    (hc : (cfg.side .base).call m (.remove (kp j)) = (m1, r)) : Frame S T m0 m1 := by
  obtain ⟨hg1, ho1, hs1⟩ := S.remove_frame h.good hj hne hc
  refine h.trans ⟨hg1, ho1, ?_⟩
  intro j' hj'
  apply hs1
  intro e; subst e; exact hj' ht

/-! ### the two accesses of `Walk` -/

theorem infoFor_isDir {i : Info} {n : Node} (h : InfoFor i n) : i.isDir = n.isDir := by
  unfold Info.isDir
  rw [h.1]
  cases n <;> simp [Node.kind, Node.isDir]

/-- a successful `Lstat (kp j)` describes the node at `j` -/
theorem lstat_info (S : Sim cfg) {s : Side} {m m1 : MFS} {j : Key} {i : Info} (hg : S.G m) (hj : PKey j)
    (hc : (cfg.side s).call m (.lstat (kp j)) = (m1, .ok (.info i))) :
    ∃ n, S.view s m j = some n ∧ InfoFor i n := by
  cases hv : S.view s m j with
  | none =>
    obtain ⟨e, he, _⟩ := S.lstat_none hg hj hv
    rw [he] at hc; cases hc
  | some n =>
    obtain ⟨i', hi, hf⟩ := S.lstat_some hg hj hv
    rw [hi] at hc
    cases hc
    exact ⟨n, rfl, hf⟩

theorem fsiLstat_spec (S : Sim cfg) {m : MFS} {j : Key} (hg : S.G m) (hj : PKey j) :
    (fsiLstat (cfg.side .base) m (kp j)).1 = m ∧
      ∀ i, (fsiLstat (cfg.side .base) m (kp j)).2 = .ok i → ∃ n, S.view .base m j = some n ∧ InfoFor i n := by
  unfold fsiLstat
  cases hc : (cfg.side .base).call m (.lstat (kp j)) with
  | mk m1 r =>
    have hm : m1 = m := S.pure_lstat hc
    subst hm
    cases r with
    | error e => exact ⟨rfl, by intro i h; cases h⟩
    | ok ret =>
      cases ret with
      | info i => exact ⟨rfl, by intro i' h; cases h; exact lstat_info S hg hj hc⟩
      | unit => exact ⟨rfl, by intro i h; cases h⟩
      | str _ => exact ⟨rfl, by intro i h; cases h⟩
      | handle _ => exact ⟨rfl, by intro i h; cases h⟩

theorem fsiReadDirNames_spec (S : Sim cfg) {m : MFS} {j : Key} (hg : S.G m) (hj : PKey j) :
    (fsiReadDirNames (cfg.side .base) m (kp j)).1 = m ∧
      ∀ ns, (fsiReadDirNames (cfg.side .base) m (kp j)).2 = .ok ns → ∀ n ∈ ns, Plain n := by
  unfold fsiReadDirNames
  cases hc : (cfg.side .base).call m (.open_ (kp j)) with
  | mk m1 r =>
    have hm : m1 = m := S.pure_open hc
    subst hm
    cases r with
    | error e => exact ⟨rfl, by intro i h; cases h⟩
    | ok ret =>
      cases ret with
      | handle h =>
        simp only
        obtain ⟨hH, _⟩ := S.open_handle hg hj hc
        cases hr : (cfg.side .base).hreaddirnames m1 h with
        | error e => exact ⟨rfl, by intro i h; cases h⟩
        | ok names =>
          refine ⟨rfl, ?_⟩
          intro ns hns
          cases hns
          intro n hn
          exact S.readdir_plain hg hH hr n ((sortBy_perm strLt names).mem_iff.mp hn)
      | unit => exact ⟨rfl, by intro i h; cases h⟩
      | str _ => exact ⟨rfl, by intro i h; cases h⟩
      | info _ => exact ⟨rfl, by intro i h; cases h⟩

/-! ### the walk function -/

theorem translate_remove_visible {hs : List Path} {n : Path} (h : isHidden n hs = .ok false) :
    HiddenFS.translate hs (.remove n) = .ok (.remove n) := by
  simp only [HiddenFS.translate, hguard_of_visible _ h]
  rfl

theorem hiddenRemoveFn_err {σ} (hs : List Path) (inner : FSI σ) (s : σ) (a : List Path) (p : Path)
    (info : Option Info) (e : Err) : hiddenRemoveFn hs inner s a p info (some e) = ((s, a), some e) := rfl

/-- the collected directories: key paths below `k` that are not hidden -/
def DirsOK (hks : List Key) (k : Key) (a : List Path) : Prop :=
  ∀ p ∈ a, ∃ j, PKey j ∧ k <+: j ∧ ¬ HidK hks j ∧ p = kp j

/-- state of the walk -/
structure WSt (S : Sim cfg) (hks : List Key) (k : Key) (m0 m : MFS) (a : List Path) : Prop where
  frame : Frame S (Touch hks (S.view .base m0) k) m0 m
  dirs : DirsOK hks k a

theorem ne_nil_of_prefix {k j : Key} (hne : k ≠ []) (h : k <+: j) : j ≠ [] := by
  intro e; subst e; exact hne (List.prefix_nil.mp h)

section
variable {S : Sim cfg} {hs : List Path} {hks : List Key} {k : Key} {m0 : MFS}

/-- a non-hidden key below `k` whose current node is not a directory is touchable -/
theorem touch_of_nondir {m : MFS} {a : List Path} {j : Key} {n : Node} (h : WSt S hks k m0 m a)
    (hkj : k <+: j) (hh : ¬ HidK hks j) (hv : S.view .base m j = some n) (hn : n.isDir = false) :
    Touch hks (S.view .base m0) k j := by
  refine ⟨hkj, hh, ?_⟩
  intro ⟨hp, mt, hd⟩
  by_cases ht : Touch hks (S.view .base m0) k j
  · exact ht.2.2 ⟨hp, mt, hd⟩
  · have := h.frame.same j ht
    rw [hv, hd] at this
    cases this
    cases hn

theorem hiddenRemoveFn_safe (H : HidKeys hs hks) (hne : k ≠ []) {m : MFS} {a : List Path} {j : Key}
    {info : Option Info} {err : Option Err} (h : WSt S hks k m0 m a) (hj : PKey j) (hkj : k <+: j)
    (hinfo : ∀ i, info = some i → ∃ n, S.view .base m j = some n ∧ InfoFor i n) :
    WSt S hks k m0 (hiddenRemoveFn hs (cfg.side .base) m a (kp j) info err).1.1
      (hiddenRemoveFn hs (cfg.side .base) m a (kp j) info err).1.2 := by
  unfold hiddenRemoveFn
  cases err with
  | some e => exact h
  | none =>
    simp only [isHidden_kp H hj]
    by_cases hh : HidK hks j
    · simp only [hh, decide_true]; exact h
    · simp only [hh, decide_false]
      cases info with
      | none => exact h
      | some i =>
        simp only
        obtain ⟨n, hv, hf⟩ := hinfo i rfl
        cases hd : i.isDir with
        | true =>
          simp only [if_true]
          refine ⟨h.frame, ?_⟩
          intro p hp
          rcases List.mem_append.mp hp with hp | hp
          · exact h.dirs p hp
          · simp only [List.mem_singleton] at hp
            exact ⟨j, hj, hkj, hh, hp⟩
        | false =>
          simp only [Bool.false_eq_true, if_false]
          have hvis : isHidden (kp j) hs = .ok false := by rw [isHidden_kp H hj]; simp [hh]
          rw [translate_remove_visible hvis]
          simp only
          have ht : Touch hks (S.view .base m0) k j :=
            touch_of_nondir h hkj hh hv (by rw [← infoFor_isDir hf]; exact hd)
          cases hc : (cfg.side .base).call m (.remove (kp j)) with
          | mk m1 r =>
            have hfr := h.frame.remove hj (ne_nil_of_prefix hne hkj) ht hc
            cases r <;> exact ⟨hfr, h.dirs⟩

/-! ### the walk -/

def WalkRecSafe (S : Sim cfg) (hs : List Path) (hks : List Key) (k : Key) (m0 : MFS) (fuel : Nat) : Prop :=
  ∀ (m : MFS) (a : List Path) (j : Key) (info : Info), WSt S hks k m0 m a → PKey j → k <+: j →
    (∃ n, S.view .base m j = some n ∧ InfoFor info n) →
    WSt S hks k m0
      (walkRec (fsiWalkOps (cfg.side .base)) (hiddenRemoveFn hs (cfg.side .base)) fuel m a (kp j) info).1.1
      (walkRec (fsiWalkOps (cfg.side .base)) (hiddenRemoveFn hs (cfg.side .base)) fuel m a (kp j) info).1.2

def WalkNamesSafe (S : Sim cfg) (hs : List Path) (hks : List Key) (k : Key) (m0 : MFS) (fuel : Nat) : Prop :=
  ∀ (names : List Name) (m : MFS) (a : List Path) (j : Key), (∀ n ∈ names, Plain n) →
    WSt S hks k m0 m a → PKey j → k <+: j →
    WSt S hks k m0
      (walkNames (fsiWalkOps (cfg.side .base)) (hiddenRemoveFn hs (cfg.side .base)) fuel m a (kp j) names).1.1
      (walkNames (fsiWalkOps (cfg.side .base)) (hiddenRemoveFn hs (cfg.side .base)) fuel m a (kp j) names).1.2

theorem walkNamesSafe_of_rec {fuel : Nat}
    (hrec : WalkRecSafe S hs hks k m0 fuel) : WalkNamesSafe S hs hks k m0 fuel := by
  intro names
  induction names with
  | nil =>
    intro m a j _ h _ _
    rw [walkNames]
    exact h
  | cons n rest ih =>
    intro m a j hpl h hj hkj
    have hn : Plain n := hpl n (by simp)
    have hrest : ∀ x ∈ rest, Plain x := fun x hx => hpl x (List.mem_cons_of_mem _ hx)
    have hj' : PKey (j ++ [n]) := hj.snoc hn
    have hkj' : k <+: j ++ [n] := hkj.trans (List.prefix_append _ _)
    rw [walkNames]
    simp only [join_kp hj hn]
    have hl := fsiLstat_spec S (j := j ++ [n]) h.frame.good hj'
    cases hls : (fsiWalkOps (cfg.side .base)).lstat m (kp (j ++ [n])) with
    | mk m1 r1 =>
      rw [show fsiLstat (cfg.side .base) m (kp (j ++ [n])) = (m1, r1) from hls] at hl
      obtain ⟨hm, hi⟩ := hl
      simp only at hm hi
      subst hm
      cases r1 with
      | error e =>
        simp only [hiddenRemoveFn_err]
        exact h
      | ok fi =>
        simp only
        have hr := hrec m1 a (j ++ [n]) fi h hj' hkj' (hi fi rfl)
        cases hw : walkRec (fsiWalkOps (cfg.side .base)) (hiddenRemoveFn hs (cfg.side .base)) fuel m1 a (kp (j ++ [n])) fi with
        | mk sa oe =>
          rw [hw] at hr
          obtain ⟨s2, a2⟩ := sa
          cases oe with
          | some e' => exact hr
          | none => exact ih s2 a2 j hrest hr hj hkj

theorem walk_safe (H : HidKeys hs hks) (hne : k ≠ []) :
    ∀ fuel, WalkRecSafe S hs hks k m0 fuel ∧ WalkNamesSafe S hs hks k m0 fuel
  | 0 => by
    have hrec : WalkRecSafe S hs hks k m0 0 := by
      intro m a j info h _ _ _
      rw [walkRec]
      exact h
    exact ⟨hrec, walkNamesSafe_of_rec hrec⟩
  | fuel + 1 => by
    have ih := (walk_safe H hne fuel).2
    have hrec : WalkRecSafe S hs hks k m0 (fuel + 1) := by
      intro m a j info h hj hkj hinfo
      rw [walkRec]
      have hfn := hiddenRemoveFn_safe (info := some info) (err := none) H hne h hj hkj
        (by intro i hi; cases hi; exact hinfo)
      cases hf : hiddenRemoveFn hs (cfg.side .base) m a (kp j) (some info) none with
      | mk sa oe =>
        rw [hf] at hfn
        obtain ⟨s1, a1⟩ := sa
        cases oe with
        | some e => exact hfn
        | none =>
          simp only
          split
          · exact hfn
          · have hrd := fsiReadDirNames_spec S (j := j) hfn.frame.good hj
            cases hr : (fsiWalkOps (cfg.side .base)).readDirNames s1 (kp j) with
            | mk s2 r2 =>
              rw [show fsiReadDirNames (cfg.side .base) s1 (kp j) = (s2, r2) from hr] at hrd
              obtain ⟨hm, hpl⟩ := hrd
              simp only at hm hpl
              subst hm
              cases r2 with
              | error e => simp only [hiddenRemoveFn_err]; exact hfn
              | ok names => exact ih names s2 a1 j (hpl names rfl) hfn hj hkj
    exact ⟨hrec, walkNamesSafe_of_rec hrec⟩

theorem walkTree_safe (H : HidKeys hs hks) (hne : k ≠ []) {m : MFS} (fuel : Nat)
    (h : WSt S hks k m0 m []) (hk : PKey k) :
    WSt S hks k m0
      (walkTree (fsiWalkOps (cfg.side .base)) (hiddenRemoveFn hs (cfg.side .base)) fuel m [] (kp k)).1.1
      (walkTree (fsiWalkOps (cfg.side .base)) (hiddenRemoveFn hs (cfg.side .base)) fuel m [] (kp k)).1.2 := by
  unfold walkTree
  have hl := fsiLstat_spec S (j := k) h.frame.good hk
  cases hls : (fsiWalkOps (cfg.side .base)).lstat m (kp k) with
  | mk m1 r1 =>
    rw [show fsiLstat (cfg.side .base) m (kp k) = (m1, r1) from hls] at hl
    obtain ⟨hm, hi⟩ := hl
    simp only at hm hi
    subst hm
    cases r1 with
    | error e => simp only [hiddenRemoveFn_err]; exact h
    | ok info => exact (walk_safe H hne fuel).1 m1 [] k info h hk (List.prefix_refl _) (hi info rfl)

/-! ### removing the collected directories -/

theorem hiddenRemoveDirs_safe (H : HidKeys hs hks) (hne : k ≠ []) :
    ∀ (ds : List Path) (m : MFS), Frame S (Touch hks (S.view .base m0) k) m0 m → DirsOK hks k ds →
      Frame S (Touch hks (S.view .base m0) k) m0 (hiddenRemoveDirs hs (cfg.side .base) m ds).1
  | [], m, h, _ => by
    rw [hiddenRemoveDirs]
    exact h
  | d :: ds, m, h, hd => by
    obtain ⟨j, hj, hkj, hh, rfl⟩ := hd d (by simp)
    have hds : DirsOK hks k ds := fun p hp => hd p (List.mem_cons_of_mem _ hp)
    rw [hiddenRemoveDirs]
    simp only [isParentOfHidden_kp H hj]
    by_cases hp : ParK hks j
    · simp only [hp, decide_true]
      exact hiddenRemoveDirs_safe H hne ds m h hds
    · simp only [hp, decide_false]
      have ht : Touch hks (S.view .base m0) k j := ⟨hkj, hh, fun hc => hp hc.1⟩
      cases hc : (cfg.side .base).call m (.remove (kp j)) with
      | mk m1 r =>
        have hfr := h.remove hj (ne_nil_of_prefix hne hkj) ht hc
        cases r with
        | error e => exact hfr
        | ok _ => exact hiddenRemoveDirs_safe H hne ds m1 hfr hds

theorem dirsOK_sortMost {a : List Path} (h : DirsOK hks k a) : DirsOK hks k (sortMost a) :=
  fun p hp => h p ((sortBy_perm _ a).mem_iff.mp hp)

/-! ### `HiddenFS.RemoveAll` -/

theorem hiddenRemoveAll_hidden (H : HidKeys hs hks) {m : MFS} (hk : PKey k) (fuel : Nat)
    (hh : HidK hks k) :
    hiddenRemoveAll hs (cfg.side .base) fuel m (kp k) = (m, .error .hiddenNotExist) := by
  unfold hiddenRemoveAll
  have : isHidden (kp k) hs = .ok true := by rw [isHidden_kp H hk]; simp [hh]
  rw [hguard_of_hidden _ this]

theorem hiddenRemoveAll_frame (H : HidKeys hs hks) {m : MFS} (hk : PKey k) (hne : k ≠ []) (hg : S.G m)
    (fuel : Nat) :
    Frame S (Touch hks (S.view .base m) k) m (hiddenRemoveAll hs (cfg.side .base) fuel m (kp k)).1 := by
  unfold hiddenRemoveAll
  have h0 : WSt S hks k m m [] := ⟨Frame.refl hg, by intro p hp; cases hp⟩
  by_cases hh : HidK hks k
  · have : isHidden (kp k) hs = .ok true := by rw [isHidden_kp H hk]; simp [hh]
    rw [hguard_of_hidden _ this]
    exact h0.frame
  · have hvis : isHidden (kp k) hs = .ok false := by rw [isHidden_kp H hk]; simp [hh]
    rw [hguard_of_visible _ hvis]
    simp only
    cases hc : (cfg.side .base).call m (.lstat (kp k)) with
    | mk m1 r =>
      have hm : m1 = m := S.pure_lstat hc
      subst hm
      cases r with
      | error e => simp only; split <;> exact h0.frame
      | ok ret =>
        cases ret with
        | unit => exact h0.frame
        | str _ => exact h0.frame
        | handle _ => exact h0.frame
        | info fi =>
          simp only
          obtain ⟨n, hv, hf⟩ := lstat_info S hg hk hc
          cases hd : fi.isDir with
          | false =>
            simp only [Bool.not_false, if_true]
            have ht : Touch hks (S.view .base m1) k k :=
              touch_of_nondir h0 (List.prefix_refl _) hh hv (by rw [← infoFor_isDir hf]; exact hd)
            cases hc2 : (cfg.side .base).call m1 (.remove (kp k)) with
            | mk m2 r2 =>
              have hfr := h0.frame.remove hk hne ht hc2
              cases r2 <;> exact hfr
          | true =>
            simp only [Bool.not_true, Bool.false_eq_true, if_false]
            have hw := walkTree_safe H hne fuel h0 hk
            cases hx : walkTree (fsiWalkOps (cfg.side .base)) (hiddenRemoveFn hs (cfg.side .base)) fuel m1 [] (kp k) with
            | mk sa oe =>
              rw [hx] at hw
              obtain ⟨s2, a2⟩ := sa
              cases oe with
              | some e => exact hw.frame
              | none => exact hiddenRemoveDirs_safe H hne (sortMost a2) s2 hw.frame (dirsOK_sortMost hw.dirs)

/-- (A) safety of `HiddenFS.RemoveAll`, whatever it returns and whatever the fuel: the result is a
well-formed disk, the other filesystem is untouched, nothing outside the subtree is touched,
hidden entries and everything below them are untouched, and so is every directory leading to a
hidden entry; on a hidden argument nothing happens at all. -/
theorem hiddenRemoveAll_safe (S : Sim cfg) {hs : List Path} {hks : List Key} (H : HidKeys hs hks)
    {k : Key} (hk : PKey k) (hne : k ≠ []) {m : MFS} (hg : S.G m) (fuel : Nat) :
    S.G (hiddenRemoveAll hs (cfg.side .base) fuel m (kp k)).1 ∧
    S.view .backup (hiddenRemoveAll hs (cfg.side .base) fuel m (kp k)).1 = S.view .backup m ∧
    (∀ j, ¬ k <+: j →
      S.view .base (hiddenRemoveAll hs (cfg.side .base) fuel m (kp k)).1 j = S.view .base m j) ∧
    (∀ j, HidK hks j →
      S.view .base (hiddenRemoveAll hs (cfg.side .base) fuel m (kp k)).1 j = S.view .base m j) ∧
    (∀ j, ParK hks j → (S.view .base m).isDirAt j →
      S.view .base (hiddenRemoveAll hs (cfg.side .base) fuel m (kp k)).1 j = S.view .base m j) ∧
    (HidK hks k → hiddenRemoveAll hs (cfg.side .base) fuel m (kp k) = (m, .error .hiddenNotExist)) := by
  have hf := hiddenRemoveAll_frame (S := S) H hk hne hg fuel
  refine ⟨hf.good, hf.other, ?_, ?_, ?_, hiddenRemoveAll_hidden H hk fuel⟩
  · intro j hj; exact hf.same j (fun ht => hj ht.1)
  · intro j hj; exact hf.same j (fun ht => ht.2.1 hj)
  · intro j hp hd; exact hf.same j (fun ht => ht.2.2 ⟨hp, hd⟩)

end

end BFS
