import Lemmas.SimOSBase
/-!
  Lemmas/SimOSGood.lean — `OSGood` is preserved by the elementary state updates of the OS model:
  replacing a node by one of the same kind, creating a non-link under a live directory, removing
  a childless node, removing a subtree, moving a subtree, stamping a directory.
-/
namespace BFS
open MFS

theorem set_get (m : MFS) (K : Key) (v : Option Node) (k : Key) :
    (m.set K v).get k = if k = K then v else m.get k := rfl

theorem set_get_self (m : MFS) (K : Key) (v : Option Node) : (m.set K v).get K = v := by
  simp [set_get]

theorem set_get_ne (m : MFS) {K k : Key} (v : Option Node) (h : k ≠ K) : (m.set K v).get k = m.get k := by
  simp [set_get, h]

theorem mem_set_dom_self (m : MFS) (K : Key) (v : Option Node) : K ∈ (m.set K v).dom := by
  unfold MFS.set
  simp only
  split
  · assumption
  · simp

theorem mem_set_dom_of_mem (m : MFS) (K : Key) (v : Option Node) {k : Key} (h : k ∈ m.dom) :
    k ∈ (m.set K v).dom := by
  unfold MFS.set
  simp only
  split
  · exact h
  · exact List.mem_cons_of_mem _ h

theorem set_get_some {m : MFS} {K k : Key} {v : Option Node} {n : Node} (h : (m.set K v).get k = some n) :
    (k = K ∧ v = some n) ∨ (k ≠ K ∧ m.get k = some n) := by
  by_cases hk : k = K
  · left; rw [set_get, if_pos hk] at h; exact ⟨hk, h⟩
  · right; rw [set_get_ne m v hk] at h; exact ⟨hk, h⟩

/-! ### replacing a node by one of the same kind -/

theorem good_set_repl {bk kk : Key} {m : MFS} (hg : OSGood bk kk m) {K : Key} {a b : Node}
    (ha : m.get K = some a) (hd : b.isDir = a.isDir) (hl : b.isLink = a.isLink) (hm : b.meta.mode < 4096) :
    OSGood bk kk (m.set K (some b)) := by
  have hdir : ∀ p, (∃ mt, m.get p = some (.dir mt)) → ∃ mt, (m.set K (some b)).get p = some (.dir mt) := by
    intro p ⟨mt, hp⟩
    by_cases hpk : p = K
    · subst hpk
      rw [ha] at hp
      cases hp
      obtain ⟨mt', rfl⟩ := isDir_true (n := b) (by rw [hd]; rfl)
      exact ⟨mt', set_get_self _ _ _⟩
    · exact ⟨mt, by rw [set_get_ne m _ hpk]; exact hp⟩
  refine ⟨hdir _ hg.root, ?_, ?_, ?_, ?_, hdir _ hg.bdir, hdir _ hg.kdir, ?_⟩
  · intro k n h
    rcases set_get_some h with ⟨rfl, _⟩ | ⟨_, h'⟩
    · exact hg.pkey _ a ha
    · exact hg.pkey k n h'
  · intro k n h
    rcases set_get_some h with ⟨rfl, _⟩ | ⟨_, h'⟩
    · exact mem_set_dom_self _ _ _
    · exact mem_set_dom_of_mem _ _ _ (hg.dom k n h')
  · intro k n h
    rcases set_get_some h with ⟨_, e⟩ | ⟨_, h'⟩
    · cases e; exact hm
    · exact hg.mode k n h'
  · intro k n h hne
    rcases set_get_some h with ⟨rfl, _⟩ | ⟨_, h'⟩
    · exact hdir _ (hg.parent _ a ha hne)
    · exact hdir _ (hg.parent k n h' hne)
  · intro k t mt hpre h
    rcases set_get_some h with ⟨rfl, e⟩ | ⟨_, h'⟩
    · cases e
      cases a with
      | link t' mt' => exact hg.nolink _ t' mt' hpre ha
      | file c mt' => cases hl
      | dir mt' => cases hl
    · exact hg.nolink k t mt hpre h'

/-! ### stamping a directory -/

theorem touchDir_cases (m : MFS) (k : Key) :
    (∃ mt, m.get k = some (.dir mt) ∧ m.touchDir k = m.set k (some (.dir { mt with mtime := .fresh }))) ∨
      m.touchDir k = m := by
  unfold touchDir
  cases h : m.get k with
  | none => right; rfl
  | some n =>
    cases n with
    | dir mt => left; exact ⟨mt, rfl, rfl⟩
    | file c mt => right; rfl
    | link t mt => right; rfl

theorem good_touchDir {bk kk : Key} {m : MFS} (hg : OSGood bk kk m) (k : Key) : OSGood bk kk (m.touchDir k) := by
  rcases touchDir_cases m k with ⟨mt, hk, e⟩ | e
  · rw [e]
    exact good_set_repl hg hk rfl rfl (hg.mode k (.dir mt) hk)
  · rw [e]; exact hg

theorem touchDir_get_ne (m : MFS) {k k' : Key} (h : k' ≠ k) : (m.touchDir k).get k' = m.get k' := by
  rcases touchDir_cases m k with ⟨mt, _, e⟩ | e
  · rw [e, set_get_ne m _ h]
  · rw [e]

/-- stamping is invisible up to directory timestamps -/
theorem touchDir_erase (m : MFS) (k k' : Key) :
    ((m.touchDir k).get k').map eraseMt = (m.get k').map eraseMt := by
  rcases touchDir_cases m k with ⟨mt, hk, e⟩ | e
  · rw [e]
    by_cases h : k' = k
    · subst h
      rw [set_get_self, hk]
      rfl
    · rw [set_get_ne m _ h]
  · rw [e]

theorem touchDir_none (m : MFS) (k k' : Key) : (m.touchDir k).get k' = none ↔ m.get k' = none := by
  have := touchDir_erase m k k'
  cases h1 : (m.touchDir k).get k' <;> cases h2 : m.get k' <;> simp [h1, h2] at this ⊢

theorem touchDir_dir (m : MFS) (k k' : Key) :
    (∃ mt, (m.touchDir k).get k' = some (.dir mt)) ↔ ∃ mt, m.get k' = some (.dir mt) := by
  rcases touchDir_cases m k with ⟨mt, hk, e⟩ | e
  · rw [e]
    by_cases h : k' = k
    · subst h
      rw [set_get_self, hk]
      exact ⟨fun _ => ⟨_, rfl⟩, fun _ => ⟨_, rfl⟩⟩
    · rw [set_get_ne m _ h]
  · rw [e]

/-! ### creating a node -/

theorem good_set_new {bk kk : Key} {m : MFS} (hg : OSGood bk kk m) {P : Key} {c : Name} {mt : Meta} {n' : Node}
    (hP : m.get P = some (.dir mt)) (hc : Plain c) (hnone : m.get (P ++ [c]) = none)
    (hl : n'.isLink = false) (hm : n'.meta.mode < 4096) :
    OSGood bk kk (m.set (P ++ [c]) (some n')) := by
  have hdir : ∀ p, (∃ mt, m.get p = some (.dir mt)) → ∃ mt, (m.set (P ++ [c]) (some n')).get p = some (.dir mt) := by
    intro p ⟨mt', hp⟩
    have hpk : p ≠ P ++ [c] := by
      intro e; rw [e, hnone] at hp; cases hp
    exact ⟨mt', by rw [set_get_ne m _ hpk]; exact hp⟩
  refine ⟨hdir _ hg.root, ?_, ?_, ?_, ?_, hdir _ hg.bdir, hdir _ hg.kdir, ?_⟩
  · intro k n h
    rcases set_get_some h with ⟨rfl, _⟩ | ⟨_, h'⟩
    · exact (hg.pkey P _ hP).append (PKey.single hc)
    · exact hg.pkey k n h'
  · intro k n h
    rcases set_get_some h with ⟨rfl, _⟩ | ⟨_, h'⟩
    · exact mem_set_dom_self _ _ _
    · exact mem_set_dom_of_mem _ _ _ (hg.dom k n h')
  · intro k n h
    rcases set_get_some h with ⟨_, e⟩ | ⟨_, h'⟩
    · cases e; exact hm
    · exact hg.mode k n h'
  · intro k n h hne
    rcases set_get_some h with ⟨rfl, _⟩ | ⟨_, h'⟩
    · rw [List.dropLast_concat]
      exact hdir _ ⟨mt, hP⟩
    · exact hdir _ (hg.parent k n h' hne)
  · intro k t mt' hpre h
    rcases set_get_some h with ⟨_, e⟩ | ⟨_, h'⟩
    · cases e; cases hl
    · exact hg.nolink k t mt' hpre h'

/-! ### removing a childless node -/

theorem good_set_none {bk kk : Key} {m : MFS} (hg : OSGood bk kk m) {K : Key}
    (hch : ∀ c, m.get (K ++ [c]) = none) (hb : K ≠ bk) (hk : K ≠ kk) (hne : K ≠ []) :
    OSGood bk kk (m.set K none) := by
  have hdir : ∀ p, p ≠ K → (∃ mt, m.get p = some (.dir mt)) → ∃ mt, (m.set K none).get p = some (.dir mt) := by
    intro p hpk ⟨mt', hp⟩
    exact ⟨mt', by rw [set_get_ne m _ hpk]; exact hp⟩
  refine ⟨hdir _ (Ne.symm hne) hg.root, ?_, ?_, ?_, ?_, hdir _ (Ne.symm hb) hg.bdir, hdir _ (Ne.symm hk) hg.kdir, ?_⟩
  · intro k n h
    rcases set_get_some h with ⟨_, e⟩ | ⟨_, h'⟩
    · cases e
    · exact hg.pkey k n h'
  · intro k n h
    rcases set_get_some h with ⟨_, e⟩ | ⟨_, h'⟩
    · cases e
    · exact mem_set_dom_of_mem _ _ _ (hg.dom k n h')
  · intro k n h
    rcases set_get_some h with ⟨_, e⟩ | ⟨_, h'⟩
    · cases e
    · exact hg.mode k n h'
  · intro k n h hkne
    rcases set_get_some h with ⟨_, e⟩ | ⟨_, h'⟩
    · cases e
    · apply hdir _ ?_ (hg.parent k n h' hkne)
      intro e
      have := hch (k.getLast hkne)
      rw [← e, dropLast_append_getLast' hkne, h'] at this
      cases this
  · intro k t mt' hpre h
    rcases set_get_some h with ⟨_, e⟩ | ⟨_, h'⟩
    · cases e
    · exact hg.nolink k t mt' hpre h'

/-! ### removing a subtree -/

theorem removeSubtree_get (m : MFS) (K k : Key) :
    (m.removeSubtree K).get k = if K.isPrefixOf k then none else m.get k := rfl

theorem removeSubtree_get_under (m : MFS) {K k : Key} (h : K <+: k) : (m.removeSubtree K).get k = none := by
  rw [removeSubtree_get, if_pos (List.isPrefixOf_iff_prefix.mpr h)]

theorem removeSubtree_get_other (m : MFS) {K k : Key} (h : ¬ K <+: k) : (m.removeSubtree K).get k = m.get k := by
  rw [removeSubtree_get, if_neg (fun e => h (List.isPrefixOf_iff_prefix.mp e))]

theorem removeSubtree_get_some {m : MFS} {K k : Key} {n : Node} (h : (m.removeSubtree K).get k = some n) :
    ¬ K <+: k ∧ m.get k = some n := by
  by_cases hp : K <+: k
  · rw [removeSubtree_get_under m hp] at h; cases h
  · rw [removeSubtree_get_other m hp] at h; exact ⟨hp, h⟩

theorem good_removeSubtree {bk kk : Key} {m : MFS} (hg : OSGood bk kk m) {K : Key}
    (hb : ¬ K <+: bk) (hk : ¬ K <+: kk) : OSGood bk kk (m.removeSubtree K) := by
  have hdir : ∀ p, ¬ K <+: p → (∃ mt, m.get p = some (.dir mt)) → ∃ mt, (m.removeSubtree K).get p = some (.dir mt) := by
    intro p hpk ⟨mt', hp⟩
    exact ⟨mt', by rw [removeSubtree_get_other m hpk]; exact hp⟩
  have hroot : ¬ K <+: [] := by
    intro e
    rw [List.prefix_nil] at e
    apply hb
    rw [e]
    exact List.nil_prefix
  refine ⟨hdir _ hroot hg.root, ?_, ?_, ?_, ?_, hdir _ hb hg.bdir, hdir _ hk hg.kdir, ?_⟩
  · intro k n h
    exact hg.pkey k n (removeSubtree_get_some h).2
  · intro k n h
    exact hg.dom k n (removeSubtree_get_some h).2
  · intro k n h
    exact hg.mode k n (removeSubtree_get_some h).2
  · intro k n h hkne
    obtain ⟨hp, h'⟩ := removeSubtree_get_some h
    apply hdir _ ?_ (hg.parent k n h' hkne)
    intro e
    exact hp (List.IsPrefix.trans e (dropLast_prefix k))
  · intro k t mt' hpre h
    exact hg.nolink k t mt' hpre (removeSubtree_get_some h).2

/-! ### moving a subtree -/

theorem moveSubtree_get (m : MFS) (Ko Kn k : Key) :
    (m.moveSubtree Ko Kn).get k =
      if Kn.isPrefixOf k then m.get (Ko ++ k.drop Kn.length)
      else if Ko.isPrefixOf k then none
      else m.get k := rfl

theorem moveSubtree_get_under (m : MFS) (Ko Kn x : Key) :
    (m.moveSubtree Ko Kn).get (Kn ++ x) = m.get (Ko ++ x) := by
  rw [moveSubtree_get, if_pos (List.isPrefixOf_iff_prefix.mpr (List.prefix_append _ _)), List.drop_left]

theorem moveSubtree_get_old (m : MFS) {Ko Kn k : Key} (h1 : ¬ Kn <+: k) (h2 : Ko <+: k) :
    (m.moveSubtree Ko Kn).get k = none := by
  rw [moveSubtree_get, if_neg (fun e => h1 (List.isPrefixOf_iff_prefix.mp e)),
    if_pos (List.isPrefixOf_iff_prefix.mpr h2)]

theorem moveSubtree_get_other (m : MFS) {Ko Kn k : Key} (h1 : ¬ Kn <+: k) (h2 : ¬ Ko <+: k) :
    (m.moveSubtree Ko Kn).get k = m.get k := by
  rw [moveSubtree_get, if_neg (fun e => h1 (List.isPrefixOf_iff_prefix.mp e)),
    if_neg (fun e => h2 (List.isPrefixOf_iff_prefix.mp e))]

theorem moveSubtree_get_some {m : MFS} {Ko Kn k : Key} {n : Node} (h : (m.moveSubtree Ko Kn).get k = some n) :
    (∃ x, k = Kn ++ x ∧ m.get (Ko ++ x) = some n) ∨ (¬ Kn <+: k ∧ ¬ Ko <+: k ∧ m.get k = some n) := by
  by_cases h1 : Kn <+: k
  · obtain ⟨x, rfl⟩ := h1
    rw [moveSubtree_get_under] at h
    exact Or.inl ⟨x, rfl, h⟩
  · by_cases h2 : Ko <+: k
    · rw [moveSubtree_get_old m h1 h2] at h; cases h
    · rw [moveSubtree_get_other m h1 h2] at h
      exact Or.inr ⟨h1, h2, h⟩

theorem good_moveSubtree {bk kk : Key} {m : MFS} (hg : OSGood bk kk m) {Ko Kn : Key}
    (hKn : PKey Kn) (hnne : Kn ≠ []) (hpar : ∃ mt, m.get Kn.dropLast = some (.dir mt))
    (h1 : ¬ Ko <+: Kn) (hb1 : ¬ Ko <+: bk) (hk1 : ¬ Ko <+: kk) (hb2 : ¬ Kn <+: bk) (hk2 : ¬ Kn <+: kk)
    (hsrc : bk <+: Ko ∨ kk <+: Ko) : OSGood bk kk (m.moveSubtree Ko Kn) := by
  have hdir : ∀ p, ¬ Kn <+: p → ¬ Ko <+: p → (∃ mt, m.get p = some (.dir mt)) →
      ∃ mt, (m.moveSubtree Ko Kn).get p = some (.dir mt) := by
    intro p hp1 hp2 ⟨mt', hp⟩
    exact ⟨mt', by rw [moveSubtree_get_other m hp1 hp2]; exact hp⟩
  have hnil : ∀ K : Key, ¬ K <+: bk → ¬ K <+: [] := by
    intro K hK e
    rw [List.prefix_nil] at e
    apply hK
    rw [e]
    exact List.nil_prefix
  refine ⟨hdir _ (hnil _ hb2) (hnil _ hb1) hg.root, ?_, ?_, ?_, ?_, hdir _ hb2 hb1 hg.bdir, hdir _ hk2 hk1 hg.kdir, ?_⟩
  · intro k n h
    rcases moveSubtree_get_some h with ⟨x, rfl, h'⟩ | ⟨_, _, h'⟩
    · exact hKn.append (hg.pkey _ n h').right
    · exact hg.pkey k n h'
  · intro k n h
    show k ∈ m.dom ++ _
    rcases moveSubtree_get_some h with ⟨x, rfl, h'⟩ | ⟨_, _, h'⟩
    · apply List.mem_append_right
      apply List.mem_map.mpr
      refine ⟨Ko ++ x, ?_, by rw [List.drop_left]⟩
      apply List.mem_filter.mpr
      exact ⟨hg.dom _ n h', List.isPrefixOf_iff_prefix.mpr (List.prefix_append _ _)⟩
    · exact List.mem_append_left _ (hg.dom k n h')
  · intro k n h
    rcases moveSubtree_get_some h with ⟨x, rfl, h'⟩ | ⟨_, _, h'⟩
    · exact hg.mode _ n h'
    · exact hg.mode k n h'
  · intro k n h hkne
    rcases moveSubtree_get_some h with ⟨x, rfl, h'⟩ | ⟨hk1', hk2', h'⟩
    · by_cases hx : x = []
      · subst hx
        rw [List.append_nil]
        apply hdir _ ?_ ?_ hpar
        · intro e
          have h3 := e.length_le
          have h4 : Kn.dropLast.length = Kn.length - 1 := List.length_dropLast
          have h5 : 0 < Kn.length := List.length_pos_iff.mpr hnne
          omega
        · intro e
          exact h1 (List.IsPrefix.trans e (dropLast_prefix Kn))
      · rw [append_dropLast hx, moveSubtree_get_under]
        have := hg.parent _ n h' (by simp [hx])
        rw [append_dropLast hx] at this
        exact this
    · apply hdir _ ?_ ?_ (hg.parent k n h' hkne)
      · intro e; exact hk1' (List.IsPrefix.trans e (dropLast_prefix k))
      · intro e; exact hk2' (List.IsPrefix.trans e (dropLast_prefix k))
  · intro k t mt' hpre h
    rcases moveSubtree_get_some h with ⟨x, rfl, h'⟩ | ⟨_, _, h'⟩
    · refine hg.nolink (Ko ++ x) t mt' ?_ h'
      rcases hsrc with hs | hs
      · exact Or.inl (List.IsPrefix.trans hs (List.prefix_append _ _))
      · exact Or.inr (List.IsPrefix.trans hs (List.prefix_append _ _))
    · exact hg.nolink k t mt' hpre h'

end BFS
