import Lemmas.TNFail
import Lemmas.TNOpsB
import Lemmas.TOps4
/-!
  Lemmas/TNOps.lean — transparency of one operation in the nested (README) layering
  (`Lemmas/TOps.lean`, `TOps2.lean` for `nestedCfg`): the operation through BackupFS (`Op.exec`) and the
  same operation issued directly on the base filesystem the user sees (`Op.direct` on
  `nbase bk hk` = `HiddenFS [loc]` over `PrefixFS (kp bk)` over the OS) agree in result and leave
  disks that agree at every visible key (`NTransp`).  Single-path mutators without and with a handle.
-/
namespace BFS.N
open BackupFS MFS

section
variable {bk hk dd : Key}

/-- the data an operation returns, with the HiddenFS-internal `lname` of a handle erased
(`hiddenFile` remembers the name it was opened with — the caller's spelling when called directly,
the cleaned name when called by BackupFS; it is used by the listing filter only) -/
def DOut.noL : DOut → DOut
  | .written hd o => .written { hd with lname := [] } o
  | d => d

/-- the result through BackupFS agrees with the direct result: same data on success (up to `lname`);
on failure the same error class, except that BackupFS reports `errDirInfoExpected` (class
`typeMismatch`) where the direct call reports ENOTDIR (for `Rename`: ENOTDIR or the ENOENT of the
other name) — and that only when `P` holds (`P`: a regular file is a proper ancestor of a name of the
operation) -/
def ResAgreeN (P : Prop) (rx : Except Err OpOut) (rd : Except Err DOut) : Prop :=
  match rx, rd with
  | .ok a, .ok b => DOut.noL a.data = DOut.noL b
  | .error e1, .error e2 => e1 = e2 ∨ (e1 = .typeMismatch ∧ e2.isNotFound = true ∧ P)
  | _, _ => False

/-- transparency of one step in the nested layering -/
structure NTransp (bk hk dd : Key) (P : Prop) (w' : World) (r : Except Err OpOut) (d : MFS × Except Err DOut) : Prop where
  res : ResAgreeN P r d.2
  twin : NTwin bk hk dd w'.fs d.1

theorem map_const_of_noL {α} {x y : Except Err Ret} (u : α) (h : x.map Ret.noL = y.map Ret.noL) :
    x.map (fun _ => u) = y.map (fun _ => u) := by
  cases x <;> cases y <;> simp_all [Except.map]

theorem ResAgreeN.mono {P Q : Prop} {rx : Except Err OpOut} {rd : Except Err DOut} (h : ResAgreeN P rx rd)
    (hpq : P → Q) : ResAgreeN Q rx rd := by
  cases rx <;> cases rd
  · exact h.imp id (fun ⟨a, b, c⟩ => ⟨a, b, hpq c⟩)
  · exact h
  · exact h
  · exact h

theorem NTransp.mono {P Q : Prop} {w' : World} {r : Except Err OpOut} {d : MFS × Except Err DOut}
    (h : NTransp bk hk dd P w' r d) (hpq : P → Q) : NTransp bk hk dd Q w' r d := ⟨h.res.mono hpq, h.twin⟩

theorem resAgreeN_unit (P : Prop) (r : Except Err Ret) :
    ResAgreeN P (r.map (fun _ => OpOut.unit)) (r.map (fun _ => DOut.unit)) := by
  cases r with
  | ok a => rfl
  | error e => exact Or.inl rfl

/-! ### single-path mutators without a handle -/

theorem single_transpN (h : NRoots bk hk dd) {v0 : View} {r0 : Option Node} {w : World} {name : Path} {k : Key}
    {c : Path → Call} (hinv : InvB (nSim bk hk dd h) v0 r0 w) (hk' : PKey k) (hname : clean name = kp k)
    (hspell : ∀ m, SpellEq ((nbase bk hk).call m (c name)) ((nbase bk hk).call m (c (kp k))))
    (hrel : ∀ m1 m2, NTwin bk hk dd m1 m2 → NCallRel bk hk dd m1 m2 (c (kp k)))
    (hfail : ∀ m, NGood bk hk dd m → FileAnc (nview bk hk .base m) k →
      (nbase bk hk).call m (c (kp k)) = (m, .error .notDir)) :
    Sat (do (prepare (nestedCfg bk hk) name >>= fun r => primUnit (nestedCfg bk hk) .base (c r)); pure OpOut.unit : M OpOut) w
      (fun w' r => NTransp bk hk dd (FileAnc (nview bk hk .base w.fs) k) w' r (directUnit (nbase bk hk) w.fs (c name))) := by
  have hd1 := directUnit_fst (nbase bk hk) w.fs (c name)
  have hd2 := directUnit_snd (nbase bk hk) w.fs (c name)
  rw [(hspell w.fs).1] at hd1
  rw [map_const_of_noL DOut.unit (hspell w.fs).2] at hd2
  show Sat ((prepare (nestedCfg bk hk) name >>= fun r => primUnit (nestedCfg bk hk) .base (c r)) >>= fun _ => pure OpOut.unit) w _
  have hassoc : ((prepare (nestedCfg bk hk) name >>= fun r => primUnit (nestedCfg bk hk) .base (c r)) >>= fun _ => (pure OpOut.unit : M OpOut)) =
      (prepare (nestedCfg bk hk) name >>= fun r => (do primUnit (nestedCfg bk hk) .base (c r); pure OpOut.unit : M OpOut)) := by
    funext w0
    simp only [M.bind_apply]
    cases prepare (nestedCfg bk hk) name w0 with
    | mk w1 r => cases r <;> rfl
  rw [hassoc]
  apply Sat.bind
  apply ((sat_prepareT hinv hk' hname).and
    (show Sat (prepare (nestedCfg bk hk) name) w (fun w' _ => w'.fs.umask = w.fs.umask) from
      prepare_ku (nestedCfg_keeps_umask h) name w)).mono
  intro w1 r ⟨⟨hadv, hok, hfl⟩, hu⟩
  have htw := ntwin_of_adv h hinv hadv hu
  cases r with
  | error e =>
    obtain ⟨he, hfa⟩ := hfl e rfl
    have hcall := hfail w.fs hinv.good hfa
    rw [hcall] at hd1 hd2
    refine ⟨?_, ?_⟩
    · rw [hd2, he]
      exact Or.inr ⟨rfl, rfl, hfa⟩
    · rw [hd1]; exact htw
  | ok p =>
    obtain ⟨hp, _⟩ := hok p rfl
    subst hp
    simp only
    apply (sat_unit_nf (cfg := nestedCfg bk hk) (c := c (kp k)) hadv.inv.nofault).mono
    intro w2 r2 ⟨hfs, hr2⟩
    obtain ⟨hres, htw2⟩ := hrel w1.fs w.fs htw
    refine ⟨?_, ?_⟩
    · rw [hd2, hr2]
      show ResAgreeN _ (((nbase bk hk).call w1.fs (c (kp k))).2.map _) _
      rw [hres]
      exact resAgreeN_unit _ _
    · rw [hd1, hfs]
      exact htw2

/-! ### Create / OpenFile: the handle and the writes through it -/

/-- `MFS.hwrite` does not look at the `lname` of the handle -/
theorem hwrite_lname (m : MFS) (hd : Handle) (l : Path) (off : Nat) (d : String) :
    MFS.hwrite m { hd with lname := l } off d = MFS.hwrite m hd off d := rfl

theorem directWrite_lname (m : MFS) (hd : Handle) (l : Path) (d : String) :
    directWrite (nbase bk hk) m { hd with lname := l } d = directWrite (nbase bk hk) m hd d := by
  unfold directWrite
  have hw : (nbase bk hk).hwrite = MFS.hwrite := side_hwrite' .base
  rw [hw, hwrite_lname]

/-- `directOpen` with two spellings of the call -/
theorem directOpen_spell {m : MFS} {c1 c2 : Call} (data : String)
    (hs : SpellEq ((nbase bk hk).call m c1) ((nbase bk hk).call m c2)) :
    (directOpen (nbase bk hk) m c1 data).1 = (directOpen (nbase bk hk) m c2 data).1 ∧
    (directOpen (nbase bk hk) m c1 data).2.map DOut.noL = (directOpen (nbase bk hk) m c2 data).2.map DOut.noL := by
  unfold directOpen
  obtain ⟨h1, h2⟩ := hs
  cases hc1 : (nbase bk hk).call m c1 with
  | mk s1 r1 =>
    cases hc2 : (nbase bk hk).call m c2 with
    | mk s2 r2 =>
      rw [hc1, hc2] at h1 h2
      simp only at h1 h2
      subst h1
      cases r1 with
      | error e1 =>
        cases r2 with
        | error e2 =>
          simp only [Except.map, Except.error.injEq] at h2
          subst h2
          exact ⟨rfl, rfl⟩
        | ok b => simp [Except.map] at h2
      | ok a =>
        cases r2 with
        | error e2 => simp [Except.map] at h2
        | ok b =>
          simp only [Except.map, Except.ok.injEq] at h2
          cases a with
          | handle ha =>
            cases b with
            | handle hb =>
              simp only [Ret.noL, Ret.handle.injEq] at h2
              have e : ha = { hb with lname := ha.lname } := by
                cases ha; cases hb
                simp only [Handle.mk.injEq] at h2 ⊢
                exact ⟨h2.1, h2.2.1, h2.2.2.1, h2.2.2.2.1, trivial⟩
              simp only
              rw [e, directWrite_lname]
              exact ⟨rfl, rfl⟩
            | unit => simp [Ret.noL] at h2
            | info i => simp [Ret.noL] at h2
            | str t => simp [Ret.noL] at h2
          | unit => cases b <;> first | exact ⟨rfl, rfl⟩ | simp [Ret.noL] at h2
          | info i => cases b <;> first | exact ⟨rfl, rfl⟩ | simp [Ret.noL] at h2
          | str t => cases b <;> first | exact ⟨rfl, rfl⟩ | simp [Ret.noL] at h2

/-- agreement is insensitive to the `lname` of the direct side -/
theorem ResAgreeN.congr {P : Prop} {rx : Except Err OpOut} {d1 d2 : Except Err DOut} (h : ResAgreeN P rx d2)
    (he : d1.map DOut.noL = d2.map DOut.noL) : ResAgreeN P rx d1 := by
  cases rx <;> cases d1 <;> cases d2 <;> simp_all [ResAgreeN, Except.map]

/-- the tail of `creat`/`write` after the handle is there, against `directOpen` on a related disk -/
theorem open_tail_transpN (h : NRoots bk hk dd) {P : Prop} {c1 c2 : Call} {data : String} {w : World} {m : MFS}
    (hnf : w.faults = [])
    (hres : ((nbase bk hk).call w.fs c1).2 = ((nbase bk hk).call m c2).2)
    (htw : NTwin bk hk dd ((nbase bk hk).call w.fs c1).1 ((nbase bk hk).call m c2).1)
    (hkey : ∀ hd, ((nbase bk hk).call m c2).2 = .ok (.handle hd) → ∃ k, hd.key = bk ++ k ∧ ¬ hk <+: k) :
    Sat (do
        let hd ← primOpen (nestedCfg bk hk) .base c1
        let o ← writeClose (nestedCfg bk hk) hd data
        pure (OpOut.written hd o) : M OpOut) w
      (fun w' r => NTransp bk hk dd P w' r (directOpen (nbase bk hk) m c2 data)) := by
  apply Sat.bind
  apply (sat_primOpen_nf (cfg := nestedCfg bk hk) (c := c1) hnf).mono
  intro w1 r1 ⟨hfs, hnf1, hmatch⟩
  have hfs' : w1.fs = ((nbase bk hk).call w.fs c1).1 := hfs
  have hmatch' : (match ((nbase bk hk).call w.fs c1).2 with
       | .ok (.handle hd) => ∃ wh, r1 = .ok wh ∧ wh.h = hd ∧ wh.side = .base
       | .ok _ => r1 = .error .other
       | .error e => r1 = .error e) := hmatch
  rw [hres] at hmatch'
  rw [← hfs'] at htw
  unfold directOpen
  cases hc : (nbase bk hk).call m c2 with
  | mk m1 rr =>
    rw [hc] at hmatch' htw hkey
    simp only at hmatch' htw hkey
    cases rr with
    | error e =>
      simp only at hmatch'
      subst hmatch'
      exact ⟨Or.inl rfl, htw⟩
    | ok ret =>
      cases ret with
      | handle hd =>
        simp only at hmatch'
        obtain ⟨wh, rfl, hwh, hside⟩ := hmatch'
        obtain ⟨k, hkk, hv⟩ := hkey hd rfl
        simp only
        apply Sat.bind
        apply (sat_writeClose_nf (cfg := nestedCfg bk hk) (wh := wh) (data := data) hnf1).mono
        intro w2 r2 ⟨hfs2, hr2⟩
        subst hr2
        simp only
        apply Sat.pure
        rw [hside, hwh] at hfs2 ⊢
        -- the two writes
        have hrel : (directWrite (nbase bk hk) w1.fs hd data).2 = (directWrite (nbase bk hk) m1 hd data).2 ∧
            NTwin bk hk dd (directWrite (nbase bk hk) w1.fs hd data).1 (directWrite (nbase bk hk) m1 hd data).1 := by
          unfold directWrite
          split
          · exact ⟨rfl, htw⟩
          · obtain ⟨a, b⟩ := nbase_hwrite_rel h htw hkk hv 0 data
            cases h1 : (nbase bk hk).hwrite w1.fs hd 0 data with
            | mk a1 r1 =>
              cases h2 : (nbase bk hk).hwrite m1 hd 0 data with
              | mk a2 r2 =>
                rw [h1, h2] at a b
                simp only at a b
                subst a
                cases r1 <;> exact ⟨rfl, b⟩
        refine ⟨?_, ?_⟩
        · show DOut.noL (OpOut.written wh _).data = _
          simp only [OpOut.data, hwh]
          rw [hrel.1]
        · show NTwin bk hk dd w2.fs _
          rw [hfs2]
          exact hrel.2
      | unit =>
        simp only at hmatch'
        subst hmatch'
        exact ⟨Or.inl rfl, htw⟩
      | info i =>
        simp only at hmatch'
        subst hmatch'
        exact ⟨Or.inl rfl, htw⟩
      | str s =>
        simp only at hmatch'
        subst hmatch'
        exact ⟨Or.inl rfl, htw⟩

/-- Create / OpenFile-for-writing: `prepare`, open on the base, write through the handle, close -/
theorem open_transpN (h : NRoots bk hk dd) {v0 : View} {r0 : Option Node} {w : World} {name : Path} {k : Key}
    {c : Path → Call} {data : String} (hinv : InvB (nSim bk hk dd h) v0 r0 w) (hk' : PKey k)
    (hname : clean name = kp k)
    (hspell : ∀ m, SpellEq ((nbase bk hk).call m (c name)) ((nbase bk hk).call m (c (kp k))))
    (hrel : ∀ m1 m2, NTwin bk hk dd m1 m2 → NCallRel bk hk dd m1 m2 (c (kp k)))
    (hfail : ∀ m, NGood bk hk dd m → FileAnc (nview bk hk .base m) k →
      (nbase bk hk).call m (c (kp k)) = (m, .error .notDir))
    (hkey : ∀ m hd, NGood bk hk dd m → ((nbase bk hk).call m (c (kp k))).2 = .ok (.handle hd) →
      hd.key = bk ++ k ∧ ¬ hk <+: k) :
    Sat (do
        let hd ← (prepare (nestedCfg bk hk) name >>= fun r => primOpen (nestedCfg bk hk) .base (c r))
        let o ← writeClose (nestedCfg bk hk) hd data
        pure (OpOut.written hd o) : M OpOut) w
      (fun w' r => NTransp bk hk dd (FileAnc (nview bk hk .base w.fs) k) w' r (directOpen (nbase bk hk) w.fs (c name) data)) := by
  have hsp := directOpen_spell data (hspell w.fs)
  -- it suffices to compare with the cleaned spelling
  suffices hsuff : Sat (do
        let hd ← (prepare (nestedCfg bk hk) name >>= fun r => primOpen (nestedCfg bk hk) .base (c r))
        let o ← writeClose (nestedCfg bk hk) hd data
        pure (OpOut.written hd o) : M OpOut) w
      (fun w' r => NTransp bk hk dd (FileAnc (nview bk hk .base w.fs) k) w' r (directOpen (nbase bk hk) w.fs (c (kp k)) data)) by
    apply hsuff.mono
    intro w' r ⟨hres, htw⟩
    exact ⟨hres.congr hsp.2, by rw [hsp.1]; exact htw⟩
  have hassoc : (do
        let hd ← (prepare (nestedCfg bk hk) name >>= fun r => primOpen (nestedCfg bk hk) .base (c r))
        let o ← writeClose (nestedCfg bk hk) hd data
        pure (OpOut.written hd o) : M OpOut) =
      (prepare (nestedCfg bk hk) name >>= fun r => (do
        let hd ← primOpen (nestedCfg bk hk) .base (c r)
        let o ← writeClose (nestedCfg bk hk) hd data
        pure (OpOut.written hd o) : M OpOut)) := by
    funext w0
    simp only [M.bind_apply]
    cases prepare (nestedCfg bk hk) name w0 with
    | mk w1 r => cases r <;> rfl
  rw [hassoc]
  apply Sat.bind
  apply ((sat_prepareT hinv hk' hname).and
    (show Sat (prepare (nestedCfg bk hk) name) w (fun w' _ => w'.fs.umask = w.fs.umask) from
      prepare_ku (nestedCfg_keeps_umask h) name w)).mono
  intro w1 r ⟨⟨hadv, hok, hfl⟩, hu⟩
  have htw := ntwin_of_adv h hinv hadv hu
  cases r with
  | error e =>
    obtain ⟨he, hfa⟩ := hfl e rfl
    have hcall := hfail w.fs hinv.good hfa
    unfold directOpen
    rw [hcall]
    exact ⟨by rw [he]; exact Or.inr ⟨rfl, rfl, hfa⟩, htw⟩
  | ok p =>
    obtain ⟨hp, _⟩ := hok p rfl
    subst hp
    simp only
    obtain ⟨hres, htw2⟩ := hrel w1.fs w.fs htw
    exact open_tail_transpN h hadv.inv.nofault hres htw2 (fun hd hh => ⟨k, hkey w.fs hd hinv.good hh⟩)

/-! ### names at or below the location: both sides are refused by the same guard -/

theorem ncallRel_of_refused {c : Call} {e : Err} (hr : Refused bk hk .base c e) {m1 m2 : MFS}
    (ht : NTwin bk hk dd m1 m2) : NCallRel bk hk dd m1 m2 c := by
  unfold NCallRel
  show (((nestedCfg bk hk).side .base).call m1 c).2 = (((nestedCfg bk hk).side .base).call m2 c).2 ∧
    NTwin bk hk dd (((nestedCfg bk hk).side .base).call m1 c).1 (((nestedCfg bk hk).side .base).call m2 c).1
  rw [hr m1, hr m2]
  exact ⟨rfl, ht⟩

/-- no proper ancestor of a hidden key is a regular file: the location is a directory, and so are
its ancestors -/
theorem fileAnc_hidden_false {m : MFS} (hg : NGood bk hk dd m) {k : Key} (hh : hk <+: k)
    (hfa : FileAnc (nview bk hk .base m) k) : False := by
  obtain ⟨a, ha, hne, c, mt, hf⟩ := hfa
  rcases below_cases ha hh with h1 | h1
  · rw [nview_base_hid h1] at hf; cases hf
  · obtain ⟨mt', hd⟩ := n_par_dir (s := .base) hg h1
    rw [hf] at hd; cases hd

/-- `single_transpN` for a key that may be visible or hidden -/
theorem single_anyN (h : NRoots bk hk dd) {v0 : View} {r0 : Option Node} {w : World} {name : Path} {k : Key}
    {c : Path → Call} (hinv : InvB (nSim bk hk dd h) v0 r0 w) (hk' : PKey k) (hname : clean name = kp k)
    (hspell : ∀ m, SpellEq ((nbase bk hk).call m (c name)) ((nbase bk hk).call m (c (kp k))))
    (hvis : ¬ hk <+: k → (∀ m1 m2, NTwin bk hk dd m1 m2 → NCallRel bk hk dd m1 m2 (c (kp k))) ∧
      (∀ m, NGood bk hk dd m → FileAnc (nview bk hk .base m) k →
        (nbase bk hk).call m (c (kp k)) = (m, .error .notDir)))
    (hhid : hk <+: k → ∃ e, Refused bk hk .base (c (kp k)) e) :
    Sat (do (prepare (nestedCfg bk hk) name >>= fun r => primUnit (nestedCfg bk hk) .base (c r)); pure OpOut.unit : M OpOut) w
      (fun w' r => NTransp bk hk dd (FileAnc (nview bk hk .base w.fs) k) w' r (directUnit (nbase bk hk) w.fs (c name))) := by
  by_cases hv : hk <+: k
  · obtain ⟨e, hr⟩ := hhid hv
    exact single_transpN h hinv hk' hname hspell (fun _ _ ht => ncallRel_of_refused hr ht)
      (fun _ hg hf => (fileAnc_hidden_false hg hv hf).elim)
  · exact single_transpN h hinv hk' hname hspell (hvis hv).1 (hvis hv).2

/-- `open_transpN` for a key that may be visible or hidden -/
theorem open_anyN (h : NRoots bk hk dd) {v0 : View} {r0 : Option Node} {w : World} {name : Path} {k : Key}
    {c : Path → Call} {data : String} (hinv : InvB (nSim bk hk dd h) v0 r0 w) (hk' : PKey k)
    (hname : clean name = kp k)
    (hspell : ∀ m, SpellEq ((nbase bk hk).call m (c name)) ((nbase bk hk).call m (c (kp k))))
    (hvis : ¬ hk <+: k → (∀ m1 m2, NTwin bk hk dd m1 m2 → NCallRel bk hk dd m1 m2 (c (kp k))) ∧
      (∀ m, NGood bk hk dd m → FileAnc (nview bk hk .base m) k →
        (nbase bk hk).call m (c (kp k)) = (m, .error .notDir)) ∧
      (∀ m hd, NGood bk hk dd m → ((nbase bk hk).call m (c (kp k))).2 = .ok (.handle hd) → hd.key = bk ++ k))
    (hhid : hk <+: k → ∃ e, Refused bk hk .base (c (kp k)) e) :
    Sat (do
        let hd ← (prepare (nestedCfg bk hk) name >>= fun r => primOpen (nestedCfg bk hk) .base (c r))
        let o ← writeClose (nestedCfg bk hk) hd data
        pure (OpOut.written hd o) : M OpOut) w
      (fun w' r => NTransp bk hk dd (FileAnc (nview bk hk .base w.fs) k) w' r (directOpen (nbase bk hk) w.fs (c name) data)) := by
  by_cases hv : hk <+: k
  · obtain ⟨e, hr⟩ := hhid hv
    refine open_transpN h hinv hk' hname hspell (fun _ _ ht => ncallRel_of_refused hr ht)
      (fun _ hg hf => (fileAnc_hidden_false hg hv hf).elim) ?_
    intro m hd _ hh
    have : ((nbase bk hk).call m (c (kp k))) = (m, .error e) := hr m
    rw [this] at hh
    cases hh
  · exact open_transpN h hinv hk' hname hspell (hvis hv).1 (hvis hv).2.1
      (fun m hd hg hh => ⟨(hvis hv).2.2 m hd hg hh, hv⟩)

end

end BFS.N
