import Lemmas.NSimOSBase
/-!
  Lemmas/NSimOSFwd.lean — every call `BackupFS` issues on a side of the nested layering with a key
  path `kp k` is either *refused* by the hidden check (the state is untouched) or *forwarded* to
  the inner filesystem `PrefixFS (kp bk) osfs` as the same call at the key `off ++ k`, the result
  coming back with nothing but names changed.  (`RemoveAll` on the base side is the exception: a
  program, see `Lemmas/NSimOSLaws3.lean`.)
-/
namespace BFS.N
open HiddenFS

section
variable {bk hk dd : Key}

/-- the post-processing of the layer in front of the inner filesystem -/
def npost (hk : Key) : Side → Call → Call → Ret → Ret
  | .base => hiddenPost
  | .backup => prefixPost (kp hk)

/-- a result transformer that changes nothing but the names in handles and infos (and link texts) -/
structure NamePost (post : Ret → Ret) : Prop where
  unit : post .unit = .unit
  info : ∀ i, ∃ nm, post (.info i) = .info { i with name := nm }
  handle : ∀ h, ∃ nm ln, post (.handle h) = .handle { h with name := nm, lname := ln }
  str : ∀ t, ∃ t', post (.str t) = .str t'

theorem NamePost.unit_inv {post : Ret → Ret} (hp : NamePost post) (x : Ret) (hx : post x = .unit) : x = .unit := by
  cases x with
  | unit => rfl
  | info i => obtain ⟨nm, h⟩ := hp.info i; rw [h] at hx; cases hx
  | handle h0 => obtain ⟨nm, ln, h⟩ := hp.handle h0; rw [h] at hx; cases hx
  | str t => obtain ⟨t', h⟩ := hp.str t; rw [h] at hx; cases hx

theorem namePost_npost (s : Side) (c c' : Call) : NamePost (npost hk s c c') := by
  cases s with
  | base =>
    exact ⟨rfl, fun i => ⟨i.name, rfl⟩, fun h => ⟨h.name, c.primaryPath, rfl⟩, fun t => ⟨t, rfl⟩⟩
  | backup =>
    refine ⟨post_unit _ _ _, ?_, fun h => ⟨_, h.lname, post_handle _ _ _ _⟩, ?_⟩
    · intro i
      cases c <;> first | exact ⟨i.name, rfl⟩ | exact ⟨_, rfl⟩
    · intro t
      cases c <;> first | exact ⟨t, rfl⟩ | exact ⟨_, rfl⟩

/-- `c` on side `s` is forwarded to the inner filesystem as `ci`, names aside -/
def Fwd (bk hk dd : Key) (s : Side) (c ci : Call) : Prop :=
  ∃ post, NamePost post ∧ ∀ m, ((nestedCfg bk hk).side s).call m c =
    (((inner bk dd).call m ci).1, ((inner bk dd).call m ci).2.map post)

/-- `c` on side `s` is refused with `e` whatever the state -/
def Refused (bk hk : Key) (s : Side) (c : Call) (e : Err) : Prop :=
  ∀ m, ((nestedCfg bk hk).side s).call m c = (m, .error e)

variable {s : Side} {c ci : Call} {m m' : MFS}

theorem Fwd.inv (hf : Fwd bk hk dd s c ci) {r : Except Err Ret}
    (he : ((nestedCfg bk hk).side s).call m c = (m', r)) :
    (inner bk dd).call m ci = (m', ((inner bk dd).call m ci).2) := by
  obtain ⟨post, _, hc⟩ := hf
  rw [hc] at he
  exact Prod.ext (Prod.mk.inj he).1 rfl

theorem Fwd.err_of (hf : Fwd bk hk dd s c ci) {e : Err} (he : (inner bk dd).call m ci = (m', .error e)) :
    ((nestedCfg bk hk).side s).call m c = (m', .error e) := by
  obtain ⟨post, _, hc⟩ := hf
  rw [hc, he]; rfl

theorem Fwd.unit_of (hf : Fwd bk hk dd s c ci) (he : (inner bk dd).call m ci = (m', .ok .unit)) :
    ((nestedCfg bk hk).side s).call m c = (m', .ok .unit) := by
  obtain ⟨post, hp, hc⟩ := hf
  rw [hc, he]
  simp only [Except.map, hp.unit]

theorem Fwd.unit_inv (hf : Fwd bk hk dd s c ci) (he : ((nestedCfg bk hk).side s).call m c = (m', .ok .unit)) :
    (inner bk dd).call m ci = (m', .ok .unit) := by
  obtain ⟨post, hp, hc⟩ := hf
  rw [hc] at he
  obtain ⟨h1, h2⟩ := Prod.mk.inj he
  refine Prod.ext h1 ?_
  cases hx : ((inner bk dd).call m ci).2 with
  | error e => rw [hx] at h2; cases h2
  | ok x =>
    rw [hx] at h2
    simp only [Except.map, Except.ok.injEq] at h2
    show Except.ok x = _
    rw [hp.unit_inv x h2]

theorem Fwd.handle_of (hf : Fwd bk hk dd s c ci) {h : Handle}
    (he : (inner bk dd).call m ci = (m', .ok (.handle h))) :
    ∃ h', ((nestedCfg bk hk).side s).call m c = (m', .ok (.handle h')) ∧ h'.key = h.key ∧ h'.flag = h.flag := by
  obtain ⟨post, hp, hc⟩ := hf
  obtain ⟨nm, ln, hh⟩ := hp.handle h
  refine ⟨{ h with name := nm, lname := ln }, ?_, rfl, rfl⟩
  rw [hc, he]
  simp only [Except.map, hh]

theorem Fwd.handle_inv (hf : Fwd bk hk dd s c ci) {h' : Handle}
    (he : ((nestedCfg bk hk).side s).call m c = (m', .ok (.handle h'))) :
    ∃ h, (inner bk dd).call m ci = (m', .ok (.handle h)) ∧ h'.key = h.key ∧ h'.flag = h.flag := by
  obtain ⟨post, hp, hc⟩ := hf
  rw [hc] at he
  obtain ⟨h1, h2⟩ := Prod.mk.inj he
  cases hx : ((inner bk dd).call m ci).2 with
  | error e => rw [hx] at h2; cases h2
  | ok x =>
    rw [hx] at h2
    simp only [Except.map, Except.ok.injEq] at h2
    cases x with
    | handle h =>
      obtain ⟨nm, ln, hh⟩ := hp.handle h
      rw [hh] at h2
      cases h2
      exact ⟨h, Prod.ext h1 hx, rfl, rfl⟩
    | unit => rw [hp.unit] at h2; cases h2
    | info i => obtain ⟨nm, hi⟩ := hp.info i; rw [hi] at h2; cases h2
    | str t => obtain ⟨t', ht⟩ := hp.str t; rw [ht] at h2; cases h2

theorem Fwd.info_of (hf : Fwd bk hk dd s c ci) {i : Info}
    (he : (inner bk dd).call m ci = (m', .ok (.info i))) :
    ∃ i', ((nestedCfg bk hk).side s).call m c = (m', .ok (.info i')) ∧ ∀ n, InfoFor i n → InfoFor i' n := by
  obtain ⟨post, hp, hc⟩ := hf
  obtain ⟨nm, hi⟩ := hp.info i
  refine ⟨{ i with name := nm }, ?_, fun _ h => h⟩
  rw [hc, he]
  simp only [Except.map, hi]

theorem Fwd.congr (hf : Fwd bk hk dd s c ci) {ci' : Call}
    (he : ∀ m, (inner bk dd).call m ci = (inner bk dd).call m ci') : Fwd bk hk dd s c ci' := by
  obtain ⟨post, hp, hc⟩ := hf
  exact ⟨post, hp, fun m => by rw [hc, he]⟩

theorem fwd_base (_h : NRoots bk hk dd) (hnr : ∀ n, c ≠ .removeAll n)
    (htr : HiddenFS.translate (nhs hk) c = .ok ci) : Fwd bk hk dd .base c ci :=
  ⟨npost hk .base c ci, namePost_npost _ _ _, fun _ => base_call_ok hnr htr⟩

theorem fwd_backup (h : NRoots bk hk dd) (htr : PrefixFS.translate (kp hk) c = .ok ci) :
    Fwd bk hk dd .backup c ci :=
  ⟨npost hk .backup c ci, namePost_npost _ _ _, fun _ => backup_call_ok h htr⟩

theorem refused_base {e : Err} (hnr : ∀ n, c ≠ .removeAll n)
    (htr : HiddenFS.translate (nhs hk) c = .error e) : Refused bk hk .base c e :=
  fun _ => base_call_err hnr htr

theorem refused_of (hnr : ∀ n, c ≠ .removeAll n)
    (h : ∃ e, HiddenFS.translate (nhs hk) c = .error e) : ∃ e, Refused bk hk .base c e := by
  obtain ⟨e, he⟩ := h
  exact ⟨e, refused_base hnr he⟩

theorem pk_off (h : NRoots bk hk dd) (s : Side) {k : Key} (hk' : PKey k) : PKey (off hk s ++ k) := by
  cases s with
  | base => exact hk'
  | backup => exact h.ph.append hk'

/-! ### the forwarded calls, kind by kind (visible key) -/

variable {k : Key}

/-- on the inner filesystem `Create` is `OpenFile` with the creation flags, `Open` is a read-only `OpenFile` -/
theorem inner_create_eq (h : NRoots bk hk dd) {K : Key} (hK : PKey K) (m : MFS) :
    (inner bk dd).call m (.openFile (kp K) wflags 0o666) = (inner bk dd).call m (.create (kp K)) := by
  show ((osCfg bk dd).side .base).call m _ = ((osCfg bk dd).side .base).call m _
  rw [side_openFile .base h.r1 hK, side_create .base h.r1 hK]

theorem inner_open_eq (h : NRoots bk hk dd) {K : Key} (hK : PKey K) (m : MFS) :
    (inner bk dd).call m (.openFile (kp K) O_RDONLY 0) = (inner bk dd).call m (.open_ (kp K)) := by
  show ((osCfg bk dd).side .base).call m _ = ((osCfg bk dd).side .base).call m _
  rw [side_openFile .base h.r1 hK, side_open .base h.r1 hK]

theorem fwd_lstat (h : NRoots bk hk dd) (hk' : PKey k) (hv : ¬ NHid hk s k) :
    Fwd bk hk dd s (.lstat (kp k)) (.lstat (kp (off hk s ++ k))) := by
  cases s with
  | base =>
    refine fwd_base h (by intro n e; cases e) ?_
    simp only [HiddenFS.translate, hguard_vis h hk' hv, bind, Except.bind, pure, Except.pure]; rfl
  | backup => exact fwd_backup h (tr_lstat h.ph hk')

theorem fwd_open (h : NRoots bk hk dd) (hk' : PKey k) (hv : ¬ NHid hk s k) :
    Fwd bk hk dd s (.open_ (kp k)) (.open_ (kp (off hk s ++ k))) := by
  cases s with
  | base =>
    refine (fwd_base (ci := .openFile (kp k) O_RDONLY 0) h (by intro n e; cases e) ?_).congr (inner_open_eq h hk')
    simp only [HiddenFS.translate, hguard_vis h hk' hv, bind, Except.bind, pure, Except.pure]
  | backup => exact fwd_backup h (tr_open h.ph hk')

theorem fwd_create (h : NRoots bk hk dd) (hk' : PKey k) (hv : ¬ NHid hk s k) :
    Fwd bk hk dd s (.create (kp k)) (.create (kp (off hk s ++ k))) := by
  cases s with
  | base =>
    refine (fwd_base (ci := .openFile (kp k) wflags 0o666) h (by intro n e; cases e) ?_).congr (inner_create_eq h hk')
    simp only [HiddenFS.translate, hguard_vis h hk' hv, bind, Except.bind, pure, Except.pure]; rfl
  | backup => exact fwd_backup h (tr_create h.ph hk')

theorem fwd_openFile (h : NRoots bk hk dd) (hk' : PKey k) (hv : ¬ NHid hk s k) (fl pm : Nat) :
    Fwd bk hk dd s (.openFile (kp k) fl pm) (.openFile (kp (off hk s ++ k)) fl pm) := by
  cases s with
  | base =>
    refine fwd_base h (by intro n e; cases e) ?_
    simp only [HiddenFS.translate, hguard_vis h hk' hv, bind, Except.bind, pure, Except.pure]; rfl
  | backup => exact fwd_backup h (tr_openFile h.ph hk' fl pm)

theorem fwd_mkdir (h : NRoots bk hk dd) (hk' : PKey k) (hv : ¬ NHid hk s k) (pm : Nat) :
    Fwd bk hk dd s (.mkdir (kp k) pm) (.mkdir (kp (off hk s ++ k)) pm) := by
  cases s with
  | base =>
    refine fwd_base h (by intro n e; cases e) ?_
    simp only [HiddenFS.translate, hguard_vis h hk' hv, bind, Except.bind, pure, Except.pure]; rfl
  | backup => exact fwd_backup h (tr_mkdir h.ph hk' pm)

theorem fwd_mkdirAll (h : NRoots bk hk dd) (hk' : PKey k) (hv : ¬ NHid hk s k) (pm : Nat) :
    Fwd bk hk dd s (.mkdirAll (kp k) pm) (.mkdirAll (kp (off hk s ++ k)) pm) := by
  cases s with
  | base =>
    refine fwd_base h (by intro n e; cases e) ?_
    simp only [HiddenFS.translate, hguard_vis h hk' hv, bind, Except.bind, pure, Except.pure]; rfl
  | backup => exact fwd_backup h (tr_mkdirAll h.ph hk' pm)

theorem fwd_remove (h : NRoots bk hk dd) (hk' : PKey k) (hv : ¬ NHid hk s k) :
    Fwd bk hk dd s (.remove (kp k)) (.remove (kp (off hk s ++ k))) := by
  cases s with
  | base =>
    refine fwd_base h (by intro n e; cases e) ?_
    simp only [HiddenFS.translate, hguard_vis h hk' hv, bind, Except.bind, pure, Except.pure]; rfl
  | backup => exact fwd_backup h (tr_remove h.ph hk')

/-- `RemoveAll` is forwarded as such on the backup side only -/
theorem fwd_removeAll_backup (h : NRoots bk hk dd) (hk' : PKey k) :
    Fwd bk hk dd .backup (.removeAll (kp k)) (.removeAll (kp (hk ++ k))) :=
  fwd_backup h (tr_removeAll h.ph hk')

theorem fwd_chmod (h : NRoots bk hk dd) (hk' : PKey k) (hv : ¬ NHid hk s k) (md : Nat) :
    Fwd bk hk dd s (.chmod (kp k) md) (.chmod (kp (off hk s ++ k)) md) := by
  cases s with
  | base =>
    refine fwd_base h (by intro n e; cases e) ?_
    simp only [HiddenFS.translate, hguard_vis h hk' hv, bind, Except.bind, pure, Except.pure]; rfl
  | backup => exact fwd_backup h (tr_chmod h.ph hk' md)

theorem fwd_chown (h : NRoots bk hk dd) (hk' : PKey k) (hv : ¬ NHid hk s k) (u g : Int) :
    Fwd bk hk dd s (.chown (kp k) u g) (.chown (kp (off hk s ++ k)) u g) := by
  cases s with
  | base =>
    refine fwd_base h (by intro n e; cases e) ?_
    simp only [HiddenFS.translate, hguard_vis h hk' hv, bind, Except.bind, pure, Except.pure]; rfl
  | backup => exact fwd_backup h (tr_chown h.ph hk' u g)

theorem fwd_lchown (h : NRoots bk hk dd) (hk' : PKey k) (hv : ¬ NHid hk s k) (u g : Int) :
    Fwd bk hk dd s (.lchown (kp k) u g) (.lchown (kp (off hk s ++ k)) u g) := by
  cases s with
  | base =>
    refine fwd_base h (by intro n e; cases e) ?_
    simp only [HiddenFS.translate, hguard_vis h hk' hv, bind, Except.bind, pure, Except.pure]; rfl
  | backup => exact fwd_backup h (tr_lchown h.ph hk' u g)

theorem fwd_chtimes (h : NRoots bk hk dd) (hk' : PKey k) (hv : ¬ NHid hk s k) (a t : Time) :
    Fwd bk hk dd s (.chtimes (kp k) a t) (.chtimes (kp (off hk s ++ k)) a t) := by
  cases s with
  | base =>
    refine fwd_base h (by intro n e; cases e) ?_
    simp only [HiddenFS.translate, hguard_vis h hk' hv, bind, Except.bind, pure, Except.pure]; rfl
  | backup => exact fwd_backup h (tr_chtimes h.ph hk' a t)

theorem isParent_kp (h : NRoots bk hk dd) {k : Key} (hk' : PKey k) :
    isParentOfHidden (kp k) (nhs hk) = .ok (decide (k <+: hk ∧ k ≠ hk)) := by
  rw [isParentOfHidden_kp (nhidKeys h) hk']
  congr 1
  simp [parK_iff]

theorem fwd_rename (h : NRoots bk hk dd) {ko kn : Key} (hko : PKey ko) (hkn : PKey kn)
    (hvo : ¬ NHid hk s ko) (hpo : ¬ NPar hk s ko) (hvn : ¬ NHid hk s kn) (hpn : ¬ NPar hk s kn) :
    Fwd bk hk dd s (.rename (kp ko) (kp kn)) (.rename (kp (off hk s ++ ko)) (kp (off hk s ++ kn))) := by
  cases s with
  | base =>
    refine fwd_base h (by intro n e; cases e) ?_
    have hpo' : ¬ (ko <+: hk ∧ ko ≠ hk) := hpo
    have hpn' : ¬ (kn <+: hk ∧ kn ≠ hk) := hpn
    simp only [HiddenFS.translate, hguard_vis h hko hvo, hguard_vis h hkn hvn, isParent_kp h hko, isParent_kp h hkn,
      decide_eq_false hpo', decide_eq_false hpn', bind, Except.bind, pure, Except.pure]; rfl
  | backup => exact fwd_backup h (tr_rename h.ph hko hkn)

/-! ### the refused calls (hidden key; base side only) -/

theorem refused_lstat (h : NRoots bk hk dd) (hk' : PKey k) (hh : NHid hk s k) :
    Refused bk hk s (.lstat (kp k)) .hiddenNotExist := by
  cases s with
  | backup => exact hh.elim
  | base =>
    refine refused_base (by intro n e; cases e) ?_
    simp only [HiddenFS.translate, hguard_hid h hk' hh, bind, Except.bind]

/-- every single-path call naming a hidden key is refused -/
theorem refused_single (h : NRoots bk hk dd) (hk' : PKey k) (hh : NHid hk s k) {f : Path → Call}
    (hf : (f = Call.create) ∨ (∃ p, f = (Call.mkdir · p)) ∨ (∃ p, f = (Call.mkdirAll · p)) ∨ (f = Call.open_) ∨
      (∃ fl p, f = (Call.openFile · fl p)) ∨ (f = Call.remove) ∨ (∃ md, f = (Call.chmod · md)) ∨
      (∃ u g, f = (Call.chown · u g)) ∨ (∃ u g, f = (Call.lchown · u g)) ∨ (∃ a t, f = (Call.chtimes · a t))) :
    ∃ e, Refused bk hk s (f (kp k)) e := by
  cases s with
  | backup => exact hh.elim
  | base =>
    rcases hf with rfl | ⟨p, rfl⟩ | ⟨p, rfl⟩ | rfl | ⟨fl, p, rfl⟩ | rfl | ⟨md, rfl⟩ | ⟨u, g, rfl⟩ | ⟨u, g, rfl⟩ | ⟨a, t, rfl⟩
    all_goals
      refine refused_of (by intro n e; cases e) ?_
      simp only [HiddenFS.translate, hguard_hid h hk' hh, bind, Except.bind]
      exact ⟨_, rfl⟩

/-- a `Rename` one of whose names is hidden or leads to the hidden location is refused -/
theorem refused_rename (h : NRoots bk hk dd) {ko kn : Key} (hko : PKey ko) (hkn : PKey kn)
    (hbad : NHid hk s ko ∨ NPar hk s ko ∨ NHid hk s kn ∨ NPar hk s kn) :
    ∃ e, Refused bk hk s (.rename (kp ko) (kp kn)) e := by
  cases s with
  | backup => rcases hbad with hh | hh | hh | hh <;> exact hh.elim
  | base =>
    refine refused_of (by intro n e; cases e) ?_
    by_cases hvo : hk <+: ko
    · simp only [HiddenFS.translate, hguard_hid h hko hvo, bind, Except.bind]
      exact ⟨_, rfl⟩
    · by_cases hpo : ko <+: hk ∧ ko ≠ hk
      · simp only [HiddenFS.translate, hguard_vis h hko hvo, isParent_kp h hko, decide_eq_true hpo, bind, Except.bind]
        exact ⟨_, rfl⟩
      · by_cases hvn : hk <+: kn
        · simp only [HiddenFS.translate, hguard_vis h hko hvo, isParent_kp h hko, decide_eq_false hpo, hguard_hid h hkn hvn,
            bind, Except.bind]
          exact ⟨_, rfl⟩
        · have hpn : kn <+: hk ∧ kn ≠ hk := by
            rcases hbad with hh | hh | hh | hh
            · exact absurd hh hvo
            · exact absurd hh hpo
            · exact absurd hh hvn
            · exact hh
          simp only [HiddenFS.translate, hguard_vis h hko hvo, isParent_kp h hko, decide_eq_false hpo, hguard_vis h hkn hvn,
            isParent_kp h hkn, decide_eq_true hpn, bind, Except.bind]
          exact ⟨_, rfl⟩

/-! ### the one-layer filesystem rooted at the backup location reaches the same state -/

/-- `c` through `PrefixFS (kp (bk ++ hk)) osfs` and `ci` through the inner filesystem leave the
same state (they reach the OS as the same call) -/
def Fwd2 (bk hk dd : Key) (c ci : Call) : Prop :=
  ∀ m, (((osCfg (bk ++ hk) dd).side .base).call m c).1 = ((inner bk dd).call m ci).1

theorem Fwd2.eq (hf : Fwd2 bk hk dd c ci) {x : Except Err Ret} (he : (inner bk dd).call m ci = (m', x)) :
    ((osCfg (bk ++ hk) dd).side .base).call m c = (m', (((osCfg (bk ++ hk) dd).side .base).call m c).2) := by
  refine Prod.ext ?_ rfl
  rw [hf m, he]

theorem fwd2_of (h : NRoots bk hk dd) {c2 : Call} (h1 : PrefixFS.translate (kp bk) ci = .ok c2)
    (h2 : PrefixFS.translate (kp (bk ++ hk)) c = .ok c2) : Fwd2 bk hk dd c ci :=
  fun _ => inner_state_eq h h1 h2

theorem fwd2_create (h : NRoots bk hk dd) (hk' : PKey k) :
    Fwd2 bk hk dd (.create (kp k)) (.create (kp (hk ++ k))) :=
  fwd2_of h (tr_create h.pb (h.ph.append hk')) (by rw [← List.append_assoc]; exact tr_create h.pbh hk')
theorem fwd2_openFile (h : NRoots bk hk dd) (hk' : PKey k) (fl pm : Nat) :
    Fwd2 bk hk dd (.openFile (kp k) fl pm) (.openFile (kp (hk ++ k)) fl pm) :=
  fwd2_of h (tr_openFile h.pb (h.ph.append hk') fl pm) (by rw [← List.append_assoc]; exact tr_openFile h.pbh hk' fl pm)
theorem fwd2_mkdir (h : NRoots bk hk dd) (hk' : PKey k) (pm : Nat) :
    Fwd2 bk hk dd (.mkdir (kp k) pm) (.mkdir (kp (hk ++ k)) pm) :=
  fwd2_of h (tr_mkdir h.pb (h.ph.append hk') pm) (by rw [← List.append_assoc]; exact tr_mkdir h.pbh hk' pm)
theorem fwd2_mkdirAll (h : NRoots bk hk dd) (hk' : PKey k) (pm : Nat) :
    Fwd2 bk hk dd (.mkdirAll (kp k) pm) (.mkdirAll (kp (hk ++ k)) pm) :=
  fwd2_of h (tr_mkdirAll h.pb (h.ph.append hk') pm) (by rw [← List.append_assoc]; exact tr_mkdirAll h.pbh hk' pm)
theorem fwd2_remove (h : NRoots bk hk dd) (hk' : PKey k) :
    Fwd2 bk hk dd (.remove (kp k)) (.remove (kp (hk ++ k))) :=
  fwd2_of h (tr_remove h.pb (h.ph.append hk')) (by rw [← List.append_assoc]; exact tr_remove h.pbh hk')
theorem fwd2_removeAll (h : NRoots bk hk dd) (hk' : PKey k) :
    Fwd2 bk hk dd (.removeAll (kp k)) (.removeAll (kp (hk ++ k))) :=
  fwd2_of h (tr_removeAll h.pb (h.ph.append hk')) (by rw [← List.append_assoc]; exact tr_removeAll h.pbh hk')
theorem fwd2_chmod (h : NRoots bk hk dd) (hk' : PKey k) (md : Nat) :
    Fwd2 bk hk dd (.chmod (kp k) md) (.chmod (kp (hk ++ k)) md) :=
  fwd2_of h (tr_chmod h.pb (h.ph.append hk') md) (by rw [← List.append_assoc]; exact tr_chmod h.pbh hk' md)
theorem fwd2_chown (h : NRoots bk hk dd) (hk' : PKey k) (u g : Int) :
    Fwd2 bk hk dd (.chown (kp k) u g) (.chown (kp (hk ++ k)) u g) :=
  fwd2_of h (tr_chown h.pb (h.ph.append hk') u g) (by rw [← List.append_assoc]; exact tr_chown h.pbh hk' u g)
theorem fwd2_lchown (h : NRoots bk hk dd) (hk' : PKey k) (u g : Int) :
    Fwd2 bk hk dd (.lchown (kp k) u g) (.lchown (kp (hk ++ k)) u g) :=
  fwd2_of h (tr_lchown h.pb (h.ph.append hk') u g) (by rw [← List.append_assoc]; exact tr_lchown h.pbh hk' u g)
theorem fwd2_chtimes (h : NRoots bk hk dd) (hk' : PKey k) (a t : Time) :
    Fwd2 bk hk dd (.chtimes (kp k) a t) (.chtimes (kp (hk ++ k)) a t) :=
  fwd2_of h (tr_chtimes h.pb (h.ph.append hk') a t) (by rw [← List.append_assoc]; exact tr_chtimes h.pbh hk' a t)
theorem fwd2_rename (h : NRoots bk hk dd) {ko kn : Key} (hko : PKey ko) (hkn : PKey kn) :
    Fwd2 bk hk dd (.rename (kp ko) (kp kn)) (.rename (kp (hk ++ ko)) (kp (hk ++ kn))) :=
  fwd2_of h (tr_rename h.pb (h.ph.append hko) (h.ph.append hkn))
    (by rw [← List.append_assoc, ← List.append_assoc]; exact tr_rename h.pbh hko hkn)

end
end BFS.N
