import Lemmas.Footprint
import Lemmas.LRestore
/-!
  Lemmas/LPActs.lean — the per-path acts of `Rollback` as frame (`Chg`) steps over the contract
  `LSim` (disks WITH symlinks), for ANY world and ANY fault plan, whatever the act returns.

  The point of this file is FOLLOWING.  `Remove`, `RemoveAll`, `Symlink`, `Lchown`, `Lstat`,
  `Readlink` act on the entry AT the path; `Chmod`, `Chown`, `Chtimes`, `OpenFile`, `MkdirAll`
  follow a symlink sitting at the path, and the contract gives their frame laws only under
  `AccF` ("the key is not a symlink and no proper ancestor is").  So for every following call the
  proofs below DERIVE "the key is not a symlink now" from the control flow of the act:

  * `restoreDirAct`: `lexists` saw a directory or nothing (then the key is no symlink), or it saw
    something else and `Remove` ran — a refused/failed `Remove` aborts the act before `copyDir`; a
    successful `Remove` of a symlink leaves the key absent (`remove_ok` + determinism of the call);
  * `restoreFile`: the same with "regular file" for "directory", and with `RemoveAll` in the branch
    taken when the backup copy is not a regular file;
  * `restoreSymlink` issues only non-following calls (`Lstat`, `Remove`, `Readlink`, `Symlink`,
    `Lchown`).

  The only hypothesis about the disk is `NoLinkAnc (view) k`: no PROPER ANCESTOR of the key is a
  symlink (for a key that is present this is a fact of well-formed disks; for an absent key it is a
  real condition — the kernel would walk through the link).
-/
namespace BFS
namespace L
open BackupFS

variable {cfg : Cfg} {S : LSim cfg}

/-! ### read-only steps -/

theorem io_not_notFound : Err.io.isNotFound = false := rfl

/-- `lexists` never changes the disk (any argument, any fault plan) -/
theorem sat_lexists_same (S : LSim cfg) {s : Side} {p : Path} {w : World} :
    Sat (lexists cfg s p) w (fun w' _ => SameFS w w') := by
  unfold lexists
  apply Sat.seq (Sat.attempt_any (sat_primInfo_same (fun m' r h => S.pure_lstat h))) (fun _ h => h)
  intro a w1 h1
  cases a with
  | ok i => exact Sat.pure h1
  | error e =>
    simp only
    split
    · exact Sat.pure h1
    · exact Sat.throw h1

/-- what `lexists (kp k)` tells when no proper ancestor of `k` is a symlink — under any fault plan:
`some i` means the key holds a node that `i` describes, `none` means the key is absent (an injected
fault is `EIO`, which is not a not-found error: `lexists` fails) -/
theorem sat_lexists_fp {s : Side} {k : Key} {w : World} (hg : S.G w.fs) (hk : PKey k)
    (hacc : NoLinkAnc (S.view s w.fs) k) :
    Sat (lexists cfg s (kp k)) w (fun w' r => SameFS w w' ∧
      (∀ i, r = .ok (some i) → ∃ n, S.view s w.fs k = some n ∧ InfoForL i n) ∧
      (r = .ok none → S.view s w.fs k = none)) := by
  unfold lexists
  apply Sat.bind
  apply Sat.attempt
  apply (sat_lstat hg hk hacc).mono
  intro w1 r ⟨hs, hr⟩
  simp only
  rcases hr with ⟨n, i, hv, rfl, hfor⟩ | ⟨hv, e, rfl, hnfd⟩ | ⟨rfl, _⟩
  · apply Sat.pure
    refine ⟨hs, ?_, ?_⟩
    · intro i' h; cases h; exact ⟨n, hv, hfor⟩
    · intro h; cases h
  · simp only [hnfd, if_true]
    apply Sat.pure
    exact ⟨hs, fun i h => (by cases h), fun _ => hv⟩
  · simp only [io_not_notFound, Bool.false_eq_true, if_false]
    apply Sat.throw
    exact ⟨hs, fun i h => (by cases h), fun h => (by cases h)⟩

/-- a key about which `lexists` reported "absent" or a non-symlink is not a symlink -/
theorem notLink_of_lexists {v : View} {k : Key} {cur : Option Info}
    (hsome : ∀ i, cur = some i → ∃ n, v k = some n ∧ InfoForL i n) (hnone : cur = none → v k = none)
    (hkind : ∀ i, cur = some i → i.kind ≠ .link) : ¬ isLinkAt v k := by
  cases cur with
  | none => exact isLinkAt_not_none (hnone rfl)
  | some i =>
    obtain ⟨n, hv, hfor⟩ := hsome i rfl
    rintro ⟨t, mt, h⟩
    rw [h] at hv
    cases hv
    exact hkind i rfl hfor.1

/-! ### the two calls that make room: they never follow, and after a success the key is no symlink -/

/-- `Remove (kp k)`: confined to `k`; when it returns ok the key is not a symlink (a symlink at `k`
is unlinked — the call cannot succeed otherwise —, anything else stays a non-symlink) -/
theorem sat_remove_fp {s : Side} {k : Key} {w : World} (hg : S.G w.fs) (hk : PKey k) (hne : k ≠ [])
    (hacc : NoLinkAnc (S.view s w.fs) k) :
    Sat (primUnit cfg s (.remove (kp k))) w (fun w' r => S.Chg s (· = k) w w' ∧
      (r = .ok () → ¬ isLinkAt (S.view s w'.fs) k)) := by
  have hlaw : ∀ m' r, (cfg.side s).call w.fs (.remove (kp k)) = (m', r) →
      S.G m' ∧ S.view s.other m' = S.view s.other w.fs ∧ (∀ j, ¬ (j = k) → S.view s m' j = S.view s w.fs j) ∧
        LinkMono (S.view s w.fs) (S.view s m') := fun m' r h => by
    obtain ⟨g, o, f, l⟩ := S.remove_frame hg hk hne hacc h
    exact ⟨g, o, fun j hj => f j hj, l⟩
  by_cases hl : isLinkAt (S.view s w.fs) k
  · apply (sat_primUnit_exact (S := S) (s := s) (c := .remove (kp k)) (K := (· = k))
      (P := fun m' => S.view s m' k = none) hg hlaw (S.remove_ok hg hk hne (Or.inr (Or.inl hl)))).mono
    intro w' r ⟨hc, hp, _⟩
    exact ⟨hc, fun h => isLinkAt_not_none (hp h)⟩
  · apply (sat_primUnit_chg (S := S) (K := (· = k)) hg hlaw).mono
    intro w' r hc
    exact ⟨hc, fun _ hl' => hl (hc.links.isLinkAt hl')⟩

/-- `RemoveAll (kp k)`: confined to the keys at or below `k`; after a success `k` is no symlink -/
theorem sat_removeAll_fp {s : Side} {k : Key} {w : World} (hg : S.G w.fs) (hk : PKey k) (hne : k ≠ [])
    (hacc : NoLinkAnc (S.view s w.fs) k) :
    Sat (primUnit cfg s (.removeAll (kp k))) w (fun w' r => S.Chg s (k <+: ·) w w' ∧
      (r = .ok () → ¬ isLinkAt (S.view s w'.fs) k)) := by
  have hlaw : ∀ m' r, (cfg.side s).call w.fs (.removeAll (kp k)) = (m', r) →
      S.G m' ∧ S.view s.other m' = S.view s.other w.fs ∧ (∀ j, ¬ (k <+: j) → S.view s m' j = S.view s w.fs j) ∧
        LinkMono (S.view s w.fs) (S.view s m') := fun m' r h => by
    obtain ⟨g, o, f, l⟩ := S.removeAll_frame hg hk hne hacc h
    exact ⟨g, o, fun j hj => f j hj, l⟩
  by_cases hl : isLinkAt (S.view s w.fs) k
  · have hpres : S.view s w.fs k ≠ none := by
      obtain ⟨t, mt, h⟩ := hl
      rw [h]; simp
    obtain ⟨m', hc, hp⟩ := S.removeAll_ok hg hk hne hpres
    apply (sat_primUnit_exact (S := S) (s := s) (c := .removeAll (kp k)) (K := (k <+: ·))
      (P := fun m' => S.view s m' k = none) hg hlaw ⟨m', hc, hp k (List.prefix_refl _)⟩).mono
    intro w' r ⟨hc, hp, _⟩
    exact ⟨hc, fun h => isLinkAt_not_none (hp h)⟩
  · apply (sat_primUnit_chg (S := S) (K := (k <+: ·)) hg hlaw).mono
    intro w' r hc
    exact ⟨hc, fun _ hl' => hl (hc.links.isLinkAt hl')⟩

/-- the conditional `Remove` of `restoreFile` / `tryRestoreDirPaths`: when it is skipped (`c` false)
the caller knows the key is no symlink; when it runs and succeeds the key is no symlink either.  So
after an ok result the key can be named by a FOLLOWING call without leaving it. -/
theorem sat_whenRemove_fp {c : Bool} {k : Key} {w : World} (hg : S.G w.fs) (hk : PKey k) (hne : k ≠ [])
    (hacc : NoLinkAnc (S.view .base w.fs) k) (hc : c = false → ¬ isLinkAt (S.view .base w.fs) k) :
    Sat (BFS.whenM c (primUnit cfg .base (.remove (kp k)))) w (fun w' r => S.Chg .base (· = k) w w' ∧
      (r = .ok () → AccF (S.view .base w'.fs) k)) := by
  apply Sat.whenM
  · intro _
    apply (sat_remove_fp hg hk hne hacc).mono
    intro w' r ⟨h, hnl⟩
    exact ⟨h, fun hr => ⟨h.noLinkAnc hacc, hnl hr⟩⟩
  · intro hcf
    exact ⟨LSim.Chg.refl hg, fun _ => ⟨hacc, hc hcf⟩⟩

/-! ### `Chg` as an invariant of a sequence of steps -/

theorem LSim.Chg.step {s : Side} {K K' : Key → Prop} {a b c : World} (h1 : S.Chg s K a b) (h2 : S.Chg s K' b c)
    (hk : ∀ j, K' j → K j) : S.Chg s K a c := h1.trans (h2.mono hk)

theorem LSim.ChgL.step {s : Side} {K K' : Key → Prop} {a b c : World} (h1 : S.ChgL s K a b) (h2 : S.ChgL s K' b c)
    (hk : ∀ j, K' j → K j) : S.ChgL s K a c := h1.trans (h2.mono hk)

/-- one mutating primitive whose law bounds its effect by `K'`, run after a `K`-bounded prefix -/
theorem sat_primUnit_step {s : Side} {c : Call} {K K' : Key → Prop} {w0 w : World} (h0 : S.Chg s K w0 w)
    (hk : ∀ j, K' j → K j)
    (hlaw : ∀ m' r, (cfg.side s).call w.fs c = (m', r) →
      S.G m' ∧ S.view s.other m' = S.view s.other w.fs ∧ (∀ j, ¬ K' j → S.view s m' j = S.view s w.fs j) ∧
        LinkMono (S.view s w.fs) (S.view s m')) :
    Sat (primUnit cfg s c) w (fun w' _ => S.Chg s K w0 w') :=
  (sat_primUnit_chg h0.good hlaw).mono (fun _ _ h => h0.step h hk)

/-! ### copyDir: follows (`MkdirAll`, `Chmod`, `Chtimes`, `Chown`) — needs `AccF` of its target -/

theorem sat_copyDir_chg {s : Side} {d : Key} {i : Info} {w : World} (hg : S.G w.fs) (hd : PKey d)
    (hacc : AccF (S.view s w.fs) d) :
    Sat (copyDir cfg s (kp d) i) w (fun w' _ => S.Chg s (· <+: d) w w') := by
  unfold copyDir
  apply Sat.wrapped_any
  have hrefl : S.Chg s (· <+: d) w w := LSim.Chg.refl hg
  apply Sat.ite
  · intro _; exact Sat.throw hrefl
  · intro _
    apply Sat.ite
    · intro _; exact Sat.pure hrefl
    · intro _
      -- MkdirAll
      apply Sat.seq (P := S.Chg s (· <+: d) w) _ (fun _ h => h)
      · intro _ w1 h1
        -- Lstat
        apply Sat.seq (P := S.Chg s (· <+: d) w)
          ((sat_primInfo_same (fun m' r h => S.pure_lstat h)).mono (fun _ _ h => h1.same_right h)) (fun _ h => h)
        intro cur w2 h2
        -- Chmod
        apply Sat.seq (P := S.Chg s (· <+: d) w) _ (fun _ h => h)
        · intro _ w3 h3
          -- Chtimes
          apply Sat.seq (P := S.Chg s (· <+: d) w) _ (fun _ h => h)
          · intro _ w4 h4
            -- Chown
            apply Sat.ignorePerm_any
            exact (sat_chownTo_weak (S := S) (i := i) h4.good hd (h4.accF hacc)).mono
              (fun _ _ h => h4.step h eq_imp_prefix)
          · apply Sat.whenM_any _ h3
            apply Sat.ignorePerm_any
            exact sat_primUnit_step h3 eq_imp_prefix (fun m' r h => by
              obtain ⟨g, o, f, l⟩ := S.chtimes_frame h3.good hd (h3.accF hacc) h
              exact ⟨g, o, fun j hj => f j hj, l⟩)
        · apply Sat.whenM_any _ h2
          exact sat_primUnit_step h2 eq_imp_prefix (fun m' r h => by
            obtain ⟨g, o, f, l⟩ := S.chmod_frame h2.good hd (h2.accF hacc) h
            exact ⟨g, o, fun j hj => f j hj, l⟩)
      · exact sat_primUnit_step hrefl (fun _ h => h) (fun m' r h => by
          obtain ⟨g, o, f, fl, _⟩ := S.mkdirAll_frame hg hd hacc h
          refine ⟨g, o, f, ?_⟩
          intro j t mt' hl
          rcases fl j with e | ⟨_, mt, hdir⟩
          · exact ⟨mt', by rw [← e]; exact hl⟩
          · rw [hdir] at hl; cases hl)

/-- both bounds `copyDir` obeys, whatever it returns: only prefixes of the target change, and no
regular file or symlink other than the target -/
theorem sat_copyDir_fp {s : Side} {d : Key} {i : Info} {w : World} (hg : S.G w.fs) (hd : PKey d)
    (hacc : AccF (S.view s w.fs) d) :
    Sat (copyDir cfg s (kp d) i) w (fun w' _ => S.Chg s (· <+: d) w w' ∧ S.Soft s d w w') :=
  ⟨sat_copyDir_chg hg hd hacc, sat_copyDir_weak hg hd (fun _ => hacc)⟩

/-! ### writeFile / copyFile: follow (`OpenFile`, `Chown`, `Chmod`, `Chtimes`) — need `AccF` -/

theorem sat_copyChunks_chg {dst src : WHandle} {k : Key} (hH : S.H dst.side dst.h k) :
    ∀ (cs : List String) (off : Nat) (w0 w : World), S.Chg dst.side (· = k) w0 w →
      Sat (copyChunks cfg dst src off cs) w (fun w' _ => S.Chg dst.side (· = k) w0 w')
  | [], off, w0, w, h0 => by
    unfold copyChunks
    exact (sat_hRead (src := src) (w := w)).mono (fun _ _ h => h0.same_right h.1)
  | c :: cs, off, w0, w, h0 => by
    unfold copyChunks
    apply Sat.seq (P := S.Chg dst.side (· = k) w0)
      ((sat_hRead (src := src) (w := w)).mono (fun _ _ h => h0.same_right h.1)) (fun _ h => h)
    intro _ w1 h1
    apply Sat.seq (P := S.Chg dst.side (· = k) w0)
      ((sat_hWrite_frame (off := off) (d := c) h1.good hH).mono (fun _ _ h => h1.trans h)) (fun _ h => h)
    intro _ w2 h2
    exact sat_copyChunks_chg hH cs _ w0 w2 h2

theorem sat_writeFile_chg {s : Side} {k : Key} {perm : Nat} {src : WHandle} {w : World}
    (hg : S.G w.fs) (hk : PKey k) (hacc : AccF (S.view s w.fs) k) :
    Sat (writeFile cfg s (kp k) perm src) w (fun w' _ => S.Chg s (· = k) w w') := by
  unfold writeFile
  apply Sat.bind
  unfold primOpen
  apply Sat.bind
  apply Sat.primCall
  · intro _ w1 h1
    exact LSim.Chg.of_same hg h1
  · intro w1 h1
    cases heq : (cfg.side s).call w.fs (.openFile (kp k) (O_RDWR ||| O_CREATE ||| O_TRUNC) (perm &&& 0o777)) with
    | mk m' r =>
      obtain ⟨g, o, f, l, hh⟩ := S.openFile_frame hg hk hacc heq
      have hchg : S.Chg s (· = k) w { w1 with fs := m' } :=
        ⟨⟨g, o, fun j hj => f j hj, h1.infos, h1.faults⟩, l⟩
      simp only
      cases r with
      | error e => exact hchg
      | ok ret =>
        cases ret with
        | handle h =>
          simp only
          apply Sat.pure
          simp only
          have hH : S.H s h k := hh h rfl
          -- peek
          apply Sat.seq (P := S.Chg s (· = k) w) _ (fun _ h => h)
          · intro data w2 h2
            let dst : WHandle := { h := h, arg := (Call.openFile (kp k) (O_RDWR ||| O_CREATE ||| O_TRUNC) (perm &&& 0o777)).primaryPath, side := s }
            apply Sat.seq (P := S.Chg s (· = k) w)
              (Sat.attempt_any (sat_copyChunks_chg (cfg := cfg) (S := S) (dst := dst) (src := src) hH _ 0 w w2 h2)) (fun _ h => h)
            intro r2 w3 h3
            apply Sat.seq (P := S.Chg s (· = k) w)
              (Sat.attempt_any ((sat_hClose (wh := dst) (w := w3)).mono (fun _ _ h => h3.same_right h.1))) (fun _ h => h)
            intro r3 w4 h4
            cases r2 with
            | error e => exact Sat.throw h4
            | ok u2 =>
              cases r3 with
              | error e => exact Sat.throw h4
              | ok u3 => exact Sat.pure h4
          · unfold peek
            apply Sat.bind
            apply Sat.getW
            simp only
            cases (cfg.side src.side).hread m' src.h with
            | ok d => exact Sat.pure hchg
            | error e => exact Sat.throw hchg
        | _ => exact hchg

theorem sat_copyFile_chg {s : Side} {k : Key} {i : Info} {src : WHandle} {w : World}
    (hg : S.G w.fs) (hk : PKey k) (hacc : AccF (S.view s w.fs) k) :
    Sat (copyFile cfg s (kp k) i src) w (fun w' _ => S.Chg s (· = k) w w') := by
  unfold copyFile
  apply Sat.wrapped_any
  apply Sat.ite
  · intro _; exact Sat.throw (LSim.Chg.refl hg)
  · intro _
    apply Sat.seq (P := S.Chg s (· = k) w) (sat_writeFile_chg hg hk hacc) (fun _ h => h)
    intro _ w1 h1
    apply Sat.seq (P := S.Chg s (· = k) w) _ (fun _ h => h)
    · intro _ w2 h2
      apply Sat.seq (P := S.Chg s (· = k) w)
        ((sat_primInfo_same (fun m' r h => S.pure_lstat h)).mono (fun _ _ h => h2.same_right h)) (fun _ h => h)
      intro cur w3 h3
      apply Sat.seq (P := S.Chg s (· = k) w) _ (fun _ h => h)
      · intro _ w4 h4
        apply Sat.whenM_any _ h4
        apply Sat.ignorePerm_any
        exact sat_primUnit_step h4 (fun _ h => h) (fun m' r h => by
          obtain ⟨g, o, f, l⟩ := S.chtimes_frame h4.good hk (h4.accF hacc) h
          exact ⟨g, o, fun j hj => f j hj, l⟩)
      · apply Sat.whenM_any _ h3
        exact sat_primUnit_step h3 (fun _ h => h) (fun m' r h => by
          obtain ⟨g, o, f, l⟩ := S.chmod_frame h3.good hk (h3.accF hacc) h
          exact ⟨g, o, fun j hj => f j hj, l⟩)
    · apply Sat.ignorePerm_any
      exact (sat_chownTo_weak (S := S) (i := i) h1.good hk (h1.accF hacc)).mono (fun _ _ h => h1.trans h)

/-! ### the acts of Rollback (any world, any fault plan, any result) -/

theorem sat_removeBaseAct_fp {k : Key} {w : World} (hg : S.G w.fs) (hk : PKey k) (hne : k ≠ [])
    (hacc : NoLinkAnc (S.view .base w.fs) k) :
    Sat (removeBaseAct cfg (kp k)) w (fun w' _ => S.Chg .base (· = k) w w') := by
  unfold removeBaseAct
  exact (sat_remove_fp hg hk hne hacc).mono (fun _ _ h => h.1)

/-- restoring a directory touches at most the prefixes of its key, and no regular file or symlink
elsewhere.  A symlink (or file) sitting at the key is taken away with `Remove` — which does not
follow — BEFORE `MkdirAll`/`Chmod`/`Chtimes`/`Chown` — which do — are issued; when that `Remove` is
refused the act stops. -/
theorem sat_restoreDirAct_fp {infos : List (Path × Option Info)} {k : Key} {w : World}
    (hg : S.G w.fs) (hk : PKey k) (hne : k ≠ []) (hacc : NoLinkAnc (S.view .base w.fs) k) :
    Sat (restoreDirAct cfg infos (kp k)) w
      (fun w' _ => S.Chg .base (· <+: k) w w' ∧ S.Soft .base k w w') := by
  unfold restoreDirAct
  apply Sat.bind
  apply (sat_lexists_fp hg hk hacc).mono
  intro w1 r ⟨hs, hsome, hnone⟩
  cases r with
  | error e => exact ⟨LSim.Chg.of_same hg hs, (LSim.Chg.of_same (K := (· = k)) hg hs).soft⟩
  | ok cur =>
    simp only
    have hg1 : S.G w1.fs := hs.fs ▸ hg
    have hacc1 : NoLinkAnc (S.view .base w1.fs) k := by rw [hs.fs]; exact hacc
    apply Sat.bind
    apply (sat_whenRemove_fp (S := S) hg1 hk hne hacc1 ?_).mono
    · intro w2 r2 ⟨hc2, hok⟩
      have hc2' : S.Chg .base (· = k) w w2 := LSim.Chg.same_left hs hc2
      cases r2 with
      | error e => exact ⟨hc2'.mono eq_imp_prefix, hc2'.soft⟩
      | ok u =>
        simp only
        have hacc2 := hok rfl
        cases infoFor infos (kp k) with
        | none => exact Sat.pure ⟨hc2'.mono eq_imp_prefix, hc2'.soft⟩
        | some i =>
          exact (sat_copyDir_fp (i := i) hc2.good hk hacc2).mono
            (fun _ _ h => ⟨(hc2'.mono eq_imp_prefix).trans h.1, hc2'.soft.trans h.2⟩)
    · intro hc
      rw [hs.fs]
      apply notLink_of_lexists (cur := cur) (fun i h => hsome i (by rw [h])) (fun h => hnone (by rw [h]))
      intro i hi hlink
      subst hi
      simp [Info.isDir, hlink] at hc

/-- the tail of `restoreFile`: the deferred `Close`, then the result of the body -/
theorem sat_restoreFile_tail {K : Key → Prop} {w0 w2 : World} {f : WHandle} {r : Except Err Unit}
    (h2 : S.Chg .base K w0 w2) :
    Sat (do
      let _ ← BFS.attempt (hClose f)
      match r with
      | .ok () => pure ()
      | .error e => M.throw e : M Unit) w2 (fun w' _ => S.Chg .base K w0 w') := by
  apply Sat.seq (P := S.Chg .base K w0)
    (Sat.attempt_any ((sat_hClose (wh := f) (w := w2)).mono (fun _ _ h => h2.same_right h.1))) (fun _ h => h)
  intro _ w3 h3
  cases r with
  | ok u => exact Sat.pure h3
  | error e => exact Sat.throw h3

/-- `restoreFile` skips its `Remove` only when `Lstat` reported nothing or a regular file: then the key
is no symlink -/
theorem replaced_false_notLink {v : View} {k : Key} {baseFi : Option Info}
    (hc : (match baseFi with
      | some b => !b.isRegular
      | none => false) = false)
    (hsome : ∀ i, baseFi = some i → ∃ n, v k = some n ∧ InfoForL i n) (hnone : baseFi = none → v k = none) :
    ¬ isLinkAt v k := by
  apply notLink_of_lexists hsome hnone
  intro i hi hlink
  subst hi
  simp [Info.isRegular, hlink] at hc

/-- whatever the backup holds at `k`: `restoreFile` touches at most the keys at or below `k` -/
theorem sat_restoreFile_chg_below {k : Key} {bi : Info} {w : World} (hg : S.G w.fs) (hk : PKey k) (hne : k ≠ [])
    (hacc : NoLinkAnc (S.view .base w.fs) k) :
    Sat (restoreFile cfg (kp k) bi) w (fun w' _ => S.Chg .base (k <+: ·) w w') := by
  unfold restoreFile
  apply Sat.seq (P := S.Chg .base (k <+: ·) w)
    ((sat_primOpen_same (fun m' r h => S.pure_open h)).mono (fun _ _ h => LSim.Chg.of_same hg h)) (fun _ h => h)
  intro f w1 h1
  apply Sat.seq (P := S.Chg .base (k <+: ·) w) (Sat.attempt_any _) (fun _ h => h)
  · intro r w2 h2
    exact sat_restoreFile_tail h2
  · apply Sat.seq (P := S.Chg .base (k <+: ·) w)
      ((sat_hStat_same (wh := f)).mono (fun _ _ h => h1.same_right h)) (fun _ h => h)
    intro fi w2 h2
    have hg2 := h2.good
    have hacc2 : NoLinkAnc (S.view .base w2.fs) k := h2.noLinkAnc hacc
    apply Sat.bind
    apply (sat_lexists_fp hg2 hk hacc2).mono
    intro w3 r3 ⟨hs3, hsome, hnone⟩
    have h3 : S.Chg .base (k <+: ·) w w3 := h2.same_right hs3
    cases r3 with
    | error e => exact h3
    | ok baseFi =>
      simp only
      have hg3 := h3.good
      have hacc3 : NoLinkAnc (S.view .base w3.fs) k := h3.noLinkAnc hacc
      have hcopy : ∀ w4, S.Chg .base (k <+: ·) w w4 → AccF (S.view .base w4.fs) k →
          Sat (copyFile cfg .base (kp k) bi f) w4 (fun w' _ => S.Chg .base (k <+: ·) w w') :=
        fun w4 h4 ha4 => (sat_copyFile_chg h4.good hk ha4).mono (fun _ _ h => h4.step h eq_imp_below)
      apply Sat.ite
      · intro _
        apply Sat.bind
        apply (sat_removeAll_fp hg3 hk hne hacc3).mono
        intro w4 r4 ⟨hc4, hnl⟩
        have h4 := h3.trans hc4
        cases r4 with
        | error e => exact h4
        | ok u => exact hcopy w4 h4 ⟨h4.noLinkAnc hacc, hnl rfl⟩
      · intro _
        apply Sat.bind
        apply (sat_whenRemove_fp (S := S) hg3 hk hne hacc3 ?_).mono
        · intro w4 r4 ⟨hc4, hok⟩
          have h4 := h3.step hc4 eq_imp_below
          cases r4 with
          | error e => exact h4
          | ok u => exact hcopy w4 h4 (hok rfl)
        · intro hc
          rw [hs3.fs]
          exact replaced_false_notLink hc (fun i h => hsome i (by rw [h])) (fun h => hnone (by rw [h]))

/-- the backup copy is a regular file (and no proper ancestor of the key is a symlink in the backup
view, so that the handle `Open` returns IS the copy): `restoreFile` makes room with `Remove`, never
`RemoveAll`, and touches the key itself only — any fault plan, whatever it returns -/
theorem sat_restoreFile_chg_file {k : Key} {bi : Info} {w : World} (hg : S.G w.fs) (hk : PKey k) (hne : k ≠ [])
    (hacc : NoLinkAnc (S.view .base w.fs) k) (hbacc : NoLinkAnc (S.view .backup w.fs) k)
    (hbf : (S.view .backup w.fs).isFileAt k) :
    Sat (restoreFile cfg (kp k) bi) w (fun w' _ => S.Chg .base (· = k) w w') := by
  obtain ⟨c, mt, hv⟩ := hbf
  unfold restoreFile
  apply Sat.bind
  apply (sat_open_ro (S := S) (s := .backup) hg hk ⟨hbacc, isLinkAt_not_file ⟨c, mt, hv⟩⟩).mono
  intro w1 r1 ⟨hs1, hwh, _⟩
  have h1 : S.Chg .base (· = k) w w1 := LSim.Chg.of_same hg hs1
  cases r1 with
  | error e => exact h1
  | ok f =>
    obtain ⟨hside, hH, _⟩ := hwh f rfl
    simp only
    apply Sat.seq (P := S.Chg .base (· = k) w) (Sat.attempt_any _) (fun _ h => h)
    · intro r w2 h2
      exact sat_restoreFile_tail h2
    · apply Sat.bind
      apply (sat_hStat (S := S) (wh := f) (k := k) (n := .file c mt) (hs1.fs ▸ hg) (by rw [hside]; exact hH)
        (by rw [hside, hs1.fs]; exact hv)).mono
      intro w2 r2 ⟨hs2, _, hfi⟩
      have h2 : S.Chg .base (· = k) w w2 := h1.same_right hs2
      cases r2 with
      | error e => exact h2
      | ok fi =>
        have hfireg : fi.isRegular = true := by
          have := (hfi fi rfl).1
          simp [Info.isRegular, this, Node.kind]
        simp only
        have hg2 := h2.good
        have hacc2 : NoLinkAnc (S.view .base w2.fs) k := h2.noLinkAnc hacc
        apply Sat.bind
        apply (sat_lexists_fp hg2 hk hacc2).mono
        intro w3 r3 ⟨hs3, hsome, hnone⟩
        have h3 : S.Chg .base (· = k) w w3 := h2.same_right hs3
        cases r3 with
        | error e => exact h3
        | ok baseFi =>
          simp only [hfireg, Bool.not_true, Bool.false_eq_true, if_false]
          have hg3 := h3.good
          have hacc3 : NoLinkAnc (S.view .base w3.fs) k := h3.noLinkAnc hacc
          apply Sat.bind
          apply (sat_whenRemove_fp (S := S) hg3 hk hne hacc3 ?_).mono
          · intro w4 r4 ⟨hc4, hok⟩
            have h4 := h3.trans hc4
            cases r4 with
            | error e => exact h4
            | ok u => exact (sat_copyFile_chg h4.good hk (hok rfl)).mono (fun _ _ h => h4.trans h)
          · intro hc
            rw [hs3.fs]
            exact replaced_false_notLink hc (fun i h => hsome i (by rw [h])) (fun h => hnone (by rw [h]))

/-- restoring a file touches its key, and the keys below it only when the backup copy found there
is not a regular file (`FileReach`) -/
theorem sat_restoreFile_fp {k : Key} {bi : Info} {w : World} (hg : S.G w.fs) (hk : PKey k) (hne : k ≠ [])
    (hacc : NoLinkAnc (S.view .base w.fs) k) (hbacc : NoLinkAnc (S.view .backup w.fs) k) :
    Sat (restoreFile cfg (kp k) bi) w (fun w' _ => S.Chg .base (FileReach (S.view .backup w.fs) k) w w') := by
  by_cases hbf : (S.view .backup w.fs).isFileAt k
  · exact (sat_restoreFile_chg_file hg hk hne hacc hbacc hbf).mono (fun _ _ h => h.mono (fun j e => Or.inl e))
  · exact (sat_restoreFile_chg_below hg hk hne hacc).mono (fun _ _ h => h.mono (fun j hj => Or.inr ⟨hbf, hj⟩))

theorem sat_restoreFileAct_fp {infos : List (Path × Option Info)} {k : Key} {w : World}
    (hg : S.G w.fs) (hk : PKey k) (hne : k ≠ [])
    (hacc : NoLinkAnc (S.view .base w.fs) k) (hbacc : NoLinkAnc (S.view .backup w.fs) k) :
    Sat (restoreFileAct cfg infos (kp k)) w
      (fun w' _ => S.Chg .base (FileReach (S.view .backup w.fs) k) w w') := by
  unfold restoreFileAct
  cases infoFor infos (kp k) with
  | none => exact Sat.pure (LSim.Chg.refl hg)
  | some i => exact sat_restoreFile_fp hg hk hne hacc hbacc

/-- `copySymlink` towards the base: `Readlink` on the backup (read-only), then `Symlink` and
`Lchown` on the base — neither follows: confined to the key (a symlink may appear AT the key) -/
theorem sat_copySymlink_fp {k : Key} {i : Info} {w : World} (hg : S.G w.fs) (hk : PKey k)
    (hacc : NoLinkAnc (S.view .base w.fs) k) :
    Sat (copySymlink cfg .backup .base (kp k) i) w (fun w' _ => S.ChgL .base (· = k) w w') := by
  unfold copySymlink
  apply Sat.wrapped_any
  apply Sat.ite
  · intro _; exact Sat.throw (LSim.ChgL.refl hg)
  · intro _
    apply Sat.bind
    unfold primStr
    apply Sat.bind
    apply (sat_primCall_same (fun m' r h => S.pure_readlink h)).mono
    intro w1 r1 hs1
    have h1 : S.ChgL .base (· = k) w w1 := LSim.ChgL.of_same hg hs1
    cases r1 with
    | error e => exact h1
    | ok ret =>
      cases ret with
      | str t =>
        simp only
        apply Sat.pure
        simp only
        have hg1 := h1.good
        have hacc1 : NoLinkAnc (S.view .base w1.fs) k := by rw [hs1.fs]; exact hacc
        apply Sat.bind
        apply (sat_primUnit_chgL (S := S) (s := .base) (c := .symlink t (kp k)) (K := (· = k)) hg1
          (fun m' r h => by
            obtain ⟨g, o, f⟩ := S.symlink_frame hg1 hk hacc1 h
            exact ⟨g, o, fun j hj => f j hj⟩)).mono
        intro w2 r2 hc2
        have h2 := h1.trans hc2
        cases r2 with
        | error e => exact h2
        | ok u =>
          simp only
          have hacc2 : NoLinkAnc (S.view .base w2.fs) k := hc2.noLinkAnc_at hacc1
          apply Sat.ignorePerm_any
          apply (sat_primUnit_chg (S := S) (s := .base) (c := .lchown (kp k) i.uid i.gid) (K := (· = k)) hc2.good
            (fun m' r h => by
              obtain ⟨g, o, f, l, _⟩ := S.lchown_frame hc2.good hk hacc2 h
              exact ⟨g, o, fun j hj => f j hj, l⟩)).mono
          intro w3 _ hc3
          exact h2.trans hc3.toChgL
      | _ => exact Sat.throw h1

/-- restoring a symlink: `Lstat` on both sides, `Remove` of whatever sits at the path (NOT followed),
`Readlink` on the backup, `Symlink`, `Lchown` (not followed): confined to the key -/
theorem sat_restoreSymlink_fp {k : Key} {bi : Info} {w : World} (hg : S.G w.fs) (hk : PKey k) (hne : k ≠ [])
    (hacc : NoLinkAnc (S.view .base w.fs) k) :
    Sat (restoreSymlink cfg (kp k) bi) w (fun w' _ => S.ChgL .base (· = k) w w') := by
  unfold restoreSymlink
  apply Sat.seq (P := S.ChgL .base (· = k) w)
    ((sat_lexists_same S).mono (fun _ _ h => LSim.ChgL.of_same hg h)) (fun _ h => h)
  intro o w1 h1
  cases o with
  | none => exact Sat.throw h1
  | some bfi =>
    simp only
    apply Sat.seq (P := S.ChgL .base (· = k) w)
      ((sat_lexists_same S).mono (fun _ _ h => h1.same_right h)) (fun _ h => h)
    intro cur w2 h2
    have hacc2 : NoLinkAnc (S.view .base w2.fs) k := h2.noLinkAnc_at hacc
    apply Sat.seq (P := fun w3 => S.ChgL .base (· = k) w w3) _ (fun _ h => h)
    · intro _ w3 h3
      exact (sat_copySymlink_fp (i := bi) h3.good hk (h3.noLinkAnc_at hacc)).mono (fun _ _ h => h3.trans h)
    · apply Sat.whenM_any _ h2
      exact (sat_remove_fp h2.good hk hne hacc2).mono (fun _ _ h => h2.trans h.1.toChgL)

theorem sat_restoreLinkAct_fp {infos : List (Path × Option Info)} {k : Key} {w : World}
    (hg : S.G w.fs) (hk : PKey k) (hne : k ≠ []) (hacc : NoLinkAnc (S.view .base w.fs) k) :
    Sat (restoreLinkAct cfg infos (kp k)) w (fun w' _ => S.ChgL .base (· = k) w w') := by
  unfold restoreLinkAct
  cases infoFor infos (kp k) with
  | none => exact Sat.pure (LSim.ChgL.refl hg)
  | some i => exact sat_restoreSymlink_fp hg hk hne hacc

/-! ### a symlink is created only from a backup entry that is a symlink

The contract `LSim` says what `Readlink` returns on a symlink; it is silent about other entries.  The
extra law below (true of the OS model: `EINVAL`) makes `restoreSymlink` stop before `Symlink` when the
backup entry is not a symlink, so the base gets a NEW symlink only at keys whose backup entry is one. -/

/-- `Readlink` through the backup side fails on an entry that is not a symlink -/
def LSim.ReadlinkStrict (S : LSim cfg) : Prop :=
  ∀ {m k n}, S.G m → PKey k → S.view .backup m k = some n → n.isLink = false →
    ∃ e, (cfg.side .backup).call m (.readlink (kp k)) = (m, .error e)

theorem sat_copySymlink_nolink (hrl : S.ReadlinkStrict) {k : Key} {i : Info} {n : Node} {w : World}
    (hg : S.G w.fs) (hk : PKey k) (hv : S.view .backup w.fs k = some n) (hn : n.isLink = false) :
    Sat (copySymlink cfg .backup .base (kp k) i) w (fun w' _ => SameFS w w') := by
  unfold copySymlink
  apply Sat.wrapped_any
  apply Sat.ite
  · intro _; exact Sat.throw (SameFS.refl w)
  · intro _
    apply Sat.bind
    unfold primStr
    apply Sat.bind
    apply (sat_primCall_pure (fun m' r h => S.pure_readlink h)).mono
    intro w1 r1 ⟨hs1, hr⟩
    obtain ⟨e, he⟩ := hrl hg hk hv hn
    rw [he] at hr
    rcases hr with rfl | ⟨_, rfl⟩ <;> exact hs1

/-- the backup entry is absent or not a symlink: `restoreSymlink` creates no symlink -/
theorem sat_restoreSymlink_nolink (hrl : S.ReadlinkStrict) {k : Key} {bi : Info} {w : World}
    (hg : S.G w.fs) (hk : PKey k) (hne : k ≠ [])
    (hacc : NoLinkAnc (S.view .base w.fs) k) (hbacc : NoLinkAnc (S.view .backup w.fs) k)
    (hnl : ¬ isLinkAt (S.view .backup w.fs) k) :
    Sat (restoreSymlink cfg (kp k) bi) w (fun w' _ => S.Chg .base (· = k) w w') := by
  unfold restoreSymlink
  apply Sat.bind
  apply (sat_lexists_fp (s := .backup) hg hk hbacc).mono
  intro w1 r ⟨hs1, hsome, _⟩
  have h1 : S.Chg .base (· = k) w w1 := LSim.Chg.of_same hg hs1
  cases r with
  | error e => exact h1
  | ok o =>
    cases o with
    | none => exact Sat.throw h1
    | some bfi =>
      obtain ⟨n, hv, _⟩ := hsome bfi rfl
      have hn : n.isLink = false := by
        cases n with
        | link t mt => exact absurd ⟨t, mt, hv⟩ hnl
        | file c mt => rfl
        | dir mt => rfl
      simp only
      apply Sat.seq (P := S.Chg .base (· = k) w)
        ((sat_lexists_same S).mono (fun _ _ h => h1.same_right h)) (fun _ h => h)
      intro cur w2 h2
      apply Sat.seq (P := S.Chg .base (· = k) w) _ (fun _ h => h)
      · intro _ w3 h3
        have hv3 : S.view .backup w3.fs k = some n := by
          have e : S.view .backup w3.fs = S.view .backup w.fs := h3.other
          rw [e]; exact hv
        exact (sat_copySymlink_nolink hrl (i := bi) h3.good hk hv3 hn).mono (fun _ _ h => h3.same_right h)
      · apply Sat.whenM_any _ h2
        exact (sat_remove_fp h2.good hk hne (h2.noLinkAnc hacc)).mono (fun _ _ h => h2.trans h.1)

/-- restoring a symlink is confined to its key, and creates a symlink there only when the backup
entry of the key is a symlink -/
theorem sat_restoreLinkAct_fp2 (hrl : S.ReadlinkStrict) {infos : List (Path × Option Info)} {k : Key} {w : World}
    (hg : S.G w.fs) (hk : PKey k) (hne : k ≠ [])
    (hacc : NoLinkAnc (S.view .base w.fs) k) (hbacc : NoLinkAnc (S.view .backup w.fs) k) :
    Sat (restoreLinkAct cfg infos (kp k)) w (fun w' _ => S.ChgL .base (· = k) w w' ∧
      (¬ isLinkAt (S.view .backup w.fs) k → S.Chg .base (· = k) w w')) := by
  by_cases hl : isLinkAt (S.view .backup w.fs) k
  · exact (sat_restoreLinkAct_fp hg hk hne hacc).mono (fun _ _ h => ⟨h, fun hn => absurd hl hn⟩)
  · unfold restoreLinkAct
    cases infoFor infos (kp k) with
    | none => exact Sat.pure ⟨LSim.ChgL.refl hg, fun _ => LSim.Chg.refl hg⟩
    | some i =>
      exact (sat_restoreSymlink_nolink hrl hg hk hne hacc hbacc hl).mono (fun _ _ h => ⟨h.toChgL, fun _ => h⟩)

/-- the clean-up of one tracked key: `Lstat`, then `Remove` (never `RemoveAll`, never followed) of
that key in the backup -/
theorem sat_cleanupAct_fp {k : Key} {w : World} (hg : S.G w.fs) (hk : PKey k) (hne : k ≠ [])
    (hacc : NoLinkAnc (S.view .backup w.fs) k) :
    Sat (cleanupAct cfg (kp k)) w (fun w' _ => S.Chg .backup (· = k) w w') := by
  unfold cleanupAct
  apply Sat.seq (P := S.Chg .backup (· = k) w)
    ((sat_lexists_same S).mono (fun _ _ h => LSim.Chg.of_same hg h)) (fun _ h => h)
  intro o w1 h1
  cases o with
  | none => exact Sat.pure h1
  | some i =>
    exact (sat_remove_fp h1.good hk hne (h1.noLinkAnc hacc)).mono (fun _ _ h => h1.trans h.1)

end L
end BFS
